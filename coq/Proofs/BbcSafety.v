(* BbcSafety.v - C12 (BBC part): what the connector's transmission table does with faulty fragment
   sequences.  Trains T_0..T_{m-1} with pairwise distinct transmission ids, a received sequence of
   references (train index, fragment index) - arbitrary references cover drops, duplications,
   reorderings and interleavings - and the locality hypothesis "fewer than sixteen in a row":
   between two consecutively received fragments a, b of one train the displacement of b from the
   expected next index a+1 is below 16 in absolute value.  *)
From DTN Require Import Base Bbc BbcProofs.
From Coq Require Import ZifyN ZifyNat ZifyBool.
Local Open Scope nat_scope.

(* ---------- transmission table ---------- *)
Lemma tbl_find_remove_same tb k : tbl_find (tbl_remove tb k) k = None.
Proof.
  induction tb as [|[k0 v] tb IH]; cbn [tbl_remove tbl_find]; [reflexivity|].
  destruct (N.eqb k0 k) eqn:E; [exact IH|]. cbn [tbl_find]. rewrite E. exact IH.
Qed.

Lemma tbl_find_remove_other tb k k' : k <> k' -> tbl_find (tbl_remove tb k) k' = tbl_find tb k'.
Proof.
  intros Hne. induction tb as [|[k0 v] tb IH]; cbn [tbl_remove tbl_find]; [reflexivity|].
  destruct (N.eqb k0 k) eqn:E.
  - apply N.eqb_eq in E. subst k0. rewrite IH.
    destruct (N.eqb k k') eqn:E'; [apply N.eqb_eq in E'; congruence|reflexivity].
  - cbn [tbl_find]. rewrite IH. reflexivity.
Qed.

Lemma tbl_find_set_same tb k v : tbl_find (tbl_set tb k v) k = Some v.
Proof. unfold tbl_set. cbn [tbl_find]. rewrite N.eqb_refl. reflexivity. Qed.

Lemma tbl_find_set_other tb k k' v : k <> k' -> tbl_find (tbl_set tb k v) k' = tbl_find tb k'.
Proof.
  intros Hne. unfold tbl_set. cbn [tbl_find].
  destruct (N.eqb k k') eqn:E; [apply N.eqb_eq in E; congruence|].
  apply tbl_find_remove_other. exact Hne.
Qed.

Lemma read_fragment_tid t f t' : read_fragment t f = Some t' -> i_tid t' = i_tid t.
Proof.
  unfold read_fragment. destruct (i_finished t); [discriminate|].
  destruct (negb (N.eqb (f_tid f) (i_tid t))); [discriminate|].
  destruct (negb (N.eqb (f_seq f) (next_seq (i_prev t)))); [discriminate|].
  destruct (f_start f); [discriminate|]. intros H. injection H as H. subst t'. reflexivity.
Qed.

Lemma new_incoming_tid f t : new_incoming f = Some t -> i_tid t = f_tid f.
Proof.
  unfold new_incoming. destruct (f_start f); [|discriminate]. intros H. injection H as H. subst t. reflexivity.
Qed.

(* a fragment only touches the table entry of its own transmission id *)
Lemma handle_fragment_other decodes tb f tb' o tid' :
  handle_fragment decodes tb f = (tb', o) -> f_tid f <> tid' ->
  (forall t, tbl_find tb (f_tid f) = Some t -> i_tid t = f_tid f) ->
  tbl_find tb' tid' = tbl_find tb tid'.
Proof.
  intros H Hne Hwf. unfold handle_fragment in H.
  destruct (f_fail f); [apply (f_equal fst) in H; cbn [fst] in H; subst tb'; reflexivity|].
  destruct (tbl_find tb (f_tid f)) as [t|] eqn:Ef.
  - pose proof (Hwf t eq_refl) as Ht.
    destruct (read_fragment t f) as [t'|] eqn:ER.
    + pose proof (read_fragment_tid _ _ _ ER) as Ht'. rewrite Ht', Ht in H.
      destruct (i_finished t'); [destruct (decodes (i_payload t'))|]; apply (f_equal fst) in H; cbn [fst] in H; subst tb';
        rewrite ?tbl_find_remove_other by exact Hne; rewrite tbl_find_set_other by exact Hne; reflexivity.
    + rewrite Ht in H. apply (f_equal fst) in H; cbn [fst] in H; subst tb'. apply tbl_find_remove_other; exact Hne.
  - destruct (new_incoming f) as [t'|] eqn:EN.
    + pose proof (new_incoming_tid _ _ EN) as Ht'. rewrite Ht' in H.
      destruct (i_finished t'); [destruct (decodes (i_payload t'))|]; apply (f_equal fst) in H; cbn [fst] in H; subst tb';
        rewrite ?tbl_find_remove_other by exact Hne; rewrite tbl_find_set_other by exact Hne; reflexivity.
    + apply (f_equal fst) in H; cbn [fst] in H; subst tb'. reflexivity.
Qed.

(* ---------- sequence numbers of a train ---------- *)
Lemma seq_iter_val k : forall s, (s < 16)%N -> seq_iter k s = ((s + N.of_nat k) mod 16)%N.
Proof.
  induction k as [|k IH]; intros s Hs.
  - cbn [seq_iter]. rewrite N.add_0_r. symmetry. apply N.mod_small. exact Hs.
  - cbn [seq_iter]. rewrite IH by apply next_seq_lt. rewrite (next_seq_small s Hs). lia.
Qed.

Definition dfrag : fragment := {| f_tid := 0%N; f_ident := 0%N; f_payload := [] |}.

Lemma shape_length tid fs s st : train_shape tid s st fs -> 1 <= length fs.
Proof. intros H. inversion H; cbn [length]; lia. Qed.

(* indexed reading of [train_shape] *)
Lemma shape_nth tid : forall fs s st, train_shape tid s st fs -> forall i, i < length fs ->
  f_tid (nth i fs dfrag) = tid /\ f_fail (nth i fs dfrag) = false
  /\ f_seq (nth i fs dfrag) = seq_iter (S i) s
  /\ f_start (nth i fs dfrag) = (if Nat.eqb i 0 then st else false)
  /\ f_end (nth i fs dfrag) = Nat.eqb (S i) (length fs).
Proof.
  intros fs s st H. induction H as [s st f H1 H2 H3 H4 H5 | s st f fs H1 H2 H3 H4 H5 H6 H7 IH]; intros i Hi.
  - cbn [length] in Hi. assert (i = 0) by lia. subst i. cbn. repeat split; assumption.
  - destruct i as [|i].
    + cbn [nth seq_iter Nat.eqb length]. repeat split; try assumption.
      pose proof (shape_length _ _ _ _ H7). destruct (length fs); [lia|]. exact H3.
    + cbn [length] in Hi. assert (Hi' : i < length fs) by lia.
      destruct (IH i Hi') as (A & B & C & D & E). cbn [nth length].
      repeat split; try assumption.
      destruct (Nat.eqb i 0); exact D.
Qed.

Lemma shape_seq tid fs i : train_shape tid 0%N true fs -> i < length fs ->
  f_seq (nth i fs dfrag) = (N.of_nat (S i) mod 16)%N.
Proof.
  intros H Hi. destruct (shape_nth tid fs _ _ H i Hi) as (_ & _ & C & _). rewrite C.
  rewrite seq_iter_val by lia. reflexivity.
Qed.

Lemma firstn_S_nth {A} (d : A) : forall l i, i < length l -> firstn (S i) l = firstn i l ++ [nth i l d].
Proof.
  induction l as [|x l IH]; intros i Hi; [cbn in Hi; lia|].
  destruct i as [|i]; [reflexivity|]. cbn [length] in Hi.
  change (firstn (S (S i)) (x :: l)) with (x :: firstn (S i) l). rewrite (IH i) by lia. reflexivity.
Qed.

Lemma payload_prefix_S (T : list fragment) i : i < length T ->
  concat (map f_payload (firstn (S i) T)) = concat (map f_payload (firstn i T)) ++ f_payload (nth i T dfrag).
Proof.
  intros Hi. rewrite (firstn_S_nth dfrag) by exact Hi. rewrite map_app, concat_app. cbn. rewrite app_nil_r. reflexivity.
Qed.

Lemma handle_all_app decodes : forall l1 l2 tb,
  handle_all decodes tb (l1 ++ l2) =
  let '(tb1, o1) := handle_all decodes tb l1 in
  let '(tb2, o2) := handle_all decodes tb1 l2 in (tb2, o1 ++ o2).
Proof.
  induction l1 as [|f l1 IH]; intros l2 tb.
  - cbn [app handle_all]. destruct (handle_all decodes tb l2). reflexivity.
  - cbn [app handle_all]. destruct (handle_fragment decodes tb f) as [tb1 o1].
    rewrite IH. destruct (handle_all decodes tb1 l1) as [tb2 o2].
    destruct (handle_all decodes tb2 l2) as [tb3 o3]. rewrite app_assoc. reflexivity.
Qed.

(* ---------- received sequences ---------- *)
Definition near (a b : nat) : Prop := a <= b + 14 /\ b <= a + 16.

Definition upd (last : nat -> option nat) (k b : nat) : nat -> option nat :=
  fun k' => if Nat.eqb k' k then Some b else last k'.

(* [last k] = index of the most recently received fragment of train k *)
Fixpoint local_from (last : nat -> option nat) (r : list (nat * nat)) : Prop :=
  match r with
  | [] => True
  | (k, b) :: r' =>
      match last k with Some a => near a b | None => True end /\ local_from (upd last k b) r'
  end.

Definition run_last (last : nat -> option nat) (r : list (nat * nat)) : nat -> option nat :=
  fold_left (fun l ki => upd l (fst ki) (snd ki)) r last.

(* indices of train k in the received sequence, in order of reception *)
Definition ksub (k : nat) (r : list (nat * nat)) : list nat :=
  map snd (filter (fun ki => Nat.eqb (fst ki) k) r).

Lemma ksub_app k r1 r2 : ksub k (r1 ++ r2) = ksub k r1 ++ ksub k r2.
Proof. unfold ksub. rewrite filter_app, map_app. reflexivity. Qed.

Lemma ksub_single_same k b : ksub k [(k, b)] = [b].
Proof. unfold ksub. cbn [filter fst]. rewrite Nat.eqb_refl. reflexivity. Qed.
Lemma ksub_single_other k k0 b : k0 <> k -> ksub k [(k0, b)] = [].
Proof. intros H. unfold ksub. cbn [filter fst]. apply Nat.eqb_neq in H. rewrite H. reflexivity. Qed.

(* declarative form of the locality hypothesis: any two neighbours in the per-train subsequence *)
Definition local_list (l : list nat) : Prop :=
  forall l1 a b l2, l = l1 ++ a :: b :: l2 -> near a b.
Definition locality (r : list (nat * nat)) : Prop := forall k, local_list (ksub k r).

Lemma run_last_app last r1 r2 : run_last last (r1 ++ r2) = run_last (run_last last r1) r2.
Proof. unfold run_last. apply fold_left_app. Qed.

Lemma run_last_ksub : forall r last k,
  run_last last r k = match rev (ksub k r) with [] => last k | b :: _ => Some b end.
Proof.
  intros r. induction r as [|[k0 b0] r IH] using rev_ind; intros last k; [reflexivity|].
  rewrite run_last_app, ksub_app. cbn [run_last fold_left fst snd]. unfold upd at 1.
  unfold ksub at 2. cbn [filter fst].
  destruct (Nat.eqb k k0) eqn:E.
  - apply Nat.eqb_eq in E. subst k0. rewrite Nat.eqb_refl. cbn [map snd]. rewrite rev_app_distr. reflexivity.
  - rewrite Nat.eqb_sym, E. cbn [map]. rewrite app_nil_r. apply IH.
Qed.

Lemma local_list_tail a l : local_list (a :: l) -> local_list l.
Proof. intros H l1 x y l2 E. apply (H (a :: l1) x y l2). rewrite E. reflexivity. Qed.

(* the declarative form implies the threaded one *)
Lemma locality_local_from : forall r last,
  (forall k, match last k with Some a => local_list (a :: ksub k r) | None => local_list (ksub k r) end) ->
  local_from last r.
Proof.
  induction r as [|[k b] r IH]; intros last H; [exact I|].
  cbn [local_from]. split.
  - specialize (H k). unfold ksub in H. cbn [filter fst] in H. rewrite Nat.eqb_refl in H. cbn [map snd] in H.
    destruct (last k) as [a|]; [|exact I]. apply (H [] a b _ eq_refl).
  - apply IH. intros k'. specialize (H k'). unfold upd. unfold ksub in H. cbn [filter fst] in H.
    rewrite (Nat.eqb_sym k k') in H.
    destruct (Nat.eqb k' k) eqn:E.
    + cbn [map snd] in H. destruct (last k'); [apply local_list_tail in H|]; exact H.
    + exact H.
Qed.

Lemma locality_local_from_none r : locality r -> local_from (fun _ => None) r.
Proof. intros H. apply locality_local_from. intros k. apply H. Qed.

(* ---------- the invariant ---------- *)
Section Safety.
Variable decodes : list N -> bool.
Variable Ts : list (list fragment).
Variable tids : list N.
Hypothesis Hlen : length Ts = length tids.
Hypothesis Hshape : forall k, k < length Ts -> train_shape (nth k tids 0%N) 0%N true (nth k Ts []).
Hypothesis Hnodup : NoDup tids.

Definition tr (k : nat) : list fragment := nth k Ts [].
Definition tidk (k : nat) : N := nth k tids 0%N.
Definition frag_at (ki : nat * nat) : fragment := nth (snd ki) (tr (fst ki)) dfrag.
Definition valid_ref (ki : nat * nat) : Prop := fst ki < length Ts /\ snd ki < length (tr (fst ki)).
Definition blob_of (k : nat) : list N := concat (map f_payload (tr k)).

(* every blob handed to the decoder is the blob of the train with that transmission id *)
Definition good_out (o : conn_out) : Prop :=
  match o with
  | OutBlob tid blob => exists k, k < length Ts /\ tidk k = tid /\ blob = blob_of k
  | _ => True
  end.

(* entry for train k holds exactly fragments 0..j, j the last received index, not finished *)
Definition entry_ok (k j : nat) (t : incoming) : Prop :=
  S j < length (tr k)
  /\ i_payload t = concat (map f_payload (firstn (S j) (tr k)))
  /\ i_prev t = f_seq (nth j (tr k) dfrag)
  /\ i_finished t = false
  /\ i_tid t = tidk k.

Definition Inv (last : nat -> option nat) (tb : table) : Prop :=
  forall k t, k < length Ts -> tbl_find tb (tidk k) = Some t ->
    exists j, last k = Some j /\ entry_ok k j t.

Lemma tidk_inj k k' : k < length Ts -> k' < length Ts -> tidk k = tidk k' -> k = k'.
Proof.
  intros H1 H2 E. unfold tidk in E. rewrite Hlen in H1, H2.
  apply (proj1 (NoDup_nth tids 0%N) Hnodup k k' H1 H2 E).
Qed.

Lemma Inv_step last tb tb1 k b :
  k < length Ts -> Inv last tb ->
  (forall k', k' < length Ts -> k' <> k -> tbl_find tb1 (tidk k') = tbl_find tb (tidk k')) ->
  (forall t, tbl_find tb1 (tidk k) = Some t -> entry_ok k b t) ->
  Inv (upd last k b) tb1.
Proof.
  intros Hk HI Hother Hsame k' t Hk' Hf. unfold upd.
  destruct (Nat.eqb k' k) eqn:E.
  - apply Nat.eqb_eq in E. subst k'. exists b. split; [reflexivity|]. apply Hsame. exact Hf.
  - apply Nat.eqb_neq in E. rewrite Hother in Hf by assumption. apply (HI k' t Hk' Hf).
Qed.

Lemma frag_facts k b : k < length Ts -> b < length (tr k) ->
  let f := frag_at (k, b) in
  f_tid f = tidk k /\ f_fail f = false /\ f_seq f = (N.of_nat (S b) mod 16)%N
  /\ f_start f = Nat.eqb b 0 /\ f_end f = Nat.eqb (S b) (length (tr k)).
Proof.
  intros Hk Hb. cbv zeta. unfold frag_at. cbn [fst snd].
  destruct (shape_nth _ _ _ _ (Hshape k Hk) b Hb) as (A & B & _ & D & E).
  pose proof (shape_seq _ _ b (Hshape k Hk) Hb) as C.
  fold (tr k) in *. fold (tidk k) in *.
  repeat split; try assumption. rewrite D. destruct (Nat.eqb b 0); reflexivity.
Qed.

Lemma seq_at k i : k < length Ts -> i < length (tr k) ->
  f_seq (nth i (tr k) dfrag) = (N.of_nat (S i) mod 16)%N.
Proof. intros Hk Hi. apply (shape_seq _ _ i (Hshape k Hk) Hi). Qed.

Lemma other_tid k k' : k < length Ts -> k' < length Ts -> k' <> k -> tidk k <> tidk k'.
Proof. intros H1 H2 Hne E. apply Hne. symmetry. apply tidk_inj; assumption. Qed.

(* what happens to one received fragment, by cases; used by safety and detection *)
Lemma step_ok last tb k b tb1 o1 :
  Inv last tb -> valid_ref (k, b) ->
  match last k with Some a => near a b | None => True end ->
  handle_fragment decodes tb (frag_at (k, b)) = (tb1, o1) ->
  Inv (upd last k b) tb1 /\ Forall good_out o1.
Proof.
  intros HI [Hk Hb] Hnear H. cbn [fst snd] in Hk, Hb.
  destruct (frag_facts k b Hk Hb) as (Ftid & Ffail & Fseq & Fst & Fend). cbv zeta in *.
  set (f := frag_at (k, b)) in *.
  unfold handle_fragment in H. rewrite Ffail, Ftid in H.
  destruct (tbl_find tb (tidk k)) as [t|] eqn:Efind.
  - destruct (HI k t Hk Efind) as (j & Hlast & Hj & Hpay & Hprev & Hfin & Htid).
    rewrite Hlast in Hnear. destruct Hnear as [Hn1 Hn2].
    destruct (read_fragment t f) as [t'|] eqn:ER.
    + (* accepted: then b = j + 1 *)
      unfold read_fragment in ER. rewrite Hfin, Ftid, Htid, N.eqb_refl in ER. cbn [negb] in ER.
      destruct (N.eqb (f_seq f) (next_seq (i_prev t))) eqn:Eseq; cbn [negb] in ER; [|discriminate].
      destruct (f_start f) eqn:Est; [discriminate|].
      injection ER as ER. subst t'. cbn [i_finished i_payload i_tid] in H.
      apply N.eqb_eq in Eseq. rewrite Hprev in Eseq.
      rewrite (seq_at k j Hk) in Eseq by lia.
      rewrite Fseq in Eseq. rewrite next_seq_small in Eseq by (apply N.mod_lt; lia).
      symmetry in Fst. apply Nat.eqb_neq in Fst.
      assert (Hb' : b = S j) by lia. clear Eseq.
      assert (Hpay' : i_payload t ++ f_payload f = concat (map f_payload (firstn (S b) (tr k)))).
      { rewrite payload_prefix_S by exact Hb. rewrite Hpay, <- Hb'. reflexivity. }
      rewrite Hpay' in H. rewrite ?Htid in H.
      destruct (f_end f) eqn:Een.
      * (* last fragment: blob complete *)
        symmetry in Fend. apply Nat.eqb_eq in Fend.
        assert (Hblob : concat (map f_payload (firstn (S b) (tr k))) = blob_of k).
        { rewrite Fend, firstn_all. reflexivity. }
        assert (Htb : tb1 = tbl_remove (tbl_set tb (tidk k)
                   {| i_tid := tidk k; i_payload := concat (map f_payload (firstn (S b) (tr k)));
                      i_finished := true; i_prev := f_seq f |}) (tidk k)
                /\ Forall good_out o1).
        { destruct (decodes _); injection H as H1 H2; subst tb1 o1; (split; [reflexivity|]).
          - constructor; [|constructor]. exists k. repeat split; [exact Hk|exact Hblob].
          - constructor; [exact I|constructor]. }
        destruct Htb as [Htb Hout]. split; [|exact Hout]. subst tb1.
        apply (Inv_step last tb); [exact Hk|exact HI| |].
        -- intros k' Hk' Hne. rewrite tbl_find_remove_other, tbl_find_set_other by (apply other_tid; assumption).
           reflexivity.
        -- intros t0 Ht0. rewrite tbl_find_remove_same in Ht0. discriminate.
      * injection H as H1 H2. subst tb1 o1. split; [|constructor].
        symmetry in Fend. apply Nat.eqb_neq in Fend.
        apply (Inv_step last tb); [exact Hk|exact HI| |].
        -- intros k' Hk' Hne. rewrite tbl_find_set_other by (apply other_tid; assumption). reflexivity.
        -- intros t0 Ht0. rewrite tbl_find_set_same in Ht0. injection Ht0 as Ht0. subst t0.
           unfold entry_ok. cbn [i_payload i_prev i_finished i_tid].
           repeat split; try reflexivity. lia.
    + (* rejected: entry deleted, failure fragment *)
      injection H as H1 H2. subst tb1 o1. rewrite Htid. split; [|constructor; [exact I|constructor]].
      apply (Inv_step last tb); [exact Hk|exact HI| |].
      * intros k' Hk' Hne. rewrite tbl_find_remove_other by (apply other_tid; assumption). reflexivity.
      * intros t0 Ht0. rewrite tbl_find_remove_same in Ht0. discriminate.
  - (* no transmission with this id *)
    unfold new_incoming in H. rewrite Fst in H.
    destruct (Nat.eqb b 0) eqn:Eb.
    + apply Nat.eqb_eq in Eb. subst b. cbn [i_finished i_payload i_tid] in H. rewrite Ftid in H.
      assert (Hpay' : f_payload f = concat (map f_payload (firstn 1 (tr k)))).
      { rewrite payload_prefix_S by exact Hb. reflexivity. }
      rewrite Hpay' in H.
      destruct (f_end f) eqn:Een.
      * symmetry in Fend. apply Nat.eqb_eq in Fend.
        assert (Hblob : concat (map f_payload (firstn 1 (tr k))) = blob_of k).
        { rewrite Fend, firstn_all. reflexivity. }
        assert (Htb : tb1 = tbl_remove (tbl_set tb (tidk k)
                   {| i_tid := tidk k; i_payload := concat (map f_payload (firstn 1 (tr k)));
                      i_finished := true; i_prev := f_seq f |}) (tidk k)
                /\ Forall good_out o1).
        { destruct (decodes _); injection H as H1 H2; subst tb1 o1; (split; [reflexivity|]).
          - constructor; [|constructor]. exists k. repeat split; [exact Hk|exact Hblob].
          - constructor; [exact I|constructor]. }
        destruct Htb as [Htb Hout]. split; [|exact Hout]. subst tb1.
        apply (Inv_step last tb); [exact Hk|exact HI| |].
        -- intros k' Hk' Hne. rewrite tbl_find_remove_other, tbl_find_set_other by (apply other_tid; assumption).
           reflexivity.
        -- intros t0 Ht0. rewrite tbl_find_remove_same in Ht0. discriminate.
      * injection H as H1 H2. subst tb1 o1. split; [|constructor].
        symmetry in Fend. apply Nat.eqb_neq in Fend.
        apply (Inv_step last tb); [exact Hk|exact HI| |].
        -- intros k' Hk' Hne. rewrite tbl_find_set_other by (apply other_tid; assumption). reflexivity.
        -- intros t0 Ht0. rewrite tbl_find_set_same in Ht0. injection Ht0 as Ht0. subst t0.
           unfold entry_ok. cbn [i_payload i_prev i_finished i_tid].
           repeat split; try reflexivity. lia.
    + injection H as H1 H2. subst tb1 o1. split; [|constructor; [exact I|constructor]].
      apply (Inv_step last tb); [exact Hk|exact HI| |].
      * intros k' Hk' Hne. reflexivity.
      * intros t0 Ht0. rewrite Efind in Ht0. discriminate.
Qed.

Lemma safety_gen : forall r last tb tb' outs,
  Inv last tb -> Forall valid_ref r -> local_from last r ->
  handle_all decodes tb (map frag_at r) = (tb', outs) ->
  Inv (run_last last r) tb' /\ Forall good_out outs.
Proof.
  induction r as [|[k b] r IH]; intros last tb tb' outs HI Hv Hl H.
  - cbn in H. injection H as H1 H2. subst tb' outs. split; [exact HI|constructor].
  - cbn [map handle_all] in H.
    destruct (handle_fragment decodes tb (frag_at (k, b))) as [tb1 o1] eqn:E1.
    destruct (handle_all decodes tb1 (map frag_at r)) as [tb2 o2] eqn:E2.
    injection H as H1 H2. subst tb' outs.
    inversion Hv as [|x l Hv1 Hv2]; subst x l. destruct Hl as [Hl1 Hl2].
    destruct (step_ok last tb k b tb1 o1 HI Hv1 Hl1 E1) as [HI1 Ho1].
    destruct (IH (upd last k b) tb1 tb2 o2 HI1 Hv2 Hl2 E2) as [HI2 Ho2].
    split; [exact HI2|]. apply Forall_app. split; assumption.
Qed.

Lemma Inv_empty : Inv (fun _ => None) [].
Proof. intros k t _ H. discriminate. Qed.

(* C12_bbc_safety *)
Theorem bbc_safety r tb' outs :
  Forall valid_ref r -> locality r ->
  handle_all decodes [] (map frag_at r) = (tb', outs) ->
  forall tid blob, In (OutBlob tid blob) outs ->
    exists k, k < length Ts /\ tidk k = tid /\ blob = blob_of k.
Proof.
  intros Hv Hl H tid blob Hin.
  destruct (safety_gen r _ [] tb' outs Inv_empty Hv (locality_local_from_none r Hl) H) as [_ Hg].
  rewrite Forall_forall in Hg. apply (Hg _ Hin).
Qed.

(* ---------- detection ---------- *)
(* a clean prefix 0..a of train k (other trains interleaved at will) leaves its entry open *)
Lemma progress : forall r tb' outs a k,
  Forall valid_ref r -> locality r -> k < length Ts ->
  handle_all decodes [] (map frag_at r) = (tb', outs) ->
  ksub k r = seq 0 (S a) -> S a < length (tr k) ->
  exists t, tbl_find tb' (tidk k) = Some t /\ entry_ok k a t.
Proof.
  intros r. induction r as [|[k0 b0] r IH] using rev_ind; intros tb' outs a k Hv Hl Hk H Hsub Ha.
  - cbn in Hsub. discriminate.
  - apply Forall_app in Hv. destruct Hv as [Hv Hv0]. inversion Hv0 as [|x l Hv1 _]; subst x l.
    assert (Hl' : locality r).
    { intros k' l1 x y l2 E. apply (Hl k' l1 x y (l2 ++ ksub k' [(k0, b0)])).
      rewrite ksub_app, E, <- app_assoc. reflexivity. }
    rewrite map_app, handle_all_app in H. cbn [map] in H.
    destruct (handle_all decodes [] (map frag_at r)) as [tb1 o1] eqn:E1.
    cbn [handle_all] in H.
    destruct (handle_fragment decodes tb1 (frag_at (k0, b0))) as [tb2 o2] eqn:E2.
    injection H as H1 H2. subst tb' outs.
    destruct (safety_gen r _ [] tb1 o1 Inv_empty Hv (locality_local_from_none r Hl') E1) as [HI1 _].
    assert (Hnear : match run_last (fun _ => None) r k0 with Some a0 => near a0 b0 | None => True end).
    { rewrite run_last_ksub. destruct (rev (ksub k0 r)) as [|a0 l] eqn:Er; [exact I|].
      apply (f_equal (@rev nat)) in Er. rewrite rev_involutive in Er. cbn [rev] in Er.
      apply (Hl k0 (rev l) a0 b0 []). rewrite ksub_app, Er, ksub_single_same, <- app_assoc. reflexivity. }
    destruct (step_ok _ tb1 k0 b0 tb2 o2 HI1 Hv1 Hnear E2) as [HI2 _].
    destruct Hv1 as [Hk0 Hb0]. cbn [fst snd] in Hk0, Hb0.
    rewrite ksub_app in Hsub.
    destruct (Nat.eqb k0 k) eqn:Ek.
    + apply Nat.eqb_eq in Ek. subst k0. rewrite ksub_single_same in Hsub.
      rewrite seq_S in Hsub. apply app_inj_tail in Hsub. destruct Hsub as [Hsub Hb]. cbn in Hb. subst b0.
      (* recompute the step explicitly *)
      destruct (frag_facts k a Hk Hb0) as (Ftid & Ffail & Fseq & Fst & Fend). cbv zeta in *.
      unfold handle_fragment in E2. rewrite Ffail, Ftid in E2.
      assert (Fend' : f_end (frag_at (k, a)) = false).
      { rewrite Fend. apply Nat.eqb_neq. lia. }
      destruct a as [|a].
      * (* first fragment: no entry before *)
        assert (Hnone : tbl_find tb1 (tidk k) = None).
        { destruct (tbl_find tb1 (tidk k)) as [t|] eqn:Ef; [|reflexivity].
          destruct (HI1 k t Hk Ef) as (j & Hj & _). rewrite run_last_ksub, Hsub in Hj. discriminate. }
        rewrite Hnone in E2. unfold new_incoming in E2. rewrite Fst in E2. cbn [Nat.eqb] in E2.
        cbn [i_finished] in E2. rewrite Fend' in E2. injection E2 as E2 _. subst tb2.
        rewrite tbl_find_set_same. eexists. split; [reflexivity|].
        destruct (HI2 k _ Hk (tbl_find_set_same _ _ _)) as (j & Hj & Hent). unfold upd in Hj.
        rewrite Nat.eqb_refl in Hj. injection Hj as Hj. subst j. exact Hent.
      * assert (Ha' : S a < length (tr k)) by lia.
        destruct (IH tb1 o1 a k Hv Hl' Hk eq_refl Hsub Ha') as (t & Hf & Hent).
        rewrite Hf in E2. destruct Hent as (_ & Hpay & Hprev & Hfin & Htid).
        rewrite read_fragment_ok in E2.
        -- cbn [i_finished] in E2. rewrite Fend' in E2. injection E2 as E2 _. subst tb2.
           rewrite tbl_find_set_same. eexists. split; [reflexivity|].
           destruct (HI2 k _ Hk (tbl_find_set_same _ _ _)) as (j & Hj & Hent). unfold upd in Hj.
           rewrite Nat.eqb_refl in Hj. injection Hj as Hj. subst j. exact Hent.
        -- exact Hfin.
        -- rewrite Ftid, Htid. reflexivity.
        -- rewrite Fseq, Hprev. rewrite (seq_at k a Hk) by lia.
           rewrite next_seq_small by (apply N.mod_lt; lia). lia.
        -- rewrite Fst. reflexivity.
    + apply Nat.eqb_neq in Ek. rewrite ksub_single_other, app_nil_r in Hsub by exact Ek.
      destruct (IH tb1 o1 a k Hv Hl' Hk eq_refl Hsub Ha) as (t & Hf & Hent).
      exists t. split; [|exact Hent].
      (* the step for another train does not touch the entry of k *)
      destruct (frag_facts k0 b0 Hk0 Hb0) as (Ftid & _). cbv zeta in Ftid.
      rewrite (handle_fragment_other _ _ _ _ _ (tidk k) E2); [exact Hf| |].
      * rewrite Ftid. apply other_tid; auto.
      * intros t0 Ef0. rewrite Ftid in *.
        destruct (HI1 k0 t0 Hk0 Ef0) as (j & _ & _ & _ & _ & _ & Htid0). exact Htid0.
Qed.

(* C12_bbc_detect: train k received cleanly up to index a (not its last fragment), then any other
   fragment b of it within the locality bound: a failure fragment for that transmission is emitted. *)
Theorem bbc_detect r a b k tb1 o1 tb2 o2 :
  Forall valid_ref r -> locality r -> valid_ref (k, b) ->
  ksub k r = seq 0 (S a) -> S a < length (tr k) ->
  b <> S a -> near a b ->
  handle_all decodes [] (map frag_at r) = (tb1, o1) ->
  handle_fragment decodes tb1 (frag_at (k, b)) = (tb2, o2) ->
  o2 = [OutFailFrag (report_failure (frag_at (k, b)))]
  /\ f_tid (report_failure (frag_at (k, b))) = tidk k
  /\ f_fail (report_failure (frag_at (k, b))) = true
  /\ tbl_find tb2 (tidk k) = None.
Proof.
  intros Hv Hl [Hk Hb] Hsub Ha Hne [Hn1 Hn2] E1 E2. cbn [fst snd] in Hk, Hb.
  destruct (progress r tb1 o1 a k Hv Hl Hk E1 Hsub Ha) as (t & Hf & (_ & Hpay & Hprev & Hfin & Htid)).
  destruct (frag_facts k b Hk Hb) as (Ftid & Ffail & Fseq & Fst & Fend). cbv zeta in *.
  unfold handle_fragment in E2. rewrite Ffail, Ftid, Hf in E2.
  assert (ER : read_fragment t (frag_at (k, b)) = None).
  { unfold read_fragment. rewrite Hfin, Ftid, Htid, N.eqb_refl. cbn [negb].
    destruct (N.eqb (f_seq (frag_at (k, b))) (next_seq (i_prev t))) eqn:Eseq; cbn [negb]; [|reflexivity].
    destruct (f_start (frag_at (k, b))) eqn:Est; [reflexivity|]. exfalso.
    apply N.eqb_eq in Eseq. rewrite Hprev in Eseq.
    rewrite (seq_at k a Hk) in Eseq by lia.
    rewrite Fseq in Eseq. rewrite next_seq_small in Eseq by (apply N.mod_lt; lia).
    symmetry in Fst. apply Nat.eqb_neq in Fst. lia. }
  rewrite ER in E2. injection E2 as E2 E3. subst tb2 o2. rewrite Htid.
  split; [reflexivity|]. unfold report_failure.
  destruct (hdr_fields (f_tid (frag_at (k, b))) (f_seq (frag_at (k, b))) false false true [])
    as (_ & _ & _ & Hfl & _ & Ht & _).
  split; [rewrite Ht; exact Ftid|]. split; [exact Hfl|]. apply tbl_find_remove_same.
Qed.

End Safety.

(* ---------- the fault-free case through the connector ---------- *)
Lemma handle_train_rest decodes tid : forall fs s, train_shape tid s false fs -> forall t,
  i_finished t = false -> i_tid t = tid -> i_prev t = s ->
  decodes (i_payload t ++ concat (map f_payload fs)) = true ->
  handle_all decodes [(tid, t)] fs = ([], [OutBlob tid (i_payload t ++ concat (map f_payload fs))]).
Proof.
  intros fs s H. remember false as st eqn:Hst.
  induction H as [s st f H1 H2 H3 H4 H5 | s st f fs H1 H2 H3 H4 H5 H6 H7 IH]; intros t Hfin Htid Hprev Hdec; subst st.
  - cbn [map concat] in *. rewrite app_nil_r in *. cbn [handle_all]. unfold handle_fragment.
    rewrite H4, H5. cbn [tbl_find]. rewrite N.eqb_refl.
    rewrite read_fragment_ok by congruence. cbn [i_finished i_payload i_tid]. rewrite H3, Hdec, Htid.
    unfold tbl_set. cbn [tbl_remove]. rewrite !N.eqb_refl. cbn [tbl_remove]. reflexivity.
  - cbn [map concat] in *. cbn [handle_all]. unfold handle_fragment at 1.
    rewrite H4, H5. cbn [tbl_find]. rewrite N.eqb_refl.
    rewrite read_fragment_ok by congruence. cbn [i_finished i_payload i_tid]. rewrite H3.
    unfold tbl_set. cbn [tbl_remove]. rewrite N.eqb_refl. cbn [tbl_remove].
    rewrite (IH eq_refl {| i_tid := i_tid t; i_payload := i_payload t ++ f_payload f; i_finished := false; i_prev := f_seq f |});
      cbn [i_finished i_tid i_prev i_payload]; try congruence.
    + rewrite ?Htid, <- app_assoc. reflexivity.
    + rewrite <- app_assoc. exact Hdec.
Qed.

(* a fault-free train received from an empty table: exactly one blob, the table is empty again *)
Theorem bbc_handle_train decodes tid fs :
  train_shape tid 0%N true fs -> decodes (concat (map f_payload fs)) = true ->
  handle_all decodes [] fs = ([], [OutBlob tid (concat (map f_payload fs))]).
Proof.
  intros H Hdec.
  inversion H as [s0 st0 f0 H1 H2 H3 H4 H5 | s0 st0 f0 fs0 H1 H2 H3 H4 H5 H6 H7]; subst.
  - cbn [map concat] in *. rewrite app_nil_r in *. cbn [handle_all]. unfold handle_fragment.
    rewrite H4. cbn [tbl_find]. unfold new_incoming. rewrite H2. cbn [i_finished i_payload i_tid].
    rewrite H3, Hdec. unfold tbl_set. cbn [tbl_remove]. rewrite N.eqb_refl. reflexivity.
  - cbn [map concat] in *. cbn [handle_all]. unfold handle_fragment at 1.
    rewrite H4. cbn [tbl_find]. unfold new_incoming. rewrite H2. cbn [i_finished i_payload i_tid].
    rewrite H3. unfold tbl_set. cbn [tbl_remove].
    rewrite (handle_train_rest decodes (f_tid f0) fs0 (next_seq 0) H7
               {| i_tid := f_tid f0; i_payload := f_payload f0; i_finished := false; i_prev := f_seq f0 |});
      cbn [i_finished i_tid i_prev i_payload]; try congruence. reflexivity.
Qed.

(* safety phrased over what was sent: trains produced by out_fragments from blobs *)
Theorem bbc_safety_sent decodes (Ts : list (list fragment)) (tids : list N) (blobs : list (list N)) r tb' outs :
  length Ts = length tids -> length blobs = length Ts -> NoDup tids ->
  (forall k, k < length Ts -> exists room, 1 <= room /\ nth k blobs [] <> []
      /\ out_fragments (nth k tids 0%N) room (nth k blobs []) = Some (nth k Ts [])) ->
  Forall (valid_ref Ts) r -> locality r ->
  handle_all decodes [] (map (frag_at Ts) r) = (tb', outs) ->
  forall tid blob, In (OutBlob tid blob) outs ->
    exists k, k < length Ts /\ nth k tids 0%N = tid /\ blob = nth k blobs [].
Proof.
  intros Hlen Hlb Hnd Hsent Hv Hl H tid blob Hin.
  assert (Hshape : forall k, k < length Ts -> train_shape (nth k tids 0%N) 0%N true (nth k Ts [])).
  { intros k Hk. destruct (Hsent k Hk) as (room & Hr & Hne & Hout).
    destruct (bbc_train _ _ _ _ Hr Hne Hout) as (_ & _ & Hs). exact Hs. }
  destruct (bbc_safety decodes Ts tids Hlen Hshape Hnd r tb' outs Hv Hl H tid blob Hin) as (k & Hk & Ht & Hb).
  exists k. split; [exact Hk|]. split; [exact Ht|].
  destruct (Hsent k Hk) as (room & Hr & Hne & Hout).
  destruct (bbc_train _ _ _ _ Hr Hne Hout) as (_ & Hc & _). rewrite Hb. exact Hc.
Qed.

(* the outgoing side in full, as stated by C12_bbc_train *)
Theorem bbc_train_full : forall (decodes : list N -> bool) tid mtu blob fs,
  3 <= mtu -> blob <> [] -> out_fragments tid (mtu - 2) blob = Some fs ->
  Forall (fun f => length (frag_bytes f) <= mtu) fs
  /\ concat (map f_payload fs) = blob
  /\ (forall i, i < length fs ->
        f_tid (nth i fs dfrag) = tid /\ f_fail (nth i fs dfrag) = false
        /\ f_seq (nth i fs dfrag) = (N.of_nat (S i) mod 16)%N
        /\ f_start (nth i fs dfrag) = Nat.eqb i 0
        /\ f_end (nth i fs dfrag) = Nat.eqb (S i) (length fs))
  /\ (exists t, receive_in_order fs = Some t /\ i_payload t = blob /\ i_finished t = true /\ i_tid t = tid)
  /\ (decodes blob = true -> handle_all decodes [] fs = ([], [OutBlob tid blob])).
Proof.
  intros decodes tid mtu blob fs Hm Hne Hout.
  assert (Hr : 1 <= mtu - 2) by lia.
  destruct (bbc_train tid (mtu - 2) blob fs Hr Hne Hout) as (H1 & H2 & H3).
  split; [|split; [exact H2|split; [|split]]].
  - apply Forall_impl with (2 := H1). intros f Hf. lia.
  - intros i Hi. destruct (shape_nth tid fs _ _ H3 i Hi) as (A & B & _ & D & E).
    pose proof (shape_seq tid fs i H3 Hi) as C. repeat split; try assumption.
    rewrite D. destruct (Nat.eqb i 0); reflexivity.
  - destruct (bbc_inorder_reception tid fs H3) as (t & A & B & C & D). exists t. rewrite <- H2. auto.
  - intros Hd. rewrite <- H2 in *. exact (bbc_handle_train decodes tid fs H3 Hd).
Qed.
