(* ConstsOkAgents.v - the constants and operator shapes regenerated from the Go sources coincide
   with the ones Model/Agents.v is written against.  A changed constant / condition in these
   functions breaks a [reflexivity] here. *)
From Coq Require Import ZArith List.
Import ListNotations.
From DTN Require Import Consts SpecAgents.
Open Scope Z_scope.

Lemma ag_constraints_ok :
  pkg_routing__DispatchPending = ag_c_dispatch_pending
  /\ pkg_routing__ForwardPending = ag_c_forward_pending
  /\ pkg_routing__ReassemblyPending_ = ag_c_reassembly_pending
  /\ pkg_routing__Contraindicated = ag_c_contraindicated
  /\ pkg_routing__LocalEndpoint = ag_c_local_endpoint.
Proof. repeat split; reflexivity. Qed.

Lemma ag_mux_shape_ok :
  pkg_agent__MuxAgent_handle__ops = ag_shape_mux_handle
  /\ pkg_agent__MuxAgent_handle__lits = []
  /\ pkg_agent__MuxAgent_Endpoints__ops = []
  /\ pkg_agent__bagContainsEndpoint__ops = [].
Proof. repeat split; reflexivity. Qed.

Lemma ag_rest_shape_ok :
  pkg_agent__RestAgent_receiveBundleMessage__ops = ag_shape_rest_receive
  /\ pkg_agent__RestAgent_takeMailbox__ops = []
  /\ pkg_agent__RestAgent_handleFetch__ops = ag_shape_rest_fetch
  /\ pkg_agent__RestAgent_handleFetch__lits = [0]
  /\ pkg_agent__RestAgent_Endpoints__ops = [].
Proof. repeat split; reflexivity. Qed.

Lemma ag_core_shape_ok :
  pkg_routing__AgentManager_Deliver__ops = ag_shape_am_deliver
  /\ pkg_routing__Core_localDelivery__ops = ag_shape_local_delivery
  /\ pkg_routing__Core_HasEndpoint__ops = []
  /\ pkg_routing__BundleDescriptor_PurgeConstraints__ops = ag_shape_purge.
Proof. repeat split; reflexivity. Qed.
