(* FragProofs.v - fragmentation respects the size limit and is exactly invertible (C09). *)
From Coq Require Import ZifyN ZifyNat ZifyBool Permutation Sorted.
From DTN Require Import Base Cbor CborProofs Crc Eid EidProofs Bundle BundleWf BundleProofs Reasm ReasmProofs Frag.
Open Scope N_scope.

(* ================= 1. the CBOR width function ================= *)
(* length of a head: 1, 2, 3, 5 or 9 bytes, whatever the major type *)
Definition hl (n : N) : N :=
  if n <? 24 then 1 else if n <? 256 then 2 else if n <? 65536 then 3 else if n <? 4294967296 then 5 else 9.

Lemma head_len m n : nlen (head_bytes m n) = hl n.
Proof.
  unfold head_bytes, hl, nlen.
  destruct (n <? 24); [reflexivity|]. destruct (n <? 256); [reflexivity|].
  destruct (n <? 65536); [cbn [length]; rewrite be_encode_length; reflexivity|].
  destruct (n <? 4294967296); cbn [length]; rewrite be_encode_length; reflexivity.
Qed.

(* the width is monotone in the value *)
Lemma hl_mono n n' : n <= n' -> hl n <= hl n'.
Proof. unfold hl. intros H. repeat match goal with |- context [?a <? ?b] => destruct (N.ltb_spec a b) end; lia. Qed.

Lemma hl_pos n : 1 <= hl n.
Proof. unfold hl. repeat match goal with |- context [?a <? ?b] => destruct (N.ltb_spec a b) end; lia. Qed.

Lemma hl_small n : n < 24 -> hl n = 1.
Proof. unfold hl. intros H. destruct (N.ltb_spec n 24); lia. Qed.

Lemma head_len_mono m m' n n' : n <= n' -> nlen (head_bytes m n) <= nlen (head_bytes m' n').
Proof. rewrite !head_len. apply hl_mono. Qed.

Lemma nlen_app {A} (a b : list A) : nlen (a ++ b) = nlen a + nlen b.
Proof. unfold nlen. rewrite app_length. lia. Qed.

Lemma nlen_cons' {A} (x : A) l : nlen (x :: l) = 1 + nlen l.
Proof. unfold nlen. cbn [length]. lia. Qed.

Lemma nlen_nil {A} : nlen (@nil A) = 0.
Proof. reflexivity. Qed.

(* ================= 2. serialised lengths ================= *)
Definition crc_fl (t : N) : N := if t =? 0 then 0 else if t =? 1 then 3 else 5.

Lemma crc_field_len t body : crc_type_ok t = true -> nlen (crc_field t body) = crc_fl t.
Proof.
  unfold crc_type_ok. intros H. assert (Ht : t = 0 \/ t = 1 \/ t = 2) by lia.
  unfold crc_field, crc_bytes, crc_fl, enc_bstr.
  destruct Ht as [-> | [-> | ->]]; cbn [N.eqb Pos.eqb crc_len]; [reflexivity| |];
    rewrite nlen_app, head_len; unfold nlen; rewrite be_encode_length; reflexivity.
Qed.

Lemma enc_len m n : nlen (head_bytes m n) = hl n.
Proof. apply head_len. Qed.

Definition cblock_len (c : cblock) : N :=
  1 + hl (c_type c) + hl (c_num c) + hl (c_flags c) + 1
  + hl (nlen (inner_of (c_val c))) + nlen (inner_of (c_val c)) + crc_fl (c_crc c).

Lemma cblock_bytes_len c : crc_type_ok (c_crc c) = true -> nlen (cblock_bytes c) = cblock_len c.
Proof.
  intros H. unfold cblock_bytes, cblock_len. rewrite nlen_app, crc_field_len by exact H.
  unfold cblock_body, enc_arr, enc_uint, enc_bstr. rewrite !nlen_app, !head_len.
  unfold crc_type_ok in H.
  assert (hl (if c_crc c =? 0 then 5 else 6) = 1) by (destruct (c_crc c =? 0); reflexivity).
  assert (hl (c_crc c) = 1) by (apply hl_small; lia).
  lia.
Qed.

Definition primary_len (p : primary) : N :=
  1 + 1 + hl (p_flags p) + 1
  + nlen (enc_eid_body (p_dst p)) + nlen (enc_eid_body (p_src p)) + nlen (enc_eid_body (p_rpt p))
  + 1 + hl (p_time p) + hl (p_seq p) + hl (p_life p)
  + (if has (p_flags p) F_FRAG then hl (p_off p) + hl (p_total p) else 0)
  + crc_fl (p_crc p).

Lemma primary_bytes_len p : crc_type_ok (p_crc p) = true -> nlen (primary_bytes p) = primary_len p.
Proof.
  intros H. unfold primary_bytes, primary_len. rewrite nlen_app, crc_field_len by exact H.
  unfold primary_body, enc_arr, enc_uint. rewrite !nlen_app, !head_len.
  unfold crc_type_ok in H.
  assert (hl (8 + (if has (p_flags p) F_FRAG then 2 else 0) + (if p_crc p =? 0 then 0 else 1)) = 1).
  { apply hl_small. destruct (has (p_flags p) F_FRAG); destruct (p_crc p =? 0); lia. }
  assert (hl (p_crc p) = 1) by (apply hl_small; lia).
  assert (hl 7 = 1) by reflexivity. assert (hl 2 = 1) by reflexivity.
  destruct (has (p_flags p) F_FRAG); rewrite ?nlen_app, ?head_len; change (nlen (@nil N)) with 0;
    rewrite H0, H1, H2, H3; lia.
Qed.

Fixpoint blocks_len (l : list cblock) : N :=
  match l with [] => 0 | c :: l => cblock_len c + blocks_len l end.

Lemma blocks_bytes_len l : forallb cblock_wf l = true -> nlen (blocks_bytes l) = blocks_len l.
Proof.
  induction l as [|c l IH]; cbn [forallb blocks_bytes blocks_len]; intros H; [reflexivity|].
  apply andb_prop in H. destruct H as [Hc Hl]. apply cblock_wf_parts in Hc. destruct Hc as (_ & _ & Hc & _).
  rewrite nlen_app, cblock_bytes_len, IH by assumption. reflexivity.
Qed.

Lemma blocks_len_app a b : blocks_len (a ++ b) = blocks_len a + blocks_len b.
Proof. induction a as [|c a IH]; cbn [app blocks_len]; [lia|]. rewrite IH. lia. Qed.

Definition bundle_len (b : bundle) : N := 2 + primary_len (b_pri b) + blocks_len (b_blocks b).

Lemma bundle_bytes_len b : bundle_wf b = true -> nlen (bundle_bytes b) = bundle_len b.
Proof.
  unfold bundle_wf. intros H. apply andb_prop in H. destruct H as [Hp Hb].
  unfold bundle_bytes, bundle_len. rewrite nlen_cons', !nlen_app, blocks_bytes_len by exact Hb.
  rewrite primary_bytes_len.
  - change (nlen [255]) with 1. lia.
  - unfold primary_wf in Hp. split_andb. assumption.
Qed.

(* ================= 3. the overhead estimate of fragmentExtensionBlocksLen ================= *)
Lemma payload_val c : cblock_wf c = true -> fg_is_payload c = true -> c_val c = XPayload (fg_data c).
Proof.
  intros Hwf Hp. apply cblock_wf_parts in Hwf. destruct Hwf as (_ & _ & _ & He & _).
  unfold fg_is_payload, c_type, fg_data in *. destruct (c_val c); cbn [ext_type] in Hp; try discriminate; try reflexivity.
  cbn [ext_wf] in He. split_andb. apply N.eqb_eq in Hp. subst tc. discriminate.
Qed.

Lemma est_block_wf c : cblock_wf c = true -> cblock_wf (fg_est_block c) = true.
Proof.
  intros H. pose proof (cblock_wf_parts _ H) as (Hn & Hf & Hc & He & Hl).
  unfold cblock_wf, fg_est_block. cbn [c_num c_flags c_crc c_val]. rewrite Hn, Hf. cbn [andb].
  destruct (fg_is_payload c).
  - reflexivity.
  - rewrite He. cbn [andb crc_type_ok]. rewrite enc_ext_inner_ok by exact He. exact Hl.
Qed.

Definition est_len (c : cblock) : N := cblock_len (fg_est_block c).

Fixpoint efirst (mtu : N) (l : list cblock) : N :=
  match l with
  | [] => 0
  | c :: l => est_len c + (if fg_is_payload c then hl mtu - 1 else 0) + efirst mtu l
  end.
Fixpoint eothers (mtu : N) (l : list cblock) : N :=
  match l with
  | [] => 0
  | c :: l => (if has (c_flags c) BF_REPLICATE then est_len c else 0)
              + (if fg_is_payload c then est_len c + (hl mtu - 1) else 0) + eothers mtu l
  end.

Lemma fg_ext_len_spec mtu l : forall f o, forallb cblock_wf l = true ->
  fg_ext_len mtu l f o = Some (f + efirst mtu l, o + eothers mtu l).
Proof.
  induction l as [|c l IH]; intros f o H; cbn [forallb fg_ext_len efirst eothers] in *.
  - rewrite !N.add_0_r. reflexivity.
  - apply andb_prop in H. destruct H as [Hc Hl].
    pose proof (est_block_wf _ Hc) as Hw. rewrite enc_cblock_ok by exact Hw. 
    rewrite cblock_bytes_len by (apply cblock_wf_parts in Hw; tauto). fold (est_len c). rewrite head_len.
    destruct (fg_is_payload c); destruct (has (c_flags c) BF_REPLICATE); rewrite IH by exact Hl; f_equal; f_equal; lia.
Qed.

(* a block is never longer than its CRC32 estimate *)
Lemma est_len_ge c : crc_type_ok (c_crc c) = true -> fg_is_payload c = false -> cblock_len c <= est_len c.
Proof.
  intros Hc Hp. unfold est_len, cblock_len, fg_est_block, c_type. cbn [c_num c_flags c_crc c_val]. rewrite Hp.
  unfold crc_type_ok in Hc. unfold crc_fl. cbn [N.eqb Pos.eqb].
  destruct (c_crc c =? 0); destruct (c_crc c =? 1); lia.
Qed.

(* the payload block of a fragment against the estimate for the (empty) payload block *)
Lemma payload_block_len pl d mtu :
  crc_type_ok (c_crc pl) = true -> fg_is_payload pl = true -> nlen d <= mtu ->
  cblock_len (fg_payload_block pl d) <= est_len pl + (hl mtu - 1) + nlen d.
Proof.
  intros Hc Hp Hd. unfold est_len, cblock_len, fg_est_block, fg_payload_block, c_type. cbn [c_num c_flags c_crc c_val]. rewrite Hp.
  cbn [ext_type inner_of]. change (nlen (@nil N)) with 0. change (hl 0) with 1.
  pose proof (hl_mono _ _ Hd). pose proof (hl_pos mtu).
  unfold crc_type_ok in Hc. unfold crc_fl. cbn [N.eqb Pos.eqb].
  destruct (c_crc pl =? 0); destruct (c_crc pl =? 1); lia.
Qed.

Lemma find_type_in t l c : find_type t l = Some c -> In c l /\ c_type c = t.
Proof.
  unfold find_type. intros H. apply find_some in H. destruct H as [Hi He]. apply N.eqb_eq in He. tauto.
Qed.

Lemma fg_keep0 c : fg_keep 0 c = negb (fg_is_payload c).
Proof. unfold fg_keep. cbn [N.eqb orb]. apply andb_true_r. Qed.
Lemma fg_keepn i c : i <> 0 -> fg_keep i c = negb (fg_is_payload c) && has (c_flags c) BF_REPLICATE.
Proof. intros H. unfold fg_keep. replace (i =? 0) with false by lia. reflexivity. Qed.

Lemma efirst_ge mtu l pl :
  forallb cblock_wf l = true -> In pl l -> fg_is_payload pl = true ->
  blocks_len (filter (fg_keep 0) l) + est_len pl + (hl mtu - 1) <= efirst mtu l.
Proof.
  induction l as [|c l IH]; intros Hwf Hin Hp; [destruct Hin|].
  cbn [forallb] in Hwf. apply andb_prop in Hwf. destruct Hwf as [Hc Hl].
  cbn [efirst filter].
  assert (Hrest : blocks_len (filter (fg_keep 0) l) <= efirst mtu l).
  { clear -Hl. induction l as [|d l IH]; cbn [forallb filter efirst blocks_len] in *; [lia|].
    apply andb_prop in Hl. destruct Hl as [Hd Hl]. specialize (IH Hl).
    rewrite (fg_keep0 d).
    destruct (fg_is_payload d) eqn:E; cbn [negb blocks_len]; [lia|].
    pose proof (est_len_ge d). apply cblock_wf_parts in Hd. destruct Hd as (_ & _ & Hcrc & _). specialize (H Hcrc E). lia. }
  rewrite (fg_keep0 c).
  destruct Hin as [-> | Hin].
  - rewrite Hp. cbn [negb]. lia.
  - specialize (IH Hl Hin Hp).
    destruct (fg_is_payload c) eqn:E; cbn [negb blocks_len]; [lia|].
    pose proof (est_len_ge c). apply cblock_wf_parts in Hc. destruct Hc as (_ & _ & Hcrc & _). specialize (H Hcrc E). lia.
Qed.

Lemma eothers_ge mtu l pl i :
  forallb cblock_wf l = true -> In pl l -> fg_is_payload pl = true -> i <> 0 ->
  blocks_len (filter (fg_keep i) l) + est_len pl + (hl mtu - 1) <= eothers mtu l.
Proof.
  intros Hwf Hin Hp Hi.
  induction l as [|c l IH]; [destruct Hin|].
  cbn [forallb] in Hwf. apply andb_prop in Hwf. destruct Hwf as [Hc Hl].
  cbn [eothers filter].
  assert (Hrest : blocks_len (filter (fg_keep i) l) <= eothers mtu l).
  { clear -Hl Hi. induction l as [|d l IH]; cbn [forallb filter eothers blocks_len] in *; [lia|].
    apply andb_prop in Hl. destruct Hl as [Hd Hl]. specialize (IH Hl).
    rewrite (fg_keepn i d Hi).
    destruct (fg_is_payload d) eqn:E; cbn [negb andb blocks_len]; [lia|].
    destruct (has (c_flags d) BF_REPLICATE); cbn [blocks_len]; [|lia].
    pose proof (est_len_ge d). apply cblock_wf_parts in Hd. destruct Hd as (_ & _ & Hcrc & _). specialize (H Hcrc E). lia. }
  rewrite (fg_keepn i c Hi).
  destruct Hin as [-> | Hin].
  - rewrite Hp. cbn [negb andb]. lia.
  - specialize (IH Hl Hin).
    destruct (fg_is_payload c) eqn:E; cbn [negb andb blocks_len]; [lia|].
    destruct (has (c_flags c) BF_REPLICATE); cbn [blocks_len]; [|lia].
    pose proof (est_len_ge c). apply cblock_wf_parts in Hc. destruct Hc as (_ & _ & Hcrc & _). specialize (H Hcrc E). lia.
Qed.

(* ================= 4. one iteration of the loop ================= *)
Lemma lor1_cases x : (N.lor x 1 = x /\ exists k, x = 2 * k + 1) \/ (N.lor x 1 = x + 1 /\ exists k, x = 2 * k).
Proof.
  destruct x as [|[p|p|]]; cbn.
  - right. split; [reflexivity|exists 0; reflexivity].
  - left. split; [reflexivity|exists (N.pos p); lia].
  - right. split; [reflexivity|exists (N.pos p); lia].
  - left. split; [reflexivity|exists 0; reflexivity].
Qed.

Lemma lor1_u64 x : u64_ok x = true -> u64_ok (N.lor x 1) = true.
Proof. unfold u64_ok. intros H. destruct (lor1_cases x) as [[-> _] | [-> [k ->]]]; lia. Qed.

Lemma lor1_ge x : x <= N.lor x 1.
Proof. destruct (lor1_cases x) as [[-> _] | [-> _]]; lia. Qed.

Lemma lor1_has x : has (N.lor x 1) F_FRAG = true.
Proof. unfold has, F_FRAG. destruct x as [|[p|p|]]; reflexivity. Qed.

Lemma lor1_frag x : has x F_FRAG = true -> N.lor x 1 = x.
Proof. unfold has, F_FRAG. destruct x as [|[p|p|]]; cbn; intros H; try reflexivity; discriminate. Qed.

Lemma ldiff_lor1 x : has x F_FRAG = false -> N.ldiff (N.lor x 1) F_FRAG = x.
Proof. unfold has, F_FRAG. destruct x as [|[p|p|]]; cbn; intros H; try reflexivity; discriminate. Qed.

Lemma fg_primary_wf p i len :
  primary_wf p = true -> u64_ok i = true -> u64_ok len = true -> primary_wf (fg_primary p i len) = true.
Proof.
  unfold primary_wf. intros H Hi Hl. split_andb. unfold fg_primary.
  cbn [p_flags p_crc p_dst p_src p_rpt p_time p_seq p_life p_off p_total].
  rewrite lor1_u64, lor1_has by assumption.
  destruct (has (p_flags p) F_FRAG);
    repeat match goal with H : _ = true |- _ => rewrite ?H; clear H end; cbn [andb orb].
  - assert (u64_ok ((i + p_off p) mod fg_u64) = true).
    { unfold u64_ok, fg_u64. pose proof (N.mod_upper_bound (i + p_off p) 18446744073709551616). lia. }
    rewrite H. reflexivity.
  - reflexivity.
Qed.

Lemma fg_step_spec now mtu b pl first others i f i' :
  fg_step now mtu b pl first others i = Some (f, i') ->
  exists pbs, enc_primary (fg_primary (b_pri b) i (nlen (fg_data pl))) = Some pbs /\
    2 + nlen pbs + (if i =? 0 then first else others) < mtu /\
    i' = i + (mtu - (2 + nlen pbs + (if i =? 0 then first else others))) /\
    f = {| b_pri := fg_primary (b_pri b) i (nlen (fg_data pl));
           b_blocks := filter (fg_keep i) (b_blocks b)
                       ++ [fg_payload_block pl (fg_slice (fg_data pl) i (N.min i' (nlen (fg_data pl))))] |} /\
    check_valid now f = true.
Proof.
  unfold fg_step. destruct (enc_primary _) as [pbs|] eqn:Ep; [|discriminate].
  destruct (N.leb_spec mtu (2 + nlen pbs + (if i =? 0 then first else others))) as [Hle|Hlt]; [discriminate|].
  match goal with |- context [check_valid now ?x] => destruct (check_valid now x) eqn:Ev end; [|discriminate].
  intros H. injection H as <- <-. exists pbs. repeat split; try assumption; try reflexivity.
Qed.

Lemma fg_slice_len data i e : nlen (fg_slice data i e) <= e - i.
Proof. unfold fg_slice, nlen. rewrite firstn_length. lia. Qed.

Lemma fg_slice_len_data data i e : nlen (fg_slice data i e) <= nlen data.
Proof. unfold fg_slice, nlen. rewrite firstn_length, skipn_length. lia. Qed.

Lemma fg_slice_bytes data i e : bytes_ok data = true -> bytes_ok (fg_slice data i e) = true.
Proof. intros H. unfold fg_slice. apply bytes_ok_firstn, bytes_ok_skipn, H. Qed.

Lemma forallb_filter {A} (p q : A -> bool) l : forallb p l = true -> forallb p (filter q l) = true.
Proof.
  induction l as [|x l IH]; cbn [forallb filter]; intros H; [reflexivity|].
  apply andb_prop in H. destruct H as [Hx Hl]. destruct (q x); cbn [forallb]; rewrite ?Hx; auto.
Qed.

Lemma forallb_app' {A} (p : A -> bool) a b : forallb p a = true -> forallb p b = true -> forallb p (a ++ b) = true.
Proof. intros Ha Hb. rewrite forallb_app, Ha, Hb. reflexivity. Qed.

Lemma payload_block_wf pl d :
  cblock_wf pl = true -> bytes_ok d = true -> len_ok d = true -> cblock_wf (fg_payload_block pl d) = true.
Proof.
  intros H Hb Hl. pose proof (cblock_wf_parts _ H) as (Hn & Hf & Hc & _ & _).
  unfold cblock_wf, fg_payload_block. cbn [c_num c_flags c_crc c_val ext_wf enc_ext_inner]. rewrite Hn, Hf, Hc, Hb, Hl. reflexivity.
Qed.

Lemma payload_data_ok pl : cblock_wf pl = true -> fg_is_payload pl = true ->
  bytes_ok (fg_data pl) = true /\ len_ok (fg_data pl) = true.
Proof.
  intros H Hp. pose proof (payload_val _ H Hp) as Hv. apply cblock_wf_parts in H. destruct H as (_ & _ & _ & He & Hl).
  rewrite Hv in He, Hl. cbn [ext_wf inner_of] in He, Hl. tauto.
Qed.

Lemma len_ok_u64 d : len_ok d = true -> u64_ok (nlen d) = true.
Proof. unfold len_ok, u64_ok, max_raw. lia. Qed.

(* the heart of the size bound: a fragment built in one iteration serialises to at most mtu bytes *)
Lemma fg_step_size now mtu b pl i f i' :
  bundle_wf b = true -> In pl (b_blocks b) -> fg_is_payload pl = true -> u64_ok i = true ->
  fg_step now mtu b pl (efirst mtu (b_blocks b)) (eothers mtu (b_blocks b)) i = Some (f, i') ->
  bundle_wf f = true /\ bundle_len f <= mtu.
Proof.
  intros Hwf Hin Hp Hi Hs. apply fg_step_spec in Hs. destruct Hs as (pbs & Ep & Hov & Hi' & Hf & _).
  unfold bundle_wf in Hwf. apply andb_prop in Hwf. destruct Hwf as [Hpw Hbw].
  assert (Hplw : cblock_wf pl = true) by (rewrite forallb_forall in Hbw; apply Hbw, Hin).
  destruct (payload_data_ok pl Hplw Hp) as [Hdb Hdl].
  pose proof (fg_primary_wf (b_pri b) i (nlen (fg_data pl)) Hpw Hi (len_ok_u64 _ Hdl)) as Hfpw.
  rewrite enc_primary_ok in Ep by exact Hfpw. injection Ep as <-.
  rewrite primary_bytes_len in Hov, Hi' by (unfold primary_wf in Hfpw; split_andb; assumption).
  set (d := fg_slice (fg_data pl) i (N.min i' (nlen (fg_data pl)))) in *.
  assert (Hd1 : nlen d <= N.min i' (nlen (fg_data pl)) - i) by apply fg_slice_len.
  assert (Hd2 : nlen d <= nlen (fg_data pl)) by apply fg_slice_len_data.
  assert (Hdw : cblock_wf (fg_payload_block pl d) = true).
  { apply payload_block_wf; [exact Hplw|apply fg_slice_bytes, Hdb|]. unfold len_ok in *. lia. }
  subst f. split.
  - unfold bundle_wf. cbn [b_pri b_blocks]. rewrite Hfpw. cbn [andb].
    apply forallb_app'; [apply forallb_filter, Hbw|]. cbn [forallb]. rewrite Hdw. reflexivity.
  - unfold bundle_len. cbn [b_pri b_blocks]. rewrite blocks_len_app. cbn [blocks_len].
    assert (Hcrc : crc_type_ok (c_crc pl) = true) by (apply cblock_wf_parts in Hplw; tauto).
    assert (Hdm : nlen d <= mtu) by lia.
    pose proof (payload_block_len pl d mtu Hcrc Hp Hdm) as Hpl.
    destruct (N.eqb_spec i 0) as [E|E].
    + subst i. pose proof (efirst_ge mtu (b_blocks b) pl Hbw Hin Hp). lia.
    + pose proof (eothers_ge mtu (b_blocks b) pl i Hbw Hin Hp E). lia.
Qed.

(* ================= 5. the loop ================= *)
Section Loop.
Variables (now mtu : N) (b : bundle) (pl : cblock) (first others : N).
Let data := fg_data pl.
Let len := nlen data.

Inductive fg_chain : N -> list bundle -> Prop :=
| chain_last i f i' : fg_step now mtu b pl first others i = Some (f, i') -> len <= i' -> fg_chain i [f]
| chain_cons i f i' fs : fg_step now mtu b pl first others i = Some (f, i') -> i' < len ->
                         fg_chain i' fs -> fg_chain i (f :: fs).

Lemma fg_loop_chain fuel : forall i fs, fg_loop fuel now mtu b pl first others i = LOk fs -> fg_chain i fs.
Proof.
  induction fuel as [|fuel IH]; intros i fs; cbn [fg_loop]; [discriminate|].
  destruct (fg_step now mtu b pl first others i) as [[f i']|] eqn:Es; [|discriminate].
  fold data. fold len. destruct (N.ltb_spec i' len) as [Hlt|Hge].
  - destruct (fg_loop fuel now mtu b pl first others i') as [| |fs'] eqn:El; try discriminate.
    intros H. injection H as <-. eapply chain_cons; eauto.
  - intros H. injection H as <-. eapply chain_last; eauto.
Qed.

Lemma fg_step_progress i f i' : fg_step now mtu b pl first others i = Some (f, i') -> i < i'.
Proof. intros H. apply fg_step_spec in H. destruct H as (pbs & _ & Hov & -> & _). lia. Qed.

(* the fuel (payload length + 1) is never exhausted *)
Lemma fg_loop_fuel fuel : forall i, (i = 0 \/ i < len) -> (N.to_nat len < fuel + N.to_nat i)%nat ->
  fg_loop fuel now mtu b pl first others i <> LFuel.
Proof.
  induction fuel as [|fuel IH]; intros i Hi Hf; cbn [fg_loop].
  - lia.
  - destruct (fg_step now mtu b pl first others i) as [[f i']|] eqn:Es; [|discriminate].
    pose proof (fg_step_progress _ _ _ Es) as Hp.
    fold data. fold len. destruct (N.ltb_spec i' len) as [Hlt|Hge]; [|discriminate].
    specialize (IH i' (or_intror Hlt)).
    destruct (fg_loop fuel now mtu b pl first others i') eqn:El; try discriminate.
    exfalso. apply IH; [lia|reflexivity].
Qed.

(* the fragment cut out at [j, e) *)
Definition mkfrag (j e : N) : bundle :=
  {| b_pri := fg_primary (b_pri b) j len;
     b_blocks := filter (fg_keep j) (b_blocks b) ++ [fg_payload_block pl (fg_slice data j e)] |}.

Inductive fg_pieces : N -> list bundle -> Prop :=
| pieces_last i : fg_pieces i [mkfrag i len]
| pieces_cons i i' fs : i < i' -> i' < len -> fg_pieces i' fs -> fg_pieces i (mkfrag i i' :: fs).

Lemma chain_pieces i fs : fg_chain i fs -> fg_pieces i fs.
Proof.
  induction 1 as [i f i' Hs Hle | i f i' fs Hs Hlt _ IH].
  - apply fg_step_spec in Hs. destruct Hs as (pbs & _ & _ & _ & -> & _).
    fold data. fold len. replace (N.min i' len) with len by lia. apply pieces_last.
  - pose proof (fg_step_progress _ _ _ Hs) as Hp.
    apply fg_step_spec in Hs. destruct Hs as (pbs & _ & _ & _ & -> & _).
    fold data. fold len. replace (N.min i' len) with i' by lia. apply pieces_cons; assumption.
Qed.

(* every element of a chain is the product of one iteration at an index that is 0 or inside the payload *)
Lemma chain_steps i fs : fg_chain i fs -> (i = 0 \/ i < len) ->
  Forall (fun f => exists j j', (j = 0 \/ j < len) /\ fg_step now mtu b pl first others j = Some (f, j')) fs.
Proof.
  induction 1 as [i f i' Hs Hle | i f i' fs Hs Hlt _ IH]; intros Hi.
  - constructor; [|constructor]. exists i, i'. tauto.
  - constructor; [exists i, i'; tauto|]. apply IH. right. exact Hlt.
Qed.
End Loop.

(* ================= 6. specification vocabulary and the structure of the result ================= *)
(* offset of the first byte / total length the fragments of b must carry: b may itself be a fragment *)
Definition fg_base (b : bundle) : N := if has (p_flags (b_pri b)) F_FRAG then p_off (b_pri b) else 0.
Definition fg_total (b : bundle) (data : list N) : N :=
  if has (p_flags (b_pri b)) F_FRAG then p_total (b_pri b) else nlen data.

(* same source, creation timestamp, destination, report-to, lifetime (and CRC type); fragment flag set *)
Definition same_bundle (b f : bundle) : Prop :=
  let p := b_pri b in let q := b_pri f in
  p_src q = p_src p /\ p_time q = p_time p /\ p_seq q = p_seq p /\ p_dst q = p_dst p /\ p_rpt q = p_rpt p
  /\ p_life q = p_life p /\ p_crc q = p_crc p /\ p_flags q = N.lor (p_flags p) F_FRAG
  /\ has (p_flags q) F_FRAG = true.

(* the fragments' payloads are consecutive non-empty slices of data, the offsets start at o and follow
   without gap or overlap *)
Fixpoint fg_partition (o : N) (data : list N) (fs : list bundle) : Prop :=
  match fs with
  | [] => data = []
  | f :: fs' => exists d rest, payload_of f = Some d /\ d <> [] /\ p_off (b_pri f) = o /\ data = d ++ rest
                               /\ fg_partition (o + nlen d) rest fs'
  end.

Definition ext_blocks (b : bundle) : list cblock := filter (fun c => negb (fg_is_payload c)) (b_blocks b).
Definition replicated (l : list cblock) : list cblock := filter (fun c => has (c_flags c) BF_REPLICATE) l.

(* the blocks of a fragment: the extension blocks of b (all / the replicated ones), unchanged and in
   their order, then the payload block with the original number, flags and CRC type *)
Definition fg_placement (b : bundle) (pl : cblock) (first : bool) (f : bundle) : Prop :=
  exists d, b_blocks f = (if first then ext_blocks b else replicated (ext_blocks b)) ++ [fg_payload_block pl d].
Definition fg_placed (b : bundle) (pl : cblock) (fs : list bundle) : Prop :=
  match fs with
  | [] => True
  | f0 :: rest => fg_placement b pl true f0 /\ Forall (fg_placement b pl false) rest
  end.

Lemma keep_first l : filter (fg_keep 0) l = filter (fun c => negb (fg_is_payload c)) l.
Proof. apply filter_ext. intros c. apply fg_keep0. Qed.

Lemma keep_others j l : j <> 0 ->
  filter (fg_keep j) l = replicated (filter (fun c => negb (fg_is_payload c)) l).
Proof.
  intros Hj. unfold replicated. induction l as [|c l IH]; cbn [filter]; [reflexivity|].
  rewrite (fg_keepn j c Hj). destruct (fg_is_payload c); cbn [negb andb]; [exact IH|].
  cbn [filter]. destruct (has (c_flags c) BF_REPLICATE); rewrite IH; reflexivity.
Qed.

Lemma find_type_keep j l x : fg_is_payload x = true -> find_type 1 (filter (fg_keep j) l ++ [x]) = Some x.
Proof.
  intros Hx. unfold find_type. induction l as [|c l IH]; cbn [filter app find].
  - unfold fg_is_payload in Hx. rewrite Hx. reflexivity.
  - unfold fg_keep at 1. destruct (fg_is_payload c) eqn:E; cbn [negb andb]; [exact IH|].
    destruct ((j =? 0) || has (c_flags c) BF_REPLICATE); [|exact IH].
    cbn [app find]. unfold fg_is_payload in E. rewrite E. exact IH.
Qed.

Lemma payload_block_is_payload pl d : fg_is_payload (fg_payload_block pl d) = true.
Proof. reflexivity. Qed.

Section Pieces.
Variables (b : bundle) (pl : cblock).
Let data := fg_data pl.
Let len := nlen data.
Notation mk := (mkfrag b pl).
Notation pieces := (fg_pieces b pl).

Lemma mkfrag_payload j e : payload_of (mk j e) = Some (fg_slice data j e).
Proof.
  unfold payload_of, mkfrag. cbn [b_blocks]. rewrite find_type_keep by apply payload_block_is_payload. reflexivity.
Qed.

Lemma mkfrag_same j e : same_bundle b (mk j e).
Proof. unfold same_bundle, mkfrag, fg_primary. cbn. repeat split; try reflexivity. apply lor1_has. Qed.

Lemma mkfrag_total j e : p_total (b_pri (mk j e)) = fg_total b data.
Proof. unfold mkfrag, fg_primary, fg_total. cbn. reflexivity. Qed.

Lemma mkfrag_off j e : fg_base b + j < fg_u64 -> p_off (b_pri (mk j e)) = fg_base b + j.
Proof.
  unfold mkfrag, fg_primary, fg_base. cbn [b_pri p_off]. destruct (has (p_flags (b_pri b)) F_FRAG); intros H; [|lia].
  rewrite N.mod_small by lia. lia.
Qed.

Lemma mkfrag_placement j e : fg_placement b pl (j =? 0) (mk j e).
Proof.
  exists (fg_slice data j e). unfold mkfrag. cbn [b_blocks]. f_equal.
  destruct (N.eqb_spec j 0) as [->|Hj]; [apply keep_first|apply keep_others, Hj].
Qed.

Lemma pieces_placed i fs : pieces i fs ->
  exists f0 rest, fs = f0 :: rest /\ fg_placement b pl (i =? 0) f0 /\ Forall (fg_placement b pl false) rest.
Proof.
  induction 1 as [i | i i' fs Hlt Hlen _ IH].
  - exists (mk i len), []. repeat split; [apply mkfrag_placement|constructor].
  - destruct IH as (f0 & rest & -> & Hf0 & Hrest).
    exists (mk i i'), (f0 :: rest). repeat split; [apply mkfrag_placement|].
    constructor; [|exact Hrest]. replace (i' =? 0) with false in Hf0 by lia. exact Hf0.
Qed.

Lemma pieces_forall (P : bundle -> Prop) i fs : (forall j e, P (mk j e)) -> pieces i fs -> Forall P fs.
Proof. intros HP. induction 1; constructor; auto. Qed.

Lemma slice_len j e : j <= e -> e <= len -> nlen (fg_slice data j e) = e - j.
Proof. intros H1 H2. unfold fg_slice, nlen. rewrite firstn_length, skipn_length. fold len in H2. unfold len, nlen in H2. lia. Qed.

Lemma slice_to_end j : fg_slice data j len = skipn (N.to_nat j) data.
Proof. unfold fg_slice. apply firstn_all2. rewrite skipn_length. unfold len, nlen. lia. Qed.

Lemma slice_split j e : j <= e ->
  skipn (N.to_nat j) data = fg_slice data j e ++ skipn (N.to_nat e) data.
Proof.
  intros H. unfold fg_slice. rewrite <- (firstn_skipn (N.to_nat (e - j)) (skipn (N.to_nat j) data)) at 1.
  f_equal. rewrite skipn_skipn_add. f_equal. lia.
Qed.

Lemma nlen_pos_nonempty {A} (l : list A) : 0 < nlen l -> l <> [].
Proof. intros H ->. cbn in H. lia. Qed.

(* offsets partition [base+i, base+len) without gap or overlap, in order; the slices are the payload *)
Lemma pieces_partition i fs : pieces i fs -> i < len -> fg_base b + len <= fg_u64 ->
  fg_partition (fg_base b + i) (skipn (N.to_nat i) data) fs.
Proof.
  induction 1 as [i | i i' fs Hlt Hlen _ IH]; intros Hi Hr; cbn [fg_partition];
    repeat match goal with H : context [nlen (fg_data pl)] |- _ => change (nlen (fg_data pl)) with len in H end.
  - exists (fg_slice data i len), []. rewrite mkfrag_payload, mkfrag_off by lia.
    repeat split; [apply nlen_pos_nonempty; rewrite slice_len; lia|rewrite app_nil_r; symmetry; apply slice_to_end].
  - exists (fg_slice data i i'), (skipn (N.to_nat i') data). rewrite mkfrag_payload, mkfrag_off by lia.
    repeat split; [apply nlen_pos_nonempty; rewrite slice_len; lia|apply slice_split; lia|].
    rewrite slice_len by lia. replace (fg_base b + i + (i' - i)) with (fg_base b + i') by lia. apply IH; assumption.
Qed.

Lemma pieces_length i fs : pieces i fs -> (1 <= length fs)%nat.
Proof. induction 1; cbn [length]; lia. Qed.
End Pieces.

(* ================= 7. reassembly ================= *)
(* --- the sort of ReassembleFragments: any sorted permutation of a strictly sorted list is that list --- *)
Definition boff (f : bundle) : N := p_off (b_pri f).
Definition boff_le (f g : bundle) : Prop := boff f <= boff g.
Definition boff_lt (f g : bundle) : Prop := boff f < boff g.

Lemma fg_insert_perm f l : Permutation (fg_insert f l) (f :: l).
Proof.
  induction l as [|g l IH]; cbn [fg_insert]; [apply Permutation_refl|].
  destruct (p_off (b_pri f) <=? p_off (b_pri g)); [apply Permutation_refl|].
  eapply perm_trans; [apply perm_skip, IH|apply perm_swap].
Qed.

Lemma fg_sort_perm l : Permutation (fg_sort l) l.
Proof.
  induction l as [|f l IH]; cbn; [constructor|].
  eapply perm_trans; [apply fg_insert_perm|apply perm_skip, IH].
Qed.

Lemma fg_insert_sorted f l : StronglySorted boff_le l -> StronglySorted boff_le (fg_insert f l).
Proof.
  induction 1 as [|g l Hs IH Hall]; cbn [fg_insert]; [repeat constructor|].
  destruct (N.leb_spec (p_off (b_pri f)) (p_off (b_pri g))) as [Hle|Hgt].
  - constructor; [constructor; assumption|]. constructor; [exact Hle|].
    eapply Forall_impl; [|exact Hall]. unfold boff_le, boff in *. intros; lia.
  - constructor; [exact IH|].
    eapply Permutation_Forall; [apply Permutation_sym, fg_insert_perm|].
    constructor; [unfold boff_le, boff; lia|exact Hall].
Qed.

Lemma fg_sort_sorted l : StronglySorted boff_le (fg_sort l).
Proof. induction l as [|f l IH]; cbn; [constructor|apply fg_insert_sorted, IH]. Qed.

Lemma sorted_perm_unique l : forall s,
  Permutation s l -> StronglySorted boff_le s -> StronglySorted boff_lt l -> s = l.
Proof.
  induction l as [|x l IH]; intros s HP Hs Hl.
  - apply Permutation_nil. apply Permutation_sym. exact HP.
  - destruct s as [|y s]; [apply Permutation_nil in HP; discriminate|].
    inversion Hs as [|? ? Hs' Hys]; subst. inversion Hl as [|? ? Hl' Hxl]; subst.
    assert (y = x).
    { assert (Hy : In y (x :: l)) by (eapply Permutation_in; [exact HP|left; reflexivity]).
      destruct Hy as [->|Hy]; [reflexivity|]. exfalso.
      rewrite Forall_forall in Hxl, Hys. specialize (Hxl y Hy).
      assert (Hx : In x (y :: s)) by (eapply Permutation_in; [apply Permutation_sym; exact HP|left; reflexivity]).
      destruct Hx as [->|Hx]; [unfold boff_lt in Hxl; lia|].
      specialize (Hys x Hx). unfold boff_lt, boff_le in *. lia. }
    subst y. f_equal. apply IH; [eapply Permutation_cons_inv; exact HP|assumption|assumption].
Qed.

Lemma fg_sort_unique l pi : Permutation pi l -> StronglySorted boff_lt l -> fg_sort pi = l.
Proof.
  intros HP Hl. apply sorted_perm_unique; [|apply fg_sort_sorted|exact Hl].
  eapply perm_trans; [apply fg_sort_perm|exact HP].
Qed.

(* --- the structure of a valid bundle: extension blocks, then the one payload block, numbered 1 --- *)
Lemma last_in {A} (l : list A) d : l <> [] -> In (last l d) l.
Proof.
  induction l as [|x l IH]; intros H; [congruence|].
  destruct l as [|y l]; [left; reflexivity|]. right. apply IH. discriminate.
Qed.

Lemma payload_last l pl :
  nodup_N (map c_type l) = true -> last (map c_type l) 0 = 1 -> find_type 1 l = Some pl ->
  l = filter (fun c => negb (fg_is_payload c)) l ++ [pl].
Proof.
  induction l as [|c l IH]; intros Hnd Hlast Hfind; [discriminate|].
  cbn [map nodup_N] in Hnd. apply andb_prop in Hnd. destruct Hnd as [Hc Hnd].
  unfold find_type in Hfind. cbn [find] in Hfind. cbn [filter]. unfold fg_is_payload at 1.
  destruct l as [|c' l].
  - cbn in Hlast. rewrite Hlast in *. cbn [N.eqb Pos.eqb negb] in *. injection Hfind as <-. reflexivity.
  - assert (Hlast' : last (map c_type (c' :: l)) 0 = 1) by exact Hlast.
    destruct (c_type c =? 1) eqn:E.
    + exfalso. apply N.eqb_eq in E. apply negb_true_iff in Hc.
      assert (Hin : In 1 (map c_type (c' :: l))).
      { rewrite <- Hlast'. apply last_in. discriminate. }
      assert (existsb (N.eqb (c_type c)) (map c_type (c' :: l)) = true).
      { apply existsb_exists. exists 1. split; [exact Hin|rewrite E; reflexivity]. }
      congruence.
    + cbn [negb app]. f_equal. apply IH; assumption.
Qed.

Lemma check_valid_parts now b : check_valid now b = true ->
  forallb cblock_valid (b_blocks b) = true /\ nodup_N (map c_type (b_blocks b)) = true
  /\ last (map c_type (b_blocks b)) 0 = 1.
Proof.
  unfold check_valid. intros H. split_andb. repeat split; try assumption.
  match goal with H : match last _ _ with _ => _ end = true |- _ => revert H end.
  destruct (last (map c_type (b_blocks b)) 0) as [|[p|p|]]; intros; try discriminate; reflexivity.
Qed.

Lemma valid_structure now b pl :
  bundle_wf b = true -> check_valid now b = true -> find_type 1 (b_blocks b) = Some pl ->
  b_blocks b = ext_blocks b ++ [pl] /\ c_num pl = 1 /\ c_val pl = XPayload (fg_data pl)
  /\ In pl (b_blocks b) /\ fg_is_payload pl = true.
Proof.
  intros Hwf Hv Hf. destruct (check_valid_parts _ _ Hv) as (Hcv & Hnd & Hlast).
  destruct (find_type_in _ _ _ Hf) as [Hin Ht].
  assert (Hp : fg_is_payload pl = true) by (unfold fg_is_payload; rewrite Ht; reflexivity).
  unfold bundle_wf in Hwf. apply andb_prop in Hwf. destruct Hwf as [_ Hbw].
  rewrite forallb_forall in Hcv, Hbw. specialize (Hcv pl Hin). specialize (Hbw pl Hin).
  repeat split; try assumption.
  - apply payload_last; assumption.
  - unfold cblock_valid in Hcv. apply andb_prop in Hcv. destruct Hcv as [_ Hcv]. rewrite Ht in Hcv. cbn in Hcv. lia.
  - apply payload_val; assumption.
Qed.

Lemma cblock_eta c : c = {| c_num := c_num c; c_flags := c_flags c; c_crc := c_crc c; c_val := c_val c |}.
Proof. destruct c; reflexivity. Qed.

Section ReasmPieces.
Variables (b : bundle) (pl : cblock).
Hypothesis Hnf : has (p_flags (b_pri b)) F_FRAG = false.
Let data := fg_data pl.
Let len := nlen data.
Notation mk := (mkfrag b pl).

Definition proj_of (j e : N) : rs_frag :=
  {| fr_off := j; fr_total := len; fr_data := fg_slice data j e; fr_isfrag := true; fr_blocks := [] |}.

Lemma proj_mkfrag j e : fg_proj (mk j e) = Some (proj_of j e).
Proof.
  unfold fg_proj, mkfrag. cbn [b_blocks b_pri]. rewrite find_type_keep by apply payload_block_is_payload.
  unfold proj_of, fg_primary. cbn [p_off p_total p_flags]. rewrite Hnf, lor1_has. reflexivity.
Qed.

Lemma mkfrag_boff j e : boff (mk j e) = j.
Proof. unfold boff, mkfrag, fg_primary. cbn [b_pri p_off]. rewrite Hnf. reflexivity. Qed.

Lemma slice_len' j e : j <= e -> e <= len -> nlen (fg_slice data j e) = e - j.
Proof. apply slice_len. Qed.

Lemma proj_frag_of j e : j <= e -> e <= len -> frag_of data [] (proj_of j e).
Proof.
  intros H1 H2. unfold frag_of, proj_of, rs_end. cbn [fr_isfrag fr_total fr_off fr_data fr_blocks].
  assert (Hl : nlen (fg_slice data j e) = e - j) by (apply slice_len'; assumption).
  unfold len in H2. repeat split.
  - rewrite Hl. lia.
  - unfold fg_slice at 1. f_equal. unfold nlen in Hl. lia.
  - destruct (j =? 0); reflexivity.
Qed.

Lemma pieces_projs i fs : fg_pieces b pl i fs -> i < len ->
  exists ps, fg_projs fs = Some ps /\ Forall (frag_of data []) ps
             /\ (forall x, i <= x < len -> covered ps x)
             /\ Forall (fun f => i <= fr_off f) ps /\ sorted_by_off ps /\ ps <> [].
Proof.
  induction 1 as [i | i i' fs Hlt Hlen _ IH]; intros Hi;
    repeat match goal with H : context [nlen (fg_data pl)] |- _ => change (nlen (fg_data pl)) with len in H end.
  - exists [proj_of i len]. cbn [fg_projs]. change (nlen (fg_data pl)) with len. rewrite proj_mkfrag. repeat split.
    + constructor; [apply proj_frag_of; lia|constructor].
    + intros x Hx. exists (proj_of i len). split; [left; reflexivity|].
      unfold rs_end, proj_of. cbn [fr_off fr_data]. rewrite slice_len' by lia. lia.
    + constructor; [cbn; lia|constructor].
    + repeat constructor.
    + discriminate.
  - destruct (IH Hlen) as (ps & Hps & Hfo & Hcov & Hoff & Hsort & _).
    exists (proj_of i i' :: ps). cbn [fg_projs]. rewrite proj_mkfrag, Hps. repeat split.
    + constructor; [apply proj_frag_of; lia|exact Hfo].
    + intros x Hx. destruct (N.lt_ge_cases x i') as [Hx'|Hx'].
      * exists (proj_of i i'). split; [left; reflexivity|].
        unfold rs_end, proj_of. cbn [fr_off fr_data]. rewrite slice_len' by lia. lia.
      * destruct (Hcov x) as (g & Hg & Hr); [lia|]. exists g. split; [right; exact Hg|exact Hr].
    + constructor; [cbn; lia|]. eapply Forall_impl; [|exact Hoff]. cbn. intros; lia.
    + constructor; [exact Hsort|]. eapply Forall_impl; [|exact Hoff]. unfold off_le. cbn. intros; lia.
    + discriminate.
Qed.

Lemma pieces_strict i fs : fg_pieces b pl i fs ->
  StronglySorted boff_lt fs /\ Forall (fun f => i <= boff f) fs.
Proof.
  induction 1 as [i | i i' fs Hlt Hlen _ [IH1 IH2]].
  - split; [repeat constructor|]. constructor; [rewrite mkfrag_boff; lia|constructor].
  - split.
    + constructor; [exact IH1|]. eapply Forall_impl; [|exact IH2]. intros f Hf. cbv beta in Hf. unfold boff_lt. rewrite mkfrag_boff. lia.
    + constructor; [rewrite mkfrag_boff; lia|]. eapply Forall_impl; [|exact IH2]. cbn. intros; lia.
Qed.

Lemma filter_idem {A} (p : A -> bool) l : filter p (filter p l) = filter p l.
Proof.
  induction l as [|x l IH]; cbn [filter]; [reflexivity|].
  destruct (p x) eqn:E; cbn [filter]; rewrite ?E, IH; reflexivity.
Qed.

Lemma reassembled_eq now e0 d :
  bundle_wf b = true -> check_valid now b = true -> find_type 1 (b_blocks b) = Some pl ->
  fg_reassembled (mk 0 e0) (fg_payload_block pl d) data = b.
Proof.
  intros Hwf Hv Hf. destruct (valid_structure _ _ _ Hwf Hv Hf) as (Hbl & Hnum & Hval & _ & _).
  unfold bundle_wf in Hwf. apply andb_prop in Hwf. destruct Hwf as [Hpw _].
  unfold primary_wf in Hpw. split_andb.
  match goal with H : has _ F_FRAG || _ = true |- _ => rewrite Hnf in H; cbn [orb] in H; apply andb_prop in H; destruct H as [Ho Ht] end.
  apply N.eqb_eq in Ho, Ht.
  unfold fg_reassembled, mkfrag. cbn [b_pri b_blocks]. unfold fg_primary.
  cbn [p_flags p_crc p_dst p_src p_rpt p_time p_seq p_life p_off p_total].
  rewrite ldiff_lor1 by exact Hnf.
  destruct b as [p bl]. cbn [b_pri b_blocks] in *. f_equal.
  - destruct p. cbn in *. subst. reflexivity.
  - rewrite filter_app. cbn [filter]. rewrite payload_block_is_payload. cbn [negb]. rewrite app_nil_r.
    rewrite keep_first, filter_idem. rewrite Hbl at 2. unfold ext_blocks. cbn [b_blocks]. f_equal.
    unfold fg_payload_block. cbn [c_flags c_crc]. f_equal.
    symmetry. etransitivity; [apply cblock_eta|]. rewrite Hnum, Hval. reflexivity.
Qed.

(* reassembling the pieces in any order gives back b itself *)
Lemma reassemble_pieces now fs pi :
  bundle_wf b = true -> check_valid now b = true -> find_type 1 (b_blocks b) = Some pl ->
  fg_pieces b pl 0 fs -> 0 < len -> Permutation pi fs -> fg_reassemble now pi = ROk b.
Proof.
  intros Hwf Hv Hf Hp Hlen HP.
  destruct (pieces_strict _ _ Hp) as [Hstrict _].
  unfold fg_reassemble. rewrite (fg_sort_unique fs pi HP Hstrict).
  destruct (pieces_projs _ _ Hp Hlen) as (ps & Hps & Hfo & Hcov & _ & Hsort & Hne).
  rewrite Hps.
  destruct (reassemble_sorted_spec data [] ps Hfo Hsort) as [[_ Hok] | [Hno _]].
  2:{ exfalso. apply Hno. split; [exact Hne|]. intros x Hx. apply Hcov. fold len. lia. }
  unfold rs_reassemble_sorted in Hok.
  destruct (rs_prepare_sorted ps) as [e|]; [discriminate|].
  destruct ps as [|q ps']; [discriminate|].
  destruct (rs_merge 0 [] (q :: ps')) as [dd|]; [|discriminate].
  injection Hok as Hdd _. subst dd.
  assert (Hhead : exists e0 rest, fs = mk 0 e0 :: rest) by (inversion Hp; eauto).
  destruct Hhead as (e0 & rest & ->).
  assert (Hft : find_type 1 (b_blocks (mk 0 e0)) = Some (fg_payload_block pl (fg_slice data 0 e0))).
  { unfold mkfrag. cbn [b_blocks]. apply find_type_keep, payload_block_is_payload. }
  rewrite Hft.
  match goal with |- context [fg_reassembled ?f ?p ?d] =>
    replace (fg_reassembled f p d) with b by (symmetry; apply (reassembled_eq now); assumption) end.
  rewrite Hv. reflexivity.
Qed.
End ReasmPieces.

(* ================= 8. the theorems ================= *)
Lemma primary_len_le p len : primary_wf p = true ->
  primary_len p <= primary_len (fg_primary p 0 len).
Proof.
  intros Hw. unfold primary_len, fg_primary.
  cbn [p_flags p_crc p_dst p_src p_rpt p_time p_seq p_life p_off p_total].
  rewrite lor1_has. pose proof (hl_mono _ _ (lor1_ge (p_flags p))). change (N.lor (p_flags p) F_FRAG) with (N.lor (p_flags p) 1).
  destruct (has (p_flags p) F_FRAG) eqn:E; [|lia].
  unfold primary_wf in Hw. split_andb.
  rewrite N.add_0_l, N.mod_small by (unfold u64_ok, fg_u64 in *; lia). lia.
Qed.

(* a valid bundle is not longer than the single fragment that carries its whole payload *)
Lemma whole_le now b pl : bundle_wf b = true -> check_valid now b = true -> find_type 1 (b_blocks b) = Some pl ->
  bundle_len b <= bundle_len (mkfrag b pl 0 (nlen (fg_data pl))).
Proof.
  intros Hwf Hv Hf. destruct (valid_structure _ _ _ Hwf Hv Hf) as (Hbl & Hnum & Hval & _ & _).
  unfold bundle_wf in Hwf. apply andb_prop in Hwf. destruct Hwf as [Hpw _].
  unfold bundle_len, mkfrag. cbn [b_pri b_blocks].
  pose proof (primary_len_le (b_pri b) (nlen (fg_data pl)) Hpw).
  rewrite Hbl at 1. rewrite keep_first. fold (ext_blocks b). rewrite !blocks_len_app. cbn [blocks_len].
  assert (fg_payload_block pl (fg_slice (fg_data pl) 0 (nlen (fg_data pl))) = pl).
  { rewrite slice_to_end. cbn [N.to_nat skipn]. unfold fg_payload_block. rewrite <- Hval. symmetry. apply cblock_eta. }
  rewrite H0. lia.
Qed.

Lemma idx_u64 (d : list N) j : len_ok d = true -> (j = 0 \/ j < nlen d) -> u64_ok j = true.
Proof. unfold len_ok, max_raw, u64_ok. intros H1 H2. apply N.ltb_lt. apply N.leb_le in H1. lia. Qed.

Definition fragment_ok (now mtu : N) (b : bundle) (pl : cblock) (f : bundle) : Prop :=
  nlen (bundle_bytes f) <= mtu /\ bundle_wf f = true /\ check_valid now f = true
  /\ same_bundle b f /\ p_total (b_pri f) = fg_total b (fg_data pl).

Theorem fragment_sound now b mtu fs :
  bundle_wf b = true -> check_valid now b = true ->
  fg_fragment now b mtu = FOk fs ->
  (fs = [b] /\ nlen (bundle_bytes b) <= mtu)
  \/ exists pl, find_type 1 (b_blocks b) = Some pl /\ c_val pl = XPayload (fg_data pl)
       /\ (2 <= length fs)%nat
       /\ Forall (fragment_ok now mtu b pl) fs
       /\ (fg_base b + nlen (fg_data pl) <= fg_u64 -> fg_partition (fg_base b) (fg_data pl) fs)
       /\ fg_placed b pl fs.
Proof.
  intros Hwf Hv. unfold fg_fragment.
  destruct (has (p_flags (b_pri b)) F_NOFRAG); [discriminate|].
  rewrite enc_bundle_ok by exact Hwf.
  destruct (N.leb_spec (nlen (bundle_bytes b)) mtu) as [Hfit|Hnofit].
  { intros H. injection H as <-. left. split; [reflexivity|exact Hfit]. }
  destruct (find_type 1 (b_blocks b)) as [pl|] eqn:Hf; [|discriminate].
  destruct (valid_structure _ _ _ Hwf Hv Hf) as (Hbl & Hnum & Hval & Hin & Hp).
  pose proof Hwf as Hwf'. unfold bundle_wf in Hwf'. apply andb_prop in Hwf'. destruct Hwf' as [Hpw Hbw].
  rewrite fg_ext_len_spec by exact Hbw. rewrite !N.add_0_l.
  generalize (S (length (fg_data pl))). intros fuel.
  destruct (fg_loop fuel now mtu b pl (efirst mtu (b_blocks b)) (eothers mtu (b_blocks b)) 0) as [| |fs'] eqn:El; try discriminate.
  pose proof (fg_loop_chain _ _ _ _ _ _ _ _ _ El) as Hchain.
  pose proof (chain_pieces _ _ _ _ _ _ _ _ Hchain) as Hpieces.
  pose proof (chain_steps _ _ _ _ _ _ _ _ Hchain (or_introl eq_refl)) as Hsteps.
  assert (Hplw : cblock_wf pl = true) by (rewrite forallb_forall in Hbw; apply Hbw, Hin).
  destruct (payload_data_ok pl Hplw Hp) as [_ Hdl].
  assert (Hall : Forall (fragment_ok now mtu b pl) fs').
  { eapply Forall_impl; [|exact Hsteps]. intros f (j & j' & Hj & Hs).
    pose proof (idx_u64 _ _ Hdl Hj) as Hju.
    destruct (fg_step_size _ _ _ _ _ _ _ Hwf Hin Hp Hju Hs) as [Hfw Hfl].
    apply fg_step_spec in Hs. destruct Hs as (pbs & _ & _ & _ & Hfeq & Hfv).
    unfold fragment_ok. rewrite bundle_bytes_len by exact Hfw.
    split; [exact Hfl|]. split; [exact Hfw|]. split; [exact Hfv|].
    split; [rewrite Hfeq; apply mkfrag_same|rewrite Hfeq; apply mkfrag_total]. }
  destruct fs' as [|f1 [|f2 rest]].
  - inversion Hpieces.
  - (* a single fragment: the bundle itself is returned - it is not longer than that fragment *)
    intros H. injection H as <-. left. split; [reflexivity|].
    inversion Hpieces as [|? ? ? ? ? Hrest]; subst; [|inversion Hrest].
    inversion Hall as [|? ? Hok _]; subst. destruct Hok as (Hsz & Hfw & _).
    rewrite bundle_bytes_len in * by assumption.
    pose proof (whole_le _ _ _ Hwf Hv Hf). lia.
  - intros H. injection H as <-. right. exists pl.
    split; [reflexivity|]. split; [exact Hval|]. split; [cbn [length]; lia|]. split; [exact Hall|]. split.
    + intros Hr. inversion Hpieces as [|? i' ? Hlt Hlen Hrest]; subst.
      pose proof (pieces_partition _ _ _ _ Hpieces) as Hpart. cbn [N.to_nat skipn] in Hpart.
      rewrite N.add_0_r in Hpart. apply Hpart; [lia|exact Hr].
    + destruct (pieces_placed _ _ _ _ Hpieces) as (f0 & rest' & Heq & Hf0 & Hrest). injection Heq as <- <-.
      cbn [fg_placed]. split; assumption.
Qed.

Theorem fragment_fits now b mtu :
  bundle_wf b = true -> has (p_flags (b_pri b)) F_NOFRAG = false -> nlen (bundle_bytes b) <= mtu ->
  fg_fragment now b mtu = FOk [b].
Proof.
  intros Hwf Hn Hfit. unfold fg_fragment. rewrite Hn, enc_bundle_ok by exact Hwf.
  destruct (N.leb_spec (nlen (bundle_bytes b)) mtu); [reflexivity|lia].
Qed.

Theorem fragment_nofrag now b mtu :
  has (p_flags (b_pri b)) F_NOFRAG = true -> fg_fragment now b mtu = FErr.
Proof. intros H. unfold fg_fragment. rewrite H. reflexivity. Qed.

Theorem fragment_no_fuel now b mtu : fg_fragment now b mtu <> FFuel.
Proof.
  unfold fg_fragment.
  destruct (has (p_flags (b_pri b)) F_NOFRAG); [discriminate|].
  destruct (enc_bundle b) as [bs|]; [|discriminate].
  destruct (nlen bs <=? mtu); [discriminate|].
  destruct (find_type 1 (b_blocks b)) as [pl|]; [|discriminate].
  destruct (fg_ext_len mtu (b_blocks b) 0 0) as [[first others]|]; [|discriminate].
  assert (Hfuel : fg_loop (S (length (fg_data pl))) now mtu b pl first others 0 <> LFuel).
  { apply fg_loop_fuel; [left; reflexivity|unfold nlen; lia]. }
  revert Hfuel. generalize (S (length (fg_data pl))). intros fuel.
  destruct (fg_loop fuel now mtu b pl first others 0) as [| |[|f1 [|f2 rest]]]; intros Hfuel; try discriminate.
  exfalso. apply Hfuel. reflexivity.
Qed.

Theorem fragment_invertible now b mtu fs :
  bundle_wf b = true -> check_valid now b = true -> has (p_flags (b_pri b)) F_FRAG = false ->
  fg_fragment now b mtu = FOk fs ->
  fs = [b] \/ forall pi, Permutation pi fs -> fg_reassemble now pi = ROk b.
Proof.
  intros Hwf Hv Hnf. unfold fg_fragment.
  destruct (has (p_flags (b_pri b)) F_NOFRAG); [discriminate|].
  rewrite enc_bundle_ok by exact Hwf.
  destruct (N.leb_spec (nlen (bundle_bytes b)) mtu) as [Hfit|Hnofit].
  { intros H. injection H as <-. left. reflexivity. }
  destruct (find_type 1 (b_blocks b)) as [pl|] eqn:Hf; [|discriminate].
  destruct (fg_ext_len mtu (b_blocks b) 0 0) as [[first others]|]; [|discriminate].
  generalize (S (length (fg_data pl))). intros fuel.
  destruct (fg_loop fuel now mtu b pl first others 0) as [| |fs'] eqn:El; try discriminate.
  pose proof (chain_pieces _ _ _ _ _ _ _ _ (fg_loop_chain _ _ _ _ _ _ _ _ _ El)) as Hpieces.
  destruct fs' as [|f1 [|f2 rest]].
  - inversion Hpieces.
  - intros H. injection H as <-. left. reflexivity.
  - intros H. injection H as <-. right. intros pi HP.
    assert (Hlen : 0 < nlen (fg_data pl)) by (inversion Hpieces; subst; lia).
    eapply reassemble_pieces; eassumption.
Qed.

(* never an empty list *)
Corollary fragment_nonempty now b mtu fs :
  bundle_wf b = true -> check_valid now b = true -> fg_fragment now b mtu = FOk fs -> fs <> [].
Proof.
  intros Hwf Hv H. destruct (fragment_sound _ _ _ _ Hwf Hv H) as [[-> _] | (pl & _ & _ & Hl & _)]; [discriminate|].
  intros ->. cbn in Hl. lia.
Qed.

(* every returned bundle is decoded from its own serialisation to itself (C01 round trip applies) *)
Corollary fragment_parse now b mtu fs :
  bundle_wf b = true -> check_valid now b = true -> fg_fragment now b mtu = FOk fs ->
  Forall (fun f => forall r, dec_bundle now (bundle_bytes f ++ r) = Some (f, r)) fs.
Proof.
  intros Hwf Hv H. destruct (fragment_sound _ _ _ _ Hwf Hv H) as [[-> _] | (pl & _ & _ & _ & Hall & _)].
  - constructor; [|constructor]. intros r. apply dec_bundle_enc; assumption.
  - eapply Forall_impl; [|exact Hall]. intros f (_ & Hfw & Hfv & _) r. apply dec_bundle_enc; assumption.
Qed.

(* serialised identically: corollary of the exact inversion *)
Corollary fragment_invertible_bytes now b mtu fs :
  bundle_wf b = true -> check_valid now b = true -> has (p_flags (b_pri b)) F_FRAG = false ->
  fg_fragment now b mtu = FOk fs ->
  fs = [b] \/ forall pi, Permutation pi fs ->
                exists b', fg_reassemble now pi = ROk b' /\ bundle_bytes b' = bundle_bytes b.
Proof.
  intros Hwf Hv Hnf H. destruct (fragment_invertible _ _ _ _ Hwf Hv Hnf H) as [->|Hall]; [left; reflexivity|].
  right. intros pi HP. exists b. split; [apply Hall, HP|reflexivity].
Qed.
