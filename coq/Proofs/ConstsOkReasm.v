(* ConstsOkReasm.v - the shapes regenerated from the Go source (gen/Consts.v) coincide with the
   ones the reassembly model is written against (Model/SpecReasm.v). *)
From Coq Require Import ZArith List.
Import ListNotations.
From DTN Require Import Consts SpecReasm.
Open Scope Z_scope.

Lemma reasm_flags_ok :
  pkg_bpv7__IsFragment = reasm_isfragment_flag
  /\ pkg_bpv7__ExtBlockTypePayloadBlock = reasm_payload_block_type.
Proof. split; reflexivity. Qed.

Lemma reasm_prepare_ok :
  pkg_bpv7__prepareReassembly__ops = reasm_prepare_ops
  /\ pkg_bpv7__prepareReassembly__lits = reasm_prepare_lits
  /\ pkg_bpv7__IsBundleReassemblable__ops = reasm_isre_ops.
Proof. repeat split; reflexivity. Qed.

Lemma reasm_merge_ok :
  pkg_bpv7__mergeFragmentPayload__ops = reasm_merge_ops
  /\ pkg_bpv7__mergeFragmentPayload__lits = reasm_merge_lits.
Proof. split; reflexivity. Qed.

Lemma reasm_reassemble_ok :
  pkg_bpv7__ReassembleFragments__ops = reasm_reassemble_ops
  /\ pkg_bpv7__ReassembleFragments__lits = reasm_reassemble_lits.
Proof. split; reflexivity. Qed.

Lemma reasm_fragpb_ok : pkg_bpv7__fragmentPrimaryBlock__ops = reasm_fragpb_ops.
Proof. reflexivity. Qed.

Lemma reasm_store_ok :
  pkg_storage__BundleItem_IsComplete__ops = reasm_iscomplete_ops
  /\ pkg_storage__BundleItem_Load__ops = reasm_load_ops.
Proof. repeat split; reflexivity. Qed.
