(* ClaMgrProofs.v - invariants of the CLA manager model (Model/ClaMgr.v) and the lemmas behind
   the C16 theorems. *)
From DTN Require Import Base ClaMgr.
From Coq Require Import Lia.
Open Scope Z_scope.

Definition keys (r : cm_reg) : list N := map fst r.

(* ------------------------------------------------------------------ registry *)
Lemma reg_get_In : forall k r e, reg_get k r = Some e -> In (k, e) r.
Proof.
  induction r as [|[k' e'] r IH]; cbn [reg_get]; intros e H; [discriminate|].
  destruct (N.eqb_spec k k') as [->|Hne].
  - inversion H; subst. now left.
  - right. now apply IH.
Qed.

Lemma reg_get_None : forall k r, reg_get k r = None -> ~ In k (keys r).
Proof.
  induction r as [|[k' e'] r IH]; cbn [reg_get keys map fst]; intros H; [tauto|].
  destruct (N.eqb_spec k k') as [->|Hne]; [discriminate|].
  intros [Heq|Hin]; [congruence|]. now apply IH.
Qed.

Lemma In_keys : forall k e (r : cm_reg), In (k, e) r -> In k (keys r).
Proof. intros k e r H. apply (in_map fst) in H. exact H. Qed.

Lemma reg_get_NoDup_In : forall k e r, NoDup (keys r) -> In (k, e) r -> reg_get k r = Some e.
Proof.
  induction r as [|[k' e'] r IH]; cbn [reg_get keys map fst]; intros Hnd Hin; [contradiction|].
  inversion Hnd as [|? ? Hnotin Hnd']; subst.
  destruct Hin as [Heq|Hin].
  - inversion Heq; subst. now rewrite N.eqb_refl.
  - destruct (N.eqb_spec k k') as [->|Hne].
    + exfalso. apply Hnotin. eapply In_keys; eauto.
    + now apply IH.
Qed.

Lemma keys_reg_del_incl : forall k r x, In x (keys (reg_del k r)) -> In x (keys r).
Proof.
  induction r as [|[k' e'] r IH]; cbn [reg_del keys map fst]; intros x H; [contradiction|].
  destruct (N.eqb k k'); cbn [map fst] in *.
  - now right.
  - destruct H as [H|H]; [now left|right; now apply IH].
Qed.

Lemma In_reg_del : forall k r x, In x (reg_del k r) -> In x r.
Proof.
  induction r as [|[k' e'] r IH]; cbn [reg_del]; intros x H; [contradiction|].
  destruct (N.eqb k k').
  - now right.
  - destruct H as [H|H]; [now left|right; now apply IH].
Qed.

Lemma NoDup_reg_del : forall k r, NoDup (keys r) -> NoDup (keys (reg_del k r)).
Proof.
  induction r as [|[k' e'] r IH]; cbn [reg_del keys map fst]; intros Hnd; [constructor|].
  inversion Hnd as [|? ? Hnotin Hnd']; subst.
  destruct (N.eqb k k'); [exact Hnd'|].
  cbn [map fst]. constructor.
  - intros H. apply Hnotin. eapply keys_reg_del_incl; eauto.
  - now apply IH.
Qed.

Lemma reg_del_notin : forall k r, NoDup (keys r) -> ~ In k (keys (reg_del k r)).
Proof.
  induction r as [|[k' e'] r IH]; cbn [reg_del keys map fst]; intros Hnd; [tauto|].
  inversion Hnd as [|? ? Hnotin Hnd']; subst.
  destruct (N.eqb_spec k k') as [->|Hne]; [exact Hnotin|].
  cbn [map fst]. intros [H|H]; [congruence|]. now apply IH.
Qed.

Lemma keys_reg_set : forall k e r x, In x (keys (reg_set k e r)) -> x = k \/ In x (keys r).
Proof.
  induction r as [|[k' e'] r IH]; cbn [reg_set keys map fst]; intros x H.
  - destruct H as [H|[]]; now left.
  - destruct (N.eqb_spec k k') as [->|Hne]; cbn [map fst] in H.
    + destruct H as [H|H]; [left; congruence|right; now right].
    + destruct H as [H|H]; [right; now left|].
      destruct (IH _ H) as [?|?]; [now left|right; now right].
Qed.

Lemma NoDup_reg_set : forall k e r, NoDup (keys r) -> NoDup (keys (reg_set k e r)).
Proof.
  induction r as [|[k' e'] r IH]; cbn [reg_set keys map fst]; intros Hnd.
  - constructor; [tauto|constructor].
  - inversion Hnd as [|? ? Hnotin Hnd']; subst.
    destruct (N.eqb_spec k k') as [->|Hne]; cbn [map fst].
    + constructor; assumption.
    + constructor; [|now apply IH].
      intros H. destruct (keys_reg_set _ _ _ _ H) as [?|?]; [congruence|contradiction].
Qed.

Lemma existsb_reg_split : forall (F : N * cm_elem -> bool) k r,
  existsb F r = (match reg_get k r with Some e => F (k, e) | None => false end) || existsb F (reg_del k r).
Proof.
  induction r as [|[k' e'] r IH]; cbn [reg_get reg_del existsb]; [reflexivity|].
  destruct (N.eqb_spec k k') as [->|Hne]; [reflexivity|].
  cbn [existsb]. rewrite IH. destruct (F (k', e')), (reg_get k r); cbn; try reflexivity.
  all: now rewrite ?orb_true_r.
Qed.

Lemma existsb_reg_set : forall (F : N * cm_elem -> bool) k e r,
  existsb F (reg_set k e r) = F (k, e) || existsb F (reg_del k r).
Proof.
  induction r as [|[k' e'] r IH]; cbn [reg_set reg_del existsb]; [reflexivity|].
  destruct (N.eqb_spec k k') as [->|Hne]; cbn [existsb]; [reflexivity|].
  rewrite IH. destruct (F (k', e')), (F (k, e)); reflexivity.
Qed.

Lemma Forall_reg_del : forall (P : N * cm_elem -> Prop) k r, Forall P r -> Forall P (reg_del k r).
Proof.
  intros P k r H. rewrite Forall_forall in *. intros x Hx. apply H. eapply In_reg_del; eauto.
Qed.

Lemma Forall_reg_set : forall (P : N * cm_elem -> Prop) k e r, Forall P r -> P (k, e) -> Forall P (reg_set k e r).
Proof.
  induction r as [|[k' e'] r IH]; cbn [reg_set]; intros H Hp.
  - constructor; [exact Hp|constructor].
  - inversion H; subst. destruct (N.eqb k k'); constructor; auto.
Qed.

(* ------------------------------------------------------------------ call log *)
Definition sfold (id : nat) (cs : list cm_call) (b : bool) : bool := fold_left (cm_started_step id) cs b.

Lemma cm_started_app : forall l cs id, cm_started (l ++ cs) id = sfold id cs (cm_started l id).
Proof. intros. unfold cm_started, sfold. now rewrite fold_left_app. Qed.

Lemma sfold_app : forall id a b x, sfold id (a ++ b) x = sfold id b (sfold id a x).
Proof. intros. unfold sfold. now rewrite fold_left_app. Qed.

Definition call_inst (c : cm_call) : nat := match c with CStart i _ => i | CClose i => i end.

Lemma sfold_other : forall id cs b, (forall c, In c cs -> call_inst c <> id) -> sfold id cs b = b.
Proof.
  induction cs as [|c cs IH]; intros b H; [reflexivity|].
  unfold sfold in *. cbn [fold_left].
  assert (Hc : cm_started_step id b c = b).
  { specialize (H c (or_introl eq_refl)). destruct c as [i o|i]; cbn [cm_started_step call_inst] in *;
    destruct (Nat.eqb_spec i id); congruence. }
  rewrite Hc. apply IH. intros c' Hc'. apply H. now right.
Qed.

Lemma count_app : forall f a b, cm_count f (a ++ b) = (cm_count f a + cm_count f b)%nat.
Proof. intros. unfold cm_count. now rewrite filter_app, app_length. Qed.

Lemma count_other : forall f cs, (forall c, In c cs -> f c = false) -> cm_count f cs = 0%nat.
Proof.
  induction cs as [|c cs IH]; intros H; [reflexivity|].
  unfold cm_count in *. cbn [filter]. rewrite (H c (or_introl eq_refl)). apply IH.
  intros c' Hc'. apply H. now right.
Qed.

(* ------------------------------------------------------------------ element invariant *)
Definition elem_ok (cfg : cm_cfg) (ke : N * cm_elem) : Prop :=
  let e := snd ke in
  (e_inst e < length (cfg_ads cfg))%nat
  /\ fst ke = ad_addr (cm_ad cfg (e_inst e))
  /\ (e_ttl e < 0 <-> e_chan e = COpen)
  /\ e_ttl e <= cfg_ttl cfg.

(* "instance id has an active element" *)
Definition reg_act (r : cm_reg) (id : nat) : bool :=
  existsb (fun ke => Nat.eqb (e_inst (snd ke)) id && cm_active (snd ke)) r.
Definition reg_has (r : cm_reg) (id : nat) : bool :=
  existsb (fun ke => Nat.eqb (e_inst (snd ke)) id) r.

Lemma reg_has_false_act : forall r id, reg_has r id = false -> reg_act r id = false.
Proof.
  induction r as [|ke r IH]; intros id H; [reflexivity|].
  unfold reg_has, reg_act in *. cbn [existsb] in *.
  apply orb_false_iff in H as [H1 H2]. rewrite H1, (IH _ H2). reflexivity.
Qed.

(* an instance can only sit under its own address *)
Lemma reg_has_key : forall cfg r id, Forall (elem_ok cfg) r ->
  ~ In (ad_addr (cm_ad cfg id)) (keys r) -> reg_has r id = false.
Proof.
  induction r as [|[k e] r IH]; intros id Hok Hnot; [reflexivity|].
  inversion Hok as [|? ? Hk Hok']; subst. unfold reg_has in *. simpl in *.
  destruct (Nat.eqb_spec (e_inst e) id) as [Heq|Hne].
  - exfalso. apply Hnot. left. destruct Hk as (_ & Hk & _). rewrite <- Heq. exact Hk.
  - simpl. apply IH; auto.
Qed.

(* sync r cs r' : replaying the calls cs on "who is started" moves reg_act r to reg_act r' *)
Definition sync (r : cm_reg) (cs : list cm_call) (r' : cm_reg) : Prop :=
  forall id, sfold id cs (reg_act r id) = reg_act r' id.

Lemma sync_refl : forall r, sync r [] r.
Proof. intros r id. reflexivity. Qed.

Lemma sync_trans : forall r1 c1 r2 c2 r3, sync r1 c1 r2 -> sync r2 c2 r3 -> sync r1 (c1 ++ c2) r3.
Proof. intros r1 c1 r2 c2 r3 H1 H2 id. rewrite sfold_app, H1. apply H2. Qed.

(* ------------------------------------------------------------------ activate / deactivate *)
Ltac act_solve Hc :=
  solve [ tauto | lia | reflexivity
        | symmetry; apply Z.ltb_ge; lia
        | let x := fresh in let Hx := fresh in intros x Hx; destruct Hx as [<-|[]]; reflexivity
        | let x := fresh in intros x []
        | let Ha := fresh in intros Ha; apply Z.ltb_lt in Ha; lia
        | let Hx := fresh in intros Hx; apply Hc; lia
        | let Hx := fresh in intros Hx; apply Hc in Hx; lia
        | intros; discriminate ].

Lemma activate_spec : forall cfg perm o k e,
  0 <= cfg_ttl cfg -> elem_ok cfg (k, e) -> cm_active e = false ->
  forall e' s rt c, cm_activate perm o e = (e', (s, rt), c) ->
  e_inst e' = e_inst e
  /\ elem_ok cfg (k, e')
  /\ s = cm_active e'
  /\ (forall x, In x c -> call_inst x = e_inst e)
  /\ sfold (e_inst e) c false = cm_active e'
  /\ (cm_active e' = true -> rt = false).
Proof.
  intros cfg perm o k e Hq (Hi & Hk & Hc & Hle) Hna e' s rt c H.
  unfold cm_activate in H. rewrite Hna in H. unfold cm_active in Hna. apply Z.ltb_ge in Hna.
  cbn [fst snd] in *.
  destruct ((e_ttl e =? 0) && negb perm).
  { inversion H; subst. unfold elem_ok, cm_active, sfold; cbn [fst snd fold_left].
    repeat split; act_solve Hc. }
  assert (Hge : 0 <= (if 0 <? e_ttl e then e_ttl e - 1 else e_ttl e) <= cfg_ttl cfg).
  { destruct (Z.ltb_spec 0 (e_ttl e)); lia. }
  destruct o; inversion H; subst; clear H; unfold elem_ok, cm_active, sfold;
    cbn [fst snd e_inst e_ttl e_chan fold_left cm_started_step call_inst]; rewrite ?Nat.eqb_refl;
    repeat split; act_solve Hc.
Qed.

Lemma deactivate_spec : forall cfg k e,
  elem_ok cfg (k, e) ->
  exists e' c, cm_deactivate (cfg_ttl cfg) e = Some (e', c)
    /\ (forall x, In x c -> call_inst x = e_inst e)
    /\ sfold (e_inst e) c (cm_active e) = false
    /\ c = (if cm_active e then [CClose (e_inst e)] else []).
Proof.
  intros cfg k e (Hi & Hk & Hc & Hle). unfold cm_deactivate. cbn [fst snd] in *.
  destruct (cm_active e) eqn:Ha.
  - unfold cm_active in Ha. apply Z.ltb_lt in Ha. apply Hc in Ha. rewrite Ha.
    eexists _, _. split; [reflexivity|]. repeat split.
    + intros x [<-|[]]. reflexivity.
    + unfold sfold. cbn [fold_left cm_started_step]. now rewrite Nat.eqb_refl.
  - eexists _, _. split; [reflexivity|]. repeat split. intros x [].
Qed.

(* ------------------------------------------------------------------ registry invariant *)
Definition reg_ok (cfg : cm_cfg) (r : cm_reg) : Prop := NoDup (keys r) /\ Forall (elem_ok cfg) r.

Lemma reg_del_id : forall k r, ~ In k (keys r) -> reg_del k r = r.
Proof.
  induction r as [|[k' e'] r IH]; cbn [reg_del keys map fst]; intros H; [reflexivity|].
  destruct (N.eqb_spec k k') as [->|Hne]; [exfalso; apply H; now left|].
  f_equal. apply IH. intros Hin. apply H. now right.
Qed.

Lemma reg_ok_del : forall cfg k r, reg_ok cfg r -> reg_ok cfg (reg_del k r).
Proof. intros cfg k r [H1 H2]. split; [now apply NoDup_reg_del|now apply Forall_reg_del]. Qed.

Lemma reg_ok_set : forall cfg k e r, reg_ok cfg r -> elem_ok cfg (k, e) -> reg_ok cfg (reg_set k e r).
Proof. intros cfg k e r [H1 H2] He. split; [now apply NoDup_reg_set|now apply Forall_reg_set]. Qed.

Lemma reg_ok_In : forall cfg r k e, reg_ok cfg r -> In (k, e) r -> elem_ok cfg (k, e).
Proof. intros cfg r k e [_ H] Hin. rewrite Forall_forall in H. now apply H. Qed.

(* after deleting the address of instance i, no element of instance i is left *)
Lemma del_no_inst : forall cfg r i, reg_ok cfg r ->
  reg_has (reg_del (ad_addr (cm_ad cfg i)) r) i = false.
Proof.
  intros cfg r i [Hnd Hall]. apply (reg_has_key cfg).
  - now apply Forall_reg_del.
  - now apply reg_del_notin.
Qed.

Lemma reg_act_split : forall k r id,
  reg_act r id = (match reg_get k r with
                  | Some e => Nat.eqb (e_inst e) id && cm_active e | None => false end)
                 || reg_act (reg_del k r) id.
Proof.
  intros. unfold reg_act. rewrite (existsb_reg_split _ k). destruct (reg_get k r); reflexivity.
Qed.

Lemma reg_act_set : forall k e r id,
  reg_act (reg_set k e r) id = (Nat.eqb (e_inst e) id && cm_active e) || reg_act (reg_del k r) id.
Proof. intros. unfold reg_act. now rewrite existsb_reg_set. Qed.

(* storing e' (result of a start attempt on an inactive / new element of the same instance) *)
Lemma sync_set : forall cfg r k e' c,
  reg_ok cfg r -> elem_ok cfg (k, e') ->
  (forall x, In x c -> call_inst x = e_inst e') ->
  sfold (e_inst e') c false = cm_active e' ->
  (reg_get k r = None \/ exists e, reg_get k r = Some e /\ cm_active e = false /\ e_inst e = e_inst e') ->
  sync r c (reg_set k e' r).
Proof.
  intros cfg r k e' c Hok He' Hc Hs Hget id.
  rewrite reg_act_set, (reg_act_split k r id).
  assert (Hk : k = ad_addr (cm_ad cfg (e_inst e'))) by (destruct He' as (_ & Hk & _); exact Hk).
  assert (Hdel : reg_act (reg_del k r) (e_inst e') = false).
  { apply reg_has_false_act. rewrite Hk. now apply del_no_inst. }
  assert (Hfirst : (match reg_get k r with
                    | Some e => Nat.eqb (e_inst e) id && cm_active e | None => false end) = false).
  { destruct Hget as [->|(e & -> & Ha & _)]; [reflexivity|]. rewrite Ha. apply andb_false_r. }
  rewrite Hfirst. cbn [orb].
  destruct (Nat.eqb_spec (e_inst e') id) as [Heq|Hne].
  - rewrite <- Heq, Hdel, Hs. now rewrite orb_false_r.
  - cbn [andb orb]. apply sfold_other. intros x Hx. rewrite (Hc x Hx). exact Hne.
Qed.

Lemma nth_error_ad : forall cfg id a, nth_error (cfg_ads cfg) id = Some a ->
  cm_ad cfg id = a /\ (id < length (cfg_ads cfg))%nat.
Proof.
  intros cfg id a H. split.
  - unfold cm_ad. now apply nth_error_nth.
  - apply nth_error_Some. congruence.
Qed.

Lemma register_spec : forall cfg o r id, 0 <= cfg_ttl cfg -> reg_ok cfg r ->
  forall r' c, cm_register cfg o r id = (r', c) -> reg_ok cfg r' /\ sync r c r'.
Proof.
  intros cfg o r id Hq Hok r' c H. unfold cm_register in H.
  destruct (nth_error (cfg_ads cfg) id) as [a|] eqn:Hnth.
  2:{ inversion H; subst. split; [exact Hok|apply sync_refl]. }
  destruct (nth_error_ad _ _ _ Hnth) as [Had Hlt].
  destruct (reg_get (ad_addr a) r) as [e|] eqn:Hget.
  - assert (Hek : elem_ok cfg (ad_addr a, e)) by (eapply reg_ok_In; eauto using reg_get_In).
    destruct (cm_active e) eqn:Hact.
    { inversion H; subst. split; [exact Hok|apply sync_refl]. }
    destruct (cm_is_sender (cm_ad cfg (e_inst e)) && cm_recv_conflict cfg r (ad_peer (cm_ad cfg (e_inst e)))).
    { inversion H; subst. split; [exact Hok|apply sync_refl]. }
    destruct (cm_activate (ad_perm (cm_ad cfg (e_inst e))) (cm_orc o (e_inst e)) e) as [[e' [s rt]] c0] eqn:Hactv.
    cbn [orb] in H. inversion H; subst; clear H.
    destruct (activate_spec _ _ _ _ _ Hq Hek Hact _ _ _ _ Hactv) as (Hi & Hok' & _ & Hc & Hs & _).
    split; [now apply reg_ok_set|].
    eapply sync_set; eauto.
    all: try (intros x Hx; rewrite Hi; now apply Hc).
    all: try (now rewrite Hi).
    all: try (right; exists e; repeat split; auto).
  - set (e0 := mkElem id (cfg_ttl cfg) CNil) in *.
    assert (Hek : elem_ok cfg (ad_addr a, e0)).
    { unfold elem_ok, e0; cbn [fst snd e_inst e_ttl e_chan]. rewrite Had.
      repeat split; try lia; try reflexivity; intros; try lia; discriminate. }
    assert (Hact : cm_active e0 = false) by (unfold cm_active, e0; cbn [e_ttl]; apply Z.ltb_ge; lia).
    cbn [e_inst e0] in H. fold e0 in H.
    destruct (cm_is_sender (cm_ad cfg id) && cm_recv_conflict cfg r (ad_peer (cm_ad cfg id))).
    { inversion H; subst. split; [exact Hok|apply sync_refl]. }
    destruct (cm_activate (ad_perm (cm_ad cfg id)) (cm_orc o id) e0) as [[e' [s rt]] c0] eqn:Hactv.
    destruct (activate_spec _ _ _ _ _ Hq Hek Hact _ _ _ _ Hactv) as (Hi & Hok' & Hs' & Hc & Hs & _).
    cbn [e_inst e0] in Hi, Hc, Hs.
    cbn [orb] in H. destruct (s || rt) eqn:Hsr; injection H as Hr Hcc; subst r' c.
    + split; [now apply reg_ok_set|].
      eapply sync_set; eauto.
      all: try (intros x Hx; rewrite Hi; now apply Hc).
      all: try (now rewrite Hi).
    + split; [exact Hok|]. apply orb_false_iff in Hsr as [Hsf _].
      intros id0. destruct (Nat.eq_dec id0 id) as [->|Hne].
      * assert (Hnone : reg_act r id = false).
        { apply reg_has_false_act. apply (reg_has_key cfg); [apply Hok|]. rewrite Had. now apply reg_get_None. }
        rewrite Hnone, Hs. congruence.
      * apply sfold_other. intros x Hx. rewrite (Hc x Hx). congruence.
Qed.

Lemma unregister_spec : forall cfg r id, reg_ok cfg r ->
  exists r' c, cm_unregister cfg r id = Some (r', c) /\ reg_ok cfg r' /\ sync r c r'
               /\ reg_has r' id = false.
Proof.
  intros cfg r id Hok. unfold cm_unregister.
  destruct (nth_error (cfg_ads cfg) id) as [a|] eqn:Hnth.
  2:{ exists r, []. repeat split; try apply Hok; try apply sync_refl.
      destruct Hok as [_ Hall]. clear -Hall Hnth. apply nth_error_None in Hnth.
      induction Hall as [|[k e] r He Hall IH]; [reflexivity|].
      unfold reg_has in *. cbn [existsb snd]. rewrite IH, orb_false_r.
      apply Nat.eqb_neq. destruct He as (Hlt & _). cbn [snd] in Hlt. lia. }
  destruct (nth_error_ad _ _ _ Hnth) as [Had Hlt].
  destruct (reg_get (ad_addr a) r) as [e|] eqn:Hget.
  2:{ exists r, []. repeat split; try apply Hok; try apply sync_refl.
      apply (reg_has_key cfg); [apply Hok|]. rewrite Had. now apply reg_get_None. }
  assert (Hek : elem_ok cfg (ad_addr a, e)) by (eapply reg_ok_In; eauto using reg_get_In).
  destruct (Nat.eqb_spec (e_inst e) id) as [Heq|Hne].
  - destruct (deactivate_spec _ _ _ Hek) as (e' & c & Hd & Hc & Hs & _). rewrite Hd.
    exists (reg_del (ad_addr a) r), c.
    assert (Hno : reg_has (reg_del (ad_addr a) r) id = false) by (rewrite <- Had; now apply del_no_inst).
    split; [reflexivity|]. split; [apply reg_ok_del; exact Hok|]. split; [|exact Hno].
    intros id0. rewrite (reg_act_split (ad_addr a) r id0), Hget.
    destruct (Nat.eqb_spec (e_inst e) id0) as [Heq0|Hne0].
    + subst id0. rewrite Heq in *. rewrite (reg_has_false_act _ _ Hno), orb_false_r. cbn [andb]. exact Hs.
    + cbn [andb orb]. apply sfold_other. intros x Hx. rewrite (Hc x Hx). exact Hne0.
  - exists r, []. repeat split; try apply Hok; try apply sync_refl.
    (* the address of id is held by another instance *)
    unfold reg_has.
    rewrite (existsb_reg_split _ (ad_addr a) r), Hget. cbn [snd].
    apply Nat.eqb_neq in Hne. rewrite Hne. cbn [orb]. rewrite <- Had. now apply del_no_inst.
Qed.

(* ------------------------------------------------------------------ retry pass *)
Lemma reg_ok_cons : forall cfg k e r, reg_ok cfg ((k, e) :: r) ->
  elem_ok cfg (k, e) /\ reg_ok cfg r /\ reg_has r (e_inst e) = false /\ ~ In k (keys r).
Proof.
  intros cfg k e r [Hnd Hall]. cbn [keys map fst] in Hnd.
  inversion Hnd as [|? ? Hnotin Hnd']; subst. inversion Hall as [|? ? He Hall']; subst.
  split; [exact He|]. split; [split; assumption|]. split; [|exact Hnotin].
  apply (reg_has_key cfg); auto. destruct He as (_ & Hk & _). cbn [fst snd] in Hk. now rewrite <- Hk.
Qed.

Lemma reg_act_cons : forall k e r id,
  reg_act ((k, e) :: r) id = (Nat.eqb (e_inst e) id && cm_active e) || reg_act r id.
Proof. reflexivity. Qed.
Lemma reg_has_cons : forall k e (r : cm_reg) id,
  reg_has ((k, e) :: r) id = Nat.eqb (e_inst e) id || reg_has r id.
Proof. reflexivity. Qed.

Lemma tick_spec : forall cfg o r, 0 <= cfg_ttl cfg -> reg_ok cfg r ->
  forall r' cs, cm_tick_pass cfg o r = (r', cs) ->
  reg_ok cfg r' /\ sync r cs r'
  /\ (forall x, In x (keys r') -> In x (keys r))
  /\ (forall x, In x cs -> reg_has r (call_inst x) = true).
Proof.
  intros cfg o r Hq. induction r as [|[k e] r IH]; intros Hok r' cs H.
  - cbn in H. inversion H; subst. split; [exact Hok|]. split; [apply sync_refl|]. split; [auto|intros x []].
  - cbn [cm_tick_pass] in H.
    destruct (reg_ok_cons _ _ _ _ Hok) as (He & Hokr & Hnone & Hknot).
    destruct (cm_tick_pass cfg o r) as [r1 cs1] eqn:Hrec.
    destruct (IH Hokr _ _ eq_refl) as (Hok1 & Hsync1 & Hkeys1 & Hcalls1).
    assert (Hcs1 : forall x, In x cs1 -> call_inst x <> e_inst e).
    { intros x Hx Heq. specialize (Hcalls1 x Hx). rewrite Heq in Hcalls1. congruence. }
    assert (Hcons : forall e2, elem_ok cfg (k, e2) -> reg_ok cfg ((k, e2) :: r1)).
    { intros e2 He2. destruct Hok1 as [Hnd1 Hall1]. split.
      - cbn [keys map fst]. constructor; [|exact Hnd1]. intros Hin. apply Hknot. now apply Hkeys1.
      - constructor; auto. }
    assert (Hnone1 : reg_act r1 (e_inst e) = false).
    { rewrite <- (Hsync1 (e_inst e)). rewrite (reg_has_false_act _ _ Hnone).
      apply sfold_other. exact Hcs1. }
    destruct (cm_active e) eqn:Hact.
    + inversion H; subst; clear H. split; [now apply Hcons|]. split; [|split].
      * intros id. rewrite !reg_act_cons, Hact.
        destruct (Nat.eqb_spec (e_inst e) id) as [Heq|Hne].
        -- subst id. cbn [andb orb]. rewrite sfold_other; auto.
        -- cbn [andb orb]. apply Hsync1.
      * cbn [keys map fst]. intros x [Hx|Hx]; [now left|right; now apply Hkeys1].
      * intros x Hx. rewrite reg_has_cons. rewrite (Hcalls1 x Hx). apply orb_true_r.
    + destruct (cm_activate (ad_perm (cm_ad cfg (e_inst e))) (cm_orc o (e_inst e)) e) as [[e' [s rt]] c0] eqn:Hactv.
      destruct (activate_spec _ _ _ _ _ Hq He Hact _ _ _ _ Hactv) as (Hi & Hok' & Hs' & Hc & Hs & Hrt).
      assert (Hsy : forall id, id <> e_inst e -> sfold id (c0 ++ cs1) (reg_act ((k, e) :: r) id) = reg_act r1 id).
      { intros id Hne. rewrite sfold_app, reg_act_cons.
        apply Nat.eqb_neq in Hne. rewrite Nat.eqb_sym in Hne. rewrite Hne. cbn [andb orb].
        rewrite (sfold_other id c0); [apply Hsync1|]. intros x Hx. rewrite (Hc x Hx). apply Nat.eqb_neq in Hne. congruence. }
      assert (Hcalls : forall x, In x (c0 ++ cs1) -> reg_has ((k, e) :: r) (call_inst x) = true).
      { intros x Hx. rewrite reg_has_cons. apply in_app_or in Hx as [Hx|Hx].
        - rewrite (Hc x Hx), Nat.eqb_refl. reflexivity.
        - rewrite (Hcalls1 x Hx). apply orb_true_r. }
      assert (Hself : sfold (e_inst e) (c0 ++ cs1) (reg_act ((k, e) :: r) (e_inst e)) = cm_active e').
      { rewrite sfold_app, reg_act_cons, Hact, andb_false_r, (reg_has_false_act _ _ Hnone). cbn [orb].
        rewrite Hs. apply sfold_other. exact Hcs1. }
      destruct (negb s && negb rt) eqn:Hdrop; inversion H; subst r' cs; clear H.
      * (* forgotten *)
        split; [exact Hok1|]. split; [|split; [|exact Hcalls]].
        -- intros id. destruct (Nat.eq_dec id (e_inst e)) as [->|Hne]; [|now apply Hsy].
           rewrite Hself, Hnone1. apply andb_true_iff in Hdrop as [Hs0 _].
           apply negb_true_iff in Hs0. congruence.
        -- cbn [keys map fst]. intros x Hx. right. now apply Hkeys1.
      * split; [now apply Hcons|]. split; [|split; [|exact Hcalls]].
        -- intros id. destruct (Nat.eq_dec id (e_inst e)) as [->|Hne].
           ++ rewrite Hself, reg_act_cons, Hi, Nat.eqb_refl, Hnone1. cbn [andb]. now rewrite orb_false_r.
           ++ rewrite Hsy by auto. rewrite reg_act_cons, Hi.
              apply Nat.eqb_neq in Hne. rewrite Nat.eqb_sym in Hne. now rewrite Hne.
        -- cbn [keys map fst]. intros x [Hx|Hx]; [now left|right; now apply Hkeys1].
Qed.

(* ------------------------------------------------------------------ shutdown *)
Lemma close_all_spec : forall cfg r, reg_ok cfg r ->
  exists cs, cm_close_all (cfg_ttl cfg) r = Some cs
    /\ sync r cs []
    /\ (forall id, cm_count (cm_is_close_of id) cs = if reg_act r id then 1%nat else 0%nat)
    /\ (forall id, cm_count (cm_is_start_of id) cs = 0%nat)
    /\ (forall x, In x cs -> reg_has r (call_inst x) = true).
Proof.
  intros cfg. induction r as [|[k e] r IH]; intros Hok.
  - exists []. split; [reflexivity|]. split; [apply sync_refl|]. split; [reflexivity|]. split; [reflexivity|intros x []].
  - destruct (reg_ok_cons _ _ _ _ Hok) as (He & Hokr & Hnone & Hknot).
    destruct (IH Hokr) as (cs1 & Hcl & Hsync1 & Hcnt1 & Hst1 & Hcalls1).
    destruct (deactivate_spec _ _ _ He) as (e' & c & Hd & Hc & Hs & Hcdef).
    cbn [cm_close_all]. rewrite Hd, Hcl. exists (c ++ cs1). split; [reflexivity|].
    assert (Hcs1 : forall x, In x cs1 -> call_inst x <> e_inst e).
    { intros x Hx Heq. specialize (Hcalls1 x Hx). rewrite Heq in Hcalls1. congruence. }
    assert (Hnoact : reg_act r (e_inst e) = false) by now apply reg_has_false_act.
    split; [|split; [|split]].
    + intros id. rewrite sfold_app, reg_act_cons.
      destruct (Nat.eqb_spec (e_inst e) id) as [Heq|Hne].
      * subst id. rewrite Hnoact, orb_false_r. cbn [andb]. rewrite Hs.
        rewrite <- Hnoact at 1. apply Hsync1.
      * cbn [andb orb]. rewrite (sfold_other id c); [apply Hsync1|]. intros x Hx. rewrite (Hc x Hx). exact Hne.
    + intros id. rewrite count_app, Hcnt1, reg_act_cons.
      destruct (Nat.eqb_spec (e_inst e) id) as [Heq|Hne].
      * subst id. rewrite Hnoact, orb_false_r. cbn [andb]. rewrite Hcdef.
        destruct (cm_active e); unfold cm_count; cbn [filter cm_is_close_of length]; rewrite ?Nat.eqb_refl; reflexivity.
      * cbn [andb orb]. rewrite count_other; [reflexivity|].
        intros x Hx. specialize (Hc x Hx). destruct x as [i oo|i]; cbn [cm_is_close_of call_inst] in *; [reflexivity|].
        apply Nat.eqb_neq. congruence.
    + intros id. rewrite count_app, Hst1, Nat.add_0_r. apply count_other.
      intros x Hx. rewrite Hcdef in Hx. destruct (cm_active e); [|destruct Hx].
      destruct Hx as [<-|[]]. reflexivity.
    + intros x Hx. rewrite reg_has_cons. apply in_app_or in Hx as [Hx|Hx].
      * rewrite (Hc x Hx), Nat.eqb_refl. reflexivity.
      * rewrite (Hcalls1 x Hx). apply orb_true_r.
Qed.

(* ------------------------------------------------------------------ global invariant *)
Record Inv (cfg : cm_cfg) (st : cm_state) : Prop := mkInv {
  inv_ok : reg_ok cfg (st_reg st);
  inv_sync : forall id, cm_started (st_log st) id = reg_act (st_reg st) id;
  inv_closed : st_closed st = true -> st_reg st = [];
  inv_panic : st_panic st = true -> st_closed st = true
}.

Lemma inv_init : forall cfg, Inv cfg cm_init.
Proof.
  intros cfg. constructor; cbn; try discriminate; auto.
  split; constructor.
Qed.

Lemma inv_upd : forall cfg st r c, Inv cfg st -> st_closed st = false ->
  reg_ok cfg r -> sync (st_reg st) c r -> Inv cfg (cm_upd st r c).
Proof.
  intros cfg st r c HI Hcl Hok Hsy. destruct HI as [H1 H2 H3 H4].
  constructor; cbn [cm_upd st_reg st_log st_closed st_panic]; auto.
  - intros id. rewrite cm_started_app, H2. apply Hsy.
  - congruence.
Qed.

Lemma restart_spec : forall cfg o st id, 0 <= cfg_ttl cfg -> Inv cfg st -> st_closed st = false ->
  exists r c, cm_restart cfg o st id = cm_upd st r c /\ reg_ok cfg r /\ sync (st_reg st) c r.
Proof.
  intros cfg o st id Hq HI Hcl. unfold cm_restart.
  destruct (unregister_spec cfg (st_reg st) id (inv_ok _ _ HI)) as (r1 & c1 & Hu & Hok1 & Hs1 & _).
  rewrite Hu, Hcl.
  destruct (cm_register cfg o r1 id) as [r2 c2] eqn:Hr.
  destruct (register_spec _ _ _ _ Hq Hok1 _ _ Hr) as [Hok2 Hs2].
  exists r2, (c1 ++ c2). split; [reflexivity|]. split; [exact Hok2|]. eapply sync_trans; eauto.
Qed.

Lemma step_inv : forall cfg st ev o, 0 <= cfg_ttl cfg -> Inv cfg st -> Inv cfg (cm_step cfg st ev o).
Proof.
  intros cfg st ev o Hq HI. unfold cm_step.
  destruct (st_panic st) eqn:Hp; [exact HI|].
  destruct (st_closed st) eqn:Hcl.
  - (* after Close the registry is empty: everything but a second Close is a no-op *)
    assert (Hreg : st_reg st = []) by (apply (inv_closed _ _ HI); exact Hcl).
    assert (Hpan : Inv cfg (cm_set_panic st)).
    { destruct HI as [H1 H2 H3 H4]. constructor; cbn [cm_set_panic st_reg st_log st_closed st_panic]; auto. }
    assert (Hun : forall id, cm_unregister cfg (st_reg st) id = Some ([], [])).
    { intros id. unfold cm_unregister. rewrite Hreg. cbn [reg_get]. now destruct (nth_error (cfg_ads cfg) id). }
    assert (Hsame : Inv cfg (cm_upd st [] [])).
    { destruct HI as [H1 H2 H3 H4]. constructor; cbn [cm_upd st_reg st_log st_closed st_panic]; auto.
      - split; constructor.
      - intros id. rewrite app_nil_r, H2, Hreg. reflexivity. }
    destruct ev; auto.
    + rewrite Hun. exact Hsame.
    + unfold cm_restart. rewrite Hun, Hcl. exact Hsame.
  - destruct ev.
    + destruct (cm_register cfg o (st_reg st) id) as [r c] eqn:Hr.
      destruct (register_spec _ _ _ _ Hq (inv_ok _ _ HI) _ _ Hr). now apply inv_upd.
    + destruct (unregister_spec cfg (st_reg st) id (inv_ok _ _ HI)) as (r1 & c1 & Hu & Hok1 & Hs1 & _).
      rewrite Hu. now apply inv_upd.
    + destruct (restart_spec cfg o st id Hq HI Hcl) as (r & c & -> & Hok & Hs). now apply inv_upd.
    + destruct (cm_tick_pass cfg o (st_reg st)) as [r c] eqn:Ht.
      destruct (tick_spec _ _ _ Hq (inv_ok _ _ HI) _ _ Ht) as (Hok & Hs & _). now apply inv_upd.
    + destruct (cm_handler_running (st_reg st) id); [|exact HI].
      destruct (restart_spec cfg o st id Hq HI Hcl) as (r & c & -> & Hok & Hs). now apply inv_upd.
    + destruct (close_all_spec cfg (st_reg st) (inv_ok _ _ HI)) as (cs & -> & Hs & _).
      destruct HI as [H1 H2 H3 H4].
      constructor; cbn [st_reg st_log st_closed st_panic]; auto.
      * split; constructor.
      * intros id. rewrite cm_started_app, H2. apply Hs.
Qed.

Lemma run_from_snoc : forall cfg st tr x,
  cm_run_from cfg st (tr ++ [x]) = cm_step cfg (cm_run_from cfg st tr) (fst x) (snd x).
Proof. intros. unfold cm_run_from. now rewrite fold_left_app. Qed.

Lemma run_from_inv : forall cfg st tr, 0 <= cfg_ttl cfg -> Inv cfg st -> Inv cfg (cm_run_from cfg st tr).
Proof.
  intros cfg st tr Hq. revert st. induction tr as [|x tr IH]; intros st HI; [exact HI|].
  cbn [cm_run_from fold_left]. apply IH. now apply step_inv.
Qed.

Lemma run_inv : forall cfg tr, 0 <= cfg_ttl cfg -> Inv cfg (cm_run cfg tr).
Proof. intros. apply run_from_inv; auto using inv_init. Qed.

(* ------------------------------------------------------------------ C16_active_iff_started *)
Lemma reg_act_true : forall r id, reg_act r id = true <->
  exists k e, In (k, e) r /\ e_inst e = id /\ cm_active e = true.
Proof.
  intros r id. unfold reg_act. rewrite existsb_exists. split.
  - intros ([k e] & Hin & H). apply andb_true_iff in H as [H1 H2]. apply Nat.eqb_eq in H1.
    exists k, e. auto.
  - intros (k & e & Hin & H1 & H2). exists (k, e). split; [exact Hin|]. cbn [snd].
    apply andb_true_iff. split; [now apply Nat.eqb_eq|exact H2].
Qed.

Lemma role_list_spec : forall (cfg : cm_cfg) (role : cm_adapter -> bool) r id,
  In id (map (fun ke : N * cm_elem => e_inst (snd ke))
             (filter (fun ke => cm_active (snd ke) && role (cm_ad cfg (e_inst (snd ke)))) r))
  <-> reg_act r id = true /\ role (cm_ad cfg id) = true.
Proof.
  intros cfg role r id. rewrite in_map_iff, reg_act_true. split.
  - intros ([k e] & Hid & Hf). apply filter_In in Hf as [Hin Hp]. cbn [snd] in *.
    apply andb_true_iff in Hp as [Ha Hr]. subst id. split; [exists k, e; auto|exact Hr].
  - intros ((k & e & Hin & Hid & Ha) & Hr). exists (k, e). cbn [snd]. split; [exact Hid|].
    apply filter_In. split; [exact Hin|]. cbn [snd]. subst id. now rewrite Ha, Hr.
Qed.

Lemma active_iff_started : forall cfg tr id, 0 <= cfg_ttl cfg ->
  let st := cm_run cfg tr in
  (In id (cm_senders cfg st) <-> cm_started (st_log st) id = true /\ cm_is_sender (cm_ad cfg id) = true)
  /\ (In id (cm_receivers cfg st) <-> cm_started (st_log st) id = true /\ cm_is_receiver (cm_ad cfg id) = true)
  /\ (In id (cm_senders cfg st) \/ In id (cm_receivers cfg st) <-> cm_started (st_log st) id = true).
Proof.
  intros cfg tr id Hq st. pose proof (run_inv cfg tr Hq) as HI. fold st in HI.
  assert (Hs : In id (cm_senders cfg st) <-> cm_started (st_log st) id = true /\ cm_is_sender (cm_ad cfg id) = true).
  { rewrite (inv_sync _ _ HI). apply role_list_spec. }
  assert (Hr : In id (cm_receivers cfg st) <-> cm_started (st_log st) id = true /\ cm_is_receiver (cm_ad cfg id) = true).
  { rewrite (inv_sync _ _ HI). apply role_list_spec. }
  split; [exact Hs|]. split; [exact Hr|]. rewrite Hs, Hr.
  unfold cm_is_sender, cm_is_receiver. destruct (ad_role (cm_ad cfg id)); tauto.
Qed.

(* ------------------------------------------------------------------ C16_single_instance *)
Lemma single_instance : forall cfg tr, 0 <= cfg_ttl cfg ->
  let st := cm_run cfg tr in
  NoDup (map fst (st_reg st))
  /\ (forall id1 id2, cm_started (st_log st) id1 = true -> cm_started (st_log st) id2 = true ->
        ad_addr (cm_ad cfg id1) = ad_addr (cm_ad cfg id2) -> id1 = id2)
  /\ (forall id id' o, cm_started (st_log st) id' = true ->
        ad_addr (cm_ad cfg id') = ad_addr (cm_ad cfg id) ->
        cm_step cfg st (ERegister id) o = st).
Proof.
  intros cfg tr Hq st. pose proof (run_inv cfg tr Hq) as HI. fold st in HI.
  destruct (inv_ok _ _ HI) as [Hnd Hall].
  assert (Hfind : forall id, cm_started (st_log st) id = true ->
            exists e, reg_get (ad_addr (cm_ad cfg id)) (st_reg st) = Some e /\ e_inst e = id /\ cm_active e = true).
  { intros id H. rewrite (inv_sync _ _ HI) in H. apply reg_act_true in H as (k & e & Hin & Hid & Ha).
    exists e. split; [|auto]. assert (Hk : elem_ok cfg (k, e)) by (rewrite Forall_forall in Hall; now apply Hall).
    destruct Hk as (_ & Hk & _). cbn [fst snd] in Hk. rewrite Hid in Hk. subst k.
    now apply reg_get_NoDup_In. }
  split; [exact Hnd|]. split.
  - intros id1 id2 H1 H2 Haddr.
    destruct (Hfind _ H1) as (e1 & Hg1 & Hi1 & _). destruct (Hfind _ H2) as (e2 & Hg2 & Hi2 & _).
    rewrite Haddr in Hg1. congruence.
  - intros id id' o H Haddr. destruct (Hfind _ H) as (e & Hg & Hi & Ha). rewrite Haddr in Hg.
    unfold cm_step. destruct (st_panic st); [reflexivity|]. destruct (st_closed st); [reflexivity|].
    unfold cm_register. destruct (nth_error (cfg_ads cfg) id) as [a|] eqn:Hnth.
    + destruct (nth_error_ad _ _ _ Hnth) as [Had _]. rewrite <- Had, Hg, Ha.
      unfold cm_upd. rewrite app_nil_r. now destruct st.
    + unfold cm_upd. rewrite app_nil_r. now destruct st.
Qed.

(* ------------------------------------------------------------------ C16_close_once / no panic *)
Lemma step_panic : forall cfg st ev o, 0 <= cfg_ttl cfg -> Inv cfg st ->
  st_panic (cm_step cfg st ev o) = true ->
  st_panic st = true \/ (ev = EClose /\ st_closed st = true).
Proof.
  intros cfg st ev o Hq HI H. unfold cm_step in H.
  destruct (st_panic st) eqn:Hp; [now left|]. right.
  assert (Hun : forall id, exists r c, cm_unregister cfg (st_reg st) id = Some (r, c)).
  { intros id. destruct (unregister_spec cfg (st_reg st) id (inv_ok _ _ HI)) as (r & c & Hu & _). eauto. }
  assert (Hre : forall id, st_panic (cm_restart cfg o st id) = false).
  { intros id. unfold cm_restart. destruct (Hun id) as (r & c & ->).
    destruct (st_closed st); [exact Hp|]. destruct (cm_register cfg o r id). exact Hp. }
  destruct ev.
  - destruct (st_closed st); [congruence|]. destruct (cm_register cfg o (st_reg st) id).
    cbn [cm_upd st_panic] in H. congruence.
  - destruct (Hun id) as (r & c & Hu). rewrite Hu in H. cbn [cm_upd st_panic] in H. congruence.
  - rewrite Hre in H. discriminate.
  - destruct (st_closed st); [congruence|]. destruct (cm_tick_pass cfg o (st_reg st)).
    cbn [cm_upd st_panic] in H. congruence.
  - destruct (st_closed st); [congruence|]. destruct (cm_handler_running (st_reg st) id); [|congruence].
    rewrite Hre in H. discriminate.
  - destruct (st_closed st) eqn:Hcl; [auto|].
    destruct (close_all_spec cfg (st_reg st) (inv_ok _ _ HI)) as (cs & Hc & _). rewrite Hc in H.
    cbn [st_panic] in H. congruence.
Qed.

Lemma step_closed : forall cfg st ev o,
  st_closed (cm_step cfg st ev o) = true -> st_closed st = true \/ ev = EClose.
Proof.
  intros cfg st ev o H. destruct (st_closed st) eqn:Hcl; [now left|].
  unfold cm_step, cm_restart in H. rewrite ?Hcl in H.
  destruct (st_panic st); [congruence|].
  destruct ev; [| | | | |now right]; exfalso;
    repeat match type of H with
           | context [match ?x with _ => _ end] => destruct x
           | context [if ?x then _ else _] => destruct x
           end; cbn [cm_upd cm_set_panic st_closed] in H; congruence.
Qed.

Lemma nclose_snoc : forall tr x,
  cm_nclose (tr ++ [x]) = (cm_nclose tr + match fst x with EClose => 1 | _ => 0 end)%nat.
Proof.
  intros. unfold cm_nclose. rewrite filter_app, app_length. cbn [filter].
  destruct (fst x); reflexivity.
Qed.

Lemma run_snoc : forall cfg tr x, cm_run cfg (tr ++ [x]) = cm_step cfg (cm_run cfg tr) (fst x) (snd x).
Proof. intros. apply run_from_snoc. Qed.

Lemma run_closed_count : forall cfg tr, st_closed (cm_run cfg tr) = true -> (1 <= cm_nclose tr)%nat.
Proof.
  intros cfg tr. induction tr as [|x tr IH] using rev_ind; intros H; [discriminate|].
  rewrite run_snoc in H. rewrite nclose_snoc. apply step_closed in H as [H| ->]; [|lia].
  specialize (IH H). lia.
Qed.

Lemma no_panic : forall cfg tr, 0 <= cfg_ttl cfg -> (cm_nclose tr <= 1)%nat ->
  st_panic (cm_run cfg tr) = false.
Proof.
  intros cfg tr Hq. induction tr as [|x tr IH] using rev_ind; intros Hn; [reflexivity|].
  rewrite nclose_snoc in Hn. rewrite run_snoc.
  destruct (st_panic (cm_step cfg (cm_run cfg tr) (fst x) (snd x))) eqn:Hp; [|reflexivity].
  apply step_panic in Hp; auto using run_inv.
  destruct Hp as [Hp|[Hev Hcl]].
  - rewrite IH in Hp; [discriminate|lia].
  - apply run_closed_count in Hcl. rewrite Hev in Hn. lia.
Qed.

Lemma close_once : forall cfg tr o, 0 <= cfg_ttl cfg -> cm_nclose tr = 0%nat ->
  let st := cm_run cfg tr in
  let st' := cm_step cfg st EClose o in
  st_panic st' = false /\ st_closed st' = true
  /\ (exists cs, st_log st' = st_log st ++ cs
        /\ (forall id, cm_count (cm_is_close_of id) cs = if cm_started (st_log st) id then 1%nat else 0%nat)
        /\ (forall id, cm_count (cm_is_start_of id) cs = 0%nat))
  /\ (forall id, cm_started (st_log st') id = false)
  /\ cm_senders cfg st' = [] /\ cm_receivers cfg st' = [].
Proof.
  intros cfg tr o Hq Hn st st'. pose proof (run_inv cfg tr Hq) as HI. fold st in HI.
  assert (Hp : st_panic st = false) by (apply no_panic; auto; lia).
  assert (Hcl : st_closed st = false).
  { destruct (st_closed st) eqn:Hc; [|reflexivity]. apply run_closed_count in Hc. lia. }
  destruct (close_all_spec cfg (st_reg st) (inv_ok _ _ HI)) as (cs & Hc & Hs & Hcnt & Hst & _).
  assert (Hst' : st' = mkSt [] true false (st_log st ++ cs)).
  { unfold st', cm_step. now rewrite Hp, Hcl, Hc. }
  rewrite Hst'. cbn [st_panic st_closed st_log]. split; [reflexivity|]. split; [reflexivity|].
  split.
  - exists cs. split; [reflexivity|]. split; [|exact Hst].
    intros id. rewrite (inv_sync _ _ HI). apply Hcnt.
  - split; [|split; reflexivity].
    intros id. rewrite cm_started_app, (inv_sync _ _ HI). apply Hs.
Qed.

(* ------------------------------------------------------------------ C16_close_concurrent *)
Lemma nclose_app : forall a b, cm_nclose (a ++ b) = (cm_nclose a + cm_nclose b)%nat.
Proof. intros. unfold cm_nclose. now rewrite filter_app, app_length. Qed.

Lemma nclose_restarts : forall pre : list (nat * list cm_outcome),
  cm_nclose (map (fun p => (ERestart (fst p), snd p)) pre) = 0%nat.
Proof. induction pre as [|p pre IH]; [reflexivity|]. unfold cm_nclose in *. cbn. exact IH. Qed.

Lemma nclose_unregs : forall post : list nat,
  cm_nclose (map (fun id => (EUnregister id, @nil cm_outcome)) post) = 0%nat.
Proof. induction post as [|p post IH]; [reflexivity|]. unfold cm_nclose in *. cbn. exact IH. Qed.

Lemma run_from_app : forall cfg st a b,
  cm_run_from cfg st (a ++ b) = cm_run_from cfg (cm_run_from cfg st a) b.
Proof. intros. unfold cm_run_from. apply fold_left_app. Qed.

(* Close() overlapping queued PeerDisappeared messages: whatever part of the queue the handler
   still processes, before or after the stop flag is set, the shutdown is the sequential one *)
Lemma close_concurrent : forall cfg tr pre post, 0 <= cfg_ttl cfg -> cm_nclose tr = 0%nat ->
  let st' := cm_conc_close cfg (cm_run cfg tr) pre post in
  st_panic st' = false /\ st_closed st' = true /\ st_reg st' = []
  /\ (forall id, cm_started (st_log st') id = false)
  /\ cm_senders cfg st' = [] /\ cm_receivers cfg st' = [].
Proof.
  intros cfg tr pre post Hq Hn st'.
  set (mid := map (fun p : nat * list cm_outcome => (ERestart (fst p), snd p)) pre
              ++ map (fun id : nat => (EUnregister id, @nil cm_outcome)) post).
  assert (Hst : st' = cm_step cfg (cm_run cfg (tr ++ mid)) EClose []).
  { unfold st', cm_conc_close, cm_conc_trace, cm_run.
    rewrite app_assoc. fold mid. rewrite !run_from_app. reflexivity. }
  assert (Hn' : cm_nclose (tr ++ mid) = 0%nat).
  { unfold mid. rewrite !nclose_app, Hn, nclose_restarts, nclose_unregs. reflexivity. }
  destruct (close_once cfg (tr ++ mid) [] Hq Hn') as (H1 & H2 & _ & H4 & H5 & H6).
  rewrite Hst. repeat split; auto.
  apply (inv_closed cfg). 
  - apply step_inv; auto using run_inv.
  - exact H2.
Qed.

(* ------------------------------------------------------------------ C16_retry *)
Lemma activate_shape : forall perm o e e' s rt c, cm_activate perm o e = (e', (s, rt), c) ->
  e_inst e' = e_inst e /\ (c = [] \/ c = [CStart (e_inst e) o]).
Proof.
  intros perm o e e' s rt c H. unfold cm_activate in H.
  destruct (cm_active e); [inversion H; subst; auto|].
  destruct ((e_ttl e =? 0) && negb perm); [inversion H; subst; auto|].
  destruct o; inversion H; subst; cbn [e_inst]; auto.
Qed.

Lemma find_none_has : forall r id, cm_find r id = None <-> reg_has r id = false.
Proof.
  induction r as [|[k e] r IH]; intros id; cbn [cm_find]; [unfold reg_has; cbn; tauto|].
  rewrite reg_has_cons. destruct (Nat.eqb (e_inst e) id); cbn [orb]; [split; discriminate|apply IH].
Qed.

Lemma tick_has : forall cfg o r id, reg_has (fst (cm_tick_pass cfg o r)) id = true -> reg_has r id = true.
Proof.
  intros cfg o. induction r as [|[k e] r IH]; intros id H; [exact H|].
  cbn [cm_tick_pass] in H. destruct (cm_tick_pass cfg o r) as [r1 cs1]. cbn [fst] in IH.
  rewrite reg_has_cons. destruct (Nat.eqb_spec (e_inst e) id) as [Heq|Hne]; [reflexivity|]. cbn [orb].
  destruct (cm_active e).
  - cbn [fst] in H. rewrite reg_has_cons in H. apply Nat.eqb_neq in Hne. rewrite Hne in H. now apply IH.
  - destruct (cm_activate (ad_perm (cm_ad cfg (e_inst e))) (cm_orc o (e_inst e)) e) as [[e' [s rt]] c0] eqn:Ha.
    destruct (activate_shape _ _ _ _ _ _ _ Ha) as [Hi _].
    destruct (negb s && negb rt); cbn [fst] in H; [now apply IH|].
    rewrite reg_has_cons, Hi in H. apply Nat.eqb_neq in Hne. rewrite Hne in H. now apply IH.
Qed.

(* what one retry pass does with one element: the element afterwards (None = forgotten) and the
   number of Start calls *)
Definition tick_one (cfg : cm_cfg) (o : list cm_outcome) (e : cm_elem) : option cm_elem * nat :=
  if cm_active e then (Some e, 0%nat)
  else let '(e', (s, rt), c) := cm_activate (ad_perm (cm_ad cfg (e_inst e))) (cm_orc o (e_inst e)) e in
       (if negb s && negb rt then None else Some e', length c).

Lemma count_start_self : forall id o c, c = [] \/ c = [CStart id o] ->
  cm_count (cm_is_start_of id) c = length c.
Proof.
  intros id o c [->| ->]; [reflexivity|]. unfold cm_count. cbn [filter cm_is_start_of].
  now rewrite Nat.eqb_refl.
Qed.

Lemma count_start_other : forall id i o c, c = [] \/ c = [CStart i o] -> i <> id ->
  cm_count (cm_is_start_of id) c = 0%nat.
Proof.
  intros id i o c [->| ->] Hne; [reflexivity|]. unfold cm_count. cbn [filter cm_is_start_of].
  apply Nat.eqb_neq in Hne. now rewrite Hne.
Qed.

Lemma tick_find : forall cfg o r, 0 <= cfg_ttl cfg -> reg_ok cfg r ->
  forall r' cs, cm_tick_pass cfg o r = (r', cs) -> forall id,
  cm_find r' id = match cm_find r id with None => None | Some e => fst (tick_one cfg o e) end
  /\ cm_count (cm_is_start_of id) cs
     = match cm_find r id with None => 0%nat | Some e => snd (tick_one cfg o e) end.
Proof.
  intros cfg o r Hq. induction r as [|[k e] r IH]; intros Hok r' cs H id.
  - cbn in H. inversion H; subst. split; reflexivity.
  - destruct (reg_ok_cons _ _ _ _ Hok) as (He & Hokr & Hnone & Hknot).
    cbn [cm_tick_pass] in H.
    destruct (cm_tick_pass cfg o r) as [r1 cs1] eqn:Hrec.
    destruct (IH Hokr _ _ eq_refl id) as [IH1 IH2].
    destruct (tick_spec _ _ _ Hq Hokr _ _ Hrec) as (_ & _ & _ & Hcalls1).
    cbn [cm_find]. unfold tick_one.
    destruct (Nat.eqb_spec (e_inst e) id) as [Heq|Hne].
    + (* the element of id itself *)
      assert (Hr1 : cm_find r1 id = None).
      { apply find_none_has. destruct (reg_has r1 id) eqn:Hh; [|reflexivity].
        pose proof (tick_has cfg o r id) as Ht. rewrite Hrec in Ht. specialize (Ht Hh). congruence. }
      assert (Hc1 : cm_count (cm_is_start_of id) cs1 = 0%nat).
      { apply count_other. intros x Hx. specialize (Hcalls1 x Hx).
        destruct x as [i oo|i]; cbn [cm_is_start_of call_inst] in *; [|reflexivity].
        apply Nat.eqb_neq. intros Hi. subst i. congruence. }
      destruct (cm_active e).
      * inversion H; subst r' cs. cbn [cm_find fst snd]. apply Nat.eqb_eq in Heq. rewrite Heq. auto.
      * destruct (cm_activate (ad_perm (cm_ad cfg (e_inst e))) (cm_orc o (e_inst e)) e) as [[e' [s rt]] c0] eqn:Ha.
        destruct (activate_shape _ _ _ _ _ _ _ Ha) as [Hi Hsh].
        assert (Hcnt : cm_count (cm_is_start_of id) (c0 ++ cs1) = length c0).
        { rewrite count_app, Hc1, Nat.add_0_r. rewrite <- Heq. eapply count_start_self; eauto. }
        destruct (negb s && negb rt); inversion H; subst r' cs; cbn [cm_find fst snd].
        -- auto.
        -- rewrite Hi. apply Nat.eqb_eq in Heq. rewrite Heq. auto.
    + assert (Hskip : forall e2 c2, e_inst e2 = e_inst e -> (c2 = [] \/ c2 = [CStart (e_inst e) (cm_orc o (e_inst e))]) ->
                cm_find ((k, e2) :: r1) id = cm_find r1 id
                /\ cm_count (cm_is_start_of id) (c2 ++ cs1) = cm_count (cm_is_start_of id) cs1).
      { intros e2 c2 Hi2 Hc2. cbn [cm_find]. rewrite Hi2. apply Nat.eqb_neq in Hne. rewrite Hne.
        split; [reflexivity|]. rewrite count_app. erewrite count_start_other; eauto. now apply Nat.eqb_neq. }
      destruct (cm_active e).
      * inversion H; subst r' cs. destruct (Hskip e [] eq_refl (or_introl eq_refl)) as [H1 _].
        rewrite H1. auto.
      * destruct (cm_activate (ad_perm (cm_ad cfg (e_inst e))) (cm_orc o (e_inst e)) e) as [[e' [s rt]] c0] eqn:Ha.
        destruct (activate_shape _ _ _ _ _ _ _ Ha) as [Hi Hsh].
        destruct (Hskip e' c0 Hi Hsh) as [H1 H2].
        destruct (negb s && negb rt); inversion H; subst r' cs; rewrite ?H1, H2; auto.
Qed.

Definition start_count (st : cm_state) (id : nat) : nat := cm_count (cm_is_start_of id) (st_log st).

(* one retry pass, seen from instance id *)
Lemma tick_step_find : forall cfg st o id, 0 <= cfg_ttl cfg -> Inv cfg st ->
  let st' := cm_step cfg st ETick o in
  cm_find (st_reg st') id = match cm_find (st_reg st) id with None => None | Some e => fst (tick_one cfg o e) end
  /\ start_count st' id = (start_count st id + match cm_find (st_reg st) id with None => 0 | Some e => snd (tick_one cfg o e) end)%nat.
Proof.
  intros cfg st o id Hq HI st'. unfold st', cm_step, start_count.
  assert (Hnil : st_closed st = true ->
          cm_find (st_reg st) id = match cm_find (st_reg st) id with None => None | Some e => fst (tick_one cfg o e) end
          /\ cm_count (cm_is_start_of id) (st_log st) = (cm_count (cm_is_start_of id) (st_log st) + match cm_find (st_reg st) id with None => 0 | Some e => snd (tick_one cfg o e) end)%nat).
  { intros Hcl. rewrite (inv_closed _ _ HI Hcl). cbn [cm_find]. split; [reflexivity|lia]. }
  destruct (st_panic st) eqn:Hp; [apply Hnil; now apply (inv_panic _ _ HI)|].
  destruct (st_closed st) eqn:Hcl; [now apply Hnil|].
  destruct (cm_tick_pass cfg o (st_reg st)) as [r c] eqn:Ht.
  destruct (tick_find _ _ _ Hq (inv_ok _ _ HI) _ _ Ht id) as [H1 H2].
  cbn [cm_upd st_reg st_log]. rewrite count_app, H1, H2. split; reflexivity.
Qed.

Lemma find_elem_ok : forall cfg r id e, reg_ok cfg r -> cm_find r id = Some e ->
  e_inst e = id /\ exists k, elem_ok cfg (k, e).
Proof.
  intros cfg. induction r as [|[k e0] r IH]; intros id e Hok H; [discriminate|].
  destruct (reg_ok_cons _ _ _ _ Hok) as (He & Hokr & _). cbn [cm_find] in H.
  destruct (Nat.eqb_spec (e_inst e0) id) as [Heq|Hne].
  - inversion H; subst. split; [reflexivity|eauto].
  - eapply IH; eauto.
Qed.

(* permanent: retried on every pass, for ever *)
Lemma retry_permanent : forall cfg tr id os, 0 <= cfg_ttl cfg ->
  ad_perm (cm_ad cfg id) = true ->
  let st := cm_run cfg tr in
  cm_waiting st id = true ->
  Forall (fun o => cm_orc o id = SFailRetry) os ->
  let st' := cm_run_from cfg st (cm_ticks os) in
  cm_waiting st' id = true /\ start_count st' id = (start_count st id + length os)%nat.
Proof.
  intros cfg tr id os Hq Hperm st. pose proof (run_inv cfg tr Hq) as HI. fold st in HI.
  clearbody st. revert st HI. induction os as [|o os IH]; intros st HI Hw Hall st'.
  - unfold st'. cbn. split; [exact Hw|lia].
  - inversion Hall as [|? ? Ho Hall']; subst.
    unfold st'. cbn [cm_ticks map cm_run_from fold_left fst snd].
    pose proof (tick_step_find cfg st o id Hq HI) as [Hf Hc]. cbn zeta in Hf, Hc.
    unfold cm_waiting in Hw. destruct (cm_find (st_reg st) id) as [e|] eqn:Hfind; [|discriminate].
    apply negb_true_iff in Hw.
    destruct (find_elem_ok _ _ _ _ (inv_ok _ _ HI) Hfind) as [Hid (k & Hek)].
    unfold tick_one in Hf, Hc. rewrite Hw, Hid, Hperm, Ho in Hf, Hc.
    unfold cm_activate in Hf, Hc. rewrite Hw, andb_false_r in Hf, Hc. cbn [fst snd negb andb length] in Hf, Hc.
    assert (Hw' : cm_waiting (cm_step cfg st ETick o) id = true).
    { unfold cm_waiting. rewrite Hf. unfold cm_active in *. cbn [e_ttl]. apply negb_true_iff.
      apply Z.ltb_ge in Hw. apply Z.ltb_ge. destruct (Z.ltb_spec 0 (e_ttl e)); lia. }
    destruct (IH (cm_step cfg st ETick o) (step_inv _ _ _ _ Hq HI) Hw' Hall') as [H1 H2].
    split; [exact H1|]. unfold cm_run_from, cm_ticks in H2. rewrite H2, Hc. cbn [length]. lia.
Qed.

Lemma retry_permanent_ok : forall cfg tr id o, 0 <= cfg_ttl cfg ->
  ad_perm (cm_ad cfg id) = true ->
  let st := cm_run cfg tr in
  cm_waiting st id = true -> cm_orc o id = SOk ->
  cm_started (st_log (cm_step cfg st ETick o)) id = true.
Proof.
  intros cfg tr id o Hq Hperm st Hw Ho. pose proof (run_inv cfg tr Hq) as HI. fold st in HI.
  pose proof (tick_step_find cfg st o id Hq HI) as [Hf _]. cbn zeta in Hf.
  unfold cm_waiting in Hw. destruct (cm_find (st_reg st) id) as [e|] eqn:Hfind; [|discriminate].
  apply negb_true_iff in Hw.
  destruct (find_elem_ok _ _ _ _ (inv_ok _ _ HI) Hfind) as [Hid _].
  unfold tick_one in Hf. rewrite Hw, Hid, Hperm, Ho in Hf.
  unfold cm_activate in Hf. rewrite Hw, andb_false_r in Hf. cbn [fst negb andb] in Hf.
  rewrite (inv_sync _ _ (step_inv _ _ ETick o Hq HI)).
  apply reg_act_true.
  assert (Hin : exists k, In (k, mkElem (e_inst e) (-1) COpen) (st_reg (cm_step cfg st ETick o))).
  { clear -Hf. induction (st_reg (cm_step cfg st ETick o)) as [|[k e0] r IH]; [discriminate|].
    cbn [cm_find] in Hf. destruct (Nat.eqb (e_inst e0) id).
    - inversion Hf; subst. exists k. now left.
    - destruct (IH Hf) as [k' Hk']. exists k'. now right. }
  destruct Hin as [k Hin]. exists k, (mkElem (e_inst e) (-1) COpen). auto.
Qed.

(* non-permanent: remaining budget (psi) and passes until forgotten (phi) *)
Definition psi (st : cm_state) (id : nat) : nat :=
  match cm_find (st_reg st) id with
  | Some e => if cm_active e then 0%nat else Z.to_nat (e_ttl e)
  | None => 0%nat
  end.
Definition phi (st : cm_state) (id : nat) : nat :=
  match cm_find (st_reg st) id with
  | Some e => if cm_active e then 0%nat else S (Z.to_nat (e_ttl e))
  | None => 0%nat
  end.

Lemma tick_nonperm : forall cfg st o id, 0 <= cfg_ttl cfg -> Inv cfg st ->
  ad_perm (cm_ad cfg id) = false -> cm_orc o id <> SOk ->
  let st' := cm_step cfg st ETick o in
  (start_count st' id + psi st' id <= start_count st id + psi st id)%nat
  /\ (phi st' id <= pred (phi st id))%nat.
Proof.
  intros cfg st o id Hq HI Hperm Ho st'.
  pose proof (tick_step_find cfg st o id Hq HI) as [Hf Hc]. cbn zeta in Hf, Hc. fold st' in Hf, Hc.
  unfold psi, phi. rewrite Hf, Hc.
  destruct (cm_find (st_reg st) id) as [e|] eqn:Hfind; [|split; lia].
  destruct (find_elem_ok _ _ _ _ (inv_ok _ _ HI) Hfind) as [Hid (k & Hek)].
  unfold tick_one. destruct (cm_active e) eqn:Ha.
  { cbn [fst snd]. rewrite Ha. split; lia. }
  rewrite Hid, Hperm. unfold cm_activate. rewrite Ha. cbn [negb]. rewrite andb_true_r.
  unfold cm_active in Ha. apply Z.ltb_ge in Ha.
  destruct (Z.eqb_spec (e_ttl e) 0) as [Hz|Hnz].
  { cbn [fst snd negb andb length]. split; lia. }
  destruct (cm_orc o id); [congruence| |]; cbn [fst snd negb andb length].
  - unfold cm_active. cbn [e_ttl].
    destruct (Z.ltb_spec 0 (e_ttl e)); [|lia].
    destruct (Z.ltb_spec (e_ttl e - 1) 0); [lia|]. split; lia.
  - split; lia.
Qed.

Lemma ticks_nonperm : forall cfg id, 0 <= cfg_ttl cfg -> ad_perm (cm_ad cfg id) = false ->
  forall os st0, Inv cfg st0 -> Forall (fun o => cm_orc o id <> SOk) os ->
  let st1 := cm_run_from cfg st0 (cm_ticks os) in
  (start_count st1 id + psi st1 id <= start_count st0 id + psi st0 id)%nat
  /\ (phi st1 id <= phi st0 id - length os)%nat.
Proof.
  intros cfg id Hq Hperm os. induction os as [|o os IH]; intros st0 HI0 Hall0 st1.
  - unfold st1. cbn. split; lia.
  - inversion Hall0 as [|? ? Ho Hall0']; subst.
    destruct (tick_nonperm cfg st0 o id Hq HI0 Hperm Ho) as [H1 H2].
    destruct (IH (cm_step cfg st0 ETick o) (step_inv _ _ _ _ Hq HI0) Hall0') as [H3 H4].
    unfold st1.
    change (cm_run_from cfg st0 (cm_ticks (o :: os)))
      with (cm_run_from cfg (cm_step cfg st0 ETick o) (cm_ticks os)).
    cbn [length]. split; lia.
Qed.

Lemma retry_nonpermanent : forall cfg tr id os, 0 <= cfg_ttl cfg ->
  ad_perm (cm_ad cfg id) = false ->
  let st := cm_run cfg tr in
  Forall (fun o => cm_orc o id <> SOk) os ->
  let st' := cm_run_from cfg st (cm_ticks os) in
  (start_count st' id <= start_count st id + Z.to_nat (cfg_ttl cfg))%nat
  /\ ((Z.to_nat (cfg_ttl cfg) < length os)%nat ->
      cm_waiting st' id = false
      /\ (cm_started (st_log st') id = false -> cm_in_registry st' id = false)).
Proof.
  intros cfg tr id os Hq Hperm st Hall st'. pose proof (run_inv cfg tr Hq) as HI. fold st in HI.
  destruct (ticks_nonperm cfg id Hq Hperm os st HI Hall) as [H1 H2]. fold st' in H1, H2.
  assert (HI' : Inv cfg st') by (apply run_from_inv; auto).
  assert (Hpsi : (psi st id <= Z.to_nat (cfg_ttl cfg))%nat /\ (phi st id <= S (Z.to_nat (cfg_ttl cfg)))%nat).
  { unfold psi, phi. destruct (cm_find (st_reg st) id) as [e|] eqn:Hfind; [|split; lia].
    destruct (find_elem_ok _ _ _ _ (inv_ok _ _ HI) Hfind) as [_ (k & _ & _ & _ & Hle)]. cbn [snd] in Hle.
    destruct (cm_active e); split; lia. }
  split; [lia|]. intros Hlen.
  assert (Hphi : phi st' id = 0%nat) by lia.
  unfold phi in Hphi. unfold cm_waiting, cm_in_registry.
  destruct (cm_find (st_reg st') id) as [e|] eqn:Hfind.
  - destruct (cm_active e) eqn:Ha; [|discriminate]. split; [reflexivity|].
    intros Hns. exfalso. rewrite (inv_sync _ _ HI') in Hns.
    assert (Ht : reg_act (st_reg st') id = true); [|congruence].
    clear -Hfind Ha. induction (st_reg st') as [|[k e0] r IH]; [discriminate|].
    rewrite reg_act_cons. cbn [cm_find] in Hfind. destruct (Nat.eqb (e_inst e0) id).
    + inversion Hfind; subst. now rewrite Ha.
    + cbn [andb orb]. now apply IH.
  - split; [reflexivity|]. intros _. apply find_none_has in Hfind. exact Hfind.
Qed.
