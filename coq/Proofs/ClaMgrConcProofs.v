(* ClaMgrConcProofs.v - proofs about the sub-step model Model/ClaMgrConc.v:
     1. the boolean state equality is the equality;
     2. soundness of the generic explorer [cmc_explore]: if it finishes without a failing state, every
        state reachable from the initial ones passes the per-state check;
     3. what the per-state check [cmc_expand] means for the transition system of [cmc_step]
        (no error, no deadlock, final states), and that a step that does not end in the error state makes
        a legal adapter call;
     3b. the ranking function: every step from every state decreases [cmc_rank] (no bound);
     4. the enumeration [cmc_all_cfgs] contains every configuration within the bound.
   The bounded, vm_compute-checked explorations are in ClaMgrConcRun0..6.v (compiled in parallel);
   ClaMgrConcMain.v puts them together and derives the clauses of C16. *)
From Coq Require Import FMapPositive.
From DTN Require Import Base ClaMgrConc.
Open Scope nat_scope.

(* ------------------------------------------------------------------ *)
(* 1. boolean equalities                                               *)
(* ------------------------------------------------------------------ *)
Lemma cmc_list_eqb_eq {A} (f : A -> A -> bool) :
  (forall x y, f x y = true -> x = y) -> forall l l', list_eqb f l l' = true -> l = l'.
Proof.
  intros Hf. induction l as [|x l IH]; destruct l' as [|y l']; simpl; try discriminate; auto.
  intros H. apply andb_true_iff in H. destruct H as [H1 H2]. f_equal; auto.
Qed.

Lemma cmc_list_eqb_refl {A} (f : A -> A -> bool) :
  (forall x, f x x = true) -> forall l, list_eqb f l l = true.
Proof. intros Hf. induction l; simpl; auto. rewrite Hf, IHl. reflexivity. Qed.

Lemma cmc_option_eqb_eq {A} (f : A -> A -> bool) :
  (forall x y, f x y = true -> x = y) -> forall a b, option_eqb f a b = true -> a = b.
Proof. intros Hf [x|] [y|]; simpl; try discriminate; auto. intros H. f_equal. auto. Qed.

Lemma cmc_option_eqb_refl {A} (f : A -> A -> bool) :
  (forall x, f x x = true) -> forall a, option_eqb f a a = true.
Proof. intros Hf [x|]; simpl; auto. Qed.

Lemma cmc_bool_eqb_eq : forall a b, Bool.eqb a b = true -> a = b.
Proof. intros a b. apply Bool.eqb_prop. Qed.

Lemma cmc_nat_eqb_eq : forall a b, (a =? b) = true -> a = b.
Proof. intros a b. apply Nat.eqb_eq. Qed.

Ltac cmc_split_andb :=
  repeat match goal with
         | H : (_ && _)%bool = true |- _ => apply andb_true_iff in H; destruct H
         end.
Ltac cmc_eqs :=
  repeat match goal with
         | H : (_ =? _) = true |- _ => apply Nat.eqb_eq in H
         | H : (_ =? _)%Z = true |- _ => apply Z.eqb_eq in H
         | H : Bool.eqb _ _ = true |- _ => apply Bool.eqb_prop in H
         end.

Lemma cmc_caller_eqb_eq : forall x y, cmc_caller_eqb x y = true -> x = y.
Proof. intros [a|a] [b|b]; simpl; try discriminate; intros H; cmc_eqs; congruence. Qed.
Lemma cmc_caller_eqb_refl : forall x, cmc_caller_eqb x x = true.
Proof. intros [a|a]; simpl; apply Nat.eqb_refl. Qed.

Lemma cmc_op_eqb_eq : forall x y, cmc_op_eqb x y = true -> x = y.
Proof.
  intros x y; destruct x; destruct y; simpl; try discriminate; intros H; cmc_split_andb; cmc_eqs;
    repeat match goal with
           | H : cmc_caller_eqb _ _ = true |- _ => apply cmc_caller_eqb_eq in H
           | H : list_eqb Nat.eqb _ _ = true |- _ => apply (cmc_list_eqb_eq _ cmc_nat_eqb_eq) in H
           end; subst; reflexivity.
Qed.
Lemma cmc_op_eqb_refl : forall x, cmc_op_eqb x x = true.
Proof.
  destruct x; simpl; rewrite ?cmc_caller_eqb_refl, ?Nat.eqb_refl, ?Bool.eqb_reflx; simpl; auto;
    apply cmc_list_eqb_refl; apply Nat.eqb_refl.
Qed.

Lemma cmc_hpc_eqb_eq : forall x y, cmc_hpc_eqb x y = true -> x = y.
Proof. intros x y; destruct x; destruct y; simpl; try discriminate; intros H; cmc_split_andb; cmc_eqs; subst; reflexivity. Qed.
Lemma cmc_hpc_eqb_refl : forall x, cmc_hpc_eqb x x = true.
Proof. destruct x; simpl; rewrite ?Nat.eqb_refl, ?Bool.eqb_reflx; auto. Qed.

Lemma cmc_elem_eqb_eq : forall x y, cmc_elem_eqb x y = true -> x = y.
Proof.
  intros [a1 b1 c1 d1 e1 f1] [a2 b2 c2 d2 e2 f2]; unfold cmc_elem_eqb; simpl; intros H; cmc_split_andb; cmc_eqs.
  apply cmc_hpc_eqb_eq in H0. subst. reflexivity.
Qed.
Lemma cmc_elem_eqb_refl : forall x, cmc_elem_eqb x x = true.
Proof. intros x; unfold cmc_elem_eqb. rewrite Nat.eqb_refl, Z.eqb_refl, !Bool.eqb_reflx, cmc_hpc_eqb_refl. reflexivity. Qed.

Lemma cmc_adp_eqb_eq : forall x y, cmc_adp_eqb x y = true -> x = y.
Proof.
  intros [a1 b1 c1] [a2 b2 c2]; unfold cmc_adp_eqb; simpl; intros H; cmc_split_andb; cmc_eqs.
  apply (cmc_list_eqb_eq _ cmc_bool_eqb_eq) in H0. subst. reflexivity.
Qed.
Lemma cmc_adp_eqb_refl : forall x, cmc_adp_eqb x x = true.
Proof. intros x; unfold cmc_adp_eqb. rewrite !Bool.eqb_reflx. simpl. apply cmc_list_eqb_refl. apply Bool.eqb_reflx. Qed.

Lemma cmc_err_eqb_eq : forall x y, cmc_err_eqb x y = true -> x = y.
Proof. intros x y; destruct x; destruct y; simpl; try discriminate; intros H; cmc_eqs; subst; reflexivity. Qed.
Lemma cmc_err_eqb_refl : forall x, cmc_err_eqb x x = true.
Proof. destruct x; simpl; rewrite ?Nat.eqb_refl; auto. Qed.

Lemma cmc_msg_eqb_eq : forall x y, cmc_msg_eqb x y = true -> x = y.
Proof. intros [a b] [c d]; unfold cmc_msg_eqb; simpl; intros H; cmc_split_andb; cmc_eqs; subst; reflexivity. Qed.
Lemma cmc_msg_eqb_refl : forall x, cmc_msg_eqb x x = true.
Proof. intros [a b]; unfold cmc_msg_eqb; simpl. rewrite Bool.eqb_reflx, Nat.eqb_refl. reflexivity. Qed.

Lemma cmc_state_eqb_eq : forall x y, cmc_state_eqb x y = true -> x = y.
Proof.
  intros [a1 b1 c1 d1 e1 f1 g1 h1 i1 j1 k1 l1 m1 n1 o1] [a2 b2 c2 d2 e2 f2 g2 h2 i2 j2 k2 l2 m2 n2 o2].
  unfold cmc_state_eqb; simpl; intros H; cmc_split_andb; cmc_eqs.
  repeat match goal with
         | H : list_eqb cmc_op_eqb _ _ = true |- _ => apply (cmc_list_eqb_eq _ cmc_op_eqb_eq) in H
         | H : list_eqb (list_eqb cmc_op_eqb) _ _ = true |- _ =>
             apply (cmc_list_eqb_eq _ (cmc_list_eqb_eq _ cmc_op_eqb_eq)) in H
         | H : list_eqb cmc_elem_eqb _ _ = true |- _ => apply (cmc_list_eqb_eq _ cmc_elem_eqb_eq) in H
         | H : list_eqb (option_eqb Nat.eqb) _ _ = true |- _ =>
             apply (cmc_list_eqb_eq _ (cmc_option_eqb_eq _ cmc_nat_eqb_eq)) in H
         | H : list_eqb cmc_adp_eqb _ _ = true |- _ => apply (cmc_list_eqb_eq _ cmc_adp_eqb_eq) in H
         | H : list_eqb cmc_msg_eqb _ _ = true |- _ => apply (cmc_list_eqb_eq _ cmc_msg_eqb_eq) in H
         | H : option_eqb cmc_err_eqb _ _ = true |- _ => apply (cmc_option_eqb_eq _ cmc_err_eqb_eq) in H
         end.
  subst. reflexivity.
Qed.

Lemma cmc_state_eqb_refl : forall x, cmc_state_eqb x x = true.
Proof.
  intros x. unfold cmc_state_eqb.
  rewrite !(cmc_list_eqb_refl _ cmc_op_eqb_refl), (cmc_list_eqb_refl _ (cmc_list_eqb_refl _ cmc_op_eqb_refl)),
    (cmc_list_eqb_refl _ cmc_elem_eqb_refl), (cmc_list_eqb_refl _ (cmc_option_eqb_refl _ Nat.eqb_refl)),
    (cmc_list_eqb_refl _ cmc_adp_eqb_refl), (cmc_list_eqb_refl _ cmc_msg_eqb_refl), !Bool.eqb_reflx, Nat.eqb_refl,
    (cmc_option_eqb_refl _ cmc_err_eqb_refl).
  reflexivity.
Qed.

(* ------------------------------------------------------------------ *)
(* 2. soundness of the explorer                                        *)
(* ------------------------------------------------------------------ *)
Section CmcExploreSound.
  Variable St : Type.
  Variable eqb : St -> St -> bool.
  Variable hash : St -> positive.
  Variable expand : St -> option (list St).
  Hypothesis eqb_eq : forall x y, eqb x y = true -> x = y.
  Hypothesis eqb_refl : forall x, eqb x x = true.

  Notation vmem := (cmc_vmem St eqb hash).
  Notation vadd := (cmc_vadd St hash).

  Lemma cmc_vmem_add_same : forall s v, vmem s (vadd s v) = true.
  Proof.
    intros s v. unfold cmc_vmem, cmc_vadd, cmc_vmem_h, cmc_vadd_h. rewrite PositiveMap.gss. simpl. rewrite eqb_refl. reflexivity.
  Qed.

  Lemma cmc_vmem_add_mono : forall t s v, vmem t v = true -> vmem t (vadd s v) = true.
  Proof.
    intros t s v H. unfold cmc_vmem, cmc_vadd, cmc_vmem_h, cmc_vadd_h in *.
    destruct (Pos.eq_dec (hash t) (hash s)) as [E|E].
    - rewrite E in *. rewrite PositiveMap.gss. simpl.
      destruct (PositiveMap.find (hash s) v); [rewrite H; apply orb_true_r | discriminate].
    - rewrite PositiveMap.gso by exact E. exact H.
  Qed.

  Lemma cmc_vmem_add_inv : forall t s v, vmem t (vadd s v) = true -> t = s \/ vmem t v = true.
  Proof.
    intros t s v H. unfold cmc_vmem, cmc_vadd, cmc_vmem_h, cmc_vadd_h in *.
    destruct (Pos.eq_dec (hash t) (hash s)) as [E|E].
    - rewrite E in *. rewrite PositiveMap.gss in H. simpl in H. apply orb_true_iff in H. destruct H as [H|H].
      + left. apply eqb_eq. exact H.
      + right. destruct (PositiveMap.find (hash s) v); [exact H | discriminate].
    - rewrite PositiveMap.gso in H by exact E. right. exact H.
  Qed.

  Lemma cmc_vmem_empty : forall s, vmem s (PositiveMap.empty _) = false.
  Proof. intros s. unfold cmc_vmem, cmc_vmem_h. rewrite PositiveMap.gempty. reflexivity. Qed.

  (* the invariant of the search *)
  Definition cmc_ex_inv (inits : list St) (x : cmc_ex St) : Prop :=
    ex_bad St x = None ->
    (forall s, vmem s (ex_vis St x) = true ->
       exists succ, expand s = Some succ /\ forall s', In s' succ -> vmem s' (ex_vis St x) = true \/ In s' (ex_stack St x))
    /\ (forall s, In s inits -> vmem s (ex_vis St x) = true \/ In s (ex_stack St x)).

  Lemma cmc_ex_step_inv : forall inits x, cmc_ex_inv inits x -> cmc_ex_inv inits (cmc_ex_step St eqb hash expand x).
  Proof.
    intros inits x Hinv. unfold cmc_ex_step.
    destruct (ex_bad St x) eqn:Eb; [exact Hinv|].
    destruct (ex_stack St x) as [|s r] eqn:Es; [exact Hinv|].
    destruct (Hinv Eb) as [HA HB]. rewrite Es in HA, HB.
    cbv zeta. change (cmc_vmem_h St eqb (hash s) s (ex_vis St x)) with (vmem s (ex_vis St x)).
    change (cmc_vadd_h St (hash s) s (ex_vis St x)) with (vadd s (ex_vis St x)).
    destruct (vmem s (ex_vis St x)) eqn:Em.
    - intros _. simpl. split.
      + intros t Ht. destruct (HA t Ht) as [succ [E1 E2]]. exists succ. split; [exact E1|].
        intros s' Hs'. destruct (E2 s' Hs') as [H|[H|H]]; auto. subst. auto.
      + intros t Ht. destruct (HB t Ht) as [H|[H|H]]; auto. subst. auto.
    - destruct (expand s) as [succ|] eqn:Ee.
      + intros _. simpl. split.
        * intros t Ht. apply cmc_vmem_add_inv in Ht. destruct Ht as [Ht|Ht].
          -- subst t. exists succ. split; [exact Ee|]. intros s' Hs'. right. apply in_or_app. left. exact Hs'.
          -- destruct (HA t Ht) as [succ' [E1 E2]]. exists succ'. split; [exact E1|].
             intros s' Hs'. destruct (E2 s' Hs') as [H|[H|H]].
             ++ left. apply cmc_vmem_add_mono. exact H.
             ++ subst s'. left. apply cmc_vmem_add_same.
             ++ right. apply in_or_app. right. exact H.
        * intros t Ht. destruct (HB t Ht) as [H|[H|H]].
          -- left. apply cmc_vmem_add_mono. exact H.
          -- subst t. left. apply cmc_vmem_add_same.
          -- right. apply in_or_app. right. exact H.
      + simpl. intros H. discriminate H.
  Qed.

  Lemma cmc_ex_run_inv : forall inits fuel x, cmc_ex_inv inits x -> cmc_ex_inv inits (cmc_ex_run St eqb hash expand fuel x).
  Proof.
    intros inits. induction fuel as [f IH|f IH|]; intros x Hinv; simpl; destruct (cmc_ex_done St x); auto.
    - apply cmc_ex_step_inv. auto.
    - apply cmc_ex_step_inv. exact Hinv.
  Qed.

  Inductive cmc_star (s : St) : St -> Prop :=
  | cmc_star_refl : cmc_star s s
  | cmc_star_step : forall t succ t', cmc_star s t -> expand t = Some succ -> In t' succ -> cmc_star s t'.

  Theorem cmc_explore_sound : forall fuel inits,
    cmc_explore_ok St eqb hash expand fuel inits = true ->
    forall s0 s, In s0 inits -> cmc_star s0 s -> exists succ, expand s = Some succ.
  Proof.
    intros fuel inits Hok s0 s Hin Hstar. unfold cmc_explore_ok in Hok.
    set (x := cmc_explore St eqb hash expand fuel inits) in *.
    assert (Hinv : cmc_ex_inv inits x).
    { unfold x, cmc_explore. apply cmc_ex_run_inv. intros _. simpl. split.
      - intros t Ht. rewrite cmc_vmem_empty in Ht. discriminate.
      - intros t Ht. right. exact Ht. }
    destruct (ex_bad St x) eqn:Eb; [discriminate|].
    destruct (ex_stack St x) eqn:Es; [|discriminate].
    destruct (Hinv Eb) as [HA HB]. rewrite Es in HA, HB.
    assert (Hmem : vmem s (ex_vis St x) = true).
    { induction Hstar.
      - destruct (HB s0 Hin) as [H|[]]. exact H.
      - destruct (HA t IHHstar) as [succ' [E1 E2]]. rewrite H in E1. inversion E1; subst succ'.
        destruct (E2 t' H0) as [H1|[]]. exact H1. }
    destruct (HA s Hmem) as [succ [E _]]. exists succ. exact E.
  Qed.
End CmcExploreSound.

(* ------------------------------------------------------------------ *)
(* 3. the transition system and the meaning of the per-state check     *)
(* ------------------------------------------------------------------ *)
(* s' is reachable from s by steps of any threads in any order *)
Inductive cmc_reach (sw : cmc_sw) (p : cmc_par) (s : cmc_state) : cmc_state -> Prop :=
| cmc_reach_refl : cmc_reach sw p s s
| cmc_reach_step : forall s1 t alt s2, cmc_reach sw p s s1 -> cmc_step sw p s1 t alt = Some s2 -> cmc_reach sw p s s2.

(* a run of exactly n steps *)
Inductive cmc_run (sw : cmc_sw) (p : cmc_par) : nat -> cmc_state -> cmc_state -> Prop :=
| cmc_run_nil : forall s, cmc_run sw p 0 s s
| cmc_run_cons : forall n s t alt s1 s2, cmc_step sw p s t alt = Some s1 -> cmc_run sw p n s1 s2 -> cmc_run sw p (S n) s s2.

Lemma cmc_reach_trans : forall sw p a b c, cmc_reach sw p a b -> cmc_reach sw p b c -> cmc_reach sw p a c.
Proof. intros sw p a b c H1 H2. induction H2; [exact H1|]. eapply cmc_reach_step; eauto. Qed.

Lemma cmc_run_reach : forall sw p n a b, cmc_run sw p n a b -> cmc_reach sw p a b.
Proof.
  intros sw p n a b H. induction H; [constructor|].
  eapply cmc_reach_trans; [|exact IHcmc_run]. eapply cmc_reach_step; [constructor|exact H].
Qed.

Lemma cmc_run_sched_reach : forall sw p l s s', cmc_run_sched sw p s l = Some s' -> cmc_reach sw p s s'.
Proof.
  intros sw p. induction l as [|[t alt] l IH]; simpl; intros s s' H.
  - inversion H. constructor.
  - destruct (cmc_step sw p s t alt) as [s1|] eqn:E; [|discriminate].
    eapply cmc_reach_trans; [|apply IH; exact H]. eapply cmc_reach_step; [constructor|exact E].
Qed.

(* the labels enumerated by cmc_labels are all the labels that can be enabled *)
Lemma cmc_alts_upto_in : forall t n alt, alt <= n -> n <= 2 -> In (t, alt) (cmc_alts_upto t n).
Proof.
  intros t n alt H1 H2. destruct n as [|[|[|n]]]; try lia; destruct alt as [|[|[|alt]]]; try lia; simpl; auto.
Qed.

Lemma cmc_op_alts_le : forall o, cmc_op_alts o <= 2.
Proof. destruct o; simpl; lia. Qed.
Lemma cmc_hpc_alts_le : forall h, cmc_hpc_alts h <= 2.
Proof. destruct h; simpl; lia. Qed.

Lemma cmc_cl_labels_in : forall l i0 i o k alt,
  nth_error l i = Some (o :: k) -> alt <= cmc_op_alts o -> In (TCl (i0 + i), alt) (cmc_cl_labels i0 l).
Proof.
  induction l as [|k0 l IH]; intros i0 i o k alt Hn Ha; [destruct i; discriminate|].
  destruct i as [|i]; cbn [nth_error cmc_cl_labels] in *.
  - inversion Hn; subst k0. apply in_or_app. left. cbn [cmc_stack_labels]. rewrite Nat.add_0_r.
    apply cmc_alts_upto_in; [exact Ha|apply cmc_op_alts_le].
  - apply in_or_app. right. replace (i0 + S i) with (S i0 + i) by lia. eapply IH; eauto.
Qed.

Lemma cmc_el_labels_in : forall l e0 e x alt,
  nth_error l e = Some x -> ce_h x <> ENone -> alt <= cmc_hpc_alts (ce_h x) -> In (TE (e0 + e), alt) (cmc_el_labels e0 l).
Proof.
  induction l as [|x0 l IH]; intros e0 e x alt Hn Hh Ha; [destruct e; discriminate|].
  destruct e as [|e]; cbn [nth_error cmc_el_labels] in *.
  - inversion Hn; subst x0. rewrite Nat.add_0_r.
    assert (Hin : In (TE e0, alt) (cmc_alts_upto (TE e0) (cmc_hpc_alts (ce_h x)))).
    { apply cmc_alts_upto_in; [exact Ha|apply cmc_hpc_alts_le]. }
    destruct (ce_h x) eqn:E; try congruence; apply in_or_app; left; exact Hin.
  - replace (e0 + S e) with (S e0 + e) by lia.
    destruct (ce_h x0); try (apply in_or_app; right); eapply IH; eauto.
Qed.

Lemma cmc_step_label : forall sw p s t alt s', cmc_step sw p s t alt = Some s' -> In (t, alt) (cmc_labels s).
Proof.
  intros sw p s t alt s' H. unfold cmc_step in H.
  destruct (cs_err s); [discriminate|].
  unfold cmc_labels. destruct t as [| |i|e].
  - destruct (cs_h s) as [|o k]; [discriminate|]. destruct (alt <=? cmc_op_alts o) eqn:E; [|discriminate].
    apply Nat.leb_le in E. apply in_or_app. left. simpl. apply cmc_alts_upto_in; [exact E|apply cmc_op_alts_le].
  - destruct (cs_c s) as [|o k]; [discriminate|]. destruct (alt <=? cmc_op_alts o) eqn:E; [|discriminate].
    apply Nat.leb_le in E. apply in_or_app. right. apply in_or_app. left. simpl.
    apply cmc_alts_upto_in; [exact E|apply cmc_op_alts_le].
  - destruct (nth_error (cs_cl s) i) as [[|o k]|] eqn:En; try discriminate.
    destruct (alt <=? cmc_op_alts o) eqn:E; [|discriminate]. apply Nat.leb_le in E.
    apply in_or_app. right. apply in_or_app. right. apply in_or_app. left.
    apply (cmc_cl_labels_in (cs_cl s) 0 i o k alt En E).
  - destruct (nth_error (cs_els s) e) as [x|] eqn:En; [|discriminate].
    assert (Hh : ce_h x <> ENone) by (intro Hx; rewrite Hx in H; discriminate).
    assert (Ha : alt <= cmc_hpc_alts (ce_h x)).
    { destruct (ce_h x); try congruence; destruct (alt <=? _) eqn:E; try discriminate; apply Nat.leb_le in E; exact E. }
    apply in_or_app. right. apply in_or_app. right. apply in_or_app. right.
    apply (cmc_el_labels_in (cs_els s) 0 e x alt En Hh Ha).
Qed.

Lemma cmc_succs_complete : forall sw p s t alt s', cmc_step sw p s t alt = Some s' -> In s' (cmc_succs sw p s).
Proof.
  intros sw p s t alt s' H. unfold cmc_succs. apply in_flat_map. exists (t, alt). split.
  - eapply cmc_step_label. exact H.
  - simpl. rewrite H. left. reflexivity.
Qed.

Lemma cmc_succs_sound : forall sw p s s', In s' (cmc_succs sw p s) -> exists t alt, cmc_step sw p s t alt = Some s'.
Proof.
  intros sw p s s' H. unfold cmc_succs in H. apply in_flat_map in H. destruct H as [[t alt] [_ H]]. simpl in H.
  destruct (cmc_step sw p s t alt) eqn:E; [|destruct H]. destruct H as [H|[]]. subst. eauto.
Qed.

Lemma cmc_succs_nil : forall sw p s, cmc_succs sw p s = [] -> forall t alt, cmc_step sw p s t alt = None.
Proof.
  intros sw p s H t alt. destruct (cmc_step sw p s t alt) eqn:E; [|reflexivity].
  apply cmc_succs_complete in E. rewrite H in E. destruct E.
Qed.

(* what a passed check says about one state *)
Record cmc_state_good (sw : cmc_sw) (p : cmc_par) (s : cmc_state) : Prop := {
  sg_no_err : cs_err s = None;
  sg_live : cmc_all_done s = false -> exists t alt s', cmc_step sw p s t alt = Some s';
  sg_final : (forall t alt, cmc_step sw p s t alt = None) -> cmc_all_done s = true /\ cmc_all_stopped s = true
}.

Lemma cmc_expand_good : forall sw p s succ, cmc_expand sw p s = Some succ -> cmc_state_good sw p s /\ succ = cmc_succs sw p s.
Proof.
  intros sw p s succ H. unfold cmc_expand in H.
  destruct (cmc_no_err s) eqn:Ee; [|discriminate].
  assert (Hne : cs_err s = None). { unfold cmc_no_err in Ee. destruct (cs_err s); [discriminate|reflexivity]. }
  destruct (cmc_succs sw p s) as [|s1 r] eqn:Es.
  - destruct (cmc_all_done s && cmc_all_stopped s) eqn:Ed; [|discriminate]. inversion H; subst succ.
    apply andb_true_iff in Ed. destruct Ed as [Ed1 Ed2]. split; [|reflexivity]. constructor; auto.
    intros Hd. rewrite Hd in Ed1. discriminate.
  - inversion H; subst succ. split; [|reflexivity]. constructor; auto.
    + intros _. destruct (cmc_succs_sound sw p s s1) as [t [alt Hs]]; [rewrite Es; left; reflexivity|]. eauto.
    + intros Hnone. destruct (cmc_succs_sound sw p s s1) as [t [alt Hs]]; [rewrite Es; left; reflexivity|].
      rewrite Hnone in Hs. discriminate.
Qed.

Lemma cmc_reach_star : forall sw p s0 s, cmc_reach sw p s0 s ->
  (forall t, cmc_star cmc_state (cmc_expand sw p) s0 t -> exists succ, cmc_expand sw p t = Some succ) ->
  cmc_star cmc_state (cmc_expand sw p) s0 s.
Proof.
  intros sw p s0 s H Hall. induction H; [constructor|].
  destruct (Hall s1 IHcmc_reach) as [succ Hs]. destruct (cmc_expand_good _ _ _ _ Hs) as [_ Hsucc].
  eapply cmc_star_step; [exact IHcmc_reach|exact Hs|]. subst succ. eapply cmc_succs_complete. exact H0.
Qed.

(* a passed exploration of a configuration: every reachable state is good *)
Theorem cmc_check_cfg_sound : forall sw fuel c, cmc_check_cfg sw fuel c = true ->
  forall s, cmc_reach sw (cf_par c) (cmc_init c) s -> cmc_state_good sw (cf_par c) s.
Proof.
  intros sw fuel c Hc s Hr. unfold cmc_check_cfg in Hc.
  pose proof (cmc_explore_sound cmc_state cmc_state_eqb cmc_hash (cmc_expand sw (cf_par c))
                cmc_state_eqb_eq cmc_state_eqb_refl fuel [cmc_init c] Hc (cmc_init c)) as Hs.
  assert (Hall : forall t, cmc_star cmc_state (cmc_expand sw (cf_par c)) (cmc_init c) t ->
                           exists succ, cmc_expand sw (cf_par c) t = Some succ).
  { intros t Ht. apply Hs; [left; reflexivity|exact Ht]. }
  destruct (Hall s (cmc_reach_star _ _ _ _ Hr Hall)) as [succ He].
  apply (cmc_expand_good _ _ _ _ He).
Qed.

(* the adapter call made by a step is legal if the step does not end in the error state *)
Lemma cmc_call_guard : forall sw p s t alt s', cmc_step sw p s t alt = Some s' -> cs_err s' = None ->
  match cmc_call s t with
  | Some (true, a) => cmc_started s a = false
  | Some (false, a) => cmc_started s a = true
  | None => True
  end.
Proof.
  intros sw p s t alt s' Hs He. unfold cmc_step in Hs.
  destruct (cs_err s) eqn:E0; [discriminate|].
  assert (Hs' : match t with
      | TH => match cs_h s with o :: k => cmc_exec sw p s TH o k alt | [] => None end
      | TC => match cs_c s with o :: k => cmc_exec sw p s TC o k alt | [] => None end
      | TCl i => match nth_error (cs_cl s) i with Some (o :: k) => cmc_exec sw p s (TCl i) o k alt | _ => None end
      | TE e => cmc_exec_el p s e alt
      end = Some s').
  { destruct t as [| |i|e].
    - destruct (cs_h s) as [|o k]; [discriminate|]. destruct (alt <=? cmc_op_alts o); [exact Hs|discriminate].
    - destruct (cs_c s) as [|o k]; [discriminate|]. destruct (alt <=? cmc_op_alts o); [exact Hs|discriminate].
    - destruct (nth_error (cs_cl s) i) as [[|o k]|]; try discriminate.
      destruct (alt <=? cmc_op_alts o); [exact Hs|discriminate].
    - destruct (nth_error (cs_els s) e) as [x|]; [|discriminate].
      destruct (ce_h x); try discriminate; destruct (alt <=? _); try discriminate; exact Hs. }
  clear Hs.
  assert (Hact2 : forall tt c e k, cmc_exec sw p s tt (Act2 c e) k alt = Some s' ->
            match nth_error (cs_els s) e with
            | Some x => match nth_error (cs_ads s) (ce_conv x) with
                        | Some ad => if (ce_ttl x =? 0)%Z && negb (ca_perm ad) then True else cmc_started s (ce_conv x) = false
                        | None => True end
            | None => True end).
  { intros tt c e k H. unfold cmc_exec in H.
    destruct (nth_error (cs_els s) e) as [x|] eqn:Ex; [|exact I].
    destruct (nth_error (cs_ads s) (ce_conv x)) as [ad|] eqn:Ea; [|exact I].
    destruct ((ce_ttl x =? 0)%Z && negb (ca_perm ad)); [exact I|].
    unfold cmc_started. rewrite Ea.
    destruct (ca_started ad); [|reflexivity].
    destruct alt; [|discriminate]. inversion H; subst s'. simpl in He. discriminate. }
  unfold cmc_call, cmc_stack_of.
  destruct t as [| |i|e].
  - destruct (cs_h s) as [|o k]; [exact I|]. destruct o; try exact I.
    specialize (Hact2 _ _ _ _ Hs').
    destruct (nth_error (cs_els s) e) as [x|]; [|exact I].
    destruct (nth_error (cs_ads s) (ce_conv x)) as [ad|]; [|exact I].
    destruct ((ce_ttl x =? 0)%Z && negb (ca_perm ad)); [exact I|exact Hact2].
  - destruct (cs_c s) as [|o k]; [exact I|]. destruct o; try exact I.
    specialize (Hact2 _ _ _ _ Hs').
    destruct (nth_error (cs_els s) e) as [x|]; [|exact I].
    destruct (nth_error (cs_ads s) (ce_conv x)) as [ad|]; [|exact I].
    destruct ((ce_ttl x =? 0)%Z && negb (ca_perm ad)); [exact I|exact Hact2].
  - destruct (nth_error (cs_cl s) i) as [[|o k]|]; try exact I. destruct o; try exact I.
    specialize (Hact2 _ _ _ _ Hs').
    destruct (nth_error (cs_els s) e) as [x|]; [|exact I].
    destruct (nth_error (cs_ads s) (ce_conv x)) as [ad|]; [|exact I].
    destruct ((ce_ttl x =? 0)%Z && negb (ca_perm ad)); [exact I|exact Hact2].
  - unfold cmc_exec_el in Hs'.
    destruct (nth_error (cs_els s) e) as [x|] eqn:Ex; [|exact I].
    destruct (ce_h x) eqn:Eh; try exact I.
    destruct alt; [|discriminate].
    unfold cmc_started.
    destruct (nth_error (cs_ads s) (ce_conv x)) as [ad|] eqn:Ea; [|discriminate].
    destruct (ca_started ad); [reflexivity|]. inversion Hs'; subst s'. simpl in He. discriminate.
Qed.

(* ------------------------------------------------------------------ *)
(* 3b. the ranking function: termination of every run from every state *)
(* ------------------------------------------------------------------ *)
Definition cmc_Wst := cmc_w_stack.
Definition cmc_Wcl (n : N) (l : list (list cmc_op)) : N := fold_right (fun k r => cmc_w_stack n k + r)%N 0%N l.
Definition cmc_Wel (l : list cmc_elem) : N := fold_right (fun x r => cmc_w_hpc (ce_h x) + r)%N 0%N l.
Definition cmc_Wad (l : list cmc_adp) : N := fold_right (fun ad r => nlen (ca_chan ad) * cmc_w_msg_chan + r)%N 0%N l.
Definition cmc_Werr (e : option cmc_err) : N := match e with None => 1%N | Some _ => 0%N end.

Lemma cmc_rank_eq : forall s, cmc_rank s =
  (cmc_Wst (nlen (cs_reg s)) (cs_h s) + cmc_Wst (nlen (cs_reg s)) (cs_c s) + cmc_Wcl (nlen (cs_reg s)) (cs_cl s)
   + cmc_Wel (cs_els s) + cmc_Wad (cs_ads s)
   + nlen (cs_in s) * cmc_w_msg_in + N.of_nat (cs_ticks s) * (3 + nlen (cs_reg s) * cmc_w_tickkey) + cmc_Werr (cs_err s))%N.
Proof. reflexivity. Qed.

Lemma cmc_upd_len {A} : forall (l : list A) i x, length (cmc_upd l i x) = length l.
Proof. induction l; destruct i; simpl; auto. Qed.

Lemma cmc_nlen_upd {A} : forall (l : list A) i x, nlen (cmc_upd l i x) = nlen l.
Proof. intros. unfold nlen. rewrite cmc_upd_len. reflexivity. Qed.

Lemma cmc_Wcl_upd : forall n l i k0 k1, nth_error l i = Some k0 ->
  (cmc_Wcl n (cmc_upd l i k1) + cmc_Wst n k0 = cmc_Wcl n l + cmc_Wst n k1)%N.
Proof.
  induction l as [|k l IH]; intros i k0 k1 H; destruct i; simpl in *; try discriminate.
  - inversion H; subst. unfold cmc_Wst. lia.
  - specialize (IH _ _ k1 H). unfold cmc_Wst in *. lia.
Qed.

Lemma cmc_Wel_upd : forall l e x y, nth_error l e = Some x ->
  (cmc_Wel (cmc_upd l e y) + cmc_w_hpc (ce_h x) = cmc_Wel l + cmc_w_hpc (ce_h y))%N.
Proof.
  induction l as [|k l IH]; intros e x y H; destruct e; simpl in *; try discriminate.
  - inversion H; subst. lia.
  - specialize (IH _ _ y H). lia.
Qed.

Lemma cmc_Wel_app : forall l x, (cmc_Wel (l ++ [x]) = cmc_Wel l + cmc_w_hpc (ce_h x))%N.
Proof. induction l; intros; simpl in *; [lia|]. rewrite IHl. lia. Qed.

Lemma cmc_Wad_upd : forall l a x y, nth_error l a = Some x ->
  (cmc_Wad (cmc_upd l a y) + nlen (ca_chan x) * cmc_w_msg_chan = cmc_Wad l + nlen (ca_chan y) * cmc_w_msg_chan)%N.
Proof.
  induction l as [|k l IH]; intros e x y H; destruct e; simpl in *; try discriminate.
  - inversion H; subst. lia.
  - specialize (IH _ _ y H). lia.
Qed.

Lemma cmc_keys_from_len : forall r i, length (cmc_keys_from i r) <= length r.
Proof. induction r as [|[x|] r IH]; intros i; simpl; [lia| |]; specialize (IH (S i)); lia. Qed.

Lemma cmc_keys_nlen : forall s, (nlen (cmc_keys s) <= nlen (cs_reg s))%N.
Proof. intros s. unfold nlen, cmc_keys. pose proof (cmc_keys_from_len (cs_reg s) 0). lia. Qed.

Lemma cmc_nlen_cons {A} : forall (x : A) l, nlen (x :: l) = (nlen l + 1)%N.
Proof. intros. unfold nlen. simpl length. lia. Qed.
Lemma cmc_nlen_app1 {A} : forall (x : A) l, nlen (l ++ [x]) = (nlen l + 1)%N.
Proof. intros. unfold nlen. rewrite app_length. simpl. lia. Qed.

(* the stack of thread t in s *)
Definition cmc_stack_is (s : cmc_state) (t : cmc_tid) (k : list cmc_op) : Prop :=
  match t with
  | TH => cs_h s = k
  | TC => cs_c s = k
  | TCl i => nth_error (cs_cl s) i = Some k
  | TE _ => False
  end.

Lemma cmc_rank_set_stack : forall s t k0 k1, cmc_stack_is s t k0 ->
  (cmc_rank (cmc_set_stack s t k1) + cmc_Wst (nlen (cs_reg s)) k0 = cmc_rank s + cmc_Wst (nlen (cs_reg s)) k1)%N.
Proof.
  intros s t k0 k1 H. rewrite !cmc_rank_eq. destruct t as [| |i|e]; simpl in H.
  - cbn [cmc_set_stack cmc_set_h cs_h cs_c cs_cl cs_els cs_reg cs_ads cs_in cs_ticks cs_err]. rewrite H. lia.
  - cbn [cmc_set_stack cmc_set_c cs_h cs_c cs_cl cs_els cs_reg cs_ads cs_in cs_ticks cs_err]. rewrite H. lia.
  - cbn [cmc_set_stack cmc_set_cl cs_h cs_c cs_cl cs_els cs_reg cs_ads cs_in cs_ticks cs_err].
    pose proof (cmc_Wcl_upd (nlen (cs_reg s)) (cs_cl s) i k0 k1 H). lia.
  - destruct H.
Qed.

Ltac cmc_proj := cbn [cmc_set_stack cmc_set_h cmc_set_c cmc_set_cl cmc_set_els cmc_set_reg cmc_set_ads cmc_set_flag cmc_set_sfm
  cmc_set_syn cmc_set_ack cmc_set_in cmc_set_in_closed cmc_set_out_closed cmc_set_ticks cmc_fail
  cs_h cs_c cs_cl cs_els cs_reg cs_ads cs_flag cs_sfm cs_syn cs_ack cs_in cs_in_closed cs_out_closed cs_ticks cs_err
  cmc_el_set_ttl cmc_el_set_mu cmc_el_set_syn cmc_el_set_ack cmc_el_set_h ce_conv ce_ttl ce_mu ce_syn ce_ack ce_h
  cmc_ad_set_started cmc_ad_set_chan ca_perm ca_started ca_chan cmc_new_elem] in *.

Ltac cmc_consts := unfold cmc_Wst, cmc_w_tickkey, cmc_w_shutkey, cmc_w_msg_chan, cmc_w_msg_in, cmc_w_reg, cmc_w_act0, cmc_w_after, cmc_w_unr in *.

(* s1 is s up to fields the rank does not look at / with the stated effect on the rank; then the thread's stack is replaced *)
Ltac cmc_finish Hst :=
  match goal with
  | |- (cmc_rank (cmc_set_stack ?s1 ?t ?k1) < cmc_rank ?s)%N =>
      match type of Hst with
      | cmc_stack_is _ _ ?k0 =>
          let H := fresh "Hss" in
          assert (H : cmc_stack_is s1 t k0) by (destruct t; cbn [cmc_stack_is] in *; cmc_proj; try exact Hst; try (destruct Hst));
          pose proof (cmc_rank_set_stack s1 t k0 k1 H); clear H
      end
  end.

Ltac cmc_destr H :=
  repeat match type of H with
         | context [match ?x with _ => _ end] => destruct x eqn:?
         end; try discriminate.

Ltac cmc_facts :=
  repeat match goal with
         | E : nth_error ?l ?e = Some ?x |- context [cmc_Wel (cmc_upd ?l ?e ?y)] =>
             lazymatch goal with
             | _ : (cmc_Wel (cmc_upd l e y) + _ = _)%N |- _ => fail
             | _ => pose proof (cmc_Wel_upd l e x y E)
             end
         | E : nth_error ?l ?e = Some ?x, H : context [cmc_Wel (cmc_upd ?l ?e ?y)] |- _ =>
             lazymatch goal with
             | _ : (cmc_Wel (cmc_upd l e y) + _ = _)%N |- _ => fail
             | _ => pose proof (cmc_Wel_upd l e x y E)
             end
         | E : nth_error ?l ?e = Some ?x, H : context [cmc_Wad (cmc_upd ?l ?e ?y)] |- _ =>
             lazymatch goal with
             | _ : (cmc_Wad (cmc_upd l e y) + _ = _)%N |- _ => fail
             | _ => pose proof (cmc_Wad_upd l e x y E)
             end
         end.

Lemma cmc_w_stack_cons : forall n o k, cmc_w_stack n (o :: k) = (cmc_w_op n o + cmc_w_stack n k)%N.
Proof. reflexivity. Qed.
Lemma cmc_w_stack_nil : forall n, cmc_w_stack n [] = 0%N.
Proof. reflexivity. Qed.

Ltac cmc_arith :=
  cmc_proj; rewrite ?cmc_nlen_upd, ?cmc_Wel_app, ?cmc_nlen_cons, ?cmc_nlen_app1 in *; cmc_proj; cmc_facts; cmc_proj;
  cmc_consts; rewrite ?cmc_w_stack_cons, ?cmc_w_stack_nil in *; cbn [cmc_w_op cmc_w_hpc cmc_Werr] in *; cmc_consts;
  cbv beta iota in *; rewrite ?cmc_nlen_cons in *; try lia.

Lemma cmc_exec_rank : forall sw p s t o k alt s', cmc_stack_is s t (o :: k) -> cs_err s = None ->
  cmc_exec sw p s t o k alt = Some s' -> (cmc_rank s' < cmc_rank s)%N.
Proof.
  intros sw p s t o k alt s' Hst He H. unfold cmc_exec in H.
  pose proof (cmc_keys_nlen s) as Hkeys.
  destruct o; cmc_destr H; inversion H; subst s'; clear H;
    try (rewrite (cmc_rank_eq (cmc_fail _ _)), (cmc_rank_eq s); cmc_proj; rewrite He; cbn [cmc_Werr]; lia);
    unfold cmc_mod_el, cmc_after_act in *; cmc_proj;
    repeat match goal with
           | c : cmc_caller |- _ => destruct c
           end;
    repeat match goal with
           | E : nth_error ?l ?e = _ |- context [match nth_error ?l ?e with _ => _ end] => rewrite E
           | |- context [match nth_error ?l ?e with _ => _ end] => destruct (nth_error l e) eqn:?
           end;
    repeat match goal with
           | |- context [if ?b then _ else _] => destruct b eqn:?
           end;
    cmc_finish Hst;
    match goal with
    | Hss : (cmc_rank (cmc_set_stack ?s1 _ _) + _ = cmc_rank ?s1 + _)%N |- _ =>
        rewrite (cmc_rank_eq s1) in Hss; rewrite (cmc_rank_eq s)
    end;
    repeat match goal with
           | E : cs_in s = _ |- _ => rewrite E in *; clear E
           | E : cs_ticks s = S _ |- _ => rewrite E, Nat2N.inj_succ, N.mul_succ_l in *; clear E
           end;
    cmc_arith.
Qed.

Lemma cmc_exec_el_rank : forall p s e alt s', cs_err s = None ->
  cmc_exec_el p s e alt = Some s' -> (cmc_rank s' < cmc_rank s)%N.
Proof.
  intros p s e alt s' He H. unfold cmc_exec_el in H.
  cmc_destr H; inversion H; subst s'; clear H;
    try (rewrite (cmc_rank_eq (cmc_fail _ _)), (cmc_rank_eq s); cmc_proj; rewrite He; cbn [cmc_Werr]; lia);
    unfold cmc_mod_el in *; cmc_proj;
    repeat match goal with
           | E : nth_error ?l ?e = _ |- context [match nth_error ?l ?e with _ => _ end] => rewrite E
           end;
    match goal with
    | |- (cmc_rank ?s1 < cmc_rank ?s)%N => rewrite (cmc_rank_eq s1), (cmc_rank_eq s)
    end;
    repeat match goal with
           | E : ca_chan _ = _ :: _ |- _ => rewrite E in *
           end;
    cmc_proj; rewrite ?cmc_nlen_app1, ?cmc_nlen_cons in *;
    repeat match goal with
           | E : nth_error ?l ?e = Some ?x |- context [cmc_Wel (cmc_upd ?l ?e ?y)] =>
               pose proof (cmc_Wel_upd l e x y E); generalize dependent (cmc_Wel (cmc_upd l e y)); intros
           | E : nth_error ?l ?e = Some ?x |- context [cmc_Wad (cmc_upd ?l ?e ?y)] =>
               pose proof (cmc_Wad_upd l e x y E); generalize dependent (cmc_Wad (cmc_upd l e y)); intros
           end;
    cmc_proj;
    repeat match goal with
           | E : ce_h _ = _ |- _ => rewrite E in *
           | E : ca_chan _ = _ :: _ |- _ => rewrite E in *
           end;
    rewrite ?cmc_nlen_cons in *; cmc_consts; cbn [cmc_w_hpc] in *; cmc_consts; try lia.
Qed.

(* every step of every thread in every state (any switches, any parameters) decreases the rank *)
Theorem cmc_step_rank : forall sw p s t alt s', cmc_step sw p s t alt = Some s' -> (cmc_rank s' < cmc_rank s)%N.
Proof.
  intros sw p s t alt s' H. unfold cmc_step in H.
  destruct (cs_err s) eqn:He; [discriminate|].
  destruct t as [| |i|e].
  - destruct (cs_h s) as [|o k] eqn:Es; [discriminate|]. destruct (alt <=? cmc_op_alts o); [|discriminate].
    eapply (cmc_exec_rank sw p s TH o k); eauto.
  - destruct (cs_c s) as [|o k] eqn:Es; [discriminate|]. destruct (alt <=? cmc_op_alts o); [|discriminate].
    eapply (cmc_exec_rank sw p s TC o k); eauto.
  - destruct (nth_error (cs_cl s) i) as [[|o k]|] eqn:Es; try discriminate.
    destruct (alt <=? cmc_op_alts o); [|discriminate].
    eapply (cmc_exec_rank sw p s (TCl i) o k); eauto.
  - destruct (nth_error (cs_els s) e) as [x|]; [|discriminate].
    destruct (ce_h x); try discriminate; destruct (alt <=? _); try discriminate; eapply cmc_exec_el_rank; eauto.
Qed.

(* hence every run, from any state, is finite: it has at most rank-many steps *)
Theorem cmc_run_rank : forall sw p n s s', cmc_run sw p n s s' -> (N.of_nat n + cmc_rank s' <= cmc_rank s)%N.
Proof.
  intros sw p n s s' H. induction H; [simpl; lia|].
  pose proof (cmc_step_rank _ _ _ _ _ _ H). lia.
Qed.

(* ------------------------------------------------------------------ *)
(* 4. completeness of the enumeration of configurations                *)
(* ------------------------------------------------------------------ *)
Lemma cmc_lists_le_complete {A} : forall k (xs : list A) l,
  length l <= k -> (forall x, In x l -> In x xs) -> In l (cmc_lists_le k xs).
Proof.
  induction k as [|k IH]; intros xs l Hl Hin.
  - destruct l; [left; reflexivity|simpl in Hl; lia].
  - destruct l as [|x l]; [left; reflexivity|]. simpl. right. apply in_flat_map. exists x. split.
    + apply Hin. left. reflexivity.
    + apply in_map. apply IH; [simpl in Hl; lia|]. intros y Hy. apply Hin. right. exact Hy.
Qed.

Lemma cmc_msgs_in : forall (m : bool), In m [true; false].
Proof. intros [|]; simpl; auto. Qed.

Lemma cmc_acfg_in : forall P M a, cmc_ainit_in_bound P (ac_init a) = true -> length (ac_msgs a) <= M ->
  In a (cmc_all_acfgs P M).
Proof.
  intros P M [i pm ms] Hi Hm. simpl in *. unfold cmc_all_acfgs.
  apply in_flat_map. exists i. split.
  - unfold cmc_all_inits. destruct i as [| |t]; [left; reflexivity|right; left; reflexivity|]. right. right.
    apply in_map. apply in_seq. simpl in Hi. apply Nat.leb_le in Hi. lia.
  - apply in_flat_map. exists pm. split; [destruct pm; simpl; auto|].
    apply in_map_iff. exists ms. split; [reflexivity|].
    apply cmc_lists_le_complete; [exact Hm|]. intros x _. apply cmc_msgs_in.
Qed.

Lemma cmc_msg_count_le : forall ads a, In a ads -> length (ac_msgs a) <= cmc_msg_count ads.
Proof.
  induction ads as [|b ads IH]; intros a Ha; [destruct Ha|]. destruct Ha as [H|H]; simpl.
  - subst. lia.
  - specialize (IH a H). lia.
Qed.

Lemma cmc_cop_in : forall N o, cmc_cop_target o < N -> In o (cmc_all_cops N).
Proof.
  intros N o H. unfold cmc_all_cops. apply in_flat_map. exists (cmc_cop_target o). split.
  - apply in_seq. lia.
  - destruct o; simpl; auto.
Qed.

Theorem cmc_all_cfgs_complete : forall N K M T P c, cmc_in_bound N K M T P c = true -> In c (cmc_all_cfgs N K M T P).
Proof.
  intros N K M T P [ads ops ticks [ttl cap env]] H. unfold cmc_in_bound in H. simpl in H.
  repeat (apply andb_true_iff in H; destruct H as [H ?]).
  apply Nat.leb_le in H. apply Nat.leb_le in H7. apply Nat.leb_le in H6. apply Nat.leb_le in H5.
  apply Z.eqb_eq in H2. apply Nat.eqb_eq in H1. apply negb_true_iff in H0. subst ttl cap env.
  unfold cmc_all_cfgs. apply in_flat_map. exists ads. split.
  - apply cmc_lists_le_complete; [exact H|]. intros a Ha. apply cmc_acfg_in.
    + rewrite forallb_forall in H4. apply H4. exact Ha.
    + pose proof (cmc_msg_count_le ads a Ha). lia.
  - apply Nat.leb_le in H6. rewrite H6. apply in_flat_map. exists ops. split.
    + apply cmc_lists_le_complete; [exact H7|]. intros o Ho. apply cmc_cop_in.
      rewrite forallb_forall in H3. apply Nat.ltb_lt. apply H3. exact Ho.
    + apply in_map_iff. exists ticks. split; [reflexivity|]. apply in_seq. lia.
Qed.

Corollary cmc_family_complete : forall N K M T P c,
  cmc_in_bound N K M T P c = true -> cmc_cfg_ok c = true -> In c (cmc_family N K M T P).
Proof.
  intros. unfold cmc_family. apply filter_In. split; [apply cmc_all_cfgs_complete; assumption|assumption].
Qed.

(* a family whose configurations all pass the exploration *)
Lemma cmc_family_checked : forall sw fuel fam,
  forallb (cmc_check_cfg sw fuel) fam = true ->
  forall c, In c fam -> forall s, cmc_reach sw (cf_par c) (cmc_init c) s -> cmc_state_good sw (cf_par c) s.
Proof.
  intros sw fuel fam H c Hc. rewrite forallb_forall in H. apply (cmc_check_cfg_sound sw fuel c). apply H. exact Hc.
Qed.

(* a schedule that can be run is a witness of reachability *)
Lemma cmc_witness : forall sw c sched (P : cmc_state -> bool),
  match cmc_run_sched sw (cf_par c) (cmc_init c) sched with Some s => P s | None => false end = true ->
  exists s, cmc_reach sw (cf_par c) (cmc_init c) s /\ P s = true.
Proof.
  intros sw c sched P H. destruct (cmc_run_sched sw (cf_par c) (cmc_init c) sched) as [s|] eqn:E; [|discriminate].
  exists s. split; [eapply cmc_run_sched_reach; exact E|exact H].
Qed.

(* ... and of a complete run of that many steps *)
Lemma cmc_run_sched_run : forall sw p l s s', cmc_run_sched sw p s l = Some s' -> cmc_run sw p (length l) s s'.
Proof.
  intros sw p. induction l as [|[t alt] l IH]; simpl; intros s s' H.
  - inversion H. constructor.
  - destruct (cmc_step sw p s t alt) as [s1|] eqn:E; [|discriminate]. econstructor; [exact E|]. apply IH. exact H.
Qed.
