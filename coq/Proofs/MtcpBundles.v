(* MTCP carrying real bundles: the stream theorem of MtcpProofs.v (generic in a codec) replayed for the
   bundle codec of Model/Bundle.v itself, for lists of bundles that are only *assumed* valid (no subset
   type): the server loop of Model/Mtcp.v, parsing with dec_bundle, hands up exactly the bundles sent. *)
From DTN Require Import Base Cbor Crc Eid Bundle BundleWf BundleProofs ValidProofs BundleStreamProofs Mtcp MtcpProofs.
From Coq Require Import ZifyN ZifyNat ZifyBool.
Open Scope N_scope.

Definition mb_parse (now : N) : N -> list N -> option (bundle * list N) := fun _ s => dec_bundle now s.
Definition mb_ev (o : option bundle) : mtcp_ev := cev bundle_bytes o.
(* what may be sent: a valid bundle whose serialisation is shorter than 2^64 bytes (Go: len is an int) *)
Definition mb_ok (now : N) (o : option bundle) : Prop :=
  match o with Some b => good now b /\ nlen (bundle_bytes b) < 2 ^ 64 | None => True end.

Lemma bundle_bytes_nonempty b : (nlen (bundle_bytes b) =? 0) = false.
Proof. apply N.eqb_neq. unfold nlen, bundle_bytes. cbn [length]. lia. Qed.

Lemma mb_read_probe r : mtcp_read_head (mtcp_probe ++ r) = Some (0, r).
Proof. apply (read_head_small 0 r). lia. Qed.

Lemma mb_server_loop : forall now l fuel, Forall (mb_ok now) l ->
  (length (mtcp_client_stream (map mb_ev l)) < fuel)%nat ->
  mtcp_server_loop (mb_parse now) fuel (mtcp_client_stream (map mb_ev l)) = handed_up l.
Proof.
  intros now l. induction l as [|o l IH]; intros fuel Hok Hf.
  - destruct fuel; [cbn in Hf; lia|]. reflexivity.
  - inversion Hok as [|o' l' Ho Hl]; subst o' l'.
    unfold mtcp_client_stream in *. cbn [map concat] in *. rewrite app_length in Hf.
    destruct o as [x|]; unfold mb_ev in *; cbn [cev mtcp_ev_bytes] in *.
    + destruct Ho as [[Hwf Hv] Hlen].
      unfold mtcp_frame in *. rewrite !app_length in Hf. cbn [length mtcp_probe] in Hf.
      pose proof (mtcp_head_length_bounds (nlen (bundle_bytes x))) as Hh.
      destruct fuel as [|fuel]; [lia|]. cbn [mtcp_server_loop].
      rewrite <- !app_assoc. rewrite mtcp_head_roundtrip by exact Hlen.
      rewrite bundle_bytes_nonempty. unfold mb_parse at 1. rewrite (dec_bundle_enc now x _ Hwf Hv).
      destruct fuel as [|fuel]; [lia|]. cbn [mtcp_server_loop].
      rewrite mb_read_probe. cbn [N.eqb]. cbn [handed_up flat_map app]. f_equal.
      apply IH; [exact Hl|lia].
    + destruct fuel as [|fuel]; [lia|]. cbn [mtcp_server_loop]. rewrite mb_read_probe. cbn [N.eqb].
      cbn [handed_up flat_map app]. apply IH; [exact Hl|]. cbn [mtcp_probe length] in Hf. lia.
Qed.

Lemma mb_stream : forall now l, Forall (mb_ok now) l ->
  mtcp_server (mb_parse now) (mtcp_client_stream (map mb_ev l)) = handed_up l.
Proof. intros now l H. unfold mtcp_server. apply mb_server_loop; [exact H|lia]. Qed.
