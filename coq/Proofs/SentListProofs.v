(* SentListProofs.v - invariants of Model/SentList.v behind the C13 theorems. *)
From DTN Require Import Base SentList.
Open Scope N_scope.

Lemma sl_mem_in : forall p l, sl_mem p l = true <-> In p l.
Proof.
  induction l as [|x l IH]; cbn; [split; [discriminate|tauto]|].
  rewrite orb_true_iff, N.eqb_eq, IH. tauto.
Qed.

Lemma sl_mem_not_in : forall p l, sl_mem p l = false <-> ~ In p l.
Proof. intros. rewrite <- sl_mem_in. destruct (sl_mem p l); split; congruence. Qed.

Lemma sl_remove1_in : forall p q l, In q (sl_remove1 p l) -> In q l.
Proof.
  induction l as [|x l IH]; cbn; [tauto|]. destruct (x =? p); cbn; tauto.
Qed.

Lemma sl_remove1_other : forall p q l, q <> p -> In q l -> In q (sl_remove1 p l).
Proof.
  induction l as [|x l IH]; cbn; [tauto|]. intros Hne [->|H].
  - destruct (q =? p) eqn:E; [apply N.eqb_eq in E; contradiction|now left].
  - destruct (x =? p); [exact H|right; auto].
Qed.

Lemma sl_remove1_nodup : forall p l, NoDup l -> NoDup (sl_remove1 p l) /\ ~ In p (sl_remove1 p l).
Proof.
  induction l as [|x l IH]; cbn; intros H; [split; [constructor|tauto]|].
  inversion H as [|? ? Hx Hl]; subst. destruct (x =? p) eqn:E.
  - apply N.eqb_eq in E. subst. auto.
  - apply N.eqb_neq in E. destruct (IH Hl) as [A B]. split.
    + constructor; [|exact A]. intros C. apply Hx. eapply sl_remove1_in; eauto.
    + intros [C|C]; [contradiction|contradiction].
Qed.

(* filterCLAs *)
Definition sl_filter_post (sent cands ch s' : list N) : Prop :=
  NoDup s' /\ NoDup ch /\ incl sent s' /\ incl ch s'
  /\ (forall p, In p ch -> ~ In p sent /\ In p cands)
  /\ (forall p, In p s' -> In p sent \/ In p ch).

Lemma NoDup_snoc : forall (l : list N) c, NoDup l -> ~ In c l -> NoDup (l ++ [c]).
Proof.
  induction l as [|x l IH]; intros c H M; cbn.
  - constructor; [tauto|constructor].
  - inversion H; subst. constructor.
    + intros X. apply in_app_or in X. destruct X as [X|[X|[]]]; [contradiction|]. subst. apply M. now left.
    + apply IH; [assumption|]. intros X. apply M. now right.
Qed.

Lemma sl_filter_spec : forall cands sent k ch s',
  sl_filter sent cands k = (ch, s') -> NoDup sent -> sl_filter_post sent cands ch s'.
Proof.
  induction cands as [|c cands IH]; intros sent k ch s' H ND; cbn [sl_filter] in H.
  - inversion H; subst. unfold sl_filter_post.
    split; [exact ND|]. split; [constructor|]. split; [apply incl_refl|]. split; [intros p []|].
    split; [intros p []|]. intros p Hp. now left.
  - destruct k as [|k'].
    + inversion H; subst. unfold sl_filter_post.
      split; [exact ND|]. split; [constructor|]. split; [apply incl_refl|]. split; [intros p []|].
      split; [intros p []|]. intros p Hp. now left.
    + destruct (sl_mem c sent) eqn:M.
      * destruct (IH _ _ _ _ H ND) as (A & B & C & D & E & F). unfold sl_filter_post.
        split; [exact A|]. split; [exact B|]. split; [exact C|]. split; [exact D|].
        split; [|exact F]. intros p Hp. destruct (E p Hp) as [E1 E2]. split; [exact E1|now right].
      * destruct (sl_filter (sent ++ [c]) cands k') as [ch0 s0] eqn:R. inversion H; subst; clear H.
        apply sl_mem_not_in in M.
        pose proof (NoDup_snoc _ _ ND M) as ND'.
        destruct (IH _ _ _ _ R ND') as (A & B & C & D & E & F).
        assert (Hc : In c s') by (apply C, in_or_app; right; now left).
        unfold sl_filter_post.
        split; [exact A|].
        split. { constructor; [|exact B]. intros X. destruct (E _ X) as [Y _]. apply Y, in_or_app. right. now left. }
        split. { intros p Hp. apply C, in_or_app. now left. }
        split. { intros p [<-|Hp]; [exact Hc|exact (D p Hp)]. }
        split.
        { intros p [<-|Hp]; [split; [exact M|now left]|].
          destruct (E _ Hp) as [Y Z]. split; [|now right]. intros W. apply Y, in_or_app. now left. }
        intros p Hp. destruct (F p Hp) as [Q|Q].
        -- apply in_app_or in Q. destruct Q as [Q|[<-|[]]]; [now left|right; now left].
        -- right. now right.
Qed.

(* with an unlimited budget every candidate that is not in `sent` is chosen *)
Lemma sl_filter_complete : forall cands sent k ch s',
  sl_filter sent cands k = (ch, s') -> (length cands <= k)%nat ->
  forall p, In p cands -> ~ In p sent -> In p ch.
Proof.
  induction cands as [|c cands IH]; intros sent k ch s' H Hk p Hp Hn; [destruct Hp|].
  cbn [sl_filter] in H. destruct k as [|k']; [cbn in Hk; lia|].
  destruct (sl_mem c sent) eqn:M.
  - apply sl_mem_in in M. destruct Hp as [<-|Hp]; [contradiction|].
    eapply IH; eauto. cbn in Hk. lia.
  - destruct (sl_filter (sent ++ [c]) cands k') as [ch0 s0] eqn:R. inversion H; subst; clear H.
    destruct (N.eq_dec c p) as [->|Hne]; [now left|]. right.
    destruct Hp as [->|Hp]; [contradiction|].
    eapply IH; eauto; [cbn in Hk; lia|].
    intros X. apply in_app_or in X. destruct X as [X|[X|[]]]; [contradiction|]. subst. contradiction.
Qed.

(* ------------------------------------------------------------------ *)
Definition sl_inv (s : sl_st) : Prop :=
  NoDup (sl_sent s) /\ NoDup (sl_inflight s) /\ incl (sl_inflight s) (sl_sent s).

(* p is not eligible: it has the bundle (previous node or acknowledged transmission) *)
Definition sl_blocked (p : N) (s : sl_st) : Prop :=
  sl_alive s = false \/ (In p (sl_sent s) /\ ~ In p (sl_inflight s)).

Definition sl_held_ev (e : sl_ev) : Prop := match e with SlNew _ | SlDrop => False | _ => True end.
Definition sl_held (h : list sl_ev) : Prop := Forall sl_held_ev h.

Lemma sl_inv_fresh : forall prev, sl_inv (sl_fresh prev).
Proof.
  intros [p|]; unfold sl_inv, sl_fresh; cbn.
  - split; [constructor; [intros []|constructor]|]. split; [constructor|intros q []].
  - split; [constructor|]. split; [constructor|intros q []].
Qed.

Lemma sl_inv_step : forall s e s' o, sl_step s e = Some (s', o) -> sl_inv s -> sl_inv s'.
Proof.
  intros s e s' o H (A & B & C). destruct e; cbn [sl_step] in H.
  - inversion H; subst. apply sl_inv_fresh.
  - destruct (sl_inflight s) eqn:I; [|discriminate]. destruct (sl_alive s).
    + destruct (sl_filter (sl_sent s) cands k) as [ch s0] eqn:R. inversion H; subst; clear H.
      destruct (sl_filter_spec _ _ _ _ _ R A) as (P1 & P2 & P3 & P4 & _). unfold sl_inv. cbn. auto.
    + inversion H; subst. unfold sl_inv. rewrite I. auto.
  - destruct (sl_mem p (sl_inflight s)); inversion H; subst; clear H. unfold sl_inv; cbn.
    split; [exact A|]. split; [apply sl_remove1_nodup, B|]. intros q Hq. apply C. eapply sl_remove1_in; eauto.
  - destruct (sl_mem p (sl_inflight s)); inversion H; subst; clear H. unfold sl_inv; cbn.
    split; [apply sl_remove1_nodup, A|]. split; [apply sl_remove1_nodup, B|].
    intros q Hq. destruct (N.eq_dec q p) as [->|Hne].
    + exfalso. apply (proj2 (sl_remove1_nodup p _ B)). exact Hq.
    + apply sl_remove1_other; [exact Hne|]. apply C. eapply sl_remove1_in; eauto.
  - destruct (sl_inflight s) eqn:I; inversion H; subst; clear H. unfold sl_inv; cbn.
    split; [exact A|]. split; [constructor|intros q []].
  - inversion H; subst. unfold sl_inv, sl_gone; cbn. repeat split; try constructor. intros q [].
Qed.

Lemma sl_inv_run : forall h s s', sl_run s h = Some s' -> sl_inv s -> sl_inv s'.
Proof.
  induction h as [|e h IH]; intros s s' H I; cbn [sl_run] in H.
  - inversion H; subst. exact I.
  - destruct (sl_step s e) as [[s1 o]|] eqn:S; [|discriminate]. eapply IH; eauto using sl_inv_step.
Qed.

Lemma sl_run_app : forall h1 h2 s s2,
  sl_run s (h1 ++ h2) = Some s2 <-> exists s1, sl_run s h1 = Some s1 /\ sl_run s1 h2 = Some s2.
Proof.
  induction h1 as [|e h1 IH]; intros h2 s s2; cbn [app sl_run].
  - split; [intros H; exists s; auto|intros (s1 & [= <-] & H); exact H].
  - destruct (sl_step s e) as [[sa o]|]; [apply IH|].
    split; [discriminate|intros (s1 & H & _); discriminate].
Qed.

Lemma sl_blocked_step : forall p s e s' o,
  sl_step s e = Some (s', o) -> sl_inv s -> sl_held_ev e -> sl_blocked p s -> sl_blocked p s'.
Proof.
  intros p s e s' o H (A & B & C) He Bl. destruct e; cbn [sl_step] in H; cbn in He; try contradiction.
  - destruct (sl_inflight s) eqn:I; [|discriminate]. destruct (sl_alive s) eqn:AL.
    + destruct (sl_filter (sl_sent s) cands k) as [ch s0] eqn:R. inversion H; subst; clear H.
      destruct (sl_filter_spec _ _ _ _ _ R A) as (_ & _ & P3 & _ & P5 & _).
      destruct Bl as [Bl|[Bl1 Bl2]]; [congruence|]. right. cbn. split; [apply P3, Bl1|].
      intros X. destruct (P5 _ X) as [Y _]. contradiction.
    + inversion H; subst. exact Bl.
  - destruct (sl_mem p0 (sl_inflight s)) eqn:M; inversion H; subst; clear H.
    destruct Bl as [Bl|[Bl1 Bl2]]; [now left|]. right. cbn. split; [exact Bl1|].
    intros X. apply Bl2. eapply sl_remove1_in; eauto.
  - destruct (sl_mem p0 (sl_inflight s)) eqn:M; inversion H; subst; clear H.
    destruct Bl as [Bl|[Bl1 Bl2]]; [now left|]. right. cbn. apply sl_mem_in in M.
    assert (p <> p0) by (intros ->; contradiction).
    split; [apply sl_remove1_other; assumption|]. intros X. apply Bl2. eapply sl_remove1_in; eauto.
  - destruct (sl_inflight s) eqn:I; inversion H; subst; clear H.
    destruct Bl as [Bl|[Bl1 Bl2]]; [left; cbn; now rewrite Bl|]. right. cbn. split; [exact Bl1|tauto].
Qed.

Lemma sl_blocked_run : forall p h s s',
  sl_run s h = Some s' -> sl_inv s -> sl_held h -> sl_blocked p s -> sl_blocked p s'.
Proof.
  induction h as [|e h IH]; intros s s' H I Hh Bl; cbn [sl_run] in H.
  - inversion H; subst. exact Bl.
  - destruct (sl_step s e) as [[s1 o]|] eqn:S; [|discriminate]. inversion Hh; subst.
    eapply IH; eauto using sl_inv_step, sl_blocked_step.
Qed.

Lemma sl_blocked_choose : forall p s cands k s' chosen,
  sl_step s (SlChoose cands k) = Some (s', chosen) -> sl_inv s -> sl_blocked p s -> ~ In p chosen.
Proof.
  intros p s cands k s' chosen H (A & _ & _) Bl. cbn [sl_step] in H.
  destruct (sl_inflight s); [|discriminate]. destruct (sl_alive s) eqn:AL.
  - destruct (sl_filter (sl_sent s) cands k) as [ch s0] eqn:R. inversion H; subst; clear H.
    destruct (sl_filter_spec _ _ _ _ _ R A) as (_ & _ & _ & _ & P5 & _).
    destruct Bl as [Bl|[Bl1 _]]; [congruence|]. intros X. destruct (P5 _ X). contradiction.
  - inversion H; subst. tauto.
Qed.

(* the state right after the event that starts the bundle's life at the node is well formed
   whatever came before *)
Lemma sl_after_new : forall s0 h1 prev h2 s,
  sl_run s0 (h1 ++ SlNew prev :: h2) = Some s ->
  sl_run (sl_fresh prev) h2 = Some s.
Proof.
  intros s0 h1 prev h2 s H. apply sl_run_app in H. destruct H as (s1 & _ & H). cbn [sl_run sl_step] in H. exact H.
Qed.

(* C13_no_return *)
Lemma sl_no_return : forall s0 h1 prev h2 s cands k s' chosen,
  sl_run s0 (h1 ++ SlNew (Some prev) :: h2) = Some s -> sl_held h2 ->
  sl_step s (SlChoose cands k) = Some (s', chosen) -> ~ In prev chosen.
Proof.
  intros s0 h1 prev h2 s cands k s' chosen R Hh C. apply sl_after_new in R.
  pose proof (sl_inv_fresh (Some prev)) as I0.
  eapply sl_blocked_choose; [exact C|eapply sl_inv_run; eauto|].
  eapply sl_blocked_run; eauto. right. cbn. tauto.
Qed.

(* C13_no_duplicate *)
Lemma sl_no_duplicate : forall s0 h0 prev h1 p h2 s cands k s' chosen,
  sl_run s0 (h0 ++ SlNew prev :: h1 ++ SlOk p :: h2) = Some s -> sl_held h2 ->
  sl_step s (SlChoose cands k) = Some (s', chosen) -> ~ In p chosen.
Proof.
  intros s0 h0 prev h1 p h2 s cands k s' chosen R Hh C. apply sl_after_new in R.
  apply sl_run_app in R. destruct R as (s1 & R1 & R2). cbn [sl_run] in R2.
  destruct (sl_step s1 (SlOk p)) as [[s2 o]|] eqn:S; [|discriminate].
  pose proof (sl_inv_run _ _ _ R1 (sl_inv_fresh prev)) as I1.
  pose proof (sl_inv_step _ _ _ _ S I1) as I2.
  eapply sl_blocked_choose; [exact C|eapply sl_inv_run; eauto|].
  eapply sl_blocked_run; eauto.
  cbn [sl_step] in S. destruct (sl_mem p (sl_inflight s1)) eqn:M; inversion S; subst; clear S.
  apply sl_mem_in in M. destruct I1 as (A & B & Cc). right. cbn. split; [apply Cc, M|].
  apply (proj2 (sl_remove1_nodup p _ B)).
Qed.

(* C13_memory_survives: a restart of an algorithm that keeps the list in the store changes
   nothing; for the others nothing is offered any more *)
Lemma sl_restart_keeps : forall s pers s' o,
  sl_step s (SlRestart pers) = Some (s', o) ->
  sl_sent s' = sl_sent s /\ (pers = true -> sl_alive s' = sl_alive s)
  /\ (pers = false -> forall cands k s'' chosen, sl_step s' (SlChoose cands k) = Some (s'', chosen) -> chosen = []).
Proof.
  intros s pers s' o H. cbn [sl_step] in H. destruct (sl_inflight s) eqn:I; inversion H; subst; clear H. cbn.
  split; [reflexivity|]. split; [intros ->; apply andb_true_r|].
  intros -> cands k s'' chosen C. cbn [sl_step] in C. cbn in C. rewrite andb_false_r in C. now inversion C.
Qed.

Definition sl_result_not (p : N) (e : sl_ev) : Prop :=
  match e with SlOk q | SlFail q => q <> p | _ => False end.

(* C13_failure_reopens *)
Lemma sl_failure_reopens : forall s0 h0 prev h1 p sb s,
  sl_run s0 (h0 ++ SlNew prev :: h1) = Some sb ->
  sl_step sb (SlFail p) = Some (s, []) ->
  ~ In p (sl_sent s)
  /\ (forall q, q <> p -> (In q (sl_sent s) <-> In q (sl_sent sb)))
  /\ (forall h2 s2 cands k s3 chosen,
        Forall (sl_result_not p) h2 -> sl_run s h2 = Some s2 -> sl_alive s2 = true ->
        sl_step s2 (SlChoose cands k) = Some (s3, chosen) -> (length cands <= k)%nat ->
        In p cands -> In p chosen).
Proof.
  intros s0 h0 prev h1 p sb s R F. apply sl_after_new in R.
  pose proof (sl_inv_run _ _ _ R (sl_inv_fresh prev)) as Ib.
  pose proof (sl_inv_step _ _ _ _ F Ib) as Is.
  cbn [sl_step] in F. destruct (sl_mem p (sl_inflight sb)) eqn:M; inversion F; subst; clear F. cbn [sl_sent].
  destruct Ib as (A & B & C).
  split; [apply (proj2 (sl_remove1_nodup p _ A))|].
  split. { intros q Hq. split; [apply sl_remove1_in|apply sl_remove1_other; exact Hq]. }
  intros h2. set (s := {| sl_sent := sl_remove1 p (sl_sent sb); sl_inflight := sl_remove1 p (sl_inflight sb); sl_alive := sl_alive sb |}) in *.
  assert (Hn : ~ In p (sl_sent s)) by (apply (proj2 (sl_remove1_nodup p _ A))).
  clearbody s. clear M A B C R. revert s Is Hn.
  induction h2 as [|e h2 IH]; intros s Is Hn s2 cands k s3 chosen Hr R2 AL Cc Hk Hp.
  - cbn in R2. inversion R2; subst; clear R2. cbn [sl_step] in Cc.
    destruct (sl_inflight s2); [|discriminate]. rewrite AL in Cc.
    destruct (sl_filter (sl_sent s2) cands k) as [ch s0'] eqn:Rf. inversion Cc; subst; clear Cc.
    eapply sl_filter_complete; eauto.
  - cbn [sl_run] in R2. destruct (sl_step s e) as [[s1 o]|] eqn:S; [|discriminate].
    inversion Hr as [|? ? He Hr']; subst.
    apply (IH s1) with (s2 := s2) (cands := cands) (k := k) (s3 := s3); eauto using sl_inv_step.
    destruct e; cbn in He; try contradiction; cbn [sl_step] in S.
    + destruct (sl_mem p0 (sl_inflight s)); inversion S; subst. exact Hn.
    + destruct (sl_mem p0 (sl_inflight s)); inversion S; subst. cbn. intros X. apply Hn. eapply sl_remove1_in; eauto.
Qed.
