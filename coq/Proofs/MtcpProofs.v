(* MtcpProofs.v - proofs about the MTCP model: CBOR byte-string head codec, stream alignment,
   keep-alive invisibility, cuts. *)
From DTN Require Import Base Mtcp.
From Coq Require Import ZifyN ZifyNat ZifyBool.
Open Scope N_scope.

(* ---------- big-endian integers ---------- *)
Lemma be_encode_length w : forall n, length (be_encode w n) = w.
Proof. induction w as [|w IH]; intros n; cbn [be_encode length]; [reflexivity|]. rewrite IH. reflexivity. Qed.

Lemma be_decode_encode_acc w : forall n acc,
  be_decode_acc acc (be_encode w n) = acc * 256 ^ N.of_nat w + n mod 256 ^ N.of_nat w.
Proof.
  induction w as [|w IH]; intros n acc.
  - cbn [be_encode be_decode_acc]. change (N.of_nat 0) with 0. rewrite N.pow_0_r, N.mod_1_r. lia.
  - cbn [be_encode be_decode_acc]. rewrite IH. rewrite Nat2N.inj_succ, N.pow_succ_r'.
    assert (Hp : 256 ^ N.of_nat w <> 0) by (apply N.pow_nonzero; lia).
    rewrite (N.mul_comm 256 (256 ^ N.of_nat w)).
    rewrite (N.mod_mul_r n (256 ^ N.of_nat w) 256) by (assumption || lia).
    ring.
Qed.

Lemma be_decode_encode w n : n < 256 ^ N.of_nat w -> be_decode (be_encode w n) = n.
Proof. intros H. unfold be_decode. rewrite be_decode_encode_acc. rewrite N.mod_small by exact H. lia. Qed.

Lemma take_exact_app {A} (l r : list A) : take_exact (length l) (l ++ r) = Some (l, r).
Proof.
  unfold take_exact. rewrite app_length.
  assert (E : Nat.leb (length l) (length l + length r) = true) by (apply Nat.leb_le; lia).
  rewrite E. rewrite firstn_app, Nat.sub_diag, firstn_all, skipn_app, Nat.sub_diag, skipn_all. cbn.
  rewrite app_nil_r. reflexivity.
Qed.

Lemma take_exact_short {A} n (l : list A) : (length l < n)%nat -> take_exact n l = None.
Proof. intros H. unfold take_exact. assert (E : Nat.leb n (length l) = false) by (apply Nat.leb_gt; exact H). rewrite E. reflexivity. Qed.

(* ---------- head: width / first byte ---------- *)
Definition mtcp_width (n : N) : nat :=
  if n <? 24 then 0 else if n <? 256 then 1 else if n <? 65536 then 2 else if n <? 4294967296 then 4 else 8.
Definition mtcp_first (n : N) : N :=
  if n <? 24 then 64 + n else if n <? 256 then 88 else if n <? 65536 then 89 else if n <? 4294967296 then 90 else 91.

Lemma mtcp_head_eq n : mtcp_head n = mtcp_first n :: be_encode (mtcp_width n) n.
Proof.
  unfold mtcp_head, mtcp_first, mtcp_width, mtcp_major_bstr.
  destruct (n <? 24); [reflexivity|]. destruct (n <? 256); [reflexivity|].
  destruct (n <? 65536); [reflexivity|]. destruct (n <? 4294967296); reflexivity.
Qed.

Lemma mtcp_head_length n : length (mtcp_head n) = S (mtcp_width n).
Proof. rewrite mtcp_head_eq. cbn [length]. rewrite be_encode_length. reflexivity. Qed.

Lemma mtcp_head_length_bounds n : (1 <= length (mtcp_head n) <= 9)%nat.
Proof.
  rewrite mtcp_head_length. unfold mtcp_width.
  destruct (n <? 24); [lia|]. destruct (n <? 256); [lia|]. destruct (n <? 65536); [lia|].
  destruct (n <? 4294967296); lia.
Qed.

(* reading a first byte 64+n, n < 24 *)
Definition small_check (n : N) : bool :=
  let b := 64 + n in
  negb ((b =? 159) || (b =? 255)) && (N.land b 31 =? n) && (N.land b 224 =? 64).
Lemma small_sweep : forallb small_check (map N.of_nat (seq 0 24)) = true.
Proof. vm_compute. reflexivity. Qed.

Lemma read_head_small n r : n < 24 -> mtcp_read_head ((64 + n) :: r) = Some (n, r).
Proof.
  intros Hn. assert (H : small_check n = true).
  { pose proof small_sweep as S. rewrite forallb_forall in S. apply S. apply in_map_iff.
    exists (N.to_nat n). split; [lia|]. apply in_seq. lia. }
  unfold small_check in H. apply andb_prop in H. destruct H as [H H3]. apply andb_prop in H. destruct H as [H1 H2].
  apply negb_true_iff in H1. apply N.eqb_eq in H2, H3.
  unfold mtcp_read_head. rewrite H1, H2, H3. unfold mtcp_major_bstr.
  assert (E : (n <=? 23) = true) by (apply N.leb_le; lia). rewrite E. reflexivity.
Qed.

Definition wide_ok (b0 : N) (w : nat) : Prop :=
  b0 = 88 /\ w = 1%nat \/ b0 = 89 /\ w = 2%nat \/ b0 = 90 /\ w = 4%nat \/ b0 = 91 /\ w = 8%nat.

Lemma read_head_wide b0 w bs r :
  wide_ok b0 w ->
  length bs = w ->
  mtcp_read_head (b0 :: bs ++ r) = Some (be_decode bs, r).
Proof.
  intros H Hl.
  destruct H as [[-> ->]|[[-> ->]|[[-> ->]|[-> ->]]]]; unfold mtcp_read_head;
    cbn -[take_exact be_decode];
    match goal with |- context [take_exact ?n _] => let v := eval vm_compute in n in change n with v end;
    rewrite <- Hl, take_exact_app; reflexivity.
Qed.

Lemma read_head_wide_short b0 w bs :
  wide_ok b0 w ->
  (length bs < w)%nat ->
  mtcp_read_head (b0 :: bs) = None.
Proof.
  intros H Hl.
  destruct H as [[-> ->]|[[-> ->]|[[-> ->]|[-> ->]]]]; unfold mtcp_read_head;
    cbn -[take_exact be_decode];
    match goal with |- context [take_exact ?n _] => let v := eval vm_compute in n in change n with v end;
    rewrite take_exact_short by exact Hl; reflexivity.
Qed.

Lemma mtcp_first_width n : 24 <= n ->
  wide_ok (mtcp_first n) (mtcp_width n).
Proof.
  intros H. unfold wide_ok, mtcp_first, mtcp_width.
  assert (E : (n <? 24) = false) by (apply N.ltb_ge; exact H). rewrite E.
  destruct (n <? 256); [auto|]. destruct (n <? 65536); [auto|]. destruct (n <? 4294967296); auto 6.
Qed.

Lemma mtcp_width_fits n : n < 2 ^ 64 -> 24 <= n -> n < 256 ^ N.of_nat (mtcp_width n).
Proof.
  intros H64 H. unfold mtcp_width.
  assert (E : (n <? 24) = false) by (apply N.ltb_ge; exact H). rewrite E.
  destruct (n <? 256) eqn:E1; [apply N.ltb_lt in E1; exact E1|].
  destruct (n <? 65536) eqn:E2; [apply N.ltb_lt in E2; exact E2|].
  destruct (n <? 4294967296) eqn:E3; [apply N.ltb_lt in E3; exact E3|]. exact H64.
Qed.

(* the head codec is exact and self-delimiting: whatever follows is left untouched *)
Theorem mtcp_head_roundtrip n r : n < 2 ^ 64 -> mtcp_read_head (mtcp_head n ++ r) = Some (n, r).
Proof.
  intros H64. rewrite mtcp_head_eq. cbn [app].
  destruct (N.ltb_spec n 24) as [Hs|Hs].
  - unfold mtcp_first, mtcp_width. assert (E : (n <? 24) = true) by (apply N.ltb_lt; exact Hs). rewrite E.
    cbn [be_encode app]. apply read_head_small. exact Hs.
  - rewrite (read_head_wide _ (mtcp_width n)).
    + rewrite be_decode_encode by (apply mtcp_width_fits; assumption). reflexivity.
    + apply mtcp_first_width. exact Hs.
    + apply be_encode_length.
Qed.

(* a cut inside the head makes the read fail *)
Lemma mtcp_head_cut n p q : mtcp_head n = p ++ q -> q <> [] -> mtcp_read_head p = None.
Proof.
  intros E Hq. rewrite mtcp_head_eq in E.
  destruct p as [|b0 bs]; [reflexivity|]. cbn [app] in E. injection E as E1 E2. subst b0.
  assert (Hl : (length bs < mtcp_width n)%nat).
  { apply (f_equal (@length N)) in E2. rewrite be_encode_length, app_length in E2.
    destruct q; [congruence|]. cbn [length] in E2. lia. }
  destruct (N.ltb_spec n 24) as [Hs|Hs].
  - unfold mtcp_width in Hl. assert (E : (n <? 24) = true) by (apply N.ltb_lt; exact Hs). rewrite E in Hl. lia.
  - apply (read_head_wide_short _ (mtcp_width n)); [apply mtcp_first_width; exact Hs|exact Hl].
Qed.

(* ---------- stream theorem, generic in the bundle codec ---------- *)
Section Codec.
Context {B : Type}.
Variable enc : B -> list N.
Variable parse : N -> list N -> option (B * list N).
(* the bundle codec is prefix-free on what it produces (C01), never produces the empty string *)
Hypothesis Hparse : forall x r, parse (nlen (enc x)) (enc x ++ r) = Some (x, r).
Hypothesis Hne : forall x, enc x <> [].
Hypothesis Hlen : forall x, nlen (enc x) < 2 ^ 64.

(* Some x = Send of bundle x, None = keep-alive *)
Definition cev (o : option B) : mtcp_ev := match o with Some x => MSend (enc x) | None => MKeepalive end.
Definition handed_up (l : list (option B)) : list B :=
  flat_map (fun o => match o with Some x => [x] | None => [] end) l.

Lemma read_probe r : mtcp_read_head (mtcp_probe ++ r) = Some (0, r).
Proof. apply (read_head_small 0 r). lia. Qed.

Lemma server_loop_stream : forall l fuel,
  (length (mtcp_client_stream (map cev l)) < fuel)%nat ->
  mtcp_server_loop parse fuel (mtcp_client_stream (map cev l)) = handed_up l.
Proof.
  induction l as [|o l IH]; intros fuel Hf.
  - destruct fuel; [cbn in Hf; lia|]. reflexivity.
  - unfold mtcp_client_stream in *. cbn [map concat] in *. rewrite app_length in Hf.
    destruct o as [x|]; cbn [cev mtcp_ev_bytes] in *.
    + unfold mtcp_frame in *. rewrite !app_length in Hf. cbn [length mtcp_probe] in Hf.
      pose proof (mtcp_head_length_bounds (nlen (enc x))) as Hh.
      destruct fuel as [|fuel]; [lia|]. cbn [mtcp_server_loop].
      rewrite <- !app_assoc. rewrite mtcp_head_roundtrip by apply Hlen.
      assert (E0 : (nlen (enc x) =? 0) = false).
      { apply N.eqb_neq. unfold nlen. specialize (Hne x). destruct (enc x); [congruence|]. cbn [length]. lia. }
      rewrite E0, Hparse.
      destruct fuel as [|fuel]; [lia|]. cbn [mtcp_server_loop].
      rewrite read_probe. cbn [N.eqb]. cbn [handed_up flat_map app]. f_equal.
      apply IH. lia.
    + destruct fuel as [|fuel]; [lia|]. cbn [mtcp_server_loop]. rewrite read_probe. cbn [N.eqb].
      cbn [handed_up flat_map app]. apply IH. cbn [mtcp_probe length] in Hf. lia.
Qed.

Theorem mtcp_stream_codec l : mtcp_server parse (mtcp_client_stream (map cev l)) = handed_up l.
Proof. unfold mtcp_server. apply server_loop_stream. lia. Qed.
End Codec.

(* ---------- opaque bundles ---------- *)
Definition ev_ok (e : mtcp_ev) : Prop :=
  match e with MSend b => b <> [] /\ nlen b < 2 ^ 64 | MKeepalive => True end.

Lemma parse_opaque_ok b r : mtcp_parse_opaque (nlen b) (b ++ r) = Some (b, r).
Proof. unfold mtcp_parse_opaque, nlen. rewrite Nat2N.id. apply take_exact_app. Qed.

Lemma read_probe' r : mtcp_read_head (mtcp_probe ++ r) = Some (0, r).
Proof. apply (read_head_small 0 r). lia. Qed.

Lemma read_probe_cons r : mtcp_read_head (mtcp_major_bstr :: r) = Some (0, r).
Proof. apply (read_head_small 0 r). lia. Qed.

Lemma server_loop_opaque : forall evs fuel, Forall ev_ok evs ->
  (length (mtcp_client_stream evs) < fuel)%nat ->
  mtcp_server_loop mtcp_parse_opaque fuel (mtcp_client_stream evs) = mtcp_sent evs.
Proof.
  induction evs as [|e evs IH]; intros fuel Hok Hf.
  - destruct fuel; [cbn in Hf; lia|]. reflexivity.
  - inversion Hok as [|e' l' Hok1 Hok2]; subst e' l'.
    unfold mtcp_client_stream in *. cbn [map concat] in *. rewrite app_length in Hf.
    destruct e as [b|]; cbn [mtcp_ev_bytes mtcp_sent] in *.
    + destruct Hok1 as [Hne Hlen].
      unfold mtcp_frame in *. rewrite !app_length in Hf. cbn [length mtcp_probe] in Hf.
      pose proof (mtcp_head_length_bounds (nlen b)) as Hh.
      destruct fuel as [|fuel]; [lia|]. cbn [mtcp_server_loop].
      rewrite <- !app_assoc. rewrite mtcp_head_roundtrip by exact Hlen.
      assert (E0 : (nlen b =? 0) = false).
      { apply N.eqb_neq. unfold nlen. destruct b; [congruence|]. cbn [length]. lia. }
      rewrite E0, parse_opaque_ok.
      destruct fuel as [|fuel]; [lia|]. cbn [mtcp_server_loop].
      rewrite read_probe'. cbn [N.eqb]. f_equal. apply IH; [exact Hok2|lia].
    + destruct fuel as [|fuel]; [lia|]. cbn [mtcp_server_loop]. rewrite read_probe'. cbn [N.eqb].
      apply IH; [exact Hok2|]. cbn [mtcp_probe length] in Hf. lia.
Qed.

(* C12_mtcp_stream *)
Theorem mtcp_stream evs : Forall ev_ok evs ->
  mtcp_server_opaque (mtcp_client_stream evs) = mtcp_sent evs.
Proof. intros H. unfold mtcp_server_opaque, mtcp_server. apply server_loop_opaque; [exact H|lia]. Qed.

(* ---------- cut at an arbitrary byte: the server hands up a prefix of what was sent ---------- *)
Lemma app_split_cases {A} (a b p q : list A) : a ++ b = p ++ q ->
  (exists m, a = p ++ m /\ q = m ++ b /\ m <> []) \/ (exists m, p = a ++ m /\ b = m ++ q).
Proof.
  revert p. induction a as [|x a IH]; intros p E.
  - right. exists p. split; [reflexivity|exact E].
  - destruct p as [|y p].
    + left. exists (x :: a). cbn in E. subst q. repeat split. discriminate.
    + cbn in E. injection E as E1 E2. subst y. destruct (IH p E2) as [(m & H1 & H2 & H3)|(m & H1 & H2)].
      * left. exists m. subst a. auto.
      * right. exists m. subst p. auto.
Qed.

Lemma server_loop_cut : forall evs fuel p q, Forall ev_ok evs ->
  mtcp_client_stream evs = p ++ q -> (length p < fuel)%nat ->
  exists k, mtcp_server_loop mtcp_parse_opaque fuel p = firstn k (mtcp_sent evs).
Proof.
  induction evs as [|e evs IH]; intros fuel p q Hok E Hf.
  - cbn in E. symmetry in E. apply app_eq_nil in E. destruct E as [-> _].
    exists O. destruct fuel; reflexivity.
  - inversion Hok as [|e' l' Hok1 Hok2]; subst e' l'.
    unfold mtcp_client_stream in E. cbn [map concat] in E. fold (mtcp_client_stream evs) in E.
    destruct fuel as [|fuel]; [lia|].
    destruct e as [b|]; cbn [mtcp_ev_bytes mtcp_sent] in *.
    + destruct Hok1 as [Hne Hlen]. unfold mtcp_frame in E. rewrite <- !app_assoc in E.
      destruct (app_split_cases _ _ _ _ E) as [(m & H1 & H2 & H3)|(m & H1 & H2)].
      * (* cut inside the head *)
        exists O. cbn [mtcp_server_loop firstn]. rewrite (mtcp_head_cut _ _ _ H1 H3). reflexivity.
      * subst p.
        destruct (app_split_cases _ _ _ _ H2) as [(m' & H1' & H2' & H3')|(m' & H1' & H2')].
        -- (* cut inside the bundle *)
           exists O. cbn [mtcp_server_loop firstn].
           rewrite mtcp_head_roundtrip by exact Hlen.
           assert (E0 : (nlen b =? 0) = false).
           { apply N.eqb_neq. unfold nlen. destruct b; [congruence|]. cbn [length]. lia. }
           rewrite E0. unfold mtcp_parse_opaque. rewrite take_exact_short; [reflexivity|].
           unfold nlen. rewrite Nat2N.id. subst b. rewrite app_length. destruct m'; [congruence|]. cbn [length]. lia.
        -- subst m. cbn [mtcp_server_loop]. rewrite <- ?app_assoc. rewrite mtcp_head_roundtrip by exact Hlen.
           assert (E0 : (nlen b =? 0) = false).
           { apply N.eqb_neq. unfold nlen. destruct b; [congruence|]. cbn [length]. lia. }
           rewrite E0, parse_opaque_ok.
           rewrite !app_length in Hf. pose proof (mtcp_head_length_bounds (nlen b)) as Hh.
           destruct m' as [|c m'].
           ++ exists 1%nat. destruct fuel; reflexivity.
           ++ cbn [mtcp_probe app] in H2'. injection H2' as Hc H2'. subst c.
              destruct fuel as [|fuel]; [cbn [length] in Hf; lia|]. cbn [mtcp_server_loop].
              rewrite read_probe_cons. cbn [N.eqb].
              destruct (IH fuel m' q Hok2 H2') as [k Hk]; [cbn [length] in Hf; lia|].
              exists (S k). cbn [firstn]. rewrite Hk. reflexivity.
    + cbn [mtcp_probe app] in E. destruct p as [|c p].
      * exists O. reflexivity.
      * cbn [app] in E. injection E as Hc E. subst c. cbn [mtcp_server_loop].
        rewrite read_probe_cons. cbn [N.eqb]. cbn [length] in Hf.
        destruct (IH fuel p q Hok2 E) as [k Hk]; [lia|]. exists k. exact Hk.
Qed.

(* C12_mtcp_cut *)
Theorem mtcp_cut evs p q : Forall ev_ok evs -> mtcp_client_stream evs = p ++ q ->
  exists k, mtcp_server_opaque p = firstn k (mtcp_sent evs).
Proof. intros H E. unfold mtcp_server_opaque, mtcp_server. apply (server_loop_cut evs _ p q H E). lia. Qed.

(* ---------- Send with failing writes ---------- *)
Lemma send_chunks_concat b : concat (mtcp_send_chunks b) = mtcp_frame b.
Proof.
  unfold mtcp_send_chunks, mtcp_frame.
  destruct (Nat.leb (length b) (mtcp_bufsize - length (mtcp_head (nlen b)))).
  - cbn [concat]. rewrite app_nil_r, <- app_assoc. reflexivity.
  - cbn [concat]. rewrite app_nil_r, <- !app_assoc. rewrite (app_assoc (firstn _ b)), firstn_skipn. reflexivity.
Qed.

Lemma write_chunks_none : forall cs, mtcp_write_chunks cs None = (cs, false).
Proof. induction cs as [|c cs IH]; cbn [mtcp_write_chunks]; [reflexivity|]. rewrite IH. reflexivity. Qed.

Lemma write_chunks_cut : forall cs k m, (k < length cs)%nat ->
  snd (mtcp_write_chunks cs (Some (k, m))) = true
  /\ exists q, concat cs = concat (fst (mtcp_write_chunks cs (Some (k, m)))) ++ q.
Proof.
  induction cs as [|c cs IH]; intros k m Hk; [cbn in Hk; lia|].
  destruct k as [|k]; cbn [mtcp_write_chunks].
  - split; [reflexivity|]. cbn [fst]. destruct (Nat.eqb m 0).
    + exists (concat (c :: cs)). reflexivity.
    + exists (skipn m c ++ concat cs). cbn [concat]. rewrite app_nil_r, app_assoc, firstn_skipn. reflexivity.
  - cbn [length] in Hk. destruct (IH k m) as [H1 [q H2]]; [lia|].
    destruct (mtcp_write_chunks cs (Some (k, m))) as [w f]. cbn [fst snd] in *. split; [exact H1|].
    exists q. cbn [concat]. rewrite H2, app_assoc. reflexivity.
Qed.

Lemma write_chunks_late : forall cs k m, (length cs <= k)%nat ->
  mtcp_write_chunks cs (Some (k, m)) = (cs, false).
Proof.
  induction cs as [|c cs IH]; intros k m Hk; [reflexivity|].
  destruct k as [|k]; [cbn in Hk; lia|]. cbn [mtcp_write_chunks]. rewrite IH by (cbn in Hk; lia). reflexivity.
Qed.

(* C12_mtcp_error *)
Theorem mtcp_send_error broken b cut :
  let r := mtcp_send broken b cut in
  (* an error is returned exactly when a write failed, and exactly then the peer is reported gone *)
  (sr_error r = true <->
     broken = true \/ exists k m, cut = Some (k, m) /\ (k < length (mtcp_send_chunks b))%nat)
  /\ sr_disappeared r = sr_error r
  /\ sr_broken r = (broken || sr_error r)
  (* success: the whole frame went out *)
  /\ (sr_error r = false -> concat (sr_written r) = mtcp_frame b)
  (* in every case what went out is a prefix of the frame *)
  /\ exists q, mtcp_frame b = concat (sr_written r) ++ q.
Proof.
  cbv zeta. unfold mtcp_send. destruct broken.
  - cbn. repeat split; auto; try discriminate. exists (mtcp_frame b). reflexivity.
  - destruct cut as [[k m]|].
    + destruct (Nat.ltb_spec k (length (mtcp_send_chunks b))) as [Hk|Hk].
      * destruct (write_chunks_cut _ k m Hk) as [H1 [q H2]].
        destruct (mtcp_write_chunks (mtcp_send_chunks b) (Some (k, m))) as [w f]. cbn [fst snd] in *. subst f.
        cbn. repeat split; auto; try discriminate.
        -- intros _. right. exists k, m. split; [reflexivity|exact Hk].
        -- exists q. rewrite <- send_chunks_concat. exact H2.
      * rewrite write_chunks_late by exact Hk. cbn. repeat split; auto; try discriminate.
        -- intros [H|(k' & m' & H1 & H2)]; [discriminate|]. injection H1 as -> ->. lia.
        -- intros _. apply send_chunks_concat.
        -- exists []. rewrite app_nil_r. symmetry. apply send_chunks_concat.
    + rewrite write_chunks_none. cbn. repeat split; auto; try discriminate.
      * intros [H|(k' & m' & H1 & H2)]; discriminate.
      * intros _. apply send_chunks_concat.
      * exists []. rewrite app_nil_r. symmetry. apply send_chunks_concat.
Qed.
