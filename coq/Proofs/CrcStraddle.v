(* CrcStraddle.v - C03, the sub-case left open by CrcBlock.v: bursts that STRADDLE the covered
   bytes d and the CRC value v of a block w = d ++ v.

   Result (crc_straddle_rejected): two equal-length blocks that both satisfy the CRC equation
   (crc_holds, CRC-16/X-25 or CRC-32C) cannot differ by a non-zero burst of at most 8*len bits
   ANYWHERE in the block - inside d, inside v, or across the d/v boundary - in bytes_bits order
   (LSB first within every byte, bytes in stream order), provided the byte just before the value
   (the CBOR byte-string head of the CRC field) is the same in both.

   The head-byte premise is necessary: without it there are undetected straddling bursts of <= 8*len
   bits (e.g. for CRC-32C already "flip bit 7 of the last covered byte" has a CRC difference whose
   big-endian bytes, read LSB first, end 31 bit positions later).

   Method.  Both blocks satisfy the equation, so by linearity of the register the xor-difference of
   the two transmitted values is vb (delta), delta = run 0 (xd ++ 0^W), xd = the difference of the
   covered bytes, vb n = bytes_bits (be_encode len n).  If the value is unchanged, delta = 0 and the
   burst theorem applies.  Otherwise the burst starts in the last k <= W-9 bits before the (unchanged)
   head byte; delta depends only on that k-bit tail pattern x1 (zeros before it keep the register 0),
   and GF(2)-linearly.  With c_i := sw (delta of the pattern with only the bit i places before the
   head byte set), sw n = word (vb n), the value difference of a pattern is the xor of its c_i.  A
   binary recursion (sweep) enumerates all 2^(k-1) patterns of every length k that start with a set
   bit and checks that the resulting value difference reaches bit position >= W-8-k of the value
   field, i.e. that first-changed-bit .. last-changed-bit spans more than W bits.  2^(W-9) leaves in
   total (2^23 for CRC-32C: ~10 s of vm_compute). *)
From DTN Require Import Base Cbor CborProofs Crc CrcProofs Bundle CrcBlock.
From Coq Require Import ZifyN ZifyNat ZifyBool.
Open Scope N_scope.

(* ---------- lists of bits ---------- *)
Lemma nth_rf n p : nth p (repeat false n) false = false.
Proof. revert p; induction n; intros [|p]; cbn; auto. Qed.

Lemma burst_pos pre e post p :
  nth p (repeat false pre ++ e ++ repeat false post) false = true -> (pre <= p < pre + length e)%nat.
Proof.
  intros H. destruct (Nat.lt_ge_cases p pre) as [Hlt|Hge].
  - rewrite app_nth1 in H by (rewrite repeat_length; lia). rewrite nth_rf in H. discriminate.
  - rewrite app_nth2 in H by (rewrite repeat_length; lia). rewrite repeat_length in H.
    destruct (Nat.lt_ge_cases (p - pre) (length e)) as [Hl|Hg]; [lia|].
    rewrite app_nth2 in H by lia. rewrite nth_rf in H. discriminate.
Qed.

Lemma all_false_dec (l : list bool) :
  l = repeat false (length l) \/ exists p, (p < length l)%nat /\ nth p l false = true.
Proof.
  induction l as [|b l IH]; [left; reflexivity|]. destruct b.
  - right. exists 0%nat. cbn. split; [lia|reflexivity].
  - destruct IH as [IH|(p & Hp & Hn)].
    + left. cbn. f_equal. exact IH.
    + right. exists (S p). cbn. split; [lia|exact Hn].
Qed.

Lemma word_repeat_false n : word (repeat false n) = 0.
Proof. induction n; cbn [repeat word N.b2n]; [reflexivity|]. rewrite IHn. reflexivity. Qed.

Lemma pow2_pos' k : 0 < 2 ^ k.
Proof. apply N.neq_0_lt_0, N.pow_nonzero. discriminate. Qed.

Lemma word_ge_pos l : forall T, 2 ^ N.of_nat T <= word l -> exists j, (T <= j)%nat /\ nth j l false = true.
Proof.
  induction l as [|b l IH]; intros T H.
  - exfalso. cbn [word] in H. pose proof (pow2_pos' (N.of_nat T)). lia.
  - destruct T as [|T].
    + destruct (all_false_dec (b :: l)) as [E|(p & _ & Hp)].
      * exfalso. rewrite E, word_repeat_false in H. cbn in H. lia.
      * exists p. split; [lia|exact Hp].
    + rewrite Nat2N.inj_succ, N.pow_succ_r' in H. cbn [word] in H.
      assert (Hb : N.b2n b <= 1) by (destruct b; cbn; lia).
      destruct (IH T) as (j & Hj & Hn); [lia|]. exists (S j). split; [lia|exact Hn].
Qed.

Lemma lxor_cons_bit x y m n :
  N.lxor (N.b2n x + 2 * m) (N.b2n y + 2 * n) = N.b2n (xorb x y) + 2 * N.lxor m n.
Proof.
  rewrite !(N.add_comm (N.b2n _)). apply N.bits_inj. intros i.
  destruct (N.zero_or_succ i) as [->|[j ->]].
  - rewrite N.lxor_spec, !N.testbit_0_r. reflexivity.
  - rewrite N.lxor_spec, !N.testbit_succ_r, N.lxor_spec. reflexivity.
Qed.

Lemma word_xorbits a : forall b, length a = length b -> word (xorbits a b) = N.lxor (word a) (word b).
Proof.
  induction a as [|x a IH]; intros [|y b] Hl; try discriminate; cbn [xorbits word]; [reflexivity|].
  rewrite IH by (cbn in Hl; lia). symmetry. apply lxor_cons_bit.
Qed.

Lemma xorbits_false_l l : xorbits (repeat false (length l)) l = l.
Proof. induction l as [|x l IH]; cbn; [reflexivity|]. rewrite IH. destruct x; reflexivity. Qed.

Lemma firstn_le_app {A} k (a b : list A) : (k <= length a)%nat -> firstn k (a ++ b) = firstn k a.
Proof.
  intros H. rewrite firstn_app. replace (k - length a)%nat with 0%nat by lia. cbn. apply app_nil_r.
Qed.

Lemma firstn_repeat_app k (r : list bool) : firstn k (repeat false k ++ r) = repeat false k.
Proof. induction k; cbn; [reflexivity|]. rewrite IHk. reflexivity. Qed.

(* ---------- the value field as bits: vb len n = bits of the big-endian bytes of n ---------- *)
Definition vb (len : nat) (n : N) : list bool := bytes_bits (be_encode len n).
Definition sw (len : nat) (n : N) : N := word (vb len n).

Lemma vb_length len n : length (vb len n) = (8 * len)%nat.
Proof. unfold vb. rewrite bytes_bits_length, be_encode_length. reflexivity. Qed.

Lemma byte_bits_lxor k : forall a b, xorbits (byte_bits k a) (byte_bits k b) = byte_bits k (N.lxor a b).
Proof.
  induction k as [|k IH]; intros a b; cbn [byte_bits xorbits]; [reflexivity|].
  rewrite odd_lxor, N.shiftr_lxor, IH. reflexivity.
Qed.

Lemma pow256 k : 256 ^ N.of_nat k = 2 ^ (8 * N.of_nat k).
Proof. change 256 with (2 ^ 8). rewrite <- N.pow_mul_r. reflexivity. Qed.

Lemma be_byte_lxor a b k :
  (N.lxor a b / 256 ^ N.of_nat k) mod 256
  = N.lxor ((a / 256 ^ N.of_nat k) mod 256) ((b / 256 ^ N.of_nat k) mod 256).
Proof.
  rewrite pow256, <- !N.shiftr_div_pow2. change 256 with (2 ^ 8). rewrite <- !N.land_ones.
  rewrite N.shiftr_lxor. apply N.bits_inj. intros i.
  rewrite !N.lxor_spec, !N.land_spec, N.lxor_spec.
  destruct (N.testbit (N.ones 8) i); rewrite ?andb_true_r, ?andb_false_r; reflexivity.
Qed.

Lemma vb_lxor len : forall a b, xorbits (vb len a) (vb len b) = vb len (N.lxor a b).
Proof.
  unfold vb. induction len as [|len IH]; intros a b; cbn [be_encode bytes_bits xorbits]; [reflexivity|].
  rewrite xorbits_app by (rewrite !byte_bits_length; reflexivity).
  rewrite byte_bits_lxor, IH, be_byte_lxor. reflexivity.
Qed.

Lemma be_encode_0 len : be_encode len 0 = repeat 0 len.
Proof.
  induction len as [|len IH]; cbn [be_encode repeat]; [reflexivity|]. rewrite IH. reflexivity.
Qed.

Lemma bytes_bits_zeros k : bytes_bits (repeat 0 k) = repeat false (8 * k).
Proof.
  induction k as [|k IH]; [reflexivity|]. cbn [repeat bytes_bits]. rewrite IH.
  change (byte_bits 8 0) with (repeat false 8). rewrite repeat_app. f_equal. lia.
Qed.

Lemma vb_0 len : vb len 0 = repeat false (8 * len).
Proof. unfold vb. rewrite be_encode_0. apply bytes_bits_zeros. Qed.

Lemma sw_0 len : sw len 0 = 0.
Proof. unfold sw. rewrite vb_0. apply word_repeat_false. Qed.

Lemma sw_lxor len a b : sw len (N.lxor a b) = N.lxor (sw len a) (sw len b).
Proof. unfold sw. rewrite <- vb_lxor. apply word_xorbits. rewrite !vb_length. reflexivity. Qed.

(* the field determines the value *)
Lemma word_byte_bits k : forall b, word (byte_bits k b) = b mod 2 ^ N.of_nat k.
Proof.
  induction k as [|k IH]; intros b.
  - cbn. symmetry. apply N.mod_1_r.
  - cbn [byte_bits word]. rewrite IH, Nat2N.inj_succ, N.pow_succ_r'.
    rewrite N.mod_mul_r by (try apply N.pow_nonzero; discriminate).
    rewrite <- N.bit0_mod, N.bit0_odd, N.shiftr_div_pow2. reflexivity.
Qed.

Lemma be_bits_zero_inv k : forall n,
  bytes_bits (be_encode k n) = repeat false (8 * k) -> be_encode k n = repeat 0 k.
Proof.
  induction k as [|k IH]; intros n Hz; cbn [be_encode repeat]; [reflexivity|].
  cbn [be_encode bytes_bits] in Hz.
  replace (8 * S k)%nat with (8 + 8 * k)%nat in Hz by lia. rewrite <- repeat_app in Hz.
  apply app_inv_tail_length in Hz; [|rewrite bytes_bits_length, be_encode_length, repeat_length; reflexivity].
  destruct Hz as [Hb Hr]. rewrite (IH n Hr). f_equal.
  apply (f_equal word) in Hb. rewrite word_byte_bits, word_repeat_false in Hb.
  change (2 ^ N.of_nat 8) with 256 in Hb. rewrite N.mod_mod in Hb by discriminate. exact Hb.
Qed.

Lemma vb_zero_inv len n : n < 256 ^ N.of_nat len -> vb len n = repeat false (8 * len) -> n = 0.
Proof.
  intros Hn Hz. apply (be_encode_inj len); [exact Hn|apply N.neq_0_lt_0, N.pow_nonzero; discriminate|].
  rewrite be_encode_0. apply be_bits_zero_inv. exact Hz.
Qed.

(* ---------- the register ---------- *)
Definition crc_params (len : nat) (P : N) : Prop :=
  1 <= N.of_nat (8 * len) /\ N.testbit P (N.of_nat (8 * len) - 1) = true /\ P < 2 ^ N.of_nat (8 * len).

Lemma run_split len P (Hp : crc_params len P) s l :
  crc_run P s l = N.lxor (crc_run P s (repeat false (length l))) (crc_run P 0 l).
Proof.
  destruct Hp as (H1 & H2 & H3).
  rewrite <- (run_lxor _ P H1 H2 H3 (repeat false (length l)) l s 0) by (rewrite repeat_length; reflexivity).
  rewrite N.lxor_0_r, xorbits_false_l. reflexivity.
Qed.

(* CRC difference caused by a pattern x placed right before the unchanged head byte *)
Definition dlt (len : nat) (P : N) (x : list bool) : N := crc_run P 0 (x ++ repeat false (8 + 8 * len)).
Definition cc (len : nat) (P : N) (m : nat) : N := crc_run P 0 (true :: repeat false (m + (8 + 8 * len))).

Lemma dlt_nil len P : dlt len P [] = 0.
Proof. unfold dlt. cbn [app]. apply run_zeros_0. Qed.

Lemma dlt_cons len P (Hp : crc_params len P) b r :
  dlt len P (b :: r) = N.lxor (if b then cc len P (length r) else 0) (dlt len P r).
Proof.
  unfold dlt, cc. cbn [app crc_run]. destruct b.
  - rewrite (run_split len P Hp (crc_stepb P 0 true)). rewrite app_length, repeat_length. reflexivity.
  - change (crc_stepb P 0 false) with 0. rewrite N.lxor_0_l. reflexivity.
Qed.

(* ---------- the sweep ---------- *)
Fixpoint cs' (len : nat) (P : N) (m : nat) : list N :=
  match m with O => [] | S m' => sw len (cc len P m') :: cs' len P m' end.

Fixpoint sweep (cs : list N) (acc lim : N) : bool :=
  match cs with
  | [] => lim <=? acc
  | c :: cs0 => sweep cs0 acc lim && sweep cs0 (N.lxor acc c) lim
  end.

(* patterns of length k = S m' that start with a set bit, for every k <= m *)
Fixpoint allk (len : nat) (P : N) (m : nat) : bool :=
  match m with
  | O => true
  | S m' => allk len P m'
            && sweep (cs' len P m') (sw len (cc len P m')) (2 ^ N.of_nat (8 * len - 8 - S m'))
  end.

Lemma sweep_ok len P (Hp : crc_params len P) lim r : forall acc,
  sweep (cs' len P (length r)) acc lim = true -> lim <= N.lxor acc (sw len (dlt len P r)).
Proof.
  induction r as [|b r IH]; intros acc H.
  - rewrite dlt_nil, sw_0, N.lxor_0_r. cbn in H. apply N.leb_le. exact H.
  - cbn [length cs' sweep] in H. apply andb_true_iff in H. destruct H as [Ha Hb].
    rewrite (dlt_cons len P Hp), sw_lxor. destruct b.
    + rewrite <- N.lxor_assoc. apply IH. exact Hb.
    + rewrite sw_0, N.lxor_0_l. apply IH. exact Ha.
Qed.

Lemma allk_ok len P M : allk len P M = true -> forall m, (m < M)%nat ->
  sweep (cs' len P m) (sw len (cc len P m)) (2 ^ N.of_nat (8 * len - 8 - S m)) = true.
Proof.
  induction M as [|M IH]; intros H m Hm; [lia|].
  cbn [allk] in H. apply andb_true_iff in H. destruct H as [Ha Hb].
  destruct (Nat.eq_dec m M) as [->|Hne]; [exact Hb|]. apply IH; [exact Ha|lia].
Qed.

Definition crc_ok (len : nat) (P : N) : Prop :=
  crc_params len P /\ allk len P (8 * len - 9) = true.

(* every non-zero tail pattern of at most W-9 bits changes the value field at a position that is
   more than W bits after the start of the pattern *)
Lemma tail_far len P (Hok : crc_ok len P) x :
  (length x <= 8 * len - 9)%nat ->
  dlt len P x = 0 \/ exists j, (8 * len - 8 - length x <= j)%nat /\ nth j (vb len (dlt len P x)) false = true.
Proof.
  destruct Hok as [Hp Hall].
  induction x as [|b r IH]; intros Hl.
  - left. apply dlt_nil.
  - cbn [length] in Hl. destruct b.
    + right. pose proof (allk_ok len P _ Hall (length r) ltac:(lia)) as Hs.
      apply (sweep_ok len P Hp) in Hs. rewrite <- sw_lxor in Hs.
      change (cc len P (length r)) with (if true then cc len P (length r) else 0) in Hs.
      rewrite <- (dlt_cons len P Hp) in Hs. apply word_ge_pos in Hs. exact Hs.
    + rewrite (dlt_cons len P Hp), N.lxor_0_l. destruct IH as [IH|(j & Hj & Hn)]; [lia|left; exact IH|].
      right. exists j. split; [cbn [length]; lia|exact Hn].
Qed.

(* ---------- the bit-level theorem ---------- *)
Theorem straddle_core len P (Hok : crc_ok len P) xd pre e post delta :
  delta = crc_run P 0 (xd ++ repeat false (8 * len)) ->
  (xd = [] \/ exists x, xd = x ++ repeat false 8) ->
  xd ++ vb len delta = repeat false pre ++ e ++ repeat false post ->
  (length e <= 8 * len)%nat -> word e <> 0 -> False.
Proof.
  intros Hd Hhead Hx He Hne. pose proof Hok as [Hp _]. pose proof Hp as (H1 & H2 & H3).
  assert (Hlt : delta < 2 ^ N.of_nat (8 * len)).
  { rewrite Hd. apply (run_lt _ P H1 H2 H3). apply pow2_pos'. }
  destruct (all_false_dec (vb len delta)) as [Hz | (j & Hj & Hjt)].
  - (* the value is unchanged: the classical burst argument *)
    rewrite vb_length in Hz.
    assert (H0 : delta = 0).
    { apply (vb_zero_inv len); [|exact Hz]. rewrite pow256. replace (8 * N.of_nat len) with (N.of_nat (8 * len)) by lia. exact Hlt. }
    rewrite Hz in Hx. rewrite Hx in Hd. rewrite H0 in Hd. symmetry in Hd.
    rewrite !crc_run_app, run_zeros_0 in Hd.
    apply (run_zeros_inv _ P H1 H2 H3) in Hd; [|apply (run_lt _ P H1 H2 H3), pow2_pos'].
    apply (burst_detected _ P H1 H2 H3) in Hd; [contradiction|lia].
  - (* the value is changed at position j *)
    assert (Hd0 : delta <> 0).
    { intros E. rewrite E, vb_0, nth_rf in Hjt. discriminate. }
    destruct Hhead as [-> | (x & ->)].
    + apply Hd0. rewrite Hd. cbn [app]. apply run_zeros_0.
    + destruct (all_false_dec x) as [Hxz | (i & Hi & Hit)].
      * apply Hd0. rewrite Hd, Hxz, !repeat_app. apply run_zeros_0.
      * pose proof (burst_pos pre e post i) as Hp1. rewrite <- Hx in Hp1.
        rewrite <- app_assoc, app_nth1 in Hp1 by exact Hi. specialize (Hp1 Hit).
        pose proof (burst_pos pre e post (length x + 8 + j)) as Hp2. rewrite <- Hx in Hp2.
        rewrite app_nth2 in Hp2 by (rewrite app_length, repeat_length; lia).
        replace (length x + 8 + j - length (x ++ repeat false 8))%nat with j in Hp2
          by (rewrite app_length, repeat_length; lia).
        specialize (Hp2 Hjt).
        assert (Hsplit : x = repeat false pre ++ skipn pre x).
        { rewrite <- (firstn_skipn pre x) at 1. f_equal.
          apply (f_equal (firstn pre)) in Hx. rewrite firstn_repeat_app in Hx.
          rewrite <- app_assoc, firstn_le_app in Hx by lia. exact Hx. }
        assert (Hl1 : length (skipn pre x) = (length x - pre)%nat) by apply skipn_length.
        assert (Hdx : delta = dlt len P (skipn pre x)).
        { rewrite Hd, Hsplit at 1. unfold dlt. rewrite <- !app_assoc, crc_run_app, run_zeros_0, repeat_app. reflexivity. }
        destruct (tail_far len P Hok (skipn pre x)) as [E | (j' & Hj' & Hj't)]; [lia|congruence|].
        rewrite <- Hdx in Hj't.
        pose proof (burst_pos pre e post (length x + 8 + j')) as Hp3. rewrite <- Hx in Hp3.
        rewrite app_nth2 in Hp3 by (rewrite app_length, repeat_length; lia).
        replace (length x + 8 + j' - length (x ++ repeat false 8))%nat with j' in Hp3
          by (rewrite app_length, repeat_length; lia).
        specialize (Hp3 Hj't). lia.
Qed.

(* ---------- from blocks to bits ---------- *)
Lemma lxor_xo a b c : N.lxor (N.lxor a c) (N.lxor b c) = N.lxor a b.
Proof.
  apply N.bits_inj. intros i. rewrite !N.lxor_spec.
  destruct (N.testbit a i), (N.testbit b i), (N.testbit c i); reflexivity.
Qed.

Lemma holds_delta len P (Hp : crc_params len P) init xo d1 d2 : length d1 = length d2 ->
  N.lxor (N.lxor (crc_update P init (d1 ++ zeros len)) xo) (N.lxor (crc_update P init (d2 ++ zeros len)) xo)
  = crc_run P 0 (xorbits (bytes_bits d1) (bytes_bits d2) ++ repeat false (8 * len)).
Proof.
  intros Hl. destruct Hp as (H1 & H2 & H3).
  rewrite lxor_xo, !crc_update_bits, !bytes_bits_app. unfold zeros. rewrite bytes_bits_zeros.
  rewrite <- (run_lxor _ P H1 H2 H3) by (rewrite !app_length, !bytes_bits_length; lia).
  rewrite N.lxor_nilpotent, xorbits_app by (rewrite !bytes_bits_length; lia).
  rewrite xorbits_same, repeat_length. reflexivity.
Qed.

Lemma head_split (d1 d2 v1 v2 : list N) len :
  length d1 = length d2 -> length v1 = len -> length v2 = len ->
  nth_error (d1 ++ v1) (length (d1 ++ v1) - len - 1) = nth_error (d2 ++ v2) (length (d2 ++ v2) - len - 1) ->
  (d1 = [] /\ d2 = []) \/ exists a1 a2 h, d1 = a1 ++ [h] /\ d2 = a2 ++ [h] /\ length a1 = length a2.
Proof.
  intros Hd Hv1 Hv2.
  induction d1 as [|h1 a1 _] using rev_ind; induction d2 as [|h2 a2 _] using rev_ind.
  - intros _. left. split; reflexivity.
  - exfalso. rewrite app_length in Hd. cbn in Hd. lia.
  - exfalso. rewrite app_length in Hd. cbn in Hd. lia.
  - intros H. right. rewrite !app_length in Hd. cbn [length] in Hd.
    replace (length ((a1 ++ [h1]) ++ v1) - len - 1)%nat with (length a1) in H by (rewrite !app_length; cbn [length]; lia).
    replace (length ((a2 ++ [h2]) ++ v2) - len - 1)%nat with (length a2) in H by (rewrite !app_length; cbn [length]; lia).
    rewrite <- !app_assoc in H. rewrite (nth_error_app2 a1), (nth_error_app2 a2), !Nat.sub_diag in H by lia. cbn in H.
    injection H as ->. exists a1, a2, h2. repeat split. lia.
Qed.

Theorem straddle_generic len P init xo (Hok : crc_ok len P) d1 d2 v1 v2 pre e post :
  length d1 = length d2 ->
  v1 = be_encode len (N.lxor (crc_update P init (d1 ++ zeros len)) xo) ->
  v2 = be_encode len (N.lxor (crc_update P init (d2 ++ zeros len)) xo) ->
  xorbits (bytes_bits (d1 ++ v1)) (bytes_bits (d2 ++ v2)) = repeat false pre ++ e ++ repeat false post ->
  (length e <= 8 * len)%nat -> word e <> 0 ->
  nth_error (d1 ++ v1) (length (d1 ++ v1) - len - 1) = nth_error (d2 ++ v2) (length (d2 ++ v2) - len - 1) ->
  False.
Proof.
  intros Hd E1 E2 Hx He Hne Hh. pose proof Hok as [Hp _].
  assert (Hv1 : length v1 = len) by (rewrite E1; apply be_encode_length).
  assert (Hv2 : length v2 = len) by (rewrite E2; apply be_encode_length).
  rewrite !bytes_bits_app, xorbits_app in Hx by (rewrite !bytes_bits_length; lia).
  assert (Hxv : xorbits (bytes_bits v1) (bytes_bits v2)
                = vb len (crc_run P 0 (xorbits (bytes_bits d1) (bytes_bits d2) ++ repeat false (8 * len)))).
  { rewrite E1, E2. fold (vb len (N.lxor (crc_update P init (d1 ++ zeros len)) xo)).
    fold (vb len (N.lxor (crc_update P init (d2 ++ zeros len)) xo)).
    rewrite vb_lxor, (holds_delta len P Hp) by exact Hd. reflexivity. }
  rewrite Hxv in Hx.
  apply (straddle_core len P Hok _ pre e post _ eq_refl) in Hx; [exact Hx| |exact He|exact Hne].
  destruct (head_split d1 d2 v1 v2 len Hd Hv1 Hv2 Hh) as [[-> ->] | (a1 & a2 & h & -> & -> & Ha)].
  - left. reflexivity.
  - right. exists (xorbits (bytes_bits a1) (bytes_bits a2)).
    rewrite !bytes_bits_app, xorbits_app by (rewrite !bytes_bits_length; lia).
    rewrite xorbits_same, bytes_bits_length. reflexivity.
Qed.

(* ---------- the two instances: the exhaustive sweeps ---------- *)
Lemma crc16_ok : crc_ok 2 poly16.
Proof.
  split; [exact poly16_ok|]. vm_compute. reflexivity.
Qed.

Lemma crc32c_ok : crc_ok 4 poly32c.
Proof.
  split; [exact poly32_ok|]. vm_compute. reflexivity.
Qed.

(* ---------- C03, straddling bursts ---------- *)
Theorem crc_straddle_rejected : forall t w1 w2,
  (t = 1 \/ t = 2) -> crc_holds t w1 -> crc_holds t w2 -> length w1 = length w2 ->
  forall len pre e post,
    crc_len t = Some len ->
    xorbits (bytes_bits w1) (bytes_bits w2) = repeat false pre ++ e ++ repeat false post ->
    N.of_nat (length e) <= 8 * N.of_nat len -> word e <> 0 ->
    nth_error w1 (length w1 - len - 1) = nth_error w2 (length w2 - len - 1) ->
    False.
Proof.
  intros t w1 w2 Ht (len1 & d1 & v1 & Hl1 & Hw1 & Hv1 & He1) (len2 & d2 & v2 & Hl2 & Hw2 & Hv2 & He2) Hlen.
  intros len pre e post Hl Hx He Hne Hh.
  subst w1 w2.
  assert (Hll : len1 = len2) by congruence.
  assert (Hd : length d1 = length d2) by (rewrite !app_length in Hlen; lia).
  clear Hll.
  destruct Ht as [-> | ->]; cbn in Hl, Hl1, Hl2; injection Hl as <-; injection Hl1 as <-; injection Hl2 as <-.
  - change (crc_value 1 (d1 ++ zeros 2)) with (N.lxor (crc_update poly16 ones16 (d1 ++ zeros 2)) ones16) in He1.
    change (crc_value 1 (d2 ++ zeros 2)) with (N.lxor (crc_update poly16 ones16 (d2 ++ zeros 2)) ones16) in He2.
    apply (straddle_generic 2 poly16 ones16 ones16 crc16_ok d1 d2 v1 v2 pre e post Hd He1 He2 Hx); [lia|exact Hne|exact Hh].
  - change (crc_value 2 (d1 ++ zeros 4)) with (N.lxor (crc_update poly32c ones32 (d1 ++ zeros 4)) ones32) in He1.
    change (crc_value 2 (d2 ++ zeros 4)) with (N.lxor (crc_update poly32c ones32 (d2 ++ zeros 4)) ones32) in He2.
    apply (straddle_generic 4 poly32c ones32 ones32 crc32c_ok d1 d2 v1 v2 pre e post Hd He1 He2 Hx); [lia|exact Hne|exact Hh].
Qed.

(* ---------- examples ---------- *)
(* the canonical block {num 2, flags 0, CRC-16, bundle age 24} and a corruption of it by a 10-bit
   burst that straddles covered bytes and value: bit 7 of the byte before the head byte 0x42 and bit 0
   of the first value byte *)
Definition ex_w1 : list N := [134;7;2;0;1;66;24;24;66;217;50].
Definition ex_w2 : list N := [134;7;2;0;1;66;24;152;66;216;50].

Lemma ex_w1_holds : crc_holds 1 ex_w1.
Proof. exists 2%nat, [134;7;2;0;1;66;24;24;66], [217;50]. repeat split. Qed.

Lemma straddle_example : ~ crc_holds 1 ex_w2.
Proof.
  intros H.
  apply (crc_straddle_rejected 1 ex_w1 ex_w2 (or_introl eq_refl) ex_w1_holds H eq_refl 2%nat 63%nat
           [true;false;false;false;false;false;false;false;false;true] 15%nat eq_refl).
  - vm_compute. reflexivity.
  - vm_compute. intros X. discriminate X.
  - vm_compute. intros X. discriminate X.
  - reflexivity.
Qed.

(* the head-byte premise cannot be dropped: two CRC-32C blocks that both satisfy the equation and
   differ by a 32-bit burst starting at bit 7 of the byte before the value *)
Lemma straddle_head_needed :
  exists w1 w2 pre e post,
    crc_holds 2 w1 /\ crc_holds 2 w2 /\ length w1 = length w2
    /\ xorbits (bytes_bits w1) (bytes_bits w2) = repeat false pre ++ e ++ repeat false post
    /\ N.of_nat (length e) <= 8 * N.of_nat 4 /\ word e <> 0.
Proof.
  exists [1;2;3;68;246;186;137;249], [1;2;3;196;152;24;92;165], 31%nat,
    (firstn 32 (skipn 31 (xorbits (bytes_bits [1;2;3;68;246;186;137;249]) (bytes_bits [1;2;3;196;152;24;92;165])))), 1%nat.
  split; [exists 4%nat, [1;2;3;68], [246;186;137;249]; repeat split|].
  split; [exists 4%nat, [1;2;3;196], [152;24;92;165]; repeat split|].
  split; [reflexivity|]. split; [vm_compute; reflexivity|].
  split; vm_compute; intros X; discriminate X.
Qed.
