(* ConstsOkForward.v - the constants / literal and operator shapes regenerated from the Go sources
   (gen/Consts.v) coincide with the ones Model/Forward.v is written against. *)
From Coq Require Import ZArith NArith List.
Import ListNotations.
From DTN Require Import Consts Base Bundle Forward SpecForward.
Open Scope Z_scope.

(* block types and block flags used by the forwarding model *)
Lemma fw_block_types_ok :
  pkg_bpv7__ExtBlockTypePayloadBlock = 1 /\ pkg_bpv7__ExtBlockTypePreviousNodeBlock = 6
  /\ pkg_bpv7__ExtBlockTypeBundleAgeBlock = 7 /\ pkg_bpv7__ExtBlockTypeHopCountBlock = 10
  /\ pkg_bpv7__ExtBlockTypeBinarySprayBlock = 192.
Proof. repeat split; reflexivity. Qed.

Lemma fw_block_flags_ok :
  pkg_bpv7__StatusReportBlock = Z.of_N BF_REPORT /\ pkg_bpv7__DeleteBundle = Z.of_N BF_DELETE
  /\ pkg_bpv7__RemoveBlock = Z.of_N BF_REMOVE.
Proof. repeat split; reflexivity. Qed.

(* the retention constraints the harness reads to tell "forward was entered" from "deferred" *)
Lemma fw_constraints_ok :
  pkg_routing__DispatchPending = 0 /\ pkg_routing__ForwardPending = 1 /\ pkg_routing__Contraindicated = 3.
Proof. repeat split; reflexivity. Qed.

Lemma fw_hop_ok :
  pkg_bpv7__HopCountBlock_IsExceeded__ops = fw_spec_isexceeded_ops /\ pkg_bpv7__HopCountBlock_IsExceeded__lits = []
  /\ pkg_bpv7__HopCountBlock_Increment__ops = fw_spec_increment_ops /\ pkg_bpv7__HopCountBlock_Increment__lits = []
  /\ pkg_bpv7__HopCountBlock_Decrement__ops = fw_spec_decrement_ops /\ pkg_bpv7__HopCountBlock_Decrement__lits = [].
Proof. repeat split; reflexivity. Qed.

Lemma fw_age_ok :
  pkg_bpv7__BundleAgeBlock_Increment__ops = fw_spec_age_increment_ops /\ pkg_bpv7__BundleAgeBlock_Increment__lits = []
  /\ pkg_routing__BundleDescriptor_UpdateBundleAge__ops = fw_spec_update_age_ops
  /\ pkg_routing__BundleDescriptor_UpdateBundleAge__lits = fw_spec_update_age_lits.
Proof. repeat split; reflexivity. Qed.

Lemma fw_add_block_ok :
  pkg_bpv7__Bundle_AddExtensionBlock__ops = fw_spec_add_block_ops
  /\ pkg_bpv7__Bundle_AddExtensionBlock__lits = fw_spec_add_block_lits
  /\ pkg_bpv7__canonicalBlockNumberSort_Less__ops = fw_spec_less_ops
  /\ pkg_bpv7__canonicalBlockNumberSort_Less__lits = [].
Proof. repeat split; reflexivity. Qed.

Lemma fw_lifetime_ok :
  pkg_bpv7__Bundle_IsLifetimeExceeded__ops = fw_spec_lifetime_ops /\ pkg_bpv7__Bundle_IsLifetimeExceeded__lits = [].
Proof. split; reflexivity. Qed.

Lemma fw_receive_ok :
  pkg_routing__Core_receive__ops = fw_spec_receive_ops /\ pkg_routing__Core_receive__lits = fw_spec_receive_lits.
Proof. split; reflexivity. Qed.

Lemma fw_forward_ok :
  firstn fw_spec_forward_prefix pkg_routing__Core_forward__ops = fw_spec_forward_ops
  /\ firstn fw_spec_forward_lits_prefix pkg_routing__Core_forward__lits = fw_spec_forward_lits.
Proof. split; reflexivity. Qed.
