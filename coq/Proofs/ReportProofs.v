(* ReportProofs.v - status reports of the Core model (Model/Report.v): every emitted report is
   justified by an event of its kind in the same pass and by the request flag, has the required
   shape, and no report is ever emitted about an administrative record or towards this node. *)
From DTN Require Import Base Cbor Eid Bundle Report EidProofs.
Open Scope N_scope.

(* ---------- list plumbing ---------- *)
Lemma rp_reports_app a b : rp_reports (a ++ b) = rp_reports a ++ rp_reports b.
Proof. unfold rp_reports. apply flat_map_app. Qed.
Lemma rp_events_app a b : rp_events (a ++ b) = rp_events a ++ rp_events b.
Proof. unfold rp_events. apply flat_map_app. Qed.
Lemma rp_reports_ev e l : rp_reports (IEv e :: l) = rp_reports l.
Proof. reflexivity. Qed.
Lemma rp_events_ev e l : rp_events (IEv e :: l) = e :: rp_events l.
Proof. reflexivity. Qed.
Lemma rp_reports_rep r l : rp_reports (IRep r :: l) = r :: rp_reports l.
Proof. reflexivity. Qed.
Lemma rp_events_rep r l : rp_events (IRep r :: l) = rp_events l.
Proof. reflexivity. Qed.
Lemma rp_reports_sends l : rp_reports (map (fun ok => IEv (EvSend ok)) l) = [].
Proof. induction l; simpl; auto. Qed.
Lemma rp_events_sends l : rp_events (map (fun ok => IEv (EvSend ok)) l) = map EvSend l.
Proof. induction l; simpl; f_equal; auto. Qed.

Lemma in_reports_items r l : In r (rp_reports l) <-> In (IRep r) l.
Proof.
  induction l as [|i l IH]; simpl; [tauto|].
  destruct i as [e|r']; simpl.
  - rewrite IH. split; [auto | intros [H|H]; [discriminate | auto]].
  - rewrite IH. split; intros [H|H]; auto; [left; congruence | left; congruence].
Qed.
Lemma in_events_items e l : In e (rp_events l) <-> In (IEv e) l.
Proof.
  induction l as [|i l IH]; simpl; [tauto|].
  destruct i as [e'|r']; simpl.
  - rewrite IH. split; intros [H|H]; auto; [left; congruence | left; congruence].
  - rewrite IH. split; [auto | intros [H|H]; [discriminate | auto]].
Qed.

(* ---------- SendStatusReport ---------- *)
Definition rp_local_source (env : renv) (e : eid) : Prop :=
  rp_has_endpoint env e = true \/ e = rn_node env.

(* the shape of a report about [b] *)
Definition rp_shape (env : renv) (b : bundle) (now : N) (r : rp_sreport) : Prop :=
  let p := b_pri b in
  rpr_flags r = F_ADMIN
  /\ rpr_dst r = p_rpt p
  /\ rpr_life r = RP_LIFETIME
  /\ sr_ref_src r = p_src p /\ sr_ref_time r = p_time p /\ sr_ref_seq r = p_seq p
  /\ sr_ref_frag r = (if has (p_flags p) F_FRAG then Some (p_off p, p_total p) else None)
  /\ rpr_time r = (if has (p_flags p) F_TIME then Some now else None)
  /\ rp_local_source env (rpr_src r).

Definition rp_guards (env : renv) (b : bundle) : Prop :=
  has (p_flags (b_pri b)) F_ADMIN = false /\ rp_has_endpoint env (p_rpt (b_pri b)) = false.

Lemma ssr_inv env rcv b now pos reason i :
  In i (rp_ssr env rcv b now pos reason) ->
  exists r, i = IRep r /\ rpr_pos r = pos /\ rpr_reason r = reason /\ rp_shape env b now r /\ rp_guards env b.
Proof.
  unfold rp_ssr. intros H.
  destruct (has (p_flags (b_pri b)) F_ADMIN) eqn:Ha; [destruct H|].
  destruct (rp_has_endpoint env (p_rpt (b_pri b))) eqn:Hr; [destruct H|].
  set (aa := if eid_eqb rcv DtnNone then rn_node env else rcv) in *.
  destruct (negb (rp_has_endpoint env aa) && negb (eid_eqb aa (rn_node env))) eqn:Hg; [destruct H|].
  destruct H as [H|[]]. subst i. eexists. split; [reflexivity|].
  cbn [rpr_pos rpr_reason]. repeat split; auto.
  unfold rp_local_source. cbn [rpr_src].
  apply andb_false_iff in Hg. destruct Hg as [Hg|Hg]; apply negb_false_iff in Hg.
  - left; exact Hg.
  - right. apply eid_eqb_eq; exact Hg.
Qed.

Lemma ssr_no_event env rcv b now pos reason e : ~ In (IEv e) (rp_ssr env rcv b now pos reason).
Proof. intros H. apply ssr_inv in H. destruct H as (r & H & _). discriminate. Qed.

Lemma ssr_events env rcv b now pos reason : rp_events (rp_ssr env rcv b now pos reason) = [].
Proof.
  destruct (rp_events (rp_ssr env rcv b now pos reason)) as [|e l] eqn:E; [reflexivity|].
  exfalso. apply (ssr_no_event env rcv b now pos reason e). apply in_events_items. rewrite E. left; reflexivity.
Qed.

(* ---------- what justifies a report ---------- *)
Definition rp_unknown_report_witness (b : bundle) (evs : list event) : Prop :=
  exists i c, In (EvUnknownBlock i (c_flags c)) evs /\ In c (b_blocks b)
              /\ known_type (c_type c) = false /\ has (c_flags c) BF_REPORT = true.

Definition rp_justified (b : bundle) (evs : list event) (r : rp_sreport) : Prop :=
  let f := p_flags (b_pri b) in
  (rpr_pos r = SP_RECEIVED /\ rpr_reason r = RR_NOINFO /\ In EvReceived evs /\ has f F_RECEPTION = true)
  \/ (rpr_pos r = SP_RECEIVED /\ rpr_reason r = RR_UNSUPPORTED /\ In EvReceived evs /\ rp_unknown_report_witness b evs)
  \/ (rpr_pos r = SP_FORWARDED /\ rpr_reason r = RR_NOINFO /\ In EvForwarded evs /\ In (EvSend true) evs /\ has f F_FORWARD = true)
  \/ (rpr_pos r = SP_DELIVERED /\ rpr_reason r = RR_NOINFO /\ In EvDelivered evs /\ has f F_DELIVERY = true)
  \/ (rpr_pos r = SP_DELETED /\ In (EvDeleted (rpr_reason r)) evs /\ has f F_DELETION = true).

Lemma witness_incl b evs evs' : incl evs evs' -> rp_unknown_report_witness b evs -> rp_unknown_report_witness b evs'.
Proof. intros Hi (i & c & H1 & H2). exists i, c. split; [apply Hi; exact H1 | exact H2]. Qed.

Lemma justified_incl b evs evs' r : incl evs evs' -> rp_justified b evs r -> rp_justified b evs' r.
Proof.
  intros Hi H. unfold rp_justified in *.
  destruct H as [H|[H|[H|[H|H]]]].
  - left. destruct H as (A & B & C & D). auto.
  - right; left. destruct H as (A & B & C & D). repeat split; auto. eapply witness_incl; eauto.
  - right; right; left. destruct H as (A & B & C & D & E). auto 6.
  - right; right; right; left. destruct H as (A & B & C & D). auto.
  - right; right; right; right. destruct H as (A & B & C). auto.
Qed.

(* a pass of a sub-function: every report is well-shaped, guarded, and justified by the events of
   the same item list together with the events [pre] that happened before *)
Definition rp_good (env : renv) (b : bundle) (now : N) (pre : list event) (l : list item) : Prop :=
  forall r, In r (rp_reports l) ->
    rp_shape env b now r /\ rp_guards env b /\ rp_justified b (pre ++ rp_events l) r.

Lemma good_nil env b now pre : rp_good env b now pre [].
Proof. intros r []. Qed.

Lemma good_weaken env b now pre pre' l :
  incl pre pre' -> rp_good env b now pre l -> rp_good env b now pre' l.
Proof.
  intros Hi H r Hr. destruct (H r Hr) as (A & B & C). split; [exact A | split; [exact B |]].
  eapply justified_incl; [|exact C]. apply incl_app; [apply incl_appl; exact Hi | apply incl_appr, incl_refl].
Qed.

Lemma good_app env b now pre l1 l2 :
  rp_good env b now pre l1 -> rp_good env b now (pre ++ rp_events l1) l2 -> rp_good env b now pre (l1 ++ l2).
Proof.
  intros H1 H2 r Hr. rewrite rp_reports_app in Hr. rewrite rp_events_app. apply in_app_or in Hr. destruct Hr as [Hr|Hr].
  - destruct (H1 r Hr) as (A & B & C). split; [exact A | split; [exact B |]]. eapply justified_incl; [|exact C].
    rewrite app_assoc. apply incl_appl, incl_refl.
  - destruct (H2 r Hr) as (A & B & C). split; [exact A | split; [exact B |]]. rewrite app_assoc. exact C.
Qed.

Lemma good_ev env b now pre e l :
  rp_good env b now (pre ++ [e]) l -> rp_good env b now pre (IEv e :: l).
Proof.
  intros H r Hr. rewrite rp_reports_ev in Hr. destruct (H r Hr) as (A & B & C). split; [exact A | split; [exact B |]].
  rewrite rp_events_ev. rewrite <- app_assoc in C. exact C.
Qed.

Lemma good_events_only env b now pre l : rp_reports l = [] -> rp_good env b now pre l.
Proof. intros E r Hr. rewrite E in Hr. destruct Hr. Qed.

(* one SendStatusReport call is good when the context already justifies it *)
Lemma good_ssr env rcv b now pre pos reason :
  (forall r, rpr_pos r = pos -> rpr_reason r = reason -> rp_justified b pre r) ->
  rp_good env b now pre (rp_ssr env rcv b now pos reason).
Proof.
  intros Hj r Hr. apply in_reports_items in Hr. apply ssr_inv in Hr.
  destruct Hr as (r' & E & Hp & Hre & Hs & Hg). inversion E; subst r'. split; [exact Hs | split; [exact Hg |]].
  rewrite ssr_events, app_nil_r. apply Hj; auto.
Qed.

Lemma good_if_ssr env rcv b now pre (c : bool) pos reason :
  (c = true -> forall r, rpr_pos r = pos -> rpr_reason r = reason -> rp_justified b pre r) ->
  rp_good env b now pre (if c then rp_ssr env rcv b now pos reason else []).
Proof. destruct c; intros H; [apply good_ssr; auto | apply good_nil]. Qed.

(* ---------- bundleDeletion ---------- *)
Lemma good_deletion env rcv b now pre reason :
  rp_good env b now pre (rp_deletion env rcv b now reason).
Proof.
  unfold rp_deletion. apply good_ev. apply good_if_ssr. intros Hf r Hp Hr.
  unfold rp_justified. right; right; right; right. rewrite Hr. repeat split; auto.
  apply in_or_app; right; left; reflexivity.
Qed.

(* ---------- the unknown-block loop ---------- *)
Lemma good_unknown_loop env rcv b now l : forall pre,
  In EvReceived pre ->
  (forall i c, In (i, c) l -> In c (b_blocks b)) ->
  rp_good env b now pre (fst (rp_unknown_loop env rcv b now l)).
Proof.
  induction l as [|[i c] l IH]; intros pre Hrecv Hin; cbn [rp_unknown_loop].
  - apply good_nil.
  - assert (Hin' : forall i c, In (i, c) l -> In c (b_blocks b)) by (intros; eapply Hin; right; eauto).
    destruct (known_type (c_type c)) eqn:Hk; [apply IH; auto|].
    assert (Hev : rp_good env b now (pre ++ [EvUnknownBlock i (c_flags c)])
                    (if has (c_flags c) BF_REPORT then rp_ssr env rcv b now SP_RECEIVED RR_UNSUPPORTED else [])).
    { apply good_if_ssr. intros Hf r Hp Hr. unfold rp_justified. right; left. repeat split; auto.
      - apply in_or_app; left; exact Hrecv.
      - exists i, c. repeat split; auto.
        + apply in_or_app; right; left; reflexivity.
        + eapply Hin; left; reflexivity. }
    destruct (has (c_flags c) BF_DELETE) eqn:Hd; cbn [fst].
    + change (IEv (EvUnknownBlock i (c_flags c)) :: ?x) with ([IEv (EvUnknownBlock i (c_flags c))] ++ x).
      rewrite <- app_assoc. cbn [app]. apply good_ev. apply good_app; [exact Hev | apply good_deletion].
    + destruct (rp_unknown_loop env rcv b now l) as [its d] eqn:El. cbn [fst] in *.
      cbn [app]. apply good_ev. apply good_app; [exact Hev|].
      apply good_app.
      * apply good_events_only. destruct (has (c_flags c) BF_REMOVE); reflexivity.
      * apply IH; auto. repeat (apply in_or_app; left). exact Hrecv.
Qed.

Lemma indexed_in bl i c : In (i, c) (rp_indexed bl) -> In c bl.
Proof. unfold rp_indexed. intros H. apply in_rev in H. eapply in_combine_r; eauto. Qed.

(* ---------- forward / localDelivery / dispatching ---------- *)
Lemma good_forward env inp pre :
  rp_good env (i_bundle inp) (i_now inp) pre (rp_forward env inp).
Proof.
  unfold rp_forward.
  destruct (rp_hop_exceeded (i_bundle inp)); [apply good_deletion|].
  destruct (lifetime_exceeded (i_now inp) (i_bundle inp)); [apply good_deletion|].
  destruct (rp_age_expired (i_bundle inp) (i_age_add inp)); [apply good_deletion|].
  apply good_app; [apply good_events_only, rp_reports_sends|].
  destruct (existsb (fun ok => ok) (i_sends inp)) eqn:Hs.
  - apply good_ev. apply good_app.
    + apply good_if_ssr. intros Hf r Hp Hr. unfold rp_justified. right; right; left. repeat split; auto.
      * apply in_or_app; right; left; reflexivity.
      * apply in_or_app; left. apply in_or_app; right. rewrite rp_events_sends.
        apply existsb_exists in Hs. destruct Hs as (x & Hx & Hxt). subst x. apply in_map; exact Hx.
    + apply good_events_only. reflexivity.
  - apply good_events_only. reflexivity.
Qed.

Lemma good_local env inp pre :
  rp_good env (i_bundle inp) (i_now inp) pre (rp_local env inp).
Proof.
  unfold rp_local.
  destruct (has (p_flags (b_pri (i_bundle inp))) F_ADMIN && negb (i_admin_ok inp)); [apply good_deletion|].
  destruct (rp_has_agent env (p_dst (b_pri (i_bundle inp)))).
  - apply good_ev. apply good_app.
    + apply good_if_ssr. intros Hf r Hp Hr. unfold rp_justified. right; right; right; left. repeat split; auto.
      apply in_or_app; right; left; reflexivity.
    + apply good_events_only. reflexivity.
  - apply good_events_only. reflexivity.
Qed.

Lemma good_dispatch env inp pre :
  rp_good env (i_bundle inp) (i_now inp) pre (rp_dispatch env inp).
Proof.
  unfold rp_dispatch.
  destruct (negb (i_dispatch_ok inp)); [apply good_events_only; reflexivity|].
  destruct (negb (i_load_ok inp)); [apply good_nil|].
  destruct (rp_has_endpoint env (p_dst (b_pri (i_bundle inp)))); [apply good_local | apply good_forward].
Qed.

Lemma good_process env inp :
  rp_good env (i_bundle inp) (i_now inp) [] (rp_process env inp).
Proof.
  unfold rp_process.
  destruct (i_kind inp =? 0).
  - destruct (i_known inp); [apply good_events_only; reflexivity|].
    pose proof (good_unknown_loop env (i_receiver inp) (i_bundle inp) (i_now inp) (rp_indexed (b_blocks (i_bundle inp)))) as HL.
    destruct (rp_unknown_loop env (i_receiver inp) (i_bundle inp) (i_now inp) (rp_indexed (b_blocks (i_bundle inp)))) as [its d] eqn:El.
    cbn [fst] in HL.
    apply good_ev. apply good_app.
    + apply good_if_ssr. intros Hf r Hp Hr. unfold rp_justified. left. repeat split; auto. left; reflexivity.
    + apply good_app.
      * apply HL.
        -- apply in_or_app; left. left; reflexivity.
        -- intros i c H. eapply indexed_in; eauto.
      * destruct d; [apply good_nil | apply good_dispatch].
  - destruct (i_kind inp =? 1).
    + destruct (negb (eid_eqb (p_src (b_pri (i_bundle inp))) DtnNone) && negb (rp_has_endpoint env (p_src (b_pri (i_bundle inp)))));
        [apply good_deletion | apply good_dispatch].
    + apply good_dispatch.
Qed.

(* ---------- the three statements ---------- *)
Theorem report_truthful env inp r :
  In r (rp_reports (rp_process env inp)) ->
  rp_justified (i_bundle inp) (rp_events (rp_process env inp)) r.
Proof. intros H. destruct (good_process env inp r H) as (_ & _ & J). exact J. Qed.

Theorem report_shape env inp r :
  In r (rp_reports (rp_process env inp)) -> rp_shape env (i_bundle inp) (i_now inp) r.
Proof. intros H. destruct (good_process env inp r H) as (S & _ & _). exact S. Qed.

Theorem report_guards env inp r :
  In r (rp_reports (rp_process env inp)) -> rp_guards env (i_bundle inp).
Proof. intros H. destruct (good_process env inp r H) as (_ & G & _). exact G. Qed.

Theorem no_report_about_admin env inp :
  has (p_flags (b_pri (i_bundle inp))) F_ADMIN = true -> rp_reports (rp_process env inp) = [].
Proof.
  intros Ha. destruct (rp_reports (rp_process env inp)) as [|r l] eqn:E; [reflexivity|].
  assert (H : In r (rp_reports (rp_process env inp))) by (rewrite E; left; reflexivity).
  destruct (report_guards env inp r H) as [G _]. congruence.
Qed.

Theorem no_report_to_self env inp :
  rp_has_endpoint env (p_rpt (b_pri (i_bundle inp))) = true -> rp_reports (rp_process env inp) = [].
Proof.
  intros Ha. destruct (rp_reports (rp_process env inp)) as [|r l] eqn:E; [reflexivity|].
  assert (H : In r (rp_reports (rp_process env inp))) by (rewrite E; left; reflexivity).
  destruct (report_guards env inp r H) as [_ G]. congruence.
Qed.

(* a report about a report: none, at any node, however the report bundle is processed *)
Theorem no_cascade env inp r :
  In r (rp_reports (rp_process env inp)) ->
  forall env' inp' now seq payload,
    i_bundle inp' = rp_report_bundle r now seq payload ->
    rp_reports (rp_process env' inp') = [].
Proof.
  intros H env' inp' now seq payload Hb. apply no_report_about_admin. rewrite Hb.
  destruct (report_shape env inp r H) as (Hf & _). cbn. rewrite Hf. reflexivity.
Qed.

(* at the emitting node the second guard holds as well: the report's own report-to is local *)
Lemma same_node_refl e : eid_same_node e e = true.
Proof. destruct e; cbn; auto using bytes_eqb_refl. apply N.eqb_refl. Qed.

Theorem report_own_report_to_local env inp r now seq payload :
  In r (rp_reports (rp_process env inp)) ->
  rp_has_endpoint env (p_rpt (b_pri (rp_report_bundle r now seq payload))) = true.
Proof.
  intros H. destruct (report_shape env inp r H) as (_ & _ & _ & _ & _ & _ & _ & _ & [L|L]); cbn.
  - exact L.
  - rewrite L. unfold rp_has_endpoint. rewrite same_node_refl. reflexivity.
Qed.

(* ---------- events are what they say ---------- *)
Lemma ssr_ev_false env rcv b now pos reason e : In e (rp_events (rp_ssr env rcv b now pos reason)) -> False.
Proof. rewrite ssr_events. intros []. Qed.

Lemma if_ssr_ev_false env rcv b now (c : bool) pos reason e :
  In e (rp_events (if c then rp_ssr env rcv b now pos reason else [])) -> False.
Proof. destruct c; [apply ssr_ev_false | intros []]. Qed.

Lemma deletion_events env rcv b now reason e :
  In e (rp_events (rp_deletion env rcv b now reason)) -> e = EvDeleted reason.
Proof.
  unfold rp_deletion. rewrite rp_events_ev. intros [H|H]; [auto|]. exfalso. eapply if_ssr_ev_false; eauto.
Qed.

Definition rp_loop_event (b : bundle) (e : event) : Prop :=
  (exists i f, e = EvUnknownBlock i f) \/ (exists i, e = EvBlockRemoved i)
  \/ (e = EvDeleted RR_UNSUPPORTED /\ exists c, In c (b_blocks b) /\ known_type (c_type c) = false /\ has (c_flags c) BF_DELETE = true).

Lemma unknown_loop_events env rcv b now l :
  (forall i c, In (i, c) l -> In c (b_blocks b)) ->
  forall e, In e (rp_events (fst (rp_unknown_loop env rcv b now l))) -> rp_loop_event b e.
Proof.
  induction l as [|[i c] l IH]; intros Hin e; cbn [rp_unknown_loop].
  - intros [].
  - assert (Hin' : forall i c, In (i, c) l -> In c (b_blocks b)) by (intros; eapply Hin; right; eauto).
    destruct (known_type (c_type c)) eqn:Hk; [apply IH; auto|].
    destruct (has (c_flags c) BF_DELETE) eqn:Hd; cbn [fst].
    + cbn [app]. rewrite rp_events_ev, rp_events_app. intros [H|H].
      * left. eauto.
      * apply in_app_or in H. destruct H as [H|H]; [exfalso; eapply if_ssr_ev_false; eauto|].
        apply deletion_events in H. right; right. split; [exact H|]. exists c. repeat split; auto. eapply Hin; left; reflexivity.
    + destruct (rp_unknown_loop env rcv b now l) as [its d] eqn:El. cbn [fst] in *.
      cbn [app]. rewrite rp_events_ev, !rp_events_app. intros [H|H].
      * left. eauto.
      * apply in_app_or in H. destruct H as [H|H]; [exfalso; eapply if_ssr_ev_false; eauto|].
        apply in_app_or in H. destruct H as [H|H].
        -- destruct (has (c_flags c) BF_REMOVE); [|destruct H]. destruct H as [H|[]]. right; left. eauto.
        -- apply IH; auto.
Qed.

(* the deletion reasons and what they mean, per stage *)
Definition rp_forward_event (inp : rinput) (e : event) : Prop :=
  let b := i_bundle inp in
  (e = EvDeleted RR_HOPLIMIT /\ rp_hop_exceeded b = true)
  \/ (e = EvDeleted RR_EXPIRED /\ (lifetime_exceeded (i_now inp) b = true \/ rp_age_expired b (i_age_add inp) = true))
  \/ (exists ok, e = EvSend ok /\ In ok (i_sends inp))
  \/ (e = EvForwarded /\ In true (i_sends inp))
  \/ (e = EvAllSendsFailed /\ ~ In true (i_sends inp))
  \/ e = EvReleased \/ e = EvContraindicated.

Lemma forward_events env inp e : In e (rp_events (rp_forward env inp)) -> rp_forward_event inp e.
Proof.
  unfold rp_forward, rp_forward_event.
  destruct (rp_hop_exceeded (i_bundle inp)) eqn:Hh; [intros H; apply deletion_events in H; auto|].
  destruct (lifetime_exceeded (i_now inp) (i_bundle inp)) eqn:Hl; [intros H; apply deletion_events in H; auto|].
  destruct (rp_age_expired (i_bundle inp) (i_age_add inp)) eqn:Ha; [intros H; apply deletion_events in H; auto|].
  rewrite rp_events_app, rp_events_sends. intros H. apply in_app_or in H. destruct H as [H|H].
  - apply in_map_iff in H. destruct H as (ok & E & Hi). right; right; left. eauto.
  - destruct (existsb (fun ok => ok) (i_sends inp)) eqn:Hs.
    + assert (Ht : In true (i_sends inp)).
      { apply existsb_exists in Hs. destruct Hs as (x & Hx & Hxt). subst x. exact Hx. }
      rewrite rp_events_ev, rp_events_app in H. destruct H as [H|H]; [auto 6|].
      apply in_app_or in H. destruct H as [H|H]; [exfalso; eapply if_ssr_ev_false; eauto|].
      destruct (i_delete_after inp); destruct H as [H|[]]; subst e; auto 8.
    + assert (Ht : ~ In true (i_sends inp)).
      { intros Hin. assert (existsb (fun ok => ok) (i_sends inp) = true) by (apply existsb_exists; exists true; auto). congruence. }
      cbn in H. destruct H as [H|[H|[]]]; subst e; auto 8.
Qed.

Definition rp_local_event (env : renv) (inp : rinput) (e : event) : Prop :=
  let b := i_bundle inp in
  (e = EvDeleted RR_NOINFO /\ has (p_flags (b_pri b)) F_ADMIN = true /\ i_admin_ok inp = false)
  \/ (e = EvDelivered /\ rp_has_agent env (p_dst (b_pri b)) = true)
  \/ (e = EvDeliverFailed /\ rp_has_agent env (p_dst (b_pri b)) = false)
  \/ e = EvReleased.

Lemma local_events env inp e : In e (rp_events (rp_local env inp)) -> rp_local_event env inp e.
Proof.
  unfold rp_local, rp_local_event.
  destruct (has (p_flags (b_pri (i_bundle inp))) F_ADMIN && negb (i_admin_ok inp)) eqn:Ha.
  - intros H; apply deletion_events in H. apply andb_true_iff in Ha. destruct Ha as [A B]. apply negb_true_iff in B. auto.
  - destruct (rp_has_agent env (p_dst (b_pri (i_bundle inp)))) eqn:Hag.
    + rewrite rp_events_ev, rp_events_app. intros [H|H]; [auto|].
      apply in_app_or in H. destruct H as [H|H]; [exfalso; eapply if_ssr_ev_false; eauto|].
      destruct H as [H|[]]; auto.
    + cbn. intros [H|[H|[]]]; subst e; auto.
Qed.

Definition rp_dispatch_event (env : renv) (inp : rinput) (e : event) : Prop :=
  (e = EvNotDispatched /\ i_dispatch_ok inp = false)
  \/ (rp_has_endpoint env (p_dst (b_pri (i_bundle inp))) = true /\ rp_local_event env inp e)
  \/ (rp_has_endpoint env (p_dst (b_pri (i_bundle inp))) = false /\ rp_forward_event inp e).

Lemma dispatch_events env inp e : In e (rp_events (rp_dispatch env inp)) -> rp_dispatch_event env inp e.
Proof.
  unfold rp_dispatch, rp_dispatch_event.
  destruct (i_dispatch_ok inp); cbn [negb].
  - destruct (negb (i_load_ok inp)); [intros []|].
    destruct (rp_has_endpoint env (p_dst (b_pri (i_bundle inp)))) eqn:Hd; intros H.
    + right; left. split; auto. apply local_events; exact H.
    + right; right. split; auto. apply (forward_events env); exact H.
  - cbn. intros [H|[]]. auto.
Qed.

(* everything that can happen in one pass, with its cause *)
Definition rp_event_cause (env : renv) (inp : rinput) (e : event) : Prop :=
  (e = EvDuplicate /\ i_kind inp = 0 /\ i_known inp = true)
  \/ (e = EvReceived /\ i_kind inp = 0 /\ i_known inp = false)
  \/ (i_kind inp = 0 /\ i_known inp = false /\ rp_loop_event (i_bundle inp) e)
  \/ (e = EvDeleted RR_NOINFO /\ i_kind inp = 1 /\ rp_has_endpoint env (p_src (b_pri (i_bundle inp))) = false
      /\ p_src (b_pri (i_bundle inp)) <> DtnNone)
  \/ rp_dispatch_event env inp e.

Theorem events_sound env inp e :
  In e (rp_events (rp_process env inp)) -> rp_event_cause env inp e.
Proof.
  unfold rp_process, rp_event_cause.
  destruct (i_kind inp =? 0) eqn:Hk.
  - apply N.eqb_eq in Hk.
    destruct (i_known inp) eqn:Hkn; [cbn; intros [H|[]]; auto|].
    pose proof (unknown_loop_events env (i_receiver inp) (i_bundle inp) (i_now inp) (rp_indexed (b_blocks (i_bundle inp)))) as HL.
    destruct (rp_unknown_loop env (i_receiver inp) (i_bundle inp) (i_now inp) (rp_indexed (b_blocks (i_bundle inp)))) as [its d] eqn:El.
    cbn [fst] in HL.
    rewrite rp_events_ev, !rp_events_app. intros [H|H]; [auto|].
    apply in_app_or in H. destruct H as [H|H]; [exfalso; eapply if_ssr_ev_false; eauto|].
    apply in_app_or in H. destruct H as [H|H].
    + right; right; left. repeat split; auto. apply HL; auto. intros i c Hi. eapply indexed_in; eauto.
    + destruct d; [destruct H|]. right; right; right; right. apply dispatch_events; exact H.
  - destruct (i_kind inp =? 1) eqn:Hk1.
    + apply N.eqb_eq in Hk1.
      destruct (negb (eid_eqb (p_src (b_pri (i_bundle inp))) DtnNone) && negb (rp_has_endpoint env (p_src (b_pri (i_bundle inp))))) eqn:Hs.
      * intros H. apply deletion_events in H. right; right; right; left.
        apply andb_true_iff in Hs. destruct Hs as [A B]. apply negb_true_iff in A, B. repeat split; auto.
        intros E. rewrite E in A. cbn in A. discriminate.
      * intros H. right; right; right; right. apply dispatch_events; exact H.
    + intros H. right; right; right; right. apply dispatch_events; exact H.
Qed.

(* ---------- the executable checker ---------- *)
Lemma existsb_in_ev (p : event -> bool) evs e : In e evs -> p e = true -> existsb p evs = true.
Proof. intros H1 H2. apply existsb_exists. exists e. auto. Qed.

Lemma unknown_witness_block b evs : rp_unknown_report_witness b evs -> rp_unknown_report_block b = true.
Proof.
  intros (i & c & _ & Hin & Hk & Hf). unfold rp_unknown_report_block. apply existsb_exists. exists c. split; auto.
  rewrite Hk, Hf. reflexivity.
Qed.

Lemma frag_eqb_refl o : rp_frag_eqb o o = true.
Proof. destruct o as [[a b]|]; cbn; auto. rewrite !N.eqb_refl. reflexivity. Qed.

(* the model passes the property's checker, with the facts read off its own event list *)
Theorem model_passes_checker env inp r :
  In r (rp_reports (rp_process env inp)) ->
  rp_check env (i_bundle inp) (rp_facts_of (rp_events (rp_process env inp))) r = [].
Proof.
  intros H. destruct (good_process env inp r H) as (S & G & J). cbn [app] in J.
  destruct S as (Sf & Sd & _ & S1 & S2 & S3 & S4 & S5 & _). destruct G as (G1 & G2).
  unfold rp_check. rewrite Sf, Sd, S1, S2, S3, S4, S5, G1, G2.
  rewrite !eid_eqb_refl, !N.eqb_refl, frag_eqb_refl.
  assert (Ht : Bool.eqb (match (if has (p_flags (b_pri (i_bundle inp))) F_TIME then Some (i_now inp) else None) with
                         | Some _ => true | None => false end) (has (p_flags (b_pri (i_bundle inp))) F_TIME) = true)
    by (destruct (has (p_flags (b_pri (i_bundle inp))) F_TIME); reflexivity).
  rewrite Ht. cbn [negb andb orb rp_when app].
  change (has F_ADMIN F_ADMIN) with true. change (any_status_request F_ADMIN) with false. cbn [negb orb rp_when app].
  set (evs := rp_events (rp_process env inp)) in *.
  unfold rp_justified in J. destruct J as [J|[J|[J|[J|J]]]].
  - destruct J as (A & B & C & D). rewrite A, B. cbn [N.eqb SP_RECEIVED RR_NOINFO RR_UNSUPPORTED].
    change (0 =? 0) with true. change (0 =? 11) with false. cbv iota. rewrite D.
    cbn [rp_facts_of fa_received]. rewrite (existsb_in_ev rp_ev_eqb_recv evs EvReceived C eq_refl). reflexivity.
  - destruct J as (A & B & C & D). rewrite A, B.
    change (SP_RECEIVED =? SP_RECEIVED) with true. change (RR_UNSUPPORTED =? RR_UNSUPPORTED) with true. cbv iota.
    rewrite (unknown_witness_block _ _ D).
    cbn [rp_facts_of fa_received]. rewrite (existsb_in_ev rp_ev_eqb_recv evs EvReceived C eq_refl). reflexivity.
  - destruct J as (A & B & C & D & E). rewrite A.
    change (SP_FORWARDED =? SP_RECEIVED) with false. change (SP_FORWARDED =? SP_FORWARDED) with true. cbv iota. rewrite E.
    cbn [rp_facts_of fa_sent_ok]. rewrite (existsb_in_ev rp_ev_sent_ok evs (EvSend true) D eq_refl). reflexivity.
  - destruct J as (A & B & C & D). rewrite A.
    change (SP_DELIVERED =? SP_RECEIVED) with false. change (SP_DELIVERED =? SP_FORWARDED) with false.
    change (SP_DELIVERED =? SP_DELIVERED) with true. cbv iota. rewrite D.
    cbn [rp_facts_of fa_handed]. rewrite (existsb_in_ev rp_ev_handed evs EvDelivered C eq_refl). reflexivity.
  - destruct J as (A & C & D). rewrite A.
    change (SP_DELETED =? SP_RECEIVED) with false. change (SP_DELETED =? SP_FORWARDED) with false.
    change (SP_DELETED =? SP_DELIVERED) with false. change (SP_DELETED =? SP_DELETED) with true. cbv iota. rewrite D.
    cbn [rp_facts_of fa_deleted]. rewrite (existsb_in_ev rp_ev_deleted evs (EvDeleted (rpr_reason r)) C eq_refl). reflexivity.
Qed.

(* what an empty checker result means: the property's clauses, stated on the facts *)
Definition rp_property (env : renv) (b : bundle) (fa : rfacts) (r : rp_sreport) : Prop :=
  let p := b_pri b in
  let f := p_flags p in
  (* truthful and requested *)
  ((rpr_pos r = SP_RECEIVED /\ fa_received fa = true
      /\ (if rpr_reason r =? RR_UNSUPPORTED then rp_unknown_report_block b = true else has f F_RECEPTION = true))
   \/ (rpr_pos r = SP_FORWARDED /\ fa_sent_ok fa = true /\ has f F_FORWARD = true)
   \/ (rpr_pos r = SP_DELIVERED /\ fa_handed fa = true /\ has f F_DELIVERY = true)
   \/ (rpr_pos r = SP_DELETED /\ fa_deleted fa = true /\ has f F_DELETION = true))
  (* shape *)
  /\ has (rpr_flags r) F_ADMIN = true /\ any_status_request (rpr_flags r) = false
  /\ rpr_dst r = p_rpt p
  /\ sr_ref_src r = p_src p /\ sr_ref_time r = p_time p /\ sr_ref_seq r = p_seq p
  /\ sr_ref_frag r = (if has f F_FRAG then Some (p_off p, p_total p) else None)
  /\ ((exists t, rpr_time r = Some t) <-> has f F_TIME = true)
  (* no cascade *)
  /\ has f F_ADMIN = false
  /\ rp_has_endpoint env (p_rpt p) = false.

Lemma when_nil c code : rp_when c code = [] -> c = false.
Proof. destruct c; [discriminate | reflexivity]. Qed.

Lemma frag_eqb_eq a b : rp_frag_eqb a b = true -> a = b.
Proof.
  destruct a as [[x y]|], b as [[u v]|]; cbn; try discriminate; auto.
  intros H. apply andb_true_iff in H. destruct H as [H1 H2]. apply N.eqb_eq in H1, H2. subst; reflexivity.
Qed.

Theorem checker_sound env b fa r : rp_check env b fa r = [] -> rp_property env b fa r.
Proof.
  unfold rp_check, rp_property. intros H.
  apply app_eq_nil in H; destruct H as [H0 H].
  apply app_eq_nil in H; destruct H as [H1 H].
  apply app_eq_nil in H; destruct H as [H2 H].
  apply app_eq_nil in H; destruct H as [H3 H].
  apply app_eq_nil in H; destruct H as [H4 H].
  apply app_eq_nil in H; destruct H as [H5 H6].
  apply when_nil in H1, H2, H3, H4, H5, H6.
  split.
  - destruct (rpr_pos r =? SP_RECEIVED) eqn:E0.
    { apply N.eqb_eq in E0. left. apply app_eq_nil in H0. destruct H0 as [A B]. apply when_nil in A, B.
      apply negb_false_iff in A, B. split; auto. split; auto.
      destruct (rpr_reason r =? RR_UNSUPPORTED); auto. }
    destruct (rpr_pos r =? SP_FORWARDED) eqn:E1.
    { apply N.eqb_eq in E1. right; left. apply app_eq_nil in H0. destruct H0 as [A B]. apply when_nil in A, B.
      apply negb_false_iff in A, B. auto. }
    destruct (rpr_pos r =? SP_DELIVERED) eqn:E2.
    { apply N.eqb_eq in E2. right; right; left. apply app_eq_nil in H0. destruct H0 as [A B]. apply when_nil in A, B.
      apply negb_false_iff in A, B. auto. }
    destruct (rpr_pos r =? SP_DELETED) eqn:E3.
    { apply N.eqb_eq in E3. right; right; right. apply app_eq_nil in H0. destruct H0 as [A B]. apply when_nil in A, B.
      apply negb_false_iff in A, B. auto. }
    discriminate.
  - apply orb_false_iff in H1. destruct H1 as [A B]. apply negb_false_iff in A.
    apply negb_false_iff in H2. apply eid_eqb_eq in H2.
    apply negb_false_iff in H3. apply andb_true_iff in H3. destruct H3 as [H3 F4].
    apply andb_true_iff in H3. destruct H3 as [H3 F3]. apply andb_true_iff in H3. destruct H3 as [F1 F2].
    apply eid_eqb_eq in F1. apply N.eqb_eq in F2, F3. apply frag_eqb_eq in F4.
    apply negb_false_iff in H4. apply Bool.eqb_prop in H4.
    repeat split; auto.
    + intros (t & Et). rewrite Et in H4. auto.
    + intros Ht. rewrite Ht in H4. destruct (rpr_time r); [eauto | discriminate].
Qed.

(* the shape statement in full, as the property file quotes it *)
Theorem report_shape_full env inp r :
  In r (rp_reports (rp_process env inp)) ->
  let p := b_pri (i_bundle inp) in
  has (rpr_flags r) F_ADMIN = true /\ any_status_request (rpr_flags r) = false
  /\ rpr_dst r = p_rpt p
  /\ sr_ref_src r = p_src p /\ sr_ref_time r = p_time p /\ sr_ref_seq r = p_seq p
  /\ sr_ref_frag r = (if has (p_flags p) F_FRAG then Some (p_off p, p_total p) else None)
  /\ ((exists t, rpr_time r = Some t) <-> has (p_flags p) F_TIME = true)
  /\ (forall t, rpr_time r = Some t -> t = i_now inp)
  /\ rpr_pos r <= 3
  /\ (rp_has_endpoint env (rpr_src r) = true \/ rpr_src r = rn_node env).
Proof.
  intros H p. destruct (good_process env inp r H) as (S & _ & J). cbn [app] in J.
  destruct S as (Sf & Sd & _ & S1 & S2 & S3 & S4 & S5 & S6). fold p in Sd, S1, S2, S3, S4, S5.
  rewrite Sf. split; [reflexivity|]. split; [reflexivity|].
  repeat (split; [assumption|]).
  split; [|split; [|split]].
  - rewrite S5. destruct (has (p_flags p) F_TIME); split; intros; eauto; try discriminate.
    destruct H0 as (t & Ht). discriminate.
  - intros t Ht. rewrite S5 in Ht. destruct (has (p_flags p) F_TIME); [congruence | discriminate].
  - unfold rp_justified in J. destruct J as [J|[J|[J|[J|J]]]]; destruct J as (A & _); rewrite A; cbv; discriminate.
  - exact S6.
Qed.

(* ------------------------------------------------------------------------------------------ *)
(* the report on the wire                                                                       *)
(* ------------------------------------------------------------------------------------------ *)
From DTN Require Import AuxCbor AuxCborProofs.

(* every report the model emits names, on the wire, the exact ID of the bundle it is about *)
Theorem report_wire_exact_id : forall env inp r,
  In r (rp_reports (rp_process env inp)) -> sr_ref (rp_wire_sreport r) = rp_bundle_bid (i_bundle inp).
Proof.
  intros env inp r Hin. destruct (report_shape_full env inp r Hin) as (_ & _ & _ & Hs & Ht & Hq & Hf & _).
  cbn [rp_wire_sreport sr_ref]. unfold rp_wire_bid, rp_bundle_bid. rewrite Hs, Ht, Hq, Hf.
  destruct (has (p_flags (b_pri (i_bundle inp))) F_FRAG); reflexivity.
Qed.

(* the wire form exists and the reference decoder reads exactly this report back from it *)
Theorem report_wire_roundtrip : forall r,
  sreport_wf (rp_wire_sreport r) = true ->
  exists bs, rp_wire r = Some bs
             /\ forall rest, dec_admrec (bs ++ rest) = Ok (ARStatus (rp_wire_sreport r)) rest.
Proof.
  intros r H. exists (admrec_bytes (ARStatus (rp_wire_sreport r))). split.
  - unfold rp_wire. apply enc_admrec_ok. exact H.
  - intros rest. unfold dec_admrec. rewrite (yields_to_res _ _ _ (yields_admrec (ARStatus (rp_wire_sreport r)) rest H)). reflexivity.
Qed.
