(* ReasmProofs.v - reassembly accepts exactly the covering sets of fragments (C10). *)
From Coq Require Import ZifyN ZifyNat ZifyBool Permutation Sorted.
From DTN Require Import Base Reasm.
Open Scope N_scope.

(* ---- specification vocabulary --------------------------------------------------------------- *)
(* byte position i of the original payload is present in some fragment of fs *)
Definition covered (fs : list rs_frag) (i : N) : Prop :=
  exists f, In f fs /\ fr_off f <= i < rs_end f.
(* the union of the fragments' intervals contains [0,total) *)
Definition covers (fs : list rs_frag) (total : N) : Prop := forall i, i < total -> covered fs i.

(* f is a fragment of the bundle with payload p and extension blocks bl: Is-Fragment flag, the
   original total, the payload slice at its offset; all blocks at offset 0, the replicated ones
   elsewhere.  (Any offset / length inside the payload - not only what one Fragment call yields.) *)
Definition frag_of (p : list N) (bl : list (N * bool)) (f : rs_frag) : Prop :=
  fr_isfrag f = true /\ fr_total f = nlen p /\ rs_end f <= nlen p /\
  fr_data f = firstn (length (fr_data f)) (skipn (N.to_nat (fr_off f)) p) /\
  fr_blocks f = (if fr_off f =? 0 then bl else rs_replicated bl).

(* the unfragmented bundle as input of Fragment *)
Definition whole (p : list N) (bl : list (N * bool)) : rs_frag :=
  {| fr_off := 0; fr_total := 0; fr_data := p; fr_isfrag := false; fr_blocks := bl |}.

Definition off_le (a b : rs_frag) : Prop := fr_off a <= fr_off b.
Definition sorted_by_off (s : list rs_frag) : Prop := StronglySorted off_le s.

Lemma covered_perm : forall s fs i, Permutation s fs -> covered s i -> covered fs i.
Proof.
  intros s fs i HP [f [Hin Hr]]. exists f. split; [eapply Permutation_in; eauto | exact Hr].
Qed.

Lemma covers_perm : forall s fs t, Permutation s fs -> (covers s t <-> covers fs t).
Proof.
  intros s fs t HP; split; intros H i Hi.
  - eapply covered_perm; eauto.
  - eapply covered_perm; [apply Permutation_sym; eauto | auto].
Qed.

Lemma covered_cons : forall f s i, covered (f :: s) i <-> (fr_off f <= i < rs_end f) \/ covered s i.
Proof.
  intros f s i; split.
  - intros [g [[Hg | Hg] Hr]]; [subst; left; exact Hr | right; exists g; auto].
  - intros [Hr | [g [Hg Hr]]]; [exists f; simpl; auto | exists g; simpl; auto].
Qed.

Lemma covered_nil : forall i, ~ covered [] i.
Proof. intros i [f [[] _]]. Qed.

Lemma covered_app : forall a b i, covered (a ++ b) i <-> covered a i \/ covered b i.
Proof.
  intros a b i; split.
  - intros [f [Hin Hr]]. apply in_app_or in Hin. destruct Hin; [left | right]; exists f; auto.
  - intros [[f [Hin Hr]] | [f [Hin Hr]]]; exists f; split; auto; apply in_or_app; auto.
Qed.

(* ---- the sort ----------------------------------------------------------------------------------- *)
Lemma insert_perm : forall f l, Permutation (rs_insert f l) (f :: l).
Proof.
  induction l as [| g l IH]; simpl; [apply Permutation_refl |].
  destruct (fr_off f <=? fr_off g); [apply Permutation_refl |].
  eapply Permutation_trans; [apply perm_skip; exact IH | apply perm_swap].
Qed.

Lemma sort_perm : forall l, Permutation (rs_sort l) l.
Proof.
  induction l as [| f l IH]; simpl; [constructor |].
  eapply Permutation_trans; [apply insert_perm | apply perm_skip; exact IH].
Qed.

Lemma insert_sorted : forall f l, sorted_by_off l -> sorted_by_off (rs_insert f l).
Proof.
  unfold sorted_by_off. induction l as [| g l IH]; simpl; intros Hs.
  - constructor; constructor.
  - inversion Hs as [| ? ? Hs' Hall]; subst.
    destruct (fr_off f <=? fr_off g) eqn:E.
    + constructor; [exact Hs |]. constructor; [unfold off_le; lia |].
      eapply Forall_impl; [| exact Hall]. unfold off_le; intros; lia.
    + constructor; [apply IH; exact Hs' |].
      eapply Permutation_Forall; [apply Permutation_sym; apply insert_perm |].
      constructor; [unfold off_le; lia | exact Hall].
Qed.

Lemma sort_sorted : forall l, sorted_by_off (rs_sort l).
Proof.
  induction l as [| f l IH]; simpl; [constructor | apply insert_sorted; exact IH].
Qed.

(* ---- the scan ----------------------------------------------------------------------------------- *)
Lemma scan_inr : forall s last last', rs_scan last s = inr last' ->
  last <= last'
  /\ (forall f, In f s -> fr_isfrag f = true /\ rs_end f <= last')
  /\ (forall i, last <= i < last' -> covered s i)
  /\ (last' = last \/ exists f, In f s /\ rs_end f = last').
Proof.
  induction s as [| f s IH]; simpl; intros last last' H.
  - inversion H; subst. split; [lia |]. split; [intros f [] |]. split; [intros; lia | left; reflexivity].
  - destruct (fr_isfrag f) eqn:Ef; simpl in H; [| discriminate].
    destruct (last <? fr_off f) eqn:Eg; [discriminate |].
    destruct (last <? rs_end f) eqn:Ee; apply IH in H; destruct H as [H1 [H2 [H3 H4]]].
    + split; [lia |]. split; [| split].
      * intros g [<- | Hin]; [split; [exact Ef | lia] | apply H2; exact Hin].
      * intros i Hi. apply covered_cons.
        destruct (i <? rs_end f) eqn:Ei; [left; lia | right; apply H3; lia].
      * destruct H4 as [-> | [g [Hg He]]]; right; [exists f | exists g]; simpl; auto.
    + split; [lia |]. split; [| split].
      * intros g [<- | Hin]; [split; [exact Ef | lia] | apply H2; exact Hin].
      * intros i Hi. apply covered_cons. right; apply H3; lia.
      * destruct H4 as [-> | [g [Hg He]]]; [left; reflexivity | right; exists g; simpl; auto].
Qed.

Lemma scan_gap : forall s last, sorted_by_off s -> rs_scan last s = inl RsGap ->
  exists i g, last <= i /\ ~ covered s i /\ In g s /\ i < fr_off g.
Proof.
  unfold sorted_by_off. induction s as [| f s IH]; simpl; intros last Hs H; [discriminate |].
  inversion Hs as [| ? ? Hs' Hall]; subst.
  destruct (fr_isfrag f) eqn:Ef; simpl in H; [| discriminate].
  destruct (last <? fr_off f) eqn:Eg.
  - exists last, f. repeat split; [lia | | auto | lia].
    intros Hc. apply covered_cons in Hc. destruct Hc as [Hc | [g [Hg Hc]]]; [lia |].
    rewrite Forall_forall in Hall. specialize (Hall g Hg). unfold off_le in Hall. lia.
  - destruct (last <? rs_end f) eqn:Ee; (apply IH in H; [| exact Hs']);
      destruct H as [i [g [Hi [Hnc [Hg Hlt]]]]]; exists i, g;
      (split; [lia |]); (split; [| split; [right; exact Hg | exact Hlt]]);
      intros Hc; apply covered_cons in Hc; (destruct Hc as [Hc | Hc]; [lia | auto]).
Qed.

Lemma scan_notfrag : forall s last, rs_scan last s = inl RsNotFragment ->
  exists f, In f s /\ fr_isfrag f = false.
Proof.
  induction s as [| f s IH]; simpl; intros last H; [discriminate |].
  destruct (fr_isfrag f) eqn:Ef; simpl in H.
  - destruct (last <? fr_off f); [discriminate |].
    apply IH in H. destruct H as [g [Hg Hf]]. exists g; auto.
  - exists f; auto.
Qed.

Lemma scan_errs : forall s last e, rs_scan last s = inl e -> e = RsGap \/ e = RsNotFragment.
Proof.
  induction s as [| f s IH]; simpl; intros last e H; [discriminate |].
  destruct (fr_isfrag f); simpl in H; [| inversion H; auto].
  destruct (last <? fr_off f); [inversion H; auto | eapply IH; eauto].
Qed.

(* ---- the merge never leaves the fragment's payload (for ANY list that passed the scan) ------- *)
Lemma merge_no_panic : forall s last last' acc,
  rs_scan last s = inr last' -> rs_merge last acc s <> None.
Proof.
  induction s as [| f s IH]; cbn [rs_scan rs_merge]; intros last last' acc H; [discriminate |].
  destruct (fr_isfrag f); cbn [negb] in H; [| discriminate].
  destruct (last <? fr_off f) eqn:Eg; [discriminate |].
  destruct (last <? rs_end f) eqn:Ee.
  - assert (Hb : (false || (nlen (fr_data f) <? last - fr_off f)) = false).
    { unfold rs_end, nlen in *. lia. }
    rewrite Hb. eapply IH; eauto.
  - eapply IH; eauto.
Qed.

Theorem reassemble_sorted_no_panic : forall s, rs_reassemble_sorted s <> RsPanic.
Proof.
  intros s. unfold rs_reassemble_sorted, rs_prepare_sorted.
  destruct s as [| f0 s]; [discriminate |].
  destruct (rs_scan 0 (f0 :: s)) as [e | last] eqn:Es; [discriminate |].
  destruct (fr_total f0 =? last); [| discriminate].
  destruct (rs_merge 0 [] (f0 :: s)) eqn:Em; [discriminate |].
  exfalso. eapply merge_no_panic; eauto.
Qed.

Theorem reassemble_no_panic : forall fs, rs_reassemble fs <> RsPanic.
Proof. intros; apply reassemble_sorted_no_panic. Qed.

(* ---- list arithmetic -------------------------------------------------------------------------- *)
Lemma firstn_app_skipn : forall {A} a k (l : list A),
  firstn a l ++ firstn k (skipn a l) = firstn (a + k) l.
Proof.
  induction a as [| a IH]; intros k l; simpl; [reflexivity |].
  destruct l as [| x l]; simpl; [rewrite firstn_nil; reflexivity |].
  rewrite IH. reflexivity.
Qed.

Lemma skipn_skipn_add : forall {A} (y x : nat) (l : list A), skipn x (skipn y l) = skipn (y + x) l.
Proof.
  induction y as [| y IH]; intros x l; simpl; [reflexivity |].
  destruct l as [| a l]; [rewrite skipn_nil; reflexivity | apply IH].
Qed.

Lemma skipn_firstn_skipn : forall {A} (m n o : nat) (l : list A),
  skipn m (firstn n (skipn o l)) = firstn (n - m) (skipn (o + m) l).
Proof.
  intros. rewrite skipn_firstn_comm. rewrite skipn_skipn_add. reflexivity.
Qed.

(* appending the part of a fragment beyond [a] extends a prefix of p to a longer prefix *)
Lemma merge_step_prefix : forall (p data : list N) (o a : nat),
  data = firstn (length data) (skipn o p) ->
  (o <= a)%nat -> (a <= o + length data)%nat -> (o + length data <= length p)%nat ->
  firstn a p ++ skipn (a - o) data = firstn (o + length data) p.
Proof.
  intros p data o a Hd H1 H2 H3.
  rewrite Hd at 1. rewrite skipn_firstn_skipn.
  replace (o + (a - o))%nat with a by lia.
  rewrite firstn_app_skipn. f_equal. lia.
Qed.

Lemma merge_ok : forall p bl s last last' acc,
  Forall (frag_of p bl) s -> last <= nlen p ->
  rs_scan last s = inr last' -> acc = firstn (N.to_nat last) p ->
  rs_merge last acc s = Some (firstn (N.to_nat last') p).
Proof.
  induction s as [| f s IH]; cbn [rs_scan rs_merge]; intros last last' acc HF Hl H Hacc.
  - inversion H; subst. reflexivity.
  - inversion HF as [| ? ? Hf HF']; subst.
    destruct Hf as [Hi [Ht [He [Hd Hb]]]].
    rewrite Hi in H; cbn [negb] in H.
    destruct (last <? fr_off f) eqn:Eg; [discriminate |].
    destruct (last <? rs_end f) eqn:Ee.
    + assert (Hc : (false || (nlen (fr_data f) <? last - fr_off f)) = false).
      { unfold rs_end, nlen in *. lia. }
      rewrite Hc. eapply IH; eauto.
      unfold rs_end, nlen in *.
      replace (N.to_nat (last - fr_off f)) with (N.to_nat last - N.to_nat (fr_off f))%nat by lia.
      rewrite (merge_step_prefix p (fr_data f) (N.to_nat (fr_off f)) (N.to_nat last)); try lia; [| exact Hd].
      f_equal. lia.
    + eapply IH; eauto.
Qed.

(* ---- ReassembleFragments on a sorted list of fragments of one bundle ---------------------------- *)
Lemma reassemble_sorted_spec : forall p bl s,
  Forall (frag_of p bl) s -> sorted_by_off s ->
  ((s <> [] /\ covers s (nlen p)) /\ rs_reassemble_sorted s = RsOk p bl)
  \/ (~ (s <> [] /\ covers s (nlen p)) /\ exists e, rs_reassemble_sorted s = RsErr e).
Proof.
  intros p bl s HF Hs.
  destruct s as [| f0 s'] eqn:Es0.
  { right. split; [intros [H _]; auto | exists RsEmpty; reflexivity]. }
  rewrite <- Es0 in *.
  assert (Hne : s <> []) by (rewrite Es0; discriminate).
  unfold rs_reassemble_sorted, rs_prepare_sorted.
  rewrite Es0. rewrite <- Es0.
  destruct (rs_scan 0 s) as [e | last] eqn:Esc.
  - (* scan fails: a gap (not-a-fragment is excluded) *)
    right. split; [| exists e; reflexivity].
    intros [_ Hcov].
    destruct (scan_errs _ _ _ Esc) as [-> | ->].
    + destruct (scan_gap _ _ Hs Esc) as [i [g [_ [Hnc [Hg Hlt]]]]].
      apply Hnc. apply Hcov.
      rewrite Forall_forall in HF. destruct (HF g Hg) as [_ [_ [He _]]].
      unfold rs_end, nlen in *. lia.
    + destruct (scan_notfrag _ _ Esc) as [g [Hg Hf]].
      rewrite Forall_forall in HF. destruct (HF g Hg) as [Hi _]. congruence.
  - destruct (scan_inr _ _ _ Esc) as [_ [Hends [Hcov Hlast]]].
    assert (Hf0 : frag_of p bl f0) by (rewrite Es0 in HF; inversion HF; auto).
    destruct Hf0 as [_ [Ht0 [_ [_ Hb0]]]].
    assert (Hle : last <= nlen p).
    { destruct Hlast as [-> | [g [Hg He]]]; [lia |].
      rewrite Forall_forall in HF. destruct (HF g Hg) as [_ [_ [Hge _]]]. lia. }
    destruct (fr_total f0 =? last) eqn:Et.
    + (* complete *)
      left. split.
      * split; [exact Hne |]. intros i Hi. apply Hcov. lia.
      * rewrite Es0. rewrite <- Es0.
        rewrite (merge_ok p bl s 0 last []); auto; try lia.
        assert (Hoff : fr_off f0 = 0).
        { rewrite Es0 in Esc. simpl in Esc.
          destruct (fr_isfrag f0); simpl in Esc; [| discriminate].
          destruct (0 <? fr_off f0) eqn:E0; [discriminate | lia]. }
        rewrite Hb0, Hoff. simpl.
        f_equal. replace last with (nlen p) by lia.
        unfold nlen. rewrite Nat2N.id. apply firstn_all.
    + (* total differs: the byte at [last] is missing *)
      right. split; [| exists RsTotal; reflexivity].
      intros [_ Hc]. assert (Hlt : last < nlen p) by lia.
      destruct (Hc last Hlt) as [g [Hg Hr]].
      destruct (Hends g Hg) as [_ Hge]. lia.
Qed.

(* the statement for the input in ANY order and ANY sorted permutation the sort may produce *)
Theorem reassemble_iff_cover : forall p bl fs s,
  Forall (frag_of p bl) fs -> Permutation s fs -> sorted_by_off s ->
  (rs_reassemble_sorted s = RsOk p bl <-> fs <> [] /\ covers fs (nlen p))
  /\ (rs_reassemble_sorted s = RsOk p bl \/ exists e, rs_reassemble_sorted s = RsErr e).
Proof.
  intros p bl fs s HF HP Hs.
  assert (HFs : Forall (frag_of p bl) s).
  { eapply Permutation_Forall; [apply Permutation_sym; exact HP | exact HF]. }
  assert (Hiff : (s <> [] /\ covers s (nlen p)) <-> (fs <> [] /\ covers fs (nlen p))).
  { rewrite (covers_perm s fs _ HP). split; intros [Hn Hc]; split; auto; intros ->.
    - apply Permutation_sym, Permutation_nil in HP; auto.
    - apply Permutation_nil in HP; auto. }
  destruct (reassemble_sorted_spec p bl s HFs Hs) as [[Hc Ho] | [Hc [e He]]].
  - split; [split; [intros _; apply Hiff; exact Hc | intros _; exact Ho] | left; exact Ho].
  - split; [split; [rewrite He; discriminate | intros H; exfalso; apply Hc, Hiff, H] | right; eauto].
Qed.

Corollary reassemble_own_sort : forall p bl fs,
  Forall (frag_of p bl) fs ->
  (rs_reassemble fs = RsOk p bl <-> fs <> [] /\ covers fs (nlen p))
  /\ (rs_reassemble fs = RsOk p bl \/ exists e, rs_reassemble fs = RsErr e).
Proof.
  intros. unfold rs_reassemble. apply reassemble_iff_cover; auto using sort_perm, sort_sorted.
Qed.

Lemma is_reassemblable_sorted_ok : forall s,
  rs_is_reassemblable_sorted s = true <-> exists d b, rs_reassemble_sorted s = RsOk d b.
Proof.
  intros s. unfold rs_is_reassemblable_sorted.
  pose proof (reassemble_sorted_no_panic s) as Hnp. revert Hnp.
  unfold rs_reassemble_sorted.
  destruct (rs_prepare_sorted s) as [e |] eqn:Ep.
  - intros _; split; [discriminate | intros [d [b H]]; discriminate].
  - destruct s as [| f0 s']; [simpl in Ep; discriminate |].
    destruct (rs_merge 0 [] (f0 :: s')) as [d |]; intros Hnp.
    + split; [intros _; eauto | auto].
    + exfalso; apply Hnp; reflexivity.
Qed.

Theorem is_reassemblable_iff_cover : forall p bl fs s,
  Forall (frag_of p bl) fs -> Permutation s fs -> sorted_by_off s ->
  (rs_is_reassemblable_sorted s = true <-> fs <> [] /\ covers fs (nlen p)).
Proof.
  intros p bl fs s HF HP Hs.
  destruct (reassemble_iff_cover p bl fs s HF HP Hs) as [Hiff Hor].
  rewrite is_reassemblable_sorted_ok. rewrite <- Hiff. split.
  - intros [d [b H]]. destruct Hor as [Ho | [e He]]; [exact Ho | congruence].
  - intros H; eauto.
Qed.

(* ---- Fragment applied to a fragment --------------------------------------------------------------- *)
Definition parent_ok (p : list N) (bl : list (N * bool)) (f : rs_frag) : Prop :=
  frag_of p bl f \/ f = whole p bl.

Lemma replicated_idem : forall bl, rs_replicated (rs_replicated bl) = rs_replicated bl.
Proof.
  unfold rs_replicated. induction bl as [| [i r] bl IH]; simpl; [reflexivity |].
  destruct r; simpl; [rewrite IH; reflexivity | exact IH].
Qed.

Lemma refrag_loop_in : forall f parts i c, In c (rs_refrag_loop f i parts) ->
  exists j sz, i <= j < nlen (fr_data f)
    /\ fr_off c = rs_base f + j /\ fr_total c = rs_total f /\ fr_isfrag c = true
    /\ fr_data c = firstn sz (skipn (N.to_nat j) (fr_data f))
    /\ fr_blocks c = (if j =? 0 then fr_blocks f else rs_replicated (fr_blocks f)).
Proof.
  induction parts as [| sz parts IH]; simpl; intros i c H; [contradiction |].
  destruct (i <? nlen (fr_data f)) eqn:E; [| contradiction].
  destruct H as [<- | H].
  - exists i, (N.to_nat sz). simpl. repeat split; auto; lia.
  - apply IH in H. destruct H as [j [sz' [Hj H]]]. exists j, sz'. split; [lia | exact H].
Qed.

Lemma parent_data : forall p bl f, parent_ok p bl f ->
  fr_data f = firstn (length (fr_data f)) (skipn (N.to_nat (rs_base f)) p)
  /\ rs_base f + nlen (fr_data f) <= nlen p /\ rs_total f = nlen p
  /\ fr_blocks f = (if rs_base f =? 0 then bl else rs_replicated bl).
Proof.
  intros p bl f [[Hi [Ht [He [Hd Hb]]]] | ->].
  - unfold rs_base, rs_total. rewrite Hi. repeat split; auto.
  - unfold rs_base, rs_total, whole; simpl. repeat split; auto; try lia.
    symmetry; apply firstn_all.
Qed.

(* a piece of a fragment (or of the whole bundle) is again a fragment of the ORIGINAL bundle *)
Lemma piece_frag_of : forall p bl f c j sz, parent_ok p bl f ->
  j < nlen (fr_data f) ->
  fr_off c = rs_base f + j -> fr_total c = rs_total f -> fr_isfrag c = true ->
  fr_data c = firstn sz (skipn (N.to_nat j) (fr_data f)) ->
  fr_blocks c = (if j =? 0 then fr_blocks f else rs_replicated (fr_blocks f)) ->
  frag_of p bl c.
Proof.
  intros p bl f c j sz Hp Hj Ho Ht Hi Hd Hb.
  destruct (parent_data p bl f Hp) as [Pd [Pe [Pt Pb]]].
  assert (Hlen : length (fr_data c) = Nat.min sz (length (fr_data f) - N.to_nat j)).
  { rewrite Hd. rewrite firstn_length, skipn_length. reflexivity. }
  unfold frag_of. repeat split.
  - exact Hi.
  - congruence.
  - unfold rs_end, nlen in *. lia.
  - rewrite Hd at 1. rewrite Pd at 1.
    rewrite skipn_firstn_skipn. rewrite firstn_firstn.
    rewrite Hlen. rewrite Ho. f_equal. f_equal. unfold nlen in *. lia.
  - rewrite Hb, Ho, Pb. destruct (j =? 0) eqn:Ej.
    + replace (rs_base f + j) with (rs_base f) by lia. reflexivity.
    + replace (rs_base f + j =? 0) with false by lia.
      destruct (rs_base f =? 0); [reflexivity | apply replicated_idem].
Qed.

Theorem refragment_spec : forall p bl f parts c,
  parent_ok p bl f -> In c (rs_refragment f parts) ->
  c = f \/ (frag_of p bl c /\ fr_total c = rs_total f /\
            exists j, j < nlen (fr_data f) /\ fr_off c = rs_base f + j).
Proof.
  intros p bl f parts c Hp Hin.
  assert (H : c = f \/ In c (rs_refrag_loop f 0 parts)).
  { unfold rs_refragment in Hin. destruct (rs_refrag_loop f 0 parts) as [| x [| y l]]; auto.
    destruct Hin as [<- | []]; auto. }
  destruct H as [-> | H]; [left; reflexivity | right].
  apply refrag_loop_in in H. destruct H as [j [sz [Hj [Ho [Ht [Hi [Hd Hb]]]]]]].
  split; [eapply piece_frag_of; eauto; lia |]. split; [exact Ht |]. exists j; split; [lia | exact Ho].
Qed.

(* the pieces cover exactly the parent's interval (piece sizes positive and sufficient) *)
Lemma refrag_loop_cover : forall f parts i x,
  Forall (fun sz => 0 < sz) parts -> nlen (fr_data f) <= i + fold_right N.add 0 parts ->
  (covered (rs_refrag_loop f i parts) x <-> rs_base f + i <= x < rs_base f + nlen (fr_data f)).
Proof.
  induction parts as [| sz parts IH]; simpl; intros i x Hpos Hsum.
  - split; [intros H; exfalso; eapply covered_nil; eauto | lia].
  - inversion Hpos as [| ? ? Hsz Hpos']; subst.
    destruct (i <? nlen (fr_data f)) eqn:E.
    + rewrite covered_cons. rewrite IH; [| exact Hpos' | lia].
      unfold rs_end; simpl.
      assert (Hl : nlen (firstn (N.to_nat sz) (skipn (N.to_nat i) (fr_data f)))
                   = N.min sz (nlen (fr_data f) - i)).
      { unfold nlen. rewrite firstn_length, skipn_length. lia. }
      rewrite Hl. lia.
    + split; [intros H; exfalso; eapply covered_nil; eauto | lia].
Qed.

Theorem refragment_cover : forall p bl f parts x,
  parent_ok p bl f ->
  Forall (fun sz => 0 < sz) parts -> nlen (fr_data f) <= fold_right N.add 0 parts ->
  (covered (rs_refragment f parts) x <-> covered [f] x).
Proof.
  intros p bl f parts x Hp Hpos Hsum.
  assert (Hf : covered [f] x <-> rs_base f + 0 <= x < rs_base f + nlen (fr_data f)).
  { rewrite covered_cons. unfold rs_end.
    assert (fr_off f = rs_base f).
    { destruct Hp as [[Hi _] | ->]; unfold rs_base; [rewrite Hi; reflexivity | reflexivity]. }
    split; [intros [H1 | H1]; [lia | exfalso; eapply covered_nil; eauto] | intros; left; lia]. }
  pose proof (refrag_loop_cover f parts 0 x Hpos ltac:(lia)) as Hl.
  unfold rs_refragment.
  destruct (rs_refrag_loop f 0 parts) as [| c [| d l]] eqn:E.
  - rewrite Hf. exact Hl.
  - reflexivity.   (* a single piece is replaced by the parent itself *)
  - rewrite Hf. exact Hl.
Qed.

(* ---- the store's part list ------------------------------------------------------------------------ *)
(* no fragment is pushed after a SHORTER one with the same (offset,total) *)
Fixpoint no_later_longer (fs : list rs_frag) : Prop :=
  match fs with
  | [] => True
  | f :: l => (forall g, In g l -> fr_off g = fr_off f -> fr_total g = fr_total f ->
                         nlen (fr_data g) <= nlen (fr_data f))
              /\ no_later_longer l
  end.

Lemma store_push_in : forall parts f g, In g (rs_store_push parts f) -> In g parts \/ g = f.
Proof.
  induction parts as [| h parts IH]; simpl; intros f g H.
  - destruct H as [<- | []]; auto.
  - destruct ((fr_off h =? fr_off f) && (fr_total h =? fr_total f)); [left; exact H |].
    destruct H as [<- | H]; [left; left; reflexivity |].
    apply IH in H. destruct H; auto.
Qed.

Lemma store_push_keeps : forall parts f g, In g parts -> In g (rs_store_push parts f).
Proof.
  induction parts as [| h parts IH]; simpl; intros f g H; [contradiction |].
  destruct ((fr_off h =? fr_off f) && (fr_total h =? fr_total f)); [exact H |].
  destruct H as [<- | H]; [left; reflexivity | right; apply IH; exact H].
Qed.

Lemma store_push_new : forall parts f,
  In f (rs_store_push parts f)
  \/ exists g, In g parts /\ fr_off g = fr_off f /\ fr_total g = fr_total f.
Proof.
  induction parts as [| h parts IH]; simpl; intros f; [left; left; reflexivity |].
  destruct ((fr_off h =? fr_off f) && (fr_total h =? fr_total f)) eqn:E.
  - right. exists h. split; [left; reflexivity | lia].
  - destruct (IH f) as [H | [g [Hg H]]]; [left; right; exact H | right; exists g; auto].
Qed.

Lemma store_fold_cover : forall fs parts,
  (forall g f, In g parts -> In f fs -> fr_off g = fr_off f -> fr_total g = fr_total f ->
               nlen (fr_data f) <= nlen (fr_data g)) ->
  no_later_longer fs ->
  (forall g, In g (fold_left rs_store_push fs parts) -> In g parts \/ In g fs)
  /\ (forall i, covered (fold_left rs_store_push fs parts) i <-> covered parts i \/ covered fs i).
Proof.
  induction fs as [| f fs IH]; simpl; intros parts H1 H2.
  - split; [auto |]. intros i; split; [auto | intros [H | H]; [exact H | exfalso; eapply covered_nil; eauto]].
  - destruct H2 as [H2 H3].
    assert (H1' : forall g f', In g (rs_store_push parts f) -> In f' fs -> fr_off g = fr_off f' ->
                               fr_total g = fr_total f' -> nlen (fr_data f') <= nlen (fr_data g)).
    { intros g f' Hg Hf' Ho Ht. apply store_push_in in Hg. destruct Hg as [Hg | ->].
      - apply (H1 g f'); auto.
      - apply H2; auto. }
    destruct (IH (rs_store_push parts f) H1' H3) as [IHin IHcov].
    split.
    + intros g Hg. apply IHin in Hg. destruct Hg as [Hg | Hg]; [| auto].
      apply store_push_in in Hg. destruct Hg as [Hg | ->]; auto.
    + intros i. rewrite IHcov. rewrite covered_cons.
      assert (Hp : covered (rs_store_push parts f) i <-> covered parts i \/ (fr_off f <= i < rs_end f)).
      { split.
        - intros [g [Hg Hr]]. apply store_push_in in Hg. destruct Hg as [Hg | ->]; [left; exists g; auto | right; exact Hr].
        - intros [[g [Hg Hr]] | Hr].
          + exists g; split; [apply store_push_keeps; exact Hg | exact Hr].
          + destruct (store_push_new parts f) as [Hn | [g [Hg [Ho Ht]]]].
            * exists f; auto.
            * exists g. split; [apply store_push_keeps; exact Hg |].
              pose proof (H1 g f Hg (or_introl eq_refl) Ho Ht). unfold rs_end in *. lia. }
      rewrite Hp. tauto.
Qed.

Theorem store_complete_iff_cover : forall p bl fs,
  Forall (frag_of p bl) fs -> no_later_longer fs ->
  (rs_store_is_complete (rs_store_push_all fs) = true <-> fs <> [] /\ covers fs (nlen p))
  /\ (rs_store_load (rs_store_push_all fs) = RsOk p bl <-> fs <> [] /\ covers fs (nlen p))
  /\ (rs_store_load (rs_store_push_all fs) = RsOk p bl \/ exists e, rs_store_load (rs_store_push_all fs) = RsErr e).
Proof.
  intros p bl fs HF Hn.
  unfold rs_store_push_all, rs_store_is_complete, rs_store_load.
  destruct (store_fold_cover fs [] (fun g f H => False_ind _ H) Hn) as [Hin Hcov].
  set (parts := fold_left rs_store_push fs []) in *.
  assert (HFp : Forall (frag_of p bl) parts).
  { rewrite Forall_forall in *. intros g Hg. destruct (Hin g Hg) as [[] | H]; auto. }
  assert (Hc : (parts <> [] /\ covers parts (nlen p)) <-> (fs <> [] /\ covers fs (nlen p))).
  { assert (Hcv : covers parts (nlen p) <-> covers fs (nlen p)).
    { unfold covers. split; intros H i Hi; specialize (H i Hi); apply Hcov in H || apply Hcov; auto.
      destruct H as [H | H]; [exfalso; eapply covered_nil; eauto | exact H]. }
    rewrite Hcv. split; intros [Hne Hcs]; split; auto.
    - intros ->. apply Hne. reflexivity.
    - intros Hp. destruct fs as [| f fs']; [apply Hne; reflexivity |].
      (* the first pushed fragment is kept *)
      assert (In f parts).
      { subst parts. simpl.
        assert (forall l a, In f a -> In f (fold_left rs_store_push l a)).
        { induction l; simpl; intros; auto. apply IHl. apply store_push_keeps; auto. }
        apply H. left; reflexivity. }
      rewrite Hp in H. contradiction. }
  destruct (reassemble_own_sort p bl parts HFp) as [Hiff Hor].
  split; [| split; [rewrite Hiff; exact Hc | exact Hor]].
  unfold rs_is_reassemblable.
  rewrite (is_reassemblable_iff_cover p bl parts (rs_sort parts) HFp (sort_perm parts) (sort_sorted parts)).
  exact Hc.
Qed.

(* the finding: a longer fragment with a known (offset,total) is dropped *)
Theorem store_complete_refuted : exists p bl fs,
  Forall (frag_of p bl) fs /\ fs <> [] /\ covers fs (nlen p)
  /\ rs_store_is_complete (rs_store_push_all fs) = false.
Proof.
  exists [1; 2], [],
    [ {| fr_off := 0; fr_total := 2; fr_data := [1]; fr_isfrag := true; fr_blocks := [] |};
      {| fr_off := 0; fr_total := 2; fr_data := [1; 2]; fr_isfrag := true; fr_blocks := [] |} ].
  split; [| split; [discriminate | split; [| vm_compute; reflexivity]]].
  - repeat constructor; vm_compute; try reflexivity; discriminate.
  - intros i Hi. eexists. split; [right; left; reflexivity |]. unfold rs_end, nlen in *; simpl in *. lia.
Qed.

(* the proposed repair (keep the longer one) restores the property without the side condition *)
Lemma store_push_longer_cover : forall parts f i,
  covered (rs_store_push_longer parts f) i <-> covered parts i \/ (fr_off f <= i < rs_end f).
Proof.
  induction parts as [| h parts IH]; simpl; intros f i.
  - rewrite covered_cons. split; [intros [H | H]; [auto | exfalso; eapply covered_nil; eauto] | intros [H | H]; [exfalso; eapply covered_nil; eauto | auto]].
  - destruct ((fr_off h =? fr_off f) && (fr_total h =? fr_total f)) eqn:E.
    + destruct (nlen (fr_data h) <? nlen (fr_data f)) eqn:El; rewrite !covered_cons; unfold rs_end in *; split; intros H; try tauto.
      * destruct H as [[H | H] | H]; auto. left; lia.
      * destruct H as [H | H]; auto. left; lia.
    + rewrite !covered_cons. rewrite IH. tauto.
Qed.

Theorem store_longer_cover : forall fs parts i,
  covered (fold_left rs_store_push_longer fs parts) i <-> covered parts i \/ covered fs i.
Proof.
  induction fs as [| f fs IH]; simpl; intros parts i.
  - split; [auto | intros [H | H]; [exact H | exfalso; eapply covered_nil; eauto]].
  - rewrite IH, store_push_longer_cover, covered_cons. tauto.
Qed.

(* ---- the code before the fixes: witnesses --------------------------------------------------------- *)
Definition mkf (o t : N) (d : list N) : rs_frag :=
  {| fr_off := o; fr_total := t; fr_data := d; fr_isfrag := true; fr_blocks := [] |}.

(* [0,10) [2,5) [5,10): passes the unfixed scan, then data[8:] of a 3-byte payload *)
Example unfixed_panics :
  rs_reassemble_sorted_unfixed
    [mkf 0 10 [0;1;2;3;4;5;6;7;8;9]; mkf 2 10 [2;3;4]; mkf 5 10 [5;6;7;8;9]] = RsPanic.
Proof. vm_compute. reflexivity. Qed.

(* [0,8) [2,5) [6,10) covers [0,10) but the unfixed scan reports a gap *)
Example unfixed_false_gap :
  rs_reassemble_sorted_unfixed
    [mkf 0 10 [0;1;2;3;4;5;6;7]; mkf 2 10 [2;3;4]; mkf 6 10 [6;7;8;9]] = RsErr RsGap.
Proof. vm_compute. reflexivity. Qed.

Example fixed_on_the_witnesses :
  rs_reassemble [mkf 5 10 [5;6;7;8;9]; mkf 2 10 [2;3;4]; mkf 0 10 [0;1;2;3;4;5;6;7;8;9]]
    = RsOk [0;1;2;3;4;5;6;7;8;9] []
  /\ rs_reassemble [mkf 6 10 [6;7;8;9]; mkf 0 10 [0;1;2;3;4;5;6;7]; mkf 2 10 [2;3;4]]
    = RsOk [0;1;2;3;4;5;6;7;8;9] [].
Proof. split; vm_compute; reflexivity. Qed.

(* second-level fragments: unfixed offsets restart at 0 with the local length as total *)
Example unfixed_refragment_loses_position :
  map (fun c => (fr_off c, fr_total c)) (rs_refrag_loop_unfixed (mkf 4 10 [4;5;6;7]) 0 [2;2])
    = [(0, 4); (2, 4)]
  /\ map (fun c => (fr_off c, fr_total c)) (rs_refragment (mkf 4 10 [4;5;6;7]) [2;2])
    = [(4, 10); (6, 10)].
Proof. split; vm_compute; reflexivity. Qed.
