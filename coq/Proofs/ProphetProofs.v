(* Proofs about the PRoPHET model (Model/Prophet.v): range and monotonicity of the predictability
   updates over IEEE-754 binary64 (via Flocq's B2R and the correctness theorems of Bplus / Bminus /
   Bmult), the forwarding gate, and freedom from concurrent map faults of the repaired code. *)
From Coq Require Import ZArith NArith List Bool Reals Lia Lra.
From Flocq Require Import Core Sterbenz BinarySingleNaN Binary Bits.
From DTN Require Import Base Prophet.
Import ListNotations.
Open Scope R_scope.

Notation fexp64 := (SpecFloat.fexp 53 1024).
Definition rnd (x : R) : R := round radix2 fexp64 ZnearestE x.
Definition fmt (x : R) : Prop := generic_format radix2 fexp64 x.

Local Instance prec53 : Prec_gt_0 53 := eq_refl.
Local Instance valid_fexp64 : Valid_exp fexp64 := FLT_exp_valid (3 - 1024 - 53) 53.
Local Instance mono_fexp64 : Monotone_exp fexp64 := FLT_exp_monotone (3 - 1024 - 53) 53.

Lemma rnd_le x y : x <= y -> rnd x <= rnd y.
Proof. apply round_le; auto with typeclass_instances. Qed.

Lemma rnd_id x : fmt x -> rnd x = x.
Proof. apply round_generic; auto with typeclass_instances. Qed.

Lemma fmt_rnd x : fmt (rnd x).
Proof. apply generic_format_round; auto with typeclass_instances. Qed.

Lemma fmt_0 : fmt 0.
Proof. apply generic_format_0. Qed.

Lemma fmt_1 : fmt 1.
Proof.
  rewrite <- (Bone_correct 53 1024 eq_refl eq_refl). apply generic_format_B2R.
Qed.

Lemma rnd_0 : rnd 0 = 0.
Proof. apply rnd_id, fmt_0. Qed.
Lemma rnd_1 : rnd 1 = 1.
Proof. apply rnd_id, fmt_1. Qed.

(* rounding keeps a value between two representable bounds *)
Lemma rnd_between a b x : fmt a -> fmt b -> a <= x <= b -> a <= rnd x <= b.
Proof.
  intros Ha Hb [H1 H2]. split.
  - rewrite <- (rnd_id a Ha). apply rnd_le; assumption.
  - rewrite <- (rnd_id b Hb). apply rnd_le; assumption.
Qed.

Lemma rnd_ge a x : fmt a -> a <= x -> a <= rnd x.
Proof. intros Ha H. rewrite <- (rnd_id a Ha). apply rnd_le; assumption. Qed.

Lemma rnd_ub b x : fmt b -> x <= b -> rnd x <= b.
Proof. intros Hb H. rewrite <- (rnd_id b Hb). apply rnd_le; assumption. Qed.

Lemma mag_1 : (mag radix2 1 : Z) = 1%Z.
Proof. apply mag_unique_pos. simpl. lra. Qed.

Lemma ulp_1 : ulp radix2 fexp64 1 = bpow radix2 (-52).
Proof.
  rewrite ulp_neq_0 by lra. unfold cexp. rewrite mag_1. reflexivity.
Qed.

Lemma bpow_m52 : bpow radix2 (-52) = / 4503599627370496.
Proof. simpl. reflexivity. Qed.

(* anything strictly below the midpoint of 1 and its successor rounds to at most 1 *)
Lemma rnd_le_1_midp v : v < 1 + bpow radix2 (-53) -> rnd v <= 1.
Proof.
  intros Hv. apply round_N_le_midp; [auto with typeclass_instances | exact fmt_1 |].
  rewrite succ_eq_pos by lra. rewrite ulp_1.
  replace (bpow radix2 (-52)) with (2 * bpow radix2 (-53)).
  - lra.
  - change 2 with (bpow radix2 1). rewrite <- bpow_plus. reflexivity.
Qed.

(* the heart of C19_range: for a representable p in [0,1], fl(p + fl(1 - p)) <= 1 *)
Lemma rnd_p_plus_1mp p : fmt p -> 0 <= p <= 1 -> rnd (p + rnd (1 - p)) <= 1.
Proof.
  intros Fp [H0 H1].
  destruct (Rle_or_lt (/2) p) as [Hh | Hh].
  - (* Sterbenz: 1 - p is exact *)
    assert (F : fmt (1 - p)).
    { apply sterbenz; auto with typeclass_instances; [exact fmt_1 | lra]. }
    rewrite (rnd_id _ F). replace (p + (1 - p)) with 1 by ring. rewrite rnd_1. lra.
  - destruct (Req_dec p 0) as [-> | Hp].
    + rewrite Rminus_0_r, rnd_1, Rplus_0_l, rnd_1. lra.
    + (* 1/2 < 1 - p < 1: ulp is 2^-53, the rounding error at most 2^-54 *)
      apply rnd_le_1_midp.
      assert (Hx : bpow radix2 (0 - 1) <= 1 - p < bpow radix2 0) by (simpl; lra).
      assert (Hm : (mag radix2 (1 - p) : Z) = 0%Z) by (apply mag_unique_pos; exact Hx).
      assert (Hu : ulp radix2 fexp64 (1 - p) = bpow radix2 (-53)).
      { rewrite ulp_neq_0 by (simpl in Hx; lra). unfold cexp. rewrite Hm. reflexivity. }
      pose proof (error_le_half_ulp radix2 fexp64 (fun x => negb (Z.even x)) (1 - p)) as He.
      fold (rnd (1 - p)) in He. rewrite Hu in He.
      apply Rabs_le_inv in He.
      assert (0 < bpow radix2 (-53)) by apply bpow_gt_0.
      lra.
Qed.

(* ---------- binary64 level ---------- *)
Notation R64 := (B2R 53 1024).
Notation fin64 := (is_finite 53 1024).

Definition fin01 (x : f64) : Prop := fin64 x = true /\ 0 <= R64 x <= 1.

Lemma small_no_overflow r : 0 <= r <= 1 -> Rlt_bool (Rabs r) (bpow radix2 1024) = true.
Proof.
  intros [H0 H1]. apply Rlt_bool_true. rewrite Rabs_pos_eq by assumption.
  apply Rle_lt_trans with (1 := H1). change 1 with (bpow radix2 0). apply bpow_lt. reflexivity.
Qed.

Lemma fmt_R64 x : fmt (R64 x).
Proof. apply generic_format_B2R. Qed.

Lemma fin01_zero : fin01 pf_zero.
Proof. split; [reflexivity | simpl; lra]. Qed.

Lemma R64_one : R64 pf_one = 1.
Proof. apply Bone_correct. Qed.

Lemma fin01_one : fin01 pf_one.
Proof. split; [apply is_finite_Bone | rewrite R64_one; lra]. Qed.

(* multiplication of two values of [0,1]: finite, in [0,1], and not above either factor *)
Lemma pf_mul_spec x y : fin01 x -> fin01 y ->
  fin01 (pf_mul x y) /\ R64 (pf_mul x y) = rnd (R64 x * R64 y)
  /\ R64 (pf_mul x y) <= R64 x /\ R64 (pf_mul x y) <= R64 y.
Proof.
  intros [Fx [Hx0 Hx1]] [Fy [Hy0 Hy1]].
  assert (Hb : 0 <= rnd (R64 x * R64 y) <= 1).
  { apply rnd_between; [exact fmt_0 | exact fmt_1 | nra]. }
  assert (Hbx : rnd (R64 x * R64 y) <= R64 x).
  { apply (rnd_between 0 (R64 x)); [exact fmt_0 | apply fmt_R64 | nra]. }
  assert (Hby : rnd (R64 x * R64 y) <= R64 y).
  { apply (rnd_between 0 (R64 y)); [exact fmt_0 | apply fmt_R64 | nra]. }
  pose proof (Bmult_correct 53 1024 eq_refl eq_refl binop_nan_pl64 mode_NE x y) as H.
  cbn [round_mode] in H. fold (rnd (R64 x * R64 y)) in H.
  rewrite (small_no_overflow _ Hb) in H. destruct H as [HR [HF _]].
  unfold pf_mul, b64_mult. cbv zeta.
  rewrite Fx, Fy in HF.
  repeat split; try (rewrite HR); try assumption; try lra.
Qed.

Lemma pf_1minus_spec p : fin01 p ->
  fin01 (pf_sub pf_one p) /\ R64 (pf_sub pf_one p) = rnd (1 - R64 p).
Proof.
  intros [Fp [H0 H1]].
  assert (Hb : 0 <= rnd (1 - R64 p) <= 1).
  { apply rnd_between; [exact fmt_0 | exact fmt_1 | lra]. }
  pose proof (Bminus_correct 53 1024 eq_refl eq_refl binop_nan_pl64 mode_NE pf_one p
                (is_finite_Bone 53 1024 eq_refl eq_refl) Fp) as H.
  cbn [round_mode] in H. fold pf_one in H. rewrite R64_one in H. fold (rnd (1 - R64 p)) in H.
  rewrite (small_no_overflow _ Hb) in H. destruct H as [HR [HF _]].
  unfold pf_sub, b64_minus. cbv zeta.
  repeat split; try (rewrite HR); try assumption; try lra.
Qed.

(* p + t where 0 <= t <= fl(1 - p): finite, in [p, 1] *)
Lemma pf_add_spec p t : fin01 p -> fin64 t = true -> 0 <= R64 t <= rnd (1 - R64 p) ->
  fin01 (pf_add p t) /\ R64 p <= R64 (pf_add p t).
Proof.
  intros [Fp [H0 H1]] Ft [Ht0 Ht1].
  assert (Hlo : R64 p <= rnd (R64 p + R64 t)).
  { apply rnd_ge; [apply fmt_R64 | lra]. }
  assert (Hhi : rnd (R64 p + R64 t) <= 1).
  { apply Rle_trans with (rnd (R64 p + rnd (1 - R64 p))).
    - apply rnd_le. lra.
    - apply rnd_p_plus_1mp; [apply fmt_R64 | lra]. }
  assert (Hb : 0 <= rnd (R64 p + R64 t) <= 1) by lra.
  pose proof (Bplus_correct 53 1024 eq_refl eq_refl binop_nan_pl64 mode_NE p t Fp Ft) as H.
  cbn [round_mode] in H. fold (rnd (R64 p + R64 t)) in H.
  rewrite (small_no_overflow _ Hb) in H. destruct H as [HR [HF _]].
  unfold pf_add, b64_plus. cbv zeta.
  repeat split; try (rewrite HR); try assumption; try lra.
Qed.

(* ---------- the three update formulas ---------- *)
Definition conf_ok (c : pconf) : Prop :=
  fin01 (pc_pinit c) /\ fin01 (pc_beta c) /\ fin01 (pc_gamma c).

Lemma encounter_val_spec c p : fin01 (pc_pinit c) -> fin01 p ->
  fin01 (encounter_val c p) /\ R64 p <= R64 (encounter_val c p).
Proof.
  intros Hc Hp. unfold encounter_val.
  destruct (pf_1minus_spec p Hp) as [Hq Hqr].
  destruct (pf_mul_spec _ _ Hq Hc) as [[Ft [Ht0 Ht1]] [_ [Hle _]]].
  apply pf_add_spec; [exact Hp | exact Ft | rewrite <- Hqr; lra].
Qed.

Lemma trans_val_spec c p pp o : fin01 (pc_beta c) -> fin01 p -> fin01 pp -> fin01 o ->
  fin01 (trans_val c p pp o) /\ R64 p <= R64 (trans_val c p pp o).
Proof.
  intros Hc Hp Hpp Ho. unfold trans_val.
  destruct (pf_1minus_spec p Hp) as [Hq Hqr].
  destruct (pf_mul_spec _ _ Hq Hpp) as [H1 [_ [Hle1 _]]].
  destruct (pf_mul_spec _ _ H1 Ho) as [H2 [_ [Hle2 _]]].
  destruct (pf_mul_spec _ _ H2 Hc) as [[Ft [Ht0 Ht1]] [_ [Hle3 _]]].
  apply pf_add_spec; [exact Hp | exact Ft | rewrite <- Hqr; lra].
Qed.

Lemma age_val_spec c p : fin01 (pc_gamma c) -> fin01 p ->
  fin01 (age_val c p) /\ R64 (age_val c p) <= R64 p.
Proof.
  intros Hc Hp. unfold age_val.
  destruct (pf_mul_spec _ _ Hp Hc) as [H [_ [Hle _]]]. split; assumption.
Qed.

(* ---------- maps ---------- *)
Definition pm_ok (m : pmap) : Prop := Forall (fun kv => fin01 (snd kv)) m.

Lemma pm_get_ok m k : pm_ok m -> fin01 (pm_get m k).
Proof.
  induction m as [|[k' v] m IH]; intros H; cbn [pm_get].
  - exact fin01_zero.
  - inversion H; subst. destruct (N.eqb k k'); [assumption | auto].
Qed.

Lemma pm_set_ok m k v : pm_ok m -> fin01 v -> pm_ok (pm_set m k v).
Proof.
  induction m as [|[k' v'] m IH]; intros H Hv; cbn [pm_set].
  - constructor; [exact Hv | constructor].
  - inversion H; subst. destruct (N.eqb k k'); constructor; try assumption.
    apply IH; assumption.
Qed.

Lemma pm_get_set m k v k' : pm_get (pm_set m k v) k' = if N.eqb k' k then v else pm_get m k'.
Proof.
  induction m as [|[k0 v0] m IH]; cbn [pm_set pm_get].
  - destruct (N.eqb k' k); reflexivity.
  - destruct (N.eqb k k0) eqn:E; cbn [pm_get].
    + apply N.eqb_eq in E; subst k0. destruct (N.eqb k' k); reflexivity.
    + rewrite IH. destruct (N.eqb k' k0) eqn:E2; [|reflexivity].
      apply N.eqb_eq in E2; subst k0. destruct (N.eqb k' k) eqn:E3; [|reflexivity].
      apply N.eqb_eq in E3; subst k'. rewrite N.eqb_refl in E. discriminate.
Qed.

Lemma pm_find_ok (m : list (N * pmap)) k v :
  Forall (fun kv => pm_ok (snd kv)) m -> pm_find m k = Some v -> pm_ok v.
Proof.
  induction m as [|[k' v'] m IH]; intros H E; cbn [pm_find] in E; [discriminate|].
  inversion H; subst. destruct (N.eqb k k'); [injection E as <-; assumption | auto].
Qed.

Lemma pm_put_ok (m : list (N * pmap)) k v :
  Forall (fun kv => pm_ok (snd kv)) m -> pm_ok v -> Forall (fun kv => pm_ok (snd kv)) (pm_put m k v).
Proof.
  induction m as [|[k' v'] m IH]; intros H Hv; cbn [pm_put].
  - constructor; [exact Hv | constructor].
  - inversion H; subst. destruct (N.eqb k k'); constructor; try assumption.
    apply IH; assumption.
Qed.

(* ---------- state invariant: every held predictability is a finite number of [0,1] ---------- *)
Definition state_ok (s : pstate) : Prop :=
  pm_ok (ps_own s) /\ Forall (fun kv => pm_ok (snd kv)) (ps_peers s).

Definition event_ok (e : pevent) : Prop :=
  match e with PImport _ v => pm_ok v | _ => True end.

Definition pm_le (a b : pmap) : Prop := forall k, R64 (pm_get a k) <= R64 (pm_get b k).

Lemma pm_le_refl a : pm_le a a.
Proof. intros k; lra. Qed.
Lemma pm_le_trans a b c : pm_le a b -> pm_le b c -> pm_le a c.
Proof. intros H1 H2 k. specialize (H1 k). specialize (H2 k). lra. Qed.

Lemma init_ok : state_ok prophet_init.
Proof. split; constructor. Qed.

Lemma encounter_ok c s p : conf_ok c -> state_ok s ->
  state_ok (prophet_encounter c s p) /\ pm_le (ps_own s) (ps_own (prophet_encounter c s p)).
Proof.
  intros [Hc _] [Ho Hp].
  destruct (encounter_val_spec c (pm_get (ps_own s) p) Hc (pm_get_ok _ _ Ho)) as [Hv Hle].
  split.
  - split; cbn [prophet_encounter ps_own ps_peers]; [apply pm_set_ok; assumption | assumption].
  - intros k. cbn [prophet_encounter ps_own]. rewrite pm_get_set.
    destruct (N.eqb k p) eqn:E; [apply N.eqb_eq in E; subst k; exact Hle | lra].
Qed.

Lemma age_map_ok c m : fin01 (pc_gamma c) -> pm_ok m ->
  pm_ok (map (fun kv => (fst kv, age_val c (snd kv))) m)
  /\ pm_le (map (fun kv => (fst kv, age_val c (snd kv))) m) m.
Proof.
  intros Hc. induction m as [|[k v] m IH]; intros H.
  - split; [constructor | apply pm_le_refl].
  - inversion H; subst. destruct (IH H3) as [IH1 IH2]. cbn [snd] in H2.
    destruct (age_val_spec c v Hc H2) as [Hv Hle].
    split.
    + cbn [map fst snd]. constructor; assumption.
    + intros k'. cbn [map fst snd pm_get]. destruct (N.eqb k' k); [exact Hle | apply IH2].
Qed.

Lemma age_ok c s : conf_ok c -> state_ok s ->
  state_ok (prophet_age c s) /\ pm_le (ps_own (prophet_age c s)) (ps_own s).
Proof.
  intros [_ [_ Hc]] [Ho Hp]. destruct (age_map_ok c (ps_own s) Hc Ho) as [H1 H2].
  split; [split; assumption | exact H2].
Qed.

Lemma trans_step_ok c peer own e : fin01 (pc_beta c) -> pm_ok own -> fin01 (snd e) ->
  pm_ok (trans_step c peer own e) /\ pm_le own (trans_step c peer own e).
Proof.
  intros Hc Ho He. unfold trans_step.
  destruct (trans_val_spec c (pm_get own (fst e)) (pm_get own peer) (snd e) Hc
              (pm_get_ok _ _ Ho) (pm_get_ok _ _ Ho) He) as [Hv Hle].
  split; [apply pm_set_ok; assumption|].
  intros k. rewrite pm_get_set.
  destruct (N.eqb k (fst e)) eqn:E; [apply N.eqb_eq in E; subst k; exact Hle | lra].
Qed.

Lemma transitivity_ok c peer vec : fin01 (pc_beta c) -> pm_ok vec -> forall own, pm_ok own ->
  pm_ok (prophet_transitivity c own peer vec) /\ pm_le own (prophet_transitivity c own peer vec).
Proof.
  intros Hc. unfold prophet_transitivity.
  induction vec as [|e vec IH]; intros Hv own Ho; cbn [fold_left].
  - split; [assumption | apply pm_le_refl].
  - inversion Hv; subst.
    destruct (trans_step_ok c peer own e Hc Ho H1) as [Ho' Hle'].
    destruct (IH H2 _ Ho') as [Ho'' Hle''].
    split; [assumption | eapply pm_le_trans; eassumption].
Qed.

Lemma import_ok c s p v : conf_ok c -> state_ok s -> pm_ok v ->
  state_ok (prophet_import c s p v) /\ pm_le (ps_own s) (ps_own (prophet_import c s p v)).
Proof.
  intros [_ [Hc _]] [Ho Hp] Hv.
  destruct (transitivity_ok c p v Hc Hv (ps_own s) Ho) as [H1 H2].
  split; [split|]; cbn [prophet_import ps_own ps_peers]; [assumption | apply pm_put_ok; assumption | assumption].
Qed.

Lemma step_ok c s e : conf_ok c -> state_ok s -> event_ok e -> state_ok (prophet_step c s e).
Proof.
  intros Hc Hs He. destruct e as [p| |p v]; cbn [prophet_step].
  - apply encounter_ok; assumption.
  - apply age_ok; assumption.
  - apply import_ok; assumption.
Qed.

Lemma run_ok c es : conf_ok c -> Forall event_ok es -> forall s, state_ok s -> state_ok (prophet_run c s es).
Proof.
  intros Hc. unfold prophet_run. induction es as [|e es IH]; intros He s Hs; cbn [fold_left]; [assumption|].
  inversion He; subst. apply IH; [assumption | apply step_ok; assumption].
Qed.

(* per-step monotonicity, every key *)
Lemma step_monotone c s e : conf_ok c -> state_ok s -> event_ok e ->
  match e with
  | PEncounter _ | PImport _ _ => pm_le (ps_own s) (ps_own (prophet_step c s e))
  | PAge => pm_le (ps_own (prophet_step c s e)) (ps_own s)
  end.
Proof.
  intros Hc Hs He. destruct e as [p| |p v]; cbn [prophet_step].
  - apply encounter_ok; assumption.
  - apply age_ok; assumption.
  - apply import_ok; assumption.
Qed.

(* ---------- the forwarding gate ---------- *)
Lemma pf_gt_spec a b : fin64 a = true -> fin64 b = true -> (pf_gt a b = true <-> R64 b < R64 a).
Proof.
  intros Fa Fb. unfold pf_gt, b64_compare. rewrite Bcompare_correct by assumption.
  destruct (Rcompare_spec (R64 a) (R64 b)); split; intros; try discriminate; try lra; reflexivity.
Qed.

Lemma peer_pred_ok s p d : state_ok s -> fin01 (peer_pred s p d).
Proof.
  intros [_ Hp]. unfold peer_pred. destruct (pm_find (ps_peers s) p) eqn:E.
  - apply pm_get_ok. eapply pm_find_ok; eassumption.
  - exact fin01_zero.
Qed.

Lemma senders_gate s dest css : forall sent p,
  In p (fst (prophet_senders s dest sent css)) ->
  In p css /\ pf_gt (peer_pred s p dest) (pm_get (ps_own s) dest) = true.
Proof.
  induction css as [|a r IH]; intros sent p H; cbn [prophet_senders] in H.
  - destruct H.
  - destruct (pf_gt (peer_pred s a dest) (pm_get (ps_own s) dest) && negb (nmem a sent)) eqn:C.
    + destruct (prophet_senders s dest (sent ++ [a]) r) as [ch st] eqn:E. cbn [fst] in H.
      destruct H as [<- | H].
      * apply andb_prop in C. split; [left; reflexivity | apply C].
      * specialize (IH (sent ++ [a]) p). rewrite E in IH. destruct (IH H) as [H1 H2].
        split; [right; assumption | assumption].
    + destruct (IH sent p H) as [H1 H2]. split; [right; assumption | assumption].
Qed.

Lemma offer_gate s dest sent css p : In p (prophet_offer s dest sent css) ->
  In p css /\ (p = dest \/ pf_gt (peer_pred s p dest) (pm_get (ps_own s) dest) = true).
Proof.
  unfold prophet_offer. destruct (filter (N.eqb dest) css) as [|d0 dr] eqn:E; intros H.
  - destruct (senders_gate _ _ _ _ _ H) as [H1 H2]. split; [assumption | right; assumption].
  - rewrite <- E in H. apply filter_In in H. destruct H as [H1 H2].
    apply N.eqb_eq in H2. split; [assumption | left; symmetry; assumption].
Qed.

Lemma offer_gate_real s dest sent css p : state_ok s -> In p (prophet_offer s dest sent css) ->
  p = dest \/ R64 (pm_get (ps_own s) dest) < R64 (peer_pred s p dest).
Proof.
  intros Hs H. destruct (offer_gate _ _ _ _ _ H) as [_ [-> | G]]; [left; reflexivity | right].
  apply pf_gt_spec; [apply (peer_pred_ok s p dest Hs) | apply (pm_get_ok _ dest (proj1 Hs)) | exact G].
Qed.

Lemma offer_unknown_peer s dest sent css p : state_ok s -> pm_find (ps_peers s) p = None ->
  In p (prophet_offer s dest sent css) -> p = dest.
Proof.
  intros Hs E H. destruct (offer_gate_real _ _ _ _ _ Hs H) as [-> | G]; [reflexivity|].
  unfold peer_pred in G. rewrite E in G. cbn in G.
  destruct (pm_get_ok _ dest (proj1 Hs)) as [_ [H0 _]]. lra.
Qed.

(* ---------- no concurrent map fault (repaired code) ---------- *)
Close Scope R_scope.

Fixpoint pwf (h : mheld) (sp : option mobj) (prog : list mact) : Prop :=
  match prog with
  | [] => True
  | a :: r =>
    match a with
    | ALock => pwf HWrite sp r
    | ARLock => pwf HRead sp r
    | AUnlock | ARUnlock => (forall o, sp = Some o -> mshared o = false) /\ pwf HNone sp r
    | ABegin o => (mshared o = true -> h <> HNone) /\ pwf h (Some o) r
    | ANext _ => pwf h sp r
    | AEnd _ => pwf h None r
    | AWrite o => mshared o = true /\ h = HWrite /\ pwf h sp r
    end
  end.

Definition tinv (t : mthread) : Prop :=
  pwf (mt_held t) (mt_span t) (mt_prog t) /\ (forall o, mt_span t = Some o -> mshared o = true -> mt_held t <> HNone).

Definition isw (t : mthread) : bool := mheld_is HWrite t.
Definition isr (t : mthread) : bool := mheld_is HRead t.
Definition nw (ts : list mthread) : nat := length (filter isw ts).
Definition nr (ts : list mthread) : nat := length (filter isr ts).

Definition lock_ok (ts : list mthread) : Prop := nw ts = 0%nat \/ (nw ts = 1%nat /\ nr ts = 0%nat).

Definition ginv (ts : list mthread) : Prop := Forall tinv ts /\ lock_ok ts.

Lemma nth_split {A} (l : list A) i x : nth_error l i = Some x ->
  exists a b, l = a ++ x :: b /\ others i l = a ++ b /\ forall y, upd i y l = a ++ y :: b.
Proof.
  revert i. induction l as [|z l IH]; intros i H; destruct i as [|i]; cbn in H; try discriminate.
  - injection H as ->. exists [], l. repeat split.
  - destruct (IH i H) as [a [b [E1 [E2 E3]]]]. exists (z :: a), b. cbn [others upd].
    rewrite E1 at 1. rewrite E2. repeat split. intros y. rewrite E3. reflexivity.
Qed.

Lemma nw_app a b : nw (a ++ b) = (nw a + nw b)%nat.
Proof. unfold nw. rewrite filter_app, app_length. reflexivity. Qed.
Lemma nr_app a b : nr (a ++ b) = (nr a + nr b)%nat.
Proof. unfold nr. rewrite filter_app, app_length. reflexivity. Qed.
Lemma nw_cons t b : nw (t :: b) = ((if isw t then 1 else 0) + nw b)%nat.
Proof. unfold nw. cbn [filter]. destruct (isw t); reflexivity. Qed.
Lemma nr_cons t b : nr (t :: b) = ((if isr t then 1 else 0) + nr b)%nat.
Proof. unfold nr. cbn [filter]. destruct (isr t); reflexivity. Qed.

Lemma all_none_counts l : forallb (mheld_is HNone) l = true -> nw l = 0%nat /\ nr l = 0%nat.
Proof.
  induction l as [|t l IH]; intros H; [split; reflexivity|].
  cbn [forallb] in H. apply andb_prop in H. destruct H as [H1 H2]. destruct (IH H2) as [I1 I2].
  rewrite nw_cons, nr_cons, I1, I2. unfold isw, isr, mheld_is in *. destruct (mt_held t); try discriminate.
  split; reflexivity.
Qed.

Lemma no_writer_count l : forallb (fun u => negb (mheld_is HWrite u)) l = true -> nw l = 0%nat.
Proof.
  induction l as [|t l IH]; intros H; [reflexivity|].
  cbn [forallb] in H. apply andb_prop in H. destruct H as [H1 H2].
  rewrite nw_cons, (IH H2). unfold isw. destruct (mheld_is HWrite t); [discriminate | reflexivity].
Qed.

Lemma counts_zero_none l : nw l = 0%nat -> nr l = 0%nat -> Forall (fun u => mt_held u = HNone) l.
Proof.
  induction l as [|t l IH]; intros H1 H2; [constructor|].
  rewrite nw_cons in H1. rewrite nr_cons in H2. unfold isw, isr, mheld_is in *.
  destruct (mt_held t) eqn:E; try (cbn in H1, H2; discriminate).
  constructor; [assumption | apply IH; cbn in H1, H2; assumption].
Qed.

Lemma mobj_eqb_eq a b : mobj_eqb a b = true -> a = b.
Proof. destruct a, b; cbn; try discriminate; try reflexivity. intros H. apply Nat.eqb_eq in H. now subst. Qed.

Lemma no_span_own w l : mshared w = true -> Forall tinv l -> Forall (fun u => mt_held u = HNone) l ->
  existsb (span_on w) l = false.
Proof.
  intros Hsh. induction l as [|t l IH]; intros H1 H2; [reflexivity|].
  inversion H1 as [|? ? Ht Hl]; subst. inversion H2 as [|? ? Hn Hl2]; subst.
  cbn [existsb]. rewrite (IH Hl Hl2), orb_false_r.
  unfold span_on. destruct (mt_span t) as [o|] eqn:E; [|reflexivity].
  destruct (mobj_eqb w o) eqn:Eo; [|reflexivity]. apply mobj_eqb_eq in Eo. subst o.
  destruct Ht as [_ Ht]. exfalso. exact (Ht _ E Hsh Hn).
Qed.

Lemma held_counts h sp rest (t : mthread) :
  let t' := {| mt_prog := rest; mt_held := h; mt_span := sp |} in
  isw t' = match h with HWrite => true | _ => false end /\
  isr t' = match h with HRead => true | _ => false end.
Proof. destruct h; split; reflexivity. Qed.

(* one step of the repaired system never faults and keeps the invariant *)
Lemma mstep_inv ts i : ginv ts ->
  match mstep ts i with
  | MFault => False
  | MStuck => True
  | MOk ts' => ginv ts'
  end.
Proof.
  intros [HF HL]. unfold mstep.
  destruct (nth_error ts i) as [t|] eqn:En; [|exact I].
  destruct (nth_split _ _ _ En) as [a [b [E1 [E2 E3]]]].
  destruct (mt_prog t) as [|act rest] eqn:Ep; [exact I|].
  rewrite E2. subst ts.
  apply Forall_app in HF. destruct HF as [HFa HFtb]. inversion HFtb as [|? ? Ht HFb]; subst.
  assert (HFab : Forall tinv (a ++ b)) by (apply Forall_app; split; assumption).
  destruct Ht as [Hw Hs]. rewrite Ep in Hw.
  unfold lock_ok in HL. rewrite !nw_app, !nr_app, !nw_cons, !nr_cons in HL.
  assert (Hfin : forall h sp, pwf h sp rest -> (forall o, sp = Some o -> mshared o = true -> h <> HNone) ->
            (let c := ((if match h with HWrite => true | _ => false end then 1 else 0) + nw a + nw b)%nat in
             let d := ((if match h with HRead => true | _ => false end then 1 else 0) + nr a + nr b)%nat in
             c = 0%nat \/ (c = 1%nat /\ d = 0%nat)) ->
            ginv (a ++ {| mt_prog := rest; mt_held := h; mt_span := sp |} :: b)).
  { intros h sp P1 P2 P3. split.
    - apply Forall_app; split; [assumption|]. constructor; [split; assumption | assumption].
    - unfold lock_ok. rewrite !nw_app, !nr_app, !nw_cons, !nr_cons.
      destruct h; cbn in *; lia. }
  unfold isw, isr, mheld_is in HL.
  destruct act; cbn [pwf] in Hw.
  - (* ALock *)
    destruct (forallb (mheld_is HNone) (a ++ b)) eqn:G; [|exact I].
    rewrite E3. apply all_none_counts in G. rewrite nw_app, nr_app in G.
    apply Hfin; [assumption | intros _ _ _; discriminate | cbn; lia].
  - (* AUnlock *)
    rewrite E3. destruct Hw as [Hw1 Hw2].
    apply Hfin; [assumption | intros o C S; rewrite (Hw1 o C) in S; discriminate | destruct (mt_held t); cbn in *; lia].
  - (* ARLock *)
    destruct (forallb (fun u => negb (mheld_is HWrite u)) (a ++ b)) eqn:G; [|exact I].
    rewrite E3. apply no_writer_count in G. rewrite nw_app in G.
    apply Hfin; [assumption | intros _ _ _; discriminate | destruct (mt_held t); cbn in *; lia].
  - (* ARUnlock *)
    rewrite E3. destruct Hw as [Hw1 Hw2].
    apply Hfin; [assumption | intros o C S; rewrite (Hw1 o C) in S; discriminate | destruct (mt_held t); cbn in *; lia].
  - (* ABegin *)
    rewrite E3. destruct Hw as [Hw1 Hw2].
    apply Hfin; [assumption | intros o' C S; injection C as ->; apply Hw1; exact S
                 | destruct (mt_held t); cbn in *; lia].
  - (* ANext *)
    rewrite E3. apply Hfin; [assumption | assumption | destruct (mt_held t); cbn in *; lia].
  - (* AEnd *)
    rewrite E3. apply Hfin; [assumption | intros o' C; discriminate | destruct (mt_held t); cbn in *; lia].
  - (* AWrite: the writer holds the write lock, so nobody else is inside a span of the own map *)
    destruct Hw as [Hsh [Hh Hw]]. rewrite Hh in HL.
    assert (Hn : Forall (fun u => mt_held u = HNone) (a ++ b)).
    { apply counts_zero_none; [rewrite nw_app | rewrite nr_app]; cbn in HL; lia. }
    rewrite (no_span_own _ _ Hsh HFab Hn). rewrite E3.
    apply Hfin; [assumption | assumption | rewrite Hh; cbn in *; lia].
Qed.

Lemma mrun_inv sched : forall ts, ginv ts -> mrun ts sched = false.
Proof.
  induction sched as [|i r IH]; intros ts H; cbn [mrun]; [reflexivity|].
  pose proof (mstep_inv ts i H) as S. destruct (mstep ts i); [apply IH; assumption | contradiction | apply IH; assumption].
Qed.

(* the programs of the repaired code are well-locked *)
Lemma pwf_next h sp o n rest : pwf h sp (repeat (ANext o) n ++ rest) <-> pwf h sp rest.
Proof. induction n; cbn [repeat app pwf]; [reflexivity | assumption]. Qed.

Lemma pwf_writes sp n rest : pwf HWrite sp rest -> pwf HWrite sp (repeat (AWrite OOwn) n ++ rest).
Proof. intros H. induction n; cbn [repeat app pwf]; [assumption | repeat split; assumption]. Qed.

Lemma prog_wf t op : pwf HNone None (mop_prog true t op).
Proof.
  destruct op as [n|n|n|]; cbn [mop_prog send_metadata_prog app pwf mshared].
  - split; [intros _; discriminate|]. apply pwf_writes. cbn [pwf]. split; [intros o C; discriminate | exact I].
  - repeat split; try discriminate. apply pwf_next. cbn [app pwf mshared].
    split; [intros o C; discriminate|]. split; [discriminate|]. apply pwf_next. cbn [pwf]. exact I.
  - repeat split; try discriminate. apply pwf_writes. cbn [pwf]. split; [intros o C; discriminate | exact I].
  - repeat split; try discriminate.
Qed.

Lemma threads_ginv ops : forall t, ginv (mthreads_from true t ops).
Proof.
  induction ops as [|op r IH]; intros t; cbn [mthreads_from].
  - split; [constructor | left; reflexivity].
  - destruct (IH (S t)) as [H1 H2]. split.
    + constructor; [|assumption]. split; cbn; [apply prog_wf | intros o C; discriminate].
    + unfold lock_ok in *. rewrite nw_cons, nr_cons. cbn. exact H2.
Qed.

Lemma no_fault ops sched : mrun (mthreads true ops) sched = false.
Proof. apply mrun_inv, threads_ginv. Qed.

(* ---------- statements over reachable states ---------- *)
Open Scope R_scope.

Lemma reach_ok c es : conf_ok c -> Forall event_ok es -> state_ok (prophet_run c prophet_init es).
Proof. intros Hc He. apply run_ok; [assumption | assumption | exact init_ok]. Qed.

Lemma range_full c es : conf_ok c -> Forall event_ok es ->
  let s := prophet_run c prophet_init es in
  (forall k, fin01 (pm_get (ps_own s) k))
  /\ (forall k x, In (k, x) (ps_own s) -> fin01 x)
  /\ (forall p v k x, In (p, v) (ps_peers s) -> In (k, x) v -> fin01 x).
Proof.
  intros Hc He s. destruct (reach_ok c es Hc He) as [Ho Hp]. fold s in Ho, Hp.
  split; [|split].
  - intros k. apply pm_get_ok. exact Ho.
  - intros k x H. unfold pm_ok in Ho. rewrite Forall_forall in Ho. apply (Ho (k, x) H).
  - intros p v k x H1 H2. rewrite Forall_forall in Hp. specialize (Hp (p, v) H1). cbn [snd] in Hp.
    unfold pm_ok in Hp. rewrite Forall_forall in Hp. apply (Hp (k, x) H2).
Qed.

Lemma monotone_full c es e : conf_ok c -> Forall event_ok es -> event_ok e ->
  let s := prophet_run c prophet_init es in
  forall k,
  match e with
  | PEncounter _ | PImport _ _ => R64 (pm_get (ps_own s) k) <= R64 (pm_get (ps_own (prophet_step c s e)) k)
  | PAge => R64 (pm_get (ps_own (prophet_step c s e)) k) <= R64 (pm_get (ps_own s) k)
  end.
Proof.
  intros Hc Hes He s k. pose proof (step_monotone c s e Hc (reach_ok c es Hc Hes) He) as H.
  destruct e; apply H.
Qed.
