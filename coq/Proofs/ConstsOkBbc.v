(* ConstsOk.v - the constants / literal shapes regenerated from /repo coincide with the ones the
   model is written against.  A changed constant in the Go source breaks a [reflexivity] here. *)
From Coq Require Import ZArith List.
Import ListNotations.
From DTN Require Import Consts Spec.
Open Scope Z_scope.

Lemma bbc_header_size_ok : pkg_cla_bbc__fragmentIdentifierSize = bbc_header_size.
Proof. reflexivity. Qed.
Lemma bbc_new_fragment_ok :
  pkg_cla_bbc__NewFragment__lits = [0; bbc_seq_mask; bbc_seq_shift; bbc_start_bit; bbc_end_bit; bbc_fail_bit]
  /\ pkg_cla_bbc__NewFragment__ops = [3029; 20; 17; 3029; 3029; 3029].
Proof. split; reflexivity. Qed.
Lemma bbc_accessors_ok :
  pkg_cla_bbc__Fragment_SequenceNumber__lits = [bbc_seq_shift; bbc_seq_mask]
  /\ pkg_cla_bbc__Fragment_SequenceNumber__ops = [17; 21]
  /\ pkg_cla_bbc__Fragment_StartBit__lits = [bbc_start_bit; 0]
  /\ pkg_cla_bbc__Fragment_EndBit__lits = [bbc_end_bit; 0]
  /\ pkg_cla_bbc__Fragment_FailBit__lits = [bbc_fail_bit; 0]
  /\ pkg_cla_bbc__Fragment_StartBit__ops = [44; 17]
  /\ pkg_cla_bbc__Fragment_EndBit__ops = [44; 17]
  /\ pkg_cla_bbc__Fragment_FailBit__ops = [44; 17].
Proof. repeat split; reflexivity. Qed.
Lemma bbc_next_seq_ok :
  pkg_cla_bbc__nextSequenceNumber__lits = [1; bbc_seq_modulus]
  /\ pkg_cla_bbc__nextSequenceNumber__ops = [16; 12]
  /\ pkg_cla_bbc__nextTransmissionId__lits = [1]
  /\ pkg_cla_bbc__nextTransmissionId__ops = [12].
Proof. repeat split; reflexivity. Qed.
