(* ConstsOkSentList.v - the shape of filterCLAs and of DTLSR.ReportFailure in /repo is the one the
   model (Model/SentList.v) is written against. *)
From Coq Require Import ZArith List.
Import ListNotations.
From DTN Require Import Consts.
Open Scope Z_scope.

(* filterCLAs: "routing/"+algorithm+"/sent", make(..., 0) twice, one == in the skip loop, one ! *)
Lemma sentlist_filter_ok :
  pkg_routing__filterCLAs__lits = [0; 0] /\ pkg_routing__filterCLAs__ops = [12; 12; 1043; 39; 1043].
Proof. split; reflexivity. Qed.

(* DTLSR.ReportFailure removes the failed peer from the stored list (it was empty before the fix):
   err != nil, a loop with <, ++, one ==, the slice arithmetic i+1, err != nil *)
Lemma sentlist_dtlsr_failure_ok :
  pkg_routing__DTLSR_ReportFailure__lits = [0; 1]
  /\ pkg_routing__DTLSR_ReportFailure__ops = [44; 40; 2037; 39; 12; 44].
Proof. split; reflexivity. Qed.
