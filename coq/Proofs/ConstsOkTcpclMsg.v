(* ConstsOkTcpclMsg.v - the constants / literal shapes regenerated from the Go source coincide with
   the specification names (Model/SpecTcpclMsg.v) and with the literals Model/TcpclMsg.v is written
   against. *)
From Coq Require Import ZArith NArith List Lia.
Import ListNotations.
From DTN Require Import Consts SpecTcpclMsg TcpclMsg.
Open Scope Z_scope.

(* message type codes *)
Lemma tcpclmsg_types_ok :
  pkg_cla_tcpclv4_internal_msgs__XFER_SEGMENT = rfc9174_xfer_segment
  /\ pkg_cla_tcpclv4_internal_msgs__XFER_ACK = rfc9174_xfer_ack
  /\ pkg_cla_tcpclv4_internal_msgs__XFER_REFUSE = rfc9174_xfer_refuse
  /\ pkg_cla_tcpclv4_internal_msgs__KEEPALIVE = rfc9174_keepalive
  /\ pkg_cla_tcpclv4_internal_msgs__SESS_TERM = rfc9174_sess_term
  /\ pkg_cla_tcpclv4_internal_msgs__MSG_REJECT = rfc9174_msg_reject
  /\ pkg_cla_tcpclv4_internal_msgs__SESS_INIT = rfc9174_sess_init.
Proof. repeat split; reflexivity. Qed.

Lemma tcpclmsg_types_model_ok :
  Z.of_N tm_xfer_segment = rfc9174_xfer_segment /\ Z.of_N tm_xfer_ack = rfc9174_xfer_ack
  /\ Z.of_N tm_xfer_refuse = rfc9174_xfer_refuse /\ Z.of_N tm_keepalive = rfc9174_keepalive
  /\ Z.of_N tm_sess_term = rfc9174_sess_term /\ Z.of_N tm_msg_reject = rfc9174_msg_reject
  /\ Z.of_N tm_sess_init = rfc9174_sess_init
  /\ map Z.of_N tm_head = rfc9174_magic ++ [rfc9174_version]
  /\ Z.of_N tm_contact = hd 0 rfc9174_magic.
Proof. repeat split; reflexivity. Qed.

(* flags *)
Lemma tcpclmsg_flags_ok :
  pkg_cla_tcpclv4_internal_msgs__ContactCanTls = rfc9174_contact_can_tls
  /\ pkg_cla_tcpclv4_internal_msgs__TerminationReply = rfc9174_term_reply
  /\ pkg_cla_tcpclv4_internal_msgs__SegmentEnd = rfc9174_seg_end
  /\ pkg_cla_tcpclv4_internal_msgs__SegmentStart = rfc9174_seg_start.
Proof. repeat split; reflexivity. Qed.

(* reason codes: the declared constants are exactly the enumerated sets *)
Lemma tcpclmsg_term_reasons_ok :
  [pkg_cla_tcpclv4_internal_msgs__TerminationUnknown; pkg_cla_tcpclv4_internal_msgs__TerminationIdleTimeout;
   pkg_cla_tcpclv4_internal_msgs__TerminationVersionMismatch; pkg_cla_tcpclv4_internal_msgs__TerminationBusy;
   pkg_cla_tcpclv4_internal_msgs__TerminationContactFailure; pkg_cla_tcpclv4_internal_msgs__TerminationResourceExhaustion]
  = rfc9174_term_reasons
  /\ forall c, (c < 256)%N -> tm_term_valid c = true <-> In (Z.of_N c) rfc9174_term_reasons.
Proof.
  split; [reflexivity|]. intros c _. unfold tm_term_valid, tm_term_max, rfc9174_term_reasons. cbn [In].
  rewrite N.leb_le. lia.
Qed.

Lemma tcpclmsg_refuse_reasons_ok :
  [pkg_cla_tcpclv4_internal_msgs__RefusalUnknown; pkg_cla_tcpclv4_internal_msgs__RefusalCompleted;
   pkg_cla_tcpclv4_internal_msgs__RefusalNoResources; pkg_cla_tcpclv4_internal_msgs__RefusalRetransmit;
   pkg_cla_tcpclv4_internal_msgs__RefusalNotAcceptable; pkg_cla_tcpclv4_internal_msgs__RefusalExtensionFailure;
   pkg_cla_tcpclv4_internal_msgs__RefusalSessionTerminating]
  = rfc9174_refuse_reasons
  /\ forall c, (c < 256)%N -> tm_refuse_valid c = true <-> In (Z.of_N c) rfc9174_refuse_reasons.
Proof.
  split; [reflexivity|]. intros c _. unfold tm_refuse_valid, tm_refuse_max, rfc9174_refuse_reasons. cbn [In].
  rewrite N.leb_le. lia.
Qed.

Lemma tcpclmsg_reject_reasons_ok :
  [pkg_cla_tcpclv4_internal_msgs__RejectionTypeUnknown; pkg_cla_tcpclv4_internal_msgs__RejectionUnsupported;
   pkg_cla_tcpclv4_internal_msgs__RejectionUnexpected]
  = rfc9174_reject_reasons
  /\ forall c, (c < 256)%N -> tm_reject_valid c = true <-> In (Z.of_N c) rfc9174_reject_reasons.
Proof.
  split; [reflexivity|]. intros c _. unfold tm_reject_valid, tm_reject_min, tm_reject_max, rfc9174_reject_reasons. cbn [In].
  rewrite Bool.andb_true_iff, !N.leb_le. lia.
Qed.

(* ContactHeader.Unmarshal: make([]byte, 6), data[:5], data[5] *)
Lemma tcpclmsg_contact_shape_ok :
  pkg_cla_tcpclv4_internal_msgs__ContactHeader_Unmarshal__lits = [rfc9174_contact_len; 5; 5]
  /\ pkg_cla_tcpclv4_internal_msgs__ContactHeader_Unmarshal__ops = [44; 1043].
Proof. split; reflexivity. Qed.

(* SESS_INIT: Marshal writes uint32(0) for the extension items; Unmarshal: "!= SESS_INIT",
   "sessionExtsLen > 0" *)
Lemma tcpclmsg_sess_init_shape_ok :
  pkg_cla_tcpclv4_internal_msgs__SessionInitMessage_Marshal__lits = [0]
  /\ pkg_cla_tcpclv4_internal_msgs__SessionInitMessage_Marshal__ops = [44; 44; 44; 44]
  /\ pkg_cla_tcpclv4_internal_msgs__SessionInitMessage_Unmarshal__lits = [0]
  /\ pkg_cla_tcpclv4_internal_msgs__SessionInitMessage_Unmarshal__ops
     = [1017; 44; 44; 1017; 1017; 1017; 1017; 44; 44; 1017; 44; 41; 44].
Proof. repeat split; reflexivity. Qed.

(* XFER_SEGMENT: Marshal writes uint32(0) for the extension items; Unmarshal: "transferExtLen > 0",
   "dataLen > 0", "dataLen != uint64(len(dtm.Data))" *)
Lemma tcpclmsg_xfer_segment_shape_ok :
  pkg_cla_tcpclv4_internal_msgs__DataTransmissionMessage_Marshal__lits = [0]
  /\ pkg_cla_tcpclv4_internal_msgs__DataTransmissionMessage_Marshal__ops = [44; 44; 44]
  /\ pkg_cla_tcpclv4_internal_msgs__DataTransmissionMessage_Unmarshal__lits = [0; 0]
  /\ pkg_cla_tcpclv4_internal_msgs__DataTransmissionMessage_Unmarshal__ops
     = [1017; 44; 44; 1017; 1017; 1017; 44; 41; 44; 1017; 44; 41; 44; 44].
Proof. repeat split; reflexivity. Qed.

(* ReadMessage: make([]byte, 1), msgTypeBytes[0] *)
Lemma tcpclmsg_read_message_shape_ok :
  pkg_cla_tcpclv4_internal_msgs__ReadMessage__lits = [1; 0]
  /\ pkg_cla_tcpclv4_internal_msgs__ReadMessage__ops = [44; 44].
Proof. split; reflexivity. Qed.
