(* AgentsProofs.v - proofs about Model/Agents.v (property C07). *)
From Coq Require Import Permutation.
From DTN Require Import Base Agents.
Open Scope N_scope.

(* ------------------------------------------------------------------------------------ *)
(* association lists *)
Lemma ag_get_set_same {V} k (v : V) m : ag_get k (ag_set k v m) = Some v.
Proof.
  induction m as [|[k' v'] m IH]; cbn [ag_set ag_get].
  - now rewrite N.eqb_refl.
  - destruct (k =? k') eqn:E; cbn [ag_get]; [now rewrite N.eqb_refl | now rewrite E].
Qed.

Lemma ag_get_set_other {V} k k' (v : V) m : k <> k' -> ag_get k (ag_set k' v m) = ag_get k m.
Proof.
  intros Hne. induction m as [|[k2 v2] m IH]; cbn [ag_set ag_get].
  - destruct (k =? k') eqn:E; [apply N.eqb_eq in E; congruence | reflexivity].
  - destruct (k' =? k2) eqn:E2; cbn [ag_get].
    + apply N.eqb_eq in E2; subst k2.
      destruct (k =? k') eqn:E; [apply N.eqb_eq in E; congruence | reflexivity].
    + destruct (k =? k2); [reflexivity | exact IH].
Qed.

Lemma ag_get_del_same {V} k (m : list (N * V)) : ag_get k (ag_del k m) = None.
Proof.
  induction m as [|[k' v'] m IH]; [reflexivity|].
  unfold ag_del in *. cbn [filter fst]. destruct (k =? k') eqn:E; cbn [negb]; [exact IH|].
  cbn [ag_get]. now rewrite E.
Qed.

Lemma ag_get_del_other {V} k k' (m : list (N * V)) : k <> k' -> ag_get k (ag_del k' m) = ag_get k m.
Proof.
  intros Hne. induction m as [|[k2 v2] m IH]; [reflexivity|].
  unfold ag_del in *. cbn [filter fst ag_get]. destruct (k' =? k2) eqn:E2; cbn [negb].
  - apply N.eqb_eq in E2; subst k2.
    destruct (k =? k') eqn:E; [apply N.eqb_eq in E; congruence | exact IH].
  - cbn [ag_get]. destruct (k =? k2); [reflexivity | exact IH].
Qed.

Lemma ag_get_app_none {V} k (m1 m2 : list (N * V)) :
  ag_get k m1 = None -> ag_get k (m1 ++ m2) = ag_get k m2.
Proof.
  induction m1 as [|[k' v'] m1 IH]; [reflexivity|]. cbn [ag_get app].
  destruct (k =? k'); [discriminate | exact IH].
Qed.

Lemma ag_get_app_some {V} k (m1 m2 : list (N * V)) v :
  ag_get k m1 = Some v -> ag_get k (m1 ++ m2) = Some v.
Proof.
  induction m1 as [|[k' v'] m1 IH]; [discriminate|]. cbn [ag_get app].
  destruct (k =? k'); [trivial | exact IH].
Qed.

Lemma ag_get_none_notin {V} k (m : list (N * V)) : ag_get k m = None <-> ~ In k (map fst m).
Proof.
  induction m as [|[k' v'] m IH]; cbn [ag_get map fst In].
  - tauto.
  - destruct (k =? k') eqn:E.
    + apply N.eqb_eq in E. subst. split; [discriminate | intros H; exfalso; apply H; now left].
    + apply N.eqb_neq in E. rewrite IH. split; [intros H [H1|H1]; [congruence | tauto] | tauto].
Qed.

Lemma ag_get_in {V} k (v : V) m : NoDup (map fst m) -> (ag_get k m = Some v <-> In (k, v) m).
Proof.
  induction m as [|[k' v'] m IH]; cbn [ag_get map fst In]; intros ND.
  - split; [discriminate | tauto].
  - inversion ND as [|? ? Hni ND']; subst.
    destruct (k =? k') eqn:E.
    + apply N.eqb_eq in E. subst k'. split.
      * intros H; inversion H; subst; now left.
      * intros [H|H]; [inversion H; reflexivity|].
        exfalso. apply Hni. change k with (fst (k, v)). now apply in_map.
    + apply N.eqb_neq in E. rewrite (IH ND'). split; [tauto | intros [H|H]; [inversion H; congruence | exact H]].
Qed.

Lemma ag_set_keys {V} k (v : V) m :
  map fst (ag_set k v m) = if existsb (N.eqb k) (map fst m) then map fst m else map fst m ++ [k].
Proof.
  induction m as [|[k' v'] m IH]; cbn [ag_set map fst existsb app]; [reflexivity|].
  destruct (k =? k') eqn:E; cbn [orb map fst].
  - apply N.eqb_eq in E. now subst.
  - rewrite IH. destruct (existsb (N.eqb k) (map fst m)); reflexivity.
Qed.

Lemma nodup_snoc {A} (l : list A) x : NoDup l -> ~ In x l -> NoDup (l ++ [x]).
Proof.
  induction l as [|y l IH]; cbn [app]; intros ND Hni.
  - constructor; [tauto | constructor].
  - inversion ND; subst. constructor.
    + rewrite in_app_iff. cbn [In]. intros [H|[H|[]]]; [tauto | subst; apply Hni; now left].
    + apply IH; [assumption | intros H; apply Hni; now right].
Qed.

Lemma ag_set_nodup {V} k (v : V) m : NoDup (map fst m) -> NoDup (map fst (ag_set k v m)).
Proof.
  intros ND. rewrite ag_set_keys. destruct (existsb (N.eqb k) (map fst m)) eqn:E; [exact ND|].
  apply nodup_snoc; [exact ND|].
  intros Hin. assert (existsb (N.eqb k) (map fst m) = true) by (apply existsb_exists; exists k; split; [exact Hin | apply N.eqb_refl]).
  congruence.
Qed.

Lemma nodup_map_filter {A B} (f : A -> B) (p : A -> bool) (l : list A) :
  NoDup (map f l) -> NoDup (map f (filter p l)).
Proof.
  induction l as [|x l IH]; cbn [map filter]; intros ND; [constructor|].
  inversion ND as [|? ? Hni ND']; subst. destruct (p x); cbn [map]; [|now apply IH].
  constructor; [|now apply IH]. intros Hin. apply Hni.
  apply in_map_iff in Hin. destruct Hin as [y [Hy Hin]]. apply filter_In in Hin.
  apply in_map_iff. exists y. tauto.
Qed.

Lemma ag_del_nodup {V} k (m : list (N * V)) : NoDup (map fst m) -> NoDup (map fst (ag_del k m)).
Proof. apply nodup_map_filter. Qed.

Lemma ag_get_some_in {V} k (v : V) m : ag_get k m = Some v -> In (k, v) m.
Proof.
  induction m as [|[k' v'] m IH]; cbn [ag_get In]; [discriminate|].
  destruct (k =? k') eqn:E; [|intros H; right; now apply IH].
  apply N.eqb_eq in E. subst. intros H; inversion H; now left.
Qed.

(* ------------------------------------------------------------------------------------ *)
(* the iteration-order oracle always yields a permutation *)
Lemma ag_take_nth_perm {A} i (l : list A) x r : ag_take_nth i l = Some (x, r) -> Permutation l (x :: r).
Proof.
  revert i x r. induction l as [|y l IH]; intros i x r; destruct i as [|j]; cbn [ag_take_nth]; try discriminate.
  - intros H; inversion H; subst. apply Permutation_refl.
  - destruct (ag_take_nth j l) as [[z r']|] eqn:E; [|discriminate].
    intros H; inversion H; subst. apply IH in E.
    eapply perm_trans; [apply perm_skip; exact E | apply perm_swap].
Qed.

Lemma ag_permute_perm {A} o (l : list A) : Permutation (ag_permute o l) l.
Proof.
  revert l. induction o as [|k o IH]; intros l; cbn [ag_permute]; [apply Permutation_refl|].
  destruct (ag_take_nth (Nat.modulo k (length l)) l) as [[x r]|] eqn:E; [|apply Permutation_refl].
  apply ag_take_nth_perm in E. eapply perm_trans; [apply perm_skip; apply IH | apply Permutation_sym; exact E].
Qed.

Lemma bool_iff (a b : bool) : (a = true <-> b = true) -> a = b.
Proof. destruct a, b; intuition congruence. Qed.

Lemma existsb_perm {A} (f : A -> bool) l1 l2 : Permutation l1 l2 -> existsb f l1 = existsb f l2.
Proof.
  intros HP. apply bool_iff. rewrite !existsb_exists.
  split; intros [x [Hin Hf]]; exists x; split; try assumption.
  - eapply Permutation_in; eassumption.
  - eapply Permutation_in; [apply Permutation_sym|]; eassumption.
Qed.

(* Endpoints() of every agent is independent of the iteration order *)
Lemma agent_eids_has orc site a g e :
  existsb (ag_eid_eqb e) (ag_agent_eids orc site a g) = existsb (ag_eid_eqb e) (ag_agent_eids (fun _ _ => []) 0%nat a g).
Proof.
  destruct g; cbn [ag_agent_eids ag_permute]; try reflexivity.
  apply existsb_perm. apply Permutation_map. apply ag_permute_perm.
Qed.

(* ------------------------------------------------------------------------------------ *)
(* hand-overs *)
Lemma hands_app r o1 o2 : ag_hands_to r (o1 ++ o2) = ag_hands_to r o1 ++ ag_hands_to r o2.
Proof.
  induction o1 as [|x o1 IH]; [reflexivity|]. cbn [app ag_hands_to].
  destruct x; try exact IH. destruct (ag_recipient_eqb r r0); cbn [app]; [f_equal|]; exact IH.
Qed.

Lemma hands_map_none r (mk : N -> ag_recipient) b (L : list (N * ag_eid)) :
  (forall x, ag_recipient_eqb r (mk x) = false) ->
  ag_hands_to r (map (fun p => AOHand (mk (fst p)) b) L) = [].
Proof.
  intros Hmk. induction L as [|p L IH]; [reflexivity|]. cbn [map ag_hands_to]. now rewrite Hmk.
Qed.

Lemma hands_map_one r (mk : N -> ag_recipient) u b (L : list (N * ag_eid)) :
  (forall x, ag_recipient_eqb r (mk x) = (u =? x)) -> NoDup (map fst L) ->
  ag_hands_to r (map (fun p => AOHand (mk (fst p)) b) L) = if existsb (fun p => u =? fst p) L then [b] else [].
Proof.
  intros Hmk. induction L as [|p L IH]; intros ND; [reflexivity|].
  cbn [map ag_hands_to existsb fst]. inversion ND as [|? ? Hni ND']; subst. rewrite Hmk.
  destruct (u =? fst p) eqn:E; cbn [orb]; [|now apply IH].
  rewrite (IH ND'). apply N.eqb_eq in E. subst u.
  destruct (existsb (fun p0 => fst p =? fst p0) L) eqn:EX; [|reflexivity].
  exfalso. apply existsb_exists in EX. destruct EX as [q [Hq Hq2]]. apply N.eqb_eq in Hq2.
  apply Hni. rewrite Hq2. now apply in_map.
Qed.

Definition client_reg (cl : list (N * ag_eid)) (u : N) (e : ag_eid) : bool :=
  match ag_get u cl with Some e' => ag_eid_eqb e e' | None => false end.

Lemma client_reg_iff cl P u b :
  NoDup (map fst cl) -> Permutation P cl ->
  existsb (fun p => u =? fst p) (filter (ag_dst_match b) P) = client_reg cl u (ab_dst b).
Proof.
  intros ND HP. apply bool_iff. unfold client_reg. rewrite existsb_exists. split.
  - intros [[u' e'] [Hin Hu]]. apply filter_In in Hin. destruct Hin as [Hin Hm].
    cbn [fst] in Hu. apply N.eqb_eq in Hu. subst u'.
    assert (Hg : ag_get u cl = Some e') by (apply ag_get_in; [exact ND | eapply Permutation_in; eassumption]).
    rewrite Hg. exact Hm.
  - destruct (ag_get u cl) as [e'|] eqn:Hg; [|discriminate]. intros Hm.
    exists (u, e'). split; [|cbn [fst]; apply N.eqb_refl].
    apply filter_In. split; [|exact Hm].
    eapply Permutation_in; [apply Permutation_sym; exact HP | now apply ag_get_some_in].
Qed.

Lemma clients_hands r (mk : N -> ag_recipient) u b cl P :
  NoDup (map fst cl) -> Permutation P cl ->
  (forall x, ag_recipient_eqb r (mk x) = (u =? x)) ->
  ag_hands_to r (map (fun p => AOHand (mk (fst p)) b) (filter (ag_dst_match b) P))
  = if client_reg cl u (ab_dst b) then [b] else [].
Proof.
  intros ND HP Hmk. rewrite (hands_map_one r mk u b _ Hmk).
  - now rewrite (client_reg_iff cl P u b ND HP).
  - apply nodup_map_filter. eapply Permutation_NoDup; [|exact ND].
    apply Permutation_map. apply Permutation_sym. exact HP.
Qed.

Lemma client_reg_guard cl P u e :
  Permutation P cl -> client_reg cl u e = true -> existsb (ag_eid_eqb e) (map snd P) = true.
Proof.
  unfold client_reg. intros HP. destruct (ag_get u cl) as [e'|] eqn:Hg; [|discriminate]. intros Hm.
  apply existsb_exists. exists e'. split; [|exact Hm].
  apply in_map_iff. exists (u, e'). split; [reflexivity|].
  eapply Permutation_in; [apply Permutation_sym; exact HP | now apply ag_get_some_in].
Qed.

(* ------------------------------------------------------------------------------------ *)
(* WebSocket clients: the registered ones among the connected ones *)
Lemma ws_reg_keys_in c cl : In c (map fst (ag_ws_reg cl)) -> In c (map fst cl).
Proof.
  induction cl as [|[c' [e'|]] r IH]; cbn [ag_ws_reg map fst In]; [tauto| |].
  - intros [H|H]; [now left | right; now apply IH].
  - intros H. right. now apply IH.
Qed.

Lemma ws_reg_nodup cl : NoDup (map fst cl) -> NoDup (map fst (ag_ws_reg cl)).
Proof.
  induction cl as [|[c' [e'|]] r IH]; cbn [ag_ws_reg map fst]; intros ND; [constructor| |];
    inversion ND as [|? ? Hni ND']; subst.
  - constructor; [|now apply IH]. intros H. apply Hni. now apply ws_reg_keys_in.
  - now apply IH.
Qed.

Definition ws_client_reg (cl : list (N * option ag_eid)) (c : N) (e : ag_eid) : bool :=
  match ag_get c cl with Some (Some e') => ag_eid_eqb e e' | _ => false end.

Lemma ws_client_reg_eq cl c e :
  NoDup (map fst cl) -> ws_client_reg cl c e = client_reg (ag_ws_reg cl) c e.
Proof.
  unfold ws_client_reg, client_reg.
  induction cl as [|[c' [e'|]] r IH]; cbn [ag_ws_reg ag_get map fst]; intros ND; [reflexivity| |];
    inversion ND as [|? ? Hni ND']; subst.
  - destruct (c =? c'); [reflexivity | now apply IH].
  - destruct (c =? c') eqn:E; [|now apply IH].
    apply N.eqb_eq in E. subst c'.
    assert (Hn : ag_get c (ag_ws_reg r) = None).
    { apply ag_get_none_notin. intros H. apply Hni. now apply ws_reg_keys_in. }
    now rewrite Hn.
Qed.

Lemma ws_reg_guard cl c e :
  ws_client_reg cl c e = true -> existsb (ag_eid_eqb e) (map snd (ag_ws_reg cl)) = true.
Proof.
  unfold ws_client_reg.
  induction cl as [|[c' [e'|]] r IH]; cbn [ag_ws_reg ag_get map snd existsb]; [discriminate| |].
  - destruct (c =? c'); [intros ->; reflexivity|]. intros H. rewrite (IH H). apply orb_true_r.
  - destruct (c =? c'); [discriminate | exact IH].
Qed.

(* ------------------------------------------------------------------------------------ *)
(* well-formedness: labels / uuids / client labels are keys of maps *)
Definition wf_agent (g : ag_agent) : Prop :=
  match g with
  | ARest cl _ => NoDup (map fst cl)
  | AWs cl => NoDup (map fst cl)
  | _ => True
  end.
Definition wf_ch (ch : list (N * ag_agent)) : Prop :=
  NoDup (map fst ch) /\ Forall (fun p => wf_agent (snd p)) ch.

Definition rlabel (r : ag_recipient) : N :=
  match r with RMock a | RPing a | RRest a _ | RWs a _ => a end.

Definition fan_one (orc : ag_oracle) (a : N) (g : ag_agent) (b : abundle) : ag_agent * list ag_output :=
  if existsb (ag_eid_eqb (ab_dst b)) (ag_agent_eids orc 2%nat a g) then ag_agent_receive orc a g b else (g, []).

Lemma mux_fanout_cons orc a g r b :
  ag_mux_fanout orc ((a, g) :: r) b
  = ((a, fst (fan_one orc a g b)) :: fst (ag_mux_fanout orc r b), snd (fan_one orc a g b) ++ snd (ag_mux_fanout orc r b)).
Proof. reflexivity. Qed.

Lemma registered_cons a g ch r e :
  ag_registered ((a, g) :: ch) r e = if rlabel r =? a then ag_registered [(a, g)] r e else ag_registered ch r e.
Proof. destruct r; cbn [ag_registered ag_get rlabel]; destruct (a0 =? a); reflexivity. Qed.

Lemma registered_nolabel ch r e : ag_get (rlabel r) ch = None -> ag_registered ch r e = false.
Proof. destruct r; cbn [ag_registered rlabel]; intros ->; reflexivity. Qed.

Lemma fan_one_hands orc a g b r :
  wf_agent g ->
  ag_hands_to r (snd (fan_one orc a g b)) = if ag_registered [(a, g)] r (ab_dst b) then [b] else [].
Proof.
  intros WF. unfold fan_one. destruct g as [es|e|cl mb|cl]; cbn [ag_agent_eids ag_agent_receive].
  - (* mock *)
    destruct r as [a0|a0|a0 u|a0 u]; cbn [ag_registered ag_get]; destruct (a0 =? a) eqn:E;
      destruct (existsb (ag_eid_eqb (ab_dst b)) es); cbn [snd ag_hands_to ag_recipient_eqb]; rewrite ?E; reflexivity.
  - (* ping *)
    cbn [existsb]. rewrite orb_false_r.
    destruct r as [a0|a0|a0 u|a0 u]; cbn [ag_registered ag_get]; destruct (a0 =? a) eqn:E;
      destruct (ag_eid_eqb (ab_dst b) e); cbn [snd ag_hands_to ag_recipient_eqb]; rewrite ?E; reflexivity.
  - (* REST *)
    cbn [wf_agent] in WF.
    set (P2 := ag_permute (orc a 2%nat) cl). set (P9 := ag_permute (orc a 9%nat) cl).
    assert (HP2 : Permutation P2 cl) by apply ag_permute_perm.
    assert (HP9 : Permutation P9 cl) by apply ag_permute_perm.
    destruct r as [a0|a0|a0 u|a0 u]; cbn [ag_registered ag_get].
    1,2,4: assert (ag_hands_to _ (snd (if existsb (ag_eid_eqb (ab_dst b)) (map snd P2)
             then (ARest cl (fold_left (fun m u => ag_mb_put u b m) (map fst (filter (ag_dst_match b) P9)) mb),
                   map (fun p => AOHand (RRest a (fst p)) b) (filter (ag_dst_match b) P9))
             else (ARest cl mb, []))) = []) as ->
        by (destruct (existsb _ (map snd P2)); cbn [snd]; [apply hands_map_none; intros x; reflexivity | reflexivity]);
      destruct (a0 =? a); reflexivity.
    destruct (a0 =? a) eqn:E.
    + fold (client_reg cl u (ab_dst b)).
      destruct (existsb (ag_eid_eqb (ab_dst b)) (map snd P2)) eqn:G; cbn [snd].
      * apply (clients_hands (RRest a0 u) (RRest a) u b cl P9 WF HP9).
        intros x. cbn [ag_recipient_eqb]. now rewrite E.
      * destruct (client_reg cl u (ab_dst b)) eqn:CR; [|reflexivity].
        rewrite (client_reg_guard cl P2 u _ HP2 CR) in G. discriminate.
    + destruct (existsb (ag_eid_eqb (ab_dst b)) (map snd P2)); cbn [snd]; [|reflexivity].
      apply hands_map_none. intros x. cbn [ag_recipient_eqb]. now rewrite E.
  - (* WebSocket *)
    cbn [wf_agent] in WF.
    pose proof (ws_reg_nodup cl WF) as WFr. set (rc := ag_ws_reg cl) in *.
    destruct r as [a0|a0|a0 u|a0 u]; cbn [ag_registered ag_get].
    1,2,3: assert (ag_hands_to _ (snd (if existsb (ag_eid_eqb (ab_dst b)) (map snd rc)
             then (AWs cl, map (fun p => AOHand (RWs a (fst p)) b) (filter (ag_dst_match b) rc))
             else (AWs cl, []))) = []) as ->
        by (destruct (existsb _ (map snd rc)); cbn [snd]; [apply hands_map_none; intros x; reflexivity | reflexivity]);
      destruct (a0 =? a); reflexivity.
    destruct (a0 =? a) eqn:E.
    + fold (ws_client_reg cl u (ab_dst b)). rewrite (ws_client_reg_eq cl u (ab_dst b) WF). fold rc.
      destruct (existsb (ag_eid_eqb (ab_dst b)) (map snd rc)) eqn:G; cbn [snd].
      * apply (clients_hands (RWs a0 u) (RWs a) u b rc rc WFr (Permutation_refl _)).
        intros x. cbn [ag_recipient_eqb]. now rewrite E.
      * destruct (client_reg rc u (ab_dst b)) eqn:CR; [|reflexivity].
        rewrite (client_reg_guard rc rc u _ (Permutation_refl _) CR) in G. discriminate.
    + destruct (existsb (ag_eid_eqb (ab_dst b)) (map snd rc)); cbn [snd]; [|reflexivity].
      apply hands_map_none. intros x. cbn [ag_recipient_eqb]. now rewrite E.
Qed.

Lemma fanout_hands orc ch b r :
  wf_ch ch ->
  ag_hands_to r (snd (ag_mux_fanout orc ch b)) = if ag_registered ch r (ab_dst b) then [b] else [].
Proof.
  induction ch as [|[a g] ch IH]; intros [ND WF].
  - destruct r; reflexivity.
  - rewrite mux_fanout_cons. cbn [snd]. rewrite hands_app.
    cbn [map fst] in ND. inversion ND as [|? ? Hni ND']; subst.
    inversion WF as [|? ? WFg WF']; subst. cbn [snd] in WFg.
    rewrite (registered_cons a g ch), (fan_one_hands orc a g b r WFg), (IH (conj ND' WF')).
    destruct (rlabel r =? a) eqn:E.
    + apply N.eqb_eq in E. rewrite (registered_nolabel ch r).
      * destruct (ag_registered [(a, g)] r (ab_dst b)); reflexivity.
      * rewrite E. now apply ag_get_none_notin.
    + rewrite (registered_nolabel [(a, g)] r); [reflexivity|].
      cbn [ag_get]. now rewrite E.
Qed.

(* ------------------------------------------------------------------------------------ *)
(* the fan-out changes mailboxes only *)
Definition is_hand (o : ag_output) : bool := match o with AOHand _ _ => true | _ => false end.

Lemma fan_one_only_hands orc a g b : forallb is_hand (snd (fan_one orc a g b)) = true.
Proof.
  unfold fan_one. destruct (existsb _ _); [|reflexivity].
  destruct g; cbn [ag_agent_receive snd]; try reflexivity;
    apply forallb_forall; intros x Hx; apply in_map_iff in Hx; destruct Hx as [p [<- _]]; reflexivity.
Qed.

Lemma fanout_only_hands orc ch b : forallb is_hand (snd (ag_mux_fanout orc ch b)) = true.
Proof.
  induction ch as [|[a g] ch IH]; [reflexivity|].
  rewrite mux_fanout_cons. cbn [snd]. rewrite forallb_app, fan_one_only_hands, IH. reflexivity.
Qed.

Lemma only_hands_no_sent outs : forallb is_hand outs = true -> filter ag_is_sent outs = [].
Proof.
  induction outs as [|o outs IH]; [reflexivity|]. cbn [forallb filter]. intros H.
  apply andb_true_iff in H. destruct H as [H1 H2]. destruct o; try discriminate. cbn [ag_is_sent]. auto.
Qed.

Lemma fanout_labels orc ch b : map fst (fst (ag_mux_fanout orc ch b)) = map fst ch.
Proof.
  induction ch as [|[a g] ch IH]; [reflexivity|]. rewrite mux_fanout_cons. cbn [fst map]. now rewrite IH.
Qed.

Lemma fan_one_wf orc a g b : wf_agent g -> wf_agent (fst (fan_one orc a g b)).
Proof. unfold fan_one. destruct (existsb _ _); [|trivial]. destruct g; cbn [ag_agent_receive fst wf_agent]; trivial. Qed.

Lemma fan_one_registered orc a g b r e :
  ag_registered [(a, fst (fan_one orc a g b))] r e = ag_registered [(a, g)] r e.
Proof.
  unfold fan_one. destruct (existsb _ _); [|reflexivity].
  destruct g; try reflexivity. cbn [ag_agent_receive fst].
  destruct r; cbn [ag_registered ag_get]; destruct (_ =? a); reflexivity.
Qed.

Lemma fanout_wf orc ch b : wf_ch ch -> wf_ch (fst (ag_mux_fanout orc ch b)).
Proof.
  intros [ND WF]. split; [now rewrite fanout_labels|].
  clear ND. induction ch as [|[a g] ch IH]; [constructor|].
  inversion WF; subst. rewrite mux_fanout_cons. cbn [fst]. constructor; [|now apply IH].
  cbn [snd] in *. now apply fan_one_wf.
Qed.

Lemma fanout_registered orc ch b r e :
  ag_registered (fst (ag_mux_fanout orc ch b)) r e = ag_registered ch r e.
Proof.
  induction ch as [|[a g] ch IH]; [reflexivity|].
  rewrite mux_fanout_cons. cbn [fst].
  rewrite (registered_cons a g ch), (registered_cons a (fst (fan_one orc a g b))), IH, fan_one_registered. reflexivity.
Qed.

(* AgentManager.HasEndpoint: true exactly when somebody is registered for the endpoint *)
Lemma registered_one_has orc site a g r e :
  ag_registered [(a, g)] r e = true -> existsb (ag_eid_eqb e) (ag_agent_eids orc site a g) = true.
Proof.
  destruct r as [a0|a0|a0 u|a0 u]; cbn [ag_registered ag_get]; destruct (a0 =? a); try discriminate;
    destruct g as [es|e'|cl mb|cl]; try discriminate; cbn [ag_agent_eids].
  - trivial.
  - cbn [existsb]. intros ->. reflexivity.
  - apply (client_reg_guard cl (ag_permute (orc a site) cl) u e (ag_permute_perm _ _)).
  - apply (ws_reg_guard cl u e).
Qed.

Lemma mux_has_cons orc site a g ch e :
  ag_mux_has orc site ((a, g) :: ch) e = existsb (ag_eid_eqb e) (ag_agent_eids orc site a g) || ag_mux_has orc site ch e.
Proof. unfold ag_mux_has, ag_mux_eids. cbn [flat_map fst snd]. apply existsb_app. Qed.

Lemma registered_label_some ch r e : ag_registered ch r e = true -> ag_get (rlabel r) ch <> None.
Proof. intros H E. rewrite (registered_nolabel ch r e E) in H. discriminate. Qed.

Lemma mux_has_of_registered orc site ch r e :
  ag_registered ch r e = true -> ag_mux_has orc site ch e = true.
Proof.
  induction ch as [|[a g] ch IH].
  - destruct r; discriminate.
  - rewrite (registered_cons a g ch), mux_has_cons. destruct (rlabel r =? a).
    + intros H. rewrite (registered_one_has orc site a g r e H). reflexivity.
    + intros H. rewrite (IH H). apply orb_true_r.
Qed.

Lemma clients_has_registered cl P e :
  NoDup (map fst cl) -> Permutation P cl -> existsb (ag_eid_eqb e) (map snd P) = true ->
  exists u, client_reg cl u e = true.
Proof.
  intros ND HP H. apply existsb_exists in H. destruct H as [e' [Hin He]].
  apply in_map_iff in Hin. destruct Hin as [[u e''] [Hs Hin]]. cbn [snd] in Hs. subst e''.
  exists u. unfold client_reg.
  assert (Hg : ag_get u cl = Some e') by (apply ag_get_in; [exact ND | eapply Permutation_in; eassumption]).
  now rewrite Hg.
Qed.

Lemma has_one_registered orc site a g e :
  wf_agent g -> existsb (ag_eid_eqb e) (ag_agent_eids orc site a g) = true ->
  exists r, rlabel r = a /\ ag_registered [(a, g)] r e = true.
Proof.
  intros WF H. destruct g as [es|e'|cl mb|cl]; cbn [ag_agent_eids wf_agent] in *.
  - exists (RMock a). split; [reflexivity|]. cbn [ag_registered ag_get]. now rewrite N.eqb_refl.
  - exists (RPing a). split; [reflexivity|]. cbn [ag_registered ag_get]. rewrite N.eqb_refl.
    cbn [existsb] in H. now rewrite orb_false_r in H.
  - destruct (clients_has_registered cl _ e WF (ag_permute_perm _ _) H) as [u Hu].
    exists (RRest a u). split; [reflexivity|]. cbn [ag_registered ag_get]. now rewrite N.eqb_refl.
  - destruct (clients_has_registered (ag_ws_reg cl) (ag_ws_reg cl) e (ws_reg_nodup cl WF) (Permutation_refl _) H) as [u Hu].
    exists (RWs a u). split; [reflexivity|]. cbn [ag_registered ag_get]. rewrite N.eqb_refl.
    fold (ws_client_reg cl u e). now rewrite (ws_client_reg_eq cl u e WF).
Qed.

Lemma registered_of_mux_has orc site ch e :
  wf_ch ch -> ag_mux_has orc site ch e = true -> exists r, ag_registered ch r e = true.
Proof.
  induction ch as [|[a g] ch IH]; intros [ND WF]; [discriminate|].
  cbn [map fst] in ND. inversion ND as [|? ? Hni ND']; subst. inversion WF as [|? ? WFg WF']; subst.
  rewrite mux_has_cons. intros H. apply orb_true_iff in H. destruct H as [H|H].
  - destruct (has_one_registered orc site a g e WFg H) as [r [Hl Hr]].
    exists r. rewrite (registered_cons a g ch), Hl, N.eqb_refl. exact Hr.
  - destruct (IH (conj ND' WF') H) as [r Hr]. exists r. rewrite (registered_cons a g ch).
    destruct (rlabel r =? a) eqn:E; [|exact Hr]. exfalso.
    apply N.eqb_eq in E. apply (registered_label_some ch r e Hr). rewrite E. now apply ag_get_none_notin.
Qed.

(* ------------------------------------------------------------------------------------ *)
(* one arriving bundle *)
Lemma hands_sent r b l : ag_hands_to r (map (fun p => AOSent p b) l) = [].
Proof. induction l; [reflexivity | exact IHl]. Qed.

Lemma deliver_dup orc s b :
  existsb (N.eqb (ab_id b)) (ast_known s) = true -> ag_deliver orc s b = (s, [AODup b]).
Proof. unfold ag_deliver. now intros ->. Qed.

Lemma deliver_exact orc s b r :
  wf_ch (ast_ch s) -> existsb (N.eqb (ab_id b)) (ast_known s) = false ->
  ag_hands_to r (snd (ag_deliver orc s b)) = if ag_registered (ast_ch s) r (ab_dst b) then [b] else [].
Proof.
  intros WF HK. unfold ag_deliver. rewrite HK.
  destruct (ag_core_has orc 0%nat s (ab_dst b)) eqn:CH.
  - unfold ag_local_delivery, ag_am_deliver.
    destruct (ag_mux_has orc 1%nat (ast_ch s) (ab_dst b)) eqn:M.
    + pose proof (fanout_hands orc (ast_ch s) b r WF) as FH.
      destruct (ag_mux_fanout orc (ast_ch s) b) as [ch' outs]. cbn [snd] in *.
      rewrite !hands_app, FH.
      destruct (ab_want b && negb _); cbn [ag_hands_to app]; now rewrite app_nil_r.
    + cbn [snd ag_hands_to].
      destruct (ag_registered (ast_ch s) r (ab_dst b)) eqn:R; [|reflexivity].
      rewrite (mux_has_of_registered orc 1%nat _ _ _ R) in M. discriminate.
  - unfold ag_forward. cbn [snd]. rewrite hands_sent.
    destruct (ag_registered (ast_ch s) r (ab_dst b)) eqn:R; [|reflexivity].
    unfold ag_core_has in CH. rewrite (mux_has_of_registered orc 0%nat _ _ _ R), orb_true_r in CH. discriminate.
Qed.

Lemma deliver_no_sent orc s b r :
  ag_registered (ast_ch s) r (ab_dst b) = true -> filter ag_is_sent (snd (ag_deliver orc s b)) = [].
Proof.
  intros R. unfold ag_deliver. destruct (existsb _ (ast_known s)); [reflexivity|].
  unfold ag_core_has. rewrite (mux_has_of_registered orc 0%nat _ _ _ R), orb_true_r.
  unfold ag_local_delivery, ag_am_deliver. rewrite (mux_has_of_registered orc 1%nat _ _ _ R).
  pose proof (fanout_only_hands orc (ast_ch s) b) as FH.
  destruct (ag_mux_fanout orc (ast_ch s) b) as [ch' outs]. cbn [snd] in *.
  rewrite !filter_app, (only_hands_no_sent outs FH).
  destruct (ab_want b && negb _); reflexivity.
Qed.

Lemma deliver_ch orc s b :
  ast_ch (fst (ag_deliver orc s b)) = ast_ch s \/ ast_ch (fst (ag_deliver orc s b)) = fst (ag_mux_fanout orc (ast_ch s) b).
Proof.
  unfold ag_deliver. destruct (existsb _ (ast_known s)); [now left|].
  destruct (ag_core_has orc 0%nat s (ab_dst b)); [|now left].
  unfold ag_local_delivery, ag_am_deliver. destruct (ag_mux_has orc 1%nat (ast_ch s) (ab_dst b)); [|now left].
  destruct (ag_mux_fanout orc (ast_ch s) b) as [ch' outs]. now right.
Qed.

(* ------------------------------------------------------------------------------------ *)
(* well-formedness is an invariant *)
Lemma forall_set {V} (P : N * V -> Prop) k v m : Forall P m -> P (k, v) -> Forall P (ag_set k v m).
Proof.
  intros HF HP. induction m as [|[k' v'] m IH]; cbn [ag_set]; [constructor; [exact HP | constructor]|].
  inversion HF; subst. destruct (k =? k'); constructor; auto.
Qed.

Lemma wf_ch_set ch a g : wf_ch ch -> wf_agent g -> wf_ch (ag_set a g ch).
Proof. intros [ND WF] Hg. split; [now apply ag_set_nodup | now apply forall_set]. Qed.

Lemma wf_ch_get ch a g : wf_ch ch -> ag_get a ch = Some g -> wf_agent g.
Proof.
  intros [_ WF] Hg. apply ag_get_some_in in Hg. rewrite Forall_forall in WF. exact (WF _ Hg).
Qed.

Lemma wf_ch_snoc ch a g : wf_ch ch -> ag_get a ch = None -> wf_agent g -> wf_ch (ch ++ [(a, g)]).
Proof.
  intros [ND WF] Hn Hg. split.
  - rewrite map_app. cbn [map fst]. apply nodup_snoc; [exact ND | now apply ag_get_none_notin].
  - apply Forall_app. split; [exact WF | constructor; [exact Hg | constructor]].
Qed.

Lemma initial_wf g : ag_agent_initial g = true -> wf_agent g.
Proof. destruct g as [| |cl mb|cl]; cbn; trivial; destruct cl; try discriminate; intros; constructor. Qed.

Lemma step_wf s ev s' o : wf_ch (ast_ch s) -> ag_step s ev = Some (s', o) -> wf_ch (ast_ch s').
Proof.
  intros WF. destruct ev as [a g|a u e|a u|a u|a c e|a c|a c|a c oe|b orc]; cbn [ag_step].
  - destruct (ag_get a (ast_ch s)) eqn:G; [discriminate|].
    destruct (ag_agent_initial g) eqn:I; [|discriminate]. intros H; inversion H; subst. cbn [ag_set_ch ast_ch].
    apply wf_ch_snoc; auto using initial_wf.
  - destruct (ag_get a (ast_ch s)) as [[| |cl mb|]|] eqn:G; try discriminate.
    intros H; inversion H; subst. cbn [ag_set_ch ast_ch]. apply wf_ch_set; [exact WF|].
    cbn [wf_agent]. apply ag_set_nodup. exact (wf_ch_get _ _ _ WF G).
  - destruct (ag_get a (ast_ch s)) as [[| |cl mb|]|] eqn:G; try discriminate.
    intros H; inversion H; subst. cbn [ag_set_ch ast_ch]. apply wf_ch_set; [exact WF|].
    cbn [wf_agent]. apply ag_del_nodup. exact (wf_ch_get _ _ _ WF G).
  - destruct (ag_get a (ast_ch s)) as [[| |cl mb|]|] eqn:G; try discriminate.
    intros H; inversion H; subst. cbn [ag_set_ch ast_ch]. apply wf_ch_set; [exact WF|].
    exact (wf_ch_get _ _ _ WF G).
  - destruct (ag_get a (ast_ch s)) as [[| | |cl]|] eqn:G; try discriminate.
    destruct (ag_get c cl) eqn:GC; [discriminate|].
    intros H; inversion H; subst. cbn [ag_set_ch ast_ch]. apply wf_ch_set; [exact WF|].
    cbn [wf_agent]. rewrite map_app. cbn [map fst]. apply nodup_snoc.
    + exact (wf_ch_get _ _ _ WF G).
    + now apply ag_get_none_notin.
  - destruct (ag_get a (ast_ch s)) as [[| | |cl]|] eqn:G; try discriminate.
    intros H; inversion H; subst. cbn [ag_set_ch ast_ch]. apply wf_ch_set; [exact WF|].
    cbn [wf_agent]. apply ag_del_nodup. exact (wf_ch_get _ _ _ WF G).
  - destruct (ag_get a (ast_ch s)) as [[| | |cl]|] eqn:G; try discriminate.
    destruct (ag_get c cl) eqn:GC; [discriminate|].
    intros H; inversion H; subst. cbn [ag_set_ch ast_ch]. apply wf_ch_set; [exact WF|].
    cbn [wf_agent]. rewrite map_app. cbn [map fst]. apply nodup_snoc.
    + exact (wf_ch_get _ _ _ WF G).
    + now apply ag_get_none_notin.
  - destruct (ag_get a (ast_ch s)) as [[| | |cl]|] eqn:G; try discriminate.
    pose proof (wf_ch_get _ _ _ WF G) as WFg. cbn [wf_agent] in WFg.
    destruct (ag_get c cl) as [[e0|]|] eqn:GC; [| |discriminate].
    + intros H; inversion H; subst. cbn [ag_set_ch ast_ch]. apply wf_ch_set; [exact WF|].
      cbn [wf_agent]. now apply ag_del_nodup.
    + destruct oe as [e1|]; intros H; inversion H; subst; cbn [ag_set_ch ast_ch]; (apply wf_ch_set; [exact WF|]);
        cbn [wf_agent]; [now apply ag_set_nodup | now apply ag_del_nodup].
  - intros H. assert (Hs : s' = fst (ag_deliver orc s b)) by (inversion H as [H1]; now rewrite H1).
    rewrite Hs. destruct (deliver_ch orc s b) as [E|E]; rewrite E; [exact WF | now apply fanout_wf].
Qed.

Lemma run_wf h : forall s s' o, wf_ch (ast_ch s) -> ag_run s h = Some (s', o) -> wf_ch (ast_ch s').
Proof.
  induction h as [|ev h IH]; intros s s' o WF; cbn [ag_run].
  - intros H; inversion H; now subst.
  - destruct (ag_step s ev) as [[s1 o1]|] eqn:ST; [|discriminate].
    destruct (ag_run s1 h) as [[s2 o2]|] eqn:RN; [|discriminate].
    intros H; inversion H; subst. eapply IH; [eapply step_wf; eassumption | eassumption].
Qed.

Lemma init_wf node peers : wf_ch (ast_ch (ag_init node peers)).
Proof. split; constructor. Qed.

(* ------------------------------------------------------------------------------------ *)
(* conservation of mailbox content: puts = consumed ++ pending *)
Lemma consumed_app a u o1 o2 : ag_consumed a u (o1 ++ o2) = ag_consumed a u o1 ++ ag_consumed a u o2.
Proof.
  induction o1 as [|x o1 IH]; [reflexivity|]. cbn [app ag_consumed].
  destruct x; try exact IH; destruct ((a =? a0) && (u =? u0)); rewrite IH; now rewrite ?app_assoc.
Qed.

Lemma consumed_only_hands a u outs : forallb is_hand outs = true -> ag_consumed a u outs = [].
Proof.
  induction outs as [|o outs IH]; [reflexivity|]. cbn [forallb]. intros H.
  apply andb_true_iff in H. destruct H as [H1 H2]. destruct o; try discriminate. cbn [ag_consumed]. auto.
Qed.

Lemma consumed_sent a u b l : ag_consumed a u (map (fun p => AOSent p b) l) = [].
Proof. induction l; [reflexivity | exact IHl]. Qed.

Lemma mb_put_contents u u' b mb :
  ag_mb_contents u (ag_mb_put u' b mb) = if u =? u' then ag_mb_contents u mb ++ [b] else ag_mb_contents u mb.
Proof.
  unfold ag_mb_put, ag_mb_contents. destruct (u =? u') eqn:E.
  - apply N.eqb_eq in E. subst u'. destruct (ag_get u mb) eqn:G; now rewrite ag_get_set_same.
  - apply N.eqb_neq in E. destruct (ag_get u' mb); now rewrite ag_get_set_other.
Qed.

Lemma fold_put_contents u b us : forall mb, NoDup us ->
  ag_mb_contents u (fold_left (fun m x => ag_mb_put x b m) us mb)
  = ag_mb_contents u mb ++ (if existsb (N.eqb u) us then [b] else []).
Proof.
  induction us as [|x us IH]; intros mb ND; cbn [fold_left existsb].
  - now rewrite app_nil_r.
  - inversion ND as [|? ? Hni ND']; subst. rewrite (IH _ ND'), mb_put_contents.
    destruct (u =? x) eqn:E; cbn [orb]; [|reflexivity].
    apply N.eqb_eq in E. subst x.
    destruct (existsb (N.eqb u) us) eqn:EX; [|now rewrite app_nil_r].
    exfalso. apply existsb_exists in EX. destruct EX as [y [Hy Hy2]]. apply N.eqb_eq in Hy2. now subst.
Qed.

Lemma existsb_map_fst {B} u (l : list (N * B)) :
  existsb (N.eqb u) (map fst l) = existsb (fun p => u =? fst p) l.
Proof. induction l as [|p l IH]; [reflexivity|]. cbn [map existsb]. now rewrite IH. Qed.

Definition mbox_of (g : ag_agent) (u : N) : list abundle :=
  match g with ARest _ mb => ag_mb_contents u mb | _ => [] end.

Lemma mailbox_cons a' g ch a u :
  ag_mailbox ((a', g) :: ch) a u = if a =? a' then mbox_of g u else ag_mailbox ch a u.
Proof. unfold ag_mailbox. cbn [ag_get]. destruct (a =? a'); [destruct g|]; reflexivity. Qed.

Lemma fan_one_mailbox orc a g b u :
  wf_agent g ->
  mbox_of (fst (fan_one orc a g b)) u = mbox_of g u ++ ag_hands_to (RRest a u) (snd (fan_one orc a g b)).
Proof.
  intros WF. destruct g as [es|e|cl mb|cl].
  1,2,4: rewrite (fan_one_hands orc a _ b (RRest a u) WF); cbn [ag_registered ag_get]; rewrite N.eqb_refl;
    unfold fan_one; destruct (existsb _ _); reflexivity.
  unfold fan_one. cbn [ag_agent_eids ag_agent_receive]. cbn [wf_agent] in WF.
  destruct (existsb _ _); cbn [fst snd mbox_of ag_hands_to]; [|now rewrite app_nil_r].
  set (hit := filter (ag_dst_match b) (ag_permute (orc a 9%nat) cl)).
  assert (NDh : NoDup (map fst hit)).
  { apply nodup_map_filter. eapply Permutation_NoDup; [|exact WF].
    apply Permutation_map. apply Permutation_sym. apply ag_permute_perm. }
  rewrite (fold_put_contents u b (map fst hit) mb NDh), existsb_map_fst.
  rewrite (hands_map_one (RRest a u) (RRest a) u b hit); [reflexivity | | exact NDh].
  intros x. cbn [ag_recipient_eqb]. now rewrite N.eqb_refl.
Qed.

Lemma fanout_mailbox orc ch b a u :
  wf_ch ch ->
  ag_mailbox (fst (ag_mux_fanout orc ch b)) a u
  = ag_mailbox ch a u ++ ag_hands_to (RRest a u) (snd (ag_mux_fanout orc ch b)).
Proof.
  induction ch as [|[a' g] ch IH]; intros [ND WF]; [reflexivity|].
  cbn [map fst] in ND. inversion ND as [|? ? Hni ND']; subst. inversion WF as [|? ? WFg WF']; subst. cbn [snd] in WFg.
  rewrite mux_fanout_cons. cbn [fst snd]. rewrite !mailbox_cons, hands_app.
  destruct (a =? a') eqn:E.
  - apply N.eqb_eq in E. subst a'.
    rewrite (fanout_hands orc ch b (RRest a u) (conj ND' WF')), (registered_nolabel ch (RRest a u)).
    + rewrite app_nil_r. now apply fan_one_mailbox.
    + cbn [rlabel]. now apply ag_get_none_notin.
  - rewrite (fan_one_hands orc a' g b (RRest a u) WFg). cbn [ag_registered ag_get]. rewrite E. cbn [app].
    exact (IH (conj ND' WF')).
Qed.

Lemma mailbox_set_same ch a g u : ag_mailbox (ag_set a g ch) a u = mbox_of g u.
Proof. unfold ag_mailbox. rewrite ag_get_set_same. destruct g; reflexivity. Qed.
Lemma mailbox_set_other ch a a' g u : a <> a' -> ag_mailbox (ag_set a' g ch) a u = ag_mailbox ch a u.
Proof. intros H. unfold ag_mailbox. now rewrite ag_get_set_other. Qed.
Lemma mailbox_get ch a g u : ag_get a ch = Some g -> ag_mailbox ch a u = mbox_of g u.
Proof. intros H. unfold ag_mailbox. rewrite H. destruct g; reflexivity. Qed.

Lemma contents_del u u' (mb : list (N * list abundle)) :
  ag_mb_contents u (ag_del u' mb) = if u =? u' then [] else ag_mb_contents u mb.
Proof.
  unfold ag_mb_contents. destruct (u =? u') eqn:E.
  - apply N.eqb_eq in E. subst. now rewrite ag_get_del_same.
  - apply N.eqb_neq in E. now rewrite ag_get_del_other.
Qed.

Lemma deliver_mailbox orc s b a u :
  wf_ch (ast_ch s) ->
  ag_mailbox (ast_ch s) a u ++ ag_hands_to (RRest a u) (snd (ag_deliver orc s b))
  = ag_consumed a u (snd (ag_deliver orc s b)) ++ ag_mailbox (ast_ch (fst (ag_deliver orc s b))) a u.
Proof.
  intros WF. unfold ag_deliver. destruct (existsb _ (ast_known s)); [cbn; now rewrite app_nil_r|].
  destruct (ag_core_has orc 0%nat s (ab_dst b)).
  - unfold ag_local_delivery, ag_am_deliver. destruct (ag_mux_has orc 1%nat (ast_ch s) (ab_dst b)).
    + pose proof (fanout_mailbox orc (ast_ch s) b a u WF) as FM.
      pose proof (fanout_only_hands orc (ast_ch s) b) as FH.
      destruct (ag_mux_fanout orc (ast_ch s) b) as [ch' outs]. cbn [fst snd ast_ch] in *.
      rewrite !hands_app, !consumed_app, (consumed_only_hands a u outs FH), FM.
      destruct (ab_want b && negb _); cbn [ag_hands_to ag_consumed app]; now rewrite app_nil_r.
    + cbn. now rewrite app_nil_r.
  - unfold ag_forward. cbn [fst snd ast_ch]. rewrite hands_sent, consumed_sent. cbn [app]. now rewrite app_nil_r.
Qed.

Lemma step_conservation s ev s' o a u :
  wf_ch (ast_ch s) -> ag_step s ev = Some (s', o) ->
  ag_mailbox (ast_ch s) a u ++ ag_hands_to (RRest a u) o = ag_consumed a u o ++ ag_mailbox (ast_ch s') a u.
Proof.
  intros WF. destruct ev as [a' g|a' u' e|a' u'|a' u'|a' c e|a' c|a' c|a' c oe|b orc]; cbn [ag_step].
  - destruct (ag_get a' (ast_ch s)) eqn:G; [discriminate|].
    destruct (ag_agent_initial g) eqn:I; [|discriminate]. intros H; inversion H; subst.
    cbn [ag_set_ch ast_ch ag_hands_to ag_consumed app]. rewrite app_nil_r.
    unfold ag_mailbox. destruct (ag_get a (ast_ch s)) eqn:Ga.
    + now rewrite (ag_get_app_some _ _ _ _ Ga).
    + rewrite (ag_get_app_none _ _ _ Ga). cbn [ag_get]. destruct (a =? a'); [|reflexivity].
      destruct g as [| |cl mb|]; try reflexivity. destruct cl; [|discriminate]. destruct mb; [reflexivity|discriminate].
  - destruct (ag_get a' (ast_ch s)) as [[| |cl mb|]|] eqn:G; try discriminate.
    intros H; inversion H; subst. cbn [ag_set_ch ast_ch ag_hands_to ag_consumed app]. rewrite app_nil_r.
    destruct (N.eq_dec a a') as [->|Hne].
    + now rewrite mailbox_set_same, (mailbox_get _ _ _ u G).
    + now rewrite mailbox_set_other.
  - destruct (ag_get a' (ast_ch s)) as [[| |cl mb|]|] eqn:G; try discriminate.
    intros H; inversion H; subst. cbn [ag_set_ch ast_ch ag_hands_to ag_consumed]. rewrite app_nil_r.
    destruct (N.eq_dec a a') as [->|Hne].
    + rewrite mailbox_set_same, (mailbox_get _ _ _ u G), N.eqb_refl. cbn [mbox_of andb].
      rewrite contents_del. destruct (u =? u') eqn:E; cbn [app].
      * apply N.eqb_eq in E. subst. now rewrite !app_nil_r.
      * reflexivity.
    + rewrite mailbox_set_other by exact Hne. apply N.eqb_neq in Hne. rewrite Hne. reflexivity.
  - destruct (ag_get a' (ast_ch s)) as [[| |cl mb|]|] eqn:G; try discriminate.
    intros H; inversion H; subst. cbn [ag_set_ch ast_ch ag_hands_to ag_consumed]. rewrite app_nil_r.
    destruct (N.eq_dec a a') as [->|Hne].
    + rewrite mailbox_set_same, (mailbox_get _ _ _ u G), N.eqb_refl. cbn [mbox_of andb].
      rewrite contents_del. destruct (u =? u') eqn:E; cbn [app].
      * apply N.eqb_eq in E. subst. now rewrite !app_nil_r.
      * reflexivity.
    + rewrite mailbox_set_other by exact Hne. apply N.eqb_neq in Hne. rewrite Hne. reflexivity.
  - destruct (ag_get a' (ast_ch s)) as [[| | |cl]|] eqn:G; try discriminate.
    destruct (ag_get c cl); [discriminate|].
    intros H; inversion H; subst. cbn [ag_set_ch ast_ch ag_hands_to ag_consumed app]. rewrite app_nil_r.
    destruct (N.eq_dec a a') as [->|Hne].
    + now rewrite mailbox_set_same, (mailbox_get _ _ _ u G).
    + now rewrite mailbox_set_other.
  - destruct (ag_get a' (ast_ch s)) as [[| | |cl]|] eqn:G; try discriminate.
    intros H; inversion H; subst. cbn [ag_set_ch ast_ch ag_hands_to ag_consumed app]. rewrite app_nil_r.
    destruct (N.eq_dec a a') as [->|Hne].
    + now rewrite mailbox_set_same, (mailbox_get _ _ _ u G).
    + now rewrite mailbox_set_other.
  - destruct (ag_get a' (ast_ch s)) as [[| | |cl]|] eqn:G; try discriminate.
    destruct (ag_get c cl); [discriminate|].
    intros H; inversion H; subst. cbn [ag_set_ch ast_ch ag_hands_to ag_consumed app]. rewrite app_nil_r.
    destruct (N.eq_dec a a') as [->|Hne].
    + now rewrite mailbox_set_same, (mailbox_get _ _ _ u G).
    + now rewrite mailbox_set_other.
  - destruct (ag_get a' (ast_ch s)) as [[| | |cl]|] eqn:G; try discriminate.
    assert (WS : forall cl', ag_mailbox (ast_ch s) a u ++ [] = [] ++ ag_mailbox (ag_set a' (AWs cl') (ast_ch s)) a u).
    { intros cl'. rewrite app_nil_r. cbn [app]. destruct (N.eq_dec a a') as [->|Hne].
      - now rewrite mailbox_set_same, (mailbox_get _ _ _ u G).
      - now rewrite mailbox_set_other. }
    destruct (ag_get c cl) as [[e0|]|]; [| |discriminate].
    + intros H; inversion H; subst. cbn [ag_set_ch ast_ch ag_hands_to ag_consumed]. apply WS.
    + destruct oe as [e1|]; intros H; inversion H; subst; cbn [ag_set_ch ast_ch ag_hands_to ag_consumed]; apply WS.
  - intros H. assert (Hs : s' = fst (ag_deliver orc s b) /\ o = snd (ag_deliver orc s b))
      by (inversion H as [H1]; now rewrite H1).
    destruct Hs as [-> ->]. now apply deliver_mailbox.
Qed.

Lemma run_conservation h : forall s s' o pre a u,
  wf_ch (ast_ch s) ->
  ag_hands_to (RRest a u) pre = ag_consumed a u pre ++ ag_mailbox (ast_ch s) a u ->
  ag_run s h = Some (s', o) ->
  ag_hands_to (RRest a u) (pre ++ o) = ag_consumed a u (pre ++ o) ++ ag_mailbox (ast_ch s') a u.
Proof.
  induction h as [|ev h IH]; intros s s' o pre a u WF INV; cbn [ag_run].
  - intros H; inversion H; subst. now rewrite app_nil_r.
  - destruct (ag_step s ev) as [[s1 o1]|] eqn:ST; [|discriminate].
    destruct (ag_run s1 h) as [[s2 o2]|] eqn:RN; [|discriminate].
    intros H; inversion H; subst. rewrite app_assoc.
    apply (IH s1 s' o2 (pre ++ o1) a u); [eapply step_wf; eassumption | | exact RN].
    rewrite hands_app, consumed_app, INV, <- !app_assoc. f_equal.
    now apply (step_conservation s ev s1 o1 a u WF ST).
Qed.

Theorem conservation node peers h s outs a u :
  ag_run (ag_init node peers) h = Some (s, outs) ->
  ag_hands_to (RRest a u) outs = ag_consumed a u outs ++ ag_mailbox (ast_ch s) a u.
Proof.
  intros H. apply (run_conservation h (ag_init node peers) s outs [] a u (init_wf node peers)); [reflexivity | exact H].
Qed.

(* ------------------------------------------------------------------------------------ *)
(* a report / the release of the retention constraint only after a hand-over *)
Lemma hands_in r b outs : In b (ag_hands_to r outs) -> In (AOHand r b) outs.
Proof.
  induction outs as [|o outs IH]; cbn [ag_hands_to In]; [tauto|].
  destruct o; try (intros H; right; now apply IH).
  destruct (ag_recipient_eqb r r0) eqn:E; [|intros H; right; now apply IH].
  intros [H|H]; [|right; now apply IH]. left. subst.
  assert (r = r0); [|now subst].
  destruct r, r0; cbn [ag_recipient_eqb] in E; try discriminate;
    try (apply N.eqb_eq in E; now subst);
    apply andb_true_iff in E; destruct E as [E1 E2]; apply N.eqb_eq in E1; apply N.eqb_eq in E2; now subst.
Qed.

Definition is_ack (b : abundle) (o : ag_output) : Prop := o = AOReport b \/ o = AORelease b.

Lemma split_prefix (outs rest pre post : list ag_output) x :
  forallb is_hand outs = true -> is_hand x = false -> outs ++ rest = pre ++ x :: post ->
  exists q, pre = outs ++ q /\ rest = q ++ x :: post.
Proof.
  intros OH HX. revert pre. induction outs as [|o outs IH]; intros pre H.
  - exists pre. split; [reflexivity | exact H].
  - cbn [forallb] in OH. apply andb_true_iff in OH. destruct OH as [O1 O2].
    destruct pre as [|p pre]; cbn [app] in H.
    + inversion H; subst. congruence.
    + injection H as Hh Ht. subst p. destruct (IH O2 pre Ht) as [q [Hq1 Hq2]].
      exists q. split; [now rewrite Hq1 | exact Hq2].
Qed.

Lemma deliver_ack orc s b b' pre x post :
  wf_ch (ast_ch s) -> snd (ag_deliver orc s b) = pre ++ x :: post -> is_ack b' x ->
  b' = b /\ exists r, ag_registered (ast_ch s) r (ab_dst b) = true /\ In (AOHand r b) pre.
Proof.
  intros WF. unfold ag_deliver. destruct (existsb _ (ast_known s)).
  { cbn [snd]. intros H [A|A]; subst x; destruct pre as [|? [|? ?]]; discriminate. }
  destruct (ag_core_has orc 0%nat s (ab_dst b)).
  - unfold ag_local_delivery, ag_am_deliver. destruct (ag_mux_has orc 1%nat (ast_ch s) (ab_dst b)) eqn:M.
    + destruct (registered_of_mux_has orc 1%nat _ _ WF M) as [r R].
      pose proof (fanout_hands orc (ast_ch s) b r WF) as FH. rewrite R in FH.
      pose proof (fanout_only_hands orc (ast_ch s) b) as OH.
      destruct (ag_mux_fanout orc (ast_ch s) b) as [ch' outs]. cbn [snd] in *.
      intros H A.
      assert (Hin : In (AOHand r b) outs) by (apply hands_in; rewrite FH; now left).
      assert (HX : is_hand x = false) by (destruct A as [A|A]; subst x; reflexivity).
      destruct (split_prefix outs _ pre post x OH HX H) as [q [Hq1 Hq2]]. split.
      * destruct (ab_want b && negb _); cbn [app] in Hq2.
        -- destruct q as [|? [|? ?]]; inversion Hq2; subst; destruct A as [A|A]; inversion A; try reflexivity;
             destruct l; discriminate.
        -- destruct q as [|? ?]; inversion Hq2; subst; [destruct A as [A|A]; inversion A; reflexivity | destruct q; discriminate].
      * exists r. split; [exact R|]. rewrite Hq1. apply in_or_app. now left.
    + cbn [snd]. intros H [A|A]; subst x; destruct pre as [|? [|? ?]]; discriminate.
  - unfold ag_forward. cbn [snd]. intros H A. exfalso.
    assert (Hi : In x (map (fun p => AOSent p b) (ast_peers s))) by (rewrite H; apply in_or_app; right; now left).
    apply in_map_iff in Hi. destruct Hi as [p [Hp _]]. destruct A as [A|A]; subst x; discriminate.
Qed.

Lemma step_ack s ev s' o pre x post b :
  wf_ch (ast_ch s) -> ag_step s ev = Some (s', o) -> o = pre ++ x :: post -> is_ack b x ->
  exists r, In (AOHand r b) pre.
Proof.
  intros WF. destruct ev as [a' g|a' u' e|a' u'|a' u'|a' c e|a' c|a' c|a' c oe|b0 orc]; cbn [ag_step].
  - destruct (ag_get a' (ast_ch s)); [discriminate|]. destruct (ag_agent_initial g); [|discriminate].
    intros H; inversion H; subst. intros H2. destruct pre; discriminate.
  - destruct (ag_get a' (ast_ch s)) as [[| |cl mb|]|]; try discriminate.
    intros H; inversion H; subst. intros H2. destruct pre; discriminate.
  - destruct (ag_get a' (ast_ch s)) as [[| |cl mb|]|]; try discriminate.
    intros H; inversion H; subst. intros H2 [A|A]; subst x; destruct pre as [|? [|? ?]]; discriminate.
  - destruct (ag_get a' (ast_ch s)) as [[| |cl mb|]|]; try discriminate.
    intros H; inversion H; subst. intros H2 [A|A]; subst x; destruct pre as [|? [|? ?]]; discriminate.
  - destruct (ag_get a' (ast_ch s)) as [[| | |cl]|]; try discriminate. destruct (ag_get c cl); [discriminate|].
    intros H; inversion H; subst. intros H2. destruct pre; discriminate.
  - destruct (ag_get a' (ast_ch s)) as [[| | |cl]|]; try discriminate.
    intros H; inversion H; subst. intros H2. destruct pre; discriminate.
  - destruct (ag_get a' (ast_ch s)) as [[| | |cl]|]; try discriminate. destruct (ag_get c cl); [discriminate|].
    intros H; inversion H; subst. intros H2. destruct pre; discriminate.
  - destruct (ag_get a' (ast_ch s)) as [[| | |cl]|]; try discriminate.
    destruct (ag_get c cl) as [[e0|]|]; [| |discriminate]; [|destruct oe as [e1|]];
      intros H; inversion H; subst; intros H2; destruct pre; discriminate.
  - intros H Ho A. assert (Hs : o = snd (ag_deliver orc s b0)) by (inversion H as [H1]; now rewrite H1).
    rewrite Hs in Ho. destruct (deliver_ack orc s b0 b pre x post WF Ho A) as [-> [r [_ Hin]]]. now exists r.
Qed.

Lemma run_ack h : forall s s' o, wf_ch (ast_ch s) -> ag_run s h = Some (s', o) ->
  forall pre x post b, o = pre ++ x :: post -> is_ack b x -> exists r, In (AOHand r b) pre.
Proof.
  induction h as [|ev h IH]; intros s s' o WF; cbn [ag_run].
  - intros H; inversion H; subst. intros pre x post b H2. destruct pre; discriminate.
  - destruct (ag_step s ev) as [[s1 o1]|] eqn:ST; [|discriminate].
    destruct (ag_run s1 h) as [[s2 o2]|] eqn:RN; [|discriminate].
    intros H; inversion H; subst. intros pre x post b Ho A.
    apply app_eq_app in Ho. destruct Ho as [l [[H1 H2]|[H1 H2]]].
    + destruct l as [|y l].
      * cbn [app] in H2. rewrite app_nil_r in H1. subst o1.
        destruct (IH s1 s' o2 (step_wf _ _ _ _ WF ST) RN [] x post b (eq_sym H2) A) as [r []].
      * cbn [app] in H2. inversion H2; subst y.
        exact (step_ack s ev s1 o1 pre x l b WF ST H1 A).
    + destruct (IH s1 s' o2 (step_wf _ _ _ _ WF ST) RN l x post b H2 A) as [r Hin].
      exists r. rewrite H1. apply in_or_app. now right.
Qed.

(* ------------------------------------------------------------------------------------ *)
(* one mailbox entry under concurrent deliveries and fetches, in sub-steps *)
Lemma nth_error_upd {A} (l : list A) i x j :
  nth_error (ag_list_upd i x l) j
  = if Nat.eqb i j then match nth_error l i with Some _ => Some x | None => None end else nth_error l j.
Proof.
  revert i j. induction l as [|y l IH]; intros i j.
  - destruct i, j; cbn [ag_list_upd nth_error Nat.eqb]; try reflexivity. destruct (Nat.eqb i j); reflexivity.
  - destruct i as [|i], j as [|j]; cbn [ag_list_upd nth_error Nat.eqb]; try reflexivity. apply IH.
Qed.

Definition in_section (pc : mbx_pc) : bool :=
  match pc with MP1 | MP2 _ | MP3 => true | _ => false end.

Definition minv (s : mbx_state) : Prop :=
  mbx_put s = mbx_got s ++ mbx_contents (mbx_box s)
  /\ (forall j op pc, nth_error (mbx_thr s) j = Some (op, pc) -> in_section pc = true -> mbx_lock s = Some j)
  /\ (forall j op v, nth_error (mbx_thr s) j = Some (op, MP2 v) -> v = mbx_box s).

Ltac upd_cases H i j :=
  rewrite nth_error_upd in H; destruct (Nat.eqb i j) eqn:?E;
  [apply Nat.eqb_eq in E; subst j | apply Nat.eqb_neq in E].

Lemma minv_sub s i : minv s -> minv (mbx_sub true s i).
Proof.
  intros I. pose proof I as [I1 [I2 I3]]. unfold mbx_sub.
  destruct (nth_error (mbx_thr s) i) as [[op pc]|] eqn:TI; [|exact I].
  destruct pc as [| |v| |].
  - (* Lock *)
    destruct (mbx_lock s) as [o|] eqn:L; [exact I|].
    repeat split; cbn [mbx_put mbx_got mbx_box mbx_lock mbx_thr]; [exact I1| |].
    + intros j op' pc' H S. upd_cases H i j.
      * reflexivity.
      * discriminate (I2 j op' pc' H S).
    + intros j op' v H. upd_cases H i j.
      * rewrite TI in H. discriminate.
      * exact (I3 j op' v H).
  - (* Load *)
    repeat split; cbn [mbx_put mbx_got mbx_box mbx_lock mbx_thr]; [exact I1| |].
    + intros j op' pc' H S. upd_cases H i j.
      * exact (I2 i op MP1 TI eq_refl).
      * exact (I2 j op' pc' H S).
    + intros j op' v H. upd_cases H i j.
      * rewrite TI in H. now inversion H.
      * exact (I3 j op' v H).
  - (* Store / Delete *)
    pose proof (I3 i op v TI) as HV. pose proof (I2 i op (MP2 v) TI eq_refl) as HL.
    assert (OTHERS : forall j op' pc', i <> j -> nth_error (mbx_thr s) j = Some (op', pc') -> in_section pc' = false).
    { intros j op' pc' Hne H. destruct (in_section pc') eqn:S; [|reflexivity].
      rewrite (I2 j op' pc' H S) in HL. inversion HL. congruence. }
    destruct op as [b|]; repeat split; cbn [mbx_put mbx_got mbx_box mbx_lock mbx_thr].
    + rewrite I1, HV, <- app_assoc. reflexivity.
    + intros j op' pc' H S. upd_cases H i j; [exact HL | exact (I2 j op' pc' H S)].
    + intros j op' v' H. upd_cases H i j.
      * rewrite TI in H. discriminate.
      * pose proof (OTHERS j op' (MP2 v') E H). discriminate.
    + rewrite I1, HV. destruct (mbx_box s); cbn [mbx_contents]; now rewrite <- ?app_assoc, ?app_nil_r.
    + intros j op' pc' H S. upd_cases H i j; [exact HL | exact (I2 j op' pc' H S)].
    + intros j op' v' H. upd_cases H i j.
      * rewrite TI in H. discriminate.
      * pose proof (OTHERS j op' (MP2 v') E H). discriminate.
  - (* Unlock *)
    pose proof (I2 i op MP3 TI eq_refl) as HL.
    repeat split; cbn [mbx_put mbx_got mbx_box mbx_lock mbx_thr]; [exact I1| |].
    + intros j op' pc' H S. upd_cases H i j.
      * rewrite TI in H. inversion H; subst. discriminate.
      * rewrite (I2 j op' pc' H S) in HL. inversion HL. congruence.
    + intros j op' v H. upd_cases H i j.
      * rewrite TI in H. discriminate.
      * exact (I3 j op' v H).
  - exact I.
Qed.

Lemma minv_run sched : forall s, minv s -> minv (mbx_run true sched s).
Proof.
  unfold mbx_run. induction sched as [|i sched IH]; intros s I; [exact I|].
  cbn [fold_left]. apply IH. now apply minv_sub.
Qed.

Lemma nth_error_init ops j op pc : nth_error (mbx_thr (mbx_init ops)) j = Some (op, pc) -> pc = MP0.
Proof.
  cbn [mbx_init mbx_thr]. intros H. apply nth_error_In in H. apply in_map_iff in H.
  destruct H as [x [Hx _]]. now inversion Hx.
Qed.

Lemma minv_init ops : minv (mbx_init ops).
Proof.
  repeat split.
  - intros j op pc H S. apply nth_error_init in H. subst. discriminate.
  - intros j op v H. apply nth_error_init in H. discriminate.
Qed.

(* the stored bundles are exactly those of the deliver threads past their Store (any locking) *)
Definition stc (t : mbx_op * mbx_pc) : list abundle :=
  match t with
  | (MDeliver b, MP3) | (MDeliver b, MPDone) => [b]
  | _ => []
  end.
Lemma stored_flat thr : mbx_stored thr = flat_map stc thr.
Proof. reflexivity. Qed.

Lemma stored_upd_same thr : forall i t t', nth_error thr i = Some t -> stc t' = stc t ->
  flat_map stc (ag_list_upd i t' thr) = flat_map stc thr.
Proof.
  induction thr as [|y thr IH]; intros i t t' H E; destruct i as [|i]; try discriminate; cbn [nth_error] in H.
  - inversion H; subst. cbn [ag_list_upd flat_map]. now rewrite E.
  - cbn [ag_list_upd flat_map]. f_equal. exact (IH i t t' H E).
Qed.

Lemma stored_upd_new thr b : forall i t t', nth_error thr i = Some t -> stc t = [] -> stc t' = [b] ->
  Permutation (flat_map stc (ag_list_upd i t' thr)) (b :: flat_map stc thr).
Proof.
  induction thr as [|y thr IH]; intros i t t' H E E'; destruct i as [|i]; try discriminate; cbn [nth_error] in H.
  - inversion H; subst. cbn [ag_list_upd flat_map]. rewrite E, E'. apply Permutation_refl.
  - cbn [ag_list_upd flat_map].
    eapply perm_trans; [apply Permutation_app_head; exact (IH i t t' H E E')|].
    apply Permutation_sym. apply Permutation_middle.
Qed.

Lemma stored_sub locked s i :
  Permutation (mbx_put s) (flat_map stc (mbx_thr s)) ->
  Permutation (mbx_put (mbx_sub locked s i)) (flat_map stc (mbx_thr (mbx_sub locked s i))).
Proof.
  intros P. unfold mbx_sub. destruct (nth_error (mbx_thr s) i) as [[op pc]|] eqn:TI; [|exact P].
  destruct pc as [| |v| |].
  - destruct locked; [destruct (mbx_lock s); [exact P|]|]; cbn [mbx_put mbx_thr];
      rewrite (stored_upd_same _ i _ _ TI); try exact P; destruct op; reflexivity.
  - cbn [mbx_put mbx_thr]. rewrite (stored_upd_same _ i _ _ TI); [exact P | destruct op; reflexivity].
  - destruct op as [b|]; cbn [mbx_put mbx_thr].
    + eapply perm_trans; [apply Permutation_sym; apply Permutation_cons_append|].
      eapply perm_trans; [apply perm_skip; exact P|].
      apply Permutation_sym. apply (stored_upd_new _ b i _ _ TI); reflexivity.
    + rewrite (stored_upd_same _ i _ _ TI); [exact P | reflexivity].
  - cbn [mbx_put mbx_thr]. rewrite (stored_upd_same _ i _ _ TI); [exact P | destruct op; reflexivity].
  - exact P.
Qed.

Lemma stored_run locked sched : forall s,
  Permutation (mbx_put s) (flat_map stc (mbx_thr s)) ->
  Permutation (mbx_put (mbx_run locked sched s)) (mbx_stored (mbx_thr (mbx_run locked sched s))).
Proof.
  unfold mbx_run. induction sched as [|i sched IH]; intros s P; [exact P|].
  cbn [fold_left]. apply IH. now apply stored_sub.
Qed.

Lemma stored_init ops : flat_map stc (mbx_thr (mbx_init ops)) = [].
Proof. cbn [mbx_init mbx_thr]. induction ops as [|op ops IH]; [reflexivity|]. cbn [map flat_map]. rewrite IH. destruct op; reflexivity. Qed.

(* the operations of the threads never change; when all are done, stored = all deliveries *)
Definition mbx_delivered (ops : list mbx_op) : list abundle :=
  flat_map (fun op => match op with MDeliver b => [b] | MFetch => [] end) ops.

Lemma map_fst_upd (thr : list (mbx_op * mbx_pc)) : forall i op pc pc',
  nth_error thr i = Some (op, pc) -> map fst (ag_list_upd i (op, pc') thr) = map fst thr.
Proof.
  induction thr as [|y thr IH]; intros i op pc pc' H; destruct i as [|i]; try discriminate; cbn [nth_error] in H.
  - inversion H; subst. reflexivity.
  - cbn [ag_list_upd map]. f_equal. exact (IH i op pc pc' H).
Qed.

Lemma ops_sub locked s i : map fst (mbx_thr (mbx_sub locked s i)) = map fst (mbx_thr s).
Proof.
  unfold mbx_sub. destruct (nth_error (mbx_thr s) i) as [[op pc]|] eqn:TI; [|reflexivity].
  destruct pc as [| |v| |]; try reflexivity.
  - destruct locked; [destruct (mbx_lock s); [reflexivity|]|]; cbn [mbx_thr]; exact (map_fst_upd _ i op _ _ TI).
  - cbn [mbx_thr]. exact (map_fst_upd _ i op _ _ TI).
  - destruct op; cbn [mbx_thr]; exact (map_fst_upd _ i _ _ _ TI).
  - cbn [mbx_thr]. exact (map_fst_upd _ i op _ _ TI).
Qed.

Lemma ops_run locked sched : forall s, map fst (mbx_thr (mbx_run locked sched s)) = map fst (mbx_thr s).
Proof.
  unfold mbx_run. induction sched as [|i sched IH]; intros s; [reflexivity|].
  cbn [fold_left]. rewrite IH. apply ops_sub.
Qed.

Lemma stored_all_done thr :
  forallb (fun t => match snd t with MPDone => true | _ => false end) thr = true ->
  mbx_stored thr = mbx_delivered (map fst thr).
Proof.
  change (mbx_stored thr) with (flat_map stc thr). induction thr as [|[op pc] thr IH]; [reflexivity|].
  cbn [forallb snd map fst flat_map mbx_delivered]. intros H. apply andb_true_iff in H. destruct H as [H1 H2].
  destruct pc; try discriminate. unfold mbx_delivered in IH. rewrite (IH H2). destruct op; reflexivity.
Qed.

Theorem mailbox_locked ops sched :
  let s := mbx_run true sched (mbx_init ops) in
  mbx_put s = mbx_got s ++ mbx_contents (mbx_box s)
  /\ Permutation (mbx_put s) (mbx_stored (mbx_thr s))
  /\ (mbx_all_done s = true -> Permutation (mbx_put s) (mbx_delivered ops)).
Proof.
  cbn zeta. split; [|split].
  - exact (proj1 (minv_run sched _ (minv_init ops))).
  - apply stored_run. rewrite stored_init. apply Permutation_refl.
  - intros D. eapply perm_trans; [apply stored_run; rewrite stored_init; apply Permutation_refl|].
    unfold mbx_all_done in D. rewrite (stored_all_done _ D), ops_run.
    cbn [mbx_init mbx_thr]. rewrite map_map. cbn [fst]. rewrite map_id. apply Permutation_refl.
Qed.

(* ------------------------------------------------------------------------------------ *)
(* statements used by Properties/C07.v *)
Theorem exact_run node peers h s outs :
  ag_run (ag_init node peers) h = Some (s, outs) ->
  forall (b : abundle) (orc : ag_oracle),
    ag_step s (AEDeliver b orc) = Some (ag_deliver orc s b)
    /\ (existsb (N.eqb (ab_id b)) (ast_known s) = false ->
        forall r, ag_hands_to r (snd (ag_deliver orc s b))
                  = if ag_registered (ast_ch s) r (ab_dst b) then [b] else [])
    /\ (existsb (N.eqb (ab_id b)) (ast_known s) = true -> snd (ag_deliver orc s b) = [AODup b])
    /\ ((exists r, ag_registered (ast_ch s) r (ab_dst b) = true) ->
        filter ag_is_sent (snd (ag_deliver orc s b)) = []).
Proof.
  intros RN b orc. pose proof (run_wf h _ _ _ (init_wf node peers) RN) as WF.
  split; [reflexivity|]. split; [|split].
  - intros HK r. now apply deliver_exact.
  - intros HK. now rewrite deliver_dup.
  - intros [r R]. exact (deliver_no_sent orc s b r R).
Qed.

Theorem ack_run node peers h s outs :
  ag_run (ag_init node peers) h = Some (s, outs) ->
  forall pre x post b, outs = pre ++ x :: post -> (x = AOReport b \/ x = AORelease b) ->
  exists r, In (AOHand r b) pre.
Proof. intros RN. exact (run_ack h _ _ _ (init_wf node peers) RN). Qed.

(* the step-level form: the recipient of the hand-over is registered for the destination *)
Theorem ack_step node peers h s outs :
  ag_run (ag_init node peers) h = Some (s, outs) ->
  forall orc b b' pre x post, snd (ag_deliver orc s b) = pre ++ x :: post -> (x = AOReport b' \/ x = AORelease b') ->
  b' = b /\ exists r, ag_registered (ast_ch s) r (ab_dst b) = true /\ In (AOHand r b) pre.
Proof.
  intros RN orc b b' pre x post. apply deliver_ack. exact (run_wf h _ _ _ (init_wf node peers) RN).
Qed.

(* ------------------------------------------------------------------------------------ *)
(* nobody registered for the destination: nobody is handed the bundle, no report, no release *)
Lemma in_hands r b outs : In (AOHand r b) outs -> In b (ag_hands_to r outs).
Proof.
  assert (RF : forall x, ag_recipient_eqb x x = true)
    by (intros x; destruct x; cbn [ag_recipient_eqb]; rewrite ?N.eqb_refl; reflexivity).
  induction outs as [|o outs IH]; cbn [ag_hands_to In]; [tauto|].
  intros [H|H].
  - subst o. rewrite RF. now left.
  - destruct o; try (now apply IH). destruct (ag_recipient_eqb r r0); [right|]; now apply IH.
Qed.

Theorem nobody_run node peers h s outs :
  ag_run (ag_init node peers) h = Some (s, outs) ->
  forall b orc, (forall r, ag_registered (ast_ch s) r (ab_dst b) = false) ->
  forall x, In x (snd (ag_deliver orc s b)) -> ag_is_evidence x = false.
Proof.
  intros RN b orc NR x Hin.
  destruct (exact_run node peers h s outs RN b orc) as [_ [EX [DU _]]].
  destruct x as [r0 b0| | b0 | b0 | | | |]; try reflexivity; exfalso.
  - destruct (existsb (N.eqb (ab_id b)) (ast_known s)) eqn:HK.
    + rewrite (DU eq_refl) in Hin. destruct Hin as [Hin|[]]. discriminate.
    + apply in_hands in Hin. rewrite (EX eq_refl r0), (NR r0) in Hin. destruct Hin.
  - apply in_split in Hin. destruct Hin as [pre [post Hs]].
    destruct (ack_step node peers h s outs RN orc b b0 pre _ post Hs (or_introl eq_refl)) as [_ [r [R _]]].
    rewrite (NR r) in R. discriminate.
  - apply in_split in Hin. destruct Hin as [pre [post Hs]].
    destruct (ack_step node peers h s outs RN orc b b0 pre _ post Hs (or_intror eq_refl)) as [_ [r [R _]]].
    rewrite (NR r) in R. discriminate.
Qed.

(* ------------------------------------------------------------------------------------ *)
(* what other agents and clients do (register, unregister, connect, disconnect, fetch, other
   deliveries) does not change for which endpoints a recipient is registered *)
Lemma ag_get_snoc_other {V} k k' (v : V) m : k <> k' -> ag_get k (m ++ [(k', v)]) = ag_get k m.
Proof.
  intros H. induction m as [|[k0 v0] m IH]; cbn [app ag_get].
  - apply N.eqb_neq in H. now rewrite H.
  - destruct (k =? k0); [reflexivity | exact IH].
Qed.

Lemma registered_get_eq ch1 ch2 r e :
  ag_get (rlabel r) ch1 = ag_get (rlabel r) ch2 -> ag_registered ch1 r e = ag_registered ch2 r e.
Proof. destruct r; cbn [ag_registered rlabel]; intros ->; reflexivity. Qed.

Lemma registered_get_same ch a g r e :
  rlabel r = a -> ag_get a ch = Some g -> ag_registered ch r e = ag_registered [(a, g)] r e.
Proof. destruct r; cbn [rlabel ag_registered ag_get]; intros -> ->; rewrite N.eqb_refl; reflexivity. Qed.

Lemma agent_swap_registered ch a g0 g1 r e :
  ag_get a ch = Some g0 ->
  (rlabel r = a -> ag_registered [(a, g1)] r e = ag_registered [(a, g0)] r e) ->
  ag_registered (ag_set a g1 ch) r e = ag_registered ch r e.
Proof.
  intros G H. destruct (N.eq_dec (rlabel r) a) as [E|E].
  - rewrite (registered_get_same (ag_set a g1 ch) a g1 r e E (ag_get_set_same _ _ _)).
    rewrite (registered_get_same ch a g0 r e E G). now apply H.
  - apply registered_get_eq. now apply ag_get_set_other.
Qed.

Lemma rest_swap a cl cl' mb mb' r e :
  (forall u, r = RRest a u -> ag_get u cl' = ag_get u cl) ->
  ag_registered [(a, ARest cl' mb')] r e = ag_registered [(a, ARest cl mb)] r e.
Proof.
  intros H. destruct r as [a0|a0|a0 u|a0 u]; cbn [ag_registered ag_get]; destruct (a0 =? a) eqn:E; try reflexivity.
  apply N.eqb_eq in E. subst a0. now rewrite (H u eq_refl).
Qed.

Lemma ws_swap a cl cl' r e :
  (forall c, r = RWs a c -> ag_get c cl' = ag_get c cl) ->
  ag_registered [(a, AWs cl')] r e = ag_registered [(a, AWs cl)] r e.
Proof.
  intros H. destruct r as [a0|a0|a0 u|a0 u]; cbn [ag_registered ag_get]; destruct (a0 =? a) eqn:E; try reflexivity.
  apply N.eqb_eq in E. subst a0. now rewrite (H u eq_refl).
Qed.

Lemma touch_rest_key a u u' : ag_recipient_eqb (RRest a u') (RRest a u) = false -> u' <> u.
Proof. cbn [ag_recipient_eqb]. rewrite N.eqb_refl. cbn [andb]. now apply N.eqb_neq. Qed.
Lemma touch_ws_key a c c' : ag_recipient_eqb (RWs a c') (RWs a c) = false -> c' <> c.
Proof. cbn [ag_recipient_eqb]. rewrite N.eqb_refl. cbn [andb]. now apply N.eqb_neq. Qed.

Lemma touches_reg a g r : ag_ev_touches (AERegAgent a g) r = (a =? rlabel r).
Proof. destruct r; reflexivity. Qed.

Lemma step_registered_stable s ev s' o r e :
  ag_step s ev = Some (s', o) -> ag_ev_touches ev r = false ->
  ag_registered (ast_ch s') r e = ag_registered (ast_ch s) r e.
Proof.
  destruct ev as [a g|a u e0|a u|a u|a c e0|a c|a c|a c oe|b orc]; cbn [ag_step ag_ev_touches].
  - destruct (ag_get a (ast_ch s)) eqn:G; [discriminate|].
    destruct (ag_agent_initial g); [|discriminate]. intros H T; inversion H; subst. cbn [ag_set_ch ast_ch].
    fold (ag_ev_touches (AERegAgent a g) r) in T. rewrite touches_reg in T. apply N.eqb_neq in T.
    apply registered_get_eq. destruct (ag_get (rlabel r) (ast_ch s)) eqn:Gr.
    + now apply ag_get_app_some.
    + rewrite (ag_get_app_none _ _ _ Gr). cbn [ag_get].
      destruct (rlabel r =? a) eqn:E; [apply N.eqb_eq in E; congruence | reflexivity].
  - destruct (ag_get a (ast_ch s)) as [[| |cl mb|]|] eqn:G; try discriminate.
    intros H T; inversion H; subst. cbn [ag_set_ch ast_ch].
    apply (agent_swap_registered _ a (ARest cl mb)); [exact G|]. intros _. apply rest_swap.
    intros u' ->. apply ag_get_set_other. now apply touch_rest_key with (a := a).
  - destruct (ag_get a (ast_ch s)) as [[| |cl mb|]|] eqn:G; try discriminate.
    intros H T; inversion H; subst. cbn [ag_set_ch ast_ch].
    apply (agent_swap_registered _ a (ARest cl mb)); [exact G|]. intros _. apply rest_swap.
    intros u' ->. apply ag_get_del_other. now apply touch_rest_key with (a := a).
  - destruct (ag_get a (ast_ch s)) as [[| |cl mb|]|] eqn:G; try discriminate.
    intros H T; inversion H; subst. cbn [ag_set_ch ast_ch].
    apply (agent_swap_registered _ a (ARest cl mb)); [exact G|]. intros _. apply rest_swap. reflexivity.
  - destruct (ag_get a (ast_ch s)) as [[| | |cl]|] eqn:G; try discriminate.
    destruct (ag_get c cl); [discriminate|].
    intros H T; inversion H; subst. cbn [ag_set_ch ast_ch].
    apply (agent_swap_registered _ a (AWs cl)); [exact G|]. intros _. apply ws_swap.
    intros c' ->. apply ag_get_snoc_other. now apply touch_ws_key with (a := a).
  - destruct (ag_get a (ast_ch s)) as [[| | |cl]|] eqn:G; try discriminate.
    intros H T; inversion H; subst. cbn [ag_set_ch ast_ch].
    apply (agent_swap_registered _ a (AWs cl)); [exact G|]. intros _. apply ws_swap.
    intros c' ->. apply ag_get_del_other. now apply touch_ws_key with (a := a).
  - destruct (ag_get a (ast_ch s)) as [[| | |cl]|] eqn:G; try discriminate.
    destruct (ag_get c cl); [discriminate|].
    intros H T; inversion H; subst. cbn [ag_set_ch ast_ch].
    apply (agent_swap_registered _ a (AWs cl)); [exact G|]. intros _. apply ws_swap.
    intros c' ->. apply ag_get_snoc_other. now apply touch_ws_key with (a := a).
  - destruct (ag_get a (ast_ch s)) as [[| | |cl]|] eqn:G; try discriminate.
    assert (DEL : ag_ev_touches (AEWsRegister a c oe) r = false ->
                  ag_registered (ag_set a (AWs (ag_del c cl)) (ast_ch s)) r e = ag_registered (ast_ch s) r e).
    { cbn [ag_ev_touches]. intros T. apply (agent_swap_registered _ a (AWs cl)); [exact G|]. intros _. apply ws_swap.
      intros c' ->. apply ag_get_del_other. now apply touch_ws_key with (a := a). }
    cbn [ag_ev_touches] in DEL.
    destruct (ag_get c cl) as [[e1|]|]; [| |discriminate].
    + intros H T; inversion H; subst. cbn [ag_set_ch ast_ch]. now apply DEL.
    + destruct oe as [e2|]; intros H T; inversion H; subst; cbn [ag_set_ch ast_ch]; [|now apply DEL].
      apply (agent_swap_registered _ a (AWs cl)); [exact G|]. intros _. apply ws_swap.
      intros c' ->. apply ag_get_set_other. now apply touch_ws_key with (a := a).
  - intros H _. assert (Hs : s' = fst (ag_deliver orc s b)) by (inversion H as [H1]; now rewrite H1).
    rewrite Hs. destruct (deliver_ch orc s b) as [E|E]; rewrite E; [reflexivity | apply fanout_registered].
Qed.

Lemma run_registered_stable h : forall s s' o r e,
  ag_run s h = Some (s', o) -> forallb (fun ev => negb (ag_ev_touches ev r)) h = true ->
  ag_registered (ast_ch s') r e = ag_registered (ast_ch s) r e.
Proof.
  induction h as [|ev h IH]; intros s s' o r e; cbn [ag_run forallb].
  - intros H _; inversion H; now subst.
  - destruct (ag_step s ev) as [[s1 o1]|] eqn:ST; [|discriminate].
    destruct (ag_run s1 h) as [[s2 o2]|] eqn:RN; [|discriminate].
    intros H T; inversion H; subst. apply andb_true_iff in T. destruct T as [T1 T2].
    apply negb_true_iff in T1.
    rewrite (IH s1 s' o2 r e RN T2). exact (step_registered_stable s ev s1 o1 r e ST T1).
Qed.

Lemma run_app h1 : forall h2 s s1 o1 s2 o2,
  ag_run s h1 = Some (s1, o1) -> ag_run s1 h2 = Some (s2, o2) -> ag_run s (h1 ++ h2) = Some (s2, o1 ++ o2).
Proof.
  induction h1 as [|ev h1 IH]; intros h2 s s1 o1 s2 o2; cbn [ag_run app].
  - intros H; inversion H; subst. intros ->. reflexivity.
  - destruct (ag_step s ev) as [[sa oa]|]; [|discriminate].
    destruct (ag_run sa h1) as [[sb ob]|] eqn:RN; [|discriminate].
    intros H; inversion H; subst. intros H2. rewrite (IH h2 sa s1 ob s2 o2 RN H2). now rewrite app_assoc.
Qed.

(* a recipient registered for e stays the recipient of every bundle for e that arrives while
   *other* agents and clients come and go *)
Theorem amid_others node peers h s outs h' s' outs' r :
  ag_run (ag_init node peers) h = Some (s, outs) ->
  ag_run s h' = Some (s', outs') ->
  forallb (fun ev => negb (ag_ev_touches ev r)) h' = true ->
  forall b orc,
    ag_registered (ast_ch s) r (ab_dst b) = true ->
    existsb (N.eqb (ab_id b)) (ast_known s') = false ->
    ag_mux_has orc 0%nat (ast_ch s') (ab_dst b) = true
    /\ ag_hands_to r (snd (ag_deliver orc s' b)) = [b]
    /\ filter ag_is_sent (snd (ag_deliver orc s' b)) = [].
Proof.
  intros RN RN' T b orc R HK.
  pose proof (run_registered_stable h' s s' outs' r (ab_dst b) RN' T) as ST. rewrite R in ST.
  pose proof (run_app h h' _ _ _ _ _ RN RN') as RA.
  destruct (exact_run node peers (h ++ h') s' (outs ++ outs') RA b orc) as [_ [EX [_ NS]]].
  split; [exact (mux_has_of_registered orc 0%nat _ _ _ ST)|]. split.
  - rewrite (EX HK r), ST. reflexivity.
  - apply NS. now exists r.
Qed.

(* witnesses for the code without the mutex *)
Definition wb (i : N) : abundle := mk_ab i (0, 1) (1, 0) false.

Lemma unlocked_lost :
  let s := mbx_run false [0;0;0;0; 1;1; 2;2;2;2; 1;1]%nat (mbx_init [MDeliver (wb 0); MFetch; MDeliver (wb 1)]) in
  mbx_all_done s = true /\ mbx_put s = [wb 0; wb 1] /\ mbx_got s ++ mbx_contents (mbx_box s) = [wb 0].
Proof. vm_compute. repeat split. Qed.

Lemma unlocked_twice :
  let s := mbx_run false [0;0;0;0; 1;1; 2;2;2;2; 1;1; 3;3;3;3]%nat
                   (mbx_init [MDeliver (wb 0); MDeliver (wb 1); MFetch; MFetch]) in
  mbx_all_done s = true /\ mbx_put s = [wb 0; wb 1] /\ mbx_got s ++ mbx_contents (mbx_box s) = [wb 0; wb 0; wb 1].
Proof. vm_compute. repeat split. Qed.

Theorem unlocked_refuted :
  exists ops sched,
    let s := mbx_run false sched (mbx_init ops) in
    mbx_all_done s = true /\ mbx_put s <> mbx_got s ++ mbx_contents (mbx_box s)
    /\ exists b, In b (mbx_put s) /\ ~ In b (mbx_got s ++ mbx_contents (mbx_box s)).
Proof.
  exists [MDeliver (wb 0); MFetch; MDeliver (wb 1)], [0;0;0;0; 1;1; 2;2;2;2; 1;1]%nat.
  destruct unlocked_lost as [D [P G]]. cbn zeta in *. rewrite P, G. split; [exact D|]. split; [discriminate|].
  exists (wb 1). split; [right; now left|]. intros [H|[]]. discriminate.
Qed.

Definition occ (b : abundle) (l : list abundle) : nat := length (filter (abundle_eqb b) l).

Theorem unlocked_refuted_twice :
  exists ops sched,
    let s := mbx_run false sched (mbx_init ops) in
    mbx_all_done s = true /\ exists b, occ b (mbx_put s) = 1%nat /\ occ b (mbx_got s ++ mbx_contents (mbx_box s)) = 2%nat.
Proof.
  exists [MDeliver (wb 0); MDeliver (wb 1); MFetch; MFetch], [0;0;0;0; 1;1; 2;2;2;2; 1;1; 3;3;3;3]%nat.
  destruct unlocked_twice as [D [P G]]. cbn zeta in *. rewrite P, G. split; [exact D|].
  exists (wb 0). split; vm_compute; reflexivity.
Qed.
