(* ConstsOkMuxConc.v - the literal / operator shapes regenerated from the Go source (gen/Consts.v) coincide with
   the ones the sub-step multiplexer model is written against (Model/SpecMuxConc.v): channel constructors
   without a capacity, the shape of register / unregister / handleChild / handle / Endpoints, of the
   WebSocket client goroutines, of the PingAgent and of the AgentManager's handler and Deliver. *)
From Coq Require Import ZArith List.
Import ListNotations.
From DTN Require Import Consts SpecMuxConc.
Open Scope Z_scope.

Lemma muxconc_channels_unbuffered :
  pkg_agent__NewMuxAgent__lits = smx_NewMuxAgent_lits /\ pkg_agent__NewMuxAgent__ops = smx_NewMuxAgent_ops
  /\ pkg_agent__newWebAgentClient__lits = smx_newWebAgentClient_lits
  /\ pkg_agent__newWebAgentClient__ops = smx_newWebAgentClient_ops
  /\ pkg_agent__NewPing__lits = smx_NewPing_lits /\ pkg_agent__NewPing__ops = smx_NewPing_ops
  /\ pkg_agent__NewWebSocketAgent__lits = smx_NewWebSocketAgent_lits
  /\ pkg_agent__NewWebSocketAgent__ops = smx_NewWebSocketAgent_ops
  /\ pkg_routing__NewAgentManager__lits = smx_NewAgentManager_lits
  /\ pkg_routing__NewAgentManager__ops = smx_NewAgentManager_ops.
Proof. repeat split; reflexivity. Qed.

Lemma muxconc_mux_shapes_ok :
  pkg_agent__MuxAgent_Register__lits = smx_Register_lits /\ pkg_agent__MuxAgent_Register__ops = smx_Register_ops
  /\ pkg_agent__MuxAgent_handleChild__lits = smx_handleChild_lits
  /\ pkg_agent__MuxAgent_handleChild__ops = smx_handleChild_ops
  /\ pkg_agent__MuxAgent_unregister__lits = smx_unregister_lits
  /\ pkg_agent__MuxAgent_unregister__ops = smx_unregister_ops
  /\ pkg_agent__MuxAgent_handle__lits = smx_handle_lits /\ pkg_agent__MuxAgent_handle__ops = smx_handle_ops
  /\ pkg_agent__MuxAgent_Endpoints__lits = smx_Endpoints_lits
  /\ pkg_agent__MuxAgent_Endpoints__ops = smx_Endpoints_ops
  /\ pkg_agent__AppAgentContainsEndpoint__lits = smx_AppAgentContainsEndpoint_lits
  /\ pkg_agent__AppAgentContainsEndpoint__ops = smx_AppAgentContainsEndpoint_ops
  /\ pkg_agent__AppAgentHasEndpoint__lits = smx_AppAgentHasEndpoint_lits
  /\ pkg_agent__AppAgentHasEndpoint__ops = smx_AppAgentHasEndpoint_ops.
Proof. repeat split; reflexivity. Qed.

Lemma muxconc_ws_shapes_ok :
  pkg_agent__WebSocketAgent_handler__lits = smx_wsHandler_lits
  /\ pkg_agent__WebSocketAgent_handler__ops = smx_wsHandler_ops
  /\ pkg_agent__WebSocketAgent_ServeHTTP__lits = smx_ServeHTTP_lits
  /\ pkg_agent__WebSocketAgent_ServeHTTP__ops = smx_ServeHTTP_ops
  /\ pkg_agent__WebSocketAgent_Endpoints__lits = smx_wsEndpoints_lits
  /\ pkg_agent__WebSocketAgent_Endpoints__ops = smx_wsEndpoints_ops
  /\ pkg_agent__webAgentClient_start__lits = smx_start_lits /\ pkg_agent__webAgentClient_start__ops = smx_start_ops
  /\ pkg_agent__webAgentClient_shutdown__lits = smx_shutdown_lits
  /\ pkg_agent__webAgentClient_shutdown__ops = smx_shutdown_ops
  /\ pkg_agent__webAgentClient_handleReceiver__lits = smx_handleReceiver_lits
  /\ pkg_agent__webAgentClient_handleReceiver__ops = smx_handleReceiver_ops
  /\ pkg_agent__webAgentClient_handleConn__lits = smx_handleConn_lits
  /\ pkg_agent__webAgentClient_handleConn__ops = smx_handleConn_ops
  /\ pkg_agent__webAgentClient_handleIncomingRegister__lits = smx_handleIncomingRegister_lits
  /\ pkg_agent__webAgentClient_handleIncomingRegister__ops = smx_handleIncomingRegister_ops
  /\ pkg_agent__webAgentClient_Endpoints__lits = smx_clientEndpoints_lits
  /\ pkg_agent__webAgentClient_Endpoints__ops = smx_clientEndpoints_ops.
Proof. repeat split; reflexivity. Qed.

Lemma muxconc_ping_shapes_ok :
  pkg_agent__PingAgent_handler__lits = smx_pingHandler_lits /\ pkg_agent__PingAgent_handler__ops = smx_pingHandler_ops
  /\ pkg_agent__PingAgent_ackBundle__lits = smx_ackBundle_lits
  /\ pkg_agent__PingAgent_ackBundle__ops = smx_ackBundle_ops.
Proof. repeat split; reflexivity. Qed.

Lemma muxconc_manager_shapes_ok :
  pkg_routing__AgentManager_handler__lits = smx_amHandler_lits
  /\ pkg_routing__AgentManager_handler__ops = smx_amHandler_ops
  /\ pkg_routing__AgentManager_handleMessage__lits = smx_handleMessage_lits
  /\ pkg_routing__AgentManager_handleMessage__ops = smx_handleMessage_ops
  /\ pkg_routing__AgentManager_HasEndpoint__lits = smx_amHasEndpoint_lits
  /\ pkg_routing__AgentManager_HasEndpoint__ops = smx_amHasEndpoint_ops
  /\ pkg_routing__AgentManager_Deliver__lits = smx_Deliver_lits
  /\ pkg_routing__AgentManager_Deliver__ops = smx_Deliver_ops
  /\ pkg_routing__Core_SendBundle__lits = smx_SendBundle_lits /\ pkg_routing__Core_SendBundle__ops = smx_SendBundle_ops
  /\ pkg_routing__Core_transmit__lits = smx_transmit_lits /\ pkg_routing__Core_transmit__ops = smx_transmit_ops
  /\ pkg_routing__Core_dispatching__lits = smx_dispatching_lits
  /\ pkg_routing__Core_dispatching__ops = smx_dispatching_ops.
Proof. repeat split; reflexivity. Qed.
