(* EidProofs.v - endpoint IDs: CBOR round trip with exact consumption; URI print/parse. *)
From DTN Require Import Base Cbor CborProofs Eid.
From Coq Require Import ZifyN ZifyNat ZifyBool.
Open Scope N_scope.

Lemma bytes_eqb_refl l : bytes_eqb l l = true.
Proof. induction l as [|x l IH]; cbn; [reflexivity|]. rewrite N.eqb_refl. exact IH. Qed.

Lemma bytes_eqb_eq a : forall b, bytes_eqb a b = true -> a = b.
Proof.
  induction a as [|x a IH]; intros [|y b] H; cbn in H; try discriminate; [reflexivity|].
  apply andb_prop in H. destruct H as [H1 H2]. apply N.eqb_eq in H1. f_equal; [exact H1|apply IH, H2].
Qed.

Lemma eid_eqb_refl e : eid_eqb e e = true.
Proof. destruct e; cbn; rewrite ?bytes_eqb_refl, ?N.eqb_refl; reflexivity. Qed.

Lemma eid_eqb_eq a b : eid_eqb a b = true -> a = b.
Proof.
  destruct a, b; cbn; intros H; try discriminate; try reflexivity.
  - apply andb_prop in H. destruct H as [H1 H2]. apply bytes_eqb_eq in H1, H2. congruence.
  - apply andb_prop in H. destruct H as [H1 H2]. apply N.eqb_eq in H1, H2. congruence.
Qed.

Lemma span_node_app node rest :
  forallb is_node_char node = true ->
  (match rest with [] => true | c :: _ => negb (is_node_char c) end) = true ->
  span_node (node ++ rest) = (node, rest).
Proof.
  intros Hn Hr. induction node as [|c node IH]; cbn [app].
  - destruct rest as [|c rest]; [reflexivity|]. cbn [span_node]. apply negb_true_iff in Hr. rewrite Hr. reflexivity.
  - cbn [forallb] in Hn. apply andb_prop in Hn. destruct Hn as [Hc Hn]. cbn [span_node]. rewrite Hc, (IH Hn). reflexivity.
Qed.

Lemma parse_ssp_ssp node demux :
  eid_valid (Dtn node demux) = true -> parse_ssp (ssp_bytes node demux) = Some (node, demux).
Proof.
  unfold eid_valid. intros H. apply andb_prop in H. destruct H as [H Hd]. apply andb_prop in H. destruct H as [Hne Hc].
  unfold ssp_bytes, parse_ssp. rewrite span_node_app; [|exact Hc|reflexivity].
  destruct node as [|c node]; [discriminate|]. rewrite Hd. reflexivity.
Qed.

Lemma ssp_not_none node demux : bytes_eqb (ssp_bytes node demux) str_none = false.
Proof. reflexivity. Qed.

Lemma len_ok_ssp node demux : eid_wf (Dtn node demux) = true -> len_ok (ssp_bytes node demux) = true.
Proof.
  unfold eid_wf, len_ok, ssp_bytes, nlen. intros H. apply andb_prop in H. destruct H as [_ H].
  cbn [length]. rewrite app_length. cbn [length]. unfold max_raw in *. lia.
Qed.

Lemma enc_eid_some e bs : enc_eid e = Some bs -> eid_valid e = true /\ bs = enc_eid_body e.
Proof.
  unfold enc_eid. destruct (eid_valid e); [|discriminate]. intros H. split; [reflexivity|]. congruence.
Qed.

Theorem dec_eid_enc e bs r :
  eid_wf e = true -> enc_eid e = Some bs -> dec_eid (bs ++ r) = Ok e r.
Proof.
  intros Hwf Henc. apply enc_eid_some in Henc. destruct Henc as [Hv ->].
  unfold dec_eid. destruct e as [|node demux|n s]; cbn [enc_eid_body].
  - rewrite <- !app_assoc. rewrite read_arr_enc by reflexivity. cbn [bind].
    change (negb (2 =? 2)) with false. cbv iota.
    rewrite read_uint_enc by reflexivity. cbn [bind]. change (1 =? 1) with true. cbv iota.
    unfold enc_uint. rewrite read_head_head; [|left; reflexivity|lia]. cbn [bind]. reflexivity.
  - rewrite <- !app_assoc. rewrite read_arr_enc by reflexivity. cbn [bind].
    change (negb (2 =? 2)) with false. cbv iota.
    rewrite read_uint_enc by reflexivity. cbn [bind]. change (1 =? 1) with true. cbv iota.
    unfold enc_tstr. rewrite <- app_assoc.
    pose proof (len_ok_ssp node demux Hwf) as Hl.
    rewrite read_head_head; [|unfold major_ok, mText; tauto|apply len_ok_lt, Hl].
    cbn [bind]. change (mText =? mUInt) with false. change (mText =? mText) with true. cbv iota.
    rewrite read_raw_app by exact Hl. cbn [bind].
    rewrite ssp_not_none, parse_ssp_ssp by exact Hv. reflexivity.
  - unfold eid_wf in Hwf. apply andb_prop in Hwf. destruct Hwf as [Hn Hs].
    rewrite <- !app_assoc. rewrite read_arr_enc by reflexivity. cbn [bind].
    change (negb (2 =? 2)) with false. cbv iota.
    rewrite read_uint_enc by reflexivity. cbn [bind]. change (2 =? 1) with false. change (2 =? 2) with true. cbv iota.
    rewrite read_arr_enc by reflexivity. cbn [bind]. change (negb (2 =? 2)) with false. cbv iota.
    rewrite read_uint_enc by exact Hn. cbn [bind]. rewrite read_uint_enc by exact Hs. cbn [bind]. reflexivity.
Qed.

Lemma enc_eid_body_nonempty e : (1 <= length (enc_eid_body e))%nat.
Proof. destruct e; cbn [enc_eid_body]; rewrite !app_length; cbn; lia. Qed.
