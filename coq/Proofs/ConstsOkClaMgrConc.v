(* ConstsOkClaMgrConc.v - the literal / operator shapes regenerated from the Go sources of pkg/cla
   (gen/Consts.v) coincide with the ones the sub-step model Model/ClaMgrConc.v is written against
   (Model/SpecClaMgrConc.v), and the parameters of the C16 bound are the production parameters. *)
From Coq Require Import ZArith List.
Import ListNotations.
From DTN Require Import Consts SpecClaMgrConc ClaMgrConc.
Open Scope Z_scope.

Lemma cmc_consts_new_manager :
  pkg_cla__NewManager__lits = cmcs_NewManager_lits /\ pkg_cla__NewManager__ops = cmcs_NewManager_ops.
Proof. split; reflexivity. Qed.

(* queueTtl and the capacity of inChnl of the explored configurations are NewManager's *)
Lemma cmc_consts_par_prod :
  nth 0 pkg_cla__NewManager__lits 0 = par_ttl cmc_par_prod
  /\ nth 2 pkg_cla__NewManager__lits 0 = Z.of_nat (par_cap cmc_par_prod).
Proof. split; reflexivity. Qed.

Lemma cmc_consts_manager :
  pkg_cla__Manager_handler__lits = [] /\ pkg_cla__Manager_handler__ops = cmcs_handler_ops
  /\ pkg_cla__Manager_Close__lits = [] /\ pkg_cla__Manager_Close__ops = cmcs_Close_ops
  /\ pkg_cla__Manager_isStopped__lits = [] /\ pkg_cla__Manager_isStopped__ops = cmcs_isStopped_ops
  /\ pkg_cla__Manager_Register__lits = [] /\ pkg_cla__Manager_Register__ops = cmcs_Register_ops
  /\ pkg_cla__Manager_Unregister__lits = [] /\ pkg_cla__Manager_Unregister__ops = cmcs_Unregister_ops
  /\ pkg_cla__Manager_Restart__lits = [] /\ pkg_cla__Manager_Restart__ops = cmcs_Restart_ops
  /\ pkg_cla__Manager_registerConvergence__lits = []
  /\ pkg_cla__Manager_registerConvergence__ops = cmcs_registerConvergence_ops
  /\ pkg_cla__Manager_unregisterConvergence__lits = []
  /\ pkg_cla__Manager_unregisterConvergence__ops = cmcs_unregisterConvergence_ops.
Proof. repeat split; reflexivity. Qed.

Lemma cmc_consts_elem :
  pkg_cla__convergenceElem_isActive__lits = cmcs_isActive_lits
  /\ pkg_cla__convergenceElem_isActive__ops = cmcs_isActive_ops
  /\ pkg_cla__convergenceElem_handler__lits = [] /\ pkg_cla__convergenceElem_handler__ops = cmcs_elem_handler_ops
  /\ pkg_cla__convergenceElem_activate__lits = cmcs_activate_lits
  /\ pkg_cla__convergenceElem_activate__ops = cmcs_activate_ops
  /\ pkg_cla__convergenceElem_deactivate__lits = [] /\ pkg_cla__convergenceElem_deactivate__ops = cmcs_deactivate_ops.
Proof. repeat split; reflexivity. Qed.

(* the model's isActive / activate use the same literals: ttl < 0 ; ttl == 0 ; Store(-1) ; ttl > 0 ; Add(-1) ; Store(0) *)
Lemma cmc_consts_ttl_literals :
  cmc_is_active (cmc_new_elem 0 (nth 0 pkg_cla__convergenceElem_isActive__lits 1 - 1)) = true
  /\ cmc_is_active (cmc_new_elem 0 (nth 0 pkg_cla__convergenceElem_isActive__lits 1)) = false.
Proof. split; reflexivity. Qed.
