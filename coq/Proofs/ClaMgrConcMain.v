(* ClaMgrConcMain.v - puts the parallel explorations (ClaMgrConcRun0..6.v) together: every
   configuration within the C16 bound that obeys cmc_cfg_ok has only good reachable states, and derives
   the three clauses of C16 (no deadlock / termination, exactly once, no panic) from that. *)
From DTN Require Import Base ClaMgrConc ClaMgrConcProofs
  ClaMgrConcRun0 ClaMgrConcRun1 ClaMgrConcRun2 ClaMgrConcRun3 ClaMgrConcRun4 ClaMgrConcRun5 ClaMgrConcRun6.
Open Scope nat_scope.

Lemma cmc_slice_in : forall n i l c, In c l -> cmc_cfg_code c mod n = i -> In c (cmc_slice n i l).
Proof. intros n i l c H E. unfold cmc_slice. apply filter_In. split; [exact H|]. apply Nat.eqb_eq. exact E. Qed.

Lemma cmc_fam1_checked : forall c, In c cmc_fam1 -> cmc_check_cfg cmc_code_as_is cmc_fuel c = true.
Proof.
  intros c H.
  assert (Hlt : cmc_cfg_code c mod 6 < 6) by (apply Nat.mod_upper_bound; discriminate).
  pose proof (cmc_slice_in 6 (cmc_cfg_code c mod 6) cmc_fam1 c H eq_refl) as Hs.
  remember (cmc_cfg_code c mod 6) as i eqn:Ei. clear Ei.
  destruct i as [|[|[|[|[|[|i]]]]]]; try lia.
  - pose proof cmc_run_slice0 as R. rewrite forallb_forall in R. apply R. exact Hs.
  - pose proof cmc_run_slice1 as R. rewrite forallb_forall in R. apply R. exact Hs.
  - pose proof cmc_run_slice2 as R. rewrite forallb_forall in R. apply R. exact Hs.
  - pose proof cmc_run_slice3 as R. rewrite forallb_forall in R. apply R. exact Hs.
  - pose proof cmc_run_slice4 as R. rewrite forallb_forall in R. apply R. exact Hs.
  - pose proof cmc_run_slice5 as R. rewrite forallb_forall in R. apply R. exact Hs.
Qed.

Lemma cmc_fam2_checked : forall c, In c cmc_fam2 -> cmc_check_cfg cmc_code_as_is cmc_fuel c = true.
Proof. intros c H. pose proof cmc_run_fam2 as R. rewrite forallb_forall in R. apply R. exact H. Qed.

(* every configuration within the bound that obeys cmc_cfg_ok passes the exploration *)
Theorem cmc_c16_bound_checked : forall c, cmc_c16_bound c = true -> cmc_cfg_ok c = true ->
  cmc_check_cfg cmc_code_as_is cmc_fuel c = true.
Proof.
  intros c Hb Hok. unfold cmc_c16_bound in Hb. apply orb_true_iff in Hb. destruct Hb as [Hb|Hb].
  - apply andb_true_iff in Hb. destruct Hb as [Hb Hp]. apply cmc_fam1_checked. unfold cmc_fam1.
    apply filter_In. split; [apply cmc_family_complete; assumption|exact Hp].
  - apply cmc_fam2_checked. apply cmc_family_complete; assumption.
Qed.

Theorem cmc_c16_good : forall c, cmc_c16_bound c = true -> cmc_cfg_ok c = true ->
  forall s, cmc_reach cmc_code_as_is (cf_par c) (cmc_init c) s -> cmc_state_good cmc_code_as_is (cf_par c) s.
Proof. intros c Hb Hok. apply (cmc_check_cfg_sound _ cmc_fuel). apply cmc_c16_bound_checked; assumption. Qed.

(* ---------- the clauses of C16 ---------- *)
(* no reachable deadlock; every run is finite (at most rank-many steps); a run that cannot be continued
   ends with every thread returned - in particular Close() returned *)
Theorem cmc_close_no_deadlock : forall c, cmc_c16_bound c = true -> cmc_cfg_ok c = true ->
  forall s, cmc_reach cmc_code_as_is (cf_par c) (cmc_init c) s ->
    (cmc_all_done s = false -> exists t alt s', cmc_step cmc_code_as_is (cf_par c) s t alt = Some s')
    /\ (forall n s', cmc_run cmc_code_as_is (cf_par c) n s s' -> (N.of_nat n <= cmc_rank s)%N)
    /\ ((forall t alt, cmc_step cmc_code_as_is (cf_par c) s t alt = None) ->
        cmc_all_done s = true /\ cmc_close_returned s = true).
Proof.
  intros c Hb Hok s Hr. pose proof (cmc_c16_good c Hb Hok) as G. split; [|split].
  - apply (sg_live _ _ _ (G s Hr)).
  - intros n s' Hrun. pose proof (cmc_run_rank _ _ _ _ _ Hrun). lia.
  - intros Hnone. destruct (sg_final _ _ _ (G s Hr) Hnone) as [Hd _]. split; [exact Hd|].
    unfold cmc_all_done in Hd. unfold cmc_close_returned.
    repeat (apply andb_true_iff in Hd; destruct Hd as [Hd ?]). assumption.
Qed.

(* the adapter calls alternate (no Start() of a started adapter, no Close() of a stopped one, at any
   point of any run), and when nothing can move any more nothing is left running or listed *)
Theorem cmc_close_exactly_once : forall c, cmc_c16_bound c = true -> cmc_cfg_ok c = true ->
  forall s, cmc_reach cmc_code_as_is (cf_par c) (cmc_init c) s ->
    (forall t alt s', cmc_step cmc_code_as_is (cf_par c) s t alt = Some s' ->
       match cmc_call s t with
       | Some (true, a) => cmc_started s a = false
       | Some (false, a) => cmc_started s a = true
       | None => True
       end)
    /\ ((forall t alt, cmc_step cmc_code_as_is (cf_par c) s t alt = None) -> cmc_all_stopped s = true).
Proof.
  intros c Hb Hok s Hr. pose proof (cmc_c16_good c Hb Hok) as G. split.
  - intros t alt s' Hs. eapply cmc_call_guard; [exact Hs|].
    apply (sg_no_err _ _ _ (G s' (cmc_reach_step _ _ _ _ _ _ _ Hr Hs))).
  - intros Hnone. apply (sg_final _ _ _ (G s Hr) Hnone).
Qed.

(* no reachable state is the result of closing a closed channel, sending on a closed channel (or any
   other operation the model records as an error) *)
Theorem cmc_close_no_panic : forall c, cmc_c16_bound c = true -> cmc_cfg_ok c = true ->
  forall s, cmc_reach cmc_code_as_is (cf_par c) (cmc_init c) s -> cs_err s = None.
Proof. intros c Hb Hok s Hr. apply (sg_no_err _ _ _ (cmc_c16_good c Hb Hok s Hr)). Qed.
