(* ConstsOkStore.v - the shapes regenerated from the Go sources coincide with the ones the store
   model is written against.  A changed comparison / literal in store.go, bundle_item.go,
   fragmentation.go (prepareReassembly) or bundle_descriptor.go (Bundle) breaks a [reflexivity] here. *)
From Coq Require Import ZArith List.
Import ListNotations.
From DTN Require Import Consts SpecStore.
Open Scope Z_scope.

Lemma store_dirs_ok : pkg_storage__dirBundle = store_dir_bundle /\ pkg_storage__dirBadger = store_dir_badger.
Proof. split; reflexivity. Qed.
Lemma store_push_ok : pkg_storage__Store_Push__ops = store_push_ops /\ pkg_storage__Store_Push__lits = store_push_lits.
Proof. split; reflexivity. Qed.
Lemma store_delete_ok :
  pkg_storage__Store_Delete__ops = store_delete_ops /\ pkg_storage__Store_Delete__lits = []
  /\ pkg_storage__Store_DeleteExpired__ops = store_sweep_ops
  /\ pkg_storage__Store_Update__ops = [] /\ pkg_storage__Store_QueryPending__ops = [1017]
  /\ pkg_storage__Store_KnowsBundle__ops = store_knows_ops.
Proof. repeat split; reflexivity. Qed.
Lemma store_item_ok :
  pkg_storage__BundleItem_IsComplete__ops = store_complete_ops
  /\ pkg_storage__BundlePart_storeBundle__ops = store_file_ops
  /\ pkg_storage__BundlePart_storeBundle__lits = store_file_mode
  /\ pkg_storage__newBundleItem__lits = [] /\ pkg_storage__newBundleItem__ops = [].
Proof. repeat split; reflexivity. Qed.
Lemma reassembly_scan_ok :
  pkg_bpv7__prepareReassembly__ops = reassembly_scan_ops /\ pkg_bpv7__prepareReassembly__lits = reassembly_scan_lits.
Proof. split; reflexivity. Qed.
Lemma descriptor_bundle_ok :
  pkg_routing__BundleDescriptor_Bundle__ops = descriptor_bundle_ops
  /\ pkg_routing__BundleDescriptor_Bundle__lits = descriptor_bundle_lits.
Proof. split; reflexivity. Qed.
