(* TcpclProofs.v - proofs about Model/Tcpcl.v (TCPCLv4 transfers). *)
From Coq Require Import ZifyN ZifyNat ZifyBool.
From DTN Require Import Base Tcpcl.
Open Scope N_scope.

(* ------------------------------------------------------------------------------------------ *)
(* flags *)
Lemma has_start_flags : forall a b n d, sg_has_start (mkSeg (flags_of a b) n d) = a.
Proof. intros [] [] n d; reflexivity. Qed.
Lemma has_end_flags : forall a b n d, sg_has_end (mkSeg (flags_of a b) n d) = b.
Proof. intros [] [] n d; reflexivity. Qed.

Lemma is_nil_true : forall A (l : list A), is_nil l = true <-> l = [].
Proof. intros A [|x l]; cbn; split; intro H; congruence. Qed.
Lemma is_nil_false : forall A (l : list A), is_nil l = false <-> l <> [].
Proof. intros A [|x l]; cbn; split; intro H; congruence. Qed.

Lemma nlen_app : forall A (a b : list A), nlen (a ++ b) = nlen a + nlen b.
Proof. intros. unfold nlen. rewrite app_length. lia. Qed.
Lemma nlen_nil_iff : forall A (l : list A), nlen l = 0 <-> l = [].
Proof. intros A [|x l]; unfold nlen; cbn [length]; split; intro H; try reflexivity; try discriminate; lia. Qed.

Lemma ntake_firstn : forall A (l : list A) k, ntake k l = firstn (N.to_nat k) l.
Proof.
  induction l as [|x r IH]; intros k; cbn [ntake]; [destruct (N.to_nat k); reflexivity|].
  destruct (N.eqb_spec k 0) as [->|Hk]; [reflexivity|].
  rewrite IH. replace (N.to_nat k) with (S (N.to_nat (N.pred k))) by lia. reflexivity.
Qed.
Lemma ndrop_skipn : forall A (l : list A) k, ndrop k l = skipn (N.to_nat k) l.
Proof.
  induction l as [|x r IH]; intros k; cbn [ndrop]; [destruct (N.to_nat k); reflexivity|].
  destruct (N.eqb_spec k 0) as [->|Hk]; [reflexivity|].
  rewrite IH. replace (N.to_nat k) with (S (N.to_nat (N.pred k))) by lia. reflexivity.
Qed.

(* ------------------------------------------------------------------------------------------ *)
(* NextSegment *)

(* the buffer size actually used for a peer-declared MTU m *)
Definition seg_size (m : N) : nat := N.to_nat (N.min m tc_max_segment).

Lemma seg_size_pos : forall m, 1 <= m -> (1 <= seg_size m)%nat.
Proof. intros m Hm. unfold seg_size, tc_max_segment. lia. Qed.
Lemma seg_size_le : forall m, N.of_nat (seg_size m) <= m /\ N.of_nat (seg_size m) <= tc_max_segment.
Proof. intros m. unfold seg_size, tc_max_segment. lia. Qed.

Lemma next_segment_nonempty : forall m st,
  1 <= m -> os_stream st <> [] ->
  next_segment m st =
    NsSeg (mkSeg (flags_of (os_start st) (is_nil (skipn (seg_size m) (os_stream st)))) (os_tid st)
                 (firstn (seg_size m) (os_stream st)))
          (N.min m tc_max_segment)
          (mkOut (os_tid st) false (skipn (seg_size m) (os_stream st))).
Proof.
  intros m st Hm Hne. unfold next_segment.
  replace (m =? 0) with false by (symmetry; apply N.eqb_neq; lia).
  replace (tc_int_limit <=? N.min m tc_max_segment) with false
    by (symmetry; apply N.leb_gt; unfold tc_int_limit, tc_max_segment; lia).
  rewrite ntake_firstn, ndrop_skipn.
  destruct (os_stream st) as [|b r] eqn:E; [congruence|]. reflexivity.
Qed.

Lemma next_segment_empty : forall m st,
  1 <= m -> os_stream st = [] -> next_segment m st = NsEof (mkOut (os_tid st) false []).
Proof.
  intros m st Hm He. unfold next_segment.
  replace (m =? 0) with false by (symmetry; apply N.eqb_neq; lia).
  replace (tc_int_limit <=? N.min m tc_max_segment) with false
    by (symmetry; apply N.leb_gt; unfold tc_int_limit, tc_max_segment; lia).
  rewrite He. reflexivity.
Qed.

Lemma segs_loop_empty : forall fuel m st, 1 <= m -> os_stream st = [] -> segs_loop fuel m st = [].
Proof. intros [|f] m st Hm He; cbn [segs_loop]; [reflexivity|]. rewrite next_segment_empty by assumption. reflexivity. Qed.

Lemma segs_loop_step : forall f m st,
  1 <= m -> os_stream st <> [] ->
  segs_loop (S f) m st =
    mkSeg (flags_of (os_start st) (is_nil (skipn (seg_size m) (os_stream st)))) (os_tid st)
          (firstn (seg_size m) (os_stream st))
    :: segs_loop f m (mkOut (os_tid st) false (skipn (seg_size m) (os_stream st))).
Proof. intros. cbn [segs_loop]. rewrite next_segment_nonempty by assumption. reflexivity. Qed.

Lemma skipn_shorter : forall A k (l : list A), (1 <= k)%nat -> l <> [] -> (length (skipn k l) < length l)%nat.
Proof. intros A k l Hk Hl. rewrite skipn_length. destruct l; [congruence|]. cbn [length]. lia. Qed.

Lemma segs_loop_fuel : forall f1 f2 m st,
  1 <= m -> (length (os_stream st) < f1)%nat -> (length (os_stream st) < f2)%nat ->
  segs_loop f1 m st = segs_loop f2 m st.
Proof.
  induction f1 as [|f1 IH]; intros f2 m st Hm H1 H2; [lia|].
  destruct f2 as [|f2]; [lia|].
  destruct (os_stream st) as [|b r] eqn:E.
  - rewrite !segs_loop_empty by assumption. reflexivity.
  - assert (Hne : os_stream st <> []) by (rewrite E; discriminate).
    rewrite !segs_loop_step by assumption. f_equal.
    pose proof (skipn_shorter _ (seg_size m) (os_stream st) (seg_size_pos m Hm) Hne) as Hs.
    assert (HE : length (os_stream st) = length (b :: r)) by (rewrite E; reflexivity).
    apply IH; cbn [os_stream]; try assumption; lia.
Qed.

(* START exactly on the first, END exactly on the last *)
Definition start_only_first (ss : list segment) : Prop :=
  exists s0 r, ss = s0 :: r /\ sg_has_start s0 = true /\ Forall (fun s => sg_has_start s = false) r.
Definition end_only_last (ss : list segment) : Prop :=
  exists f sl, ss = f ++ [sl] /\ sg_has_end sl = true /\ Forall (fun s => sg_has_end s = false) f.

Lemma segs_loop_props : forall fuel m tid start stream,
  1 <= m -> (length stream < fuel)%nat -> stream <> [] ->
  let ss := segs_loop fuel m (mkOut tid start stream) in
  concat (map sg_data ss) = stream
  /\ Forall (fun s => sg_tid s = tid /\ sg_data s <> [] /\ (length (sg_data s) <= seg_size m)%nat) ss
  /\ (exists s0 r, ss = s0 :: r /\ sg_has_start s0 = start /\ Forall (fun s => sg_has_start s = false) r)
  /\ end_only_last ss.
Proof.
  induction fuel as [|f IH]; intros m tid start stream Hm Hf Hne; [lia|].
  pose proof (seg_size_pos m Hm) as Hk.
  cbv zeta. rewrite segs_loop_step by (cbn [os_stream]; assumption). cbn [os_stream os_start os_tid].
  set (k := seg_size m) in *.
  destruct (skipn k stream) as [|b r] eqn:Er.
  - (* last segment *)
    rewrite segs_loop_empty by (cbn [os_stream]; auto). cbn [is_nil map concat sg_data].
    assert (Hfn : firstn k stream = stream).
    { rewrite <- (firstn_skipn k stream) at 2. rewrite Er, app_nil_r. reflexivity. }
    rewrite Hfn, app_nil_r. split; [reflexivity|]. split.
    + constructor; [|constructor]. cbn [sg_tid sg_data]. repeat split; auto.
      rewrite <- Hfn. rewrite firstn_length. lia.
    + split.
      * eexists; eexists; split; [reflexivity|]. split; [apply has_start_flags|constructor].
      * exists [], (mkSeg (flags_of start true) tid stream). split; [reflexivity|].
        split; [apply has_end_flags|constructor].
  - assert (Hr : (length (b :: r) < f)%nat).
    { rewrite <- Er. pose proof (skipn_shorter _ k stream Hk Hne). lia. }
    assert (Hrne : b :: r <> []) by discriminate.
    destruct (IH m tid false (b :: r) Hm Hr Hrne) as (Hc & Hall & (s0 & r0 & Hs0 & Hst & Hrest) & (fr & sl & Hfr & Hend & Hnoend)).
    cbn [is_nil map concat sg_data]. split.
    { rewrite Hc, <- Er. apply firstn_skipn. }
    split.
    { constructor; [|exact Hall]. cbn [sg_tid sg_data]. repeat split; auto.
      - intro H0. destruct stream; [congruence|]. destruct k; [lia|]. cbn in H0. discriminate.
      - rewrite firstn_length. lia. }
    split.
    { eexists; eexists; split; [reflexivity|]. split; [apply has_start_flags|].
      rewrite Hs0. constructor; assumption. }
    { exists (mkSeg (flags_of start false) tid (firstn k stream) :: fr), sl. split.
      - rewrite Hfr. reflexivity.
      - split; [assumption|]. constructor; [apply has_end_flags|assumption]. }
Qed.

(* C11_segments *)
Lemma tcpcl_segments : forall bs m tid,
  bs <> [] -> 1 <= m ->
  let ss := segments bs m tid in
  Forall (fun s => sg_tid s = tid /\ 1 <= nlen (sg_data s) <= N.min m tc_max_segment /\ nlen (sg_data s) <= m) ss
  /\ concat (map sg_data ss) = bs
  /\ start_only_first ss
  /\ end_only_last ss.
Proof.
  intros bs m tid Hne Hm. cbv zeta. unfold segments, out_init.
  destruct (segs_loop_props (S (length bs)) m tid true bs Hm (Nat.lt_succ_diag_r _) Hne)
    as (Hc & Hall & Hst & Hend).
  split; [|split; [exact Hc|split; [exact Hst|exact Hend]]].
  eapply Forall_impl; [|exact Hall]. intros s (Ht & Hd & Hl). cbv beta.
  split; [exact Ht|]. unfold seg_size in Hl. unfold nlen.
  destruct (sg_data s); [congruence|]. cbn [length] in *. lia.
Qed.

(* the divisor case: when the segment size divides the length, every segment - the last one
   included - is full, and the last one still carries END *)
Lemma segs_loop_divisor : forall q fuel m tid start stream,
  1 <= m -> (length stream < fuel)%nat -> length stream = (S q * seg_size m)%nat ->
  let ss := segs_loop fuel m (mkOut tid start stream) in
  length ss = S q /\ Forall (fun s => length (sg_data s) = seg_size m) ss.
Proof.
  induction q as [|q IH]; intros fuel m tid start stream Hm Hf Hlen; cbv zeta;
    pose proof (seg_size_pos m Hm) as Hk; (destruct fuel as [|f]; [lia|]);
    (assert (Hne : stream <> []) by (destruct stream; [cbn in Hlen; lia|discriminate]));
    rewrite segs_loop_step by (cbn [os_stream]; assumption); cbn [os_stream os_start os_tid].
  - assert (Hs : skipn (seg_size m) stream = []).
    { apply length_zero_iff_nil. rewrite skipn_length. lia. }
    rewrite Hs. rewrite segs_loop_empty by (cbn [os_stream]; auto). split; [reflexivity|].
    constructor; [|constructor]. cbn [sg_data]. rewrite firstn_length. lia.
  - assert (Hs : length (skipn (seg_size m) stream) = (S q * seg_size m)%nat).
    { rewrite skipn_length. lia. }
    destruct (IH f m tid false (skipn (seg_size m) stream) Hm) as (Hl & Hall); [lia|exact Hs|].
    split; [cbn [length]; rewrite Hl; reflexivity|].
    constructor; [|exact Hall]. cbn [sg_data]. rewrite firstn_length. lia.
Qed.

Lemma tcpcl_segments_divisor : forall bs m tid q,
  1 <= m -> m <= tc_max_segment -> nlen bs = N.of_nat (S q) * m ->
  let ss := segments bs m tid in
  length ss = S q /\ Forall (fun s => nlen (sg_data s) = m) ss /\ end_only_last ss.
Proof.
  intros bs m tid q Hm Hcap Hlen. cbv zeta.
  assert (Hk : seg_size m = N.to_nat m) by (unfold seg_size; f_equal; lia).
  assert (Hne : bs <> []).
  { intro H0; subst bs. unfold nlen in Hlen. cbn [length N.of_nat] in Hlen.
    symmetry in Hlen. apply N.eq_mul_0 in Hlen. lia. }
  unfold segments, out_init.
  destruct (segs_loop_divisor q (S (length bs)) m tid true bs Hm (Nat.lt_succ_diag_r _)) as (Hl & Hall).
  { rewrite Hk. apply Nat2N.inj. rewrite Nat2N.inj_mul, N2Nat.id. exact Hlen. }
  split; [exact Hl|]. split.
  - eapply Forall_impl; [|exact Hall]. cbv beta. intros s Hs. unfold nlen. rewrite Hs, Hk. lia.
  - apply (segs_loop_props (S (length bs)) m tid true bs Hm (Nat.lt_succ_diag_r _) Hne).
Qed.

(* ------------------------------------------------------------------------------------------ *)
(* C04, sender clause: a peer-declared segment MRU can neither make the sender panic nor spin,
   and the buffer it allocates is bounded. *)
Lemma tcpcl_sender_mru : forall m st,
  m < 2 ^ 64 ->
  next_segment m st <> NsPanic
  /\ (forall s a st', next_segment m st = NsSeg s a st' ->
        (* at least one byte of the stream is consumed and sent *)
        1 <= nlen (sg_data s)
        /\ os_stream st = sg_data s ++ os_stream st'
        /\ (length (os_stream st') < length (os_stream st))%nat
        (* the buffer made is bounded by a constant - and so by a constant plus what is sent *)
        /\ a <= tc_max_segment /\ a <= tc_max_segment + nlen (sg_data s))
  /\ (* every other outcome ends the transfer: the loop of Send leaves *)
     (forall fuel, (length (fst (out_loop next_segment fuel m st)) <= length (os_stream st))%nat
                   /\ snd (out_loop next_segment fuel m st) <> OtPanic).
Proof.
  intros m st Hm.
  assert (Hnp : forall st0, next_segment m st0 <> NsPanic).
  { intros st0. unfold next_segment. destruct (m =? 0); [discriminate|].
    replace (tc_int_limit <=? N.min m tc_max_segment) with false
      by (symmetry; apply N.leb_gt; unfold tc_int_limit, tc_max_segment; lia).
    destruct (os_stream st0); discriminate. }
  assert (Hseg : forall st0 s a st', next_segment m st0 = NsSeg s a st' ->
        1 <= nlen (sg_data s) /\ os_stream st0 = sg_data s ++ os_stream st'
        /\ (length (os_stream st') < length (os_stream st0))%nat
        /\ a <= tc_max_segment /\ a <= tc_max_segment + nlen (sg_data s)).
  { intros st0 s a st' H. destruct (N.eqb_spec m 0) as [->|Hm0]; [unfold next_segment in H; cbn in H; discriminate|].
    assert (H1 : 1 <= m) by lia.
    destruct (os_stream st0) as [|b r] eqn:E.
    - rewrite next_segment_empty in H by assumption. discriminate.
    - assert (Hne : os_stream st0 <> []) by (rewrite E; discriminate).
      rewrite next_segment_nonempty in H by assumption. inversion H; subst s a st'; clear H.
      cbn [sg_data os_stream]. pose proof (seg_size_pos m H1) as Hk.
      pose proof (skipn_shorter _ (seg_size m) (os_stream st0) Hk Hne) as Hs.
      rewrite E in *. repeat split.
      + unfold nlen. destruct (seg_size m); [lia|]. cbn [firstn length]. lia.
      + symmetry. apply firstn_skipn.
      + exact Hs.
      + lia.
      + lia. }
  split; [apply Hnp|]. split; [apply Hseg|].
  intros fuel. revert st. induction fuel as [|f IH]; intros st; cbn [out_loop fst snd length].
  - split; [lia|discriminate].
  - destruct (next_segment m st) as [s a st'| | |] eqn:E; cbn [fst snd length]; try (split; [lia|discriminate]).
    + destruct (Hseg st s a st' E) as (_ & _ & Hlt & _). destruct (IH st') as (Hl & Hp). split; [lia|exact Hp].
    + exfalso. exact (Hnp st E).
Qed.

(* the unrepaired NextSegment violates all three clauses *)
Example tcpcl_orig_mru_zero_spins :
  out_run_orig 6 [1; 2; 3] 0 9 =
    ([(mkSeg 2 9 [], 0); (mkSeg 0 9 [], 0); (mkSeg 0 9 [], 0); (mkSeg 0 9 [], 0); (mkSeg 0 9 [], 0); (mkSeg 0 9 [], 0)], OtFuel).
Proof. vm_compute. reflexivity. Qed.
Example tcpcl_orig_mru_huge_panics : out_run_orig 6 [1; 2; 3] (2 ^ 63) 9 = ([], OtPanic).
Proof. vm_compute. reflexivity. Qed.
Example tcpcl_orig_divisor_no_end :
  out_run_orig 6 [1; 2; 3; 4] 2 9 = ([(mkSeg 2 9 [1; 2], 2); (mkSeg 0 9 [3; 4], 2)], OtEof)
  /\ out_run [1; 2; 3; 4] 2 9 = ([(mkSeg 2 9 [1; 2], 2); (mkSeg 1 9 [3; 4], 2)], OtEof).
Proof. vm_compute. split; reflexivity. Qed.

Lemma out_loop_segs : forall fuel m st,
  map fst (fst (out_loop next_segment fuel m st)) = segs_loop fuel m st.
Proof.
  induction fuel as [|f IH]; intros m st; cbn [out_loop segs_loop]; [reflexivity|].
  destruct (next_segment m st); cbn [fst map]; try reflexivity. rewrite IH. reflexivity.
Qed.

(* ------------------------------------------------------------------------------------------ *)
(* receiver *)
Lemma rx_lookup_del_same : forall st t, rx_lookup (rx_del st t) t = [].
Proof.
  induction st as [|[k v] st IH]; intros t; cbn [rx_del rx_lookup]; [reflexivity|].
  destruct (N.eqb_spec k t); [apply IH|]. cbn [rx_lookup]. destruct (N.eqb_spec k t); [congruence|apply IH].
Qed.
Lemma rx_lookup_del_other : forall st t t', t <> t' -> rx_lookup (rx_del st t) t' = rx_lookup st t'.
Proof.
  induction st as [|[k v] st IH]; intros t t' Hne; cbn [rx_del rx_lookup]; [reflexivity|].
  destruct (N.eqb_spec k t) as [->|Hk].
  - destruct (N.eqb_spec t t'); [congruence|]. apply IH; assumption.
  - cbn [rx_lookup]. destruct (N.eqb_spec k t'); [reflexivity|]. apply IH; assumption.
Qed.
Lemma rx_lookup_set_same : forall st t v, rx_lookup (rx_set st t v) t = v.
Proof. intros. unfold rx_set. cbn [rx_lookup]. rewrite N.eqb_refl. reflexivity. Qed.
Lemma rx_lookup_set_other : forall st t t' v, t <> t' -> rx_lookup (rx_set st t v) t' = rx_lookup st t'.
Proof.
  intros st t t' v Hne. unfold rx_set. cbn [rx_lookup]. destruct (N.eqb_spec t t'); [congruence|].
  apply rx_lookup_del_other; assumption.
Qed.

Lemma filter_all_true : forall A (p : A -> bool) l, (forall x, In x l -> p x = true) -> filter p l = l.
Proof.
  induction l as [|x l IH]; intros H; cbn [filter]; [reflexivity|].
  rewrite (H x (or_introl eq_refl)). f_equal. apply IH. intros y Hy. apply H. right. exact Hy.
Qed.
Lemma filter_all_false : forall A (p : A -> bool) l, (forall x, In x l -> p x = false) -> filter p l = [].
Proof.
  induction l as [|x l IH]; intros H; cbn [filter]; [reflexivity|].
  rewrite (H x (or_introl eq_refl)). apply IH. intros y Hy. apply H. right. exact Hy.
Qed.

(* what one transfer id sees of a segment stream: its buffer and its deliveries *)
Fixpoint one_run (t : N) (buf : list N) (ss : list segment) : list N * list (N * list N) :=
  match ss with
  | [] => (buf, [])
  | s :: ss =>
    if sg_has_end s then let r := one_run t [] ss in (fst r, (t, buf ++ sg_data s) :: snd r)
    else one_run t (buf ++ sg_data s) ss
  end.

Definition for_tid (t : N) (s : segment) : bool := sg_tid s =? t.
Definition dl_tid (t : N) (d : N * list N) : bool := fst d =? t.

Lemma dl_tid_same : forall t v, dl_tid t (t, v) = true.
Proof. intros. unfold dl_tid. cbn [fst]. apply N.eqb_refl. Qed.
Lemma dl_tid_other : forall t t' v, t' <> t -> dl_tid t (t', v) = false.
Proof. intros. unfold dl_tid. cbn [fst]. apply N.eqb_neq. assumption. Qed.
Lemma for_tid_same : forall s, for_tid (sg_tid s) s = true.
Proof. intros. unfold for_tid. apply N.eqb_refl. Qed.
Lemma for_tid_other : forall t s, sg_tid s <> t -> for_tid t s = false.
Proof. intros. unfold for_tid. apply N.eqb_neq. assumption. Qed.

Lemma rx_run_project : forall ss st t,
  rx_lookup (fst (fst (rx_run st ss))) t = fst (one_run t (rx_lookup st t) (filter (for_tid t) ss))
  /\ filter (dl_tid t) (snd (rx_run st ss)) = snd (one_run t (rx_lookup st t) (filter (for_tid t) ss)).
Proof.
  induction ss as [|s ss IH]; intros st t; [split; reflexivity|].
  cbn [rx_run filter]. unfold rx_step.
  destruct (sg_has_end s) eqn:He.
  - destruct (rx_run (rx_del st (sg_tid s)) ss) as [[st'' acks] ds] eqn:Er.
    specialize (IH (rx_del st (sg_tid s)) t). rewrite Er in IH. cbn [fst snd] in IH |- *.
    destruct (N.eq_dec (sg_tid s) t) as [Ht|Ht].
    + subst t. rewrite for_tid_same. cbn [one_run]. rewrite He. cbn [fst snd filter].
      rewrite dl_tid_same. rewrite rx_lookup_del_same in IH. destruct IH as [IH1 IH2]. split; [exact IH1|].
      rewrite IH2. reflexivity.
    + rewrite for_tid_other by assumption. cbn [filter]. rewrite dl_tid_other by assumption.
      rewrite rx_lookup_del_other in IH by assumption. exact IH.
  - destruct (rx_run (rx_set st (sg_tid s) (rx_lookup st (sg_tid s) ++ sg_data s)) ss) as [[st'' acks] ds] eqn:Er.
    specialize (IH (rx_set st (sg_tid s) (rx_lookup st (sg_tid s) ++ sg_data s)) t). rewrite Er in IH.
    cbn [fst snd] in IH |- *.
    destruct (N.eq_dec (sg_tid s) t) as [Ht|Ht].
    + subst t. rewrite for_tid_same. cbn [one_run]. rewrite He. rewrite rx_lookup_set_same in IH. exact IH.
    + rewrite for_tid_other by assumption. rewrite rx_lookup_set_other in IH by assumption. exact IH.
Qed.

Lemma one_run_no_end : forall t f buf rest,
  Forall (fun s => sg_has_end s = false) f ->
  one_run t buf (f ++ rest) = one_run t (buf ++ concat (map sg_data f)) rest.
Proof.
  induction f as [|s f IH]; intros buf rest Hf; cbn [app map concat one_run]; [rewrite app_nil_r; reflexivity|].
  inversion Hf as [|? ? Hs Hf']; subst. rewrite Hs. rewrite IH by assumption. rewrite app_assoc. reflexivity.
Qed.

Lemma one_run_complete : forall t buf ss,
  end_only_last ss -> one_run t buf ss = ([], [(t, buf ++ concat (map sg_data ss))]).
Proof.
  intros t buf ss (f & sl & -> & Hend & Hf). rewrite one_run_no_end by assumption.
  cbn [one_run]. rewrite Hend. cbn [fst snd]. rewrite map_app, concat_app. cbn [map concat].
  rewrite app_nil_r, app_assoc. reflexivity.
Qed.

Lemma rx_delivery_tid : forall ss st d, In d (snd (rx_run st ss)) -> exists s, In s ss /\ sg_tid s = fst d.
Proof.
  induction ss as [|s ss IH]; intros st d; cbn [rx_run snd]; [intros []|].
  unfold rx_step. destruct (sg_has_end s).
  - destruct (rx_run (rx_del st (sg_tid s)) ss) as [[st'' acks] ds] eqn:Er. cbn [snd]. intros [<-|Hin].
    + exists s. split; [left; reflexivity|reflexivity].
    + specialize (IH (rx_del st (sg_tid s)) d). rewrite Er in IH. destruct (IH Hin) as (s' & Hs' & Ht').
      exists s'. split; [right; assumption|assumption].
  - destruct (rx_run (rx_set st (sg_tid s) (rx_lookup st (sg_tid s) ++ sg_data s)) ss) as [[st'' acks] ds] eqn:Er.
    cbn [snd]. intros Hin.
    specialize (IH (rx_set st (sg_tid s) (rx_lookup st (sg_tid s) ++ sg_data s)) d). rewrite Er in IH.
    destruct (IH Hin) as (s' & Hs' & Ht'). exists s'. split; [right; assumption|assumption].
Qed.

(* a single transfer through the receiver: exactly the bundle, once *)
Lemma tcpcl_single_delivery : forall bs m tid,
  bs <> [] -> 1 <= m -> rx_delivered (segments bs m tid) = [(tid, bs)].
Proof.
  intros bs m tid Hne Hm. unfold rx_delivered.
  destruct (tcpcl_segments bs m tid Hne Hm) as (Hall & Hc & _ & Hend).
  pose proof (rx_run_project (segments bs m tid) [] tid) as [_ H2].
  assert (Hf : filter (for_tid tid) (segments bs m tid) = segments bs m tid).
  { apply filter_all_true. intros s Hs.
    rewrite Forall_forall in Hall. destruct (Hall s Hs) as (Ht & _). unfold for_tid. apply N.eqb_eq. exact Ht. }
  rewrite Hf in H2. cbn [rx_lookup] in H2. rewrite one_run_complete in H2 by assumption.
  cbn [snd app] in H2. rewrite Hc in H2.
  rewrite <- H2. symmetry. apply filter_all_true. intros d Hin.
  destruct (rx_delivery_tid _ _ _ Hin) as (s & Hs & Ht). rewrite Forall_forall in Hall. destruct (Hall s Hs) as (Hts & _).
  unfold dl_tid. apply N.eqb_eq. congruence.
Qed.

(* ------------------------------------------------------------------------------------------ *)
(* interleavings *)
Inductive Merge {A} : list A -> list A -> list A -> Prop :=
| merge_nil : Merge [] [] []
| merge_l : forall x l1 l2 l, Merge l1 l2 l -> Merge (x :: l1) l2 (x :: l)
| merge_r : forall x l1 l2 l, Merge l1 l2 l -> Merge l1 (x :: l2) (x :: l).

(* [MergeAll ls tr]: tr is an interleaving of the lists ls (each keeps its own order) *)
Inductive MergeAll {A} : list (list A) -> list A -> Prop :=
| ma_nil : MergeAll [] []
| ma_cons : forall l ls tr' tr, MergeAll ls tr' -> Merge l tr' tr -> MergeAll (l :: ls) tr.

Lemma merge_filter : forall A (p : A -> bool) l1 l2 l,
  Merge l1 l2 l -> Merge (filter p l1) (filter p l2) (filter p l).
Proof.
  intros A p l1 l2 l H. induction H; cbn [filter]; [constructor| |]; destruct (p x); try constructor; assumption.
Qed.
Lemma merge_nil_r : forall A (l1 l : list A), Merge l1 [] l -> l = l1.
Proof.
  intros A l1 l H. remember [] as l2 eqn:E. induction H; [reflexivity| |discriminate].
  f_equal. apply IHMerge. exact E.
Qed.
Lemma merge_nil_l : forall A (l2 l : list A), Merge [] l2 l -> l = l2.
Proof.
  intros A l2 l H. remember [] as l1 eqn:E. induction H; [reflexivity|discriminate|].
  f_equal. apply IHMerge. exact E.
Qed.
Lemma merge_in : forall A (l1 l2 l : list A) x, Merge l1 l2 l -> In x l -> In x l1 \/ In x l2.
Proof.
  intros A l1 l2 l x H. induction H; cbn [In]; [tauto| |]; intros [->|Hin]; try tauto;
    destruct (IHMerge Hin); tauto.
Qed.
Lemma mergeall_in : forall A (ls : list (list A)) tr x,
  MergeAll ls tr -> In x tr -> exists l, In l ls /\ In x l.
Proof.
  intros A ls tr x H. revert x. induction H; intros x Hin; [destruct Hin|].
  destruct (merge_in _ _ _ _ x H0 Hin) as [Hl|Ht].
  - exists l. split; [left; reflexivity|assumption].
  - destruct (IHMergeAll x Ht) as (l' & Hl' & Hx). exists l'. split; [right; assumption|assumption].
Qed.

(* a transfer: id, negotiated segment size, encoded bundle *)
Record xfer := mkX { x_tid : N; x_m : N; x_bs : list N }.
Definition xfer_ok (x : xfer) : Prop := x_bs x <> [] /\ 1 <= x_m x.
Definition xfer_segs (x : xfer) : list segment := segments (x_bs x) (x_m x) (x_tid x).

Lemma xfer_segs_tid : forall x s, xfer_ok x -> In s (xfer_segs x) -> sg_tid s = x_tid x.
Proof.
  intros x s [Hne Hm] Hin. destruct (tcpcl_segments (x_bs x) (x_m x) (x_tid x) Hne Hm) as (Hall & _).
  rewrite Forall_forall in Hall. apply (Hall s Hin).
Qed.

Lemma mergeall_filter : forall xs tr,
  NoDup (map x_tid xs) -> Forall xfer_ok xs -> MergeAll (map xfer_segs xs) tr ->
  forall x, In x xs -> filter (for_tid (x_tid x)) tr = xfer_segs x.
Proof.
  induction xs as [|x0 xs IH]; intros tr Hnd Hok Hm x Hin; [destruct Hin|].
  cbn [map] in Hm, Hnd. inversion Hm as [|l ls tr' tr0 Hm' Hmerge]; subst.
  inversion Hnd as [|? ? Hnotin Hnd']; subst. inversion Hok as [|? ? Hok0 Hok']; subst.
  pose proof (merge_filter _ (for_tid (x_tid x)) _ _ _ Hmerge) as Hf.
  destruct Hin as [->|Hin].
  - (* the head transfer *)
    rewrite (filter_all_true _ _ (xfer_segs x)) in Hf.
    2:{ intros s Hs. unfold for_tid. apply N.eqb_eq. apply xfer_segs_tid; assumption. }
    rewrite (filter_all_false _ _ tr') in Hf.
    2:{ intros s Hs. destruct (mergeall_in _ _ _ s Hm' Hs) as (l & Hl & Hsl).
        apply in_map_iff in Hl. destruct Hl as (y & <- & Hy).
        rewrite Forall_forall in Hok'. rewrite (for_tid_other (x_tid x) s); [reflexivity|].
        rewrite (xfer_segs_tid y s (Hok' y Hy) Hsl). intro Heq. apply Hnotin. rewrite <- Heq.
        apply in_map. exact Hy. }
    apply merge_nil_r in Hf. exact Hf.
  - rewrite (filter_all_false _ _ (xfer_segs x0)) in Hf.
    2:{ intros s Hs. rewrite (for_tid_other (x_tid x) s); [reflexivity|].
        rewrite (xfer_segs_tid x0 s Hok0 Hs). intro Heq. apply Hnotin. rewrite Heq. apply in_map. exact Hin. }
    apply merge_nil_l in Hf. rewrite Hf. apply IH; assumption.
Qed.

(* C11_receiver *)
Lemma tcpcl_receiver : forall xs tr,
  NoDup (map x_tid xs) -> Forall xfer_ok xs -> MergeAll (map xfer_segs xs) tr ->
  (forall x, In x xs -> filter (dl_tid (x_tid x)) (rx_delivered tr) = [(x_tid x, x_bs x)])
  /\ (forall d, In d (rx_delivered tr) -> exists x, In x xs /\ d = (x_tid x, x_bs x)).
Proof.
  intros xs tr Hnd Hok Hm.
  assert (H1 : forall x, In x xs -> filter (dl_tid (x_tid x)) (rx_delivered tr) = [(x_tid x, x_bs x)]).
  { intros x Hin. unfold rx_delivered. destruct (rx_run_project tr [] (x_tid x)) as [_ H2]. rewrite H2.
    rewrite (mergeall_filter xs tr Hnd Hok Hm x Hin). cbn [rx_lookup].
    rewrite Forall_forall in Hok. destruct (Hok x Hin) as [Hne Hmx].
    destruct (tcpcl_segments (x_bs x) (x_m x) (x_tid x) Hne Hmx) as (_ & Hc & _ & Hend).
    unfold xfer_segs. rewrite one_run_complete by assumption. cbn [snd app]. rewrite Hc. reflexivity. }
  split; [exact H1|].
  intros d Hd. unfold rx_delivered in Hd. destruct (rx_delivery_tid _ _ _ Hd) as (s & Hs & Ht).
  destruct (mergeall_in _ _ _ s Hm Hs) as (l & Hl & Hsl). apply in_map_iff in Hl. destruct Hl as (x & <- & Hx).
  exists x. split; [exact Hx|].
  assert (Hin : In d (filter (dl_tid (x_tid x)) (rx_delivered tr))).
  { apply filter_In. split; [exact Hd|]. unfold dl_tid. apply N.eqb_eq. rewrite <- Ht.
    rewrite Forall_forall in Hok. apply xfer_segs_tid; [apply Hok; exact Hx|exact Hsl]. }
  rewrite (H1 x Hx) in Hin. destruct Hin as [<-|[]]. reflexivity.
Qed.

(* ------------------------------------------------------------------------------------------ *)
(* the acknowledged lengths of an honest receiver are the running totals *)
Fixpoint cum (acc : N) (ss : list segment) : list N :=
  match ss with
  | [] => []
  | s :: r => (acc + nlen (sg_data s)) :: cum (acc + nlen (sg_data s)) r
  end.

Definition no_end (s : segment) : bool := negb (sg_has_end s).

Lemma all_but_last_of_end_only_last : forall ss, end_only_last ss -> all_but_last no_end ss = true.
Proof.
  intros ss (f & sl & -> & _ & Hf). induction f as [|x f IH]; [reflexivity|].
  inversion Hf as [|? ? Hx Hf']; subst. specialize (IH Hf').
  cbn [app]. destruct (f ++ [sl]) as [|y r] eqn:E; [destruct f; discriminate|].
  change (all_but_last no_end (x :: y :: r)) with (no_end x && all_but_last no_end (y :: r)).
  unfold no_end at 1. rewrite Hx. cbn [negb andb]. exact IH.
Qed.

Lemma rx_acks_cum : forall t ss st,
  Forall (fun s => sg_tid s = t) ss -> all_but_last no_end ss = true ->
  map ak_len (snd (fst (rx_run st ss))) = cum (nlen (rx_lookup st t)) ss.
Proof.
  induction ss as [|s ss IH]; intros st Ht Hne; [reflexivity|].
  inversion Ht as [|? ? Hts Ht']; subst.
  destruct ss as [|s' r].
  - cbn [rx_run]. unfold rx_step. destruct (sg_has_end s); cbn [fst snd map ak_len cum]; rewrite nlen_app; reflexivity.
  - change (all_but_last no_end (s :: s' :: r)) with (no_end s && all_but_last no_end (s' :: r)) in Hne.
    apply andb_prop in Hne. destruct Hne as [Hs Hne]. unfold no_end in Hs.
    apply negb_true_iff in Hs.
    remember (s' :: r) as ss' eqn:Ess. cbn [rx_run]. unfold rx_step. rewrite Hs.
    destruct (rx_run (rx_set st (sg_tid s) (rx_lookup st (sg_tid s) ++ sg_data s)) ss') as [[st'' acks] ds] eqn:Er.
    specialize (IH (rx_set st (sg_tid s) (rx_lookup st (sg_tid s) ++ sg_data s)) Ht' Hne). rewrite Er in IH.
    cbn [fst snd] in IH |- *. cbn [map ak_len cum]. rewrite nlen_app. f_equal.
    rewrite IH. rewrite rx_lookup_set_same, nlen_app. reflexivity.
Qed.

Lemma cum_lower : forall ss acc n,
  Forall (fun s => 1 <= nlen (sg_data s)) ss -> In n (cum acc ss) -> acc + 1 <= n.
Proof.
  induction ss as [|s r IH]; intros acc n Hpos Hin; [destruct Hin|].
  inversion Hpos as [|? ? Hs Hr]; subst. cbn [cum In] in Hin. destruct Hin as [<-|Hin]; [lia|].
  specialize (IH _ _ Hr Hin). lia.
Qed.

Lemma cum_full_is_last : forall ss acc k,
  Forall (fun s => 1 <= nlen (sg_data s)) ss ->
  nth_error (cum acc ss) k = Some (acc + nlen (concat (map sg_data ss))) -> S k = length ss.
Proof.
  induction ss as [|s r IH]; intros acc k Hpos Hn; [destruct k; discriminate|].
  inversion Hpos as [|? ? Hs Hr]; subst. cbn [cum map concat length] in *. rewrite nlen_app in Hn.
  destruct k as [|k]; cbn [nth_error] in Hn.
  - inversion Hn as [Heq]. assert (H0 : nlen (concat (map sg_data r)) = 0) by lia.
    destruct r as [|s' r']; [reflexivity|]. exfalso.
    inversion Hr as [|? ? Hs' _]; subst. cbn [map concat] in H0. rewrite nlen_app in H0. lia.
  - f_equal. apply (IH (acc + nlen (sg_data s)) k Hr). rewrite Hn. f_equal. lia.
Qed.

Lemma tcpcl_ack_lens : forall bs m tid,
  bs <> [] -> 1 <= m ->
  let ss := segments bs m tid in
  (forall n, In n (rx_ack_lens ss) -> 1 <= n)
  /\ (forall k, nth_error (rx_ack_lens ss) k = Some (nlen bs) -> S k = length ss).
Proof.
  intros bs m tid Hne Hm. cbv zeta.
  destruct (tcpcl_segments bs m tid Hne Hm) as (Hall & Hc & _ & Hend).
  assert (Hpos : Forall (fun s => 1 <= nlen (sg_data s)) (segments bs m tid)).
  { eapply Forall_impl; [|exact Hall]. cbv beta. intros s (_ & H & _). lia. }
  assert (Htid : Forall (fun s => sg_tid s = tid) (segments bs m tid)).
  { eapply Forall_impl; [|exact Hall]. cbv beta. intros s (H & _). exact H. }
  assert (Hcum : rx_ack_lens (segments bs m tid) = cum 0 (segments bs m tid)).
  { unfold rx_ack_lens, rx_acks. rewrite (rx_acks_cum tid _ [] Htid (all_but_last_of_end_only_last _ Hend)). reflexivity. }
  rewrite Hcum. split.
  - intros n Hin. pose proof (cum_lower _ 0 n Hpos Hin). lia.
  - intros k Hk. apply (cum_full_is_last _ 0 k Hpos). rewrite Hc. exact Hk.
Qed.

(* ------------------------------------------------------------------------------------------ *)
(* TransferManager.Send *)
Ltac sproj := cbn [ss_m ss_out ss_running ss_l ss_lenchan ss_errchan ss_stop ss_tmstop ss_inlen ss_outlen
                   ss_result set_result] in *.

Section SendInv.
Variables (bs : list N) (m tid : N).
Hypothesis Hne : bs <> [].
Hypothesis Hm : 1 <= m.

Definition tss : list segment := segments bs m tid.

Definition send_inv (pre : list segment) (st : send_state) : Prop :=
  ss_m st = m
  /\ ss_l st = nlen (concat (map sg_data pre))
  /\ ss_errchan st <> Some SrOk
  /\ (ss_running st = true ->
        pre ++ segs_loop (S (length (os_stream (ss_out st)))) m (ss_out st) = tss
        /\ ss_lenchan st = None /\ ss_outlen st = 0)
  /\ (forall n, ss_lenchan st = Some n -> n = nlen bs /\ pre = tss /\ ss_running st = false)
  /\ (ss_outlen st = 0 \/ (ss_outlen st = nlen bs /\ pre = tss /\ ss_running st = false))
  /\ (ss_inlen st = 0 \/ In (ss_inlen st) (rx_ack_lens tss))
  /\ (ss_result st = Some SrOk -> ss_outlen st = ss_inlen st /\ ss_outlen st <> 0).

Lemma send_inv_init : send_inv [] (send_init bs m tid).
Proof.
  unfold send_inv, send_init. sproj. repeat split; try discriminate; auto.
Qed.

Lemma tss_concat : nlen (concat (map sg_data tss)) = nlen bs.
Proof. unfold tss. destruct (tcpcl_segments bs m tid Hne Hm) as (_ & Hc & _). rewrite Hc. reflexivity. Qed.

Lemma nlen_bs_pos : nlen bs <> 0.
Proof. intro H. apply nlen_nil_iff in H. exact (Hne H). Qed.

Lemma send_step_inv : forall pre st e st' o,
  send_inv pre st -> send_step st e = Some (st', o) -> honest_event tss e = true ->
  send_inv (pre ++ o) st'.
Proof.
  intros pre st e st' o (Im & Il & Ie & Ir & Ilc & Io & Ii & Ires) Hs Hh.
  destruct e; cbn [send_step] in Hs.
  - (* SeStep *)
    destruct (ss_running st) eqn:Erun; cbn [negb] in Hs; [|discriminate].
    destruct (Ir eq_refl) as (Hpre & Hlc & Hol).
    destruct (ss_stop st).
    { inversion Hs; subst st' o; clear Hs. rewrite app_nil_r. unfold send_inv; sproj.
      split; [first [exact Im|reflexivity]|]. split; [exact Il|]. split; [exact Ie|]. split; [intros H; discriminate|].
      split; [intros n Hn; congruence|]. split; [left; exact Hol|]. split; [exact Ii|exact Ires]. }
    destruct (ss_tmstop st).
    { inversion Hs; subst st' o; clear Hs. rewrite app_nil_r. unfold send_inv; sproj.
      split; [first [exact Im|reflexivity]|]. split; [exact Il|]. split; [discriminate|]. split; [intros H; discriminate|].
      split; [intros n Hn; congruence|]. split; [left; exact Hol|]. split; [exact Ii|exact Ires]. }
    rewrite Im in Hs.
    destruct (os_stream (ss_out st)) as [|b r] eqn:Est.
    + rewrite next_segment_empty in Hs by assumption.
      inversion Hs; subst st' o; clear Hs. rewrite app_nil_r.
      rewrite segs_loop_empty in Hpre by assumption. rewrite app_nil_r in Hpre.
      unfold send_inv; sproj.
      split; [first [exact Im|reflexivity]|]. split; [exact Il|]. split; [exact Ie|]. split; [intros H; discriminate|].
      split.
      { intros n Hn. inversion Hn; subst n. split; [|split; [exact Hpre|reflexivity]].
        rewrite Il, Hpre. apply tss_concat. }
      split; [left; exact Hol|]. split; [exact Ii|exact Ires].
    + assert (Hst : os_stream (ss_out st) <> []) by (rewrite Est; discriminate).
      rewrite next_segment_nonempty in Hs by assumption.
      inversion Hs; subst st' o; clear Hs.
      rewrite segs_loop_step in Hpre by assumption.
      unfold send_inv; sproj. cbn [sg_data os_stream].
      split; [first [exact Im|reflexivity]|]. split.
      { rewrite map_app, concat_app, nlen_app. cbn [map concat sg_data]. rewrite app_nil_r, Il. reflexivity. }
      split; [exact Ie|]. split.
      { intros _. split; [|split; [exact Hlc|exact Hol]].
        rewrite <- app_assoc. cbn [app]. rewrite <- Hpre. do 2 f_equal.
        rewrite Est. pose proof (skipn_shorter _ (seg_size m) (b :: r) (seg_size_pos m Hm)) as Hs.
        apply segs_loop_fuel; cbn [os_stream]; try assumption.
        - lia.
        - assert (b :: r <> []) by discriminate. specialize (Hs H). cbn [length] in *. lia. }
      split; [intros n Hn; congruence|]. split; [left; exact Hol|]. split; [exact Ii|exact Ires].
  - (* SeRecvLen *)
    destruct (ss_result st) eqn:Eres; [discriminate|].
    destruct (ss_lenchan st) as [n|] eqn:Elc; [|discriminate].
    inversion Hs; subst st' o; clear Hs. rewrite app_nil_r.
    destruct (Ilc n eq_refl) as (Hn & Hp & Hr).
    unfold send_inv; sproj.
    split; [first [exact Im|reflexivity]|]. split; [exact Il|]. split; [exact Ie|]. split; [intros H; congruence|].
    split; [intros n' Hn'; discriminate|]. split; [right; auto|]. split; [exact Ii|].
    destruct (N.eqb_spec n (ss_inlen st)); [|discriminate]. intros _. split; [assumption|].
    rewrite Hn. apply nlen_bs_pos.
  - (* SeRecvErr *)
    destruct (ss_result st) eqn:Eres; [discriminate|].
    destruct (ss_errchan st) as [r|] eqn:Eec; [|discriminate].
    inversion Hs; subst st' o; clear Hs. rewrite app_nil_r.
    unfold send_inv; sproj. rewrite Eec.
    split; [first [exact Im|reflexivity]|]. split; [exact Il|]. split; [exact Ie|]. split; [exact Ir|].
    split; [exact Ilc|]. split; [exact Io|]. split; [exact Ii|]. intros H. inversion H; subst r. congruence.
  - (* SeAck *)
    destruct (ss_result st) eqn:Eres; [discriminate|].
    inversion Hs; subst st' o; clear Hs. rewrite app_nil_r.
    cbn [honest_event] in Hh. apply existsb_exists in Hh. destruct Hh as (n' & Hin & Heq).
    apply N.eqb_eq in Heq. subst n'.
    unfold send_inv; sproj.
    split; [first [exact Im|reflexivity]|]. split; [exact Il|]. split; [exact Ie|]. split; [exact Ir|].
    split; [exact Ilc|]. split; [exact Io|]. split; [right; exact Hin|].
    destruct (N.eqb_spec (ss_outlen st) n); [|discriminate]. intros _. split; [assumption|].
    destruct (tcpcl_ack_lens bs m tid Hne Hm) as (Hpos & _). specialize (Hpos n Hin). lia.
  - (* SeRefuse *)
    destruct (ss_result st) eqn:Eres; [discriminate|].
    inversion Hs; subst st' o; clear Hs. rewrite app_nil_r. unfold send_inv; sproj.
    split; [first [exact Im|reflexivity]|]. split; [exact Il|]. split; [exact Ie|]. split; [exact Ir|].
    split; [exact Ilc|]. split; [exact Io|]. split; [exact Ii|discriminate].
  - (* SeTimeout *)
    destruct (ss_result st) eqn:Eres; [discriminate|].
    inversion Hs; subst st' o; clear Hs. rewrite app_nil_r. unfold send_inv; sproj.
    split; [first [exact Im|reflexivity]|]. split; [exact Il|]. split; [exact Ie|]. split; [exact Ir|].
    split; [exact Ilc|]. split; [exact Io|]. split; [exact Ii|discriminate].
  - (* SeClose *)
    inversion Hs; subst st' o; clear Hs. rewrite app_nil_r. unfold send_inv; sproj.
    split; [first [exact Im|reflexivity]|]. split; [exact Il|]. split; [exact Ie|]. split; [exact Ir|].
    split; [exact Ilc|]. split; [exact Io|]. split; [exact Ii|exact Ires].
Qed.

Lemma send_run_inv : forall evs pre st st' outs,
  send_inv pre st -> send_run st evs = Some (st', outs) ->
  forallb (honest_event tss) evs = true -> send_inv (pre ++ outs) st'.
Proof.
  induction evs as [|e evs IH]; intros pre st st' outs Hinv Hrun Hh; cbn [send_run] in Hrun.
  - inversion Hrun; subst. rewrite app_nil_r. exact Hinv.
  - cbn [forallb] in Hh. apply andb_prop in Hh. destruct Hh as [He Hh].
    destruct (send_step st e) as [[st1 o]|] eqn:Es; [|discriminate].
    destruct (send_run st1 evs) as [[st2 o2]|] eqn:Er; [|discriminate].
    inversion Hrun; subst st' outs. rewrite app_assoc.
    apply (IH (pre ++ o) st1 st2 o2); [|exact Er|exact Hh].
    apply (send_step_inv pre st e st1 o); assumption.
Qed.
End SendInv.

(* C11_success_sound *)
Lemma tcpcl_success_sound : forall bs m tid evs st outs,
  bs <> [] -> 1 <= m ->
  send_run (send_init bs m tid) evs = Some (st, outs) ->
  forallb (honest_event (segments bs m tid)) evs = true ->
  ss_result st = Some SrOk ->
  ss_inlen st = nlen bs
  /\ outs = segments bs m tid
  /\ (exists k, nth_error (rx_ack_lens (segments bs m tid)) k = Some (ss_inlen st)
                /\ S k = length (segments bs m tid))
  /\ rx_delivered outs = [(tid, bs)].
Proof.
  intros bs m tid evs st outs Hne Hm Hrun Hh Hok.
  pose proof (send_run_inv bs m tid Hne Hm evs [] _ _ _ (send_inv_init bs m tid) Hrun Hh) as Hinv.
  cbn [app] in Hinv. destruct Hinv as (_ & _ & _ & _ & _ & Io & Ii & Ires).
  destruct (Ires Hok) as (Heq & Hnz).
  destruct Io as [Ho|(Ho & Hp & _)]; [congruence|].
  unfold tss in *.
  assert (Hin : ss_inlen st = nlen bs) by congruence.
  split; [exact Hin|]. split; [exact Hp|]. split.
  - destruct Ii as [Hz|Hi]; [congruence|].
    apply In_nth_error in Hi. destruct Hi as (k & Hk). exists k. split; [exact Hk|].
    destruct (tcpcl_ack_lens bs m tid Hne Hm) as (_ & Hlast). apply Hlast. rewrite Hk, Hin. reflexivity.
  - rewrite Hp. apply tcpcl_single_delivery; assumption.
Qed.

(* failures are reported as errors *)
Lemma send_step_sticky : forall st e st' o r,
  ss_result st = Some r -> send_step st e = Some (st', o) -> ss_result st' = Some r.
Proof.
  intros st e st' o r Hr Hs. destruct e; cbn [send_step] in Hs; try (rewrite Hr in Hs; discriminate).
  - destruct (negb (ss_running st)); [discriminate|].
    destruct (ss_stop st); [inversion Hs; subst; sproj; exact Hr|].
    destruct (ss_tmstop st); [inversion Hs; subst; sproj; exact Hr|].
    destruct (next_segment (ss_m st) (ss_out st)); inversion Hs; subst; sproj; exact Hr.
  - inversion Hs; subst; sproj; exact Hr.
Qed.

Lemma send_run_sticky : forall evs st st' o r,
  ss_result st = Some r -> send_run st evs = Some (st', o) -> ss_result st' = Some r.
Proof.
  induction evs as [|e evs IH]; intros st st' o r Hr Hrun; cbn [send_run] in Hrun.
  - inversion Hrun; subst. exact Hr.
  - destruct (send_step st e) as [[st1 o1]|] eqn:Es; [|discriminate].
    destruct (send_run st1 evs) as [[st2 o2]|] eqn:Er; [|discriminate].
    assert (Hst : st2 = st') by (inversion Hrun; reflexivity). subst st'.
    apply (IH st1 st2 o2 r); [|exact Er]. apply (send_step_sticky st e st1 o1); assumption.
Qed.

Definition err_inv (st : send_state) : Prop := ss_errchan st <> Some SrOk.

Lemma send_step_err_inv : forall st e st' o, err_inv st -> send_step st e = Some (st', o) -> err_inv st'.
Proof.
  unfold err_inv. intros st e st' o Hi Hs. destruct e; cbn [send_step] in Hs.
  - destruct (negb (ss_running st)); [discriminate|].
    destruct (ss_stop st); [inversion Hs; subst; sproj; exact Hi|].
    destruct (ss_tmstop st); [inversion Hs; subst; sproj; discriminate|].
    destruct (next_segment (ss_m st) (ss_out st)); inversion Hs; subst; sproj; try exact Hi; discriminate.
  - destruct (ss_result st); [discriminate|]. destruct (ss_lenchan st); inversion Hs; subst; sproj; exact Hi.
  - destruct (ss_result st); [discriminate|]. remember (ss_errchan st) as ec eqn:Eec.
    destruct ec; inversion Hs; subst; sproj; rewrite <- Eec; exact Hi.
  - destruct (ss_result st); inversion Hs; subst; sproj; exact Hi.
  - destruct (ss_result st); inversion Hs; subst; sproj; exact Hi.
  - destruct (ss_result st); inversion Hs; subst; sproj; exact Hi.
  - inversion Hs; subst; sproj; exact Hi.
Qed.

Lemma send_run_failure : forall evs st st' o,
  err_inv st -> send_run st evs = Some (st', o) ->
  (In SeRefuse evs -> ss_result st' = Some SrRefused)
  /\ (In SeTimeout evs -> ss_result st' = Some SrTimeout)
  /\ (In SeRecvErr evs -> exists r, ss_result st' = Some r /\ r <> SrOk).
Proof.
  induction evs as [|e evs IH]; intros st st' o Hi Hrun; cbn [send_run] in Hrun.
  - cbn [In]. tauto.
  - destruct (send_step st e) as [[st1 o1]|] eqn:Es; [|discriminate].
    destruct (send_run st1 evs) as [[st2 o2]|] eqn:Er; [|discriminate].
    pose proof (send_step_err_inv _ _ _ _ Hi Es) as Hi1.
    destruct (IH st1 st2 o2 Hi1 Er) as (IH1 & IH2 & IH3).
    assert (Hst : st2 = st') by (inversion Hrun; reflexivity). subst st'. clear Hrun.
    split; [|split]; intros [He|Hin]; auto; subst e; cbn [send_step] in Es.
    + destruct (ss_result st); [discriminate|]. inversion Es; subst st1 o1.
      eapply send_run_sticky; [|exact Er]; reflexivity.
    + destruct (ss_result st); [discriminate|]. inversion Es; subst st1 o1.
      eapply send_run_sticky; [|exact Er]; reflexivity.
    + destruct (ss_result st); [discriminate|]. destruct (ss_errchan st) as [r|] eqn:Eec; [|discriminate].
      inversion Es; subst st1 o1. exists r. split; [|intro; subst r; apply Hi; exact Eec].
      eapply send_run_sticky; [|exact Er]; reflexivity.
Qed.

Lemma tcpcl_failure_reported : forall bs m tid evs st outs,
  send_run (send_init bs m tid) evs = Some (st, outs) ->
  (In SeRefuse evs -> ss_result st = Some SrRefused)
  /\ (In SeTimeout evs -> ss_result st = Some SrTimeout)
  /\ (In SeRecvErr evs -> exists r, ss_result st = Some r /\ r <> SrOk)
  /\ (* Send cannot block for ever: while it has not returned, the timer is armed *)
     (ss_result st = None -> exists st', send_step st SeTimeout = Some (st', []) /\ ss_result st' = Some SrTimeout).
Proof.
  intros bs m tid evs st outs Hrun.
  assert (Hi : err_inv (send_init bs m tid)) by (unfold err_inv, send_init; sproj; discriminate).
  destruct (send_run_failure evs _ _ _ Hi Hrun) as (H1 & H2 & H3).
  split; [exact H1|]. split; [exact H2|]. split; [exact H3|].
  intros Hn. cbn [send_step]. rewrite Hn. eexists. split; [reflexivity|]. sproj. reflexivity.
Qed.

(* session loss: once the TransferManager is closed, a still running emitter reports it *)
Lemma tcpcl_close_stops : forall st st' o,
  ss_running st = true -> ss_stop st = false -> ss_tmstop st = true ->
  send_step st SeStep = Some (st', o) -> o = [] /\ ss_errchan st' = Some SrStopped /\ ss_running st' = false.
Proof.
  intros st st' o Hr Hs Ht H. cbn [send_step] in H. rewrite Hr, Hs, Ht in H. cbn [negb] in H.
  inversion H; subst. sproj. auto.
Qed.

(* non-vacuity: a complete successful run, a refused one, and the acknowledgement-of-zero hole
   of a peer that is not an honest receiver (outside the property: excluded by [honest_event]) *)
Example tcpcl_send_ok_example :
  let evs := [SeStep; SeAck 2; SeStep; SeAck 4; SeStep; SeRecvLen] in
  forallb (honest_event (segments [1; 2; 3; 4] 2 0)) evs = true
  /\ option_map (fun r => (ss_result (fst r), snd r)) (send_run (send_init [1; 2; 3; 4] 2 0) evs)
     = Some (Some SrOk, [mkSeg 2 0 [1; 2]; mkSeg 1 0 [3; 4]]).
Proof. vm_compute. split; reflexivity. Qed.
Example tcpcl_send_refused_example :
  option_map (fun r => ss_result (fst r)) (send_run (send_init [1; 2; 3; 4] 2 0) [SeStep; SeRefuse; SeStep])
  = Some (Some SrRefused).
Proof. vm_compute. reflexivity. Qed.
Example tcpcl_send_ack_zero_hole :
  honest_event (segments [1; 2; 3; 4] 2 0) (SeAck 0) = false
  /\ option_map (fun r => ss_result (fst r)) (send_run (send_init [1; 2; 3; 4] 2 0) [SeStep; SeAck 0])
     = Some (Some SrOk).
Proof. vm_compute. split; reflexivity. Qed.

(* ------------------------------------------------------------------------------------------ *)
(* session level: the Client sends with the peer's Segment MRU, transfer ids are pairwise
   distinct, the peer can tell the transfers of a session apart, one report per bundle *)

Lemma tcc_alloc_n_length : forall n next, length (tcc_alloc_n next n) = n.
Proof. induction n as [|n IH]; intros next; cbn [tcc_alloc_n length]; [reflexivity|]. rewrite IH. reflexivity. Qed.

Lemma tcc_alloc_n_ge : forall n next x, In x (tcc_alloc_n next n) -> next <= x.
Proof.
  induction n as [|n IH]; intros next x; cbn [tcc_alloc_n tcc_alloc fst snd In]; [intros []|].
  intros [<-|Hin]; [lia|]. specialize (IH _ _ Hin). lia.
Qed.

(* any number of Send calls on one session get pairwise distinct transfer ids *)
Lemma tcc_alloc_n_nodup : forall n next, NoDup (tcc_alloc_n next n).
Proof.
  induction n as [|n IH]; intros next; cbn [tcc_alloc_n tcc_alloc fst snd]; constructor; [|apply IH].
  intro Hin. apply tcc_alloc_n_ge in Hin. lia.
Qed.

Lemma tc_bytes_eqb_refl : forall l, bytes_eqb l l = true.
Proof. unfold bytes_eqb. induction l as [|x l IH]; cbn [list_eqb]; [reflexivity|]. rewrite N.eqb_refl, IH. reflexivity. Qed.

(* the executable checker accepts the model's segment sequence *)
Lemma chk_segments_complete : forall bs m tid,
  bs <> [] -> 1 <= m -> chk_segments bs m tid (segments bs m tid) = true.
Proof.
  intros bs m tid Hne Hm. destruct (tcpcl_segments bs m tid Hne Hm) as (Hall & Hc & Hs & He).
  rewrite Forall_forall in Hall.
  assert (A1 : chk_sizes m (segments bs m tid) = true).
  { unfold chk_sizes. apply forallb_forall. intros s Hin. destruct (Hall s Hin) as (_ & H1 & H2).
    apply andb_true_intro. split; apply N.leb_le; lia. }
  assert (A2 : chk_concat bs (segments bs m tid) = true).
  { unfold chk_concat. rewrite Hc. apply tc_bytes_eqb_refl. }
  assert (A3 : chk_tid tid (segments bs m tid) = true).
  { unfold chk_tid. apply forallb_forall. intros s Hin. destruct (Hall s Hin) as (Ht & _). apply N.eqb_eq. exact Ht. }
  assert (A4 : chk_start (segments bs m tid) = true).
  { destruct Hs as (s0 & r & -> & H1 & H2). unfold chk_start. rewrite H1. cbn [andb].
    apply forallb_forall. intros s Hin. rewrite Forall_forall in H2. rewrite (H2 s Hin). reflexivity. }
  assert (A5 : chk_end (segments bs m tid) = true).
  { unfold chk_end. apply andb_true_intro. split.
    - destruct He as (f & sl & -> & H1 & _). unfold last_sat. rewrite rev_app_distr. cbn [rev app]. exact H1.
    - exact (all_but_last_of_end_only_last _ He). }
  unfold chk_segments. rewrite A1, A2, A3, A4, A5. reflexivity.
Qed.

Definition tcc_xfer (m : N) (p : N * list N) : xfer := mkX (fst p) m (snd p).

Lemma tcc_session_xfers_tids : forall next bss,
  map fst (tcc_session_xfers next bss) = tcc_alloc_n next (length bss).
Proof.
  intros next bss. unfold tcc_session_xfers.
  assert (H : forall (l1 : list N) (l2 : list (list N)), length l1 = length l2 -> map fst (combine l1 l2) = l1).
  { induction l1 as [|a l1 IH]; intros [|b l2] Hl; cbn in *; try reflexivity; try discriminate.
    f_equal. apply IH. congruence. }
  apply H. apply tcc_alloc_n_length.
Qed.

Lemma tcc_session_xfers_bs : forall next bss p, In p (tcc_session_xfers next bss) -> In (snd p) bss.
Proof. intros next bss [t b] Hin. unfold tcc_session_xfers in Hin. apply in_combine_r in Hin. exact Hin. Qed.

(* C11, sender side of a session: the Client of a node that announced [own] sends the bundles
   [bss] (k Send calls in any interleaving) to a peer that announced Segment MRU [peer] >= 1:
   whatever interleaving [tr] of the transfers' segments the peer receives, for every transfer
   the segments carrying its id are at most [peer] bytes long, concatenate to the bundle's
   encoding, carry START on exactly the first and END on exactly the last, and every segment
   belongs to one of the transfers. *)
Lemma tcc_session_sender : forall own peer next bss tr,
  1 <= peer -> Forall (fun bs => bs <> []) bss ->
  MergeAll (tcc_session_segs own peer next bss) tr ->
  tcc_chk_trace peer (tcc_session_xfers next bss) tr = true.
Proof.
  intros own peer next bss tr Hp Hne Hm.
  set (ps := tcc_session_xfers next bss) in *.
  set (xs := map (tcc_xfer peer) ps).
  assert (Hsegs : map xfer_segs xs = tcc_session_segs own peer next bss).
  { unfold xs, tcc_session_segs. fold ps. rewrite map_map. reflexivity. }
  assert (Hnd : NoDup (map x_tid xs)).
  { unfold xs. rewrite map_map. cbn [tcc_xfer x_tid]. change (map (fun x => fst x) ps) with (map fst ps).
    unfold ps. rewrite tcc_session_xfers_tids. apply tcc_alloc_n_nodup. }
  assert (Hok : Forall xfer_ok xs).
  { unfold xs. apply Forall_forall. intros x Hx. apply in_map_iff in Hx. destruct Hx as (p & <- & Hp').
    split; cbn [tcc_xfer x_bs x_m]; [|exact Hp].
    rewrite Forall_forall in Hne. apply Hne. apply (tcc_session_xfers_bs next bss). exact Hp'. }
  rewrite <- Hsegs in Hm.
  unfold tcc_chk_trace. apply andb_true_intro. split.
  - apply forallb_forall. intros p Hp'.
    assert (Hx : In (tcc_xfer peer p) xs) by (unfold xs; apply in_map; exact Hp').
    pose proof (mergeall_filter xs tr Hnd Hok Hm _ Hx) as Hf.
    change (tcc_for_tid (fst p) tr) with (filter (for_tid (x_tid (tcc_xfer peer p))) tr). rewrite Hf.
    unfold xfer_segs. cbn [tcc_xfer x_bs x_m x_tid].
    rewrite Forall_forall in Hok. destruct (Hok _ Hx) as [Hb _]. apply chk_segments_complete; assumption.
  - apply forallb_forall. intros s Hs. apply existsb_exists.
    destruct (mergeall_in _ _ _ s Hm Hs) as (l & Hl & Hsl). apply in_map_iff in Hl. destruct Hl as (x & <- & Hx).
    unfold xs in Hx. apply in_map_iff in Hx. destruct Hx as (p & <- & Hp').
    exists p. split; [exact Hp'|]. apply N.eqb_eq. symmetry.
    assert (Hx : In (tcc_xfer peer p) xs) by (unfold xs; apply in_map; exact Hp').
    rewrite Forall_forall in Hok. apply (xfer_segs_tid (tcc_xfer peer p) s (Hok _ Hx) Hsl).
Qed.

Lemma tcc_session_sender_full : forall own peer next bss tr,
  1 <= peer -> Forall (fun bs => bs <> []) bss ->
  MergeAll (tcc_session_segs own peer next bss) tr ->
  NoDup (tcc_alloc_n next (length bss))
  /\ tcc_chk_trace peer (tcc_session_xfers next bss) tr = true.
Proof.
  intros own peer next bss tr Hp Hne Hm.
  exact (conj (tcc_alloc_n_nodup (length bss) next) (tcc_session_sender own peer next bss tr Hp Hne Hm)).
Qed.

(* the number of bundles handed up is the number of END segments *)
Lemma rx_run_count : forall ss st, length (snd (rx_run st ss)) = length (filter sg_has_end ss).
Proof.
  induction ss as [|s ss IH]; intros st; [reflexivity|].
  cbn [rx_run filter]. unfold rx_step. destruct (sg_has_end s).
  - destruct (rx_run (rx_del st (sg_tid s)) ss) as [[st'' acks] ds] eqn:Er. cbn [snd length].
    specialize (IH (rx_del st (sg_tid s))). rewrite Er in IH. cbn [snd] in IH. rewrite IH. reflexivity.
  - destruct (rx_run (rx_set st (sg_tid s) (rx_lookup st (sg_tid s) ++ sg_data s)) ss) as [[st'' acks] ds] eqn:Er.
    cbn [snd]. specialize (IH (rx_set st (sg_tid s) (rx_lookup st (sg_tid s) ++ sg_data s))). rewrite Er in IH. exact IH.
Qed.

Lemma merge_length : forall A (l1 l2 l : list A), Merge l1 l2 l -> length l = (length l1 + length l2)%nat.
Proof. intros A l1 l2 l H. induction H; cbn [length]; lia. Qed.

Lemma mergeall_filter_length : forall A (p : A -> bool) ls tr,
  MergeAll ls tr -> length (filter p tr) = list_sum (map (fun l => length (filter p l)) ls).
Proof.
  intros A p ls tr H. induction H; [reflexivity|].
  cbn [map list_sum]. rewrite (merge_length _ _ _ _ (merge_filter _ p _ _ _ H0)). rewrite IHMergeAll. reflexivity.
Qed.

Lemma xfer_segs_one_end : forall x, xfer_ok x -> length (filter sg_has_end (xfer_segs x)) = 1%nat.
Proof.
  intros x [Hne Hm]. destruct (tcpcl_segments (x_bs x) (x_m x) (x_tid x) Hne Hm) as (_ & _ & _ & He).
  destruct He as (f & sl & Heq & H1 & H2). unfold xfer_segs. rewrite Heq. rewrite filter_app.
  rewrite (filter_all_false _ _ f).
  2:{ intros s Hs. rewrite Forall_forall in H2. apply H2. exact Hs. }
  cbn [filter app]. rewrite H1. reflexivity.
Qed.

(* C11, receiver side of a session (Client.handle on top of TransferManager.handle): for any
   interleaving of transfers with pairwise distinct ids the Client issues exactly as many reports
   as there are transfers, every bundle sent is reported and nothing else is. *)
Lemma tcc_reports_exact : forall xs tr,
  NoDup (map x_tid xs) -> Forall xfer_ok xs -> MergeAll (map xfer_segs xs) tr ->
  length (tcc_reports tr) = length xs
  /\ (forall x, In x xs -> In (x_bs x) (tcc_reports tr))
  /\ (forall b, In b (tcc_reports tr) -> exists x, In x xs /\ b = x_bs x).
Proof.
  intros xs tr Hnd Hok Hm. destruct (tcpcl_receiver xs tr Hnd Hok Hm) as [H1 H2].
  split; [|split].
  - unfold tcc_reports. rewrite map_length. unfold rx_delivered. rewrite rx_run_count.
    rewrite (mergeall_filter_length _ sg_has_end _ _ Hm). rewrite map_map.
    clear - Hok. induction xs as [|x xs IH]; [reflexivity|].
    inversion Hok as [|? ? Hx Hok']; subst.
    specialize (IH Hok'). unfold list_sum in *. cbn [map fold_right]. rewrite (xfer_segs_one_end x Hx).
    rewrite IH. reflexivity.
  - intros x Hx. unfold tcc_reports. change (x_bs x) with (snd (x_tid x, x_bs x)). apply in_map.
    assert (Hin : In (x_tid x, x_bs x) (filter (dl_tid (x_tid x)) (rx_delivered tr))) by (rewrite (H1 x Hx); left; reflexivity).
    apply filter_In in Hin. apply Hin.
  - intros b Hb. unfold tcc_reports in Hb. apply in_map_iff in Hb. destruct Hb as (d & <- & Hd).
    destruct (H2 d Hd) as (x & Hx & ->). exists x. split; [exact Hx|reflexivity].
Qed.

Example tcc_session_example :
  tcc_alloc_n 0 3 = [0; 1; 2]
  /\ tcc_chk_trace 2 (tcc_session_xfers 0 [[1; 2; 3]; [9; 8]])
       [mkSeg 2 0 [1; 2]; mkSeg 3 1 [9; 8]; mkSeg 1 0 [3]] = true
  /\ tcc_chk_trace 2 (tcc_session_xfers 0 [[1; 2; 3]; [9; 8]])
       [mkSeg 3 0 [1; 2; 3]; mkSeg 3 1 [9; 8]] = false
  /\ tcc_chk_trace 2 [(0, [1; 2; 3]); (0, [9; 8])] [mkSeg 3 0 [1; 2; 3]; mkSeg 3 0 [9; 8]] = false
  /\ tcc_reports [mkSeg 2 0 [1; 2]; mkSeg 3 1 [9; 8]; mkSeg 1 0 [3]] = [[9; 8]; [1; 2; 3]].
Proof. vm_compute. repeat split; reflexivity. Qed.
