(* ConstsOkFrag.v - the constants and operator shapes regenerated from the Go source (gen/Consts.v)
   coincide with the ones the fragmentation model is written against (Model/SpecFrag.v, Bundle.v). *)
From Coq Require Import ZArith NArith List.
Import ListNotations.
From DTN Require Import Consts Base Bundle SpecFrag Frag.
Open Scope Z_scope.

Lemma frag_flags_ok :
  pkg_bpv7__MustNotFragmented = Z.of_N F_NOFRAG /\ pkg_bpv7__IsFragment = Z.of_N F_FRAG
  /\ pkg_bpv7__ReplicateBlock = Z.of_N BF_REPLICATE /\ pkg_bpv7__ExtBlockTypePayloadBlock = Z.of_N T_PAYLOAD.
Proof. repeat split; reflexivity. Qed.

Lemma frag_est_crc_ok : pkg_bpv7__CRC32 = frag_est_crc_type /\ forall c, Z.of_N (c_crc (fg_est_block c)) = frag_est_crc_type.
Proof. split; [reflexivity|intros c; reflexivity]. Qed.

Lemma frag_fragment_ok :
  pkg_bpv7__Bundle_Fragment__ops = frag_fragment_ops /\ pkg_bpv7__Bundle_Fragment__lits = frag_fragment_lits.
Proof. split; reflexivity. Qed.

Lemma frag_extlen_ok :
  pkg_bpv7__fragmentExtensionBlocksLen__ops = frag_extlen_ops
  /\ pkg_bpv7__fragmentExtensionBlocksLen__lits = frag_extlen_lits.
Proof. split; reflexivity. Qed.

Lemma frag_reassemble_ok :
  pkg_bpv7__ReassembleFragments__ops = frag_reassemble_ops
  /\ pkg_bpv7__ReassembleFragments__lits = frag_reassemble_lits.
Proof. split; reflexivity. Qed.
