(* SprayProofs.v - invariants and theorems about Model/Spray.v (C18). *)
From Coq Require Import NArith List Bool Lia Permutation.
From Coq Require Import ZifyN ZifyNat ZifyBool.
From DTN Require Import Base SpecSpray Spray.
Import ListNotations.
Open Scope N_scope.

(* ------------------------------------------------------------------------------------------ *)
(* small facts *)

Lemma mem_n_In : forall x l, mem_n x l = true <-> In x l.
Proof.
  intros x l. unfold mem_n. rewrite existsb_exists. split.
  - intros [y [Hy He]]. apply N.eqb_eq in He. subst. exact Hy.
  - intros H. exists x. split; [exact H | apply N.eqb_refl].
Qed.

Lemma mem_n_false : forall x l, mem_n x l = false <-> ~ In x l.
Proof.
  intros x l. rewrite <- mem_n_In.
  destruct (mem_n x l); split; intro H;
    [discriminate | exfalso; apply H; reflexivity | intro H'; discriminate | reflexivity].
Qed.

Lemma nodup_n_NoDup : forall l, nodup_n l = true -> NoDup l.
Proof.
  induction l as [|x t IH]; intro H; [constructor|].
  cbn [nodup_n] in H. apply andb_true_iff in H. destruct H as [H1 H2].
  constructor; [|auto]. apply negb_true_iff in H1. apply mem_n_false in H1. exact H1.
Qed.

Lemma nlen_app : forall A (l1 l2 : list A), nlen (l1 ++ l2) = nlen l1 + nlen l2.
Proof. intros. unfold nlen. rewrite app_length. lia. Qed.

Lemma nlen_cons : forall A (x : A) l, nlen (x :: l) = 1 + nlen l.
Proof. intros. unfold nlen. cbn [length]. lia. Qed.

Lemma nlen_map : forall A B (f : A -> B) l, nlen (map f l) = nlen l.
Proof. intros. unfold nlen. rewrite map_length. reflexivity. Qed.

Lemma nlen_nil : forall A, nlen (@nil A) = 0.
Proof. reflexivity. Qed.

Lemma NoDup_app_intro : forall (l1 l2 : list N),
  NoDup l1 -> NoDup l2 -> (forall x, In x l1 -> In x l2 -> False) -> NoDup (l1 ++ l2).
Proof.
  induction l1 as [|a t IH]; intros l2 H1 H2 Hd; [exact H2|].
  inversion H1 as [|? ? Ha Ht]; subst. cbn [app]. constructor.
  - intro Hi. apply in_app_or in Hi. destruct Hi as [Hi|Hi]; [contradiction|].
    apply (Hd a); [left; reflexivity | exact Hi].
  - apply IH; try assumption. intros x Hx Hx'. apply (Hd x); [right; exact Hx | exact Hx'].
Qed.

Lemma remove_first_notin : forall x l, ~ In x l -> remove_first x l = l.
Proof.
  induction l as [|y t IH]; intro H; [reflexivity|].
  cbn [remove_first]. destruct (N.eqb_spec x y) as [->|Hn].
  - exfalso. apply H. left. reflexivity.
  - f_equal. apply IH. intro Hi. apply H. right. exact Hi.
Qed.

Lemma remove_first_In : forall x y l, In y (remove_first x l) -> In y l.
Proof.
  induction l as [|z t IH]; intro H; [exact H|].
  cbn [remove_first] in H. destruct (x =? z); [right; exact H|].
  destruct H as [->|H]; [left; reflexivity | right; auto].
Qed.

Lemma remove_first_NoDup_In : forall x y l, NoDup l -> (In y (remove_first x l) <-> In y l /\ y <> x).
Proof.
  induction l as [|z t IH]; intro Hnd.
  - cbn. tauto.
  - inversion Hnd as [|? ? Hz Ht]; subst. cbn [remove_first].
    destruct (N.eqb_spec x z) as [->|Hn].
    + split.
      * intro H. split; [right; exact H|]. intro He. subst. contradiction.
      * intros [[He|H] Hne]; [congruence | exact H].
    + cbn [In]. rewrite (IH Ht). split.
      * intros [He|[H Hne]]; [subst; split; [left; reflexivity | congruence] | split; [right; exact H | exact Hne]].
      * intros [[He|H] Hne]; [left; exact He | right; split; assumption].
Qed.

Lemma remove_first_NoDup : forall x l, NoDup l -> NoDup (remove_first x l).
Proof.
  induction l as [|z t IH]; intro Hnd; [constructor|].
  inversion Hnd as [|? ? Hz Ht]; subst. cbn [remove_first].
  destruct (x =? z); [exact Ht|]. constructor; [|auto].
  intro H. apply Hz. eapply remove_first_In. exact H.
Qed.

Lemma remove_first_length : forall x l, In x l -> nlen (remove_first x l) + 1 = nlen l.
Proof.
  induction l as [|z t IH]; intro H; [destruct H|].
  cbn [remove_first]. destruct (N.eqb_spec x z) as [->|Hn].
  - rewrite nlen_cons. lia.
  - destruct H as [He|H]; [congruence|]. rewrite !nlen_cons. specialize (IH H). lia.
Qed.

Lemma remove_first_app_last : forall x l, ~ In x l -> remove_first x (l ++ [x]) = l.
Proof.
  induction l as [|z t IH]; intro H.
  - cbn. rewrite N.eqb_refl. reflexivity.
  - cbn [app remove_first]. destruct (N.eqb_spec x z) as [->|Hn].
    + exfalso. apply H. left. reflexivity.
    + f_equal. apply IH. intro Hi. apply H. right. exact Hi.
Qed.

Lemma remove_first_comm : forall x y l, remove_first x (remove_first y l) = remove_first y (remove_first x l).
Proof.
  induction l as [|z t IH]; [reflexivity|].
  cbn [remove_first]. destruct (N.eqb_spec y z) as [Hy|Hy]; destruct (N.eqb_spec x z) as [Hx|Hx]; subst.
  - reflexivity.
  - cbn [remove_first]. rewrite N.eqb_refl. destruct (N.eqb_spec x z); [congruence | reflexivity].
  - cbn [remove_first]. rewrite N.eqb_refl. destruct (N.eqb_spec y z); [congruence | reflexivity].
  - cbn [remove_first]. destruct (N.eqb_spec x z); [congruence|]. destruct (N.eqb_spec y z); [congruence|].
    f_equal. exact IH.
Qed.

(* ------------------------------------------------------------------------------------------ *)
(* ReportFailure *)

Lemma rf_write_notin : forall g x m, ~ In x (sm_sent m) -> spray_rf_write g x m = m.
Proof.
  intros g x m H. unfold spray_rf_write. apply mem_n_false in H. rewrite H. reflexivity.
Qed.

Lemma rf_write_in : forall g x m, In x (sm_sent m) ->
  spray_rf_write g x m = {| sm_rem := sm_rem m + g; sm_sent := remove_first x (sm_sent m) |}.
Proof.
  intros g x m H. unfold spray_rf_write. apply mem_n_In in H. rewrite H. reflexivity.
Qed.

(* a failed transmission gives back exactly what the selection took *)
Lemma rf_write_undoes_selection : forall g x r sent, ~ In x sent -> g <= r ->
  spray_rf_write g x {| sm_rem := r - g; sm_sent := sent ++ [x] |} = {| sm_rem := r; sm_sent := sent |}.
Proof.
  intros g x r sent Hn Hg. rewrite rf_write_in.
  - cbn [sm_rem sm_sent]. rewrite remove_first_app_last by exact Hn. f_equal. lia.
  - cbn [sm_sent]. apply in_or_app. right. left. reflexivity.
Qed.

(* two reports commute (both orders give the same metadata) *)
Lemma rf_write_comm : forall g1 g2 x y m, NoDup (sm_sent m) -> (x <> y \/ g1 = g2) ->
  spray_rf_write g1 x (spray_rf_write g2 y m) = spray_rf_write g2 y (spray_rf_write g1 x m).
Proof.
  intros g1 g2 x y m Hnd Hxy. unfold spray_rf_write.
  destruct (mem_n y (sm_sent m)) eqn:Hy; destruct (mem_n x (sm_sent m)) eqn:Hx; cbn [sm_rem sm_sent].
  - destruct (N.eqb_spec x y) as [->|Hne].
    + (* same peer twice: after the first report it is no longer in sent *)
      assert (Hout : mem_n y (remove_first y (sm_sent m)) = false).
      { apply mem_n_false. intro Hi. apply (remove_first_NoDup_In y y _ Hnd) in Hi. destruct Hi as [_ Hi]. congruence. }
      rewrite Hout. destruct Hxy as [Hxy|Hxy]; [congruence | subst; reflexivity].
    + assert (Hx' : mem_n x (remove_first y (sm_sent m)) = true).
      { apply mem_n_In. apply (remove_first_NoDup_In y x _ Hnd). split; [apply mem_n_In; exact Hx | exact Hne]. }
      assert (Hy' : mem_n y (remove_first x (sm_sent m)) = true).
      { apply mem_n_In. apply (remove_first_NoDup_In x y _ Hnd). split; [apply mem_n_In; exact Hy | congruence]. }
      rewrite Hx', Hy'. cbn [sm_rem sm_sent]. f_equal; [lia | apply remove_first_comm].
  - assert (Hx' : mem_n x (remove_first y (sm_sent m)) = false).
    { apply mem_n_false. intro Hi. apply remove_first_In in Hi. apply mem_n_false in Hx. contradiction. }
    rewrite Hx'; try rewrite Hy; reflexivity.
  - assert (Hy' : mem_n y (remove_first x (sm_sent m)) = false).
    { apply mem_n_false. intro Hi. apply remove_first_In in Hi. apply mem_n_false in Hy. contradiction. }
    rewrite Hy'; try rewrite Hx; reflexivity.
  - try rewrite Hx; try rewrite Hy; reflexivity.
Qed.

Lemma report_failure_comm : forall a b1 b2 x y m, NoDup (sm_sent m) -> (x <> y \/ b1 = b2) ->
  spray_report_failure a b1 x (spray_report_failure a b2 y m)
  = spray_report_failure a b2 y (spray_report_failure a b1 x m).
Proof.
  intros a b1 b2 x y m Hnd Hxy. destruct a; cbn [spray_report_failure].
  - apply rf_write_comm; [exact Hnd | tauto].
  - destruct b1, b2; try reflexivity. apply rf_write_comm; [exact Hnd|].
    destruct Hxy as [Hxy|Hxy]; [left; exact Hxy | right; congruence].
Qed.

(* ------------------------------------------------------------------------------------------ *)
(* concurrent failure reports: with the lock every schedule is equivalent to a serial order *)

Section RfConcurrent.
  Variables fA fB : smeta -> smeta.

  Definition opt_ap (f : smeta -> smeta) (m : option smeta) : option smeta := option_map f m.

  (* reachable states of the locked system started from shared = m0 *)
  Inductive rf_reach (m0 : option smeta) : rf_sys -> Prop :=
  | RR_ii : rf_reach m0 {| rs_shared := m0; rs_lock := None; rs_pcA := RfIdle; rs_pcB := RfIdle |}
  (* A in its critical section, B idle *)
  | RR_Ai_l : rf_reach m0 {| rs_shared := m0; rs_lock := Some false; rs_pcA := RfLocked; rs_pcB := RfIdle |}
  | RR_Ai_r : rf_reach m0 {| rs_shared := m0; rs_lock := Some false; rs_pcA := RfRead m0; rs_pcB := RfIdle |}
  | RR_Ai_w : rf_reach m0 {| rs_shared := opt_ap fA m0; rs_lock := Some false; rs_pcA := RfWritten; rs_pcB := RfIdle |}
  | RR_di : rf_reach m0 {| rs_shared := opt_ap fA m0; rs_lock := None; rs_pcA := RfDone; rs_pcB := RfIdle |}
  (* B after A *)
  | RR_dB_l : rf_reach m0 {| rs_shared := opt_ap fA m0; rs_lock := Some true; rs_pcA := RfDone; rs_pcB := RfLocked |}
  | RR_dB_r : rf_reach m0 {| rs_shared := opt_ap fA m0; rs_lock := Some true; rs_pcA := RfDone; rs_pcB := RfRead (opt_ap fA m0) |}
  | RR_dB_w : rf_reach m0 {| rs_shared := opt_ap fB (opt_ap fA m0); rs_lock := Some true; rs_pcA := RfDone; rs_pcB := RfWritten |}
  | RR_dd_AB : rf_reach m0 {| rs_shared := opt_ap fB (opt_ap fA m0); rs_lock := None; rs_pcA := RfDone; rs_pcB := RfDone |}
  (* B in its critical section, A idle *)
  | RR_iB_l : rf_reach m0 {| rs_shared := m0; rs_lock := Some true; rs_pcA := RfIdle; rs_pcB := RfLocked |}
  | RR_iB_r : rf_reach m0 {| rs_shared := m0; rs_lock := Some true; rs_pcA := RfIdle; rs_pcB := RfRead m0 |}
  | RR_iB_w : rf_reach m0 {| rs_shared := opt_ap fB m0; rs_lock := Some true; rs_pcA := RfIdle; rs_pcB := RfWritten |}
  | RR_id : rf_reach m0 {| rs_shared := opt_ap fB m0; rs_lock := None; rs_pcA := RfIdle; rs_pcB := RfDone |}
  (* A after B *)
  | RR_Ad_l : rf_reach m0 {| rs_shared := opt_ap fB m0; rs_lock := Some false; rs_pcA := RfLocked; rs_pcB := RfDone |}
  | RR_Ad_r : rf_reach m0 {| rs_shared := opt_ap fB m0; rs_lock := Some false; rs_pcA := RfRead (opt_ap fB m0); rs_pcB := RfDone |}
  | RR_Ad_w : rf_reach m0 {| rs_shared := opt_ap fA (opt_ap fB m0); rs_lock := Some false; rs_pcA := RfWritten; rs_pcB := RfDone |}
  | RR_dd_BA : rf_reach m0 {| rs_shared := opt_ap fA (opt_ap fB m0); rs_lock := None; rs_pcA := RfDone; rs_pcB := RfDone |}.

  Lemma rf_reach_step : forall m0 s t, rf_reach m0 s -> rf_reach m0 (rf_step true fA fB s t).
  Proof.
    intros m0 s t H.
    destruct H; destruct t; destruct m0 as [m|];
      cbn [rf_step rf_pc_of rf_set_pc rf_set_lock rf_set_shared rs_pcA rs_pcB rs_lock rs_shared opt_ap option_map];
      try constructor;
      first [ exact (RR_Ai_w (Some m)) | exact (RR_dB_w (Some m)) | exact (RR_iB_w (Some m)) | exact (RR_Ad_w (Some m))
            | exact (RR_Ai_w None) | exact (RR_dB_w None) | exact (RR_iB_w None) | exact (RR_Ad_w None)
            | exact (RR_dB_r (Some m)) | exact (RR_Ad_r (Some m)) | exact (RR_dB_r None) | exact (RR_Ad_r None)
            | exact (RR_di (Some m)) | exact (RR_id (Some m)) | exact (RR_dd_AB (Some m)) | exact (RR_dd_BA (Some m))
            | exact (RR_di None) | exact (RR_id None) | exact (RR_dd_AB None) | exact (RR_dd_BA None)
            | exact (RR_dB_l (Some m)) | exact (RR_Ad_l (Some m)) | exact (RR_dB_l None) | exact (RR_Ad_l None)
            | idtac ].
  Qed.

  Lemma rf_reach_run : forall sched m0 s, rf_reach m0 s -> rf_reach m0 (rf_run true fA fB s sched).
  Proof.
    induction sched as [|t sched IH]; intros m0 s H; [exact H|].
    cbn [rf_run fold_left]. apply IH. apply rf_reach_step. exact H.
  Qed.

  Lemma rf_reach_finished : forall m0 s, rf_reach m0 s -> rf_finished s = true ->
    rs_shared s = opt_ap fB (opt_ap fA m0) \/ rs_shared s = opt_ap fA (opt_ap fB m0).
  Proof.
    intros m0 s H Hf. destruct H; cbn in Hf; try discriminate; [left | right]; reflexivity.
  Qed.

  (* serialisability: whatever the schedule, when both reports are through the shared metadata is the
     result of applying them one after the other (in one of the two orders), and the lock is free *)
  Lemma rf_locked_serialisable : forall m0 sched,
    let s := rf_run true fA fB (rf_init m0) sched in
    rf_finished s = true ->
    rs_shared s = opt_ap fB (opt_ap fA m0) \/ rs_shared s = opt_ap fA (opt_ap fB m0).
  Proof.
    intros m0 sched s Hf. apply rf_reach_finished; [|exact Hf].
    apply rf_reach_run. constructor.
  Qed.
End RfConcurrent.

(* with commuting reports there is exactly one outcome *)
Lemma rf_locked_deterministic : forall a b1 b2 x y m sched,
  NoDup (sm_sent m) -> (x <> y \/ b1 = b2) ->
  let fA := spray_report_failure a b1 x in
  let fB := spray_report_failure a b2 y in
  let s := rf_run true fA fB (rf_init (Some m)) sched in
  rf_finished s = true ->
  rs_shared s = Some (fB (fA m)) /\ rs_shared s = Some (fA (fB m)).
Proof.
  intros a b1 b2 x y m sched Hnd Hxy fA fB s Hf.
  assert (Hc : fA (fB m) = fB (fA m)) by (apply report_failure_comm; assumption).
  destruct (rf_locked_serialisable fA fB (Some m) sched Hf) as [H|H]; cbn [opt_ap option_map] in H;
    fold s in H; rewrite H; rewrite Hc; split; reflexivity.
Qed.

(* some schedule finishes (non-vacuity of the hypothesis [rf_finished]) *)
Lemma rf_locked_can_finish : forall fA fB m0,
  rf_finished (rf_run true fA fB (rf_init m0) [false; true; false; true; false; false; true; false; true; true; true; true]) = true.
Proof. intros fA fB [m|]; reflexivity. Qed.

(* ------------------------------------------------------------------------------------------ *)
(* folding the failure reports of one forwarding pass *)

Definition fail_nodes (ps : list speer) : list N := map sp_node (filter sp_fail ps).
Definition ok_nodes (ps : list speer) : list N := map sp_node (filter (fun p => negb (sp_fail p)) ps).

Lemma ok_fail_length : forall ps, nlen (ok_nodes ps) + nlen (fail_nodes ps) = nlen ps.
Proof.
  induction ps as [|p t IH]; [reflexivity|].
  unfold ok_nodes, fail_nodes in *. cbn [filter]. destruct (sp_fail p); cbn [negb map];
    rewrite !nlen_cons; lia.
Qed.

Lemma ok_nodes_incl : forall ps x, In x (ok_nodes ps) -> In x (map sp_node ps).
Proof.
  intros ps x H. unfold ok_nodes in H. apply in_map_iff in H. destruct H as [p [He Hp]].
  apply filter_In in Hp. apply in_map_iff. exists p. tauto.
Qed.

Lemma fail_nodes_incl : forall ps x, In x (fail_nodes ps) -> In x (map sp_node ps).
Proof.
  intros ps x H. unfold fail_nodes in H. apply in_map_iff in H. destruct H as [p [He Hp]].
  apply filter_In in Hp. apply in_map_iff. exists p. tauto.
Qed.

Lemma nodes_split : forall ps x, In x (map sp_node ps) -> In x (ok_nodes ps) \/ In x (fail_nodes ps).
Proof.
  intros ps x H. apply in_map_iff in H. destruct H as [p [He Hp]].
  destruct (sp_fail p) eqn:Hf; [right | left]; apply in_map_iff; exists p; split; try exact He;
    apply filter_In; split; try exact Hp; try exact Hf. rewrite Hf. reflexivity.
Qed.

Lemma ok_fail_disjoint : forall ps x, NoDup (map sp_node ps) -> In x (ok_nodes ps) -> In x (fail_nodes ps) -> False.
Proof.
  induction ps as [|p t IH]; intros x Hnd Ho Hf; [destruct Ho|].
  cbn [map] in Hnd. inversion Hnd as [|? ? Hp Ht]; subst.
  unfold ok_nodes, fail_nodes in *. cbn [filter] in *. destruct (sp_fail p); cbn [negb map In] in *.
  - destruct Hf as [He|Hf]; [|eauto]. subst. apply Hp. apply ok_nodes_incl. exact Ho.
  - destruct Ho as [He|Ho]; [|eauto]. subst. apply Hp. apply fail_nodes_incl. exact Hf.
Qed.

(* all failing peers of the list are in [sent] (they were just selected), distinct nodes *)
Lemma report_failures_spec : forall g ps m,
  NoDup (map sp_node ps) -> NoDup (sm_sent m) ->
  (forall x, In x (fail_nodes ps) -> In x (sm_sent m)) ->
  let m' := fold_left (fun m p => if sp_fail p then spray_rf_write g (sp_node p) m else m) ps m in
  sm_rem m' = sm_rem m + g * nlen (fail_nodes ps)
  /\ NoDup (sm_sent m')
  /\ (forall x, In x (sm_sent m') <-> In x (sm_sent m) /\ ~ In x (fail_nodes ps))
  /\ nlen (sm_sent m') + nlen (fail_nodes ps) = nlen (sm_sent m).
Proof.
  intros g ps. induction ps as [|p t IH]; intros m Hndp Hnd Hin m'.
  - subst m'. cbn. split; [lia|]. split; [assumption|]. split; [intro x; tauto|]. unfold nlen; cbn; lia.
  - cbn [map] in Hndp. inversion Hndp as [|? ? Hp Ht]; subst.
    subst m'. cbn [fold_left]. unfold fail_nodes in *. cbn [filter] in *.
    destruct (sp_fail p) eqn:Hf.
    + cbn [map] in *.
      assert (Hpin : In (sp_node p) (sm_sent m)) by (apply Hin; left; reflexivity).
      rewrite (rf_write_in g _ _ Hpin).
      set (m1 := {| sm_rem := sm_rem m + g; sm_sent := remove_first (sp_node p) (sm_sent m) |}).
      assert (Hnd1 : NoDup (sm_sent m1)) by (apply remove_first_NoDup; exact Hnd).
      assert (Hin1 : forall x, In x (map sp_node (filter sp_fail t)) -> In x (sm_sent m1)).
      { intros x Hx. cbn [m1 sm_sent]. apply (remove_first_NoDup_In _ _ _ Hnd). split.
        - apply Hin. right. exact Hx.
        - intro He. subst. apply Hp. apply (fail_nodes_incl t). exact Hx. }
      destruct (IH m1 Ht Hnd1 Hin1) as [Hr [Hn [Hi Hl]]]. split; [|split; [|split]].
      * rewrite Hr. cbn [m1 sm_rem]. rewrite nlen_cons. lia.
      * exact Hn.
      * intro x. rewrite Hi. cbn [m1 sm_sent]. rewrite (remove_first_NoDup_In _ _ _ Hnd). cbn [In].
        split.
        -- intros [[Hx1 Hne] Hx2]. split; [exact Hx1|]. intros [He|Hx3]; [congruence | contradiction].
        -- intros [Hx1 Hx2]. split; [split; [exact Hx1|]|].
           ++ intro He. apply Hx2. left. congruence.
           ++ intro Hx3. apply Hx2. right. exact Hx3.
      * rewrite nlen_cons. cbn [m1 sm_sent] in Hl. pose proof (remove_first_length _ _ Hpin). lia.
    + apply IH; assumption.
Qed.

(* nothing changes when no failing peer is in [sent] (failed direct delivery) *)
Lemma report_failures_noop : forall a blk ps m,
  (forall p, In p ps -> ~ In (sp_node p) (sm_sent m)) ->
  spray_report_failures a blk ps m = m.
Proof.
  intros a blk ps. unfold spray_report_failures. induction ps as [|p t IH]; intros m H; [reflexivity|].
  cbn [fold_left].
  assert (Hp : (if sp_fail p then spray_report_failure a blk (sp_node p) m else m) = m).
  { destruct (sp_fail p); [|reflexivity]. destruct a; cbn [spray_report_failure].
    - apply rf_write_notin. apply H. left. reflexivity.
    - destruct blk; [|reflexivity]. apply rf_write_notin. apply H. left. reflexivity. }
  rewrite Hp. apply IH. intros q Hq. apply H. right. exact Hq.
Qed.

(* ------------------------------------------------------------------------------------------ *)
(* selection guards *)

Lemma speers_of_In : forall ps clas chosen, speers_of ps clas = Some chosen -> forall p, In p chosen -> In p ps.
Proof.
  intros ps clas. induction clas as [|c t IH]; intros chosen H p Hp.
  - cbn in H. inversion H; subst. destruct Hp.
  - cbn [speers_of] in H. destruct (speer_of ps c) as [q|] eqn:Hq; [|discriminate].
    destruct (speers_of ps t) as [r|] eqn:Hr; [|discriminate]. inversion H; subst.
    destruct Hp as [->|Hp]; [|eapply IH; eauto].
    unfold speer_of in Hq. apply find_some in Hq. tauto.
Qed.

Lemma filter_nil_forall : forall A (f : A -> bool) l, filter f l = [] -> forall x, In x l -> f x = false.
Proof.
  induction l as [|y t IH]; intros H x Hx; [destruct Hx|].
  cbn [filter] in H. destruct (f y) eqn:Hy; [discriminate|].
  destruct Hx as [->|Hx]; auto.
Qed.

Lemma vanilla_select_facts : forall ps m chosen, vanilla_select_ok ps m chosen = true ->
  NoDup (map sp_node chosen)
  /\ (forall x, In x (map sp_node chosen) -> ~ In x (sm_sent m))
  /\ (chosen = [] \/ (2 <= sm_rem m /\ nlen chosen + 1 <= sm_rem m)).
Proof.
  intros ps m chosen H. unfold vanilla_select_ok in H. unfold spray_wait_threshold in H.
  destruct (sm_rem m <? 2) eqn:Hr.
  - destruct chosen; [|discriminate]. repeat split; [constructor | intros x [] | left; reflexivity].
  - apply N.ltb_ge in Hr. apply andb_true_iff in H. destruct H as [H _].
    apply andb_true_iff in H. destruct H as [H H3]. apply andb_true_iff in H. destruct H as [H1 H2].
    repeat split.
    + apply nodup_n_NoDup. exact H1.
    + intros x Hx. rewrite forallb_forall in H2. specialize (H2 x Hx). apply negb_true_iff in H2.
      apply mem_n_false. exact H2.
    + right. split; [exact Hr|]. apply N.leb_le in H3. exact H3.
Qed.

Lemma binary_select_facts : forall ps m chosen, binary_select_ok ps m chosen = true ->
  chosen = [] \/ (exists p, chosen = [p] /\ ~ In (sp_node p) (sm_sent m) /\ 2 <= sm_rem m).
Proof.
  intros ps m chosen H. unfold binary_select_ok in H. unfold spray_wait_threshold in H.
  destruct (sm_rem m <? 2) eqn:Hr.
  - destruct chosen; [left; reflexivity | discriminate].
  - apply N.ltb_ge in Hr. destruct chosen as [|p [|q t]]; [left; reflexivity | | discriminate].
    right. exists p. repeat split; [|exact Hr]. apply negb_true_iff in H. apply mem_n_false. exact H.
Qed.

(* ------------------------------------------------------------------------------------------ *)
(* what one forwarding pass does: a case analysis used by all theorems *)

Inductive attempt_kind (c : sconf) (s s' : sstate) (outs : list ssend) : Prop :=
| AK_idle :    (* not stored, or no metadata and no destination sender *)
    s' = s -> outs = [] -> attempt_kind c s s' outs
| AK_direct : forall dests,
    dests <> [] ->
    (forall p, In p dests -> sp_node p = ss_dst s) ->
    ss_stored s = true ->
    outs = map (mk_send true (ss_blk s)) dests ->
    s' = set_meta_stored s (option_map (spray_report_failures (sc_algo c) (ss_blk s) dests) (ss_meta s))
                         (negb (existsb sn_ok outs)) ->
    attempt_kind c s s' outs
| AK_vanilla : forall m chosen,
    sc_algo c = SprayVanilla -> ss_stored s = true -> ss_meta s = Some m ->
    (forall p, In p chosen -> In p (ss_peers s) /\ sp_node p <> ss_dst s) ->
    vanilla_select_ok (ss_peers s) m chosen = true ->
    outs = map (mk_send false (ss_blk s)) chosen ->
    s' = set_meta_stored s (Some (spray_report_failures SprayVanilla (ss_blk s) chosen (vanilla_selected m chosen))) true ->
    attempt_kind c s s' outs
| AK_binary : forall m chosen,
    sc_algo c = SprayBinary -> ss_stored s = true -> ss_meta s = Some m ->
    (forall p, In p chosen -> In p (ss_peers s) /\ sp_node p <> ss_dst s) ->
    binary_select_ok (ss_peers s) m chosen = true ->
    outs = map (mk_send false (Some (binary_send_copies m))) chosen ->
    s' = set_meta_stored s (Some (spray_report_failures SprayBinary (Some (binary_send_copies m)) chosen
                                     (binary_selected m chosen))) true ->
    attempt_kind c s s' outs.

Lemma attempt_cases : forall c s choice s' outs,
  spray_attempt c s choice = Some (s', outs) -> attempt_kind c s s' outs.
Proof.
  intros c s choice s' outs H. unfold spray_attempt in H.
  destruct (ss_stored s) eqn:Hst; cbn [negb] in H.
  2:{ inversion H; subst. apply AK_idle; reflexivity. }
  destruct (filter (fun p => sp_node p =? ss_dst s) (ss_peers s)) as [|d ds] eqn:Hd.
  - destruct (ss_meta s) as [m|] eqn:Hm.
    2:{ inversion H; subst. apply AK_idle; reflexivity. }
    destruct (speers_of (ss_peers s) choice) as [chosen|] eqn:Hc; [|discriminate].
    assert (Hch : forall p, In p chosen -> In p (ss_peers s) /\ sp_node p <> ss_dst s).
    { intros p Hp. pose proof (speers_of_In _ _ _ Hc p Hp) as Hin. split; [exact Hin|].
      pose proof (filter_nil_forall _ _ _ Hd p Hin) as Hf. cbn in Hf. apply N.eqb_neq. exact Hf. }
    destruct (sc_algo c) eqn:Ha.
    + destruct (vanilla_select_ok (ss_peers s) m chosen) eqn:Hg; [|discriminate].
      inversion H; subst. eapply AK_vanilla; eauto.
    + destruct (binary_select_ok (ss_peers s) m chosen) eqn:Hg; [|discriminate].
      inversion H; subst. eapply AK_binary; eauto.
  - inversion H; subst. eapply (AK_direct c s _ _ (d :: ds)); try reflexivity; try exact Hst.
    + discriminate.
    + intros p Hp. rewrite <- Hd in Hp. apply filter_In in Hp. destruct Hp as [_ Hp]. apply N.eqb_eq. exact Hp.
Qed.

(* the successful relays among the sends to [chosen] *)
Lemma relay_nodes_of_sends : forall dst blk chosen,
  (forall p, In p chosen -> sp_node p <> dst) ->
  map sn_node (filter (spray_is_relay dst) (map (mk_send false blk) chosen)) = ok_nodes chosen.
Proof.
  intros dst blk chosen. unfold ok_nodes. induction chosen as [|p t IH]; intro H; [reflexivity|].
  cbn [map filter]. unfold spray_is_relay at 1. cbn [mk_send sn_ok sn_node].
  assert (Hp : sp_node p =? dst = false) by (apply N.eqb_neq; apply H; left; reflexivity).
  rewrite Hp. cbn [negb]. rewrite andb_true_r.
  destruct (sp_fail p); cbn [negb map]; [|f_equal]; apply IH; intros q Hq; apply H; right; exact Hq.
Qed.

Lemma relay_nodes_direct : forall dst blk dests,
  (forall p, In p dests -> sp_node p = dst) ->
  filter (spray_is_relay dst) (map (mk_send true blk) dests) = [].
Proof.
  intros dst blk dests. induction dests as [|p t IH]; intro H; [reflexivity|].
  cbn [map filter]. unfold spray_is_relay at 1. cbn [mk_send sn_ok sn_node].
  rewrite (H p (or_introl eq_refl)). rewrite N.eqb_refl. cbn [negb]. rewrite andb_false_r.
  apply IH. intros q Hq. apply H. right. exact Hq.
Qed.

Definition relay_nodes (dst : N) (outs : list ssend) : list N := map sn_node (filter (spray_is_relay dst) outs).

Lemma spray_relayed_nodes : forall dst outs, spray_relayed dst outs = nlen (relay_nodes dst outs).
Proof. intros. unfold spray_relayed, relay_nodes. rewrite nlen_map. reflexivity. Qed.

Lemma relay_nodes_app : forall dst o1 o2, relay_nodes dst (o1 ++ o2) = relay_nodes dst o1 ++ relay_nodes dst o2.
Proof. intros. unfold relay_nodes. rewrite filter_app, map_app. reflexivity. Qed.

(* ------------------------------------------------------------------------------------------ *)
(* vanilla spray-and-wait: the budget invariant *)

(* [succ]: nodes other than the destination to which a transmission succeeded since the bundle
   entered the store (its current life on this node).  The budget counts these - the peers a copy
   was handed to - and not the length of the sent list: since fix 772c5cf the sent list of a bundle
   that came back from a neighbour also holds that neighbour ([excl], at most one node), which is
   excluded from the selection without having consumed a copy. *)
Definition vmeta_inv (L dst : N) (m : smeta) (succ : list N) : Prop :=
  sm_rem m + nlen succ = L
  /\ NoDup (sm_sent m)
  /\ ~ In dst (sm_sent m)
  /\ (exists excl, nlen excl <= 1 /\ (forall x, In x excl -> ~ In x succ)
                   /\ (forall x, In x (sm_sent m) <-> In x succ \/ In x excl))
  /\ NoDup succ
  /\ (succ = [] \/ 1 <= sm_rem m).

Definition vinv (L : N) (s : sstate) (succ : list N) : Prop :=
  (ss_created s = false -> ss_stored s = false)
  /\ (ss_stored s = true -> ss_meta s <> None)
  /\ (forall m, ss_meta s = Some m -> vmeta_inv L (ss_dst s) m succ)
  /\ nlen succ <= L - 1.

Lemma vmeta_inv_bound : forall L dst m succ, vmeta_inv L dst m succ -> nlen succ <= L - 1 /\ sm_rem m + nlen succ = L.
Proof.
  intros L dst m succ (H1 & H2 & H3 & H4 & H5 & H6).
  split; [|exact H1]. destruct H6 as [H6|H6]; [|lia].
  rewrite H6, nlen_nil. lia.
Qed.

Lemma ok_nodes_NoDup : forall chosen, NoDup (map sp_node chosen) -> NoDup (ok_nodes chosen).
Proof.
  intros chosen G1. unfold ok_nodes. induction chosen as [|p t IH]; [constructor|].
  cbn [map] in G1. inversion G1 as [|? ? Hp Ht]; subst. cbn [filter].
  destruct (sp_fail p); cbn [negb map]; [auto|]. constructor; [|auto].
  intro Hi. apply Hp. apply (ok_nodes_incl t). exact Hi.
Qed.

Lemma vanilla_attempt_meta : forall L dst ps m chosen blk succ,
  vmeta_inv L dst m succ ->
  vanilla_select_ok ps m chosen = true ->
  (forall p, In p chosen -> sp_node p <> dst) ->
  vmeta_inv L dst (spray_report_failures SprayVanilla blk chosen (vanilla_selected m chosen)) (succ ++ ok_nodes chosen).
Proof.
  intros L dst ps m chosen blk succ (H1 & H2 & H3 & (excl & E1 & E2 & H4) & H5 & H6) Hg Hnd.
  destruct (vanilla_select_facts _ _ _ Hg) as (G1 & G2 & G3).
  set (m1 := vanilla_selected m chosen).
  assert (Hnd1 : NoDup (sm_sent m1)).
  { cbn [m1 vanilla_selected sm_sent]. apply NoDup_app_intro; try assumption.
    intros x Hx Hx'. exact (G2 x Hx' Hx). }
  assert (Hin1 : forall x, In x (fail_nodes chosen) -> In x (sm_sent m1)).
  { intros x Hx. cbn [m1 vanilla_selected sm_sent]. apply in_or_app. right. apply fail_nodes_incl. exact Hx. }
  unfold spray_report_failures. cbn [spray_report_failure]. unfold spray_unit_copy.
  destruct (report_failures_spec 1 chosen m1 G1 Hnd1 Hin1) as (R1 & R2 & R3 & R4).
  set (m2 := fold_left _ chosen m1) in *.
  pose proof (ok_fail_length chosen) as Hof.
  assert (Hrem1 : sm_rem m1 = sm_rem m - nlen chosen) by reflexivity.
  assert (Hiff : forall x, In x (sm_sent m2) <-> In x (succ ++ ok_nodes chosen) \/ In x excl).
  { intro x. rewrite R3. cbn [m1 vanilla_selected sm_sent]. rewrite !in_app_iff. split.
    - intros [[Hx|Hx] Hnf].
      + apply H4 in Hx. destruct Hx as [Hx|Hx]; [left; left; exact Hx | right; exact Hx].
      + left. right. destruct (nodes_split _ _ Hx); [assumption | contradiction].
    - intros [[Hx|Hx]|Hx].
      + split; [left; apply H4; left; exact Hx|]. intro Hf.
        apply (G2 x); [apply fail_nodes_incl; exact Hf | apply H4; left; exact Hx].
      + split; [right; apply ok_nodes_incl; exact Hx|]. intro Hf. exact (ok_fail_disjoint _ _ G1 Hx Hf).
      + split; [left; apply H4; right; exact Hx|]. intro Hf.
        apply (G2 x); [apply fail_nodes_incl; exact Hf | apply H4; right; exact Hx]. }
  split; [|split; [|split; [|split; [|split]]]].
  - rewrite nlen_app. destruct G3 as [->|[G3 G4]].
    + subst m2 m1. cbn [fold_left vanilla_selected map sm_rem sm_sent ok_nodes filter]. rewrite !nlen_nil. lia.
    + lia.
  - exact R2.
  - intro Hd. apply R3 in Hd. destruct Hd as [Hd _]. cbn [m1 vanilla_selected sm_sent] in Hd.
    apply in_app_or in Hd. destruct Hd as [Hd|Hd]; [contradiction|].
    apply in_map_iff in Hd. destruct Hd as [p [He Hp]]. apply (Hnd p Hp). exact He.
  - exists excl. split; [exact E1|]. split; [|exact Hiff].
    intros x Hx Hs. apply in_app_or in Hs. destruct Hs as [Hs|Hs]; [exact (E2 x Hx Hs)|].
    apply (G2 x); [apply ok_nodes_incl; exact Hs | apply H4; right; exact Hx].
  - apply NoDup_app_intro.
    + exact H5.
    + apply ok_nodes_NoDup. exact G1.
    + intros x Hx Hx'. apply (G2 x); [apply ok_nodes_incl; exact Hx' | apply H4; left; exact Hx].
  - destruct G3 as [Hc|[G3 G4]].
    + subst chosen. subst m2 m1. cbn [fold_left vanilla_selected map sm_rem sm_sent ok_nodes filter]. rewrite app_nil_r.
      destruct H6 as [H6|H6]; [left; exact H6 | right; rewrite nlen_nil; lia].
    + right. lia.
Qed.

(* ------------------------------------------------------------------------------------------ *)
(* frame facts of one forwarding pass / one step *)

Lemma attempt_frame : forall c s ch s' outs, spray_attempt c s ch = Some (s', outs) ->
  ss_dst s' = ss_dst s /\ ss_created s' = ss_created s /\ ss_peers s' = ss_peers s /\ ss_blk s' = ss_blk s
  /\ (outs = [] \/ ss_stored s = true).
Proof.
  intros c s ch s' outs H. apply attempt_cases in H.
  destruct H as [Hs Ho | dests Hne Hd Hst Ho Hs | m chosen Ha Hst Hm Hc Hg Ho Hs | m chosen Ha Hst Hm Hc Hg Ho Hs];
    subst s'; cbn [set_meta_stored ss_dst ss_created ss_peers ss_blk]; repeat split; auto.
Qed.

(* well-formed histories: a bundle is not received from its own destination node *)
Definition ev_wf (e : sevent) : bool :=
  match e with
  | SeCreate _ dst _ prev => negb (option_eqb N.eqb prev (Some dst))
  | _ => true
  end.
Definition hist_wf (h : list (sevent * list N)) : bool := forallb (fun ec => ev_wf (fst ec)) h.

(* the bundle is originated at this node *)
Definition ev_originated (e : sevent) : bool :=
  match e with SeCreate origin _ _ _ => origin | _ => true end.
Definition hist_originated (h : list (sevent * list N)) : bool := forallb (fun ec => ev_originated (fst ec)) h.

(* at most one create event: the bundle enters the store once *)
Definition ev_is_create (e : sevent) : bool := match e with SeCreate _ _ _ _ => true | _ => false end.
Fixpoint hist_once (h : list (sevent * list N)) : bool :=
  match h with
  | [] => true
  | ec :: t => if ev_is_create (fst ec) then forallb (fun ec' => negb (ev_is_create (fst ec'))) t else hist_once t
  end.

(* structural invariant of the metadata, both algorithms *)
Definition sinv (s : sstate) : Prop :=
  (ss_created s = false -> ss_stored s = false)
  /\ (ss_stored s = true -> ss_meta s <> None)
  /\ (forall m, ss_meta s = Some m -> NoDup (sm_sent m) /\ ~ In (ss_dst s) (sm_sent m)).

Lemma sinv_init : sinv spray_init.
Proof. repeat split; cbn; intros; try discriminate; try reflexivity. Qed.

Lemma report_failures_unfold : forall a blk ps m,
  spray_report_failures a blk ps m
  = match a, blk with
    | SprayVanilla, _ => fold_left (fun m p => if sp_fail p then spray_rf_write 1 (sp_node p) m else m) ps m
    | SprayBinary, Some v => fold_left (fun m p => if sp_fail p then spray_rf_write v (sp_node p) m else m) ps m
    | SprayBinary, None => m
    end.
Proof.
  intros a blk ps. unfold spray_report_failures. destruct a; [reflexivity|]. destruct blk; [reflexivity|].
  induction ps as [|p t IH]; intro m; [reflexivity|]. cbn [fold_left spray_report_failure].
  destruct (sp_fail p); apply IH.
Qed.

Lemma selected_sent_facts : forall dst m chosen m1,
  NoDup (sm_sent m) -> ~ In dst (sm_sent m) ->
  NoDup (map sp_node chosen) -> (forall x, In x (map sp_node chosen) -> ~ In x (sm_sent m)) ->
  (forall p, In p chosen -> sp_node p <> dst) ->
  sm_sent m1 = sm_sent m ++ map sp_node chosen ->
  NoDup (sm_sent m1) /\ ~ In dst (sm_sent m1) /\ (forall x, In x (fail_nodes chosen) -> In x (sm_sent m1)).
Proof.
  intros dst m chosen m1 Hnd Hd G1 G2 Hc He. rewrite He. split; [|split].
  - apply NoDup_app_intro; try assumption. intros x Hx Hx'. exact (G2 x Hx' Hx).
  - intro Hi. apply in_app_or in Hi. destruct Hi as [Hi|Hi]; [contradiction|].
    apply in_map_iff in Hi. destruct Hi as [p [Hp1 Hp2]]. exact (Hc p Hp2 Hp1).
  - intros x Hx. apply in_or_app. right. apply fail_nodes_incl. exact Hx.
Qed.

Lemma attempt_sinv : forall c s ch s' outs, sinv s -> spray_attempt c s ch = Some (s', outs) -> sinv s'.
Proof.
  intros c s ch s' outs (I1 & I2 & I3) H. apply attempt_cases in H.
  destruct H as [Hs Ho | dests Hne Hd Hst Ho Hs | m chosen Ha Hst Hm Hc Hg Ho Hs | m chosen Ha Hst Hm Hc Hg Ho Hs].
  - subst. split; [|split]; assumption.
  - subst s'. destruct (ss_meta s) as [m|] eqn:Hm; [|exfalso; apply (I2 Hst); reflexivity].
    destruct (I3 m eq_refl) as [Hnd Hdn].
    cbn [option_map]. rewrite report_failures_noop by (intros p Hp; rewrite (Hd p Hp); exact Hdn).
    split; [|split]; cbn [set_meta_stored ss_created ss_stored ss_meta ss_dst].
    + intro Hc. rewrite (I1 Hc) in Hst. discriminate.
    + intros _. discriminate.
    + intros m' Hm'. inversion Hm'; subst. split; assumption.
  - subst s'. destruct (I3 m Hm) as [Hnd Hdn].
    destruct (vanilla_select_facts _ _ _ Hg) as (G1 & G2 & G3).
    destruct (selected_sent_facts (ss_dst s) m chosen (vanilla_selected m chosen) Hnd Hdn G1 G2
                (fun p Hp => proj2 (Hc p Hp)) eq_refl) as (S1 & S2 & S3).
    rewrite report_failures_unfold.
    destruct (report_failures_spec 1 chosen _ G1 S1 S3) as (R1 & R2 & R3 & R4).
    split; [|split]; cbn [set_meta_stored ss_created ss_stored ss_meta ss_dst].
    + intro Hcr. rewrite (I1 Hcr) in Hst. discriminate.
    + intros _. discriminate.
    + intros m' Hm'. inversion Hm'; subst m'. split; [exact R2|].
      intro Hi. apply R3 in Hi. destruct Hi as [Hi _]. exact (S2 Hi).
  - subst s'. destruct (I3 m Hm) as [Hnd Hdn].
    destruct (binary_select_facts _ _ _ Hg) as [Hch | [p [Hch [Hp Hr]]]]; subst chosen.
    + split; [|split]; cbn [set_meta_stored ss_created ss_stored ss_meta ss_dst binary_selected spray_report_failures fold_left].
      * intro Hcr. rewrite (I1 Hcr) in Hst. discriminate.
      * intros _. discriminate.
      * intros m' Hm'. inversion Hm'; subst m'. split; assumption.
    + assert (G1 : NoDup (map sp_node [p])) by (cbn; constructor; [intros [] | constructor]).
      assert (G2 : forall x, In x (map sp_node [p]) -> ~ In x (sm_sent m)) by (intros x [<-|[]]; exact Hp).
      destruct (selected_sent_facts (ss_dst s) m [p] (binary_selected m [p]) Hnd Hdn G1 G2
                  (fun q Hq => proj2 (Hc q Hq)) eq_refl) as (S1 & S2 & S3).
      rewrite report_failures_unfold.
      destruct (report_failures_spec (binary_send_copies m) [p] _ G1 S1 S3) as (R1 & R2 & R3 & R4).
      split; [|split]; cbn [set_meta_stored ss_created ss_stored ss_meta ss_dst].
      * intro Hcr. rewrite (I1 Hcr) in Hst. discriminate.
      * intros _. discriminate.
      * intros m' Hm'. inversion Hm'; subst m'. split; [exact R2|].
        intro Hi. apply R3 in Hi. destruct Hi as [Hi _]. exact (S2 Hi).
Qed.

Lemma sinv_set_peers : forall s ps, sinv s -> sinv (set_peers s ps).
Proof. intros s ps H. exact H. Qed.

Lemma notify_sent_ok : forall c origin dst blk prev,
  negb (option_eqb N.eqb prev (Some dst)) = true ->
  NoDup (sm_sent (spray_notify c origin blk prev)) /\ ~ In dst (sm_sent (spray_notify c origin blk prev)).
Proof.
  intros c origin dst blk prev Hwf.
  assert (Hp : NoDup (opt_list prev) /\ ~ In dst (opt_list prev)).
  { destruct prev as [p|]; cbn [opt_list].
    - split; [constructor; [intros [] | constructor]|]. intros [He|[]]. subst.
      cbn in Hwf. rewrite N.eqb_refl in Hwf. discriminate.
    - split; [constructor | intros []]. }
  assert (Hn : NoDup (@nil N) /\ ~ In dst []) by (split; [constructor | intros []]).
  unfold spray_notify. destruct (sc_algo c); [destruct origin | destruct blk]; cbn [sm_sent]; assumption.
Qed.

Lemma step_sinv : forall c s e ch s' outs, sinv s -> ev_wf e = true -> spray_step c s e ch = Some (s', outs) -> sinv s'.
Proof.
  intros c s e ch s' outs Hi Hwf H. destruct e as [origin dst blk prev | cla node fail | cla | cla f | | ]; cbn [spray_step] in H.
  - destruct (ss_stored s) eqn:Hst; [inversion H; subst; exact Hi|]. eapply attempt_sinv; [|exact H].
    split; [|split]; cbn [ss_created ss_stored ss_meta ss_dst].
    + discriminate.
    + intros _. discriminate.
    + intros m Hm. inversion Hm; subst m. apply notify_sent_ok. exact Hwf.
  - destruct (existsb _ _); [discriminate|]. eapply attempt_sinv; [|exact H]. apply sinv_set_peers. exact Hi.
  - inversion H; subst. apply sinv_set_peers. exact Hi.
  - inversion H; subst. apply sinv_set_peers. exact Hi.
  - eapply attempt_sinv; eauto.
  - inversion H; subst. destruct (ss_stored s) eqn:Hst; [exact Hi|].
    destruct Hi as (I1 & I2 & I3). split; [|split]; cbn [set_meta_stored ss_created ss_stored ss_meta ss_dst].
    + intros _. reflexivity.
    + discriminate.
    + intros m Hm. discriminate.
Qed.

Lemma run_sinv : forall c h s s' outs, sinv s -> hist_wf h = true -> spray_run c s h = Some (s', outs) -> sinv s'.
Proof.
  intros c h. induction h as [|[e ch] t IH]; intros s s' outs Hi Hwf H.
  - cbn in H. inversion H; subst. exact Hi.
  - cbn [spray_run] in H. cbn [hist_wf forallb fst] in Hwf. apply andb_true_iff in Hwf. destruct Hwf as [Hw1 Hw2].
    destruct (spray_step c s e ch) as [[s1 o1]|] eqn:Hs; [|discriminate].
    destruct (spray_run c s1 t) as [[s2 o2]|] eqn:Hr; [|discriminate]. inversion H; subst.
    eapply IH; [|exact Hw2|exact Hr]. eapply step_sinv; eauto.
Qed.

(* a life of the bundle on this node: created stays, the destination is fixed until the bundle
   enters the store anew; nothing is transmitted before the first creation *)
Lemma step_frame : forall c s e ch s' outs, sinv s -> spray_step c s e ch = Some (s', outs) ->
  (ss_created s = true -> ss_created s' = true)
  /\ (ss_created s = true -> spray_enters s e = false -> ss_dst s' = ss_dst s)
  /\ (outs = [] \/ ss_created s' = true).
Proof.
  intros c s e ch s' outs (I1 & I2 & I3) H.
  destruct e as [origin dst blk prev | cla node fail | cla | cla f | | ]; cbn [spray_step spray_enters] in *.
  - destruct (ss_stored s) eqn:Hst.
    + inversion H; subst. split; [auto|]. split; [reflexivity | left; reflexivity].
    + apply attempt_frame in H. cbn [ss_dst ss_created] in H. destruct H as (F1 & F2 & _).
      split; [intros _; exact F2|]. split; [intros _ Hf; discriminate | right; exact F2].
  - destruct (existsb _ _); [discriminate|]. apply attempt_frame in H.
    cbn [set_peers ss_dst ss_created ss_stored] in H. destruct H as (F1 & F2 & _ & _ & F5).
    split; [congruence|]. split; [intros; exact F1|].
    destruct F5 as [F5|F5]; [left; exact F5 | right]. rewrite F2.
    destruct (ss_created s) eqn:Hc; [reflexivity|]. rewrite (I1 eq_refl) in F5. discriminate.
  - inversion H; subst. split; [auto|]. split; [reflexivity | left; reflexivity].
  - inversion H; subst. split; [auto|]. split; [reflexivity | left; reflexivity].
  - apply attempt_frame in H. destruct H as (F1 & F2 & _ & _ & F5).
    split; [congruence|]. split; [intros; exact F1|].
    destruct F5 as [F5|F5]; [left; exact F5 | right]. rewrite F2.
    destruct (ss_created s) eqn:Hc; [reflexivity|]. rewrite (I1 eq_refl) in F5. discriminate.
  - inversion H; subst. split; [|split; [|left; reflexivity]].
    + intro Hc. destruct (ss_stored s); exact Hc.
    + intros _ _. destruct (ss_stored s); reflexivity.
Qed.

(* ------------------------------------------------------------------------------------------ *)
(* [spray_life] and [spray_run] *)

(* same final state; the transmissions of the current life are the tail of all transmissions *)
Lemma life_run : forall c h s acc s' cur,
  spray_life c s acc h = Some (s', cur) ->
  exists o pre, spray_run c s h = Some (s', o) /\ acc ++ o = pre ++ cur.
Proof.
  intros c h. induction h as [|[e ch] t IH]; intros s acc s' cur H.
  - cbn in H. inversion H; subst. exists [], []. split; [reflexivity | apply app_nil_r].
  - cbn [spray_life] in H. cbn [spray_run].
    destruct (spray_step c s e ch) as [[s1 o1]|] eqn:Hs; [|discriminate].
    destruct (IH _ _ _ _ H) as [o2 [pre2 [Hr He]]]. rewrite Hr.
    destruct (spray_enters s e).
    + exists (o1 ++ o2), (acc ++ pre2). split; [reflexivity|]. rewrite He, app_assoc. reflexivity.
    + exists (o1 ++ o2), pre2. split; [reflexivity|]. rewrite app_assoc. exact He.
Qed.

Lemma run_life : forall c h s acc s' o,
  spray_run c s h = Some (s', o) -> exists cur, spray_life c s acc h = Some (s', cur).
Proof.
  intros c h. induction h as [|[e ch] t IH]; intros s acc s' o H.
  - cbn in H. inversion H; subst. exists acc. reflexivity.
  - cbn [spray_run] in H. cbn [spray_life].
    destruct (spray_step c s e ch) as [[s1 o1]|] eqn:Hs; [|discriminate].
    destruct (spray_run c s1 t) as [[s2 o2]|] eqn:Hr; [|discriminate]. inversion H; subst.
    eapply IH. exact Hr.
Qed.

(* without a create event nothing is forgotten *)
Lemma life_run_nocreate : forall c h s acc,
  forallb (fun ec => negb (ev_is_create (fst ec))) h = true ->
  spray_life c s acc h = match spray_run c s h with Some (s', o) => Some (s', acc ++ o) | None => None end.
Proof.
  intros c h. induction h as [|[e ch] t IH]; intros s acc Hn.
  - cbn. rewrite app_nil_r. reflexivity.
  - cbn [forallb fst] in Hn. apply andb_true_iff in Hn. destruct Hn as [Hn1 Hn2].
    cbn [spray_life spray_run]. destruct (spray_step c s e ch) as [[s1 o1]|]; [|reflexivity].
    assert (He : spray_enters s e = false) by (destruct e; try reflexivity; discriminate).
    rewrite He, (IH _ _ Hn2). destruct (spray_run c s1 t) as [[s2 o2]|]; [|reflexivity].
    rewrite app_assoc. reflexivity.
Qed.

Lemma step_unstored : forall c s e ch s' o,
  ss_stored s = false -> ev_is_create e = false -> spray_step c s e ch = Some (s', o) ->
  ss_stored s' = false /\ o = [].
Proof.
  intros c s e ch s' o Hst He H.
  destruct e as [origin dst blk prev | cla node fail | cla | cla f | | ]; cbn [spray_step] in H; try discriminate.
  - destruct (existsb _ _); [discriminate|]. unfold spray_attempt in H.
    cbn [set_peers ss_stored] in H. rewrite Hst in H. cbn [negb] in H. inversion H; subst. split; [exact Hst | reflexivity].
  - inversion H; subst. split; [exact Hst | reflexivity].
  - inversion H; subst. split; [exact Hst | reflexivity].
  - unfold spray_attempt in H. rewrite Hst in H. cbn [negb] in H. inversion H; subst. split; [exact Hst | reflexivity].
  - inversion H; subst. rewrite Hst. split; reflexivity.
Qed.

(* a bundle that enters the store once: its life is the whole history *)
Lemma life_run_once_gen : forall c h s,
  ss_stored s = false -> hist_once h = true -> spray_life c s [] h = spray_run c s h.
Proof.
  intros c h. induction h as [|[e ch] t IH]; intros s Hst Ho; [reflexivity|].
  cbn [hist_once fst] in Ho. cbn [spray_life spray_run].
  destruct (spray_step c s e ch) as [[s1 o1]|] eqn:Hs; [|reflexivity].
  destruct (ev_is_create e) eqn:He.
  - assert (Hen : spray_enters s e = true) by (destruct e; try discriminate; cbn; rewrite Hst; reflexivity).
    rewrite Hen. rewrite (life_run_nocreate _ _ _ _ Ho). reflexivity.
  - assert (Hen : spray_enters s e = false) by (destruct e; try reflexivity; discriminate).
    rewrite Hen. destruct (step_unstored _ _ _ _ _ _ Hst He Hs) as [Hst1 ->].
    cbn [app]. rewrite (IH _ Hst1 Ho). destruct (spray_run c s1 t) as [[s2 o2]|]; reflexivity.
Qed.

Lemma life_run_once : forall c h, hist_once h = true -> spray_life c spray_init [] h = spray_run c spray_init h.
Proof. intros c h Ho. apply life_run_once_gen; [reflexivity | exact Ho]. Qed.

(* ------------------------------------------------------------------------------------------ *)
(* vanilla spray-and-wait: budget over all histories *)

Definition vconf (L : N) : sconf := {| sc_algo := SprayVanilla; sc_L := L |}.
Definition bconf (L : N) : sconf := {| sc_algo := SprayBinary; sc_L := L |}.

Lemma vinv_init : forall L, vinv L spray_init [].
Proof.
  intro L. split; [|split; [|split]]; cbn; intros; try discriminate; auto. unfold nlen. cbn. lia.
Qed.

Lemma vinv_attempt : forall L c s choice s' outs succ,
  sc_algo c = SprayVanilla -> vinv L s succ -> spray_attempt c s choice = Some (s', outs) ->
  vinv L s' (succ ++ relay_nodes (ss_dst s) outs).
Proof.
  intros L c s choice s' outs succ Hv (V1 & V2 & V3 & V4) H.
  pose proof (attempt_frame _ _ _ _ _ H) as (F1 & F2 & _).
  apply attempt_cases in H.
  destruct H as [Hs Ho | dests Hne Hd Hst Ho Hs | m chosen Ha Hst Hm Hc Hg Ho Hs | m chosen Ha Hst Hm Hc Hg Ho Hs].
  - subst. cbn [relay_nodes filter map]. rewrite app_nil_r. split; [|split; [|split]]; assumption.
  - assert (Hr : relay_nodes (ss_dst s) outs = []).
    { unfold relay_nodes. rewrite Ho. rewrite relay_nodes_direct by exact Hd. reflexivity. }
    rewrite Hr, app_nil_r.
    destruct (ss_meta s) as [m|] eqn:Hm; [|exfalso; apply (V2 Hst); reflexivity].
    pose proof (V3 m eq_refl) as Hmi. pose proof Hmi as (M1 & M2 & M3 & M4 & M5 & M6).
    assert (Hsame : spray_report_failures (sc_algo c) (ss_blk s) dests m = m).
    { apply report_failures_noop. intros p Hp. rewrite (Hd p Hp). exact M3. }
    subst s'. cbn [option_map] in *. rewrite Hsame in *.
    split; [|split; [|split]]; cbn [set_meta_stored ss_created ss_stored ss_meta ss_dst].
    + intro Hcr. rewrite (V1 Hcr) in Hst. discriminate.
    + intros _. discriminate.
    + intros m' Hm'. inversion Hm'; subst m'. exact Hmi.
    + exact V4.
  - pose proof (V3 m Hm) as Hmi.
    assert (Hr : relay_nodes (ss_dst s) outs = ok_nodes chosen).
    { unfold relay_nodes. rewrite Ho. apply relay_nodes_of_sends. intros p Hp. exact (proj2 (Hc p Hp)). }
    rewrite Hr.
    pose proof (vanilla_attempt_meta L (ss_dst s) (ss_peers s) m chosen (ss_blk s) succ Hmi Hg
                  (fun p Hp => proj2 (Hc p Hp))) as Hnew.
    subst s'. split; [|split; [|split]]; cbn [set_meta_stored ss_created ss_stored ss_meta ss_dst].
    + intro Hcr. rewrite (V1 Hcr) in Hst. discriminate.
    + intros _. discriminate.
    + intros m' Hm'. inversion Hm'; subst m'. exact Hnew.
    + exact (proj1 (vmeta_inv_bound _ _ _ _ Hnew)).
  - congruence.
Qed.

Lemma vinv_set_peers : forall L s ps succ, vinv L s succ -> vinv L (set_peers s ps) succ.
Proof. intros L s ps succ H. exact H. Qed.

(* one event.  When the bundle enters the store the count starts anew: NotifyNewBundle sets the
   full budget L whatever was handed out in an earlier life; the previous node, if the bundle
   names one, is in the sent list from the start and has not consumed a copy *)
Lemma vinv_step : forall L s e ch s' outs succ,
  vinv L s succ -> ev_originated e = true -> ev_wf e = true -> spray_step (vconf L) s e ch = Some (s', outs) ->
  vinv L s' ((if spray_enters s e then [] else succ) ++ relay_nodes (ss_dst s') outs).
Proof.
  intros L s e ch s' outs succ Hv Ho Hwf H.
  destruct e as [origin dst blk prev | cla node fail | cla | cla f | | ]; cbn [spray_step spray_enters] in *.
  - destruct (ss_stored s) eqn:Hst; cbn [negb].
    + inversion H; subst. cbn [relay_nodes filter map]. rewrite app_nil_r. exact Hv.
    + cbn [ev_originated] in Ho. subst origin.
      pose proof (attempt_frame _ _ _ _ _ H) as (F1 & _). cbn [ss_dst] in F1. rewrite F1.
      match type of H with spray_attempt _ ?s0 _ = _ => change dst with (ss_dst s0) end.
      eapply (vinv_attempt L (vconf L)); [reflexivity | | exact H].
      destruct (notify_sent_ok (vconf L) true dst blk prev Hwf) as [Hnd Hdn].
      cbn [vconf spray_notify sc_algo sc_L sm_sent] in Hnd, Hdn.
      split; [|split; [|split]]; cbn [ss_created ss_stored ss_meta ss_dst vconf spray_notify sc_algo sc_L].
      * discriminate.
      * intros _. discriminate.
      * intros m Hm. inversion Hm; subst m. unfold vmeta_inv. cbn [sm_rem sm_sent].
        split; [rewrite nlen_nil; lia|]. split; [exact Hnd|]. split; [exact Hdn|].
        split; [|split; [constructor | left; reflexivity]].
        exists (opt_list prev). split; [destruct prev; unfold nlen; cbn; lia|].
        split; [intros x _ []|]. intro x. cbn [In]. tauto.
      * rewrite nlen_nil. lia.
  - destruct (existsb _ _); [discriminate|].
    pose proof (attempt_frame _ _ _ _ _ H) as (F1 & _). rewrite F1.
    eapply (vinv_attempt L (vconf L)); [reflexivity | | exact H]. apply vinv_set_peers. exact Hv.
  - inversion H; subst. cbn [relay_nodes filter map]. rewrite app_nil_r. apply vinv_set_peers. exact Hv.
  - inversion H; subst. cbn [relay_nodes filter map]. rewrite app_nil_r. apply vinv_set_peers. exact Hv.
  - pose proof (attempt_frame _ _ _ _ _ H) as (F1 & _). rewrite F1.
    eapply (vinv_attempt L (vconf L)); [reflexivity | exact Hv | exact H].
  - inversion H; subst. cbn [relay_nodes filter map]. rewrite app_nil_r.
    destruct (ss_stored s) eqn:Hst; [exact Hv|].
    destruct Hv as (V1 & V2 & V3 & V4).
    split; [|split; [|split]]; cbn [set_meta_stored ss_created ss_stored ss_meta ss_dst].
    + intros _. reflexivity.
    + discriminate.
    + intros m Hm. discriminate.
    + exact V4.
Qed.

Lemma vinv_sinv : forall L s succ, vinv L s succ -> sinv s.
Proof.
  intros L s succ (V1 & V2 & V3 & V4). split; [|split].
  - exact V1.
  - exact V2.
  - intros m Hm. destruct (V3 m Hm) as (M1 & M2 & M3 & _). split; assumption.
Qed.

(* over a history: [acc] = the transmissions of the bundle's current life *)
Lemma vinv_life : forall L h s acc s' outs,
  vinv L s (relay_nodes (ss_dst s) acc) -> (acc = [] \/ ss_created s = true) ->
  hist_originated h = true -> hist_wf h = true ->
  spray_life (vconf L) s acc h = Some (s', outs) ->
  vinv L s' (relay_nodes (ss_dst s') outs).
Proof.
  intros L h. induction h as [|[e ch] t IH]; intros s acc s' outs Hv Hacc Ho Hwf H.
  - cbn in H. inversion H; subst. exact Hv.
  - cbn [spray_life] in H.
    cbn [hist_originated forallb fst] in Ho. apply andb_true_iff in Ho. destruct Ho as [Ho1 Ho2].
    cbn [hist_wf forallb fst] in Hwf. apply andb_true_iff in Hwf. destruct Hwf as [Hw1 Hw2].
    destruct (spray_step (vconf L) s e ch) as [[s1 o1]|] eqn:Hs; [|discriminate].
    pose proof (vinv_step _ _ _ _ _ _ _ Hv Ho1 Hw1 Hs) as Hv1.
    destruct (step_frame _ _ _ _ _ _ (vinv_sinv _ _ _ Hv) Hs) as (F1 & F2 & F3).
    eapply IH; [| |exact Ho2|exact Hw2|exact H]; destruct (spray_enters s e) eqn:He.
    + exact Hv1.
    + rewrite relay_nodes_app.
      assert (Hd : relay_nodes (ss_dst s1) acc = relay_nodes (ss_dst s) acc).
      { destruct Hacc as [->|Hc]; [reflexivity | rewrite (F2 Hc eq_refl); reflexivity]. }
      rewrite Hd. exact Hv1.
    + exact F3.
    + destruct F3 as [->|F3]; [|right; exact F3]. rewrite app_nil_r.
      destruct Hacc as [Ha|Hc]; [left; exact Ha | right; exact (F1 Hc)].
Qed.

Lemma spray_budget : forall L h s outs,
  spray_life (vconf L) spray_init [] h = Some (s, outs) -> hist_originated h = true -> hist_wf h = true ->
  spray_relayed (ss_dst s) outs <= L - 1.
Proof.
  intros L h s outs H Ho Hwf.
  pose proof (vinv_life L h spray_init [] _ _ (vinv_init L) (or_introl eq_refl) Ho Hwf H) as (_ & _ & _ & V4).
  rewrite spray_relayed_nodes. exact V4.
Qed.

Lemma spray_accounting : forall L h s outs m,
  spray_life (vconf L) spray_init [] h = Some (s, outs) -> hist_originated h = true -> hist_wf h = true ->
  ss_meta s = Some m ->
  sm_rem m + spray_relayed (ss_dst s) outs = L /\ 1 <= sm_rem m + (if L =? 0 then 1 else 0).
Proof.
  intros L h s outs m H Ho Hwf Hm.
  pose proof (vinv_life L h spray_init [] _ _ (vinv_init L) (or_introl eq_refl) Ho Hwf H) as (_ & _ & V3 & _).
  specialize (V3 m Hm). rewrite spray_relayed_nodes.
  pose proof (vmeta_inv_bound _ _ _ _ V3) as [B1 B2]. split; [exact B2|].
  destruct V3 as (M1 & _ & _ & _ & _ & M6). destruct (N.eqb_spec L 0); [lia|].
  destruct M6 as [M6|M6]; [|lia]. rewrite M6, nlen_nil in M1. lia.
Qed.

(* the sent list of the current life: exactly the peers a copy was handed to, and at most one
   further node - the previous node of a bundle that was received - which took no copy (by
   [spray_accounting] only the former are paid for) *)
Lemma spray_sent_list : forall L h s outs m,
  spray_life (vconf L) spray_init [] h = Some (s, outs) -> hist_originated h = true -> hist_wf h = true ->
  ss_meta s = Some m ->
  exists excl, nlen excl <= 1
    /\ (forall x, In x excl -> ~ In x (relay_nodes (ss_dst s) outs))
    /\ (forall x, In x (sm_sent m) <-> In x (relay_nodes (ss_dst s) outs) \/ In x excl)
    /\ nlen (sm_sent m) = spray_relayed (ss_dst s) outs + nlen excl.
Proof.
  intros L h s outs m H Ho Hwf Hm.
  pose proof (vinv_life L h spray_init [] _ _ (vinv_init L) (or_introl eq_refl) Ho Hwf H) as (_ & _ & V3 & _).
  destruct (V3 m Hm) as (M1 & M2 & M3 & (excl & E1 & E2 & M4) & M5 & M6).
  exists excl. split; [exact E1|]. split; [exact E2|]. split; [exact M4|].
  rewrite spray_relayed_nodes.
  assert (Hex : NoDup excl).
  { destruct excl as [|a [|b t]]; [constructor | constructor; [intros [] | constructor] |].
    exfalso. unfold nlen in E1. cbn [length] in E1. lia. }
  assert (Hnd : NoDup (relay_nodes (ss_dst s) outs ++ excl)).
  { apply NoDup_app_intro; [exact M5 | exact Hex |]. intros x Hx Hx'. exact (E2 x Hx' Hx). }
  assert (Hl : length (sm_sent m) = length (relay_nodes (ss_dst s) outs ++ excl)).
  { apply Nat.le_antisymm; apply NoDup_incl_length; try assumption; intros x Hx.
    - apply in_or_app. apply M4. exact Hx.
    - apply M4. apply in_app_or. exact Hx. }
  unfold nlen. rewrite Hl, app_length. lia.
Qed.

(* ------------------------------------------------------------------------------------------ *)
(* one forwarding pass: what was not transmitted successfully is given back (vanilla) *)

Lemma vanilla_attempt_giveback : forall c s ch s' outs m,
  sc_algo c = SprayVanilla -> sinv s -> ss_meta s = Some m ->
  spray_attempt c s ch = Some (s', outs) ->
  exists m', ss_meta s' = Some m'
    /\ sm_rem m' + spray_relayed (ss_dst s) outs = sm_rem m
    /\ (forall x, In x (sm_sent m') <-> In x (sm_sent m) \/ In x (relay_nodes (ss_dst s) outs))
    /\ nlen (sm_sent m') = nlen (sm_sent m) + spray_relayed (ss_dst s) outs.
Proof.
  intros c s ch s' outs m Hv (I1 & I2 & I3) Hm H. destruct (I3 m Hm) as [Hnd Hdn].
  apply attempt_cases in H.
  destruct H as [Hs Ho | dests Hne Hd Hst Ho Hs | m0 chosen Ha Hst Hm0 Hc Hg Ho Hs | m0 chosen Ha Hst Hm0 Hc Hg Ho Hs].
  - subst. exists m. unfold spray_relayed, relay_nodes. cbn [filter map]. rewrite nlen_nil.
    split; [exact Hm|]. split; [lia|]. split; [intro x; cbn; tauto | lia].
  - assert (Hr : filter (spray_is_relay (ss_dst s)) outs = []) by (rewrite Ho; apply relay_nodes_direct; exact Hd).
    exists m. unfold spray_relayed, relay_nodes. rewrite Hr. cbn [map]. rewrite nlen_nil.
    subst s'. cbn [set_meta_stored ss_meta]. rewrite Hm. cbn [option_map].
    rewrite report_failures_noop by (intros p Hp; rewrite (Hd p Hp); exact Hdn).
    split; [reflexivity|]. split; [lia|]. split; [intro x; cbn; tauto | lia].
  - rewrite Hm in Hm0. inversion Hm0; subst m0.
    destruct (vanilla_select_facts _ _ _ Hg) as (G1 & G2 & G3).
    destruct (selected_sent_facts (ss_dst s) m chosen (vanilla_selected m chosen) Hnd Hdn G1 G2
                (fun p Hp => proj2 (Hc p Hp)) eq_refl) as (S1 & S2 & S3).
    pose proof (report_failures_unfold SprayVanilla (ss_blk s) chosen (vanilla_selected m chosen)) as Hu.
    cbn beta iota in Hu.
    destruct (report_failures_spec 1 chosen _ G1 S1 S3) as (R1 & R2 & R3 & R4).
    rewrite <- Hu in R1, R2, R3, R4.
    set (m2 := spray_report_failures SprayVanilla (ss_blk s) chosen (vanilla_selected m chosen)) in *.
    assert (Hrn : relay_nodes (ss_dst s) outs = ok_nodes chosen).
    { unfold relay_nodes. rewrite Ho. apply relay_nodes_of_sends. intros p Hp. exact (proj2 (Hc p Hp)). }
    exists m2. subst s'. cbn [set_meta_stored ss_meta]. split; [reflexivity|].
    rewrite spray_relayed_nodes, Hrn. pose proof (ok_fail_length chosen) as Hof.
    cbn [vanilla_selected sm_rem sm_sent] in R1, R3, R4. rewrite nlen_app, nlen_map in R4.
    split; [|split].
    + destruct G3 as [->|[G3 G4]]; [cbn in *; unfold nlen in *; cbn in *; lia | lia].
    + intro x. rewrite R3, in_app_iff. split.
      * intros [[Hx|Hx] Hnf]; [left; exact Hx | right]. destruct (nodes_split _ _ Hx); [assumption | contradiction].
      * intros [Hx|Hx].
        -- split; [left; exact Hx|]. intro Hf. apply (G2 x); [apply fail_nodes_incl; exact Hf | exact Hx].
        -- split; [right; apply ok_nodes_incl; exact Hx|]. intro Hf. exact (ok_fail_disjoint _ _ G1 Hx Hf).
    + lia.
  - congruence.
Qed.

(* ------------------------------------------------------------------------------------------ *)
(* binary spray: one forwarding pass *)

Lemma binary_attempt_spec : forall c s ch s' outs m,
  sc_algo c = SprayBinary -> sinv s -> ss_meta s = Some m ->
  spray_attempt c s ch = Some (s', outs) ->
  exists m', ss_meta s' = Some m' /\
    ( ((forall o, In o outs -> sn_direct o = true /\ sn_node o = ss_dst s) /\ m' = m)
      \/ (exists o, outs = [o] /\ sn_direct o = false /\ sn_node o <> ss_dst s
            /\ 2 <= sm_rem m
            /\ sn_blk o = Some (sm_rem m / 2)
            /\ (sn_ok o = true -> sm_rem m' = sm_rem m - sm_rem m / 2 /\ sm_rem m' + sm_rem m / 2 = sm_rem m
                                  /\ sm_sent m' = sm_sent m ++ [sn_node o])
            /\ (sn_ok o = false -> m' = m)) ).
Proof.
  intros c s ch s' outs m Hb (I1 & I2 & I3) Hm H. destruct (I3 m Hm) as [Hnd Hdn].
  apply attempt_cases in H.
  destruct H as [Hs Ho | dests Hne Hd Hst Ho Hs | m0 chosen Ha Hst Hm0 Hc Hg Ho Hs | m0 chosen Ha Hst Hm0 Hc Hg Ho Hs].
  - subst. exists m. split; [exact Hm|]. left. split; [intros o []|reflexivity].
  - exists m. subst s'. cbn [set_meta_stored ss_meta]. rewrite Hm. cbn [option_map].
    rewrite report_failures_noop by (intros p Hp; rewrite (Hd p Hp); exact Hdn).
    split; [reflexivity|]. left. split; [|reflexivity].
    intros o Hin. rewrite Ho in Hin. apply in_map_iff in Hin. destruct Hin as [p [He Hp]]. subst o.
    cbn [mk_send sn_direct sn_node]. split; [reflexivity | exact (Hd p Hp)].
  - congruence.
  - rewrite Hm in Hm0. inversion Hm0; subst m0.
    destruct (binary_select_facts _ _ _ Hg) as [Hch | [p [Hch [Hp Hr]]]]; subst chosen.
    + exists m. subst s' outs. cbn [set_meta_stored ss_meta binary_selected spray_report_failures fold_left map].
      split; [reflexivity|]. left. split; [intros o []|reflexivity].
    + subst s' outs. cbn [set_meta_stored ss_meta map].
      eexists. split; [reflexivity|]. right. eexists. split; [reflexivity|].
      cbn [mk_send sn_direct sn_node sn_blk sn_ok].
      unfold binary_send_copies, spray_binary_divisor.
      split; [reflexivity|]. split; [exact (proj2 (Hc p (or_introl eq_refl)))|]. split; [exact Hr|].
      split; [reflexivity|].
      unfold spray_report_failures. cbn [fold_left binary_selected map]. unfold binary_send_copies, spray_binary_divisor.
      assert (Hle : sm_rem m / 2 <= sm_rem m) by (apply N.div_le_upper_bound; lia).
      split.
      * intro Hok. apply negb_true_iff in Hok. rewrite Hok. cbn [sm_rem sm_sent]. repeat split; lia.
      * intro Hok. apply negb_false_iff in Hok. rewrite Hok. cbn [spray_report_failure].
        rewrite rf_write_undoes_selection by assumption. destruct m; reflexivity.
Qed.

(* ------------------------------------------------------------------------------------------ *)
(* binary spray: copies are conserved over all histories *)

Lemma bspray_handed_app : forall dst o1 o2, bspray_handed dst (o1 ++ o2) = bspray_handed dst o1 + bspray_handed dst o2.
Proof.
  intros dst o1 o2. unfold bspray_handed. induction o1 as [|o t IH]; [reflexivity|].
  cbn [app fold_right]. rewrite IH. destruct (sn_blk o); [destruct (spray_is_relay dst o)|]; lia.
Qed.

Lemma bspray_handed_direct : forall dst outs,
  (forall o, In o outs -> sn_direct o = true /\ sn_node o = dst) -> bspray_handed dst outs = 0.
Proof.
  intros dst outs. unfold bspray_handed. induction outs as [|o t IH]; intro H; [reflexivity|].
  cbn [fold_right]. rewrite IH by (intros q Hq; apply H; right; exact Hq).
  destruct (H o (or_introl eq_refl)) as [_ Hn]. unfold spray_is_relay. rewrite Hn, N.eqb_refl.
  cbn [negb]. rewrite andb_false_r. destruct (sn_blk o); reflexivity.
Qed.

Lemma binary_attempt_conserves : forall c s ch s' outs m,
  sc_algo c = SprayBinary -> sinv s -> ss_meta s = Some m ->
  spray_attempt c s ch = Some (s', outs) ->
  exists m', ss_meta s' = Some m' /\ sm_rem m' + bspray_handed (ss_dst s) outs = sm_rem m.
Proof.
  intros c s ch s' outs m Hb Hi Hm H.
  destruct (binary_attempt_spec _ _ _ _ _ _ Hb Hi Hm H) as [m' [Hm' [[Hd He] | [o (Ho & Hdir & Hn & Hr & Hblk & Hok & Hfail)]]]].
  - exists m'. split; [exact Hm'|]. rewrite (bspray_handed_direct _ _ Hd). subst. lia.
  - exists m'. split; [exact Hm'|]. subst outs. unfold bspray_handed. cbn [fold_right]. rewrite Hblk.
    unfold spray_is_relay. apply N.eqb_neq in Hn. rewrite Hn. cbn [negb]. rewrite andb_true_r.
    destruct (sn_ok o) eqn:Hs.
    + destruct (Hok eq_refl) as (_ & H2 & _). lia.
    + rewrite (Hfail eq_refl). lia.
Qed.

Definition spray_initial (L : N) (s : sstate) : N := match ss_blk s with Some k => k | None => L end.

(* [handed]: copies handed over successfully since the bundle entered the store *)
Definition binv (L : N) (s : sstate) (handed : N) : Prop :=
  sinv s
  /\ (forall m, ss_meta s = Some m -> sm_rem m + handed = spray_initial L s).

Lemma binv_attempt : forall L s ch s' outs handed,
  binv L s handed -> spray_attempt (bconf L) s ch = Some (s', outs) ->
  binv L s' (handed + bspray_handed (ss_dst s) outs).
Proof.
  intros L s ch s' outs handed (Hi & B2) H.
  pose proof (attempt_sinv _ _ _ _ _ Hi H) as Hi'.
  pose proof (attempt_frame _ _ _ _ _ H) as (F1 & F2 & _ & F4 & F5).
  destruct (ss_meta s) as [m|] eqn:Hm.
  - destruct (binary_attempt_conserves (bconf L) s ch s' outs m eq_refl Hi Hm H) as [m' [Hm' Hc]].
    split; [exact Hi'|].
    intros m2 Hm2. rewrite Hm' in Hm2. inversion Hm2; subst m2.
    unfold spray_initial. rewrite F4. specialize (B2 m eq_refl). unfold spray_initial in B2. lia.
  - assert (Hidle : s' = s /\ outs = []).
    { apply attempt_cases in H. destruct Hi as (I1 & I2 & I3).
      destruct H as [Hs Ho | dests Hne Hd Hst Ho Hs | m0 chosen Ha Hst Hm0 Hc Hg Ho Hs | m0 chosen Ha Hst Hm0 Hc Hg Ho Hs];
        [split; assumption | exfalso; apply (I2 Hst); exact Hm | congruence | congruence]. }
    destruct Hidle as [-> ->]. cbn [bspray_handed fold_right]. rewrite N.add_0_r.
    split; [exact Hi|]. intros m0 Hm0. congruence.
Qed.

Lemma binv_step : forall L s e ch s' outs handed,
  binv L s handed -> ev_wf e = true -> spray_step (bconf L) s e ch = Some (s', outs) ->
  binv L s' ((if spray_enters s e then 0 else handed) + bspray_handed (ss_dst s') outs).
Proof.
  intros L s e ch s' outs handed Hb Hwf H.
  pose proof Hb as (Hi & B2).
  pose proof (step_sinv _ _ _ _ _ _ Hi Hwf H) as Hi'.
  destruct e as [origin dst blk prev | cla node fail | cla | cla f | | ]; cbn [spray_step spray_enters] in *.
  - destruct (ss_stored s) eqn:Hst; cbn [negb].
    + inversion H; subst. cbn [bspray_handed fold_right]. rewrite N.add_0_r. exact Hb.
    + pose proof (attempt_frame _ _ _ _ _ H) as (F1 & _). cbn [ss_dst] in F1. rewrite F1.
      match type of H with spray_attempt _ ?s0 _ = _ => change dst with (ss_dst s0) end.
      eapply binv_attempt; [|exact H].
      split; cbn [ss_created ss_meta].
      * split; [|split]; cbn [ss_created ss_stored ss_meta ss_dst].
        -- discriminate.
        -- intros _. discriminate.
        -- intros m Hm. inversion Hm; subst m. apply notify_sent_ok. exact Hwf.
      * intros m Hm. inversion Hm; subst m. unfold spray_initial, spray_notify. cbn [bconf sc_algo sc_L ss_blk].
        destruct blk; cbn [sm_rem]; lia.
  - destruct (existsb _ _); [discriminate|].
    pose proof (attempt_frame _ _ _ _ _ H) as (F1 & _). rewrite F1.
    eapply binv_attempt; [|exact H]. exact Hb.
  - inversion H; subst. cbn [bspray_handed fold_right]. rewrite N.add_0_r. exact Hb.
  - inversion H; subst. cbn [bspray_handed fold_right]. rewrite N.add_0_r. exact Hb.
  - pose proof (attempt_frame _ _ _ _ _ H) as (F1 & _). rewrite F1.
    eapply binv_attempt; [exact Hb | exact H].
  - inversion H; subst. cbn [bspray_handed fold_right]. rewrite N.add_0_r.
    destruct (ss_stored s) eqn:Hst; [exact Hb|].
    split; [exact Hi'|]. intros m Hm. cbn in Hm. discriminate.
Qed.

Lemma binv_life : forall L h s acc s' outs,
  binv L s (bspray_handed (ss_dst s) acc) -> (acc = [] \/ ss_created s = true) ->
  hist_wf h = true -> spray_life (bconf L) s acc h = Some (s', outs) ->
  binv L s' (bspray_handed (ss_dst s') outs).
Proof.
  intros L h. induction h as [|[e ch] t IH]; intros s acc s' outs Hb Hacc Hwf H.
  - cbn in H. inversion H; subst. exact Hb.
  - cbn [spray_life] in H.
    cbn [hist_wf forallb fst] in Hwf. apply andb_true_iff in Hwf. destruct Hwf as [Hw1 Hw2].
    destruct (spray_step (bconf L) s e ch) as [[s1 o1]|] eqn:Hs; [|discriminate].
    pose proof (binv_step _ _ _ _ _ _ _ Hb Hw1 Hs) as Hb1.
    destruct (step_frame _ _ _ _ _ _ (proj1 Hb) Hs) as (F1 & F2 & F3).
    eapply IH; [| |exact Hw2|exact H]; destruct (spray_enters s e) eqn:He.
    + rewrite N.add_0_l in Hb1. exact Hb1.
    + rewrite bspray_handed_app.
      assert (Hd : bspray_handed (ss_dst s1) acc = bspray_handed (ss_dst s) acc).
      { destruct Hacc as [->|Hc]; [reflexivity | rewrite (F2 Hc eq_refl); reflexivity]. }
      rewrite Hd. exact Hb1.
    + exact F3.
    + destruct F3 as [->|F3]; [|right; exact F3]. rewrite app_nil_r.
      destruct Hacc as [Ha|Hc]; [left; exact Ha | right; exact (F1 Hc)].
Qed.

Lemma binv_init : forall L, binv L spray_init 0.
Proof. intro L. split; [exact sinv_init|]. intros m Hm. cbn in Hm. discriminate. Qed.

Lemma bspray_conservation : forall L h s outs m,
  spray_life (bconf L) spray_init [] h = Some (s, outs) -> hist_wf h = true -> ss_meta s = Some m ->
  sm_rem m + bspray_handed (ss_dst s) outs = spray_initial L s.
Proof.
  intros L h s outs m H Hwf Hm.
  pose proof (binv_life L h spray_init [] _ _ (binv_init L) (or_introl eq_refl) Hwf H) as (_ & B).
  exact (B m Hm).
Qed.

(* every reachable state satisfies the structural invariant (both algorithms) *)
Lemma reachable_sinv : forall c h s outs,
  spray_run c spray_init h = Some (s, outs) -> hist_wf h = true -> sinv s.
Proof. intros c h s outs H Hwf. exact (run_sinv c h _ _ _ sinv_init Hwf H). Qed.

(* the original discipline (no lock around read-modify-write) loses an update *)
Lemma rf_unlocked_loses_update :
  let m := {| sm_rem := 1; sm_sent := [2; 3] |} in
  let fA := spray_report_failure SprayVanilla None 2 in
  let fB := spray_report_failure SprayVanilla None 3 in
  let s := rf_run false fA fB (rf_init (Some m)) [false; true; false; true; false; true; false; true] in
  rf_finished s = true /\ rs_shared s = Some {| sm_rem := 2; sm_sent := [2] |}
  /\ fB (fA m) = {| sm_rem := 3; sm_sent := [] |}.
Proof. vm_compute. repeat split. Qed.

(* ---- an event processed while the metadata garbage collection is in progress ---- *)
Lemma gc_step_shape : forall c s ch,
  spray_step c s SeGC ch = Some ((if ss_stored s then s else set_meta_stored s None false), []).
Proof. reflexivity. Qed.

(* it is one of the two histories {GC; event}, {event; GC}: every theorem about histories applies *)
Lemma step_gc_is_history : forall b c s e ch,
  spray_step_gc b c s e ch
  = spray_run c s (if b then [(SeGC, []); (e, ch)] else [(e, ch); (SeGC, [])]).
Proof.
  intros b c s e ch. unfold spray_step_gc. destruct b; cbn [spray_run].
  - rewrite gc_step_shape.
    destruct (spray_step c (if ss_stored s then s else set_meta_stored s None false) e ch) as [[s2 o]|];
      [|reflexivity].
    cbn [app]. rewrite app_nil_r. reflexivity.
  - destruct (spray_step c s e ch) as [[s1 o]|]; [|reflexivity].
    rewrite gc_step_shape. cbn [app]. rewrite app_nil_r. reflexivity.
Qed.

(* while the store knows the bundle before and after the event the collection is invisible, in
   both orders: the event behaves as without it *)
Lemma step_gc_transparent : forall b c s e ch s' o,
  ss_stored s = true -> spray_step c s e ch = Some (s', o) -> ss_stored s' = true ->
  spray_step_gc b c s e ch = Some (s', o).
Proof.
  intros b c s e ch s' o Hs He Hs'. unfold spray_step_gc. destruct b.
  - rewrite gc_step_shape, Hs. exact He.
  - rewrite He, gc_step_shape, Hs'. reflexivity.
Qed.
