(* DtlsrProofs.v - proofs about Model/Dtlsr.v.
   Part 1: paths in an arc list, correctness of the Bellman-Ford reference (minimum path cost,
           None iff unreachable) for every finite graph with non-negative costs.
   Part 2: the routing table of the model (entry iff reachable, entry is an optimal first hop),
           soundness of the table-entry checker used on the Go table.
   Part 3: invariants of the DTLSR state, the graph built from it, link-state replacement.
   Part 4: forwarding. *)
From Coq Require Import ZifyNat ZifyN ZifyBool Permutation.
From DTN Require Import Base Dtlsr.
Local Open Scope nat_scope.

(* ======================================================================================== *)
(* Specification-level notions (Prop)                                                         *)

(* p is a path (walk) of arcs of g from u to v *)
Fixpoint is_path (g : list dt_arc) (u : nat) (p : list dt_arc) (v : nat) : Prop :=
  match p with
  | [] => u = v
  | a :: p' => arc_src a = u /\ In a g /\ is_path g (arc_dst a) p' v
  end.
Definition pcost (p : list dt_arc) : Z := fold_right (fun a acc => arc_cost a + acc)%Z 0%Z p.

Definition wf_graph (n : nat) (g : list dt_arc) : Prop :=
  forall a, In a g -> arc_src a < n /\ arc_dst a < n.
Definition nonneg (g : list dt_arc) : Prop := forall a, In a g -> (0 <= arc_cost a)%Z.

(* x is the minimum cost of a path s ~> t; None: there is no path *)
Definition min_cost (g : list dt_arc) (s t : nat) (r : option Z) : Prop :=
  match r with
  | Some x => (exists p, is_path g s p t /\ pcost p = x) /\ (forall p, is_path g s p t -> (x <= pcost p)%Z)
  | None => forall p, ~ is_path g s p t
  end.

(* vertices visited by a path from u *)
Definition pverts (u : nat) (p : list dt_arc) : list nat := u :: map arc_dst p.

(* h is an optimal first hop from 0 towards d: an arc 0 -> h of g starts a loop-free path to d
   (no vertex visited twice, in particular it never comes back to 0) whose cost is minimal
   among ALL paths 0 ~> d *)
Definition optimal_first_hop (g : list dt_arc) (d h : nat) : Prop :=
  exists a p, arc_src a = 0 /\ arc_dst a = h /\ is_path g 0 (a :: p) d /\ NoDup (pverts 0 (a :: p)) /\
              forall q, is_path g 0 q d -> (pcost (a :: p) <= pcost q)%Z.

(* ======================================================================================== *)
(* Part 1                                                                                     *)

Lemma is_path_app : forall g p q u m v, is_path g u p m -> is_path g m q v -> is_path g u (p ++ q) v.
Proof.
  induction p as [|a p IH]; intros q u m v Hp Hq; cbn in *.
  - subst. exact Hq.
  - destruct Hp as (Hs & Hin & Hp). repeat split; auto. eapply IH; eauto.
Qed.

Lemma is_path_app_inv : forall g p q u v, is_path g u (p ++ q) v -> exists m, is_path g u p m /\ is_path g m q v.
Proof.
  induction p as [|a p IH]; intros q u v H; cbn in *.
  - exists u. split; auto.
  - destruct H as (Hs & Hin & H). destruct (IH _ _ _ H) as (m & H1 & H2). exists m. repeat split; auto.
Qed.

Lemma pcost_cons : forall a p, pcost (a :: p) = (arc_cost a + pcost p)%Z.
Proof. reflexivity. Qed.

Lemma pcost_app : forall p q, pcost (p ++ q) = (pcost p + pcost q)%Z.
Proof.
  induction p as [|a p IH]; intros q.
  - cbn [app]. change (pcost []) with 0%Z. lia.
  - rewrite <- app_comm_cons, !pcost_cons, IH. lia.
Qed.

Lemma pcost_nonneg : forall g p u v, nonneg g -> is_path g u p v -> (0 <= pcost p)%Z.
Proof.
  induction p as [|a p IH]; intros u v Hn H; cbn in *; [lia|].
  destruct H as (_ & Hin & H). fold (pcost p). specialize (IH _ _ Hn H). specialize (Hn _ Hin). lia.
Qed.

Lemma is_path_end_lt : forall n g p u v, wf_graph n g -> u < n -> is_path g u p v -> v < n.
Proof.
  induction p as [|a p IH]; intros u v Hwf Hu H; cbn in *; [subst; auto|].
  destruct H as (_ & Hin & H). apply (IH (arc_dst a) v Hwf); [apply Hwf; auto|exact H].
Qed.

(* --- the order on distances --- *)
Definition ole (a b : option Z) : Prop :=
  match b with
  | None => True
  | Some y => match a with Some x => (x <= y)%Z | None => False end
  end.

Lemma ole_refl : forall a, ole a a.
Proof. destruct a; cbn; auto; lia. Qed.
Lemma ole_trans : forall a b c, ole a b -> ole b c -> ole a c.
Proof. destruct a, b, c; cbn; intros; auto; try lia; contradiction. Qed.
Lemma omin_le_l : forall a b, ole (dt_omin a b) a.
Proof. destruct a, b; cbn; auto; lia. Qed.
Lemma omin_le_r : forall a b, ole (dt_omin a b) b.
Proof. destruct a, b; cbn; auto; lia. Qed.
Lemma omin_cases : forall a b, dt_omin a b = a \/ dt_omin a b = b.
Proof.
  destruct a as [x|], b as [y|]; cbn; auto.
  destruct (Z.min_spec x y) as [[_ ->]|[_ ->]]; auto.
Qed.
Lemma oadd_mono : forall a x c, ole a (Some x) -> ole (dt_oadd a c) (Some (x + c)%Z).
Proof. destruct a; cbn; intros; auto; lia. Qed.

(* --- one relaxation --- *)
Lemma relax_le_self : forall g d v, ole (dt_relax g d v) (dt_get d v).
Proof.
  induction g as [|a g IH]; intros d v; unfold dt_relax in *; cbn.
  - apply ole_refl.
  - destruct (Nat.eqb (arc_dst a) v); auto.
    eapply ole_trans; [apply omin_le_r|apply IH].
Qed.

Lemma relax_le_arc : forall g d v a, In a g -> arc_dst a = v ->
  ole (dt_relax g d v) (dt_oadd (dt_get d (arc_src a)) (arc_cost a)).
Proof.
  induction g as [|b g IH]; intros d v a Hin Hv; [contradiction|].
  unfold dt_relax in *; cbn. destruct Hin as [->|Hin].
  - rewrite Hv, Nat.eqb_refl. apply omin_le_l.
  - destruct (Nat.eqb (arc_dst b) v).
    + eapply ole_trans; [apply omin_le_r|apply IH; auto].
    + apply IH; auto.
Qed.

Lemma relax_cases : forall g d v,
  dt_relax g d v = dt_get d v \/
  exists a, In a g /\ arc_dst a = v /\ dt_relax g d v = dt_oadd (dt_get d (arc_src a)) (arc_cost a).
Proof.
  induction g as [|b g IH]; intros d v; unfold dt_relax in *; cbn; auto.
  destruct (Nat.eqb (arc_dst b) v) eqn:E.
  - apply Nat.eqb_eq in E.
    destruct (omin_cases (dt_oadd (dt_get d (arc_src b)) (arc_cost b))
                         (fold_right (fun a acc => if Nat.eqb (arc_dst a) v
                              then dt_omin (dt_oadd (dt_get d (arc_src a)) (arc_cost a)) acc else acc) (dt_get d v) g)) as [H|H];
      rewrite H.
    + right. exists b. auto.
    + destruct (IH d v) as [H1|(a & Hin & Hv & H1)]; [left; exact H1|].
      right. exists a. auto.
  - destruct (IH d v) as [H1|(a & Hin & Hv & H1)]; [left; exact H1|].
    right. exists a. auto.
Qed.

(* --- tabulated vectors --- *)
Lemma nth_map_seq : forall (A : Type) (f : nat -> A) n v dflt, v < n -> nth v (map f (seq 0 n)) dflt = f v.
Proof.
  intros A f n v dflt Hv.
  rewrite (nth_indep _ dflt (f 0)) by (rewrite map_length, seq_length; exact Hv).
  rewrite map_nth, seq_nth by exact Hv. reflexivity.
Qed.

Lemma get_step : forall n g d v, v < n -> dt_get (dt_bf_step n g d) v = dt_relax g d v.
Proof. intros. unfold dt_get, dt_bf_step. apply nth_map_seq; auto. Qed.
Lemma get_step_out : forall n g d v, n <= v -> dt_get (dt_bf_step n g d) v = None.
Proof. intros. unfold dt_get, dt_bf_step. apply nth_overflow. rewrite map_length, seq_length. auto. Qed.
Lemma get_init : forall n s v, v < n -> dt_get (dt_bf_init n s) v = if Nat.eqb v s then Some 0%Z else None.
Proof. intros. unfold dt_get, dt_bf_init. apply (nth_map_seq _ (fun v => if Nat.eqb v s then Some 0%Z else None)); auto. Qed.
Lemma get_init_out : forall n s v, n <= v -> dt_get (dt_bf_init n s) v = None.
Proof. intros. unfold dt_get, dt_bf_init. apply nth_overflow. rewrite map_length, seq_length. auto. Qed.

Lemma get_iter_out : forall k n g s v, n <= v -> dt_get (dt_bf_iter k n g s) v = None.
Proof. destruct k; intros; cbn [dt_bf_iter]; [apply get_init_out|apply get_step_out]; auto. Qed.

(* --- soundness: every finite distance is the cost of a path --- *)
Lemma bf_iter_sound : forall n g s k v x,
  dt_get (dt_bf_iter k n g s) v = Some x -> exists p, is_path g s p v /\ pcost p = x.
Proof.
  intros n g s. induction k as [|k IH]; intros v x H.
  - destruct (Nat.lt_ge_cases v n) as [Hv|Hv]; [|rewrite get_iter_out in H by auto; discriminate].
    cbn [dt_bf_iter] in H. rewrite get_init in H by auto.
    destruct (Nat.eqb v s) eqn:E; [|discriminate]. apply Nat.eqb_eq in E. inversion H; subst.
    exists []. split; reflexivity.
  - destruct (Nat.lt_ge_cases v n) as [Hv|Hv]; [|rewrite get_iter_out in H by auto; discriminate].
    cbn [dt_bf_iter] in H. rewrite get_step in H by auto.
    destruct (relax_cases g (dt_bf_iter k n g s) v) as [E|(a & Hin & Hd & E)]; rewrite E in H.
    + apply IH; auto.
    + destruct (dt_get (dt_bf_iter k n g s) (arc_src a)) as [y|] eqn:Ey; [|discriminate].
      cbn in H. inversion H; subst.
      destruct (IH _ _ Ey) as (p & Hp & Hc).
      exists (p ++ [a]). split.
      * eapply is_path_app; eauto. cbn. auto.
      * rewrite pcost_app, Hc. cbn. lia.
Qed.

Lemma bf_iter_mono : forall n g s k v, v < n -> ole (dt_get (dt_bf_iter (S k) n g s) v) (dt_get (dt_bf_iter k n g s) v).
Proof. intros. cbn [dt_bf_iter]. rewrite get_step by auto. apply relax_le_self. Qed.

Lemma list_rev_cases : forall (A : Type) (l : list A), l = [] \/ exists q a, l = q ++ [a].
Proof. intros A l. induction l using rev_ind; [left; auto|right; eauto]. Qed.

(* --- completeness for paths of at most k arcs --- *)
Lemma bf_iter_complete : forall n g s, wf_graph n g -> s < n ->
  forall k p v, is_path g s p v -> length p <= k -> ole (dt_get (dt_bf_iter k n g s) v) (Some (pcost p)).
Proof.
  intros n g s Hwf Hs. induction k as [|k IH]; intros p v Hp Hl.
  - destruct p; [|cbn in Hl; lia]. cbn in Hp. subst v. cbn [dt_bf_iter]. rewrite get_init by auto.
    rewrite Nat.eqb_refl. cbn. lia.
  - destruct (list_rev_cases _ p) as [->|(q & a & ->)].
    + cbn in Hp. subst v.
      eapply ole_trans; [apply bf_iter_mono; auto|]. apply (IH [] s); cbn; auto; lia.
    + apply is_path_app_inv in Hp. destruct Hp as (m & Hq & Ha). cbn in Ha.
      destruct Ha as (Hsrc & Hin & Hv). subst m.
      rewrite app_length in Hl. cbn in Hl.
      assert (Hvn : v < n) by (subst v; apply Hwf; auto).
      cbn [dt_bf_iter]. rewrite get_step by auto.
      eapply ole_trans; [apply (relax_le_arc g _ v a); auto|].
      rewrite pcost_app. cbn. replace (arc_cost a + 0)%Z with (arc_cost a) by lia.
      apply oadd_mono. apply IH; auto. lia.
Qed.

(* --- every path can be replaced by one without a repeated vertex that costs no more --- *)

Lemma path_suffix_from : forall g, nonneg g -> forall q b v u,
  is_path g b q v -> In u (pverts b q) ->
  exists q' pre, is_path g u q' v /\ (pcost q' <= pcost q)%Z /\ pverts b q = pre ++ pverts u q'.
Proof.
  intros g Hn. induction q as [|a q IH]; intros b v u Hp Hin.
  - cbn in Hin. destruct Hin as [->|[]]. exists [], []. split; [exact Hp|]. split; [apply Z.le_refl|reflexivity].
  - destruct (Nat.eq_dec b u) as [->|Hne].
    + exists (a :: q), []. split; [exact Hp|]. split; [apply Z.le_refl|reflexivity].
    + cbn in Hin. destruct Hin as [E|Hin]; [congruence|].
      cbn in Hp. destruct Hp as (Hs & Hia & Hp).
      destruct (IH (arc_dst a) v u Hp) as (q' & pre & H1 & H2 & H3); [exact Hin|].
      exists q', (b :: pre). repeat split; auto.
      * rewrite pcost_cons. specialize (Hn _ Hia). lia.
      * unfold pverts in *. cbn. f_equal. exact H3.
Qed.

Lemma NoDup_app_r : forall (A : Type) (l1 l2 : list A), NoDup (l1 ++ l2) -> NoDup l2.
Proof. induction l1; intros; cbn in *; auto. inversion H; subst. auto. Qed.

Lemma path_shorten : forall g, nonneg g -> forall p u v,
  is_path g u p v -> exists p', is_path g u p' v /\ (pcost p' <= pcost p)%Z /\ NoDup (pverts u p').
Proof.
  intros g Hn. induction p as [|a p IH]; intros u v Hp.
  - exists []. repeat split; auto; [lia|]. constructor; [intros []|constructor].
  - cbn in Hp. destruct Hp as (Hs & Hia & Hp).
    destruct (IH _ _ Hp) as (p1 & H1 & H2 & H3).
    destruct (in_dec Nat.eq_dec u (pverts (arc_dst a) p1)) as [Hin|Hnin].
    + destruct (path_suffix_from g Hn p1 (arc_dst a) v u H1 Hin) as (q' & pre & Hq & Hc & Hv).
      exists q'. repeat split; auto.
      * rewrite pcost_cons. specialize (Hn _ Hia). lia.
      * rewrite Hv in H3. eapply NoDup_app_r; eauto.
    + exists (a :: p1). repeat split; auto.
      * rewrite !pcost_cons. lia.
      * unfold pverts in *. cbn. constructor; auto.
Qed.

Lemma pverts_lt : forall n g p u v, wf_graph n g -> u < n -> is_path g u p v -> forall x, In x (pverts u p) -> x < n.
Proof.
  induction p as [|a p IH]; intros u v Hwf Hu Hp x Hx.
  - cbn in Hx. destruct Hx as [->|[]]. auto.
  - cbn in Hx. destruct Hx as [->|Hx]; auto.
    cbn in Hp. destruct Hp as (_ & Hia & Hp).
    eapply (IH (arc_dst a)); eauto. apply Hwf; auto.
Qed.

Lemma simple_path_short : forall n g p u v, wf_graph n g -> u < n -> is_path g u p v -> NoDup (pverts u p) -> length p <= n - 1.
Proof.
  intros n g p u v Hwf Hu Hp Hnd.
  assert (Hl : length (pverts u p) <= length (seq 0 n)).
  { apply NoDup_incl_length; auto. intros x Hx. apply in_seq. split; [lia|]. cbn. eapply pverts_lt; eauto. }
  unfold pverts in Hl. cbn in Hl. rewrite map_length, seq_length in Hl. lia.
Qed.

(* --- Bellman-Ford computes the minimum path cost; None iff unreachable --- *)
Theorem bf_correct : forall n g s t, wf_graph n g -> nonneg g -> s < n -> min_cost g s t (dt_dist n g s t).
Proof.
  intros n g s t Hwf Hn Hs. unfold min_cost, dt_dist, dt_bf.
  assert (Hlow : forall p, is_path g s p t -> ole (dt_get (dt_bf_iter (n - 1) n g s) t) (Some (pcost p))).
  { intros p Hp. destruct (path_shorten g Hn p s t Hp) as (p' & Hp' & Hc & Hnd).
    eapply ole_trans; [apply (bf_iter_complete n g s Hwf Hs (n - 1) p' t Hp')|cbn; exact Hc].
    eapply simple_path_short; eauto. }
  destruct (dt_get (dt_bf_iter (n - 1) n g s) t) as [x|] eqn:E.
  - split; [eapply bf_iter_sound; eauto|]. intros p Hp. specialize (Hlow p Hp). cbn in Hlow. exact Hlow.
  - intros p Hp. specialize (Hlow p Hp). cbn in Hlow. exact Hlow.
Qed.

(* ======================================================================================== *)
(* Part 2: the routing table                                                                  *)

Lemma apsp_row : forall n g s, s < n -> nth s (dt_apsp n g) [] = dt_bf n g s.
Proof. intros. unfold dt_apsp. apply nth_map_seq; auto. Qed.
Lemma mdist_eq : forall n g s t, s < n -> dt_mdist (dt_apsp n g) s t = dt_dist n g s t.
Proof. intros. unfold dt_mdist, dt_dist. rewrite apsp_row; auto. Qed.

Definition no0_b (a : dt_arc) : bool := negb (Nat.eqb (arc_src a) 0) && negb (Nat.eqb (arc_dst a) 0).
Lemma no0_b_spec : forall a, no0_b a = true <-> arc_src a <> 0 /\ arc_dst a <> 0.
Proof.
  intros a. unfold no0_b. rewrite andb_true_iff, !negb_true_iff, !Nat.eqb_neq. tauto.
Qed.

Lemma in_no0 : forall g a, In a (dt_no0 g) <-> In a g /\ no0_b a = true.
Proof. intros. unfold dt_no0. apply filter_In. Qed.

Lemma wf_no0 : forall n g, wf_graph n g -> wf_graph n (dt_no0 g).
Proof. intros n g H a Ha. apply in_no0 in Ha. apply H. tauto. Qed.
Lemma nonneg_no0 : forall g, nonneg g -> nonneg (dt_no0 g).
Proof. intros g H a Ha. apply in_no0 in Ha. apply H. tauto. Qed.

(* a path of g \ 0 is a path of g that avoids 0 *)
Lemma path_no0_incl : forall g p u v, is_path (dt_no0 g) u p v -> is_path g u p v.
Proof.
  induction p as [|a p IH]; intros u v H; cbn in *; auto.
  destruct H as (Hs & Hin & H). apply in_no0 in Hin. repeat split; auto; tauto.
Qed.

Lemma path_no0_avoids : forall g p u v, u <> 0 -> is_path (dt_no0 g) u p v -> ~ In 0 (pverts u p).
Proof.
  induction p as [|a p IH]; intros u v Hu H Hin.
  - cbn in Hin. destruct Hin as [E|[]]. congruence.
  - cbn in H. destruct H as (Hs & Hia & H). apply in_no0 in Hia. destruct Hia as (_ & Hb).
    apply no0_b_spec in Hb. destruct Hb as (_ & Hd).
    cbn in Hin. destruct Hin as [E|Hin]; [congruence|].
    apply (IH (arc_dst a) v Hd H). exact Hin.
Qed.

Lemma path_avoiding_no0 : forall g p u v, is_path g u p v -> ~ In 0 (pverts u p) -> is_path (dt_no0 g) u p v.
Proof.
  induction p as [|a p IH]; intros u v H Hn; cbn [is_path] in *; auto.
  destruct H as (Hs & Hia & H).
  assert (Hu : u <> 0) by (intros E; apply Hn; left; auto).
  assert (Hd : arc_dst a <> 0) by (intros E; apply Hn; right; left; auto).
  split; [exact Hs|]. split.
  - apply in_no0. split; auto. apply no0_b_spec. split; congruence.
  - apply IH; auto. intros Hin. apply Hn. right. exact Hin.
Qed.

(* dt_opt_arc is sound and complete for the predicate *)
Lemma opt_arc_sound : forall n g d a, wf_graph n g -> nonneg g -> 0 < n ->
  In a g -> dt_opt_arc (dt_bf n g 0) (dt_apsp n (dt_no0 g)) d a = true -> optimal_first_hop g d (arc_dst a).
Proof.
  intros n g d a Hwf Hnn Hn Hin H. unfold dt_opt_arc in H.
  apply andb_true_iff in H. destruct H as (H1 & H). apply andb_true_iff in H1. destruct H1 as (Hs & Hh).
  apply Nat.eqb_eq in Hs. apply negb_true_iff, Nat.eqb_neq in Hh.
  assert (Hhn : arc_dst a < n) by (apply Hwf; auto).
  rewrite mdist_eq in H by auto.
  destruct (dt_dist n (dt_no0 g) (arc_dst a) d) as [x|] eqn:Ex; [|discriminate].
  destruct (dt_get (dt_bf n g 0) d) as [dd|] eqn:Ed; [|discriminate].
  apply Z.eqb_eq in H.
  pose proof (bf_correct n (dt_no0 g) (arc_dst a) d (wf_no0 _ _ Hwf) (nonneg_no0 _ Hnn) Hhn) as C0.
  rewrite Ex in C0. cbn in C0. destruct C0 as ((p & Hp & Hc) & Hmin0).
  pose proof (bf_correct n g 0 d Hwf Hnn Hn) as C. unfold dt_dist in C. rewrite Ed in C. cbn in C.
  destruct C as (_ & Hmin).
  destruct (path_shorten (dt_no0 g) (nonneg_no0 _ Hnn) p _ _ Hp) as (p' & Hp' & Hc' & Hnd).
  exists a, p'. split; [exact Hs|]. split; [reflexivity|]. split; [|split].
  - cbn. split; [exact Hs|]. split; [exact Hin|]. apply path_no0_incl; auto.
  - unfold pverts. cbn [map]. constructor; [|exact Hnd].
    apply (path_no0_avoids g p' (arc_dst a) d Hh Hp').
  - intros q Hq. rewrite pcost_cons. specialize (Hmin q Hq). lia.
Qed.

Lemma opt_arc_complete : forall n g d h, wf_graph n g -> nonneg g -> 0 < n ->
  optimal_first_hop g d h ->
  exists a, In a g /\ arc_dst a = h /\ dt_opt_arc (dt_bf n g 0) (dt_apsp n (dt_no0 g)) d a = true.
Proof.
  intros n g d h Hwf Hnn Hn (a & p & Hs & Hd & Hp & Hnd & Hmin).
  assert (Hpa := Hp). cbn in Hp. destruct Hp as (_ & Hin & Hp).
  exists a. split; [exact Hin|]. split; [exact Hd|].
  assert (Hhn : arc_dst a < n) by (apply Hwf; auto).
  unfold pverts in Hnd. cbn in Hnd. inversion Hnd as [|? ? Hn0 Hnd']; subst.
  assert (Hh0 : arc_dst a <> 0) by (intros E; apply Hn0; left; auto).
  assert (Hp0 : is_path (dt_no0 g) (arc_dst a) p d) by (apply path_avoiding_no0; auto).
  unfold dt_opt_arc. rewrite Hs, Nat.eqb_refl. cbn [andb].
  replace (negb (Nat.eqb (arc_dst a) 0)) with true by (symmetry; apply negb_true_iff, Nat.eqb_neq; auto).
  cbn [andb]. rewrite mdist_eq by auto.
  pose proof (bf_correct n (dt_no0 g) (arc_dst a) d (wf_no0 _ _ Hwf) (nonneg_no0 _ Hnn) Hhn) as C0.
  pose proof (bf_correct n g 0 d Hwf Hnn Hn) as C. unfold dt_dist in C.
  destruct (dt_dist n (dt_no0 g) (arc_dst a) d) as [x|]; cbn in C0; [|exfalso; eapply C0; eauto].
  destruct (dt_get (dt_bf n g 0) d) as [dd|]; cbn in C; [|exfalso; eapply C; eauto].
  destruct C0 as ((px & Hpx & Hcx) & Hmin0). destruct C as ((pd & Hpd & Hcd) & Hmind).
  apply Z.eqb_eq.
  specialize (Hmin0 p Hp0). specialize (Hmind _ Hpa). rewrite pcost_cons in Hmind.
  assert (Hq : is_path g 0 (a :: px) d).
  { cbn. split; [exact Hs|]. split; [exact Hin|]. apply path_no0_incl; auto. }
  pose proof (Hmin _ Hq) as Hm1. pose proof (Hmin _ Hpd) as Hm2. rewrite !pcost_cons in Hm1, Hm2.
  rewrite (pcost_cons a px) in Hm1. lia.
Qed.

(* the checker applied to the Go table decides the predicate *)
Theorem ofh_b_iff : forall n g d h, wf_graph n g -> nonneg g -> 0 < n ->
  (dt_ofh_b n g d h = true <-> optimal_first_hop g d h).
Proof.
  intros n g d h Hwf Hnn Hn. unfold dt_ofh_b. rewrite existsb_exists. split.
  - intros (a & Hin & H). apply andb_true_iff in H. destruct H as (Hh & H). apply Nat.eqb_eq in Hh.
    subst h. eapply opt_arc_sound; eauto.
  - intros H. destruct (opt_arc_complete n g d h Hwf Hnn Hn H) as (a & Hin & Hd & Ho).
    exists a. split; auto. rewrite Hd, Nat.eqb_refl, Ho. reflexivity.
Qed.

Lemma reachable_b_iff : forall n g d, wf_graph n g -> nonneg g -> 0 < n ->
  (dt_reachable_b n g d = true <-> exists p, is_path g 0 p d).
Proof.
  intros n g d Hwf Hnn Hn. unfold dt_reachable_b.
  pose proof (bf_correct n g 0 d Hwf Hnn Hn) as C.
  destruct (dt_dist n g 0 d); cbn in C.
  - split; auto. intros _. destruct C as ((p & Hp & _) & _). eauto.
  - split; [discriminate|]. intros (p & Hp). exfalso. eapply C; eauto.
Qed.

(* a reachable destination other than 0 has an optimal first hop *)
Lemma ofh_exists : forall n g d, wf_graph n g -> nonneg g -> 0 < n -> d <> 0 ->
  (exists p, is_path g 0 p d) -> exists h, optimal_first_hop g d h.
Proof.
  intros n g d Hwf Hnn Hn Hd (p & Hp).
  pose proof (bf_correct n g 0 d Hwf Hnn Hn) as C.
  destruct (dt_dist n g 0 d) as [x|]; cbn in C; [|exfalso; eapply C; eauto].
  destruct C as ((p0 & Hp0 & Hc0) & Hmin).
  destruct (path_shorten g Hnn p0 0 d Hp0) as (p1 & Hp1 & Hc1 & Hnd).
  destruct p1 as [|a p1]; [cbn in Hp1; congruence|].
  exists (arc_dst a), a, p1. assert (Hp1' := Hp1). cbn in Hp1. destruct Hp1 as (Hs & _ & _).
  split; [exact Hs|]. split; [reflexivity|]. split; [exact Hp1'|]. split; [exact Hnd|].
  intros q Hq. specialize (Hmin q Hq). lia.
Qed.

Lemma first_hop_some : forall n g d h, wf_graph n g -> nonneg g -> 0 < n ->
  dt_first_hop (dt_bf n g 0) (dt_apsp n (dt_no0 g)) g d = Some h -> optimal_first_hop g d h.
Proof.
  intros n g d h Hwf Hnn Hn H. unfold dt_first_hop in H.
  destruct (find _ g) as [a|] eqn:E; [|discriminate]. inversion H; subst.
  apply find_some in E. destruct E as (Hin & Ho). eapply opt_arc_sound; eauto.
Qed.

Lemma first_hop_none : forall n g d, wf_graph n g -> nonneg g -> 0 < n -> d <> 0 ->
  dt_first_hop (dt_bf n g 0) (dt_apsp n (dt_no0 g)) g d = None -> forall p, ~ is_path g 0 p d.
Proof.
  intros n g d Hwf Hnn Hn Hd H p Hp. unfold dt_first_hop in H.
  destruct (find _ g) as [a|] eqn:E; [discriminate|].
  destruct (ofh_exists n g d Hwf Hnn Hn Hd (ex_intro _ p Hp)) as (h & Hh).
  destruct (opt_arc_complete n g d h Hwf Hnn Hn Hh) as (a & Hin & _ & Ho).
  pose proof (find_none _ _ E a Hin) as F. rewrite Ho in F. discriminate.
Qed.

Lemma ofh_path : forall g d h, optimal_first_hop g d h -> exists p, is_path g 0 p d.
Proof. intros g d h (a & p & _ & _ & Hp & _). eauto. Qed.

Lemma in_table_idx : forall n g d h,
  In (d, h) (dt_table_idx n g) <->
  (1 <= d < n /\ dt_first_hop (dt_bf n g 0) (dt_apsp n (dt_no0 g)) g d = Some h).
Proof.
  intros n g d h. unfold dt_table_idx. rewrite in_flat_map. split.
  - intros (d' & Hd' & Hin). apply in_seq in Hd'.
    destruct (dt_first_hop _ _ g d') as [h'|] eqn:E; [|contradiction].
    destruct Hin as [Heq|[]]. inversion Heq; subst. split; [lia|exact E].
  - intros (Hd & E). exists d. split; [apply in_seq; lia|]. rewrite E. left. reflexivity.
Qed.

(* the model's table over indices: an entry for d iff d is reachable, and the entry is optimal *)
Theorem table_idx_spec : forall n g, wf_graph n g -> nonneg g -> 0 < n ->
  (forall d h, In (d, h) (dt_table_idx n g) -> 1 <= d < n /\ optimal_first_hop g d h) /\
  (forall d, 1 <= d < n -> ((exists h, In (d, h) (dt_table_idx n g)) <-> (exists p, is_path g 0 p d))) /\
  (forall d h1 h2, In (d, h1) (dt_table_idx n g) -> In (d, h2) (dt_table_idx n g) -> h1 = h2).
Proof.
  intros n g Hwf Hnn Hn. split; [|split].
  - intros d h H. apply in_table_idx in H. destruct H as (Hd & H). split; auto. eapply first_hop_some; eauto.
  - intros d Hd. split.
    + intros (h & H). apply in_table_idx in H. destruct H as (_ & H).
      eapply ofh_path. eapply first_hop_some; eauto.
    + intros (p & Hp).
      destruct (dt_first_hop (dt_bf n g 0) (dt_apsp n (dt_no0 g)) g d) as [h|] eqn:E.
      * exists h. apply in_table_idx. auto.
      * exfalso. eapply (first_hop_none n g d); eauto. lia.
  - intros d h1 h2 H1 H2. apply in_table_idx in H1, H2. destruct H1 as (_ & H1), H2 as (_ & H2). congruence.
Qed.

Lemma check_entries_eq : forall n g es,
  dt_check_entries n g es = map (fun dh => dt_ofh_b n g (fst dh) (snd dh)) es.
Proof. reflexivity. Qed.
Lemma reachable_all_eq : forall n g,
  dt_reachable_all n g = map (dt_reachable_b n g) (seq 0 n).
Proof. reflexivity. Qed.

(* ======================================================================================== *)
(* Part 3: the DTLSR state, its invariants, the graph computeRoutingTable builds              *)

Definition idx_ok (self : N) (idx : list N) : Prop := (exists r, idx = self :: r) /\ NoDup idx.

(* index starts with the own ID and has no duplicates; every stored link-state record's ID is indexed *)
Definition dt_inv (st : dt_state) : Prop :=
  idx_ok (dt_self st) (dt_index st) /\ (forall d, In d (dt_recv st) -> In (pd_id d) (dt_index st)).

(* every loss time lies in the past of [now] ("link lost at a past time") *)
Definition dt_past (st : dt_state) (now : N) : Prop :=
  (forall p t, In (p, t) (dt_own st) -> (t <= now)%N) /\
  (forall d p t, In d (dt_recv st) -> In (p, t) (pd_peers d) -> (t <= now)%N).

Lemma existsb_eqb_in : forall x l, existsb (N.eqb x) l = true <-> In x l.
Proof.
  intros x l. rewrite existsb_exists. split.
  - intros (y & Hy & E). apply N.eqb_eq in E. subst. auto.
  - intros H. exists x. split; auto. apply N.eqb_refl.
Qed.

Lemma new_node_incl : forall id idx x, In x idx -> In x (dt_new_node id idx).
Proof. intros. unfold dt_new_node. destruct (existsb _ idx); auto. apply in_or_app; auto. Qed.
Lemma new_node_in : forall id idx, In id (dt_new_node id idx).
Proof.
  intros. unfold dt_new_node. destruct (existsb (N.eqb id) idx) eqn:E.
  - apply existsb_eqb_in; auto.
  - apply in_or_app. right. left. auto.
Qed.
Lemma new_node_ok : forall self id idx, idx_ok self idx -> idx_ok self (dt_new_node id idx).
Proof.
  intros self id idx ((r & Hr) & Hnd). unfold dt_new_node.
  destruct (existsb (N.eqb id) idx) eqn:E; [split; eauto|].
  split.
  - exists (r ++ [id]). rewrite Hr. reflexivity.
  - assert (Hni : ~ In id idx) by (intros Hin; apply existsb_eqb_in in Hin; congruence).
    clear E Hr. induction idx as [|y idx IH]; cbn.
    + constructor; [intros []|constructor].
    + inversion Hnd; subst. constructor.
      * intros Hin. apply in_app_or in Hin. destruct Hin as [Hin|[Hin|[]]]; [contradiction|].
        apply Hni. left. auto.
      * apply IH; auto. intros Hin. apply Hni. right. auto.
Qed.
Lemma new_nodes_incl : forall ids idx x, In x idx -> In x (dt_new_nodes ids idx).
Proof.
  induction ids as [|y ids IH]; intros idx x H; cbn; auto.
  apply IH. apply new_node_incl; auto.
Qed.
Lemma new_nodes_ok : forall self ids idx, idx_ok self idx -> idx_ok self (dt_new_nodes ids idx).
Proof.
  induction ids as [|y ids IH]; intros idx H; cbn; auto.
  apply IH. apply new_node_ok; auto.
Qed.

Lemma recv_get_in : forall id l d, dt_recv_get id l = Some d -> In d l /\ pd_id d = id.
Proof.
  induction l as [|x l IH]; intros d H; cbn in *; [discriminate|].
  destruct (N.eqb_spec (pd_id x) id) as [E|E].
  - inversion H; subst. auto.
  - destruct (IH d H). auto.
Qed.
Lemma recv_get_none : forall id l, dt_recv_get id l = None -> forall d, In d l -> pd_id d <> id.
Proof.
  induction l as [|x l IH]; intros H d Hin; cbn in *; [contradiction|].
  destruct (N.eqb_spec (pd_id x) id) as [E|E]; [discriminate|].
  destruct Hin as [->|Hin]; auto.
Qed.
Lemma recv_set_in : forall nw l d, In d (dt_recv_set nw l) -> d = nw \/ In d l.
Proof.
  induction l as [|x l IH]; intros d H; cbn in *.
  - destruct H as [->|[]]; auto.
  - destruct (pd_id x =? pd_id nw)%N; cbn in H.
    + destruct H as [->|H]; auto.
    + destruct H as [->|H]; auto. destruct (IH d H); auto.
Qed.

Lemma dt_step_self : forall st o, dt_self (dt_step st o) = dt_self st.
Proof.
  intros st [d|p now|p now|now pt|now|now]; cbn; auto.
  - unfold dt_notify. destruct (dt_recv_get _ _); [destruct (dt_should_replace _ _)|]; reflexivity.
  - unfold dt_recompute_cron. destruct (_ || _); reflexivity.
Qed.

Lemma dt_init_inv : forall self ts, dt_inv (dt_init self ts).
Proof.
  intros. split; [split|].
  - exists []. reflexivity.
  - cbn. constructor; [intros []|constructor].
  - cbn. intros d [].
Qed.

Lemma dt_step_inv : forall st o, dt_inv st -> dt_inv (dt_step st o).
Proof.
  intros st o (Hok & Hrecv). destruct o as [d|p now|p now|now pt|now|now]; cbn.
  - unfold dt_notify. destruct (dt_recv_get (pd_id d) (dt_recv st)) as [old|] eqn:E.
    + destruct (dt_should_replace d old); [|split; auto].
      split; cbn.
      * apply new_nodes_ok; auto.
      * intros d' H. apply recv_set_in in H. apply new_nodes_incl. destruct H as [->|H]; auto.
        apply recv_get_in in E. destruct E as (Ho & Hid). rewrite <- Hid. auto.
    + split; cbn.
      * apply new_nodes_ok, new_node_ok; auto.
      * intros d' H. apply recv_set_in in H. apply new_nodes_incl. destruct H as [->|H].
        -- apply new_node_in.
        -- apply new_node_incl; auto.
  - split; cbn; [apply new_node_ok; auto|]. intros d H. apply new_node_incl; auto.
  - split; cbn; auto.
  - split; cbn; auto.
  - split; cbn; auto.
  - unfold dt_recompute_cron. destruct (_ || _); split; cbn; auto.
Qed.

Lemma dt_run_inv : forall ops st, dt_inv st -> dt_inv (dt_run st ops).
Proof. induction ops as [|o ops IH]; intros st H; cbn; auto. apply IH, dt_step_inv; auto. Qed.

(* --- node indices --- *)
Lemma find_index_lt : forall id idx i, dt_find_index id idx = Some i -> i < length idx.
Proof.
  induction idx as [|x idx IH]; intros i H; cbn in *; [discriminate|].
  destruct (x =? id)%N; [inversion H; lia|].
  destruct (dt_find_index id idx) as [j|]; [|discriminate]. inversion H; subst. specialize (IH j eq_refl). lia.
Qed.
Lemma find_index_nth : forall id idx i, dt_find_index id idx = Some i -> nth_error idx i = Some id.
Proof.
  induction idx as [|x idx IH]; intros i H; cbn in *; [discriminate|].
  destruct (N.eqb_spec x id) as [E|E]; [inversion H; subst; reflexivity|].
  destruct (dt_find_index id idx) as [j|]; [|discriminate]. inversion H; subst. cbn. auto.
Qed.
Lemma find_index_in : forall id idx, In id idx -> exists i, dt_find_index id idx = Some i.
Proof.
  induction idx as [|x idx IH]; intros H; [contradiction|]. cbn.
  destruct (N.eqb_spec x id) as [E|E]; [eauto|].
  destruct H as [H|H]; [congruence|]. destruct (IH H) as (i & ->). eauto.
Qed.
Lemma node_index_lt : forall id idx, 0 < length idx -> dt_node_index id idx < length idx.
Proof.
  intros id idx H. unfold dt_node_index. destruct (dt_find_index id idx) eqn:E; auto.
  eapply find_index_lt; eauto.
Qed.
Lemma node_index_nonzero : forall self r id, id <> self -> In id (self :: r) -> dt_node_index id (self :: r) <> 0.
Proof.
  intros self r id Hne Hin. unfold dt_node_index.
  destruct (find_index_in _ _ Hin) as (i & E). rewrite E.
  cbn in E. destruct (N.eqb_spec self id) as [E1|E1]; [congruence|].
  destruct (dt_find_index id r); inversion E. lia.
Qed.

(* --- the graph --- *)
Lemma edge_cost_nonneg : forall now t, (t <= now)%N -> (0 <= dt_edge_cost now t)%Z.
Proof. intros. unfold dt_edge_cost. destruct (t =? 0)%N; lia. Qed.

Lemma in_arcs_of : forall idx now src peers a, In a (dt_arcs_of idx now src peers) ->
  exists p t, In (p, t) peers /\ a = (src, dt_node_index p idx, dt_edge_cost now t).
Proof.
  intros idx now src peers a H. unfold dt_arcs_of in H. apply in_map_iff in H.
  destruct H as ((p & t) & E & Hin). exists p, t. cbn in E. auto.
Qed.

Lemma in_fold_add_arc : forall l acc a, In a (fold_left dt_add_arc l acc) -> In a l \/ In a acc.
Proof.
  induction l as [|b l IH]; intros acc a H; cbn in *; auto.
  destruct (IH _ _ H) as [H1|H1]; auto.
  unfold dt_add_arc in H1. destruct H1 as [->|H1]; auto.
  apply filter_In in H1. tauto.
Qed.

Lemma graph_arc_raw : forall st now a, In a (dt_graph st now) -> In a (dt_raw_arcs st now).
Proof. intros st now a H. apply in_fold_add_arc in H. destruct H as [H|[]]; auto. Qed.

(* where an arc of the graph comes from *)
Lemma raw_arc_origin : forall st now a, In a (dt_raw_arcs st now) ->
  (exists p t, In (p, t) (dt_own st) /\ a = (0, dt_node_index p (dt_index st), dt_edge_cost now t)) \/
  (exists d p t, In d (dt_recv st) /\ In (p, t) (pd_peers d) /\
     a = (dt_node_index (pd_id d) (dt_index st), dt_node_index p (dt_index st), dt_edge_cost now t)).
Proof.
  intros st now a H. unfold dt_raw_arcs in H. apply in_app_or in H. destruct H as [H|H].
  - left. apply in_arcs_of in H. exact H.
  - right. apply in_flat_map in H. destruct H as (d & Hd & H). apply in_arcs_of in H.
    destruct H as (p & t & Hp & E). exists d, p, t. auto.
Qed.

Lemma graph_wf : forall st now, dt_inv st -> wf_graph (length (dt_index st)) (dt_graph st now).
Proof.
  intros st now (((r & Hr) & _) & _) a Ha.
  assert (Hl : 0 < length (dt_index st)) by (rewrite Hr; cbn; lia).
  apply graph_arc_raw, raw_arc_origin in Ha.
  destruct Ha as [(p & t & _ & ->)|(d & p & t & _ & _ & ->)]; cbn; split; auto using node_index_lt.
Qed.

Lemma graph_nonneg : forall st now, dt_past st now -> nonneg (dt_graph st now).
Proof.
  intros st now (Ho & Hr) a Ha. apply graph_arc_raw, raw_arc_origin in Ha.
  destruct Ha as [(p & t & Hin & ->)|(d & p & t & Hd & Hin & ->)]; cbn; apply edge_cost_nonneg; eauto.
Qed.

(* arcs leaving vertex 0 are the node's own links (unless a record claiming the own ID is stored):
   cost 0 for a live link, now - t for a link lost at t *)
Lemma graph_arc0_own : forall st now a, dt_inv st -> dt_recv_get (dt_self st) (dt_recv st) = None ->
  In a (dt_graph st now) -> arc_src a = 0 ->
  exists p t, In (p, t) (dt_own st) /\ arc_dst a = dt_node_index p (dt_index st) /\ arc_cost a = dt_edge_cost now t.
Proof.
  intros st now a (((r & Hr) & _) & Hrecv) Hnone Ha Hs. apply graph_arc_raw, raw_arc_origin in Ha.
  destruct Ha as [(p & t & Hin & ->)|(d & p & t & Hd & Hin & ->)].
  - exists p, t. auto.
  - exfalso. cbn in Hs. pose proof (recv_get_none _ _ Hnone d Hd) as Hne.
    specialize (Hrecv d Hd). rewrite Hr in Hs, Hrecv.
    eapply node_index_nonzero; eauto.
Qed.

(* --- the routing table over endpoint IDs --- *)
Lemma in_table_of : forall idx t dest hop, In (dest, hop) (dt_table_of idx t) ->
  exists d h, In (d, h) t /\ dest = nth d idx 0%N /\ hop = nth h idx 0%N.
Proof.
  intros idx t dest hop H. unfold dt_table_of in H. apply in_map_iff in H.
  destruct H as ((d & h) & E & Hin). cbn in E. inversion E. eauto.
Qed.

Lemma ofh_hop_lt : forall n g d h, wf_graph n g -> optimal_first_hop g d h -> h < n.
Proof.
  intros n g d h Hwf (a & p & _ & Hd & Hp & _). cbn in Hp. destruct Hp as (_ & Hin & _).
  subst h. apply Hwf; auto.
Qed.

Theorem table_spec : forall st now, dt_inv st -> dt_past st now ->
  let idx := dt_index st in
  let g := dt_graph st now in
  let tbl := dt_table (dt_compute st now) in
  (forall dest hop, In (dest, hop) tbl ->
     exists d h, nth_error idx d = Some dest /\ nth_error idx h = Some hop /\ 1 <= d /\ optimal_first_hop g d h) /\
  (forall d dest, 1 <= d -> nth_error idx d = Some dest ->
     ((exists hop, In (dest, hop) tbl) <-> (exists p, is_path g 0 p d))) /\
  (forall dest h1 h2, In (dest, h1) tbl -> In (dest, h2) tbl -> h1 = h2).
Proof.
  intros st now Hinv Hpast idx g tbl.
  pose proof (graph_wf st now Hinv) as Hwf. pose proof (graph_nonneg st now Hpast) as Hnn.
  fold idx g in Hwf, Hnn.
  assert (Hnd : NoDup idx) by (destruct Hinv as ((_ & H) & _); exact H).
  assert (Hn : 0 < length idx) by (destruct Hinv as (((r & Hr) & _) & _); unfold idx; rewrite Hr; cbn; lia).
  destruct (table_idx_spec (length idx) g Hwf Hnn Hn) as (T1 & T2 & T3).
  assert (Htbl : tbl = dt_table_of idx (dt_table_idx (length idx) g)) by reflexivity.
  assert (Hfwd : forall dest hop, In (dest, hop) tbl ->
     exists d h, In (d, h) (dt_table_idx (length idx) g) /\ nth_error idx d = Some dest /\ nth_error idx h = Some hop /\
                 1 <= d < length idx /\ optimal_first_hop g d h).
  { intros dest hop H. rewrite Htbl in H. apply in_table_of in H. destruct H as (d & h & Hin & -> & ->).
    destruct (T1 d h Hin) as (Hd & Ho). pose proof (ofh_hop_lt _ _ _ _ Hwf Ho) as Hh.
    exists d, h. split; [exact Hin|]. split; [apply nth_error_nth'; lia|]. split; [apply nth_error_nth'; lia|]. auto. }
  split; [|split].
  - intros dest hop H. destruct (Hfwd dest hop H) as (d & h & _ & H1 & H2 & H3 & H4). exists d, h. repeat split; auto; lia.
  - intros d dest Hd Hnth. split.
    + intros (hop & H). destruct (Hfwd dest hop H) as (d' & h & Hin & H1 & _ & H3 & _).
      assert (d' = d).
      { apply (proj1 (NoDup_nth_error idx) Hnd); [lia|]. rewrite H1, Hnth. reflexivity. }
      subst d'. apply (proj1 (T2 d H3)). eauto.
    + intros Hp. assert (Hdn : d < length idx) by (apply nth_error_Some; rewrite Hnth; discriminate).
      destruct (proj2 (T2 d (conj Hd Hdn)) Hp) as (h & Hin).
      exists (nth h idx 0%N). rewrite Htbl. unfold dt_table_of. apply in_map_iff. exists (d, h). split; auto.
      cbn. f_equal. apply nth_error_nth. exact Hnth.
  - intros dest h1 h2 H1 H2.
    destruct (Hfwd _ _ H1) as (d1 & x1 & I1 & N1 & M1 & L1 & _).
    destruct (Hfwd _ _ H2) as (d2 & x2 & I2 & N2 & M2 & L2 & _).
    assert (d1 = d2) by (apply (proj1 (NoDup_nth_error idx) Hnd); [lia|congruence]). subst d2.
    assert (x1 = x2) by (eapply T3; eauto). subst x2. congruence.
Qed.

(* ======================================================================================== *)
(* Part 3b: link-state replacement                                                            *)

(* what one arriving record does to the stored record of its sender *)
Definition dt_upd (o : option dt_pd) (x : dt_pd) : option dt_pd :=
  match o with
  | None => Some x
  | Some y => if dt_should_replace x y then Some x else Some y
  end.

(* the records from node [id] in an operation history, in arrival order *)
Definition notifs_of (id : N) (ops : list dt_op) : list dt_pd :=
  flat_map (fun o => match o with DtNotify d => if (pd_id d =? id)%N then [d] else [] | _ => [] end) ops.

(* b is the first record of l carrying the greatest timestamp *)
Definition first_max (l : list dt_pd) (b : dt_pd) : Prop :=
  exists l1 l2, l = l1 ++ b :: l2 /\ (forall x, In x l1 -> (pd_ts x < pd_ts b)%N) /\ (forall x, In x l2 -> (pd_ts x <= pd_ts b)%N).

Lemma recv_get_set : forall id nw l,
  dt_recv_get id (dt_recv_set nw l) = if (pd_id nw =? id)%N then Some nw else dt_recv_get id l.
Proof.
  induction l as [|x l IH]; cbn.
  - reflexivity.
  - destruct (N.eqb_spec (pd_id x) (pd_id nw)) as [E|E]; cbn.
    + rewrite E. destruct (pd_id nw =? id)%N; reflexivity.
    + destruct (N.eqb_spec (pd_id x) id) as [E1|E1].
      * destruct (N.eqb_spec (pd_id nw) id) as [E2|E2]; [congruence|reflexivity].
      * exact IH.
Qed.

Lemma step_recv : forall st o id,
  dt_recv_get id (dt_recv (dt_step st o)) =
  match o with
  | DtNotify d => if (pd_id d =? id)%N then dt_upd (dt_recv_get id (dt_recv st)) d else dt_recv_get id (dt_recv st)
  | _ => dt_recv_get id (dt_recv st)
  end.
Proof.
  intros st o id. destruct o as [d|p now|p now|now pt|now|now]; cbn; auto.
  - unfold dt_notify. destruct (N.eqb_spec (pd_id d) id) as [E|E].
    + subst id. destruct (dt_recv_get (pd_id d) (dt_recv st)) as [old|] eqn:G; cbn.
      * destruct (dt_should_replace d old); cbn; [rewrite recv_get_set, N.eqb_refl; reflexivity|exact G].
      * rewrite recv_get_set, N.eqb_refl. reflexivity.
    + destruct (dt_recv_get (pd_id d) (dt_recv st)) as [old|]; [destruct (dt_should_replace d old)|]; cbn;
        try rewrite recv_get_set; try reflexivity;
        destruct (N.eqb_spec (pd_id d) id); congruence.
  - unfold dt_recompute_cron. destruct (_ || _); reflexivity.
Qed.

Lemma run_recv : forall ops st id,
  dt_recv_get id (dt_recv (dt_run st ops)) = fold_left dt_upd (notifs_of id ops) (dt_recv_get id (dt_recv st)).
Proof.
  induction ops as [|o ops IH]; intros st id; [reflexivity|].
  change (dt_run st (o :: ops)) with (dt_run (dt_step st o) ops).
  rewrite IH, step_recv. unfold notifs_of. cbn [flat_map]. rewrite fold_left_app.
  destruct o as [d| | | | |]; cbn [fold_left app]; auto. destruct (pd_id d =? id)%N; reflexivity.
Qed.

Lemma fold_upd_some : forall l y b, fold_left dt_upd l (Some y) = Some b ->
  (b = y /\ forall x, In x l -> (pd_ts x <= pd_ts y)%N) \/
  (exists l1 l2, l = l1 ++ b :: l2 /\ (pd_ts y < pd_ts b)%N /\
      (forall x, In x l1 -> (pd_ts x < pd_ts b)%N) /\ (forall x, In x l2 -> (pd_ts x <= pd_ts b)%N)).
Proof.
  induction l as [|x l IH]; intros y b H; cbn in H.
  - inversion H; subst. left. split; auto. intros x [].
  - unfold dt_should_replace in H. destruct (N.ltb_spec (pd_ts y) (pd_ts x)) as [L|L].
    + right. destruct (IH _ _ H) as [(-> & Hall)|(l1 & l2 & -> & Hlt & H1 & H2)].
      * exists [], l. repeat split; auto. intros z [].
      * exists (x :: l1), l2. repeat split; auto; [lia|]. intros z [->|Hz]; auto.
    + destruct (IH _ _ H) as [(-> & Hall)|(l1 & l2 & -> & Hlt & H1 & H2)].
      * left. split; auto. intros z [->|Hz]; auto.
      * right. exists (x :: l1), l2. repeat split; auto. intros z [->|Hz]; auto. lia.
Qed.

Lemma fold_upd_none : forall l, l <> [] -> exists b, fold_left dt_upd l None = Some b /\ first_max l b.
Proof.
  intros [|x l] Hne; [congruence|]. cbn.
  assert (Hs : exists b, fold_left dt_upd l (Some x) = Some b).
  { clear Hne. revert x. induction l as [|z l IH]; intros x; cbn; eauto.
    destruct (dt_should_replace z x); auto. }
  destruct Hs as (b & Hb). exists b. split; auto.
  destruct (fold_upd_some _ _ _ Hb) as [(-> & Hall)|(l1 & l2 & -> & Hlt & H1 & H2)].
  - exists [], l. repeat split; auto. intros z [].
  - exists (x :: l1), l2. repeat split; auto. intros z [->|Hz]; auto.
Qed.

(* For EVERY history (any interleaving with other operations, any arrival order), the record
   stored for node id is the first-arrived one among those with the greatest timestamp. *)
Theorem replace_spec : forall ops st id, dt_recv_get id (dt_recv st) = None ->
  match dt_recv_get id (dt_recv (dt_run st ops)) with
  | Some b => first_max (notifs_of id ops) b
  | None => notifs_of id ops = []
  end.
Proof.
  intros ops st id H0. rewrite run_recv, H0.
  destruct (notifs_of id ops) as [|x l] eqn:E; [reflexivity|].
  destruct (fold_upd_none (x :: l)) as (b & -> & Hb); [discriminate|exact Hb].
Qed.

Lemma first_max_in : forall l b, first_max l b -> In b l.
Proof. intros l b (l1 & l2 & -> & _). apply in_or_app. right. left. auto. Qed.
Lemma first_max_ge : forall l b x, first_max l b -> In x l -> (pd_ts x <= pd_ts b)%N.
Proof.
  intros l b x (l1 & l2 & -> & H1 & H2) Hin. apply in_app_or in Hin.
  destruct Hin as [Hin|[->|Hin]]; auto; [specialize (H1 _ Hin)|]; lia.
Qed.

(* the arrival order does not matter for the timestamp that wins, nor for the record when the
   timestamps are pairwise distinct *)
Theorem replace_order_independent : forall l1 l2 b1 b2, Permutation l1 l2 -> first_max l1 b1 -> first_max l2 b2 ->
  pd_ts b1 = pd_ts b2 /\ (NoDup (map pd_ts l1) -> b1 = b2).
Proof.
  intros l1 l2 b1 b2 Hp H1 H2.
  assert (I1 : In b1 l2) by (eapply Permutation_in; eauto using first_max_in).
  assert (I2 : In b2 l1) by (eapply Permutation_in; [apply Permutation_sym|]; eauto using first_max_in).
  pose proof (first_max_ge _ _ _ H2 I1). pose proof (first_max_ge _ _ _ H1 I2).
  assert (E : pd_ts b1 = pd_ts b2) by lia. split; auto.
  intros Hnd. pose proof (first_max_in _ _ H1) as J1. clear - Hnd J1 I2 E.
  induction l1 as [|x l IH]; [contradiction|]. cbn in Hnd. inversion Hnd as [|? ? Hn Hnd']; subst.
  destruct J1 as [->|J1], I2 as [->|I2]; auto.
  - exfalso. apply Hn. rewrite E. apply in_map; auto.
  - exfalso. apply Hn. rewrite <- E. apply in_map; auto.
Qed.

(* a stored record is only ever replaced by a record from the same node with a newer timestamp *)
Theorem replace_only_newer : forall st o id old,
  dt_recv_get id (dt_recv st) = Some old ->
  dt_recv_get id (dt_recv (dt_step st o)) = Some old \/
  exists d, o = DtNotify d /\ pd_id d = id /\ (pd_ts old < pd_ts d)%N /\ dt_recv_get id (dt_recv (dt_step st o)) = Some d.
Proof.
  intros st o id old H. rewrite step_recv, H. destruct o as [d| | | | |]; auto.
  destruct (N.eqb_spec (pd_id d) id) as [E|E]; auto. cbn.
  unfold dt_should_replace. destruct (N.ltb_spec (pd_ts old) (pd_ts d)); auto.
  right. exists d. auto.
Qed.

(* ======================================================================================== *)
(* Part 4: forwarding                                                                         *)

Lemma filter_clas_spec : forall senders sent f s, dt_filter_clas senders sent = (f, s) ->
  s = sent ++ f /\ (forall x, In x f -> In x senders /\ ~ In x sent) /\ NoDup f /\ (forall x, In x senders -> In x s).
Proof.
  induction senders as [|p r IH]; intros sent f s H; cbn in H.
  - inversion H; subst. rewrite app_nil_r. repeat split; auto; try constructor; intros x [].
  - destruct (existsb (N.eqb p) sent) eqn:E.
    + destruct (IH _ _ _ H) as (H1 & H2 & H3 & H4). split; auto. split; [|split; auto].
      * intros x Hx. destruct (H2 x Hx). split; auto. right. auto.
      * intros x [->|Hx]; auto. subst s. apply in_or_app. left. apply existsb_eqb_in. auto.
    + destruct (dt_filter_clas r (sent ++ [p])) as (f', s') eqn:R. inversion H; subst.
      destruct (IH _ _ _ R) as (H1 & H2 & H3 & H4).
      assert (Hnp : ~ In p sent) by (intros Hin; apply existsb_eqb_in in Hin; congruence).
      split; [rewrite H1, <- app_assoc; reflexivity|]. split; [|split].
      * intros x [->|Hx]; [split; auto; left; auto|]. destruct (H2 x Hx) as (Ha & Hb). split; [right; auto|].
        intros Hin. apply Hb. apply in_or_app. auto.
      * constructor; auto. intros Hin. destruct (H2 p Hin) as (_ & Hb). apply Hb. apply in_or_app. right. left. auto.
      * intros x [->|Hx]; auto. rewrite H1. apply in_or_app. left. apply in_or_app. right. left. auto.
Qed.

Lemma NoDup_app_intro : forall (A : Type) (l1 l2 : list A), NoDup l1 -> NoDup l2 -> (forall x, In x l2 -> ~ In x l1) -> NoDup (l1 ++ l2).
Proof.
  induction l1 as [|a l1 IH]; intros l2 H1 H2 H; cbn; auto.
  inversion H1; subst. constructor.
  - intros Hin. apply in_app_or in Hin. destruct Hin as [Hin|Hin]; auto. apply (H a Hin). left. auto.
  - apply IH; auto. intros x Hx Hin. apply (H x Hx). right. auto.
Qed.

(* A broadcast bundle offered again and again while peers come and go: over the whole history no
   peer is handed the bundle twice, none of the initially excluded ones (previous node) gets it,
   and after each call every peer connected at that call has it (from this call or an earlier one). *)
Theorem bcast_once : forall calls sent, NoDup sent ->
  NoDup (sent ++ concat (dt_bcast_run sent calls)).
Proof.
  induction calls as [|c calls IH]; intros sent Hnd; cbn.
  - rewrite app_nil_r. auto.
  - destruct (dt_filter_clas c sent) as (f, s) eqn:E. cbn.
    destruct (filter_clas_spec _ _ _ _ E) as (H1 & H2 & H3 & _).
    rewrite app_assoc, <- H1. apply IH. rewrite H1. apply NoDup_app_intro; auto.
    intros x Hx. apply H2; auto.
Qed.

Theorem bcast_covers : forall senders sent f s, dt_filter_clas senders sent = (f, s) ->
  forall p, In p senders -> In p sent \/ In p f.
Proof.
  intros senders sent f s E p Hp. destruct (filter_clas_spec _ _ _ _ E) as (H1 & _ & _ & H4).
  specialize (H4 p Hp). rewrite H1 in H4. apply in_app_or in H4. exact H4.
Qed.

Lemma assoc_get_in : forall k l v, dt_assoc_get k l = Some v -> In (k, v) l.
Proof.
  induction l as [|(k', v') l IH]; intros v H; cbn in *; [discriminate|].
  destruct (N.eqb_spec k' k) as [E|E]; [inversion H; subst; auto|auto].
Qed.
Lemma assoc_get_functional : forall k l v, (forall k v1 v2, In (k, v1) l -> In (k, v2) l -> v1 = v2) ->
  In (k, v) l -> dt_assoc_get k l = Some v.
Proof.
  induction l as [|(k', v') l IH]; intros v Hf Hin; [contradiction|]. cbn.
  destruct (N.eqb_spec k' k) as [E|E].
  - subst k'. f_equal. eapply Hf; [left; reflexivity|exact Hin].
  - destruct Hin as [Hin|Hin]; [inversion Hin; congruence|]. apply IH; auto.
    intros k0 v1 v2 A B. eapply Hf; right; eauto.
Qed.

(* a unicast bundle: direct delivery to the connected senders of its destination node, otherwise
   at most one sender, namely the routing table's next hop for the destination, and the bundle is
   released exactly when somebody was chosen; the sent-list is untouched *)
Theorem forward_unicast : forall table senders sent dest chosen sent' del,
  dt_forward_select table senders sent false dest = (chosen, sent', del) ->
  sent' = sent /\ (del = true <-> chosen <> []) /\
  ((chosen <> [] /\ chosen = filter (N.eqb (dst_node dest)) senders) \/
   (filter (N.eqb (dst_node dest)) senders = [] /\
    (chosen = [] \/ exists h, chosen = [h] /\ dst_bare dest = true /\ dt_assoc_get (dst_node dest) table = Some h /\ In h senders))).
Proof.
  intros table senders sent dest chosen sent' del H. unfold dt_forward_select in H.
  destruct (filter (N.eqb (dst_node dest)) senders) as [|x l] eqn:F.
  - unfold dt_sender_for_bundle in H.
    destruct (dst_bare dest) eqn:B.
    + destruct (dt_assoc_get (dst_node dest) table) as [h|] eqn:T.
      * destruct (existsb (N.eqb h) senders) eqn:Ex; inversion H; subst.
        -- split; auto. split; [split; [discriminate|auto]|]. right. split; auto. right. exists h.
           repeat split; auto. apply existsb_eqb_in; auto.
        -- split; auto. split; [split; [discriminate|congruence]|]. right. auto.
      * inversion H; subst. split; auto. split; [split; [discriminate|congruence]|]. right. auto.
    + inversion H; subst. split; auto. split; [split; [discriminate|congruence]|]. right. auto.
  - inversion H; subst. split; auto. split; [split; [discriminate|auto]|]. left. split; [discriminate|reflexivity].
Qed.

(* a broadcast bundle is never released by DTLSR and goes to every connected peer not yet in sent *)
Theorem forward_broadcast : forall table senders sent dest chosen sent' del,
  filter (N.eqb (dst_node dest)) senders = [] ->
  dt_forward_select table senders sent true dest = (chosen, sent', del) ->
  del = false /\ dt_filter_clas senders sent = (chosen, sent').
Proof.
  intros table senders sent dest chosen sent' del F H. unfold dt_forward_select in H. rewrite F in H.
  unfold dt_sender_for_bundle in H. destruct (dt_filter_clas senders sent) as (f, s). inversion H; subst. auto.
Qed.

(* ======================================================================================== *)
(* Part 5: the table's next hop is one of the node's own current or recently lost neighbours  *)

Lemma ofh_arc : forall g d h, optimal_first_hop g d h -> h <> 0 /\ exists a, In a g /\ arc_src a = 0 /\ arc_dst a = h.
Proof.
  intros g d h (a & p & Hs & Hd & Hp & Hnd & _). split.
  - unfold pverts in Hnd. cbn in Hnd. inversion Hnd as [|? ? Hn _]; subst. intros E. apply Hn. left. auto.
  - cbn in Hp. destruct Hp as (_ & Hin & _). eauto.
Qed.

Theorem table_hop_is_neighbour : forall st now, dt_inv st -> dt_past st now ->
  dt_recv_get (dt_self st) (dt_recv st) = None ->
  forall dest hop, In (dest, hop) (dt_table (dt_compute st now)) ->
  exists t, In (hop, t) (dt_own st) /\
            exists a, In a (dt_graph st now) /\ arc_src a = 0 /\ nth_error (dt_index st) (arc_dst a) = Some hop /\
                      arc_cost a = dt_edge_cost now t.
Proof.
  intros st now Hinv Hpast Hnone dest hop Hin.
  destruct (table_spec st now Hinv Hpast) as (T1 & _).
  destruct (T1 dest hop Hin) as (d & h & _ & Hh & _ & Ho).
  destruct (ofh_arc _ _ _ Ho) as (Hh0 & a & Ha & Hs & Hd).
  destruct (graph_arc0_own st now a Hinv Hnone Ha Hs) as (p & t & Hp & Hdp & Hc).
  assert (Hf : dt_find_index p (dt_index st) = Some h).
  { unfold dt_node_index in Hdp. destruct (dt_find_index p (dt_index st)) as [i|]; [congruence|]. congruence. }
  apply find_index_nth in Hf. assert (hop = p) by congruence. subst p.
  exists t. split; auto. exists a. rewrite Hd. auto.
Qed.

(* ======================================================================================== *)
(* Part 6: a neighbour that is connected now is live in the node's own link state, whatever    *)
(* happened before (lost and come back before the purge, purged and come back)                *)

Lemma assoc_get_set_same : forall k v l, dt_assoc_get k (dt_assoc_set k v l) = Some v.
Proof.
  intros k v l. induction l as [|[k' v'] l IH]; cbn [dt_assoc_set dt_assoc_get].
  - now rewrite N.eqb_refl.
  - destruct (k' =? k)%N eqn:E; cbn [dt_assoc_get]; [now rewrite N.eqb_refl|]. now rewrite E.
Qed.

Lemma assoc_get_set_other : forall k k' v l, k' <> k -> dt_assoc_get k (dt_assoc_set k' v l) = dt_assoc_get k l.
Proof.
  intros k k' v l Hne. induction l as [|[k2 v2] l IH]; cbn [dt_assoc_set dt_assoc_get].
  - apply N.eqb_neq in Hne. now rewrite Hne.
  - destruct (k2 =? k')%N eqn:E; cbn [dt_assoc_get].
    + apply N.eqb_eq in E. subst k2. apply N.eqb_neq in Hne. now rewrite Hne.
    + now rewrite IH.
Qed.

Lemma assoc_get_filter_live : forall (f : N * N -> bool) k l,
  (forall kv, snd kv = 0%N -> f kv = true) ->
  dt_assoc_get k l = Some 0%N -> dt_assoc_get k (filter f l) = Some 0%N.
Proof.
  intros f k l Hf. induction l as [|[k' v'] l IH]; cbn [dt_assoc_get filter]; [discriminate|].
  destruct (k' =? k)%N eqn:E.
  - intros [= ->]. rewrite (Hf (k', 0%N) eq_refl). cbn [dt_assoc_get]. now rewrite E.
  - intros H. destruct (f (k', v')); cbn [dt_assoc_get]; [rewrite E|]; auto.
Qed.

Lemma dt_notify_own : forall st d, dt_own (dt_notify st d) = dt_own st.
Proof.
  intros st d. unfold dt_notify. destruct (dt_recv_get (pd_id d) (dt_recv st)); [|reflexivity].
  destruct (dt_should_replace d d0); reflexivity.
Qed.

Lemma dt_cron_own : forall st now, dt_own (dt_recompute_cron st now) = dt_own st.
Proof. intros st now. unfold dt_recompute_cron. destruct (dt_peer_change st || dt_recv_change st); reflexivity. Qed.

Lemma connected_live_from : forall ops st acc p,
  dt_connected_from acc ops p = true ->
  (acc = true -> dt_assoc_get p (dt_own st) = Some 0%N) ->
  dt_assoc_get p (dt_own (dt_run st ops)) = Some 0%N.
Proof.
  induction ops as [|o ops IH]; intros st acc p Hc Hacc; cbn [dt_connected_from dt_run fold_left] in *.
  - auto.
  - change (fold_left dt_step ops (dt_step st o)) with (dt_run (dt_step st o) ops).
    destruct o as [d|q now|q now|now pt|now|now]; cbn [dt_step dt_connected_from] in *.
    + apply (IH _ acc); auto. now rewrite dt_notify_own.
    + eapply IH; [exact Hc|]. cbn [dt_appear dt_own]. destruct (q =? p)%N eqn:E.
      * intros _. apply N.eqb_eq in E. subst q. apply assoc_get_set_same.
      * intros Ha. apply N.eqb_neq in E. rewrite assoc_get_set_other by exact E. auto.
    + eapply IH; [exact Hc|]. cbn [dt_disappear dt_own]. destruct (q =? p)%N eqn:E.
      * discriminate.
      * intros Ha. apply N.eqb_neq in E. rewrite assoc_get_set_other by exact E. auto.
    + apply (IH _ acc); auto. intros Ha. cbn [dt_purge dt_own]. apply assoc_get_filter_live; auto.
      intros kv E. rewrite E. reflexivity.
    + apply (IH _ acc); auto.
    + apply (IH _ acc); auto. now rewrite dt_cron_own.
Qed.

(* ... so its link costs 0 at every recomputation, and no purge removes it while it is connected *)
Theorem connected_neighbour_live : forall st ops p now,
  dt_connected ops p = true ->
  dt_assoc_get p (dt_own (dt_run st ops)) = Some 0%N /\
  In (p, 0%N) (dt_own (dt_run st ops)) /\ dt_edge_cost now 0 = 0%Z.
Proof.
  intros st ops p now H.
  assert (G : dt_assoc_get p (dt_own (dt_run st ops)) = Some 0%N).
  { eapply connected_live_from; [exact H|discriminate]. }
  split; [exact G|]. split; [apply assoc_get_in; exact G|reflexivity].
Qed.
