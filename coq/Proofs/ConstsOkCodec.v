(* ConstsOkCodec.v - the constants of pkg/bpv7 (regenerated from /repo into gen/Consts.v) are the
   ones the codec model is written with. *)
From Coq Require Import ZArith NArith List.
Import ListNotations.
From DTN Require Import Consts Base Cbor Eid Bundle.
Open Scope Z_scope.

Lemma version_ok : pkg_bpv7__dtnVersion = 7. Proof. reflexivity. Qed.
Lemma crc_types_ok : pkg_bpv7__CRCNo = 0 /\ pkg_bpv7__CRC16 = 1 /\ pkg_bpv7__CRC32 = 2.
Proof. repeat split; reflexivity. Qed.
Lemma bundle_flags_ok :
  pkg_bpv7__IsFragment = Z.of_N F_FRAG /\ pkg_bpv7__AdministrativeRecordPayload = Z.of_N F_ADMIN
  /\ pkg_bpv7__MustNotFragmented = Z.of_N F_NOFRAG /\ pkg_bpv7__RequestUserApplicationAck = Z.of_N F_ACK
  /\ pkg_bpv7__RequestStatusTime = Z.of_N F_TIME /\ pkg_bpv7__StatusRequestReception = Z.of_N F_RECEPTION
  /\ pkg_bpv7__StatusRequestForward = Z.of_N F_FORWARD /\ pkg_bpv7__StatusRequestDelivery = Z.of_N F_DELIVERY
  /\ pkg_bpv7__StatusRequestDeletion = Z.of_N F_DELETION.
Proof. repeat split; reflexivity. Qed.
Lemma block_flags_ok :
  pkg_bpv7__ReplicateBlock = Z.of_N BF_REPLICATE /\ pkg_bpv7__StatusReportBlock = Z.of_N BF_REPORT
  /\ pkg_bpv7__DeleteBundle = Z.of_N BF_DELETE /\ pkg_bpv7__RemoveBlock = Z.of_N BF_REMOVE.
Proof. repeat split; reflexivity. Qed.
Lemma block_types_ok :
  pkg_bpv7__ExtBlockTypePayloadBlock = Z.of_N T_PAYLOAD /\ pkg_bpv7__ExtBlockTypePreviousNodeBlock = Z.of_N T_PREV
  /\ pkg_bpv7__ExtBlockTypeBundleAgeBlock = Z.of_N T_AGE /\ pkg_bpv7__ExtBlockTypeHopCountBlock = Z.of_N T_HOP
  /\ pkg_bpv7__ExtBlockTypeBinarySprayBlock = Z.of_N T_SPRAY /\ pkg_bpv7__ExtBlockTypeDTLSRBlock = Z.of_N T_DTLSR
  /\ pkg_bpv7__ExtBlockTypeProphetBlock = Z.of_N T_PROPHET /\ pkg_bpv7__ExtBlockTypeSignatureBlock = Z.of_N T_SIG.
Proof. repeat split; reflexivity. Qed.
Lemma schemes_ok : pkg_bpv7__dtnEndpointSchemeNo = 1 /\ pkg_bpv7__ipnEndpointSchemeNo = 2
  /\ pkg_bpv7__dtnEndpointSchemeName = map Z.of_N [100; 116; 110]%N
  /\ pkg_bpv7__ipnEndpointSchemeName = map Z.of_N [105; 112; 110]%N
  /\ pkg_bpv7__dtnEndpointDtnNoneSsp = map Z.of_N str_none.
Proof. repeat split; reflexivity. Qed.
(* the dtn SSP regexp: two slashes, a group of one or more of  backslash-w - . _ , slash, group of any *)
Lemma dtn_regexp_ok :
  pkg_bpv7__dtnEndpointRegexpSsp = [47; 47; 40; 91; 92; 119; 45; 46; 95; 93; 43; 41; 47; 40; 46; 42; 41].
Proof. reflexivity. Qed.
Lemma time_ok : pkg_bpv7__milliseconds1970To2k = ms1970to2k. Proof. reflexivity. Qed.
