(* ConstsOkProphet - the operator / literal shapes of the PRoPHET update functions regenerated
   from the repository coincide with the ones the model is written against.  A changed formula
   (other operator, other order, other literal) breaks a [reflexivity] here. *)
From Coq Require Import ZArith List.
Import ListNotations.
From DTN Require Import Consts SpecProphet.
Open Scope Z_scope.

Lemma prophet_encounter_shape_ok :
  pkg_routing__Prophet_encounter__ops = prophet_encounter_ops
  /\ pkg_routing__Prophet_encounter__lits = prophet_encounter_lits.
Proof. split; reflexivity. Qed.
Lemma prophet_age_shape_ok :
  pkg_routing__Prophet_agePred__ops = prophet_age_ops
  /\ pkg_routing__Prophet_agePred__lits = prophet_age_lits.
Proof. split; reflexivity. Qed.
Lemma prophet_transitivity_shape_ok :
  pkg_routing__Prophet_transitivity__ops = prophet_transitivity_ops
  /\ pkg_routing__Prophet_transitivity__lits = prophet_transitivity_lits.
Proof. split; reflexivity. Qed.
Lemma prophet_sender_shape_ok :
  pkg_routing__Prophet_SenderForBundle__ops = prophet_sender_ops
  /\ pkg_routing__Prophet_SenderForBundle__lits = prophet_sender_lits.
Proof. split; reflexivity. Qed.
Lemma prophet_block_type_ok : pkg_bpv7__ExtBlockTypeProphetBlock = 194.
Proof. reflexivity. Qed.
