(* ConstsOkMtcp.v - literal / operator shapes of the Go functions behind the C12 model, regenerated
   from the repository on every run (gen/Consts.v), coincide with what the model was written
   against.  A changed literal or comparison in these functions breaks a [reflexivity] here. *)
From Coq Require Import ZArith List.
Import ListNotations.
From DTN Require Import Consts Spec SpecMtcp.
Open Scope Z_scope.

(* MTCPClient.Send: one literal (the zero-length probe); err != nil tests, &bndl *)
Lemma mtcp_send_shape_ok :
  pkg_cla_mtcp__MTCPClient_Send__lits = [mtcp_probe_len]
  /\ pkg_cla_mtcp__MTCPClient_Send__ops
     = [tok_neq; tok_neq; tok_addr; tok_neq; tok_neq; tok_neq; tok_neq; tok_neq].
Proof. split; reflexivity. Qed.

(* MTCPClient.handler: 5 * time.Second ticker, keep-alive = byte string of length 0 *)
Lemma mtcp_handler_shape_ok :
  pkg_cla_mtcp__MTCPClient_handler__lits = [mtcp_keepalive_s; mtcp_probe_len]
  /\ pkg_cla_mtcp__MTCPClient_handler__ops = [tok_mul; tok_recv; tok_recv; tok_neq].
Proof. split; reflexivity. Qed.

(* MTCPServer.handleSender: err != nil, err != io.EOF, n == 0 -> continue, err != nil *)
Lemma mtcp_server_shape_ok :
  pkg_cla_mtcp__MTCPServer_handleSender__lits = [mtcp_skip_len]
  /\ pkg_cla_mtcp__MTCPServer_handleSender__ops = [tok_neq; tok_neq; tok_neq; tok_eql; tok_neq].
Proof. split; reflexivity. Qed.

(* BBC transmissions and connector *)
Lemma bbc_read_fragment_shape_ok :
  pkg_cla_bbc__IncomingTransmission_ReadFragment__lits = []
  /\ pkg_cla_bbc__IncomingTransmission_ReadFragment__ops = [tok_neq; tok_neq]
  /\ pkg_cla_bbc__NewIncomingTransmission__lits = []
  /\ pkg_cla_bbc__NewIncomingTransmission__ops = [tok_not; tok_addr].
Proof. repeat split; reflexivity. Qed.

Lemma bbc_write_fragment_shape_ok :
  pkg_cla_bbc__OutgoingTransmission_WriteFragment__lits = []
  /\ pkg_cla_bbc__OutgoingTransmission_WriteFragment__ops = [tok_leq]
  /\ pkg_cla_bbc__newPlainOutgoingTransmission__lits = [0; 0]
  /\ pkg_cla_bbc__newPlainOutgoingTransmission__ops = [tok_eql; tok_addr; tok_sub]
  /\ pkg_cla_bbc__fragmentIdentifierSize = bbc_header_size.
Proof. repeat split; reflexivity. Qed.

Lemma bbc_connector_shape_ok :
  pkg_cla_bbc__Connector_handleIncomingFragment__lits = []
  /\ pkg_cla_bbc__Connector_handleIncomingFragment__ops = [tok_eql; tok_not; tok_neq; tok_eql; tok_addr]
  /\ pkg_cla_bbc__Connector_handleIncomingNewTransmission__ops = [tok_eql]
  /\ pkg_cla_bbc__Connector_handleIncomingKnownTransmission__ops = [tok_neq].
Proof. repeat split; reflexivity. Qed.

(* NewConnector: the three channel capacities (fragmentOut, failTransmission, reportChan) *)
Lemma bbc_new_connector_shape_ok :
  pkg_cla_bbc__NewConnector__lits = [bbc_queue_cap; bbc_queue_cap; bbc_queue_cap]
  /\ pkg_cla_bbc__NewConnector__ops = [tok_addr].
Proof. split; reflexivity. Qed.
