(* ConstsOkAuxCbor.v - the constants and literal / operator shapes regenerated from the Go source
   (gen/Consts.v) coincide with what Model/AuxCbor.v and Model/Eid.v are written against.  A changed
   code, array length, comparison or regular expression in the Go source breaks a [reflexivity] here. *)
From Coq Require Import ZArith NArith List.
Import ListNotations.
From DTN Require Import Base Cbor Eid Bundle AuxCbor Consts.
Open Scope Z_scope.

(* reason codes: 0 .. BlockUnsupported, contiguous; the decoder compares with > *)
Lemma reason_codes_ok :
  [pkg_bpv7__NoInformation; pkg_bpv7__LifetimeExpired; pkg_bpv7__ForwardUnidirectionalLink; pkg_bpv7__TransmissionCanceled;
   pkg_bpv7__DepletedStorage; pkg_bpv7__DestEndpointUnintelligible; pkg_bpv7__NoRouteToDestination; pkg_bpv7__NoNextNodeContact;
   pkg_bpv7__BlockUnintelligible; pkg_bpv7__HopLimitExceeded; pkg_bpv7__TrafficPared; pkg_bpv7__BlockUnsupported]
  = [0; 1; 2; 3; 4; 5; 6; 7; 8; 9; 10; 11]
  /\ pkg_bpv7__BlockUnsupported = Z.of_N max_reason.
Proof. split; reflexivity. Qed.

(* StatusReport: outer array 4 or 6 = 2 + BundleID.Len(); item loop from 0; reason check with > *)
Lemma status_report_shape_ok :
  pkg_bpv7__StatusReport_UnmarshalCbor__lits = [4; 6; 0; 0]
  /\ pkg_bpv7__StatusReport_UnmarshalCbor__ops = [44; 39; 39; 44; 40; 2037; 1017; 44; 44; 41; 1017; 44]
  /\ pkg_bpv7__StatusReport_MarshalCbor__lits = [2]
  /\ pkg_bpv7__BundleID_Len__lits = [4; 2]
  /\ pkg_bpv7__maxStatusInformationPos = 4.
Proof. repeat split; reflexivity. Qed.

(* BundleStatusItem: array of 1 or 2, 2 exactly when asserted && requested *)
Lemma status_item_shape_ok :
  pkg_bpv7__BundleStatusItem_MarshalCbor__lits = [1; 2; 2]
  /\ pkg_bpv7__BundleStatusItem_MarshalCbor__ops = [34; 44; 44; 39; 44]
  /\ pkg_bpv7__BundleStatusItem_UnmarshalCbor__lits = [1; 2; 2]
  /\ pkg_bpv7__BundleStatusItem_UnmarshalCbor__ops = [44; 34; 44; 44; 44; 39; 44].
Proof. repeat split; reflexivity. Qed.

Lemma admin_record_ok :
  pkg_bpv7__AdminRecordTypeStatusReport = Z.of_N ar_type_status
  /\ pkg_bpv7__AdministrativeRecordManager_WriteAdministrativeRecord__lits = [2]
  /\ pkg_bpv7__AdministrativeRecordManager_ReadAdministrativeRecord__lits = [2].
Proof. repeat split; reflexivity. Qed.

Lemma creation_timestamp_ok :
  pkg_bpv7__CreationTimestamp_MarshalCbor__lits = [2]
  /\ pkg_bpv7__CreationTimestamp_UnmarshalCbor__lits = [2; 0; 2].
Proof. split; reflexivity. Qed.

(* discovery: array of 3; the four CLA types *)
Lemma announcement_ok :
  pkg_discovery__Announcement_MarshalCbor__lits = [3]
  /\ pkg_discovery__Announcement_UnmarshalCbor__lits = [3]
  /\ forallb (fun t => cla_type_ok (Z.to_N t)) [pkg_cla__TCPCLv4; pkg_cla__TCPCLv4WebSocket; pkg_cla__MTCP; pkg_cla__BBC] = true
  /\ [pkg_cla__TCPCLv4; pkg_cla__TCPCLv4WebSocket; pkg_cla__MTCP; pkg_cla__BBC] = [0; 1; 10; 20].
Proof. repeat split; reflexivity. Qed.

(* WebSocket-agent messages: wrapper of 2, codes 0..4, response body of 2 *)
Lemma wam_ok :
  pkg_agent__marshalCbor__lits = [2] /\ pkg_agent__unmarshalCbor__lits = [2]
  /\ pkg_agent__wamSyscallResponse_MarshalCbor__lits = [2] /\ pkg_agent__wamSyscallResponse_UnmarshalCbor__lits = [2]
  /\ [pkg_agent__wamStatusCode; pkg_agent__wamRegisterCode; pkg_agent__wamBundleCode; pkg_agent__wamSyscallRequestCode; pkg_agent__wamSyscallResponseCode]
     = map (fun w => Z.of_N (wam_code w)) [WStatus []; WRegister []; WBundle {| b_pri := {| p_flags := 0; p_crc := 0; p_dst := DtnNone; p_src := DtnNone; p_rpt := DtnNone; p_time := 0; p_seq := 0; p_life := 0; p_off := 0; p_total := 0 |}; b_blocks := [] |}; WSysReq []; WSysResp [] []].
Proof. repeat split; reflexivity. Qed.

(* endpoint IDs as text: scheme names and numbers, the dtn regular expression, ipn: both numbers
   >= 1 (CheckValid uses < 1 ||), ParseUint base 10 / 64 bits *)
Lemma endpoint_text_ok :
  map Z.to_N pkg_bpv7__dtnEndpointSchemeName ++ [58%N] = str_dtn_colon
  /\ map Z.to_N pkg_bpv7__ipnEndpointSchemeName ++ [58%N] = str_ipn_colon
  /\ map Z.to_N pkg_bpv7__dtnEndpointDtnNoneSsp = str_none
  /\ pkg_bpv7__dtnEndpointSchemeNo = 1 /\ pkg_bpv7__ipnEndpointSchemeNo = 2
  /\ pkg_bpv7__dtnEndpointRegexpSsp = [47; 47; 40; 91; 92; 119; 45; 46; 95; 93; 43; 41; 47; 40; 46; 42; 41]
  /\ pkg_bpv7__NewIpnEndpoint__lits = [3; 1; 10; 64; 2; 10; 64]
  /\ pkg_bpv7__IpnEndpoint_CheckValid__lits = [1; 1] /\ pkg_bpv7__IpnEndpoint_CheckValid__ops = [35; 40; 40].
Proof. repeat split; reflexivity. Qed.
