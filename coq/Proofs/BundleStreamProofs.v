(* Lemmas behind Properties/C01_stream.v *)
From DTN Require Import Base Cbor Crc Eid Bundle BundleStream BundleWf BundleProofs ValidProofs DecodeWf.
Open Scope N_scope.

Definition good (now : N) (b : bundle) : Prop := bundle_wf b = true /\ check_valid now b = true.

Lemma dec_bundles_enc : forall now l tail, Forall (good now) l ->
  dec_bundles now (length l) (concat (map bundle_bytes l) ++ tail) = Some (l, tail).
Proof.
  intros now l tail H. induction H as [|b l [Hwf Hv] _ IH]; [reflexivity|].
  cbn [length map concat dec_bundles]. rewrite <- app_assoc.
  rewrite (dec_bundle_enc now b _ Hwf Hv). rewrite IH. reflexivity.
Qed.

Lemma enc_injective : forall now b1 b2 bs, good now b1 -> good now b2 ->
  enc_bundle b1 = Some bs -> enc_bundle b2 = Some bs -> b1 = b2.
Proof.
  intros now b1 b2 bs [W1 V1] [W2 V2] E1 E2.
  rewrite (enc_bundle_ok b1 W1) in E1. rewrite (enc_bundle_ok b2 W2) in E2.
  injection E1 as E1. injection E2 as E2.
  pose proof (dec_bundle_enc now b1 [] W1 V1) as D1. pose proof (dec_bundle_enc now b2 [] W2 V2) as D2.
  rewrite E1 in D1. rewrite E2 in D2. rewrite D1 in D2. injection D2 as ->. reflexivity.
Qed.

Lemma enc_prefix_free : forall now b1 b2 bs1 bs2 ext, good now b1 -> good now b2 ->
  enc_bundle b1 = Some bs1 -> enc_bundle b2 = Some bs2 -> bs2 = bs1 ++ ext -> ext = [] /\ b1 = b2.
Proof.
  intros now b1 b2 bs1 bs2 ext [W1 V1] [W2 V2] E1 E2 Hp.
  rewrite (enc_bundle_ok b1 W1) in E1. rewrite (enc_bundle_ok b2 W2) in E2.
  injection E1 as E1. injection E2 as E2.
  pose proof (dec_bundle_enc now b1 ext W1 V1) as D1. pose proof (dec_bundle_enc now b2 [] W2 V2) as D2.
  rewrite E1, <- Hp in D1. rewrite E2, app_nil_r in D2. rewrite D1 in D2. injection D2 as -> ->. split; reflexivity.
Qed.

Lemma stream_roundtrip : forall now l tail, Forall (good now) l ->
  exists bss, Forall2 (fun b bs => enc_bundle b = Some bs) l bss
              /\ dec_bundles now (length l) (concat bss ++ tail) = Some (l, tail).
Proof.
  intros now l tail H. exists (map bundle_bytes l). split; [|exact (dec_bundles_enc now l tail H)].
  induction H as [|b l [Hwf _] _ IH]; constructor; [exact (enc_bundle_ok b Hwf)|exact IH].
Qed.
