(* CrcBlock.v - C03: two accepted blocks with the same CRC type, the same boundaries and the same
   transmitted CRC value cannot differ by a short non-zero burst in the covered bytes; two accepted
   blocks with the same covered bytes carry the same CRC value. *)
From DTN Require Import Base Cbor CborProofs Crc CrcProofs Eid EidProofs Bundle BundleWf BundleProofs DecodeInv.
From Coq Require Import ZifyN ZifyNat ZifyBool.
Open Scope N_scope.

Lemma xorbits_same a : xorbits a a = repeat false (length a).
Proof. induction a as [|x a IH]; cbn; [reflexivity|]. rewrite xorb_nilpotent, IH. reflexivity. Qed.

Lemma xorbits_app a1 : forall b1 a2 b2, length a1 = length b1 ->
  xorbits (a1 ++ a2) (b1 ++ b2) = xorbits a1 b1 ++ xorbits a2 b2.
Proof.
  induction a1 as [|x a1 IH]; intros [|y b1] a2 b2 Hl; try discriminate; cbn [app xorbits]; [reflexivity|].
  f_equal. apply IH. cbn in Hl. lia.
Qed.

Lemma bytes_bits_app a b : bytes_bits (a ++ b) = bytes_bits a ++ bytes_bits b.
Proof. induction a as [|x a IH]; cbn [app bytes_bits]; [reflexivity|]. rewrite IH, app_assoc. reflexivity. Qed.

Lemma repeat_app {A} (x : A) n m : repeat x n ++ repeat x m = repeat x (n + m).
Proof. induction n; cbn; [reflexivity|]. rewrite IHn. reflexivity. Qed.

Lemma zero_field_app d v len : length v = len -> zero_field len (d ++ v) = d ++ zeros len.
Proof.
  intros H. unfold zero_field. rewrite app_length, H. replace (length d + len - len)%nat with (length d) by lia.
  rewrite firstn_app, Nat.sub_diag, firstn_all. cbn. rewrite app_nil_r. reflexivity.
Qed.

Lemma app_inv_tail_length {A} (a1 a2 b1 b2 : list A) : a1 ++ b1 = a2 ++ b2 -> length b1 = length b2 -> a1 = a2 /\ b1 = b2.
Proof.
  revert a2. induction a1 as [|x a1 IH]; intros [|y a2] H Hl; cbn in *.
  - tauto.
  - exfalso. subst b1. cbn in Hl. rewrite app_length in Hl. lia.
  - exfalso. subst b2. cbn in Hl. rewrite app_length in Hl. lia.
  - injection H as -> H. destruct (IH a2 H Hl) as [-> ->]. tauto.
Qed.

(* CRC values fit their width, so the big-endian field determines the value *)
Lemma crc16_lt bs : crc16_x25 bs < 2 ^ 16.
Proof.
  unfold crc16_x25. destruct poly16_ok as (H1 & H2 & H3). apply (lxor_lt 16 poly16 H1 H2 H3).
  - rewrite crc_update_bits. apply (run_lt 16 poly16 H1 H2 H3). apply ones16_lt.
  - apply ones16_lt.
Qed.
Lemma crc32c_lt bs : crc32c bs < 2 ^ 32.
Proof.
  unfold crc32c. destruct poly32_ok as (H1 & H2 & H3). apply (lxor_lt 32 poly32c H1 H2 H3).
  - rewrite crc_update_bits. apply (run_lt 32 poly32c H1 H2 H3). apply ones32_lt.
  - apply ones32_lt.
Qed.

Lemma be_encode_inj w a b : a < 256 ^ N.of_nat w -> b < 256 ^ N.of_nat w -> be_encode w a = be_encode w b -> a = b.
Proof. intros Ha Hb H. rewrite <- (be_decode_encode w a Ha), <- (be_decode_encode w b Hb), H. reflexivity. Qed.

(* what acceptance with CRC type t means for the block's own bytes w = d ++ v *)
Definition crc_holds (t : N) (w : list N) : Prop :=
  exists len d v, crc_len t = Some len /\ w = d ++ v /\ length v = len
                  /\ v = be_encode len (crc_value t (d ++ zeros len)).

Lemma accepted_crc_holds w r c :
  dec_cblock (w ++ r) = Ok c r -> c_crc c <> 0 -> crc_holds (c_crc c) w.
Proof.
  intros H Hnz. apply dec_cblock_crc in H; [|exact Hnz].
  destruct H as (len & cv & pre & Hl & Hcv & Hcons & Heq & _). rewrite consumed_app in Hcons, Heq.
  exists len, pre, cv. repeat split; try assumption.
  rewrite Hcons in Heq. rewrite zero_field_app in Heq by exact Hcv. exact Heq.
Qed.

Theorem crc_burst_rejected t w1 w2 :
  (t = 1 \/ t = 2) -> crc_holds t w1 -> crc_holds t w2 ->
  forall len d1 d2 v pre e post,
    crc_len t = Some len -> w1 = d1 ++ v -> w2 = d2 ++ v -> length v = len -> length d1 = length d2 ->
    xorbits (bytes_bits d1) (bytes_bits d2) = repeat false pre ++ e ++ repeat false post ->
    N.of_nat (length e) <= 8 * N.of_nat len -> word e <> 0 -> False.
Proof.
  intros Ht (len1 & d1' & v1 & Hl1 & Hw1 & Hv1 & He1) (len2 & d2' & v2 & Hl2 & Hw2 & Hv2 & He2).
  intros len d1 d2 v pre e post Hl Ew1 Ew2 Hv Hd Hx Hlen Hne.
  assert (len1 = len) by congruence. assert (len2 = len) by congruence. subst len1 len2.
  rewrite Ew1 in Hw1. rewrite Ew2 in Hw2.
  apply app_inv_tail_length in Hw1; [|congruence]. apply app_inv_tail_length in Hw2; [|congruence].
  destruct Hw1 as [<- <-]. destruct Hw2 as [<- Hvv]. rewrite <- Hvv in He2.
  assert (Hcrc : crc_value t (d1 ++ zeros len) = crc_value t (d2 ++ zeros len)).
  { destruct Ht as [-> | ->]; cbn in Hl; injection Hl as <-; cbn [crc_value N.eqb] in *.
    - apply (be_encode_inj 2); [apply crc16_lt|apply crc16_lt|congruence].
    - apply (be_encode_inj 4); [apply crc32c_lt|apply crc32c_lt|congruence]. }
  assert (Hxz : xorbits (bytes_bits (d1 ++ zeros len)) (bytes_bits (d2 ++ zeros len))
                = repeat false pre ++ e ++ repeat false (post + 8 * len)).
  { rewrite !bytes_bits_app, xorbits_app by (rewrite !bytes_bits_length; lia).
    rewrite Hx, xorbits_same, bytes_bits_length. unfold zeros. rewrite repeat_length.
    rewrite <- !app_assoc, repeat_app. reflexivity. }
  assert (Hll : length (d1 ++ zeros len) = length (d2 ++ zeros len)) by (rewrite !app_length; lia).
  destruct Ht as [-> | ->]; cbn in Hl; injection Hl as <-; cbn [crc_value N.eqb] in Hcrc.
  - revert Hcrc. apply (crc16_burst _ _ pre e (post + 8 * 2) Hll Hxz); [lia|exact Hne].
  - revert Hcrc. apply (crc32c_burst _ _ pre e (post + 8 * 4) Hll Hxz); [lia|exact Hne].
Qed.

Theorem crc_value_corruption_rejected t w1 w2 d v1 v2 len :
  crc_holds t w1 -> crc_holds t w2 -> crc_len t = Some len ->
  w1 = d ++ v1 -> w2 = d ++ v2 -> length v1 = len -> length v2 = len -> v1 = v2.
Proof.
  intros (l1 & d1 & x1 & Hl1 & Hw1 & Hx1 & He1) (l2 & d2 & x2 & Hl2 & Hw2 & Hx2 & He2) Hl E1 E2 Hv1 Hv2.
  assert (l1 = len) by congruence. assert (l2 = len) by congruence. subst l1 l2.
  rewrite E1 in Hw1. rewrite E2 in Hw2.
  apply app_inv_tail_length in Hw1; [|congruence]. apply app_inv_tail_length in Hw2; [|congruence].
  destruct Hw1 as [<- <-]. destruct Hw2 as [<- <-]. congruence.
Qed.

(* a single flipped bit is a burst of length one *)
Lemma single_bit_is_burst (pre post : nat) : 
  word [true] <> 0 /\ N.of_nat (length [true]) <= 8 * N.of_nat 2.
Proof. cbn. split; [discriminate|lia]. Qed.

Lemma accepted_primary_crc_holds w r p :
  dec_primary (w ++ r) = Ok p r -> p_crc p <> 0 -> crc_holds (p_crc p) w.
Proof.
  intros H Hnz. apply dec_primary_crc in H; [|exact Hnz].
  destruct H as (len & cv & pre & Hl & Hcv & Hcons & Heq & _). rewrite consumed_app in Hcons, Heq.
  exists len, pre, cv. repeat split; try assumption.
  rewrite Hcons in Heq. rewrite zero_field_app in Heq by exact Hcv. exact Heq.
Qed.

(* what the serialiser writes satisfies the same equation (C03, "the serialiser always writes that value") *)
Lemma encoded_cblock_crc_holds c : cblock_wf c = true -> c_crc c <> 0 -> crc_holds (c_crc c) (cblock_bytes c).
Proof.
  intros Hwf Hnz. apply (accepted_crc_holds (cblock_bytes c) [] c); [|exact Hnz]. apply dec_cblock_enc, Hwf.
Qed.
Lemma encoded_primary_crc_holds p : primary_wf p = true -> p_crc p <> 0 -> crc_holds (p_crc p) (primary_bytes p).
Proof.
  intros Hwf Hnz. apply (accepted_primary_crc_holds (primary_bytes p) [] p); [|exact Hnz]. apply dec_primary_enc, Hwf.
Qed.
