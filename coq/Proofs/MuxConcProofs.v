(* MuxConcProofs.v - invariants of the sub-step multiplexer model Model/MuxConc.v (code as it is:
   drain loop present, Endpoints iterates under the lock), delivery, Endpoints completeness, deadlock-freedom
   for every interleaving and any number of children / callers / bundles (induction over reachability),
   and the sharpness witnesses (no drain loop; seeded Endpoints defect; reader that answers upstream). *)
From Coq Require Import Arith PeanoNat.
From DTN Require Import Base MuxConc.
Open Scope nat_scope.

(* ------------------------------------------------------------------------------------------ *)
(* lists *)
Lemma mxc_upd_length : forall A i (v : A) l, length (mxc_upd i v l) = length l.
Proof. intros A i v l; revert i; induction l; destruct i; cbn; auto. Qed.

Lemma mxc_nth_upd : forall A (d : A) i v l j, i < length l ->
  nth j (mxc_upd i v l) d = if Nat.eqb j i then v else nth j l d.
Proof.
  intros A d i v l; revert i; induction l; intros i j H; cbn in H; [lia|].
  destruct i; destruct j; cbn; auto. apply IHl; lia.
Qed.

Lemma mxc_nth_default : forall A (d : A) l j, length l <= j -> nth j l d = d.
Proof. intros; apply nth_overflow; auto. Qed.

Lemma mxc_mem_In : forall c l, mxc_mem c l = true <-> In c l.
Proof.
  intros c l; unfold mxc_mem; rewrite existsb_exists; split.
  - intros [x [H1 H2]]. apply Nat.eqb_eq in H2; subst; auto.
  - intros H; exists c; split; auto. apply Nat.eqb_refl.
Qed.
Lemma mxc_mem_nIn : forall c l, mxc_mem c l = false <-> ~ In c l.
Proof. intros c l. rewrite <- mxc_mem_In. destruct (mxc_mem c l); split; congruence. Qed.

Lemma mxc_remove_In : forall c l x, NoDup l -> (In x (mxc_remove c l) <-> x <> c /\ In x l).
Proof.
  intros c l x; induction l as [|a l IH]; intros ND; cbn; [tauto|].
  inversion ND as [|? ? Ha ND']; subst.
  destruct (Nat.eqb_spec a c) as [->|Hne]; cbn.
  - split; [intros H; split; auto; intros ->; contradiction | intros [H1 [H2|H2]]; congruence].
  - rewrite (IH ND'). split; [intros [H|[H1 H2]]; [subst; auto | auto] | intros [H1 [H2|H2]]; auto].
Qed.
Lemma mxc_remove_NoDup : forall c l, NoDup l -> NoDup (mxc_remove c l).
Proof.
  intros c l; induction l as [|a l IH]; intros ND; cbn; auto.
  inversion ND as [|? ? Ha ND']; subst.
  destruct (Nat.eqb_spec a c); auto. constructor; auto. rewrite mxc_remove_In by auto. tauto.
Qed.

Lemma mxc_forallb_false : forall A (f : A -> bool) l d, forallb f l = false ->
  exists i, i < length l /\ f (nth i l d) = false.
Proof.
  intros A f l d; induction l as [|a l IH]; cbn; [discriminate|].
  destruct (f a) eqn:E; cbn; intros H.
  - destruct (IH H) as [i [H1 H2]]. exists (S i); split; [lia|auto].
  - exists 0; split; [lia|auto].
Qed.
Lemma mxc_forallb_nth : forall A (f : A -> bool) l d i, forallb f l = true -> i < length l -> f (nth i l d) = true.
Proof. intros. rewrite forallb_forall in H. apply H. apply nth_In; auto. Qed.

(* ------------------------------------------------------------------------------------------ *)
(* reachability *)
Inductive mxc_reach (cfg : mxc_cfg) (s0 : mxc_state) : mxc_state -> Prop :=
| mxc_reach0 : mxc_reach cfg s0 s0
| mxc_reachS : forall s t s', mxc_reach cfg s0 s -> mxc_step cfg s t = Some s' -> mxc_reach cfg s0 s'.

Lemma mxc_reach_trans : forall cfg a b c, mxc_reach cfg a b -> mxc_reach cfg b c -> mxc_reach cfg a c.
Proof. intros cfg a b c H1 H2; induction H2; auto. econstructor; eauto. Qed.

Lemma mxc_run_reach : forall cfg ts s s', mxc_run cfg s ts = Some s' -> mxc_reach cfg s s'.
Proof.
  intros cfg ts; induction ts as [|t r IH]; cbn; intros s s' H.
  - inversion H; constructor.
  - destruct (mxc_step cfg s t) as [s1|] eqn:E; [|discriminate].
    eapply mxc_reach_trans; [|apply IH; eauto]. econstructor; [constructor|eauto].
Qed.

(* ------------------------------------------------------------------------------------------ *)
(* the invariant (code as it is: Endpoints iterates under the lock) *)
Notation gc s c := (nth c (mxs_chs s) mxc_dch).
Notation gl s i := (nth i (mxs_cls s) mxc_dcl).

Definition mxc_hpend (h : mxc_hpc) (c : nat) : bool :=
  match h with
  | MxHrecv => false
  | MxHlock _ => true
  | MxHloop _ rest => mxc_mem c rest
  | MxHsend _ c' rest => Nat.eqb c c' || mxc_mem c rest
  end.
Definition mxc_hcur (h : mxc_hpc) : list mxc_bundle :=
  match h with MxHrecv => [] | MxHlock m | MxHloop m _ | MxHsend m _ _ => [m] end.
Definition mxc_howed (h : mxc_hpc) (c : nat) : list mxc_bundle := if mxc_hpend h c then mxc_hcur h else [].
Definition mxc_hstarted (h : mxc_hpc) (acc : list mxc_bundle) (c : nat) : nat :=
  length acc - (if mxc_hpend h c then 1 else 0).

Definition mxc_holds (h : mxc_hpc) (chs : list mxc_child) (cls : list mxc_caller) (o : mxc_owner) : bool :=
  match o with
  | MxOH => match h with MxHloop _ _ | MxHsend _ _ _ => true | _ => false end
  | MxOC i => match mxl_pc (nth i cls mxc_dcl) with MxCearly _ | MxCiter _ _ _ _ => true | _ => false end
  | MxOG c => match mxh_reg (nth c chs mxc_dch) with MxG1 | MxG2 => true | _ => false end
  | MxOK c => match mxh_kid (nth c chs mxc_dch) with MxKclose | MxKrm | MxKunl => true | _ => false end
  end.

Definition mxc_g_early g := match g with MxG0 | MxG1 => true | _ => false end.
Definition mxc_g_done g := match g with MxG4 => true | _ => false end.
Definition mxc_k_late k := match k with MxKrm | MxKunl | MxKdone => true | _ => false end.
Definition mxc_k_closing k := match k with MxKlock | MxKclose | MxKrm | MxKunl | MxKdone => true | _ => false end.
Definition mxc_k_is0 k := match k with MxK0 => true | _ => false end.
Definition mxc_r_is0 r := match r with MxR0 => true | _ => false end.
Definition mxc_n_is0 n := match n with MxN0 => true | _ => false end.
Definition mxc_r_isdone r := match r with MxRdone => true | _ => false end.
Definition mxc_r_isreply r := match r with MxRreply _ => true | _ => false end.
Definition mxc_n_isrun n := match n with MxNrun => true | _ => false end.
Definition mxc_r_aftershut r := match r with MxRdrain | MxRdone => true | _ => false end.
(* between the append in Register and the removal in unregister *)
Definition mxc_regd (ch : mxc_child) : bool :=
  match mxh_kid ch with MxKrecv | MxKfwd _ | MxKlock | MxKclose | MxKrm => true | _ => false end.

Record mxc_chinv (cfg : mxc_cfg) (ch : mxc_child) : Prop := {
  ci_rclosed : mxh_rclosed ch = mxc_k_late (mxh_kid ch);
  ci_k0 : mxc_k_is0 (mxh_kid ch) = mxc_g_early (mxh_reg ch);
  ci_r0 : mxc_r_is0 (mxh_rd ch) = negb (mxc_g_done (mxh_reg ch));
  ci_n0 : mxc_n_is0 (mxh_cn ch) = negb (mxc_g_done (mxh_reg ch));
  ci_done : mxc_r_isdone (mxh_rd ch) = true -> mxc_drain cfg = true -> mxh_rclosed ch = true;
  ci_reply : mxc_r_isreply (mxh_rd ch) = true -> mxh_reply ch = true;
  ci_sclosed : mxc_k_closing (mxh_kid ch) = true -> mxh_sclosed ch = true;
  ci_since0 : mxh_since ch = None -> mxh_log ch = [];
  ci_since1 : mxh_since ch <> None -> mxh_ep ch <> None;
  ci_since2 : mxc_g_early (mxh_reg ch) = true -> mxh_since ch = None;
  ci_since3 : mxc_g_early (mxh_reg ch) = false -> mxh_ep ch <> None -> mxh_since ch <> None;
  ci_cnrun : mxc_n_isrun (mxh_cn ch) = true -> mxh_reply ch = false;
  ci_rs : mxh_reply ch = true -> mxh_sclosed ch = true -> mxc_r_aftershut (mxh_rd ch) = true
}.

Definition mxc_hdinv (h : mxc_hpc) (acc : list mxc_bundle) (children : list nat) (chs : list mxc_child) : Prop :=
  match h with
  | MxHrecv => True
  | MxHlock m => exists pre, acc = pre ++ [m]
  | MxHloop m rest => (exists pre, acc = pre ++ [m]) /\ NoDup rest /\ incl rest children
  | MxHsend m c rest => (exists pre, acc = pre ++ [m]) /\ NoDup (c :: rest) /\ incl (c :: rest) children
                        /\ mxc_match (mxh_ep (nth c chs mxc_dch)) m = true
  end.

Definition mxc_qinv (children : list nat) (chs : list mxc_child) (cl : mxc_caller) : Prop :=
  match mxl_pc cl with
  | MxCearly _ => False
  | MxCiter n j fz acc =>
      fz = None /\ n = length children
      /\ forall e, In e (mxl_must cl) ->
           In e acc \/ exists c, In c (skipn j children) /\ mxh_ep (nth c chs mxc_dch) = Some e
  | _ => True
  end.

Definition mxc_res_ok (r : mxc_res) : Prop :=
  match r with
  | MxHas e r must => In e must -> r = true
  | MxNoAgent b must => ~ In (mxb_dst b) must
  | MxSent _ => True
  end.

Definition mxc_dlv (h : mxc_hpc) (acc : list mxc_bundle) (children : list nat) (c : nat) (ch : mxc_child) : Prop :=
  match mxh_since ch, mxh_ep ch with
  | Some k, Some e =>
      k <= mxc_hstarted h acc c
      /\ exists rest, mxh_log ch ++ rest = filter (mxc_match (Some e)) (skipn k acc)
                      /\ (In c children -> mxc_reading ch = true -> rest = filter (mxc_match (Some e)) (mxc_howed h c))
  | _, _ => True
  end.

Record mxc_inv (cfg : mxc_cfg) (s : mxc_state) : Prop := {
  iv_lock : forall o, mxc_holds (mxs_hd s) (mxs_chs s) (mxs_cls s) o = true <-> mxs_lock s = Some o;
  iv_nodup : NoDup (mxs_children s);
  iv_regd : forall c, In c (mxs_children s) <-> mxc_regd (gc s c) = true;
  iv_ch : forall c, mxc_chinv cfg (gc s c);
  iv_hd : mxc_hdinv (mxs_hd s) (mxs_acc s) (mxs_children s) (mxs_chs s);
  iv_q : forall i, mxc_qinv (mxs_children s) (mxs_chs s) (gl s i);
  iv_res : forall i r, In r (mxl_res (gl s i)) -> mxc_res_ok r;
  iv_dlv : forall c, mxc_dlv (mxs_hd s) (mxs_acc s) (mxs_children s) c (gc s c)
}.

Lemma mxc_chinv_child0 : forall cfg sp, mxc_chinv cfg (mxc_child0 sp).
Proof. intros cfg [[e r] sc]; constructor; cbn; auto; try discriminate; try congruence. Qed.
Lemma mxc_chinv_dch : forall cfg, mxc_chinv cfg mxc_dch.
Proof. intros cfg; constructor; cbn; auto; try discriminate; try congruence. Qed.

Lemma mxc_nth_map_child0 : forall l c,
  nth c (map mxc_child0 l) mxc_dch = mxc_dch \/ exists sp, nth c (map mxc_child0 l) mxc_dch = mxc_child0 sp.
Proof.
  intros l c. destruct (Nat.lt_ge_cases c (length l)) as [H|H].
  - right. exists (nth c l (None, false, [])). 
    change mxc_dch with (mxc_child0 (None, false, [])). apply map_nth.
  - left. apply nth_overflow. rewrite map_length; auto.
Qed.
Lemma mxc_nth_map_caller0 : forall l i,
  nth i (map mxc_caller0 l) mxc_dcl = mxc_dcl \/ exists sp, nth i (map mxc_caller0 l) mxc_dcl = mxc_caller0 sp.
Proof.
  intros l i. destruct (Nat.lt_ge_cases i (length l)) as [H|H].
  - right. exists (nth i l ([], false)).
    change mxc_dcl with (mxc_caller0 ([], false)). apply map_nth.
  - left. apply nth_overflow. rewrite map_length; auto.
Qed.

Lemma mxc_inv_init : forall cfg chs cls, mxc_inv cfg (mxc_init chs cls).
Proof.
  intros cfg chs cls; constructor; cbn.
  - intros o; split; [|discriminate]. destruct o; cbn; try discriminate.
    + destruct (mxc_nth_map_caller0 cls i) as [->|[sp ->]]; cbn; discriminate.
    + destruct (mxc_nth_map_child0 chs c) as [->|[sp ->]]; cbn; discriminate.
    + destruct (mxc_nth_map_child0 chs c) as [->|[sp ->]]; cbn; discriminate.
  - constructor.
  - intros c; split; [tauto|]. destruct (mxc_nth_map_child0 chs c) as [->|[sp ->]]; cbn; discriminate.
  - intros c. destruct (mxc_nth_map_child0 chs c) as [->|[sp ->]]; [apply mxc_chinv_dch|apply mxc_chinv_child0].
  - exact I.
  - intros i. destruct (mxc_nth_map_caller0 cls i) as [->|[sp ->]]; cbn; exact I.
  - intros i r. destruct (mxc_nth_map_caller0 cls i) as [->|[sp ->]]; cbn; tauto.
  - intros c. destruct (mxc_nth_map_child0 chs c) as [->|[sp ->]]; cbn; auto.
Qed.

(* ------------------------------------------------------------------------------------------ *)
(* preservation: helpers *)
Ltac mxc_norm :=
  cbn [mxs_lock mxs_hd mxs_children mxs_stale mxs_cap mxs_chs mxs_cls mxs_acc mxs_panic
       mxs_set_lock mxs_set_hd mxs_set_arr mxs_set_chs mxs_set_cls mxs_set_acc mxs_set_panic mxc_setc mxc_setl
       mxh_ep mxh_reply mxh_reg mxh_rd mxh_cn mxh_script mxh_kid mxh_rclosed mxh_sclosed mxh_log mxh_since
       mxh_set_ep mxh_set_reg mxh_set_rd mxh_set_cn mxh_set_script mxh_set_kid mxh_set_rclosed mxh_set_sclosed
       mxh_set_log mxh_set_since
       mxl_ops mxl_pc mxl_up mxl_must mxl_res mxl_set_ops mxl_set_pc mxl_set_must mxl_set_res] in *.

Definition mxc_lockinv h chs cls (lk : option mxc_owner) : Prop :=
  forall o, mxc_holds h chs cls o = true <-> lk = Some o.

Lemma mxc_lock_acquire : forall h chs cls h' chs' cls' me,
  mxc_lockinv h chs cls None ->
  (forall o, o <> me -> mxc_holds h' chs' cls' o = mxc_holds h chs cls o) ->
  mxc_holds h' chs' cls' me = true ->
  mxc_lockinv h' chs' cls' (Some me).
Proof.
  intros h chs cls h' chs' cls' me H Hs Hm o.
  assert (D : {o = me} + {o <> me}) by (repeat decide equality).
  destruct D as [->|Hne]; [tauto|]. rewrite (Hs o Hne). rewrite (H o). split; congruence.
Qed.
Lemma mxc_lock_release : forall h chs cls h' chs' cls' me,
  mxc_lockinv h chs cls (Some me) ->
  (forall o, o <> me -> mxc_holds h' chs' cls' o = mxc_holds h chs cls o) ->
  mxc_holds h' chs' cls' me = false ->
  mxc_lockinv h' chs' cls' None.
Proof.
  intros h chs cls h' chs' cls' me H Hs Hm o.
  assert (D : {o = me} + {o <> me}) by (repeat decide equality).
  destruct D as [->|Hne]; [split; congruence|]. rewrite (Hs o Hne). rewrite (H o). split; congruence.
Qed.
Lemma mxc_lock_keep : forall h chs cls h' chs' cls' lk,
  mxc_lockinv h chs cls lk ->
  (forall o, mxc_holds h' chs' cls' o = mxc_holds h chs cls o) ->
  mxc_lockinv h' chs' cls' lk.
Proof. intros h chs cls h' chs' cls' lk H Hs o. rewrite Hs. apply H. Qed.

(* holds is unchanged for the owners whose program counters are unchanged *)
Ltac mxc_holds_same :=
  let o := fresh "o" in
  intros o; try (let Hne := fresh "Hne" in intros Hne);
  destruct o; cbn [mxc_holds]; try reflexivity; try congruence;
  rewrite ?mxc_nth_upd by assumption;
  try match goal with
      | |- context [Nat.eqb ?a ?b] => destruct (Nat.eqb_spec a b); [subst; mxc_norm; try reflexivity; try congruence | reflexivity]
      end.

Lemma mxc_hstarted_le : forall h h' acc c,
  (mxc_hpend h' c = true -> mxc_hpend h c = true) -> mxc_hstarted h acc c <= mxc_hstarted h' acc c.
Proof.
  intros h h' acc c H; unfold mxc_hstarted.
  destruct (mxc_hpend h' c); destruct (mxc_hpend h c); try lia; try discriminate (H eq_refl).
Qed.

Lemma mxc_dlv_step : forall h acc children c ch h' children' ch',
  mxc_dlv h acc children c ch ->
  mxh_since ch' = mxh_since ch -> mxh_ep ch' = mxh_ep ch -> mxh_log ch' = mxh_log ch ->
  (mxc_hpend h' c = true -> mxc_hpend h c = true) ->
  (In c children' -> mxc_reading ch' = true ->
     In c children /\ mxc_reading ch = true
     /\ forall e, mxh_ep ch = Some e ->
          filter (mxc_match (Some e)) (mxc_howed h' c) = filter (mxc_match (Some e)) (mxc_howed h c)) ->
  mxc_dlv h' acc children' c ch'.
Proof.
  intros h acc children c ch h' children' ch' D E1 E2 E3 Hp Hr.
  unfold mxc_dlv in *. rewrite E1, E2, E3.
  destruct (mxh_since ch) as [k|]; auto. destruct (mxh_ep ch) as [e|] eqn:Ee; auto.
  destruct D as [D1 [rest [D2 D3]]]. split.
  - pose proof (mxc_hstarted_le h h' acc c Hp). lia.
  - exists rest; split; auto. intros Hi Hrd. destruct (Hr Hi Hrd) as [A [B C]].
    rewrite (C e eq_refl). auto.
Qed.

(* the same state as far as child c is concerned *)
Lemma mxc_dlv_same : forall h acc children c ch ch',
  mxc_dlv h acc children c ch ->
  mxh_since ch' = mxh_since ch -> mxh_ep ch' = mxh_ep ch -> mxh_log ch' = mxh_log ch ->
  (mxc_reading ch' = true -> mxc_reading ch = true) ->
  mxc_dlv h acc children c ch'.
Proof.
  intros. eapply mxc_dlv_step; eauto.
Qed.

(* ------------------------------------------------------------------------------------------ *)
(* preservation, thread by thread *)
Lemma mxc_in_range_reg : forall s c, mxh_reg (gc s c) <> MxG0 -> c < length (mxs_chs s).
Proof.
  intros s c H. destruct (Nat.lt_ge_cases c (length (mxs_chs s))); auto.
  rewrite nth_overflow in H by auto. cbn in H. congruence.
Qed.
Lemma mxc_in_range_kid : forall s c, mxh_kid (gc s c) <> MxK0 -> c < length (mxs_chs s).
Proof.
  intros s c H. destruct (Nat.lt_ge_cases c (length (mxs_chs s))); auto.
  rewrite nth_overflow in H by auto. cbn in H. congruence.
Qed.

Lemma mxc_mem_cons : forall c a l, mxc_mem c (a :: l) = Nat.eqb c a || mxc_mem c l.
Proof. reflexivity. Qed.

Ltac mxc_lk_keep IL := eapply mxc_lock_keep; [exact IL|]; mxc_holds_same.

Lemma mxc_inv_step_h : forall cfg s s', mxc_inv cfg s -> mxc_step_h s = Some s' -> mxc_inv cfg s'.
Proof.
  intros cfg s s' Iv H. destruct Iv as [IL IN IR IC IH IQ IS ID]. unfold mxc_step_h, mxc_getc in H.
  fold (mxc_lockinv (mxs_hd s) (mxs_chs s) (mxs_cls s) (mxs_lock s)) in IL.
  destruct (mxs_hd s) as [|m|m rest|m c rest] eqn:Eh; [discriminate| | |].
  - (* lock *)
    destruct (mxs_lock s) eqn:El; [discriminate|]. inversion H; subst s'; clear H.
    constructor; mxc_norm; [ | auto | auto | auto | | auto | auto | ].
    + eapply mxc_lock_acquire with (me := MxOH); [exact IL | | reflexivity]. mxc_holds_same.
    + cbn in *. split; auto. split; auto. apply incl_refl.
    + intros c. eapply mxc_dlv_step; [apply ID | auto ..].
      intros Hi Hr. split; auto. split; auto. intros e _. unfold mxc_howed; cbn [mxc_hpend mxc_hcur]; rewrite ?mxc_mem_cons.
      apply mxc_mem_In in Hi. rewrite Hi. reflexivity.
  - destruct rest as [|c rest].
    + (* unlock *)
      inversion H; subst s'; clear H.
      constructor; mxc_norm; [ | auto | auto | auto | exact I | auto | auto | ].
      * eapply mxc_lock_release with (me := MxOH); [ | | reflexivity].
        -- pose proof (proj1 (IL MxOH)) as L. rewrite <- (L eq_refl). exact IL.
        -- mxc_holds_same.
      * intros c. eapply mxc_dlv_step; [apply ID | auto ..].
    + (* endpoint check *)
      destruct (mxc_match (mxh_ep (gc s c)) m) eqn:Em; inversion H; subst s'; clear H;
        (constructor; mxc_norm; [ mxc_lk_keep IL | auto | auto | auto | | auto | auto | ]).
      * cbn in *. tauto.
      * intros c'. eapply mxc_dlv_step; [apply ID | auto ..].
      * cbn in *. destruct IH as [A [B C]]. inversion B; subst.
        split; auto. split; auto. intros x Hx. apply C. right; auto.
      * intros c'. destruct IH as [A [B C]]. inversion B as [|? ? B1 B2]; subst.
        eapply mxc_dlv_step; [apply ID | auto ..].
        -- cbn [mxc_hpend]; rewrite ?mxc_mem_cons. intros ->. apply orb_true_r.
        -- intros Hi Hr. split; auto. split; auto. intros e Ee. unfold mxc_howed; cbn [mxc_hpend mxc_hcur]; rewrite ?mxc_mem_cons.
           destruct (Nat.eqb_spec c' c) as [->|Hne]; cbn [orb]; auto.
           apply mxc_mem_nIn in B1. rewrite B1. cbn [filter]. rewrite Ee in Em. rewrite Em. reflexivity.
  - (* send *)
    destruct IH as [A [B [C M]]]. inversion B as [|? ? B1 B2]; subst.
    assert (Hin : In c (mxs_children s)) by (apply C; left; auto).
    destruct (mxh_rclosed (gc s c)) eqn:Erc.
    { inversion H; subst s'; clear H. constructor; mxc_norm; rewrite ?Eh; auto. cbn. repeat split; auto. }
    assert (Hc : c < length (mxs_chs s)).
    { apply mxc_in_range_kid. apply IR in Hin. unfold mxc_regd in Hin. intros E; rewrite E in Hin; discriminate. }
    destruct (mxh_rd (gc s c)) eqn:Erd; try discriminate; inversion H; subst s'; clear H.
    + (* the reader takes the message *)
      constructor; mxc_norm; [ mxc_lk_keep IL | auto | | | | | auto | ].
      * intros c'. rewrite mxc_nth_upd by auto. destruct (Nat.eqb_spec c' c) as [->|]; auto.
        rewrite IR. unfold mxc_regd; mxc_norm. tauto.
      * intros c'. rewrite mxc_nth_upd by auto. destruct (Nat.eqb_spec c' c) as [->|]; auto.
        destruct (IC c) as [c1 c2 c3 c4 c5 c6 c7 c8 c9 c10 c11 c12 c13].
        constructor; mxc_norm; auto; try (rewrite Erd in *; cbn in *; auto; fail).
        -- rewrite Erd in *. destruct (mxh_reply (gc s c)); cbn in *; auto.
        -- destruct (mxh_reply (gc s c)); cbn in *; auto; discriminate.
        -- destruct (mxh_reply (gc s c)) eqn:Er; cbn in *; auto; discriminate.
        -- intros E. apply c11 in E; [contradiction| | ].
           ++ apply IR in Hin. unfold mxc_regd in Hin.
              destruct (mxh_reg (gc s c)); cbn in *; auto; destruct (mxh_kid (gc s c)); cbn in *; congruence.
           ++ destruct (mxh_ep (gc s c)); cbn in M; congruence.
        -- intros Hr Hs. specialize (c13 Hr Hs). rewrite Erd in c13. discriminate.
      * split; auto. split; auto. intros x Hx. apply C. right; auto.
      * intros i. specialize (IQ i). unfold mxc_qinv in *. destruct (mxl_pc (gl s i)); auto.
        destruct IQ as [Q1 [Q2 Q3]]. split; auto. split; auto. intros e He.
        destruct (Q3 e He) as [Q|[c' [Q4 Q5]]]; auto. right. exists c'. split; auto.
        rewrite mxc_nth_upd by auto. destruct (Nat.eqb_spec c' c) as [->|]; auto.
      * intros c'. rewrite mxc_nth_upd by auto. destruct (Nat.eqb_spec c' c) as [->|Hne].
        -- specialize (ID c). unfold mxc_dlv in *. mxc_norm.
           destruct (mxh_since (gc s c)) as [k|]; auto. destruct (mxh_ep (gc s c)) as [e|] eqn:Ee; auto.
           destruct ID as [D1 [rest0 [D2 D3]]].
           assert (R : rest0 = [m]).
           { rewrite D3; auto. unfold mxc_howed; cbn [mxc_hpend mxc_hcur]; rewrite ?mxc_mem_cons. rewrite Nat.eqb_refl. cbn [orb filter]. rewrite M. reflexivity.
             unfold mxc_reading. rewrite Erd. reflexivity. }
           subst rest0. split.
           ++ pose proof (mxc_hstarted_le (MxHsend m c rest) (MxHloop m rest) (mxs_acc s) c) as L.
              assert (L1 : mxc_hpend (MxHloop m rest) c = true -> mxc_hpend (MxHsend m c rest) c = true).
              { cbn. rewrite Nat.eqb_refl. auto. }
              specialize (L L1). lia.
           ++ exists []. rewrite app_nil_r. split; auto. intros _ _. unfold mxc_howed; cbn [mxc_hpend mxc_hcur]; rewrite ?mxc_mem_cons.
              apply mxc_mem_nIn in B1. rewrite B1. reflexivity.
        -- eapply mxc_dlv_step; [apply ID | auto ..].
           ++ cbn [mxc_hpend]; rewrite ?mxc_mem_cons. intros ->. apply orb_true_r.
           ++ intros Hi Hr. split; auto. split; auto. intros e Ee. unfold mxc_howed; cbn [mxc_hpend mxc_hcur]; rewrite ?mxc_mem_cons.
              apply Nat.eqb_neq in Hne. rewrite Hne. reflexivity.
    + (* drained *)
      constructor; mxc_norm; [ mxc_lk_keep IL | auto | auto | auto | | auto | auto | ].
      * split; auto. split; auto. intros x Hx. apply C. right; auto.
      * intros c'. eapply mxc_dlv_step; [apply ID | auto ..].
        -- cbn [mxc_hpend]; rewrite ?mxc_mem_cons. intros ->. apply orb_true_r.
        -- intros Hi Hr. destruct (Nat.eqb_spec c' c) as [->|Hne].
           ++ unfold mxc_reading in Hr. rewrite Erd in Hr. discriminate.
           ++ split; auto. split; auto. intros e Ee. unfold mxc_howed; cbn [mxc_hpend mxc_hcur]; rewrite ?mxc_mem_cons.
              apply Nat.eqb_neq in Hne. rewrite Hne. reflexivity.
Qed.

Lemma mxc_skipn_nth : forall A (d : A) l j, j < length l -> skipn j l = nth j l d :: skipn (S j) l.
Proof.
  intros A d l; induction l as [|a l IH]; intros j H; cbn in H; [lia|].
  destruct j; [reflexivity|]. cbn [skipn nth]. apply IH. lia.
Qed.
Lemma mxc_nth_error_app : forall A (d : A) l r j, j < length l -> nth_error (l ++ r) j = Some (nth j l d).
Proof. intros. rewrite nth_error_app1 by auto. apply nth_error_nth'. auto. Qed.

Lemma mxc_has_In : forall e l, mxc_has e l = true <-> In e l.
Proof.
  intros e l; unfold mxc_has; rewrite existsb_exists; split.
  - intros [x [H1 H2]]. apply N.eqb_eq in H2; subst; auto.
  - intros H; exists e; split; auto. apply N.eqb_refl.
Qed.

Lemma mxc_inv_step_c : forall cfg s i s', mxc_nocopy cfg = false ->
  mxc_inv cfg s -> mxc_step_c cfg s i = Some s' -> mxc_inv cfg s'.
Proof.
  intros cfg s i s' Hnc Iv H. destruct Iv as [IL IN IR IC IH IQ IS ID]. unfold mxc_step_c, mxc_getl, mxc_getc in H.
  fold (mxc_lockinv (mxs_hd s) (mxs_chs s) (mxs_cls s) (mxs_lock s)) in IL.
  destruct (i <? length (mxs_cls s)) eqn:Ei; [|discriminate]. apply Nat.ltb_lt in Ei. cbn [negb] in H.
  pose proof (IQ i) as Qi. unfold mxc_qinv in Qi.
  destruct (mxl_pc (gl s i)) as [|n|n j fz acc|b] eqn:Epc.
  - (* Lock, header *)
    destruct (mxl_ops (gl s i)) eqn:Eo; [discriminate|]. destruct (mxs_lock s) eqn:El; [discriminate|].
    rewrite Hnc in H. inversion H; subst s'; clear H.
    constructor; mxc_norm; [ | auto | auto | auto | auto | | | auto ].
    + eapply mxc_lock_acquire with (me := MxOC i); [exact IL | | ].
      * mxc_holds_same; try (rewrite Epc; reflexivity).
      * cbn [mxc_holds]. rewrite mxc_nth_upd by auto. rewrite Nat.eqb_refl. reflexivity.
    + intros i'. rewrite mxc_nth_upd by auto. destruct (Nat.eqb_spec i' i) as [->|]; auto.
      unfold mxc_qinv; mxc_norm. split; auto. split; auto. intros e He.
      right. apply in_flat_map in He. destruct He as [c [H1 H2]]. exists c. split; auto.
      unfold mxc_getc, mxc_eps in H2. destruct (mxh_ep (gc s c)); cbn in H2; [|tauto].
      destruct H2; [congruence|tauto].
    + intros i' r. rewrite mxc_nth_upd by auto. destruct (Nat.eqb_spec i' i) as [->|]; [|apply IS]. mxc_norm. apply IS.
  - tauto.
  - destruct Qi as [Q1 [Q2 Q3]]. subst fz n.
    destruct (j <? length (mxs_children s)) eqn:Ej.
    + (* one cell *)
      apply Nat.ltb_lt in Ej. rewrite (mxc_nth_error_app _ 0) in H by auto.
      inversion H; subst s'; clear H.
      constructor; mxc_norm; [ | auto | auto | auto | auto | | | auto ].
      * eapply mxc_lock_keep; [exact IL|]. mxc_holds_same; try (rewrite Epc; reflexivity).
      * intros i'. rewrite mxc_nth_upd by auto. destruct (Nat.eqb_spec i' i) as [->|]; auto.
        unfold mxc_qinv; mxc_norm. split; auto. split; auto. intros e He.
        destruct (Q3 e He) as [Q|[c [Q4 Q5]]]; [left; apply in_or_app; auto|].
        rewrite (mxc_skipn_nth _ 0) in Q4 by auto. destruct Q4 as [<-|Q4].
        -- left. apply in_or_app. right. unfold mxc_eps. rewrite Q5. left; auto.
        -- right. exists c; auto.
      * intros i' r. rewrite mxc_nth_upd by auto. destruct (Nat.eqb_spec i' i) as [->|]; [|apply IS]. mxc_norm. apply IS.
    + (* Unlock, result *)
      apply Nat.ltb_ge in Ej. rewrite Hnc in H. inversion H; subst s'; clear H.
      assert (Hacc : forall e, In e (mxl_must (gl s i)) -> In e acc).
      { intros e He. destruct (Q3 e He) as [Q|[c [Q4 Q5]]]; auto. rewrite skipn_all2 in Q4 by auto. destruct Q4. }
      assert (Hpc : match mxl_pc (mxc_finish (gl s i) acc) with MxCidle | MxCsend _ => True | _ => False end).
      { unfold mxc_finish. destruct (mxl_ops (gl s i)) as [|[e|b] r]; mxc_norm; auto.
        destruct (mxc_has (mxb_dst b) acc); mxc_norm; auto. }
      constructor; mxc_norm; [ | auto | auto | auto | auto | | | auto ].
      * eapply mxc_lock_release with (me := MxOC i).
        -- pose proof (proj1 (IL (MxOC i))) as L. cbn [mxc_holds] in L. rewrite Epc in L. rewrite <- (L eq_refl). exact IL.
        -- mxc_holds_same.
        -- cbn [mxc_holds]. rewrite mxc_nth_upd by auto. rewrite Nat.eqb_refl.
           destruct (mxl_pc (mxc_finish (gl s i) acc)); tauto.
      * intros i'. rewrite mxc_nth_upd by auto. destruct (Nat.eqb_spec i' i) as [->|]; auto.
        unfold mxc_qinv. destruct (mxl_pc (mxc_finish (gl s i) acc)); tauto.
      * intros i' r. rewrite mxc_nth_upd by auto. destruct (Nat.eqb_spec i' i) as [->|]; [|apply IS].
        unfold mxc_finish. destruct (mxl_ops (gl s i)) as [|[e|b] r0]; mxc_norm.
        -- apply IS.
        -- intros Hr. apply in_app_or in Hr. destruct Hr as [Hr|[<-|[]]]; eauto.
           cbn. intros He. apply mxc_has_In. auto.
        -- destruct (mxc_has (mxb_dst b) acc) eqn:Eh; mxc_norm; [apply IS|].
           intros Hr. apply in_app_or in Hr. destruct Hr as [Hr|[<-|[]]]; eauto.
           cbn. intros He. apply Hacc in He. apply mxc_has_In in He. congruence.
  - (* mux.receiver <- b *)
    destruct (mxs_hd s) eqn:Eh; try discriminate. inversion H; subst s'; clear H.
    constructor; mxc_norm; [ | auto | auto | auto | | | | ].
    + eapply mxc_lock_keep; [exact IL|]. mxc_holds_same; try (rewrite Epc; reflexivity).
    + cbn. eauto.
    + intros i'. rewrite mxc_nth_upd by auto. destruct (Nat.eqb_spec i' i) as [->|]; auto.
    + intros i' r. rewrite mxc_nth_upd by auto. destruct (Nat.eqb_spec i' i) as [->|]; [|apply IS]. mxc_norm.
      intros Hr. apply in_app_or in Hr. destruct Hr as [Hr|[<-|[]]]; eauto; exact I.
    + intros c. specialize (ID c). unfold mxc_dlv in *.
      destruct (mxh_since (gc s c)) as [k|]; auto. destruct (mxh_ep (gc s c)) as [e|] eqn:Ee; auto.
      destruct ID as [D1 [rest [D2 D3]]]. unfold mxc_hstarted in *. cbn [mxc_hpend] in *.
      rewrite app_length. cbn [length]. split; [lia|].
      exists (rest ++ filter (mxc_match (Some e)) [b]). split.
      * rewrite skipn_app. replace (k - length (mxs_acc s)) with 0 by lia. cbn [skipn].
        rewrite filter_app. rewrite app_assoc. rewrite D2. reflexivity.
      * intros Hi Hr. rewrite (D3 Hi Hr). reflexivity.
Qed.

Lemma mxc_lock_other : forall h chs cls lk o, mxc_lockinv h chs cls lk -> lk <> Some o -> mxc_holds h chs cls o = false.
Proof. intros h chs cls lk o L H. destruct (mxc_holds h chs cls o) eqn:E; auto. apply L in E. congruence. Qed.

Lemma mxc_hdinv_ep : forall h acc children chs chs',
  (forall c, mxh_ep (nth c chs' mxc_dch) = mxh_ep (nth c chs mxc_dch)) ->
  mxc_hdinv h acc children chs -> mxc_hdinv h acc children chs'.
Proof. intros h acc children chs chs' E H. destruct h; cbn in *; auto. rewrite E. auto. Qed.

Lemma mxc_qinv_ep : forall children chs chs' cl,
  (forall c e, mxh_ep (nth c chs mxc_dch) = Some e -> mxh_ep (nth c chs' mxc_dch) = Some e) ->
  mxc_qinv children chs cl -> mxc_qinv children chs' cl.
Proof.
  intros children chs chs' cl E H. unfold mxc_qinv in *. destruct (mxl_pc cl); auto.
  destruct H as [H1 [H2 H3]]. split; auto. split; auto. intros e He.
  destruct (H3 e He) as [Q|[c [Q1 Q2]]]; auto. right. exists c; auto.
Qed.

(* a child is replaced by one with the same endpoint *)
Lemma mxc_upd_ep : forall chs c v, c < length chs -> mxh_ep v = mxh_ep (nth c chs mxc_dch) ->
  forall c', mxh_ep (nth c' (mxc_upd c v chs) mxc_dch) = mxh_ep (nth c' chs mxc_dch).
Proof. intros. rewrite mxc_nth_upd by auto. destruct (Nat.eqb_spec c' c) as [->|]; auto. Qed.

Lemma mxc_hd_idle : forall h chs cls o, mxc_lockinv h chs cls (Some o) -> o <> MxOH ->
  h = MxHrecv \/ exists m, h = MxHlock m.
Proof.
  intros h chs cls o L H. assert (E : mxc_holds h chs cls MxOH = false) by (eapply mxc_lock_other; eauto; congruence).
  destruct h; cbn in E; try discriminate; eauto.
Qed.
Lemma mxc_q_idle : forall h chs cls o children i, mxc_lockinv h chs cls (Some o) -> o <> MxOC i ->
  mxc_qinv children chs (nth i cls mxc_dcl) -> forall children' chs', mxc_qinv children' chs' (nth i cls mxc_dcl).
Proof.
  intros h chs cls o children i L H Q children' chs'.
  assert (E : mxc_holds h chs cls (MxOC i) = false) by (eapply mxc_lock_other; eauto; congruence).
  unfold mxc_qinv in *. cbn in E. destruct (mxl_pc (nth i cls mxc_dcl)); auto; discriminate.
Qed.

Lemma mxc_NoDup_snoc : forall (l : list nat) c, NoDup l -> ~ In c l -> NoDup (l ++ [c]).
Proof.
  induction l as [|a l IH]; intros c ND H; cbn. { constructor; auto; constructor. }
  inversion ND; subst. constructor.
  - rewrite in_app_iff. cbn. intros [?|[?|[]]]; auto. subst. apply H. left; auto.
  - apply IH; auto. intros ?. apply H. right; auto.
Qed.

Lemma mxc_inv_step_g : forall cfg s c s', mxc_nocopy cfg = false ->
  mxc_inv cfg s -> mxc_step_g cfg s c = Some s' -> mxc_inv cfg s'.
Proof.
  intros cfg s c s' Hnc Iv H. destruct Iv as [IL IN IR IC IH IQ IS ID]. unfold mxc_step_g, mxc_getc in H.
  fold (mxc_lockinv (mxs_hd s) (mxs_chs s) (mxs_cls s) (mxs_lock s)) in IL.
  destruct (c <? length (mxs_chs s)) eqn:Ec; [|discriminate]. apply Nat.ltb_lt in Ec. cbn [negb] in H.
  destruct (mxh_reg (gc s c)) eqn:Er.
  - (* Lock *)
    destruct (mxs_lock s) eqn:El; [discriminate|]. inversion H; subst s'; clear H.
    constructor; mxc_norm; [ | auto | | | | | auto | ].
    + eapply mxc_lock_acquire with (me := MxOG c); [exact IL | | ].
      * mxc_holds_same.
      * cbn [mxc_holds]. rewrite mxc_nth_upd by auto. rewrite Nat.eqb_refl. reflexivity.
    + intros c'. rewrite mxc_nth_upd by auto. destruct (Nat.eqb_spec c' c) as [->|]; auto.
      unfold mxc_regd; mxc_norm. apply IR.
    + intros c'. rewrite mxc_nth_upd by auto. destruct (Nat.eqb_spec c' c) as [->|]; auto.
      destruct (IC c) as [c1 c2 c3 c4 c5 c6 c7 c8 c9 c10 c11 c12 c13]. constructor; mxc_norm; rewrite ?Er in *; cbn in *; auto.
    + eapply mxc_hdinv_ep; [|exact IH]. apply mxc_upd_ep; auto.
    + intros i. eapply mxc_qinv_ep; [|apply IQ]. intros c' e. rewrite mxc_upd_ep; auto.
    + intros c'. rewrite mxc_nth_upd by auto. destruct (Nat.eqb_spec c' c) as [->|]; auto.
      eapply mxc_dlv_same; [apply ID|auto ..].
  - (* append, go handleChild *)
    assert (Hk : mxh_kid (gc s c) = MxK0).
    { destruct (IC c) as [c1 c2 c3 c4 c5 c6 c7 c8 c9 c10 c11 c12 c13]. rewrite Er in c2. destruct (mxh_kid (gc s c)); cbn in c2; congruence. }
    assert (Hl : mxs_lock s = Some (MxOG c)).
    { apply IL. cbn. rewrite Er. reflexivity. }
    rewrite Hl in IL.
    assert (Hnin : ~ In c (mxs_children s)).
    { intros Hi. apply IR in Hi. unfold mxc_regd in Hi. rewrite Hk in Hi. discriminate. }
    assert (Hhd : mxs_hd s = MxHrecv \/ exists m, mxs_hd s = MxHlock m).
    { eapply mxc_hd_idle; [exact IL|discriminate]. }
    assert (G : forall st cap, mxc_inv cfg
       (mxc_setc c (mxh_set_since match mxh_ep (gc s c) with Some _ => Some (mxc_started s c) | None => None end
                     (mxh_set_kid MxKrecv (mxh_set_reg MxG2 (gc s c))))
                   (mxs_set_arr (mxs_children s ++ [c]) st cap s))).
    { intros st cap. destruct (IC c) as [c1 c2 c3 c4 c5 c6 c7 c8 c9 c10 c11 c12 c13].
      rewrite Er, Hk in *. cbn in c1, c2, c3, c4, c7, c10, c11. specialize (c10 eq_refl).
      constructor; mxc_norm.
      + rewrite Hl. eapply mxc_lock_keep; [exact IL|]. mxc_holds_same; rewrite ?Er, ?Hk; reflexivity.
      + apply mxc_NoDup_snoc; auto.
      + intros c'. rewrite mxc_nth_upd by auto. rewrite in_app_iff. cbn [In].
        destruct (Nat.eqb_spec c' c) as [->|Hne].
        * unfold mxc_regd; mxc_norm. tauto.
        * rewrite <- IR. split; [intros [?|[?|[]]]; [auto|congruence] | auto].
      + intros c'. rewrite mxc_nth_upd by auto. destruct (Nat.eqb_spec c' c) as [->|]; auto.
        constructor; mxc_norm; rewrite ?Er; cbn; auto; try congruence.
        * destruct (mxh_ep (gc s c)); congruence.
        * destruct (mxh_ep (gc s c)); congruence.
      + destruct Hhd as [E|[m E]]; rewrite E in *; cbn in *; auto.
      + intros i. eapply mxc_q_idle; [exact IL|discriminate|apply IQ].
      + apply IS.
      + intros c'. rewrite mxc_nth_upd by auto. destruct (Nat.eqb_spec c' c) as [->|Hne].
        * unfold mxc_dlv; mxc_norm. destruct (mxh_ep (gc s c)) as [e|] eqn:Ee; auto.
          rewrite c8 by auto. unfold mxc_started, mxc_pend, mxc_hstarted. 
          destruct Hhd as [E|[m E]]; rewrite E in *; cbn [mxc_hpend].
          -- split; [lia|]. exists []. rewrite Nat.sub_0_r, skipn_all. cbn. auto.
          -- destruct IH as [pre IH]. rewrite IH. split; [lia|]. exists (filter (mxc_match (Some e)) [m]).
             rewrite app_length; cbn [length]. replace (length pre + 1 - 1) with (length pre) by lia.
             rewrite skipn_app, skipn_all, Nat.sub_diag. cbn [skipn app]. split; auto.
        * eapply mxc_dlv_step; [apply ID|auto ..]. intros Hi Hr. apply in_app_or in Hi.
          destruct Hi as [Hi|[Hi|[]]]; [auto|congruence]. }
    destruct (length (mxs_children s) <? mxs_cap s); [|rewrite Hnc in H]; inversion H; subst s'; apply G.
  - (* Unlock *)
    inversion H; subst s'; clear H.
    assert (Hl : mxs_lock s = Some (MxOG c)).
    { apply IL. cbn. rewrite Er. reflexivity. }
    rewrite Hl in IL.
    constructor; mxc_norm; [ | auto | | | | | auto | ].
    + eapply mxc_lock_release with (me := MxOG c); [exact IL | | ].
      * mxc_holds_same.
      * cbn [mxc_holds]. rewrite mxc_nth_upd by auto. rewrite Nat.eqb_refl. reflexivity.
    + intros c'. rewrite mxc_nth_upd by auto. destruct (Nat.eqb_spec c' c) as [->|]; auto.
      unfold mxc_regd; mxc_norm. apply IR.
    + intros c'. rewrite mxc_nth_upd by auto. destruct (Nat.eqb_spec c' c) as [->|]; auto.
      destruct (IC c) as [c1 c2 c3 c4 c5 c6 c7 c8 c9 c10 c11 c12 c13]. constructor; mxc_norm; rewrite ?Er in *; cbn in *; auto.
    + eapply mxc_hdinv_ep; [|exact IH]. apply mxc_upd_ep; auto.
    + intros i. eapply mxc_qinv_ep; [|apply IQ]. intros c' e. rewrite mxc_upd_ep; auto.
    + intros c'. rewrite mxc_nth_upd by auto. destruct (Nat.eqb_spec c' c) as [->|]; auto.
      eapply mxc_dlv_same; [apply ID|auto ..].
  - (* start *)
    inversion H; subst s'; clear H.
    constructor; mxc_norm; [ | auto | | | | | auto | ].
    + eapply mxc_lock_keep; [exact IL|]. mxc_holds_same. rewrite Er. reflexivity.
    + intros c'. rewrite mxc_nth_upd by auto. destruct (Nat.eqb_spec c' c) as [->|]; auto.
      unfold mxc_regd; mxc_norm. apply IR.
    + intros c'. rewrite mxc_nth_upd by auto. destruct (Nat.eqb_spec c' c) as [->|]; auto.
      destruct (IC c) as [c1 c2 c3 c4 c5 c6 c7 c8 c9 c10 c11 c12 c13].
      constructor; mxc_norm; rewrite ?Er in *; cbn in *; auto; try discriminate.
      * destruct (mxh_reply (gc s c)); reflexivity.
      * destruct (mxh_reply (gc s c)); cbn; auto; discriminate.
      * intros Hr Hs. specialize (c13 Hr Hs). destruct (mxh_rd (gc s c)); cbn in *; discriminate.
    + eapply mxc_hdinv_ep; [|exact IH]. apply mxc_upd_ep; auto.
    + intros i. eapply mxc_qinv_ep; [|apply IQ]. intros c' e. rewrite mxc_upd_ep; auto.
    + intros c'. rewrite mxc_nth_upd by auto. destruct (Nat.eqb_spec c' c) as [->|]; auto.
      eapply mxc_dlv_same; [apply ID|auto ..].
      intros _. destruct (IC c) as [c1 c2 c3 c4 c5 c6 c7 c8 c9 c10 c11 c12 c13]. rewrite Er in c3.
      unfold mxc_reading. destruct (mxh_rd (gc s c)); cbn in c3; auto; discriminate.
  - discriminate.
Qed.

Definition mxc_k_holds k := match k with MxKclose | MxKrm | MxKunl => true | _ => false end.

(* a step that only touches program counters / channel flags of one child *)
Lemma mxc_inv_local : forall cfg s c ch',
  mxc_inv cfg s -> c < length (mxs_chs s) ->
  mxh_ep ch' = mxh_ep (gc s c) -> mxh_since ch' = mxh_since (gc s c) -> mxh_log ch' = mxh_log (gc s c) ->
  mxh_reg ch' = mxh_reg (gc s c) -> mxc_k_holds (mxh_kid ch') = mxc_k_holds (mxh_kid (gc s c)) ->
  mxc_regd ch' = mxc_regd (gc s c) -> mxc_chinv cfg ch' ->
  (mxc_reading ch' = true -> mxc_reading (gc s c) = true) ->
  mxc_inv cfg (mxc_setc c ch' s).
Proof.
  intros cfg s c ch' Iv Ec E1 E2 E3 E4 E5 E6 E7 E8. destruct Iv as [IL IN IR IC IH IQ IS ID].
  fold (mxc_lockinv (mxs_hd s) (mxs_chs s) (mxs_cls s) (mxs_lock s)) in IL.
  constructor; mxc_norm; [ | auto | | | | | auto | ].
  - eapply mxc_lock_keep; [exact IL|]. mxc_holds_same.
    + rewrite E4; reflexivity.
    + unfold mxc_k_holds in E5. exact E5.
  - intros c'. rewrite mxc_nth_upd by auto. destruct (Nat.eqb_spec c' c) as [->|]; auto.
    rewrite E6. apply IR.
  - intros c'. rewrite mxc_nth_upd by auto. destruct (Nat.eqb_spec c' c) as [->|]; auto.
  - eapply mxc_hdinv_ep; [|exact IH]. apply mxc_upd_ep; auto.
  - intros i. eapply mxc_qinv_ep; [|apply IQ]. intros c' e. rewrite mxc_upd_ep; auto.
  - intros c'. rewrite mxc_nth_upd by auto. destruct (Nat.eqb_spec c' c) as [->|]; auto.
    eapply mxc_dlv_same; [apply ID|auto ..].
Qed.

Lemma mxc_inv_panic : forall cfg s, mxc_inv cfg s -> mxc_inv cfg (mxs_set_panic true s).
Proof. intros cfg s [IL IN IR IC IH IQ IS ID]. constructor; mxc_norm; auto. Qed.

Ltac mxc_ci Iv c :=
  destruct (iv_ch _ _ Iv c) as [c1 c2 c3 c4 c5 c6 c7 c8 c9 c10 c11 c12 c13]; constructor; mxc_norm; auto.

Lemma mxc_inv_step_r : forall cfg s c s', mxc_inv cfg s -> mxc_step_r cfg s c = Some s' -> mxc_inv cfg s'.
Proof.
  intros cfg s c s' Iv H. unfold mxc_step_r, mxc_getc in H.
  destruct (c <? length (mxs_chs s)) eqn:Ec; [|discriminate]. apply Nat.ltb_lt in Ec. cbn [negb] in H.
  destruct (mxh_rd (gc s c)) eqn:Erd; try discriminate.
  - destruct (mxh_rclosed (gc s c)) eqn:Erc; [|discriminate]. inversion H; subst s'; clear H.
    apply mxc_inv_local; auto.
    + mxc_ci Iv c; rewrite ?Erd in *; cbn in *; auto; discriminate.
    + unfold mxc_reading; mxc_norm; discriminate.
  - destruct (mxh_kid (gc s c)) eqn:Ek; try discriminate. inversion H; subst s'; clear H.
    apply mxc_inv_local; auto; mxc_norm; try (rewrite Ek; reflexivity).
    + unfold mxc_regd; mxc_norm. rewrite Ek; reflexivity.
    + mxc_ci Iv c; rewrite ?Erd, ?Ek in *; cbn in *; auto; discriminate.
    + unfold mxc_reading; mxc_norm. rewrite Erd. auto.
  - inversion H; subst s'; clear H.
    apply mxc_inv_local; auto.
    + mxc_ci Iv c; rewrite ?Erd in *; cbn in *; auto; destruct (mxc_drain cfg) eqn:Ed; cbn in *; auto; try discriminate.
    + unfold mxc_reading; mxc_norm. destruct (mxc_drain cfg); discriminate.
  - destruct (mxh_rclosed (gc s c)) eqn:Erc; [|discriminate]. inversion H; subst s'; clear H.
    apply mxc_inv_local; auto.
    + mxc_ci Iv c; rewrite ?Erd in *; cbn in *; auto; discriminate.
    + unfold mxc_reading; mxc_norm; discriminate.
Qed.

Lemma mxc_inv_step_rfail : forall cfg s c s', mxc_inv cfg s -> mxc_step_rfail s c = Some s' -> mxc_inv cfg s'.
Proof.
  intros cfg s c s' Iv H. unfold mxc_step_rfail, mxc_getc in H.
  destruct (c <? length (mxs_chs s)) eqn:Ec; [|discriminate]. apply Nat.ltb_lt in Ec. cbn [negb] in H.
  destruct (mxh_rd (gc s c)) eqn:Erd; try discriminate. inversion H; subst s'; clear H.
  apply mxc_inv_local; auto.
  + mxc_ci Iv c; rewrite ?Erd in *; cbn in *; auto; discriminate.
  + unfold mxc_reading; mxc_norm; discriminate.
Qed.
Lemma mxc_inv_step_rstall : forall cfg s c s', mxc_inv cfg s -> mxc_step_rstall s c = Some s' -> mxc_inv cfg s'.
Proof.
  intros cfg s c s' Iv H. unfold mxc_step_rstall, mxc_getc in H.
  destruct (c <? length (mxs_chs s)) eqn:Ec; [|discriminate]. apply Nat.ltb_lt in Ec. cbn [negb] in H.
  destruct (mxh_rd (gc s c)) eqn:Erd; try discriminate. inversion H; subst s'; clear H.
  apply mxc_inv_local; auto.
  + mxc_ci Iv c; rewrite ?Erd in *; cbn in *; auto; discriminate.
  + unfold mxc_reading; mxc_norm; discriminate.
Qed.
Lemma mxc_inv_step_nclose : forall cfg s c s', mxc_inv cfg s -> mxc_step_nclose s c = Some s' -> mxc_inv cfg s'.
Proof.
  intros cfg s c s' Iv H. unfold mxc_step_nclose, mxc_getc in H.
  destruct (c <? length (mxs_chs s)) eqn:Ec; [|discriminate]. apply Nat.ltb_lt in Ec. cbn [negb] in H.
  destruct (mxh_cn (gc s c)) eqn:Ecn; try discriminate. inversion H; subst s'; clear H.
  apply mxc_inv_local; auto.
  mxc_ci Iv c; rewrite ?Ecn in *; cbn in *; auto; try discriminate;
      try (intros Hr; intros; rewrite (c12 eq_refl) in Hr; discriminate).
Qed.

Lemma mxc_skipn_started : forall h acc children chs c,
  mxc_hdinv h acc children chs -> skipn (mxc_hstarted h acc c) acc = mxc_howed h c.
Proof.
  intros h acc children chs c H. unfold mxc_hstarted, mxc_howed.
  destruct (mxc_hpend h c) eqn:E.
  - assert (P : exists pre m, acc = pre ++ [m] /\ mxc_hcur h = [m]).
    { destruct h; cbn in *; try discriminate; [destruct H as [pre H] | destruct H as [[pre H] _] | destruct H as [[pre H] _]]; eauto. }
    destruct P as [pre [m [-> ->]]]. rewrite app_length; cbn [length].
    replace (length pre + 1 - 1) with (length pre) by lia.
    rewrite skipn_app, skipn_all, Nat.sub_diag. reflexivity.
  - rewrite Nat.sub_0_r. apply skipn_all.
Qed.

Lemma mxc_inv_step_n : forall cfg s c s', mxc_inv cfg s -> mxc_step_n s c = Some s' -> mxc_inv cfg s'.
Proof.
  intros cfg s c s' Iv H. unfold mxc_step_n, mxc_getc in H.
  destruct (c <? length (mxs_chs s)) eqn:Ec; [|discriminate]. apply Nat.ltb_lt in Ec. cbn [negb] in H.
  destruct (mxh_cn (gc s c)) eqn:Ecn; try discriminate.
  destruct (mxh_script (gc s c)) as [|[e|b] r] eqn:Esc; try discriminate.
  - destruct (mxh_ep (gc s c)) as [e0|] eqn:Eep.
    + inversion H; subst s'; clear H. apply mxc_inv_local; auto.
      mxc_ci Iv c; rewrite ?Ecn in *; cbn in *; auto; try discriminate;
      try (intros Hr; intros; rewrite (c12 eq_refl) in Hr; discriminate).
    + (* the endpoint is set *)
      inversion H; subst s'; clear H.
      destruct (iv_ch _ _ Iv c) as [c1 c2 c3 c4 c5 c6 c7 c8 c9 c10 c11 c12 c13].
      assert (Hg : mxc_g_early (mxh_reg (gc s c)) = false).
      { rewrite Ecn in c4. destruct (mxh_reg (gc s c)); cbn in *; auto; discriminate. }
      assert (Hs : mxh_since (gc s c) = None).
      { destruct (mxh_since (gc s c)); auto. exfalso. apply c9; [discriminate|auto]. }
      destruct Iv as [IL IN IR IC IH IQ IS ID].
      fold (mxc_lockinv (mxs_hd s) (mxs_chs s) (mxs_cls s) (mxs_lock s)) in IL.
      constructor; mxc_norm; [ | auto | | | | | auto | ].
      * eapply mxc_lock_keep; [exact IL|]. mxc_holds_same.
      * intros c'. rewrite mxc_nth_upd by auto. destruct (Nat.eqb_spec c' c) as [->|]; auto.
        unfold mxc_regd; mxc_norm. apply IR.
      * intros c'. rewrite mxc_nth_upd by auto. destruct (Nat.eqb_spec c' c) as [->|]; auto.
        constructor; mxc_norm; auto; try discriminate; try congruence.
      * destruct (mxs_hd s) as [| | |m c0 rest]; cbn in *; auto.
        destruct IH as [A [B [C M]]]. split; auto. split; auto. split; auto.
        rewrite mxc_nth_upd by auto. destruct (Nat.eqb_spec c0 c) as [->|]; auto.
        rewrite Eep in M. discriminate.
      * intros i. eapply mxc_qinv_ep; [|apply IQ]. intros c' e'.
        rewrite mxc_nth_upd by auto. destruct (Nat.eqb_spec c' c) as [->|]; auto. congruence.
      * intros c'. rewrite mxc_nth_upd by auto. destruct (Nat.eqb_spec c' c) as [->|]; auto.
        unfold mxc_dlv; mxc_norm. rewrite (c8 Hs). change (mxc_started s c) with (mxc_hstarted (mxs_hd s) (mxs_acc s) c). split; [lia|].
        exists (filter (mxc_match (Some e)) (skipn (mxc_hstarted (mxs_hd s) (mxs_acc s) c) (mxs_acc s))).
        split; auto. intros _ _. erewrite mxc_skipn_started; eauto.
  - destruct (mxh_sclosed (gc s c)) eqn:Esc2.
    + inversion H; subst s'; clear H. apply mxc_inv_local; auto.
      mxc_ci Iv c; rewrite ?Ecn in *; cbn in *; auto; try discriminate;
      try (intros Hr; intros; rewrite (c12 eq_refl) in Hr; discriminate).
    + destruct (mxh_kid (gc s c)) eqn:Ek; try discriminate. inversion H; subst s'; clear H.
      apply mxc_inv_local; auto; mxc_norm; try (rewrite Ek; reflexivity).
      * unfold mxc_regd; mxc_norm. rewrite Ek; reflexivity.
      * mxc_ci Iv c; rewrite ?Ek in *; cbn in *; auto; discriminate.
Qed.

Lemma mxc_find_up_spec : forall cls i, mxc_find_up cls = Some i ->
  i < length cls /\ mxl_up (nth i cls mxc_dcl) = true /\ mxl_pc (nth i cls mxc_dcl) = MxCidle
  /\ mxl_ops (nth i cls mxc_dcl) = [].
Proof.
  induction cls as [|cl r IH]; intros i H; cbn in H; [discriminate|].
  assert (D : (mxl_up cl = true /\ mxl_pc cl = MxCidle /\ mxl_ops cl = [] /\ i = 0)
              \/ (exists j, mxc_find_up r = Some j /\ i = S j)).
  { destruct (mxl_up cl); destruct (mxl_pc cl); destruct (mxl_ops cl);
      try (inversion H; subst; left; auto; fail);
      right; destruct (mxc_find_up r) as [jj|]; cbn in H; try discriminate; inversion H; eauto. }
  destruct D as [[A [B [C ->]]]|[j [E ->]]]; cbn.
  - repeat split; auto; lia.
  - destruct (IH j E) as [A [B [C D]]]. repeat split; auto; lia.
Qed.

(* the operations a caller still has to do are not mentioned in the invariant *)
Lemma mxc_inv_set_ops : forall cfg s i v, mxc_inv cfg s -> i < length (mxs_cls s) ->
  mxc_inv cfg (mxc_setl i (mxl_set_ops v (gl s i)) s).
Proof.
  intros cfg s i v [IL IN IR IC IH IQ IS ID] Ei.
  fold (mxc_lockinv (mxs_hd s) (mxs_chs s) (mxs_cls s) (mxs_lock s)) in IL.
  constructor; mxc_norm; auto.
  - eapply mxc_lock_keep; [exact IL|]. mxc_holds_same.
  - intros i'. rewrite mxc_nth_upd by auto. destruct (Nat.eqb_spec i' i) as [->|]; auto. apply IQ.
  - intros i' r. rewrite mxc_nth_upd by auto. destruct (Nat.eqb_spec i' i) as [->|]; [|apply IS]. mxc_norm. apply IS.
Qed.

Lemma mxc_nth_snoc : forall A (d x : A) l i,
  nth i (l ++ [x]) d = if i <? length l then nth i l d else if i =? length l then x else d.
Proof.
  intros A d x l i. destruct (Nat.ltb_spec i (length l)) as [H|H].
  - apply app_nth1; auto.
  - rewrite app_nth2 by auto. destruct (Nat.eqb_spec i (length l)) as [->|Hne].
    + rewrite Nat.sub_diag. reflexivity.
    + destruct (i - length l) as [|[|k]] eqn:E; [lia|reflexivity|reflexivity].
Qed.

(* `go handleMessage`: a new goroutine that has not done anything yet *)
Lemma mxc_inv_add_caller : forall cfg s ops up, mxc_inv cfg s ->
  mxc_inv cfg (mxs_set_cls (mxs_cls s ++ [mk_mxcl ops MxCidle up [] []]) s).
Proof.
  intros cfg s ops up [IL IN IR IC IH IQ IS ID].
  fold (mxc_lockinv (mxs_hd s) (mxs_chs s) (mxs_cls s) (mxs_lock s)) in IL.
  assert (N : forall i, nth i (mxs_cls s ++ [mk_mxcl ops MxCidle up [] []]) mxc_dcl = gl s i
              \/ (length (mxs_cls s) <= i /\ mxl_pc (nth i (mxs_cls s ++ [mk_mxcl ops MxCidle up [] []]) mxc_dcl) = MxCidle
                   /\ mxl_res (nth i (mxs_cls s ++ [mk_mxcl ops MxCidle up [] []]) mxc_dcl) = [])).
  { intros i. rewrite mxc_nth_snoc. destruct (Nat.ltb_spec i (length (mxs_cls s))); auto. right. split; auto.
    destruct (i =? length (mxs_cls s)); auto. }
  constructor; mxc_norm; auto.
  - eapply mxc_lock_keep; [exact IL|]. intros o. destruct o; cbn [mxc_holds]; try reflexivity.
    destruct (N i) as [->|[L [-> _]]]; auto. rewrite nth_overflow by auto. reflexivity.
  - intros i. destruct (N i) as [->|[L [E _]]]; auto. unfold mxc_qinv. rewrite E. exact I.
  - intros i r. destruct (N i) as [->|[L [_ ->]]]; [apply IS|intros []].
Qed.

Lemma mxc_inv_step_k : forall cfg s c s', mxc_inv cfg s -> mxc_step_k cfg s c = Some s' -> mxc_inv cfg s'.
Proof.
  intros cfg s c s' Iv H. unfold mxc_step_k, mxc_getc in H.
  destruct (c <? length (mxs_chs s)) eqn:Ec; [|discriminate]. apply Nat.ltb_lt in Ec. cbn [negb] in H.
  destruct (mxh_kid (gc s c)) eqn:Ek; try discriminate.
  - (* the sender was closed *)
    destruct (mxh_sclosed (gc s c)) eqn:Esc; [|discriminate]. inversion H; subst s'; clear H.
    apply mxc_inv_local; auto; mxc_norm; try (rewrite Ek; reflexivity).
    + unfold mxc_regd; mxc_norm. rewrite Ek; reflexivity.
    + mxc_ci Iv c; rewrite ?Ek in *; cbn in *; auto; discriminate.
  - (* mux.sender <- b *)
    assert (I1 : mxc_inv cfg (mxc_setc c (mxh_set_kid MxKrecv (gc s c)) s)).
    { apply mxc_inv_local; auto; mxc_norm; try (rewrite Ek; reflexivity).
      + unfold mxc_regd; mxc_norm. rewrite Ek; reflexivity.
      + mxc_ci Iv c; rewrite ?Ek in *; cbn in *; auto; discriminate. }
    destruct (mxc_upsync cfg).
    + destruct (mxc_find_up (mxs_cls s)) as [i|] eqn:Ef; [|discriminate]. inversion H; subst s'; clear H.
      destruct (mxc_find_up_spec _ _ Ef) as [Ei _].
      change (mxc_getl s i) with (gl (mxc_setc c (mxh_set_kid MxKrecv (gc s c)) s) i).
      apply mxc_inv_set_ops; [exact I1|exact Ei].
    + inversion H; subst s'; clear H.
      change (mxs_cls s) with (mxs_cls (mxc_setc c (mxh_set_kid MxKrecv (gc s c)) s)).
      apply mxc_inv_add_caller. exact I1.
  - (* Lock *)
    destruct (mxs_lock s) eqn:El; [discriminate|]. inversion H; subst s'; clear H.
    destruct (iv_ch _ _ Iv c) as [c1 c2 c3 c4 c5 c6 c7 c8 c9 c10 c11 c12 c13].
    destruct Iv as [IL IN IR IC IH IQ IS ID].
    fold (mxc_lockinv (mxs_hd s) (mxs_chs s) (mxs_cls s) (mxs_lock s)) in IL. rewrite El in IL.
    constructor; mxc_norm; [ | auto | | | | | auto | ].
    + eapply mxc_lock_acquire with (me := MxOK c); [exact IL | | ].
      * mxc_holds_same.
      * cbn [mxc_holds]. rewrite mxc_nth_upd by auto. rewrite Nat.eqb_refl. reflexivity.
    + intros c'. rewrite mxc_nth_upd by auto. destruct (Nat.eqb_spec c' c) as [->|]; auto.
      unfold mxc_regd; mxc_norm. rewrite IR. unfold mxc_regd. rewrite Ek. tauto.
    + intros c'. rewrite mxc_nth_upd by auto. destruct (Nat.eqb_spec c' c) as [->|]; auto.
      constructor; mxc_norm; auto; rewrite ?Ek in *; cbn in *; auto; discriminate.
    + eapply mxc_hdinv_ep; [|exact IH]. apply mxc_upd_ep; auto.
    + intros i. eapply mxc_qinv_ep; [|apply IQ]. intros c' e. rewrite mxc_upd_ep; auto.
    + intros c'. rewrite mxc_nth_upd by auto. destruct (Nat.eqb_spec c' c) as [->|]; auto.
      eapply mxc_dlv_same; [apply ID|auto ..].
  - (* close(receiver) *)
    inversion H; subst s'; clear H.
    apply mxc_inv_local; auto; mxc_norm; try (rewrite Ek; reflexivity).
    + unfold mxc_regd; mxc_norm. rewrite Ek; reflexivity.
    + mxc_ci Iv c; rewrite ?Ek in *; cbn in *; auto; discriminate.
  - (* removal *)
    inversion H; subst s'; clear H.
    destruct (iv_ch _ _ Iv c) as [c1 c2 c3 c4 c5 c6 c7 c8 c9 c10 c11 c12 c13].
    destruct Iv as [IL IN IR IC IH IQ IS ID].
    fold (mxc_lockinv (mxs_hd s) (mxs_chs s) (mxs_cls s) (mxs_lock s)) in IL.
    assert (Hl : mxs_lock s = Some (MxOK c)).
    { apply IL. cbn. rewrite Ek. reflexivity. }
    rewrite Hl in IL.
    assert (Hhd : mxs_hd s = MxHrecv \/ exists m, mxs_hd s = MxHlock m).
    { eapply mxc_hd_idle; [exact IL|discriminate]. }
    constructor; mxc_norm.
    + rewrite Hl. eapply mxc_lock_keep; [exact IL|]. mxc_holds_same; rewrite ?Ek; reflexivity.
    + apply mxc_remove_NoDup; auto.
    + intros c'. rewrite mxc_nth_upd by auto. rewrite mxc_remove_In by auto.
      destruct (Nat.eqb_spec c' c) as [->|Hne].
      * unfold mxc_regd; mxc_norm. split; [tauto|discriminate].
      * rewrite <- IR. tauto.
    + intros c'. rewrite mxc_nth_upd by auto. destruct (Nat.eqb_spec c' c) as [->|]; auto.
      constructor; mxc_norm; auto; rewrite ?Ek in *; cbn in *; auto; discriminate.
    + destruct Hhd as [E|[m E]]; rewrite E in *; cbn in *; auto.
    + intros i. eapply mxc_q_idle; [exact IL|discriminate|apply IQ].
    + apply IS.
    + intros c'. rewrite mxc_nth_upd by auto. destruct (Nat.eqb_spec c' c) as [->|Hne].
      * eapply mxc_dlv_step; [apply ID|auto ..]. intros Hi. apply mxc_remove_In in Hi; auto. tauto.
      * eapply mxc_dlv_step; [apply ID|auto ..]. intros Hi Hr. apply mxc_remove_In in Hi; auto. tauto.
  - (* Unlock *)
    inversion H; subst s'; clear H.
    destruct (iv_ch _ _ Iv c) as [c1 c2 c3 c4 c5 c6 c7 c8 c9 c10 c11 c12 c13].
    destruct Iv as [IL IN IR IC IH IQ IS ID].
    fold (mxc_lockinv (mxs_hd s) (mxs_chs s) (mxs_cls s) (mxs_lock s)) in IL.
    assert (Hl : mxs_lock s = Some (MxOK c)).
    { apply IL. cbn. rewrite Ek. reflexivity. }
    rewrite Hl in IL.
    constructor; mxc_norm; [ | auto | | | | | auto | ].
    + eapply mxc_lock_release with (me := MxOK c); [exact IL | | ].
      * mxc_holds_same.
      * cbn [mxc_holds]. rewrite mxc_nth_upd by auto. rewrite Nat.eqb_refl. reflexivity.
    + intros c'. rewrite mxc_nth_upd by auto. destruct (Nat.eqb_spec c' c) as [->|]; auto.
      unfold mxc_regd; mxc_norm. rewrite IR. unfold mxc_regd. rewrite Ek. tauto.
    + intros c'. rewrite mxc_nth_upd by auto. destruct (Nat.eqb_spec c' c) as [->|]; auto.
      constructor; mxc_norm; auto; rewrite ?Ek in *; cbn in *; auto; discriminate.
    + eapply mxc_hdinv_ep; [|exact IH]. apply mxc_upd_ep; auto.
    + intros i. eapply mxc_qinv_ep; [|apply IQ]. intros c' e. rewrite mxc_upd_ep; auto.
    + intros c'. rewrite mxc_nth_upd by auto. destruct (Nat.eqb_spec c' c) as [->|]; auto.
      eapply mxc_dlv_same; [apply ID|auto ..].
Qed.

(* ------------------------------------------------------------------------------------------ *)
Lemma mxc_inv_step : forall cfg s t s', mxc_nocopy cfg = false ->
  mxc_inv cfg s -> mxc_step cfg s t = Some s' -> mxc_inv cfg s'.
Proof.
  intros cfg s t s' Hnc Iv H. unfold mxc_step in H. destruct (mxs_panic s); [discriminate|].
  destruct t.
  - eapply mxc_inv_step_h; eauto.
  - eapply mxc_inv_step_c; eauto.
  - eapply mxc_inv_step_g; eauto.
  - eapply mxc_inv_step_r; eauto.
  - eapply mxc_inv_step_n; eauto.
  - eapply mxc_inv_step_k; eauto.
  - eapply mxc_inv_step_rfail; eauto.
  - eapply mxc_inv_step_rstall; eauto.
  - eapply mxc_inv_step_nclose; eauto.
Qed.

Lemma mxc_inv_reach : forall cfg s0 s, mxc_nocopy cfg = false ->
  mxc_inv cfg s0 -> mxc_reach cfg s0 s -> mxc_inv cfg s.
Proof. intros cfg s0 s Hnc I0 R. induction R; auto. eapply mxc_inv_step; eauto. Qed.

(* what never goes back *)
Definition mxc_mono (s s' : mxc_state) : Prop :=
  (exists new, mxs_acc s' = mxs_acc s ++ new)
  /\ forall c, (forall k, mxh_since (gc s c) = Some k -> mxh_since (gc s' c) = Some k)
            /\ (forall e, mxh_ep (gc s c) = Some e -> mxh_ep (gc s' c) = Some e)
            /\ (mxc_reading (gc s' c) = true -> mxc_reading (gc s c) = true).

Lemma mxc_mono_refl : forall s, mxc_mono s s.
Proof. intros s; split; [exists []; rewrite app_nil_r; auto | intros c; auto]. Qed.
Lemma mxc_mono_trans : forall a b c, mxc_mono a b -> mxc_mono b c -> mxc_mono a c.
Proof.
  intros a b c [[n1 A1] A2] [[n2 B1] B2]. split.
  - exists (n1 ++ n2). rewrite B1, A1, app_assoc. auto.
  - intros x. destruct (A2 x) as [P1 [P2 P3]]. destruct (B2 x) as [Q1 [Q2 Q3]]. repeat split; auto.
Qed.

(* a state that differs from s in one child *)
Lemma mxc_mono_child : forall s c ch' s',
  c < length (mxs_chs s) -> mxs_chs s' = mxc_upd c ch' (mxs_chs s) -> mxs_acc s' = mxs_acc s ->
  (forall k, mxh_since (gc s c) = Some k -> mxh_since ch' = Some k) ->
  (forall e, mxh_ep (gc s c) = Some e -> mxh_ep ch' = Some e) ->
  (mxc_reading ch' = true -> mxc_reading (gc s c) = true) ->
  mxc_mono s s'.
Proof.
  intros s c ch' s' Ec E1 E2 H1 H2 H3. split; [exists []; rewrite app_nil_r; auto|].
  intros c'. rewrite E1. rewrite mxc_nth_upd by auto. destruct (Nat.eqb_spec c' c) as [->|]; auto.
Qed.
Lemma mxc_mono_same : forall s s', mxs_chs s' = mxs_chs s -> mxs_acc s' = mxs_acc s -> mxc_mono s s'.
Proof. intros s s' E1 E2. split; [exists []; rewrite app_nil_r; auto|]. intros c. rewrite E1. auto. Qed.

Ltac mxc_destruct_step H :=
  repeat match type of H with
         | context [match ?x with _ => _ end] => destruct x eqn:?; try discriminate
         | context [if ?x then _ else _] => destruct x eqn:?; try discriminate
         end.

Lemma mxc_step_mono : forall cfg s t s', mxc_inv cfg s -> mxc_step cfg s t = Some s' -> mxc_mono s s'.
Proof.
  intros cfg s t s' Iv H. unfold mxc_step in H. destruct (mxs_panic s); [discriminate|].
  destruct t.
  - unfold mxc_step_h, mxc_getc in H.
    destruct (mxs_hd s) as [|m|m [|c rest]|m c rest] eqn:Eh; try discriminate.
    + destruct (mxs_lock s); [discriminate|]. inversion H. apply mxc_mono_same; reflexivity.
    + inversion H. apply mxc_mono_same; reflexivity.
    + destruct (mxc_match (mxh_ep (gc s c)) m); inversion H; apply mxc_mono_same; reflexivity.
    + destruct (mxh_rclosed (gc s c)) eqn:Erc. { inversion H. apply mxc_mono_same; reflexivity. }
      assert (Hc : c < length (mxs_chs s)).
      { apply mxc_in_range_kid. destruct Iv as [IL IN IR IC IH IQ IS ID]. rewrite Eh in IH.
        destruct IH as [_ [_ [C _]]]. assert (Hi : In c (mxs_children s)) by (apply C; left; auto).
        apply IR in Hi. unfold mxc_regd in Hi. intros E; rewrite E in Hi; discriminate. }
      destruct (mxh_rd (gc s c)) eqn:Erd; try discriminate; inversion H.
      * eapply mxc_mono_child with (c := c); [exact Hc|reflexivity|reflexivity|..]; mxc_norm; auto.
        intros _. unfold mxc_reading. rewrite Erd. auto.
      * apply mxc_mono_same; reflexivity.
  - unfold mxc_step_c, mxc_getl, mxc_getc in H. mxc_destruct_step H; inversion H;
      try (apply mxc_mono_same; reflexivity).
    split; [eexists; reflexivity|]. intros c; auto.
  - unfold mxc_step_g, mxc_getc in H.
    destruct (c <? length (mxs_chs s)) eqn:Ec; [|discriminate]. apply Nat.ltb_lt in Ec. cbn [negb] in H.
    destruct (iv_ch _ _ Iv c) as [c1 c2 c3 c4 c5 c6 c7 c8 c9 c10 c11 c12 c13].
    destruct (mxh_reg (gc s c)) eqn:Er; try discriminate.
    + destruct (mxs_lock s); [discriminate|]. inversion H.
      eapply mxc_mono_child with (c := c); [exact Ec|reflexivity|reflexivity|..]; mxc_norm; auto.
    + cbn in c10. specialize (c10 eq_refl).
      destruct (length (mxs_children s) <? mxs_cap s); [|destruct (mxc_nocopy cfg)]; inversion H;
        (eapply mxc_mono_child with (c := c); [exact Ec|reflexivity|reflexivity|..]; mxc_norm; auto; congruence).
    + inversion H. eapply mxc_mono_child with (c := c); [exact Ec|reflexivity|reflexivity|..]; mxc_norm; auto.
    + inversion H. eapply mxc_mono_child with (c := c); [exact Ec|reflexivity|reflexivity|..]; mxc_norm; auto.
      intros _. cbn in c3. unfold mxc_reading. destruct (mxh_rd (gc s c)); cbn in c3; auto; discriminate.
  - unfold mxc_step_r, mxc_getc in H.
    destruct (c <? length (mxs_chs s)) eqn:Ec; [|discriminate]. apply Nat.ltb_lt in Ec. cbn [negb] in H.
    destruct (mxh_rd (gc s c)) eqn:Erd; try discriminate; mxc_destruct_step H; inversion H;
      (eapply mxc_mono_child with (c := c); [exact Ec|reflexivity|reflexivity|..]; mxc_norm; auto;
       unfold mxc_reading; mxc_norm; rewrite ?Erd; auto; try discriminate; destruct (mxc_drain cfg); discriminate).
  - unfold mxc_step_n, mxc_getc in H.
    destruct (c <? length (mxs_chs s)) eqn:Ec; [|discriminate]. apply Nat.ltb_lt in Ec. cbn [negb] in H.
    destruct (iv_ch _ _ Iv c) as [c1 c2 c3 c4 c5 c6 c7 c8 c9 c10 c11 c12 c13].
    mxc_destruct_step H; inversion H; try (apply mxc_mono_same; reflexivity);
      (eapply mxc_mono_child with (c := c); [exact Ec|reflexivity|reflexivity|..]; mxc_norm; auto; try congruence).
    intros k Hk. exfalso. apply c9; congruence.
  - unfold mxc_step_k, mxc_getc in H.
    destruct (c <? length (mxs_chs s)) eqn:Ec; [|discriminate]. apply Nat.ltb_lt in Ec. cbn [negb] in H.
    mxc_destruct_step H; inversion H;
      (eapply mxc_mono_child with (c := c); [exact Ec|reflexivity|reflexivity|..]; mxc_norm; auto).
  - unfold mxc_step_rfail, mxc_getc in H.
    destruct (c <? length (mxs_chs s)) eqn:Ec; [|discriminate]. apply Nat.ltb_lt in Ec. cbn [negb] in H.
    mxc_destruct_step H; inversion H.
    eapply mxc_mono_child with (c := c); [exact Ec|reflexivity|reflexivity|..]; mxc_norm; auto. discriminate.
  - unfold mxc_step_rstall, mxc_getc in H.
    destruct (c <? length (mxs_chs s)) eqn:Ec; [|discriminate]. apply Nat.ltb_lt in Ec. cbn [negb] in H.
    mxc_destruct_step H; inversion H.
    eapply mxc_mono_child with (c := c); [exact Ec|reflexivity|reflexivity|..]; mxc_norm; auto. discriminate.
  - unfold mxc_step_nclose, mxc_getc in H.
    destruct (c <? length (mxs_chs s)) eqn:Ec; [|discriminate]. apply Nat.ltb_lt in Ec. cbn [negb] in H.
    mxc_destruct_step H; inversion H.
    eapply mxc_mono_child with (c := c); [exact Ec|reflexivity|reflexivity|..]; mxc_norm; auto.
Qed.

Lemma mxc_reach_mono : forall cfg s1 s2, mxc_nocopy cfg = false -> mxc_inv cfg s1 ->
  mxc_reach cfg s1 s2 -> mxc_mono s1 s2.
Proof.
  intros cfg s1 s2 Hnc I1 R. induction R; [apply mxc_mono_refl|].
  eapply mxc_mono_trans; [exact IHR|]. eapply mxc_step_mono; eauto. eapply mxc_inv_reach; eauto.
Qed.

(* ---- delivery ---- *)
Lemma mxc_delivers : forall cfg chs cls s1 s2 c e,
  mxc_nocopy cfg = false ->
  mxc_reach cfg (mxc_init chs cls) s1 -> mxc_reach cfg s1 s2 ->
  In c (mxs_children s1) -> mxh_ep (mxc_getc s1 c) = Some e ->
  In c (mxs_children s2) -> mxc_reading (mxc_getc s2 c) = true ->
  exists new, mxs_acc s2 = mxs_acc s1 ++ new
    /\ mxh_log (mxc_getc s2 c) ++ filter (mxc_match (Some e)) (mxc_owed s2 c)
       = mxh_log (mxc_getc s1 c) ++ filter (mxc_match (Some e)) (mxc_owed s1 c) ++ filter (mxc_match (Some e)) new.
Proof.
  intros cfg chs cls s1 s2 c e Hnc R1 R2 In1 Ep1 In2 Rd2. unfold mxc_getc in *.
  assert (I1 : mxc_inv cfg s1) by (eapply mxc_inv_reach; eauto; apply mxc_inv_init).
  assert (I2 : mxc_inv cfg s2) by (eapply mxc_inv_reach; eauto).
  destruct (mxc_reach_mono _ _ _ Hnc I1 R2) as [[new Hacc] M]. destruct (M c) as [M1 [M2 M3]].
  exists new. split; auto.
  pose proof (iv_dlv _ _ I1 c) as D1. pose proof (iv_dlv _ _ I2 c) as D2.
  destruct (iv_ch _ _ I1 c) as [c1 c2 c3 c4 c5 c6 c7 c8 c9 c10 c11 c12 c13].
  assert (Hs : exists k, mxh_since (gc s1 c) = Some k).
  { destruct (mxh_since (gc s1 c)) as [k|] eqn:E; eauto. exfalso. apply c11; auto; [|congruence].
    apply (iv_regd _ _ I1) in In1. unfold mxc_regd in In1.
    destruct (mxh_reg (gc s1 c)); cbn in *; auto; destruct (mxh_kid (gc s1 c)); cbn in *; congruence. }
  destruct Hs as [k Hs]. unfold mxc_dlv in D1, D2.
  rewrite Hs, Ep1 in D1. rewrite (M1 k Hs), (M2 e Ep1) in D2.
  destruct D1 as [K1 [r1 [E1 F1]]]. destruct D2 as [K2 [r2 [E2 F2]]].
  rewrite (F1 In1 (M3 Rd2)) in E1. rewrite (F2 In2 Rd2) in E2.
  change (mxc_owed s2 c) with (mxc_howed (mxs_hd s2) c). change (mxc_owed s1 c) with (mxc_howed (mxs_hd s1) c).
  rewrite E2, Hacc, app_assoc, E1.
  assert (K : k <= length (mxs_acc s1)) by (unfold mxc_hstarted in K1; lia).
  rewrite skipn_app. replace (k - length (mxs_acc s1)) with 0 by lia. cbn [skipn]. apply filter_app.
Qed.

(* nobody receives anything that was not handed to the multiplexer for the endpoint it registered *)
Lemma mxc_only_own : forall cfg chs cls s c m,
  mxc_nocopy cfg = false -> mxc_reach cfg (mxc_init chs cls) s ->
  In m (mxh_log (mxc_getc s c)) ->
  mxh_ep (mxc_getc s c) = Some (mxb_dst m) /\ In m (mxs_acc s).
Proof.
  intros cfg chs cls s c m Hnc R Hm. unfold mxc_getc in *.
  assert (Iv : mxc_inv cfg s) by (eapply mxc_inv_reach; eauto; apply mxc_inv_init).
  pose proof (iv_dlv _ _ Iv c) as D. destruct (iv_ch _ _ Iv c) as [c1 c2 c3 c4 c5 c6 c7 c8 c9 c10 c11 c12 c13].
  unfold mxc_dlv in D. destruct (mxh_since (gc s c)) as [k|] eqn:Es.
  - destruct (mxh_ep (gc s c)) as [e|] eqn:Ee; [|exfalso; apply c9; congruence].
    destruct D as [_ [rest [D _]]].
    assert (Hin : In m (filter (mxc_match (Some e)) (skipn k (mxs_acc s)))).
    { rewrite <- D. apply in_or_app; auto. }
    apply filter_In in Hin. destruct Hin as [H1 H2]. cbn in H2. apply N.eqb_eq in H2. subst e. split; auto.
    rewrite <- (firstn_skipn k (mxs_acc s)). apply in_or_app; auto.
  - rewrite c8 in Hm by auto. destruct Hm.
Qed.

(* ---- Endpoints / HasEndpoint ---- *)
Lemma mxc_endpoints_complete : forall cfg chs cls s i r,
  mxc_nocopy cfg = false -> mxc_reach cfg (mxc_init chs cls) s ->
  In r (mxl_res (mxc_getl s i)) -> mxc_res_ok r.
Proof.
  intros cfg chs cls s i r Hnc R Hr.
  assert (Iv : mxc_inv cfg s) by (eapply mxc_inv_reach; eauto; apply mxc_inv_init).
  eapply (iv_res _ _ Iv); eauto.
Qed.

(* ---- deadlock-freedom ---- *)
Lemma mxc_find_up_some : forall cls, existsb mxl_up cls = true -> forallb mxc_caller_settled cls = true ->
  exists i, mxc_find_up cls = Some i.
Proof.
  induction cls as [|cl r IH]; cbn; [discriminate|]. intros H1 H2.
  apply andb_prop in H2. destruct H2 as [H2 H3]. unfold mxc_caller_settled in H2.
  destruct (mxl_pc cl); try discriminate. destruct (mxl_ops cl); try discriminate.
  destruct (mxl_up cl); cbn in *; eauto.
  destruct (IH H1 H3) as [i ->]. cbn. eauto.
Qed.

Lemma mxc_no_deadlock : forall cfg chs cls s,
  mxc_nocopy cfg = false -> mxc_drain cfg = true ->
  mxc_reach cfg (mxc_init chs cls) s ->
  mxs_panic s = false -> mxc_no_stall s = true ->
  (mxc_upsync cfg = true -> mxc_no_reply s = true /\ mxc_has_up s = true) ->
  mxc_settled s = false ->
  exists t s', mxc_is_env t = false /\ mxc_step cfg s t = Some s'.
Proof.
  intros cfg chs cls s Hnc Hdr R Hp Hst Hsy Hns.
  assert (Iv : mxc_inv cfg s) by (eapply mxc_inv_reach; eauto; apply mxc_inv_init).
  destruct Iv as [IL IN IR IC IH IQ IS ID].
  fold (mxc_lockinv (mxs_hd s) (mxs_chs s) (mxs_cls s) (mxs_lock s)) in IL.
  assert (Hnr : mxc_upsync cfg = true -> forall c, mxh_reply (gc s c) = false).
  { intros Eu c. destruct (Hsy Eu) as [Hrp _]. destruct (Nat.lt_ge_cases c (length (mxs_chs s))) as [Hc|Hc].
    - unfold mxc_no_reply in Hrp. pose proof (mxc_forallb_nth _ _ _ mxc_dch c Hrp Hc) as E.
      cbn beta in E. destruct (mxh_reply (gc s c)); cbn in E; auto; discriminate.
    - rewrite nth_overflow by auto. reflexivity. }
  assert (Hnst : forall c, In c (mxs_children s) -> mxh_rd (gc s c) <> MxRstall).
  { intros c Hi E. unfold mxc_no_stall in Hst. rewrite forallb_forall in Hst. specialize (Hst c Hi).
    unfold mxc_rd_stalled, mxc_getc in Hst. rewrite E in Hst. discriminate. }
  unfold mxc_step. rewrite Hp.
  (* a child that is sending its answer upstream is not stuck *)
  match goal with |- ?G =>
    assert (HRR : forall c b, mxh_rd (gc s c) = MxRreply b -> G) end.
  { intros c b Erd.
    assert (Hc : c < length (mxs_chs s)).
    { destruct (Nat.lt_ge_cases c (length (mxs_chs s))); auto. rewrite nth_overflow in Erd by auto. discriminate. }
    apply Nat.ltb_lt in Hc.
    destruct (IC c) as [c1 c2 c3 c4 c5 c6 c7 c8 c9 c10 c11 c12 c13]. rewrite Erd in *. cbn in c3, c6, c13.
    specialize (c6 eq_refl).
    assert (Hsc : mxh_sclosed (gc s c) = false).
    { destruct (mxh_sclosed (gc s c)); auto. discriminate (c13 c6 eq_refl). }
    destruct (mxh_kid (gc s c)) eqn:Ek; cbn in c2, c7;
      try (rewrite (c7 eq_refl) in Hsc; discriminate).
    - destruct (mxh_reg (gc s c)); cbn in *; discriminate.
    - exists (MxTR c). unfold mxc_step_r, mxc_getc. rewrite Hc. cbn [negb]. rewrite Erd, Ek. eauto.
    - exists (MxTK c). unfold mxc_step_k, mxc_getc. rewrite Hc. cbn [negb]. rewrite Ek.
      destruct (mxc_upsync cfg) eqn:Eu; [|eauto]. rewrite (Hnr eq_refl c) in c6. discriminate. }
  destruct (mxs_lock s) as [o|] eqn:El.
  - (* the lock is taken: its owner can go on *)
    pose proof (proj2 (IL o) eq_refl) as Ho. destruct o as [|i|c|c]; cbn [mxc_holds] in Ho.
    + (* handle *)
      destruct (mxs_hd s) as [|m|m rest|m c rest] eqn:Eh; try discriminate.
      * exists MxTH. unfold mxc_step_h, mxc_getc. rewrite Eh.
        destruct rest as [|c rest]; [eauto|]. destruct (mxc_match (mxh_ep (gc s c)) m); eauto.
      * destruct IH as [_ [_ [C _]]]. assert (Hi : In c (mxs_children s)) by (apply C; left; auto).
        pose proof (proj1 (IR c) Hi) as Hrg. unfold mxc_regd in Hrg.
        destruct (IC c) as [c1 c2 c3 c4 c5 c6 c7 c8 c9 c10 c11 c12 c13].
        assert (Hkh : mxc_holds (MxHsend m c rest) (mxs_chs s) (mxs_cls s) (MxOK c) = false).
        { eapply mxc_lock_other; [exact IL|congruence]. }
        assert (Hgh : mxc_holds (MxHsend m c rest) (mxs_chs s) (mxs_cls s) (MxOG c) = false).
        { eapply mxc_lock_other; [exact IL|congruence]. }
        cbn [mxc_holds] in Hkh, Hgh.
        assert (Hrc : mxh_rclosed (gc s c) = false).
        { rewrite c1. destruct (mxh_kid (gc s c)); cbn in *; auto; discriminate. }
        assert (HH : forall x, mxh_rd (gc s c) = x -> (x = MxRrun \/ x = MxRdrain) ->
                  exists t s', mxc_is_env t = false /\ (match t with MxTH => mxc_step_h s | MxTC i => mxc_step_c cfg s i | MxTG c => mxc_step_g cfg s c | MxTR c => mxc_step_r cfg s c | MxTN c => mxc_step_n s c | MxTK c => mxc_step_k cfg s c | MxTRfail c => mxc_step_rfail s c | MxTRstall c => mxc_step_rstall s c | MxTNclose c => mxc_step_nclose s c end) = Some s').
        { intros x Ex Hx. exists MxTH. unfold mxc_step_h, mxc_getc. rewrite Eh, Hrc, Ex. destruct Hx as [->| ->]; eauto. }
        destruct (mxh_rd (gc s c)) eqn:Erd; try (eapply HH; eauto; fail).
        -- (* not started yet: client.start() *)
           exists (MxTG c). unfold mxc_step_g, mxc_getc.
           assert (Hc : c < length (mxs_chs s)).
           { apply mxc_in_range_kid. intros E; rewrite E in Hrg; discriminate. }
           apply Nat.ltb_lt in Hc. rewrite Hc. cbn [negb].
           cbn in c3. destruct (mxh_reg (gc s c)) eqn:Er; cbn in c3, c2; try discriminate; eauto.
           destruct (mxh_kid (gc s c)); cbn in *; discriminate.
        -- eapply HRR; eauto.
        -- exfalso. eapply Hnst; eauto.
        -- exists (MxTR c). unfold mxc_step_r, mxc_getc.
           assert (Hc : c < length (mxs_chs s)).
           { apply mxc_in_range_kid. intros E; rewrite E in Hrg; discriminate. }
           apply Nat.ltb_lt in Hc. rewrite Hc. cbn [negb]. rewrite Erd. eauto.
        -- cbn in c5. rewrite (c5 eq_refl Hdr) in Hrc. discriminate.
    + (* a query *)
      exists (MxTC i). unfold mxc_step_c, mxc_getl, mxc_getc.
      assert (Hi : i < length (mxs_cls s)).
      { destruct (Nat.lt_ge_cases i (length (mxs_cls s))); auto. rewrite nth_overflow in Ho by auto. discriminate. }
      apply Nat.ltb_lt in Hi. rewrite Hi. cbn [negb].
      destruct (mxl_pc (gl s i)) eqn:Epc; try discriminate; eauto.
      destruct (j <? n); eauto.
    + (* Register *)
      exists (MxTG c). unfold mxc_step_g, mxc_getc.
      assert (Hc : c < length (mxs_chs s)).
      { apply mxc_in_range_reg. intros E; rewrite E in Ho; discriminate. }
      apply Nat.ltb_lt in Hc. rewrite Hc. cbn [negb].
      destruct (mxh_reg (gc s c)) eqn:Er; try discriminate; eauto.
      destruct (length (mxs_children s) <? mxs_cap s); eauto.
    + (* unregister *)
      exists (MxTK c). unfold mxc_step_k, mxc_getc.
      assert (Hc : c < length (mxs_chs s)).
      { apply mxc_in_range_kid. intros E; rewrite E in Ho; discriminate. }
      apply Nat.ltb_lt in Hc. rewrite Hc. cbn [negb].
      destruct (mxh_kid (gc s c)) eqn:Ek; try discriminate; eauto.
  - (* the lock is free *)
    assert (Hno : forall o, mxc_holds (mxs_hd s) (mxs_chs s) (mxs_cls s) o = false).
    { intros o. eapply mxc_lock_other; [exact IL|discriminate]. }
    destruct (mxs_hd s) as [|m|m rest|m c rest] eqn:Eh.
    2:{ exists MxTH. unfold mxc_step_h. rewrite Eh, El. eauto. }
    2:{ discriminate (Hno MxOH). }
    2:{ discriminate (Hno MxOH). }
    unfold mxc_settled in Hns. rewrite El, Eh in Hns. cbn [andb] in Hns.
    destruct (forallb mxc_caller_settled (mxs_cls s)) eqn:Ecs.
    + (* all callers have finished: some child has work to do *)
      cbn [andb] in Hns. destruct (mxc_forallb_false _ _ _ mxc_dch Hns) as [c [Hc Hcs]].
      pose proof Hc as Hc'. apply Nat.ltb_lt in Hc'.
      destruct (IC c) as [c1 c2 c3 c4 c5 c6 c7 c8 c9 c10 c11 c12 c13].
      pose proof (Hno (MxOG c)) as Hg. pose proof (Hno (MxOK c)) as Hk. cbn [mxc_holds] in Hg, Hk.
      unfold mxc_child_settled in Hcs.
      destruct (mxh_reg (gc s c)) eqn:Er; try discriminate.
      * exists (MxTG c). unfold mxc_step_g, mxc_getc. rewrite Hc', Er, El. cbn [negb]. eauto.
      * exists (MxTG c). unfold mxc_step_g, mxc_getc. rewrite Hc', Er. cbn [negb]. eauto.
      * cbn [andb] in Hcs. cbn in c2, c3, c4.
        destruct (mxh_kid (gc s c)) eqn:Ek; try discriminate.
        -- (* handleChild at its range loop *)
           destruct (mxh_sclosed (gc s c)) eqn:Esc.
           { exists (MxTK c). unfold mxc_step_k, mxc_getc. rewrite Hc', Ek, Esc. cbn [negb]. eauto. }
           cbn [negb andb] in Hcs.
           destruct (mxh_cn (gc s c)) eqn:Ecn; try discriminate.
           ++ destruct (mxh_script (gc s c)) as [|[e|b] r] eqn:Esr.
              ** cbn [andb] in Hcs.
                 destruct (mxh_rd (gc s c)) eqn:Erd; try discriminate.
                 --- destruct (mxh_rclosed (gc s c)) eqn:Erc; [|discriminate].
                     exists (MxTR c). unfold mxc_step_r, mxc_getc. rewrite Hc', Erd, Erc. cbn [negb]. eauto.
                 --- eapply HRR; eauto.
                 --- exists (MxTR c). unfold mxc_step_r, mxc_getc. rewrite Hc', Erd. cbn [negb]. eauto.
                 --- destruct (mxh_rclosed (gc s c)) eqn:Erc; [|discriminate].
                     exists (MxTR c). unfold mxc_step_r, mxc_getc. rewrite Hc', Erd, Erc. cbn [negb]. eauto.
              ** exists (MxTN c). unfold mxc_step_n, mxc_getc. rewrite Hc', Ecn, Esr. cbn [negb].
                 destruct (mxh_ep (gc s c)); eauto.
              ** exists (MxTN c). unfold mxc_step_n, mxc_getc. rewrite Hc', Ecn, Esr, Esc, Ek. cbn [negb]. eauto.
           ++ cbn [andb] in Hcs.
              destruct (mxh_rd (gc s c)) eqn:Erd; try discriminate.
              ** destruct (mxh_rclosed (gc s c)) eqn:Erc; [|discriminate].
                 exists (MxTR c). unfold mxc_step_r, mxc_getc. rewrite Hc', Erd, Erc. cbn [negb]. eauto.
              ** eapply HRR; eauto.
              ** exists (MxTR c). unfold mxc_step_r, mxc_getc. rewrite Hc', Erd. cbn [negb]. eauto.
              ** destruct (mxh_rclosed (gc s c)) eqn:Erc; [|discriminate].
                 exists (MxTR c). unfold mxc_step_r, mxc_getc. rewrite Hc', Erd, Erc. cbn [negb]. eauto.
        -- (* a message for the upstream consumer *)
           exists (MxTK c). unfold mxc_step_k, mxc_getc. rewrite Hc', Ek. cbn [negb].
           destruct (mxc_upsync cfg) eqn:Eu; [|eauto]. destruct (Hsy eq_refl) as [_ Hup].
           destruct (mxc_find_up_some _ Hup Ecs) as [i Ei]. rewrite Ei. eauto.
        -- exists (MxTK c). unfold mxc_step_k, mxc_getc. rewrite Hc', Ek, El. cbn [negb]. eauto.
        -- (* unregistered *)
           cbn [andb] in Hcs. specialize (c7 eq_refl).
           destruct (mxh_cn (gc s c)) eqn:Ecn; try discriminate.
           ++ destruct (mxh_script (gc s c)) as [|[e|b] r] eqn:Esr.
              ** cbn [andb] in Hcs.
                 destruct (mxh_rd (gc s c)) eqn:Erd; try discriminate.
                 --- destruct (mxh_rclosed (gc s c)) eqn:Erc; [|discriminate].
                     exists (MxTR c). unfold mxc_step_r, mxc_getc. rewrite Hc', Erd, Erc. cbn [negb]. eauto.
                 --- eapply HRR; eauto.
                 --- exists (MxTR c). unfold mxc_step_r, mxc_getc. rewrite Hc', Erd. cbn [negb]. eauto.
                 --- destruct (mxh_rclosed (gc s c)) eqn:Erc; [|discriminate].
                     exists (MxTR c). unfold mxc_step_r, mxc_getc. rewrite Hc', Erd, Erc. cbn [negb]. eauto.
              ** exists (MxTN c). unfold mxc_step_n, mxc_getc. rewrite Hc', Ecn, Esr. cbn [negb].
                 destruct (mxh_ep (gc s c)); eauto.
              ** exists (MxTN c). unfold mxc_step_n, mxc_getc. rewrite Hc', Ecn, Esr, c7. cbn [negb]. eauto.
           ++ cbn [andb] in Hcs.
              destruct (mxh_rd (gc s c)) eqn:Erd; try discriminate.
              ** destruct (mxh_rclosed (gc s c)) eqn:Erc; [|discriminate].
                 exists (MxTR c). unfold mxc_step_r, mxc_getc. rewrite Hc', Erd, Erc. cbn [negb]. eauto.
              ** eapply HRR; eauto.
              ** exists (MxTR c). unfold mxc_step_r, mxc_getc. rewrite Hc', Erd. cbn [negb]. eauto.
              ** destruct (mxh_rclosed (gc s c)) eqn:Erc; [|discriminate].
                 exists (MxTR c). unfold mxc_step_r, mxc_getc. rewrite Hc', Erd, Erc. cbn [negb]. eauto.
    + (* some caller has work to do *)
      destruct (mxc_forallb_false _ _ _ mxc_dcl Ecs) as [i [Hi Hcs]].
      apply Nat.ltb_lt in Hi. pose proof (Hno (MxOC i)) as Hc. cbn [mxc_holds] in Hc.
      exists (MxTC i). unfold mxc_step_c, mxc_getl, mxc_getc. rewrite Hi. cbn [negb].
      unfold mxc_caller_settled in Hcs.
      destruct (mxl_pc (gl s i)) eqn:Epc; try discriminate.
      * destruct (mxl_ops (gl s i)) eqn:Eo; [discriminate|]. rewrite El. eauto.
      * rewrite Eh. eauto.
Qed.

(* ---- explorer completeness, panics ---- *)
(* [mxc_stuck] looks at every label that can be enabled at all *)
Lemma mxc_stuck_complete : forall cfg s, mxc_stuck cfg s = true -> forall t, mxc_step cfg s t = None.
Proof.
  intros cfg s H t. unfold mxc_stuck in H. rewrite forallb_forall in H.
  assert (D : In t (mxc_labels s) \/
              match t with
              | MxTH => False
              | MxTC i => length (mxs_cls s) <= i
              | MxTG c | MxTR c | MxTN c | MxTK c | MxTRfail c | MxTRstall c | MxTNclose c => length (mxs_chs s) <= c
              end).
  { unfold mxc_labels. destruct t as [|i|c|c|c|c|c|c|c]; [left; left; auto| |..].
    - destruct (Nat.lt_ge_cases i (length (mxs_cls s))); auto. left. right. apply in_or_app. left.
      apply in_map. apply in_seq. lia.
    - destruct (Nat.lt_ge_cases c (length (mxs_chs s))); auto. left. right. apply in_or_app. right.
      apply in_flat_map. exists c. split; [apply in_seq; lia|cbn; tauto].
    - destruct (Nat.lt_ge_cases c (length (mxs_chs s))); auto. left. right. apply in_or_app. right.
      apply in_flat_map. exists c. split; [apply in_seq; lia|cbn; tauto].
    - destruct (Nat.lt_ge_cases c (length (mxs_chs s))); auto. left. right. apply in_or_app. right.
      apply in_flat_map. exists c. split; [apply in_seq; lia|cbn; tauto].
    - destruct (Nat.lt_ge_cases c (length (mxs_chs s))); auto. left. right. apply in_or_app. right.
      apply in_flat_map. exists c. split; [apply in_seq; lia|cbn; tauto].
    - destruct (Nat.lt_ge_cases c (length (mxs_chs s))); auto. left. right. apply in_or_app. right.
      apply in_flat_map. exists c. split; [apply in_seq; lia|cbn; tauto].
    - destruct (Nat.lt_ge_cases c (length (mxs_chs s))); auto. left. right. apply in_or_app. right.
      apply in_flat_map. exists c. split; [apply in_seq; lia|cbn; tauto].
    - destruct (Nat.lt_ge_cases c (length (mxs_chs s))); auto. left. right. apply in_or_app. right.
      apply in_flat_map. exists c. split; [apply in_seq; lia|cbn; tauto]. }
  destruct D as [D|D].
  - specialize (H t D). unfold mxc_disabled in H. destruct (mxc_step cfg s t); [discriminate|auto].
  - unfold mxc_step. destruct (mxs_panic s); auto.
    destruct t; try contradiction;
      unfold mxc_step_c, mxc_step_g, mxc_step_r, mxc_step_n, mxc_step_k, mxc_step_rfail, mxc_step_rstall, mxc_step_nclose;
      match goal with |- context [?a <? ?b] => replace (a <? b) with false by (symmetry; apply Nat.ltb_ge; auto) end;
      reflexivity.
Qed.

(* MuxAgent.handle never sends on a closed receiver: no step leads into a panic *)
Lemma mxc_no_panic : forall cfg chs cls s,
  mxc_nocopy cfg = false -> mxc_reach cfg (mxc_init chs cls) s -> mxs_panic s = false.
Proof.
  intros cfg chs cls s Hnc R. induction R as [|s t s' R IH H]; [reflexivity|].
  assert (Iv : mxc_inv cfg s) by (eapply mxc_inv_reach; eauto; apply mxc_inv_init).
  unfold mxc_step in H. rewrite IH in H. rename IH into Ep.
  destruct (mxs_panic s') eqn:Hp; [|reflexivity].
  destruct t.
  - exfalso. unfold mxc_step_h, mxc_getc in H.
    destruct (mxs_hd s) as [|m|m [|c rest]|m c rest] eqn:Eh; try discriminate.
    + destruct (mxs_lock s); [discriminate|]. inversion H; subst; mxc_norm; congruence.
    + inversion H; subst; mxc_norm; congruence.
    + destruct (mxc_match (mxh_ep (gc s c)) m); inversion H; subst; mxc_norm; congruence.
    + destruct Iv as [IL IN IR IC IH IQ IS ID].
      fold (mxc_lockinv (mxs_hd s) (mxs_chs s) (mxs_cls s) (mxs_lock s)) in IL. rewrite Eh in *.
      destruct IH as [_ [_ [C _]]]. assert (Hi : In c (mxs_children s)) by (apply C; left; auto).
      pose proof (proj1 (IR c) Hi) as Hrg. unfold mxc_regd in Hrg.
      destruct (IC c) as [c1 c2 c3 c4 c5 c6 c7 c8 c9 c10 c11 c12 c13].
      assert (Hl : mxs_lock s = Some MxOH) by (apply IL; reflexivity).
      assert (Hkh : mxc_holds (MxHsend m c rest) (mxs_chs s) (mxs_cls s) (MxOK c) = false).
      { eapply mxc_lock_other; [exact IL|congruence]. }
      cbn [mxc_holds] in Hkh.
      assert (Hrc : mxh_rclosed (gc s c) = false).
      { rewrite c1. destruct (mxh_kid (gc s c)); cbn in *; auto; discriminate. }
      rewrite Hrc in H.
      destruct (mxh_rd (gc s c)); try discriminate; inversion H; subst; mxc_norm; congruence.
  - exfalso. unfold mxc_step_c, mxc_getl, mxc_getc in H. mxc_destruct_step H; inversion H; subst; mxc_norm; congruence.
  - exfalso. unfold mxc_step_g, mxc_getc in H. mxc_destruct_step H; inversion H; subst; mxc_norm; congruence.
  - exfalso. unfold mxc_step_r, mxc_getc in H. mxc_destruct_step H; inversion H; subst; mxc_norm; congruence.
  - exfalso. unfold mxc_step_n, mxc_getc in H. mxc_destruct_step H; inversion H; subst; mxc_norm; congruence.
  - exfalso. unfold mxc_step_k, mxc_getc in H. mxc_destruct_step H; inversion H; subst; mxc_norm; congruence.
  - exfalso. unfold mxc_step_rfail, mxc_getc in H. mxc_destruct_step H; inversion H; subst; mxc_norm; congruence.
  - exfalso. unfold mxc_step_rstall, mxc_getc in H. mxc_destruct_step H; inversion H; subst; mxc_norm; congruence.
  - exfalso. unfold mxc_step_nclose, mxc_getc in H. mxc_destruct_step H; inversion H; subst; mxc_norm; congruence.
Qed.

Lemma mxc_no_deadlock_reach : forall cfg chs cls s,
  mxc_nocopy cfg = false -> mxc_drain cfg = true ->
  mxc_reach cfg (mxc_init chs cls) s ->
  mxc_no_stall s = true ->
  (mxc_upsync cfg = true -> mxc_no_reply s = true /\ mxc_has_up s = true) ->
  mxc_settled s = false ->
  exists t s', mxc_is_env t = false /\ mxc_step cfg s t = Some s'.
Proof. intros. eapply mxc_no_deadlock; eauto. eapply mxc_no_panic; eauto. Qed.

(* kinds and the reader of mux.sender are fixed by the configuration *)
Lemma mxc_map_upd : forall A B (f : A -> B) (d : A) i v l,
  f v = f (nth i l d) -> map f (mxc_upd i v l) = map f l.
Proof.
  intros A B f d i v l; revert i; induction l as [|a l IH]; intros i H; destruct i; cbn in *; auto.
  - rewrite H. reflexivity.
  - rewrite IH; auto.
Qed.

Lemma mxc_step_static : forall cfg s t s', mxc_step cfg s t = Some s' ->
  map mxh_reply (mxs_chs s') = map mxh_reply (mxs_chs s)
  /\ exists extra, map mxl_up (mxs_cls s') = map mxl_up (mxs_cls s) ++ extra.
Proof.
  intros cfg s t s' H. unfold mxc_step in H. destruct (mxs_panic s); [discriminate|].
  assert (E0 : exists extra, map mxl_up (mxs_cls s) = map mxl_up (mxs_cls s) ++ extra)
    by (exists []; rewrite app_nil_r; reflexivity).
  destruct t;
    unfold mxc_step_h, mxc_step_c, mxc_step_g, mxc_step_r, mxc_step_n, mxc_step_k, mxc_step_rfail,
           mxc_step_rstall, mxc_step_nclose, mxc_finish, mxc_getc, mxc_getl in H;
    mxc_destruct_step H; inversion H; subst; mxc_norm;
    repeat rewrite (mxc_map_upd _ _ mxh_reply mxc_dch) by reflexivity;
    try (split; [reflexivity|]);
    try (rewrite (mxc_map_upd _ _ mxl_up mxc_dcl) by (mxc_norm; reflexivity); exact E0);
    try exact E0.
  (* Register that re-allocates with the seeded defect: frozen copies for the running queries *)
  all: try (exists []; rewrite app_nil_r, map_map; apply map_ext; intros cl; unfold mxc_freeze;
            destruct (mxl_pc cl) as [| |? ? [|] ?|]; reflexivity).
  (* `go handleMessage` *)
  all: rewrite map_app; eexists; reflexivity.
Qed.

Lemma mxc_forallb_map : forall A B (g : A -> B) f l, forallb f (map g l) = forallb (fun x => f (g x)) l.
Proof. induction l; cbn; congruence. Qed.
Lemma mxc_existsb_map : forall A B (g : A -> B) f l, existsb f (map g l) = existsb (fun x => f (g x)) l.
Proof. induction l; cbn; congruence. Qed.

Lemma mxc_reach_static : forall cfg chs cls s, mxc_reach cfg (mxc_init chs cls) s ->
  mxc_no_reply s = mxc_cfg_no_reply chs
  /\ (mxc_cfg_has_up cls = true -> mxc_has_up s = true).
Proof.
  intros cfg chs cls s R.
  assert (G : map mxh_reply (mxs_chs s) = map (fun sp => snd (fst sp)) chs
              /\ exists extra, map mxl_up (mxs_cls s) = map snd cls ++ extra).
  { induction R as [|s t s' R [IH1 [ex IH2]] H].
    - cbn. rewrite !map_map. split; [apply map_ext; intros [[? ?] ?]; reflexivity|].
      exists []. rewrite app_nil_r. apply map_ext; intros [? ?]; reflexivity.
    - destruct (mxc_step_static _ _ _ _ H) as [A [ex' B]]. split; [congruence|].
      exists (ex ++ ex'). rewrite B, IH2, app_assoc. reflexivity. }
  destruct G as [G1 [ex G2]]. split.
  - unfold mxc_no_reply, mxc_cfg_no_reply.
    transitivity (forallb negb (map mxh_reply (mxs_chs s))); [rewrite mxc_forallb_map; reflexivity|].
    rewrite G1, mxc_forallb_map. reflexivity.
  - unfold mxc_has_up, mxc_cfg_has_up. intros H.
    transitivity (existsb (fun b : bool => b) (map mxl_up (mxs_cls s))); [rewrite mxc_existsb_map; reflexivity|].
    rewrite G2, existsb_app, mxc_existsb_map. 
    replace (existsb (fun x : list mxc_op * bool => snd x) cls) with (existsb snd cls) by reflexivity.
    rewrite H. reflexivity.
Qed.

(* the code as it is: sequential handler *)
Lemma mxc_no_deadlock_real : forall chs cls s,
  mxc_cfg_no_reply chs = true -> mxc_cfg_has_up cls = true ->
  mxc_reach mxc_real (mxc_init chs cls) s ->
  mxc_no_stall s = true -> mxc_settled s = false ->
  exists t s', mxc_is_env t = false /\ mxc_step mxc_real s t = Some s'.
Proof.
  intros chs cls s K U R St Ns. destruct (mxc_reach_static _ _ _ _ R) as [A B].
  eapply mxc_no_deadlock_reach; eauto.
Qed.

(* variant: `go manager.handleMessage(msg)` in AgentManager.handler - no hypothesis on the agent kinds *)
Lemma mxc_no_deadlock_async : forall chs cls s,
  mxc_reach mxc_async (mxc_init chs cls) s ->
  mxc_no_stall s = true -> mxc_settled s = false ->
  exists t s', mxc_is_env t = false /\ mxc_step mxc_async s t = Some s'.
Proof. intros. eapply mxc_no_deadlock_reach; eauto. cbn. discriminate. Qed.

Lemma mxc_tree_kinds_no_reply : forall e1 up e2 pongs e3 built e4,
  mxc_cfg_no_reply [mxc_kind_ws e1 up; mxc_kind_ping e2 pongs; mxc_kind_rest e3 built; mxc_kind_recv e4] = true.
Proof. reflexivity. Qed.

(* ------------------------------------------------------------------------------------------ *)
(* sharpness *)
Lemma mxc_deadlock_without_drain :
  exists s, mxc_reach mxc_w1_cfg (mxc_init mxc_w1_chs mxc_w1_cls) s
    /\ mxc_no_stall s = true /\ mxc_settled s = false /\ forall t, mxc_step mxc_w1_cfg s t = None.
Proof.
  destruct (mxc_run mxc_w1_cfg (mxc_init mxc_w1_chs mxc_w1_cls) mxc_w1_sched) as [s|] eqn:E; [|vm_compute in E; discriminate].
  exists s. split; [eapply mxc_run_reach; eauto|].
  vm_compute in E. injection E as <-.
  split; [vm_compute; reflexivity|]. split; [vm_compute; reflexivity|].
  apply mxc_stuck_complete. vm_compute. reflexivity.
Qed.

Lemma mxc_deadlock_sync_ping :
  exists s, mxc_reach mxc_w3_cfg (mxc_init mxc_w3_chs mxc_w3_cls) s
    /\ mxc_no_stall s = true /\ mxc_has_up s = true /\ mxc_settled s = false
    /\ forall t, mxc_step mxc_w3_cfg s t = None.
Proof.
  destruct (mxc_run mxc_w3_cfg (mxc_init mxc_w3_chs mxc_w3_cls) mxc_w3_sched) as [s|] eqn:E; [|vm_compute in E; discriminate].
  exists s. split; [eapply mxc_run_reach; eauto|].
  vm_compute in E. injection E as <-.
  split; [vm_compute; reflexivity|]. split; [vm_compute; reflexivity|]. split; [vm_compute; reflexivity|].
  apply mxc_stuck_complete. vm_compute. reflexivity.
Qed.

Lemma mxc_nocopy_misses :
  exists s must, mxc_reach mxc_w2_cfg (mxc_init mxc_w2_chs mxc_w2_cls) s
    /\ mxl_res (mxc_getl s 0) = [MxHas 2%N false must] /\ In 2%N must
    /\ In 1 (mxs_children s) /\ mxh_ep (mxc_getc s 1) = Some 2%N.
Proof.
  destruct (mxc_run mxc_w2_cfg (mxc_init mxc_w2_chs mxc_w2_cls) mxc_w2_sched) as [s|] eqn:E; [|vm_compute in E; discriminate].
  exists s, [1%N; 2%N; 3%N]. split; [eapply mxc_run_reach; eauto|].
  vm_compute in E. injection E as <-.
  split; [vm_compute; reflexivity|]. split; [cbn; auto|]. split; [vm_compute; auto|]. vm_compute; reflexivity.
Qed.
