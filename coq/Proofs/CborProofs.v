(* CborProofs.v - heads and strings round-trip, with exact consumption. *)
From DTN Require Import Base Cbor.
From Coq Require Import ZifyN ZifyNat ZifyBool.
Ltac Zify.zify_post_hook ::= Z.div_mod_to_equations.
Open Scope N_scope.

Lemma take_exact_app {A} (x r : list A) : take_exact (length x) (x ++ r) = Some (x, r).
Proof.
  unfold take_exact. rewrite app_length.
  replace (Nat.leb (length x) (length x + length r)) with true by (symmetry; apply Nat.leb_le; lia).
  rewrite firstn_app, Nat.sub_diag, firstn_all, skipn_app, Nat.sub_diag, skipn_all. cbn.
  rewrite app_nil_r. reflexivity.
Qed.

Lemma be_encode_length w n : length (be_encode w n) = w.
Proof. induction w; cbn [be_encode length]; congruence. Qed.

Lemma be_decode_acc_app a x y : be_decode_acc a (x ++ y) = be_decode_acc (be_decode_acc a x) y.
Proof. revert a; induction x as [|b x IH]; intros a; cbn; [reflexivity|apply IH]. Qed.

Lemma pow256_pos k : 0 < 256 ^ k.
Proof. apply N.neq_0_lt_0, N.pow_nonzero; lia. Qed.

Lemma be_encode_mod w : forall n, be_encode w n = be_encode w (n mod 256 ^ N.of_nat w).
Proof.
  induction w as [|w IHw]; intros n; [reflexivity|].
  cbn [be_encode]. rewrite Nat2N.inj_succ, N.pow_succ_r'.
  set (q := 256 ^ N.of_nat w). assert (Hq : 0 < q) by apply pow256_pos.
  f_equal.
  - rewrite (N.mul_comm 256 q). rewrite N.mod_mul_r by lia.
    rewrite (N.mul_comm q), N.div_add by lia. rewrite (N.div_small (n mod q) q) by (apply N.mod_lt; lia).
    rewrite N.add_0_l, N.mod_mod by lia. reflexivity.
  - rewrite (IHw n), (IHw (n mod (256 * q))). fold q. f_equal.
    rewrite (N.mul_comm 256 q), N.mod_mul_r by lia.
    rewrite (N.mul_comm q), N.mod_add by lia. rewrite N.mod_mod by lia. reflexivity.
Qed.

Lemma be_decode_acc_encode w : forall a n, n < 256 ^ N.of_nat w ->
  be_decode_acc a (be_encode w n) = a * 256 ^ N.of_nat w + n.
Proof.
  induction w as [|w IH]; intros a n Hn.
  - cbn in *. lia.
  - cbn [be_encode be_decode_acc].
    rewrite Nat2N.inj_succ, N.pow_succ_r' in *.
    set (p := 256 ^ N.of_nat w) in *.
    assert (Hp : 0 < p) by apply pow256_pos.
    assert (Hq : n / p < 256) by (apply N.div_lt_upper_bound; lia).
    rewrite (N.mod_small (n / p) 256) by exact Hq.
    rewrite (be_encode_mod w n). fold p. rewrite IH by (apply N.mod_lt; lia).
    pose proof (N.div_mod n p ltac:(lia)). lia.
Qed.

Lemma be_decode_encode w n : n < 256 ^ N.of_nat w -> be_decode (be_encode w n) = n.
Proof. intros H. unfold be_decode. rewrite be_decode_acc_encode by exact H. lia. Qed.

Definition major_ok (m : N) : Prop := m = 0 \/ m = 64 \/ m = 96 \/ m = 128 \/ m = 160 \/ m = 224.

Lemma read_head_head m n r : major_ok m -> n < 18446744073709551616 ->
  read_head (head_bytes m n ++ r) = Ok (m, n) r.
Proof.
  intros Hm Hn. unfold head_bytes.
  destruct (n <? 24) eqn:E1.
  { cbn [app read_head].
    assert (Hb : m + n <> 159 /\ m + n <> 255 /\ (m + n) mod 32 = n) by (destruct Hm as [-> | [-> | [-> | [-> | [-> | -> ]]]]]; lia).
    destruct Hb as (H1 & H2 & H3).
    rewrite (proj2 (N.eqb_neq _ _) H1), (proj2 (N.eqb_neq _ _) H2), H3, E1.
    f_equal. f_equal. lia. }
  assert (Hgen : forall a w, 24 <= a < 28 -> Nat.pow 2 (N.to_nat (a - 24)) = w -> n < 256 ^ N.of_nat w ->
            read_head ((m + a) :: be_encode w n ++ r) = Ok (m, n) r).
  { intros a w Ha Hw Hlt. cbn [read_head].
    assert (Hb : m + a <> 159 /\ m + a <> 255 /\ (m + a) mod 32 = a) by (destruct Hm as [-> | [-> | [-> | [-> | [-> | -> ]]]]]; lia).
    destruct Hb as (H1 & H2 & H3).
    rewrite (proj2 (N.eqb_neq _ _) H1), (proj2 (N.eqb_neq _ _) H2), H3.
    replace (a <? 24) with false by lia. replace (a <? 28) with true by lia.
    rewrite Hw. rewrite <- (be_encode_length w n) at 1. rewrite take_exact_app.
    rewrite be_decode_encode by exact Hlt. f_equal. f_equal. lia. }
  destruct (n <? 256) eqn:E2.
  { cbn [app].
    assert (He : be_encode 1 n = [n]).
    { cbn. rewrite N.div_1_r, N.mod_small by lia. reflexivity. }
    change ((m + 24) :: n :: r) with ((m + 24) :: [n] ++ r). rewrite <- He.
    apply Hgen; [lia|reflexivity|cbn; lia]. }
  destruct (n <? 65536) eqn:E3.
  { cbn [app]. apply Hgen; [lia|reflexivity|cbn; lia]. }
  destruct (n <? 4294967296) eqn:E4.
  { cbn [app]. apply Hgen; [lia|reflexivity|cbn; lia]. }
  cbn [app]. apply Hgen; [lia|reflexivity|cbn; lia].
Qed.

Lemma read_expect_head m n r : major_ok m -> n < 18446744073709551616 ->
  read_expect m (head_bytes m n ++ r) = Ok n r.
Proof.
  intros Hm Hn. unfold read_expect. rewrite read_head_head by assumption. cbn. rewrite N.eqb_refl. reflexivity.
Qed.

Lemma u64_ok_lt n : u64_ok n = true -> n < 18446744073709551616.
Proof. unfold u64_ok. lia. Qed.

Lemma read_uint_enc n r : u64_ok n = true -> read_uint (enc_uint n ++ r) = Ok n r.
Proof. intros H. apply read_expect_head; [left; reflexivity | apply u64_ok_lt, H]. Qed.
Lemma read_arr_enc n r : u64_ok n = true -> read_arr (enc_arr n ++ r) = Ok n r.
Proof. intros H. apply read_expect_head; [unfold major_ok, mArray; tauto | apply u64_ok_lt, H]. Qed.
Lemma read_maplen_enc n r : u64_ok n = true -> read_maplen (enc_maplen n ++ r) = Ok n r.
Proof. intros H. apply read_expect_head; [unfold major_ok, mMap; tauto | apply u64_ok_lt, H]. Qed.
Lemma read_f64_enc n r : u64_ok n = true -> read_f64 (enc_f64 n ++ r) = Ok n r.
Proof. intros H. apply read_expect_head; [unfold major_ok, mSimple; tauto | apply u64_ok_lt, H]. Qed.

Lemma read_raw_app d r : len_ok d = true -> read_raw (nlen d) (d ++ r) = Ok d r.
Proof.
  unfold len_ok, read_raw, nlen. intros H.
  replace (max_raw <? N.of_nat (length d)) with false by lia.
  rewrite app_length. replace (N.of_nat (length d + length r) <? N.of_nat (length d)) with false by lia.
  rewrite Nat2N.id, firstn_app, Nat.sub_diag, firstn_all, skipn_app, Nat.sub_diag, skipn_all.
  cbn. rewrite app_nil_r. reflexivity.
Qed.

Lemma len_ok_lt d : len_ok d = true -> nlen d < 18446744073709551616.
Proof. unfold len_ok, max_raw. intros H. lia. Qed.

Lemma read_bstr_enc d r : len_ok d = true -> read_bstr (enc_bstr d ++ r) = Ok d r.
Proof.
  intros H. unfold read_bstr, enc_bstr. rewrite <- app_assoc.
  rewrite read_expect_head; [|unfold major_ok, mBytes; tauto|apply len_ok_lt, H].
  unfold bind. apply read_raw_app, H.
Qed.
Lemma read_tstr_enc d r : len_ok d = true -> read_tstr (enc_tstr d ++ r) = Ok d r.
Proof.
  intros H. unfold read_tstr, enc_tstr. rewrite <- app_assoc.
  rewrite read_expect_head; [|unfold major_ok, mText; tauto|apply len_ok_lt, H].
  unfold bind. apply read_raw_app, H.
Qed.

Lemma read_bool_enc b r : read_bool (enc_bool b ++ r) = Ok b r.
Proof. destruct b; reflexivity. Qed.

(* ---- what any successful read guarantees (used for "decode => well-formed") ---- *)
Lemma be_decode_acc_bound x : forall a, bytes_ok x = true ->
  be_decode_acc a x < (a + 1) * 256 ^ N.of_nat (length x).
Proof.
  induction x as [|b x IH]; intros a H; cbn [be_decode_acc length].
  - cbn. lia.
  - unfold bytes_ok in H. cbn [forallb] in H. apply andb_prop in H. destruct H as [Hb Hx].
    unfold byte_ok in Hb. specialize (IH (a * 256 + b) Hx).
    rewrite Nat2N.inj_succ, N.pow_succ_r'.
    eapply N.lt_le_trans; [exact IH|].
    replace ((a + 1) * (256 * 256 ^ N.of_nat (length x))) with (((a + 1) * 256) * 256 ^ N.of_nat (length x)) by lia.
    apply N.mul_le_mono_r. lia.
Qed.

Lemma In_firstn' {A} n (l : list A) x : In x (firstn n l) -> In x l.
Proof. revert l; induction n; intros l H; [inversion H|]. destruct l; [inversion H|]. destruct H as [H|H]; [left; exact H|right; apply IHn, H]. Qed.
Lemma bytes_ok_firstn n bs : bytes_ok bs = true -> bytes_ok (firstn n bs) = true.
Proof.
  unfold bytes_ok. rewrite !forallb_forall. intros H x Hx. apply H. eapply In_firstn'; eauto.
Qed.
Lemma In_skipn {A} n (l : list A) x : In x (skipn n l) -> In x l.
Proof. revert l; induction n; intros l H; [exact H|]. destruct l; [inversion H|]. right. apply IHn, H. Qed.
Lemma bytes_ok_skipn n bs : bytes_ok bs = true -> bytes_ok (skipn n bs) = true.
Proof.
  unfold bytes_ok. rewrite !forallb_forall. intros H x Hx. apply H. eapply In_skipn; eauto.
Qed.
Lemma bytes_ok_app a b : bytes_ok (a ++ b) = bytes_ok a && bytes_ok b.
Proof. unfold bytes_ok. apply forallb_app. Qed.

Lemma read_head_ok bs m n r : bytes_ok bs = true -> read_head bs = Ok (m, n) r ->
  n < 18446744073709551616 /\ bytes_ok r = true /\ (length r < length bs)%nat.
Proof.
  intros Hb H. destruct bs as [|b bs]; [discriminate|]. cbn [read_head] in H.
  pose proof Hb as Hb0. unfold bytes_ok in Hb. cbn [forallb] in Hb. apply andb_prop in Hb. destruct Hb as [Hb1 Hb2].
  destruct (b =? 159); [discriminate|]. destruct (b =? 255); [discriminate|].
  destruct (b mod 32 <? 24) eqn:E1.
  - inversion H; subst. split; [lia|]. split; [exact Hb2|cbn; lia].
  - destruct (b mod 32 <? 28) eqn:E2; [|discriminate].
    unfold take_exact in H.
    destruct (Nat.leb (Nat.pow 2 (N.to_nat (b mod 32 - 24))) (length bs)) eqn:E3; [|discriminate].
    inversion H; subst; clear H. apply Nat.leb_le in E3.
    set (l := Nat.pow 2 (N.to_nat (b mod 32 - 24))) in *.
    assert (Hl : (l = 1 \/ l = 2 \/ l = 4 \/ l = 8)%nat).
    { subst l. assert (b mod 32 - 24 = 0 \/ b mod 32 - 24 = 1 \/ b mod 32 - 24 = 2 \/ b mod 32 - 24 = 3) as [-> | [-> | [-> | -> ]]] by lia; cbn; tauto. }
    split; [|split].
    + pose proof (be_decode_acc_bound (firstn l bs) 0 (bytes_ok_firstn l bs Hb2)) as Hbd.
      rewrite firstn_length, Nat.min_l in Hbd by lia. unfold be_decode.
      assert (Hle : 256 ^ N.of_nat l <= 256 ^ 8) by (apply N.pow_le_mono_r; lia).
      change (256 ^ 8) with 18446744073709551616 in Hle. lia.
    + apply bytes_ok_skipn, Hb2.
    + rewrite skipn_length. cbn [length]. lia.
Qed.

Lemma read_expect_ok mj bs n r : bytes_ok bs = true -> read_expect mj bs = Ok n r ->
  n < 18446744073709551616 /\ bytes_ok r = true /\ (length r < length bs)%nat.
Proof.
  unfold read_expect. intros Hb H. destruct (read_head bs) as [[m' n'] r'| |] eqn:E; cbn [bind] in H; try discriminate.
  cbn [fst snd] in H. destruct (m' =? mj); [|discriminate]. inversion H; subst. eapply read_head_ok; eauto.
Qed.

Lemma read_raw_ok n bs d r : bytes_ok bs = true -> read_raw n bs = Ok d r ->
  nlen d = n /\ n <= max_raw /\ bs = d ++ r /\ bytes_ok d = true /\ bytes_ok r = true.
Proof.
  unfold read_raw. intros Hb H. destruct (max_raw <? n) eqn:E1; [discriminate|].
  destruct (nlen bs <? n) eqn:E2; [discriminate|]. inversion H; subst; clear H.
  unfold nlen in *. split; [rewrite firstn_length; lia|]. split; [lia|].
  split; [symmetry; apply firstn_skipn|]. split; [apply bytes_ok_firstn|apply bytes_ok_skipn]; exact Hb.
Qed.
