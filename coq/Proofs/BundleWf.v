(* BundleWf.v - range well-formedness of model bundles (what Go's types can hold and cboring can
   read back): the hypotheses of the round-trip theorems. Definitions only + trivial lemmas. *)
From DTN Require Import Base Cbor Crc Eid Bundle.
Open Scope N_scope.

Definition eid_ok (e : eid) : bool := eid_wf e && eid_valid e.

Definition pairs_wf (l : list (eid * N)) : bool :=
  forallb (fun kv => eid_ok (fst kv) && u64_ok (snd kv)) l.

Fixpoint keys_nodup (l : list (eid * N)) : bool :=
  match l with
  | [] => true
  | kv :: l => negb (existsb (fun kv' => eid_eqb (fst kv) (fst kv')) l) && keys_nodup l
  end.

Definition crc_type_ok (t : N) : bool := t <=? 2.

(* the value of a block; the inner encoding must fit a byte string cboring can read back *)
Definition ext_wf (v : ext) : bool :=
  match v with
  | XPayload d => bytes_ok d
  | XGeneric tc d => u64_ok tc && negb (known_type tc) && bytes_ok d
  | XPrev e => eid_ok e
  | XAge n => u64_ok n
  | XHop l c => (l <=? 255) && (c <=? 255)
  | XSpray n => u64_ok n
  | XDtlsr id ts peers => eid_ok id && u64_ok ts && pairs_wf peers && keys_nodup peers
  | XProphet preds => pairs_wf preds && keys_nodup preds
  | XSig pk sg => bytes_ok pk && bytes_ok sg && len_ok pk && len_ok sg
  end.

Definition cblock_wf (c : cblock) : bool :=
  u64_ok (c_num c) && u64_ok (c_flags c) && crc_type_ok (c_crc c) && ext_wf (c_val c)
  && match enc_ext_inner (c_val c) with Some inner => len_ok inner | None => false end.

Definition primary_wf (p : primary) : bool :=
  u64_ok (p_flags p) && crc_type_ok (p_crc p) && eid_ok (p_dst p) && eid_ok (p_src p) && eid_ok (p_rpt p)
  && u64_ok (p_time p) && u64_ok (p_seq p) && u64_ok (p_life p) && u64_ok (p_off p) && u64_ok (p_total p)
  && (has (p_flags p) F_FRAG || ((p_off p =? 0) && (p_total p =? 0))).

Definition bundle_wf (b : bundle) : bool :=
  primary_wf (b_pri b) && forallb cblock_wf (b_blocks b).
