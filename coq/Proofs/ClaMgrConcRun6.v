(* ClaMgrConcRun6.v - exhaustive exploration (vm_compute) of the configurations of the second C16
   bound (cmc_fam2: one adapter, up to three client calls). *)
From DTN Require Import Base ClaMgrConc.

Lemma cmc_run_fam2 : forallb (cmc_check_cfg cmc_code_as_is cmc_fuel) cmc_fam2 = true.
Proof. vm_cast_no_check (@eq_refl bool true). Qed.   (* evaluated once, by the kernel, at Qed *)
