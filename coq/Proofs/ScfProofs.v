(* ScfProofs.v - invariants of the store-carry-forward model (Model/Scf.v) behind C05.

   The central invariant, for a bundle [b] accepted at time [rx] and the outputs [outs] produced since:
   [scf_holds s b rx outs]: the store of [s] has an item carrying exactly [b], created at [rx], with the
   expiry computed from [b] and [rx], Pending = true, at least one of the constraints from which Sync
   recomputes Pending, and a `sent` list every member of which is the bundle's previous node or a peer
   to which a send of this bundle succeeded since.  Every event preserves it as long as the bundle is
   alive, was not refused for cause, and no *final* successful transmission happened (any successful one;
   under the epidemic selection only one to the destination node ends the obligation). *)
From DTN Require Import Base Scf.
From Coq Require Import Lia.

(* ---------- list helpers ---------- *)
Lemma scf_mem_In : forall x l, scf_mem x l = true <-> In x l.
Proof.
  induction l as [|y r IH]; cbn [scf_mem In].
  - split; [discriminate | tauto].
  - rewrite orb_true_iff, IH, N.eqb_eq. split; intros [H|H]; auto.
Qed.

Lemma scf_mem_false : forall x l, scf_mem x l = false <-> ~ In x l.
Proof.
  intros x l. rewrite <- scf_mem_In. destruct (scf_mem x l); split; intros; try discriminate; auto.
  exfalso; auto.
Qed.

Lemma scf_incl_spec : forall a b, scf_incl a b = true -> forall x, In x a -> In x b.
Proof.
  unfold scf_incl. intros a b H x Hx. rewrite forallb_forall in H.
  apply scf_mem_In. auto.
Qed.

Lemma scf_same_set_l : forall a b, scf_same_set a b = true -> forall x, In x a -> In x b.
Proof. unfold scf_same_set. intros a b H. apply andb_true_iff in H. apply scf_incl_spec. tauto. Qed.

Lemma scf_same_set_r : forall a b, scf_same_set a b = true -> forall x, In x b -> In x a.
Proof. unfold scf_same_set. intros a b H. apply andb_true_iff in H. apply scf_incl_spec. tauto. Qed.

Lemma scf_fresh_In : forall p peers sent, In p (scf_fresh peers sent) <-> In p peers /\ ~ In p sent.
Proof.
  intros. unfold scf_fresh. rewrite filter_In, negb_true_iff, scf_mem_false. tauto.
Qed.

Lemma scf_direct_In : forall p peers b, In p (scf_direct peers b) <-> In p peers /\ p = sb_dst b.
Proof.
  intros. unfold scf_direct. rewrite filter_In, N.eqb_eq. intuition congruence.
Qed.

Lemma scf_add_peer_self : forall p l, In p (scf_add_peer p l).
Proof.
  intros. unfold scf_add_peer. destruct (scf_mem p l) eqn:E.
  - apply scf_mem_In; auto.
  - apply in_or_app. right. left. reflexivity.
Qed.

Lemma scf_add_peer_In : forall p q l, In q (scf_add_peer p l) <-> q = p \/ In q l.
Proof.
  intros. unfold scf_add_peer. destruct (scf_mem p l) eqn:E.
  - apply scf_mem_In in E. split; [tauto|]. intros [->|H]; auto.
  - rewrite in_app_iff. cbn [In]. intuition.
Qed.

Lemma scf_outs_In : forall id a p ok,
  In (ScfSent p id ok) (scf_outs id a) <-> In (p, ok) (at_sends a).
Proof.
  intros. unfold scf_outs. rewrite in_map_iff. split.
  - intros [[p' ok'] [H1 H2]]. cbn in H1. inversion H1; subst. exact H2.
  - intros H. exists (p, ok). split; auto.
Qed.

Lemma scf_chosen_In : forall a p, In p (map fst (at_sends a)) -> exists ok, In (p, ok) (at_sends a).
Proof.
  intros a p H. apply in_map_iff in H. destruct H as [[p' ok] [H1 H2]]. cbn in H1. subst. eauto.
Qed.

Lemma scf_failed_In : forall a p, In p (scf_failed a) <-> In (p, false) (at_sends a).
Proof.
  intros. unfold scf_failed. rewrite in_map_iff. split.
  - intros [[p' ok] [H1 H2]]. cbn in H1. subst. apply filter_In in H2. destruct H2 as [H2 H3].
    cbn in H3. destruct ok; [discriminate | exact H2].
  - intros H. exists (p, false). split; auto. apply filter_In. auto.
Qed.

Lemma scf_existsb_ok : forall l : list (N * bool), existsb snd l = true <-> exists p, In (p, true) l.
Proof.
  intros. rewrite existsb_exists. split.
  - intros [[p ok] [H1 H2]]. cbn in H2. subst. eauto.
  - intros [p H]. exists (p, true). auto.
Qed.

(* ---------- the invariant ---------- *)
Definition scf_alive (k : N) (b : scf_bundle) (rx now : N) : Prop :=
  rx <= now /\
  scf_life_exceeded b now = false /\
  match sb_age b with Some a => a + k * (now - rx) < sb_life b | None => True end /\
  now <= scf_expiry b rx.

(* the transmissions that end the obligation *)
Definition scf_final (alg : salg) (b : scf_bundle) (p : N) : Prop := sa_exact alg = false \/ p = sb_dst b.

Definition scf_item_ok (b : scf_bundle) (rx : N) (outs : list soutput) (it : scf_item) : Prop :=
  si_b it = b /\ rx <= si_rx it /\ si_expires it = scf_expiry b (si_rx it) /\ si_pending it = true /\
  si_le it = false /\
  (forall q, In q (si_sent it) -> sb_prev b = Some q \/ In (ScfSent q (sb_id b) true) outs).

Definition scf_holds (s : scf_state) (b : scf_bundle) (rx : N) (outs : list soutput) : Prop :=
  exists it, In it (ss_items s) /\ scf_item_ok b rx outs it.

(* the statement of the property: in the store, marked for retry *)
Definition scf_retained (s : scf_state) (b : scf_bundle) : Prop :=
  exists it, In it (ss_items s) /\ si_b it = b /\ si_pending it = true.

Lemma scf_holds_retained : forall s b rx outs, scf_holds s b rx outs -> scf_retained s b.
Proof. intros s b rx outs [it [Hin [Hb [_ [_ [Hp _]]]]]]. exists it. auto. Qed.

Lemma scf_item_ok_mono : forall b rx outs o it,
  scf_item_ok b rx outs it -> scf_item_ok b rx (outs ++ o) it.
Proof.
  intros b rx outs o it (H1 & H2 & H3 & H4 & H5 & H6). repeat split; auto.
  intros q Hq. destruct (H6 q Hq); auto. right. apply in_or_app. auto.
Qed.

Lemma scf_alive_not_refused : forall k b rx now outs it,
  scf_item_ok b rx outs it -> scf_hop_exceeded b = false -> scf_alive k b rx now ->
  scf_refused k it now = false.
Proof.
  intros k b rx now outs it (Hb & Hrx & _) Hhop (_ & Hl & Ha & _).
  unfold scf_refused. rewrite Hb, Hhop, Hl. cbn [orb].
  unfold scf_age_exceeded. rewrite Hb. destruct (sb_age b) as [a|]; auto.
  apply N.leb_gt.
  assert (k * (now - si_rx it) <= k * (now - rx)) by (apply N.mul_le_mono_l; lia).
  lia.
Qed.

(* the sent list after an attempt is still justified *)
Lemma scf_sent_after_just : forall peers it a b rx outs,
  scf_item_ok b rx outs it ->
  forall q, In q (scf_sent_after peers it a) ->
    sb_prev b = Some q \/ In (ScfSent q (sb_id b) true) (outs ++ scf_outs (sb_id b) a).
Proof.
  intros peers it a b rx outs (_ & _ & _ & _ & _ & Hj) q Hq.
  unfold scf_sent_after in Hq. apply filter_In in Hq. destruct Hq as [Hq Hnf].
  apply negb_true_iff, scf_mem_false in Hnf.
  assert (Hcases : In q (si_sent it) \/ In q (map fst (at_sends a))).
  { destruct (scf_direct peers (si_b it)); [apply in_app_or in Hq|]; tauto. }
  destruct Hcases as [Hs | Hc].
  - destruct (Hj q Hs); auto. right. apply in_or_app. auto.
  - apply scf_chosen_In in Hc. destruct Hc as [ok Hok]. destruct ok.
    + right. apply in_or_app. right. apply scf_outs_In. exact Hok.
    + exfalso. apply Hnf. apply scf_failed_In. exact Hok.
Qed.

(* ---------- one dispatching keeps the bundle ---------- *)
Lemma scf_forward_keeps : forall alg k now peers it a b rx outs res o1,
  scf_item_ok b rx outs it -> scf_hop_exceeded b = false -> scf_alive k b rx now ->
  scf_forward alg k now peers it a = Some (res, o1) ->
  (forall p, scf_final alg b p -> ~ In (ScfSent p (sb_id b) true) o1) ->
  exists it', res = Some it' /\ scf_item_ok b rx (outs ++ o1) it'.
Proof.
  intros alg k now peers it a b rx outs res o1 Hok Hhop Hal Hf Hnofin.
  pose proof (scf_alive_not_refused k b rx now outs it Hok Hhop Hal) as Hnr.
  pose proof (scf_sent_after_just peers it a b rx outs Hok) as Hj.
  destruct Hok as (Hb & Hrx & Hex & Hp & Hc & _).
  unfold scf_forward in Hf. rewrite Hnr in Hf.
  destruct (scf_sel_ok alg peers it a) eqn:Hsel; [|discriminate].
  rewrite Hb in Hf.
  destruct (existsb snd (at_sends a) && at_del a) eqn:Hfin.
  - (* a successful send after which the bundle is released: excluded *)
    exfalso. apply andb_true_iff in Hfin. destruct Hfin as [Hany Hdel].
    inversion Hf; subst res o1. clear Hf.
    apply scf_existsb_ok in Hany. destruct Hany as [p Hpok].
    apply (Hnofin p); [| apply scf_outs_In; exact Hpok].
    unfold scf_sel_ok in Hsel. apply andb_true_iff in Hsel. destruct Hsel as [_ Hsel].
    assert (Hpc : In p (map fst (at_sends a))).
    { apply in_map_iff. exists (p, true). auto. }
    assert (Hany' : existsb snd (at_sends a) = true) by (apply scf_existsb_ok; eauto).
    destruct (scf_direct peers (si_b it)) eqn:Hd.
    + destruct (sa_exact alg) eqn:Hex'.
      * rewrite Hany', Hdel in Hsel. cbn in Hsel. rewrite andb_false_r in Hsel. discriminate.
      * left. exact Hex'.
    + right. apply andb_true_iff in Hsel. destruct Hsel as [Hsame _].
      apply (scf_same_set_l _ _ Hsame) in Hpc. rewrite <- Hd in Hpc.
      apply scf_direct_In in Hpc. rewrite Hb in Hpc. tauto.
  - inversion Hf; subst res o1. clear Hf.
    eexists. split; [reflexivity|].
    unfold scf_item_ok, scf_set. cbn. repeat split; auto.
Qed.

Lemma scf_dispatch_keeps : forall alg k now loaded peers it a b rx outs res o1,
  scf_item_ok b rx outs it -> sb_dst b <> 0 -> scf_hop_exceeded b = false -> scf_alive k b rx now ->
  scf_dispatch alg k now loaded peers it a = Some (res, o1) ->
  (forall p, scf_final alg b p -> ~ In (ScfSent p (sb_id b) true) o1) ->
  exists it', res = Some it' /\ scf_item_ok b rx (outs ++ o1) it'.
Proof.
  intros alg k now loaded peers it a b rx outs res o1 Hok Hdst Hhop Hal Hd Hnofin.
  unfold scf_dispatch in Hd.
  destruct (sa_gate alg && negb (sb_dst (si_b it) =? 0) &&
            match scf_fresh peers (si_sent it) with [] => true | _ => false end) eqn:Hg.
  - destruct (at_sends a); [|discriminate]. inversion Hd; subst res o1.
    eexists. split; [reflexivity|]. rewrite app_nil_r.
    destruct Hok as (H1 & H2 & H3 & H4 & H5 & H6).
    unfold scf_item_ok, scf_set. cbn. repeat split; auto.
  - assert (Hle : scf_life_exceeded (si_b it) now = false).
    { destruct Hok as (H1 & _). rewrite H1. apply (proj1 (proj2 Hal)). }
    rewrite Hle, andb_false_r in Hd.
    assert (Hd0 : (sb_dst (si_b it) =? 0) = false).
    { destruct Hok as (H1 & _). rewrite H1. apply N.eqb_neq. exact Hdst. }
    rewrite Hd0 in Hd.
    eapply scf_forward_keeps; eauto.
Qed.

(* what the dispatching of a kept bundle sends *)
Lemma scf_dispatch_sends : forall alg k now loaded peers it a b rx outs res o1,
  scf_item_ok b rx outs it -> sb_dst b <> 0 -> scf_hop_exceeded b = false -> scf_alive k b rx now ->
  scf_dispatch alg k now loaded peers it a = Some (res, o1) ->
  forall p, In p peers -> ~ In p (si_sent it) ->
    (p = sb_dst b \/ (sa_exact alg = true /\ ~ In (sb_dst b) peers)) ->
    exists ok, In (ScfSent p (sb_id b) ok) o1.
Proof.
  intros alg k now loaded peers it a b rx outs res o1 Hok Hdst Hhop Hal Hd p Hp Hns Hwhy.
  pose proof (scf_alive_not_refused k b rx now outs it Hok Hhop Hal) as Hnr.
  destruct Hok as (Hb & _).
  unfold scf_dispatch in Hd.
  assert (Hfresh : In p (scf_fresh peers (si_sent it))) by (apply scf_fresh_In; auto).
  destruct (scf_fresh peers (si_sent it)) eqn:Hfr; [destruct Hfresh|].
  rewrite andb_false_r in Hd.
  assert (Hle : scf_life_exceeded (si_b it) now = false) by (rewrite Hb; apply (proj1 (proj2 Hal))).
  rewrite Hle, andb_false_r in Hd.
  assert (Hd0 : (sb_dst (si_b it) =? 0) = false) by (rewrite Hb; apply N.eqb_neq; exact Hdst).
  rewrite Hd0 in Hd.
  unfold scf_forward in Hd. rewrite Hnr in Hd.
  destruct (scf_sel_ok alg peers it a) eqn:Hsel; [|discriminate].
  assert (Hchosen : In p (map fst (at_sends a))).
  { unfold scf_sel_ok in Hsel. apply andb_true_iff in Hsel. destruct Hsel as [_ Hsel].
    destruct Hwhy as [Hpd | [Hex Hnd]].
    - assert (Hin : In p (scf_direct peers (si_b it))).
      { apply scf_direct_In. rewrite Hb. auto. }
      destruct (scf_direct peers (si_b it)) eqn:Hdir; [destruct Hin|].
      apply andb_true_iff in Hsel. destruct Hsel as [Hsame _].
      apply (scf_same_set_r _ _ Hsame). exact Hin.
    - destruct (scf_direct peers (si_b it)) eqn:Hdir.
      + rewrite Hex in Hsel. apply andb_true_iff in Hsel. destruct Hsel as [Hsame _].
        apply (scf_same_set_r _ _ Hsame). rewrite Hfr. exact Hfresh.
      + exfalso. apply Hnd. assert (Hin : In n0 (scf_direct peers (si_b it))) by (rewrite Hdir; left; auto).
        apply scf_direct_In in Hin. rewrite Hb in Hin. destruct Hin as [Hin ->]. exact Hin. }
  apply scf_chosen_In in Hchosen. destruct Hchosen as [ok Hok'].
  exists ok.
  assert (Ho1 : o1 = scf_outs (sb_id b) a).
  { rewrite Hb in Hd. destruct (existsb snd (at_sends a) && at_del a); inversion Hd; reflexivity. }
  rewrite Ho1. apply scf_outs_In. exact Hok'.
Qed.

(* ---------- checkPendingBundles ---------- *)
Lemma scf_check_pending_item : forall alg k o peers items items' outs it,
  scf_check_pending alg k o peers items = Some (items', outs) -> In it items -> si_pending it = true ->
  exists res o1,
    scf_dispatch alg k (or_now o) true peers it (scf_find_att (sb_id (si_b it)) (or_att o)) = Some (res, o1)
    /\ incl o1 outs /\ (forall it', res = Some it' -> In it' items').
Proof.
  induction items as [|x r IH]; intros items' outs it Hc Hin Hp; [destruct Hin|].
  cbn [scf_check_pending] in Hc.
  destruct (scf_check_pending alg k o peers r) as [[r' outs']|] eqn:Hr; [|discriminate].
  destruct Hin as [-> | Hin].
  - rewrite Hp in Hc.
    destruct (scf_dispatch alg k (or_now o) true peers it (scf_find_att (sb_id (si_b it)) (or_att o)))
      as [[[it'|] o1]|] eqn:Hd; [| |discriminate]; inversion Hc; subst items' outs.
    + exists (Some it'), o1. repeat split; auto.
      * apply incl_appl, incl_refl.
      * intros it'' H. inversion H; subst. left. reflexivity.
    + exists None, o1. repeat split; auto.
      * apply incl_appl, incl_refl.
      * intros it'' H. discriminate.
  - destruct (IH r' outs' it eq_refl Hin Hp) as (res & o1 & Hd & Hincl & Hres).
    exists res, o1. split; [exact Hd|].
    destruct (si_pending x).
    + destruct (scf_dispatch alg k (or_now o) true peers x (scf_find_att (sb_id (si_b x)) (or_att o)))
        as [[[x'|] ox]|]; [| |discriminate]; inversion Hc; subst items' outs; split.
      * apply incl_appr. exact Hincl.
      * intros it' H. right. auto.
      * apply incl_appr. exact Hincl.
      * auto.
    + destruct (at_sends (scf_find_att (sb_id (si_b x)) (or_att o))); [|discriminate].
      inversion Hc; subst items' outs. split; [exact Hincl|]. intros it' H. right. auto.
Qed.

Lemma scf_resync_In : forall id items it,
  In it items -> In (if scf_has_id id it then scf_sync it else it) (scf_resync id items).
Proof.
  induction items as [|x r IH]; intros it Hin; [destruct Hin|].
  cbn [scf_resync]. destruct Hin as [-> | Hin].
  - destruct (scf_has_id id it); left; reflexivity.
  - destruct (scf_has_id id x); right; auto.
Qed.

Lemma scf_sync_ok : forall b rx outs it,
  scf_item_ok b rx outs it -> scf_unpersisted it = false -> scf_item_ok b rx outs (scf_sync it).
Proof.
  intros b rx outs it (H1 & H2 & H3 & H4 & H5 & H6) Hu.
  unfold scf_item_ok, scf_sync, scf_set. cbn. repeat split; auto.
  unfold scf_unpersisted in Hu. rewrite H5, orb_false_r in Hu. apply negb_false_iff in Hu.
  destruct (si_dp it), (si_fp it), (si_ci it); cbn in *; auto.
Qed.

Lemma scf_expiry_mono : forall b rx rx', rx <= rx' -> scf_expiry b rx <= scf_expiry b rx'.
Proof. intros b rx rx' H. unfold scf_expiry. destruct (sb_ts b =? 0); [destruct (sb_age b)|]; lia. Qed.

Lemma scf_alive_not_swept : forall k b rx rx' now,
  scf_alive k b rx now -> rx <= rx' -> (scf_expiry b rx' <? now) = false.
Proof.
  intros k b rx rx' now (_ & _ & _ & H) Hle. apply N.ltb_ge.
  pose proof (scf_expiry_mono b rx rx' Hle). lia.
Qed.

(* a bundle alive since [rx] is alive when it is accepted anew now *)
Lemma scf_alive_again : forall k b rx now, scf_alive k b rx now -> scf_alive k b now now.
Proof.
  intros k b rx now (Hle & Hl & Ha & He). unfold scf_alive. repeat split; auto; try lia.
  - destruct (sb_age b) as [a|]; auto. rewrite N.sub_diag, N.mul_0_r. lia.
  - pose proof (scf_expiry_mono b rx now Hle). lia.
Qed.

Definition scf_no_final (alg : salg) (b : scf_bundle) (outs : list soutput) : Prop :=
  forall p, scf_final alg b p -> ~ In (ScfSent p (sb_id b) true) outs.

Lemma scf_no_final_incl : forall alg b o1 o2, incl o1 o2 -> scf_no_final alg b o2 -> scf_no_final alg b o1.
Proof. unfold scf_no_final. intros alg b o1 o2 Hi H p Hf Hin. apply (H p Hf). apply Hi. exact Hin. Qed.

(* ---------- every event keeps an accepted bundle ---------- *)
Lemma scf_accept_items : forall alg k o s b0 sub st s' outs it,
  scf_accept alg k o s b0 sub st = Some (s', outs) -> In it (ss_items s) -> In it (ss_items s').
Proof.
  intros alg k o s b0 sub st s' outs it Ha Hin. unfold scf_accept in Ha.
  destruct (if sub then negb (sb_local b0) else sb_del b0).
  - destruct (at_sends (scf_find_att (sb_id b0) (or_att o))); [|discriminate]. inversion Ha; subst. exact Hin.
  - match type of Ha with match ?d with _ => _ end = _ => destruct d as [[oit o1]|] end; [|discriminate].
    inversion Ha; subst. cbn. destruct oit; cbn; auto.
Qed.

(* the first dispatching (bundle in memory) does not look at the Pending flag of the fresh item *)
Lemma scf_dispatch_pending_irrelevant : forall alg k now peers it a,
  scf_dispatch alg k now false peers it a =
  scf_dispatch alg k now false peers (scf_set it true (si_dp it) (si_fp it) (si_ci it) (si_le it) (si_sent it)) a.
Proof. intros. destruct it. reflexivity. Qed.

(* the acceptance of [b] itself (for the first time, or anew after the handler's Sync deleted the item) *)
Lemma scf_accept_holds : forall alg k o s b (sub st : bool) s' outs rx outs0,
  (if sub then negb (sb_local b) else sb_del b) = false ->
  scf_accept alg k o s b sub st = Some (s', outs) ->
  sb_dst b <> 0 -> scf_hop_exceeded b = false ->
  scf_alive k b rx (or_now o) -> scf_no_final alg b outs ->
  scf_holds s' b rx (outs0 ++ outs).
Proof.
  intros alg k o s b sub st s' outs rx outs0 Hcond Ha Hdst Hhop Hal Hnf.
  unfold scf_accept in Ha. rewrite Hcond in Ha.
  match type of Ha with match scf_dispatch _ _ _ _ _ ?i ?a with _ => _ end = _ =>
    set (it1 := i) in *; set (att := a) in * end.
  destruct (scf_dispatch alg k (or_now o) false (scs_peers s) it1 att) as [[oit o1]|] eqn:Hd; [|discriminate].
  inversion Ha; subst s' outs. clear Ha.
  rewrite scf_dispatch_pending_irrelevant in Hd.
  match type of Hd with scf_dispatch _ _ _ _ _ ?i _ = _ => set (it2 := i) in * end.
  assert (Hok1 : scf_item_ok b rx outs0 it2).
  { assert (Hprev : forall q, In q (match sb_prev b with Some p => [p] | None => [] end) ->
                      sb_prev b = Some q \/ In (ScfSent q (sb_id b) true) outs0).
    { intros q Hq. left. destruct (sb_prev b); cbn in Hq; [destruct Hq as [->|[]]; reflexivity | destruct Hq]. }
    destruct Hal as (Hle & _).
    subst it2 it1. destruct st; unfold scf_item_ok, scf_sync, scf_set, scf_new_item; cbn; repeat split; auto. }
  destruct (scf_dispatch_keeps _ _ _ _ _ _ _ b rx outs0 _ _ Hok1 Hdst Hhop Hal Hd Hnf) as (it' & -> & Hok').
  exists it'. split; [left; reflexivity | exact Hok'].
Qed.

(* equal bundle IDs mean equal bundles: what a peer delivers under the ID of [b] is [b] *)
Definition scf_same_id_same_bundle (b : scf_bundle) (e : scf_event) : Prop :=
  match e with
  | SeReceive b0 _ => sb_id b0 = sb_id b -> b0 = b
  | _ => True
  end.

Lemma scf_step_keeps : forall alg k s e o s' outs b rx outs0,
  scf_step alg k s e o = Some (s', outs) ->
  scf_holds s b rx outs0 -> sb_dst b <> 0 -> scf_hop_exceeded b = false -> sb_del b = false ->
  scf_alive k b rx (or_now o) -> scf_same_id_same_bundle b e -> scf_no_final alg b outs ->
  scf_holds s' b rx (outs0 ++ outs).
Proof.
  intros alg k s e o s' outs b rx outs0 Hs [it [Hin Hok]] Hdst Hhop Hdel Hal Hsame Hnf.
  assert (Hchk : forall peers items',
    scf_check_pending alg k o peers (ss_items s) = Some (items', outs) ->
    exists it', In it' items' /\ scf_item_ok b rx (outs0 ++ outs) it').
  { intros peers items' Hc.
    destruct (scf_check_pending_item _ _ _ _ _ _ _ it Hc Hin) as (res & o1 & Hd & Hincl & Hres).
    { apply Hok. }
    destruct (scf_dispatch_keeps _ _ _ _ _ _ _ b rx outs0 _ _ Hok Hdst Hhop Hal Hd) as (it' & -> & Hok').
    { eapply scf_no_final_incl; eauto. }
    exists it'. split; [auto|].
    destruct Hok' as (H1 & H2 & H3 & H4 & H5 & H6). repeat split; auto.
    intros q Hq. destruct (H6 q Hq) as [|Hq']; auto. right.
    apply in_app_or in Hq'. apply in_or_app. destruct Hq'; auto. }
  destruct e as [b0 | b0 from | p | p | | | ]; cbn [scf_step] in Hs.
  - destruct (scf_find_item (sb_id b0) (ss_items s)); [discriminate|].
    exists it. split; [eapply scf_accept_items; eauto | apply scf_item_ok_mono; exact Hok].
  - destruct (scf_find_item (sb_id b0) (ss_items s)).
    + destruct (existsb (fun it0 => scf_has_id (sb_id b0) it0 && scf_unpersisted it0) (ss_items s)) eqn:Hex.
      * (* deleted by the descriptor's Sync and processed as new *)
        destruct (scf_has_id (sb_id b0) it) eqn:Hid.
        -- unfold scf_has_id in Hid. apply N.eqb_eq in Hid.
           assert (Hb0 : b0 = b).
           { apply Hsame. destruct Hok as (Hb & _). rewrite Hid, Hb. reflexivity. }
           subst b0. exact (scf_accept_holds alg k o _ b false true s' outs rx outs0 Hdel Hs Hdst Hhop Hal Hnf).
        -- exists it. split; [|apply scf_item_ok_mono; exact Hok].
           eapply scf_accept_items; eauto. cbn. apply filter_In. rewrite Hid. auto.
      * inversion Hs; subst s' outs. cbn. rewrite app_nil_r.
        eexists. split; [apply scf_resync_In; exact Hin|].
        destruct (scf_has_id (sb_id b0) it) eqn:Hid; [|exact Hok].
        apply scf_sync_ok; [exact Hok|].
        destruct (scf_unpersisted it) eqn:Hu; [|reflexivity].
        exfalso. assert (Ht : existsb (fun it0 => scf_has_id (sb_id b0) it0 && scf_unpersisted it0) (ss_items s) = true).
        { apply existsb_exists. exists it. rewrite Hid, Hu. auto. }
        congruence.
    + exists it. split; [eapply scf_accept_items; eauto | apply scf_item_ok_mono; exact Hok].
  - destruct (scf_check_pending alg k o (scf_add_peer p (scs_peers s)) (ss_items s)) as [[items' outs']|] eqn:Hc;
      [|discriminate]. inversion Hs; subst s' outs'. cbn. apply (Hchk _ _ Hc).
  - inversion Hs; subst s' outs. cbn. rewrite app_nil_r. exists it. auto.
  - destruct (scf_check_pending alg k o (scs_peers s) (ss_items s)) as [[items' outs']|] eqn:Hc;
      [|discriminate]. inversion Hs; subst s' outs'. cbn. apply (Hchk _ _ Hc).
  - inversion Hs; subst s' outs. cbn. rewrite app_nil_r. exists it. split; [|exact Hok].
    apply filter_In. split; [exact Hin|].
    destruct Hok as (_ & Hrx & Hex & _). rewrite Hex, (scf_alive_not_swept k b rx _ _ Hal Hrx). reflexivity.
  - inversion Hs; subst s' outs. cbn. rewrite app_nil_r. exists it. auto.
Qed.

(* acceptance: Submit by a local application, or Receive of a bundle whose ID is not in the store *)
Definition scf_accepts (s : scf_state) (e : scf_event) (b : scf_bundle) : Prop :=
  scf_find_item (sb_id b) (ss_items s) = None /\
  ((e = SeSubmit b /\ sb_local b = true) \/ (exists from, e = SeReceive b from)).

Lemma scf_step_accepts : forall alg k s e o s' outs b,
  scf_step alg k s e o = Some (s', outs) -> scf_accepts s e b ->
  sb_dst b <> 0 -> scf_hop_exceeded b = false -> sb_del b = false ->
  scf_alive k b (or_now o) (or_now o) -> scf_no_final alg b outs ->
  scf_holds s' b (or_now o) outs.
Proof.
  intros alg k s e o s' outs b Hs [Hnew Hacc] Hdst Hhop Hdel Hal Hnf.
  destruct Hacc as [[-> Hloc] | [from ->]]; cbn [scf_step] in Hs; rewrite Hnew in Hs.
  - apply (scf_accept_holds alg k o s b true true s' outs (or_now o) []); auto. rewrite Hloc. reflexivity.
  - apply (scf_accept_holds alg k o s b false true s' outs (or_now o) []); auto.
Qed.

(* ---------- histories ---------- *)
Definition scf_ev_ok (k : N) (b : scf_bundle) (rx : N) (eo : scf_event * soracle) : Prop :=
  scf_alive k b rx (or_now (snd eo)) /\ scf_same_id_same_bundle b (fst eo).

Lemma scf_run_keeps : forall alg k post s s' outs b rx outs0,
  scf_run alg k s post = Some (s', outs) ->
  scf_holds s b rx outs0 -> sb_dst b <> 0 -> scf_hop_exceeded b = false -> sb_del b = false ->
  Forall (scf_ev_ok k b rx) post ->
  scf_no_final alg b outs ->
  scf_holds s' b rx (outs0 ++ outs).
Proof.
  induction post as [|[e o] r IH]; intros s s' outs b rx outs0 Hr Hh Hdst Hhop Hdel Hal Hnf.
  - inversion Hr; subst. rewrite app_nil_r. exact Hh.
  - cbn [scf_run] in Hr.
    destruct (scf_step alg k s e o) as [[s1 o1]|] eqn:Hs; [|discriminate].
    destruct (scf_run alg k s1 r) as [[s2 o2]|] eqn:Hr2; [|discriminate].
    inversion Hr; subst s' outs. clear Hr.
    inversion Hal as [|? ? [Ha1 Ha1'] Ha2]; subst. cbn in Ha1, Ha1'.
    rewrite app_assoc. eapply IH; eauto.
    + eapply scf_step_keeps; eauto. eapply scf_no_final_incl; [|exact Hnf]. apply incl_appl, incl_refl.
    + eapply scf_no_final_incl; [|exact Hnf]. apply incl_appr, incl_refl.
Qed.

(* from the acceptance to the end of any continuation *)
Lemma scf_history_holds : forall alg k s1 e o s2 o2 post s3 o3 b,
  scf_step alg k s1 e o = Some (s2, o2) ->
  scf_run alg k s2 post = Some (s3, o3) ->
  scf_accepts s1 e b -> sb_dst b <> 0 -> scf_hop_exceeded b = false -> sb_del b = false ->
  Forall (scf_ev_ok k b (or_now o)) ((e, o) :: post) ->
  scf_no_final alg b (o2 ++ o3) ->
  scf_holds s3 b (or_now o) (o2 ++ o3).
Proof.
  intros alg k s1 e o s2 o2 post s3 o3 b Hs Hr Hacc Hdst Hhop Hdel Hal Hnf.
  inversion Hal as [|? ? [Ha1 _] Ha2]; subst. cbn in Ha1.
  eapply scf_run_keeps; eauto.
  - eapply scf_step_accepts; eauto. eapply scf_no_final_incl; [|exact Hnf]. apply incl_appl, incl_refl.
  - eapply scf_no_final_incl; [|exact Hnf]. apply incl_appr, incl_refl.
Qed.

(* what a peer's appearance transmits *)
Lemma scf_peer_up_sends : forall alg k s p o s' outs b rx outs0,
  scf_step alg k s (ScPeerUp p) o = Some (s', outs) ->
  scf_holds s b rx outs0 -> sb_dst b <> 0 -> scf_hop_exceeded b = false ->
  scf_alive k b rx (or_now o) ->
  sb_prev b <> Some p -> ~ In (ScfSent p (sb_id b) true) outs0 ->
  (p = sb_dst b \/ (sa_exact alg = true /\ sb_dst b <> p /\ ~ In (sb_dst b) (scs_peers s))) ->
  exists ok, In (ScfSent p (sb_id b) ok) outs.
Proof.
  intros alg k s p o s' outs b rx outs0 Hs [it [Hin Hok]] Hdst Hhop Hal Hprev Hnosent Hwhy.
  cbn [scf_step] in Hs.
  destruct (scf_check_pending alg k o (scf_add_peer p (scs_peers s)) (ss_items s)) as [[items' outs']|] eqn:Hc;
    [|discriminate]. inversion Hs; subst s' outs'. clear Hs.
  destruct (scf_check_pending_item _ _ _ _ _ _ _ it Hc Hin) as (res & o1 & Hd & Hincl & _).
  { apply Hok. }
  assert (Hns : ~ In p (si_sent it)).
  { intros Hq. destruct Hok as (_ & _ & _ & _ & _ & Hj). destruct (Hj p Hq); auto. }
  destruct (scf_dispatch_sends _ _ _ _ _ _ _ b rx outs0 _ _ Hok Hdst Hhop Hal Hd p) as [ok Hsent]; auto.
  - apply scf_add_peer_self.
  - destruct Hwhy as [Hpd | (Hex & Hne & Hnp)]; [left; exact Hpd | right].
    split; [exact Hex|]. intros Hq. apply scf_add_peer_In in Hq. destruct Hq; auto.
  - exists ok. apply Hincl. exact Hsent.
Qed.

(* ---------- the restart keeps exactly the store ---------- *)
Lemma scf_restart_step : forall alg k s o,
  scf_step alg k s SeRestart o = Some ({| ss_items := ss_items s; scs_peers := [] |}, []).
Proof. reflexivity. Qed.

(* ---------- readable forms of [scf_alive] ---------- *)
Lemma scf_alive_timestamped : forall k b rx now,
  sb_ts b <> 0 -> sb_age b = None -> rx <= now -> now <= sb_ts b + sb_life b -> scf_alive k b rx now.
Proof.
  intros k b rx now Hts Hage Hrx Hle. unfold scf_alive, scf_life_exceeded, scf_expiry.
  apply N.eqb_neq in Hts. rewrite Hts, Hage. repeat split; auto. apply N.ltb_ge. exact Hle.
Qed.

Lemma scf_alive_zero_time : forall k b rx now a,
  sb_ts b = 0 -> sb_age b = Some a -> 1 <= k -> rx <= now -> a + k * (now - rx) < sb_life b ->
  scf_alive k b rx now.
Proof.
  intros k b rx now a Hts Hage Hk Hrx Hlt. unfold scf_alive, scf_life_exceeded, scf_expiry.
  rewrite Hts, Hage. cbn [N.eqb].
  assert (Hm : now - rx <= k * (now - rx)).
  { rewrite <- (N.mul_1_l (now - rx)) at 1. apply N.mul_le_mono_r. exact Hk. }
  repeat split.
  - exact Hrx.
  - apply N.ltb_ge. lia.
  - exact Hlt.
  - lia.
Qed.

(* ---------- concurrent failure reports ---------- *)
Lemma scf_remove_first_In : forall x y l, In y (scf_remove_first x l) -> In y l.
Proof.
  induction l as [|z r IH]; cbn [scf_remove_first]; intros H; [destruct H|].
  destruct (N.eqb x z); [right; exact H|]. destruct H; [left; auto | right; auto].
Qed.

Lemma scf_remove_first_NoDup : forall x l, NoDup l -> NoDup (scf_remove_first x l).
Proof.
  induction l as [|z r IH]; cbn [scf_remove_first]; intros H; [constructor|].
  inversion H; subst. destruct (N.eqb x z); [assumption|].
  constructor; auto. intros Hin. apply scf_remove_first_In in Hin. contradiction.
Qed.

Lemma scf_remove_first_gone : forall x l, NoDup l -> ~ In x (scf_remove_first x l).
Proof.
  induction l as [|z r IH]; cbn [scf_remove_first]; intros H; [tauto|].
  inversion H; subst. destruct (N.eqb x z) eqn:E.
  - apply N.eqb_eq in E. subst. assumption.
  - apply N.eqb_neq in E. intros [Hz | Hin]; [congruence | apply IH in Hin; auto].
Qed.

Lemma scf_filter_absent : forall x l, ~ In x l -> filter (fun y => negb (N.eqb x y)) l = l.
Proof.
  induction l as [|z r IH]; cbn [filter]; intros H; [reflexivity|].
  destruct (N.eqb x z) eqn:E.
  - apply N.eqb_eq in E. subst. exfalso. apply H. left. reflexivity.
  - cbn [negb]. f_equal. apply IH. intros Hin. apply H. right. exact Hin.
Qed.

Lemma scf_remove_first_filter : forall x l, NoDup l ->
  scf_remove_first x l = filter (fun y => negb (N.eqb x y)) l.
Proof.
  induction l as [|z r IH]; cbn [scf_remove_first filter]; intros H; [reflexivity|].
  inversion H; subst. destruct (N.eqb x z) eqn:E; cbn [negb].
  - apply N.eqb_eq in E. subst. symmetry. apply scf_filter_absent. assumption.
  - f_equal. auto.
Qed.

Lemma scf_race_locked_ok : forall sent p q sched,
  NoDup sent -> In sched scf_race_locked ->
  ~ In p (scf_race_run p q sent sched) /\ ~ In q (scf_race_run p q sent sched).
Proof.
  intros sent p q sched Hnd Hin.
  assert (H1 : ~ In p (scf_remove_first p sent)) by (apply scf_remove_first_gone; auto).
  assert (H2 : ~ In q (scf_remove_first q sent)) by (apply scf_remove_first_gone; auto).
  assert (N1 : NoDup (scf_remove_first p sent)) by (apply scf_remove_first_NoDup; auto).
  assert (N2 : NoDup (scf_remove_first q sent)) by (apply scf_remove_first_NoDup; auto).
  destruct Hin as [<- | [<- | []]]; cbn; split.
  - intros H. apply scf_remove_first_In in H. contradiction.
  - apply scf_remove_first_gone; auto.
  - apply scf_remove_first_gone; auto.
  - intros H. apply scf_remove_first_In in H. contradiction.
Qed.

(* the atomic outcome is the one the main model uses: everything failed is filtered out *)
Lemma scf_race_locked_filter : forall sent p q sched,
  NoDup sent -> In sched scf_race_locked ->
  scf_race_run p q sent sched = filter (fun x => negb (scf_mem x [p; q])) sent.
Proof.
  intros sent p q sched Hnd Hin.
  assert (E : forall x y l, NoDup l ->
    scf_remove_first y (scf_remove_first x l) = filter (fun z => negb (N.eqb x z) && negb (N.eqb y z)) l).
  { intros x y l Hl.
    rewrite (scf_remove_first_filter y (scf_remove_first x l)) by (apply scf_remove_first_NoDup; exact Hl).
    rewrite (scf_remove_first_filter x l Hl).
    clear. induction l as [|z r IH]; cbn; [reflexivity|].
    destruct (N.eqb x z); cbn; [exact IH|]. destruct (N.eqb y z); cbn; congruence. }
  destruct Hin as [<- | [<- | []]]; cbn -[scf_mem filter]; rewrite E; auto; apply filter_ext; intros z;
    cbn [scf_mem]; rewrite (N.eqb_sym z p), (N.eqb_sym z q), orb_false_r, negb_orb; auto using andb_comm.
Qed.

Lemma scf_race_unlocked_lost_update :
  exists sent p q sched, NoDup sent /\ In sched scf_race_all /\ In p (scf_race_run p q sent sched).
Proof.
  exists [1; 2], 1, 2, [ScfRead false; ScfRead true; ScfWrite false; ScfWrite true].
  split; [|split].
  - repeat constructor; cbn; intuition discriminate.
  - cbn. tauto.
  - vm_compute. left. reflexivity.
Qed.

(* ---------- the statements of Properties/C05.v ---------- *)
Definition scf_no_ok (b : scf_bundle) (outs : list soutput) : Prop :=
  forall p, ~ In (ScfSent p (sb_id b) true) outs.

Lemma scf_no_ok_no_final : forall alg b outs, scf_no_ok b outs -> scf_no_final alg b outs.
Proof. unfold scf_no_ok, scf_no_final. auto. Qed.

(* the context shared by the theorems: a history up to the acceptance of [b], the accepting event, any
   continuation; the bundle is for another node, within its hop limit, alive at every event since *)
Definition scf_carried (alg : salg) (k : N) (pre : list (scf_event * soracle)) (e : scf_event) (o : soracle)
  (post : list (scf_event * soracle)) (b : scf_bundle) (s3 : scf_state) (outs : list soutput) : Prop :=
  exists s1 o1 s2 o2 o3,
    scf_run alg k scf_init pre = Some (s1, o1) /\
    scf_step alg k s1 e o = Some (s2, o2) /\
    scf_run alg k s2 post = Some (s3, o3) /\
    outs = o2 ++ o3 /\
    scf_accepts s1 e b /\ sb_dst b <> 0 /\ scf_hop_exceeded b = false /\ sb_del b = false /\
    Forall (scf_ev_ok k b (or_now o)) ((e, o) :: post).

Lemma scf_carried_holds : forall alg k pre e o post b s3 outs,
  scf_carried alg k pre e o post b s3 outs -> scf_no_final alg b outs ->
  scf_holds s3 b (or_now o) outs.
Proof.
  intros alg k pre e o post b s3 outs (s1 & o1 & s2 & o2 & o3 & _ & Hs & Hr & -> & Hacc & Hdst & Hhop & Hdel & Hal) Hnf.
  eapply scf_history_holds; eauto.
Qed.

Lemma scf_C05_retained : forall alg k pre e o post b s3 outs,
  scf_carried alg k pre e o post b s3 outs -> scf_no_ok b outs -> scf_retained s3 b.
Proof.
  intros. eapply scf_holds_retained, scf_carried_holds; eauto using scf_no_ok_no_final.
Qed.

Lemma scf_C05_retained_epidemic : forall alg k pre e o post b s3 outs,
  sa_exact alg = true ->
  scf_carried alg k pre e o post b s3 outs ->
  ~ In (ScfSent (sb_dst b) (sb_id b) true) outs -> scf_retained s3 b.
Proof.
  intros alg k pre e o post b s3 outs Hex Hc Hno.
  eapply scf_holds_retained, scf_carried_holds; eauto.
  intros p [Hf | ->]; [congruence | exact Hno].
Qed.

Lemma scf_carried_dst : forall alg k pre e o post b s3 outs,
  scf_carried alg k pre e o post b s3 outs -> sb_dst b <> 0 /\ scf_hop_exceeded b = false.
Proof. intros alg k pre e o post b s3 outs (s1 & o1 & s2 & o2 & o3 & H). tauto. Qed.

Lemma scf_C05_direct : forall alg k pre e o post b s3 outs d o4 s4 o5,
  scf_carried alg k pre e o post b s3 outs -> scf_no_ok b outs ->
  scf_step alg k s3 (ScPeerUp d) o4 = Some (s4, o5) ->
  scf_alive k b (or_now o) (or_now o4) ->
  sb_dst b = d -> sb_prev b <> Some d ->
  exists ok, In (ScfSent d (sb_id b) ok) o5.
Proof.
  intros alg k pre e o post b s3 outs d o4 s4 o5 Hc Hno Hs Hal Hd Hprev.
  destruct (scf_carried_dst _ _ _ _ _ _ _ _ _ Hc) as [Hdst Hhop].
  eapply scf_peer_up_sends; eauto.
  eapply scf_carried_holds; eauto using scf_no_ok_no_final.
Qed.

Lemma scf_C05_epidemic : forall alg k pre e o post b s3 outs p o4 s4 o5,
  sa_exact alg = true ->
  scf_carried alg k pre e o post b s3 outs ->
  ~ In (ScfSent (sb_dst b) (sb_id b) true) outs ->
  scf_step alg k s3 (ScPeerUp p) o4 = Some (s4, o5) ->
  scf_alive k b (or_now o) (or_now o4) ->
  sb_dst b <> p -> ~ In (sb_dst b) (scs_peers s3) ->
  sb_prev b <> Some p -> ~ In (ScfSent p (sb_id b) true) outs ->
  exists ok, In (ScfSent p (sb_id b) ok) o5.
Proof.
  intros alg k pre e o post b s3 outs p o4 s4 o5 Hex Hc Hnod Hs Hal Hne Hnp Hprev Hnop.
  destruct (scf_carried_dst _ _ _ _ _ _ _ _ _ Hc) as [Hdst Hhop].
  eapply scf_peer_up_sends; eauto.
  eapply scf_carried_holds; eauto.
  intros q [Hf | ->]; [congruence | exact Hnod].
Qed.

Lemma scf_C05_restart : forall alg k pre e o post1 orr post2 b s3 outs,
  scf_carried alg k pre e o (post1 ++ (SeRestart, orr) :: post2) b s3 outs -> scf_no_ok b outs ->
  scf_retained s3 b /\
  forall p o4 s4 o5,
    scf_step alg k s3 (ScPeerUp p) o4 = Some (s4, o5) ->
    scf_alive k b (or_now o) (or_now o4) -> sb_prev b <> Some p ->
    (p = sb_dst b \/ (sa_exact alg = true /\ sb_dst b <> p /\ ~ In (sb_dst b) (scs_peers s3))) ->
    exists ok, In (ScfSent p (sb_id b) ok) o5.
Proof.
  intros alg k pre e o post1 orr post2 b s3 outs Hc Hno.
  pose proof (scf_carried_holds _ _ _ _ _ _ _ _ _ Hc (scf_no_ok_no_final alg _ _ Hno)) as Hh.
  destruct (scf_carried_dst _ _ _ _ _ _ _ _ _ Hc) as [Hdst Hhop].
  split; [eapply scf_holds_retained; eauto|].
  intros p o4 s4 o5 Hs Hal Hprev Hwhy. eapply scf_peer_up_sends; eauto.
Qed.

(* ---------- a concrete history (non-vacuity) ---------- *)
(* A clock-less bundle (zero creation time, age 1000 ms, lifetime 24 h) for node 1 is submitted while
   nobody is connected; peer 2 appears and the send to it fails; the store is swept; the node restarts;
   node 1 appears and the bundle is delivered to it directly. *)
Definition scf_ex_b : scf_bundle :=
  {| sb_id := 7; sb_local := true; sb_dst := 1; sb_prev := None; sb_ts := 0; sb_life := 86400000;
     sb_age := Some 1000; sb_hop := Some (5, 1); sb_del := false |}.
Definition scf_ex_or (now : N) (sends : list (N * bool)) (del : bool) : soracle :=
  {| or_now := now; or_att := match sends with [] => [] | _ => [(7, {| at_sends := sends; at_del := del |})] end |}.
Definition scf_ex_post : list (scf_event * soracle) :=
  [ (ScPeerUp 2, scf_ex_or 8434540001200 [(2, false)] false);
    (SeTickClean, scf_ex_or 8434540001300 [] false);
    (SeRestart, scf_ex_or 8434540001400 [] false);
    (SeTickPending, scf_ex_or 8434540001500 [] false) ].

Lemma scf_ex_carried : exists s3 outs,
  scf_carried scf_epidemic 1000 [] (SeSubmit scf_ex_b) (scf_ex_or 8434540001000 [] false) scf_ex_post scf_ex_b s3 outs
  /\ scf_no_ok scf_ex_b outs /\ outs = [ScfSent 2 7 false] /\ scs_peers s3 = [].
Proof.
  eexists. eexists. split; [|split; [|split]].
  - unfold scf_carried. do 5 eexists.
    split; [reflexivity|]. split; [vm_compute; reflexivity|]. split; [vm_compute; reflexivity|].
    split; [reflexivity|]. split; [|split; [|split]].
    + split; [reflexivity|]. left. split; reflexivity.
    + discriminate.
    + reflexivity.
    + repeat constructor; cbn; try (vm_compute; reflexivity); try (vm_compute; discriminate).
  - intros p [H|[]]. discriminate.
  - reflexivity.
  - reflexivity.
Qed.

Lemma scf_ex_delivery :
  scf_run scf_epidemic 1000 scf_init
    (((SeSubmit scf_ex_b, scf_ex_or 8434540001000 [] false) :: scf_ex_post) ++ [(ScPeerUp 1, scf_ex_or 8434540001600 [(1, true)] true)])
  = Some ({| ss_items := []; scs_peers := [1] |}, [ScfSent 2 7 false; ScfSent 1 7 true]).
Proof. vm_compute. reflexivity. Qed.

(* without the age term in the expiry (the code before the fix) the sweep deletes the bundle: the model
   with the expiry of a timestamped bundle applied to the zero creation time *)
Lemma scf_ex_old_expiry_swept : (0 + sb_life scf_ex_b <? 8434540001300) = true.
Proof. reflexivity. Qed.

(* ---------- the block loop of receive ---------- *)
Lemma scf_remove_at_mid : forall pre x post, scf_remove_at (length pre) (pre ++ x :: post) = pre ++ post.
Proof. induction pre as [|y r IH]; intros; cbn [length app scf_remove_at]; [reflexivity | rewrite IH; reflexivity]. Qed.

Lemma scf_nth_error_mid : forall (pre : list scf_blk) x post, nth_error (pre ++ x :: post) (length pre) = Some x.
Proof. induction pre as [|y r IH]; intros; cbn [length app nth_error]; auto. Qed.

Lemma scf_rx_scan_spec : forall pre post,
  scf_rx_scan (length pre) (pre ++ post) =
  if existsb scf_blk_demands_deletion pre then None else Some (filter scf_blk_stays pre ++ post).
Proof.
  intros pre. induction pre as [|x pre IH] using rev_ind; intros post.
  - reflexivity.
  - rewrite app_length, Nat.add_1_r, <- app_assoc. cbn [app scf_rx_scan].
    rewrite scf_nth_error_mid, existsb_app, filter_app. cbn [existsb filter].
    unfold scf_blk_demands_deletion at 2, scf_blk_stays at 2.
    destruct (bk_known x); cbn [negb andb orb].
    + rewrite IH, !orb_false_r. destruct (existsb scf_blk_demands_deletion pre); [reflexivity|].
      rewrite <- app_assoc. reflexivity.
    + destruct (scf_blk_has scf_fl_delete x); cbn [orb].
      * rewrite orb_true_r. reflexivity.
      * rewrite !orb_false_r. destruct (scf_blk_has scf_fl_remove x); cbn [negb].
        -- rewrite scf_remove_at_mid, IH. destruct (existsb scf_blk_demands_deletion pre); [reflexivity|].
           rewrite app_nil_r. reflexivity.
        -- rewrite IH. destruct (existsb scf_blk_demands_deletion pre); [reflexivity|].
           rewrite <- app_assoc. reflexivity.
Qed.

Lemma scf_rx_blocks_spec : forall bl,
  scf_rx_blocks bl = if existsb scf_blk_demands_deletion bl then None else Some (filter scf_blk_stays bl).
Proof.
  intros bl. unfold scf_rx_blocks. rewrite <- (app_nil_r bl) at 2. rewrite scf_rx_scan_spec, app_nil_r. reflexivity.
Qed.

(* the bundle is refused because of its blocks exactly when an unsupported block demands the deletion *)
Lemma scf_rx_del_iff : forall bl,
  scf_rx_del bl = true <-> exists b, In b bl /\ bk_known b = false /\ scf_blk_has scf_fl_delete b = true.
Proof.
  intros bl. unfold scf_rx_del. rewrite scf_rx_blocks_spec.
  destruct (existsb scf_blk_demands_deletion bl) eqn:E.
  - split; [intros _|reflexivity]. apply existsb_exists in E. destruct E as [b [Hb Hd]].
    unfold scf_blk_demands_deletion in Hd. apply andb_true_iff in Hd. destruct Hd as [Hk Hd].
    exists b. rewrite negb_true_iff in Hk. auto.
  - split; [discriminate|]. intros [b [Hb [Hk Hd]]]. exfalso.
    assert (existsb scf_blk_demands_deletion bl = true) as X.
    { apply existsb_exists. exists b. split; auto. unfold scf_blk_demands_deletion. rewrite Hk, Hd. reflexivity. }
    congruence.
Qed.

(* the flags of blocks the node can process, and every flag but "delete bundle", never cost the bundle *)
Lemma scf_rx_known_harmless : forall bl,
  (forall b, In b bl -> bk_known b = true \/ scf_blk_has scf_fl_delete b = false) -> scf_rx_del bl = false.
Proof.
  intros bl H. destruct (scf_rx_del bl) eqn:E; [|reflexivity]. apply scf_rx_del_iff in E.
  destruct E as [b [Hb [Hk Hd]]]. destruct (H b Hb); congruence.
Qed.

(* a bundle that is kept goes on with exactly its blocks less the unsupported ones flagged for removal, in order *)
Lemma scf_rx_blocks_kept : forall bl r, scf_rx_blocks bl = Some r -> r = filter scf_blk_stays bl.
Proof.
  intros bl r. rewrite scf_rx_blocks_spec. destruct (existsb scf_blk_demands_deletion bl); congruence.
Qed.

(* the scenario of the aliasing defect: [unknown, remove] directly in front of [known, delete] *)
Lemma scf_ex_rx_remove_then_known_delete :
  scf_rx_blocks [ {| bk_known := false; bk_flags := 16 |}; {| bk_known := true; bk_flags := 5 |}; {| bk_known := true; bk_flags := 0 |} ]
  = Some [ {| bk_known := true; bk_flags := 5 |}; {| bk_known := true; bk_flags := 0 |} ].
Proof. reflexivity. Qed.
