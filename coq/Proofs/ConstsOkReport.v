(* ConstsOkReport.v - the status-report constants of pkg/bpv7 and the literal / operator shapes of
   the reporting functions of pkg/routing (regenerated from the repository into gen/Consts.v) are
   the ones Model/Report.v is written against.  A changed constant or a restructured call site
   breaks a [reflexivity] here (then the correspondence run decides whether behaviour changed). *)
From Coq Require Import ZArith NArith List.
Import ListNotations.
From DTN Require Import Consts Base Bundle Report.
Open Scope Z_scope.

Lemma rp_positions_ok :
  pkg_bpv7__ReceivedBundle = Z.of_N SP_RECEIVED /\ pkg_bpv7__ForwardedBundle = Z.of_N SP_FORWARDED
  /\ pkg_bpv7__DeliveredBundle = Z.of_N SP_DELIVERED /\ pkg_bpv7__DeletedBundle = Z.of_N SP_DELETED
  /\ pkg_bpv7__maxStatusInformationPos = 4.
Proof. repeat split; reflexivity. Qed.

Lemma rp_reasons_ok :
  pkg_bpv7__NoInformation = Z.of_N RR_NOINFO /\ pkg_bpv7__LifetimeExpired = Z.of_N RR_EXPIRED
  /\ pkg_bpv7__HopLimitExceeded = Z.of_N RR_HOPLIMIT /\ pkg_bpv7__BlockUnsupported = Z.of_N RR_UNSUPPORTED.
Proof. repeat split; reflexivity. Qed.

Lemma rp_record_type_ok : pkg_bpv7__AdminRecordTypeStatusReport = 1.
Proof. reflexivity. Qed.

Lemma rp_flags_ok :
  pkg_bpv7__AdministrativeRecordPayload = Z.of_N F_ADMIN /\ pkg_bpv7__RequestStatusTime = Z.of_N F_TIME
  /\ pkg_bpv7__IsFragment = Z.of_N F_FRAG
  /\ pkg_bpv7__StatusRequestReception = Z.of_N F_RECEPTION /\ pkg_bpv7__StatusRequestForward = Z.of_N F_FORWARD
  /\ pkg_bpv7__StatusRequestDelivery = Z.of_N F_DELIVERY /\ pkg_bpv7__StatusRequestDeletion = Z.of_N F_DELETION
  /\ pkg_bpv7__StatusReportBlock = Z.of_N BF_REPORT /\ pkg_bpv7__DeleteBundle = Z.of_N BF_DELETE
  /\ pkg_bpv7__RemoveBlock = Z.of_N BF_REMOVE.
Proof. repeat split; reflexivity. Qed.

(* shapes: SendStatusReport (two guards, serialisation error, receiver defaulting, receiver guard,
   builder error), bundleDeletion (no operators), localDelivery after the fix (negated check of the
   record, one Deliver error test whose else-branch reports), receive (known test, loop from the
   last block down), NewStatusReport (loop over the positions, time iff requested) *)
Lemma rp_send_status_report_ok :
  pkg_routing__Core_SendStatusReport__lits = []
  /\ pkg_routing__Core_SendStatusReport__ops = [44; 39; 34; 1043; 44; 44; 1017].
Proof. split; reflexivity. Qed.
Lemma rp_bundle_deletion_ok :
  pkg_routing__Core_bundleDeletion__lits = [] /\ pkg_routing__Core_bundleDeletion__ops = [].
Proof. split; reflexivity. Qed.
Lemma rp_local_delivery_ok :
  pkg_routing__Core_localDelivery__lits = [] /\ pkg_routing__Core_localDelivery__ops = [1043; 44].
Proof. split; reflexivity. Qed.
Lemma rp_receive_ok :
  pkg_routing__Core_receive__lits = [0; 1; 0; 1]
  /\ pkg_routing__Core_receive__ops = [41; 13; 46; 2038; 1017; 12].
Proof. split; reflexivity. Qed.
Lemma rp_new_status_report_ok :
  pkg_bpv7__NewStatusReport__lits = [0]
  /\ pkg_bpv7__NewStatusReport__ops = [1017; 40; 2037; 34; 39; 39].
Proof. split; reflexivity. Qed.
