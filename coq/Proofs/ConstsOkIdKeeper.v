(* ConstsOkIdKeeper.v - the literals of IdKeeper.update / IdKeeper.clean and the epoch constant in
   /repo coincide with the ones the model (Model/IdKeeper.v) is written against. *)
From Coq Require Import ZArith NArith List.
Import ListNotations.
From DTN Require Import Consts IdKeeper.
Open Scope Z_scope.

(* update: `state + 1`, `= 0`, `CreationTimestamp[1]` *)
Lemma idkeeper_update_ok :
  pkg_routing__IdKeeper_update__lits = [Z.of_N ik_incr; Z.of_N ik_first; 1]
  /\ pkg_routing__IdKeeper_update__ops = [12].
Proof. split; reflexivity. Qed.

(* clean: `DtnTimeNow() - 60*60*24`, `tpl.time < threshold && tpl.time != DtnTimeEpoch` *)
Lemma idkeeper_clean_ok :
  pkg_routing__IdKeeper_clean__lits = [60; 60; 24]
  /\ Z.of_N ik_window = 60 * 60 * 24
  /\ pkg_routing__IdKeeper_clean__ops = [13; 14; 14; 34; 40; 44]
  /\ pkg_bpv7__DtnTimeEpoch = Z.of_N ik_epoch.
Proof. repeat split; reflexivity. Qed.

(* the window is 86.4 seconds (DTN time is in milliseconds), not the hour of the comment *)
Lemma idkeeper_window_ms : Z.of_N ik_window = 86400 /\ Z.of_N ik_window < 3600 * 1000.
Proof. split; reflexivity. Qed.

(* the store key is the string of the scrubbed ID: source, time, sequence number *)
Lemma idkeeper_key_ok :
  pkg_bpv7__BundleID_String__lits = [0; 1] /\ pkg_bpv7__BundleID_Scrub__lits = [0; 0].
Proof. split; reflexivity. Qed.
