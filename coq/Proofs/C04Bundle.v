(* C04Bundle.v - the bundle decoder terminates on every input for a reason independent of the
   fuel it is given (fuel above the input length never runs out), and the only allocation sized by
   a wire field before the bytes arrived is bounded by 1 MiB and covered by the arrived bytes on
   success. *)
From DTN Require Import Base Cbor CborProofs Crc Eid EidProofs Bundle BundleWf BundleProofs DecodeInv Alloc.
From Coq Require Import ZifyN ZifyNat ZifyBool.
Open Scope N_scope.

Lemma read_head_shorter bs mn r : read_head bs = Ok mn r -> (length r < length bs)%nat.
Proof.
  destruct bs as [|b bs]; [discriminate|]. cbn [read_head].
  destruct (b =? 159); [discriminate|]. destruct (b =? 255); [discriminate|].
  destruct (b mod 32 <? 24).
  - intros H. inversion H; subst. cbn. lia.
  - destruct (b mod 32 <? 28); [|discriminate]. unfold take_exact.
    destruct (Nat.leb _ (length bs)); [|discriminate]. intros H. inversion H; subst.
    rewrite skipn_length. cbn. lia.
Qed.

Lemma read_expect_shorter m bs n r : read_expect m bs = Ok n r -> (length r < length bs)%nat.
Proof.
  unfold read_expect. intros H. destruct (read_head bs) as [mn r0| |] eqn:E; cbn [bind] in H; try discriminate.
  destruct (fst mn =? m); [|discriminate]. inversion H; subst. eapply read_head_shorter; eauto.
Qed.

Lemma dec_eid_shorter bs e r : dec_eid bs = Ok e r -> (length r < length bs)%nat.
Proof.
  intros H. pose proof (dec_eid_suffix _ _ _ H) as Hs. unfold dec_eid in H.
  destruct (read_arr bs) as [l r1| |] eqn:E1; cbn [bind] in H; try discriminate.
  apply read_expect_shorter in E1.
  (* the rest only shrinks further: use the suffix of the remaining parse *)
  assert (Hrest : suffix_of r r1).
  { destruct (negb (l =? 2)); [discriminate|].
    destruct (read_uint r1) as [sch r2| |] eqn:E2; cbn [bind] in H; try discriminate.
    apply read_expect_suffix in E2.
    eapply suffix_trans; [|exact E2].
    destruct (sch =? 1).
    - destruct (read_head r2) as [[m n] r3| |] eqn:E3; cbn [bind] in H; try discriminate.
      apply read_head_suffix in E3. eapply suffix_trans; [|exact E3].
      destruct (m =? mUInt); [inversion H; subst; apply suffix_refl|].
      destruct (m =? mText); [|discriminate].
      destruct (read_raw n r3) as [ssp r4| |] eqn:E4; cbn [bind] in H; try discriminate.
      apply read_raw_suffix in E4. destruct (bytes_eqb ssp str_none); [discriminate|].
      destruct (parse_ssp ssp) as [[a b]|]; [|discriminate]. inversion H; subst. exists ssp. reflexivity.
    - destruct (sch =? 2); [|discriminate].
      destruct (read_arr r2) as [l2 r3| |] eqn:E3; cbn [bind] in H; try discriminate.
      apply read_expect_suffix in E3. eapply suffix_trans; [|exact E3].
      destruct (negb (l2 =? 2)); [discriminate|].
      destruct (read_uint r3) as [n r4| |] eqn:E4; cbn [bind] in H; try discriminate.
      destruct (read_uint r4) as [sv r5| |] eqn:E5; cbn [bind] in H; try discriminate.
      apply read_expect_suffix in E4, E5. inversion H; subst. eapply suffix_trans; [exact E5|exact E4]. }
  apply suffix_length in Hrest. lia.
Qed.

Lemma dec_cblock_shorter bs c r : dec_cblock bs = Ok c r -> (length r < length bs)%nat.
Proof.
  intros H. unfold dec_cblock in H.
  destruct (read_arr bs) as [l r0| |] eqn:E0; cbn [bind] in H; try discriminate.
  apply read_expect_shorter in E0.
  assert (Hs : suffix_of r r0).
  { destruct (negb ((l =? 5) || (l =? 6))); [discriminate|].
    destruct (read_uint r0) as [tc r1| |] eqn:E1; cbn [bind] in H; try discriminate.
    destruct (read_uint r1) as [num r2| |] eqn:E2; cbn [bind] in H; try discriminate.
    destruct (read_uint r2) as [fl r3| |] eqn:E3; cbn [bind] in H; try discriminate.
    destruct (read_uint r3) as [crc r4| |] eqn:E4; cbn [bind] in H; try discriminate.
    destruct (2 <? crc); [discriminate|].
    destruct (negb (Bool.eqb (l =? 6) (negb (crc =? 0)))); [discriminate|].
    destruct (dec_ext tc r4) as [v r5| |] eqn:E5; cbn [bind] in H; try discriminate.
    apply read_expect_suffix in E1, E2, E3, E4. apply dec_ext_suffix in E5.
    assert (S5 : suffix_of r5 r0).
    { eapply suffix_trans; [exact E5|]. eapply suffix_trans; [exact E4|]. eapply suffix_trans; [exact E3|].
      eapply suffix_trans; [exact E2|]. exact E1. }
    destruct (l =? 6).
    - destruct (check_crc crc bs r5) as [u r6| |] eqn:E6; cbn [bind] in H; try discriminate.
      inversion H; subst. unfold check_crc in E6.
      destruct (read_bstr r5) as [cv r7| |] eqn:E7; cbn [bind] in E6; try discriminate.
      apply read_bstr_suffix in E7. destruct (crc_len crc); [|discriminate].
      destruct (negb _); [discriminate|].
      match type of E6 with (if ?c then _ else _) = _ => destruct c; [|discriminate] end.
      inversion E6; subst. eapply suffix_trans; [exact E7|exact S5].
    - inversion H; subst. exact S5. }
  apply suffix_length in Hs. lia.
Qed.

(* fuel above the input length is never exhausted: the result does not depend on it *)
Theorem dec_blocks_fuel_irrelevant : forall n bs f1 f2 acc,
  (length bs <= n)%nat -> (length bs < f1)%nat -> (length bs < f2)%nat ->
  dec_blocks f1 bs acc = dec_blocks f2 bs acc.
Proof.
  induction n as [|n IH]; intros bs f1 f2 acc Hn H1 H2.
  - destruct bs; [|cbn in Hn; lia]. destruct f1, f2; try (cbn in *; lia). cbn. reflexivity.
  - destruct f1 as [|f1]; [lia|]. destruct f2 as [|f2]; [lia|]. cbn [dec_blocks].
    destruct (starts_with 255 bs); [reflexivity|].
    destruct (dec_cblock bs) as [c r| |] eqn:E; try reflexivity.
    apply dec_cblock_shorter in E. apply IH; lia.
Qed.

Theorem dec_pairs_fuel_irrelevant readv
  (Hshort : forall bs v r, readv bs = Ok v r -> (length r <= length bs)%nat) :
  forall n bs f1 f2 cnt acc,
  (length bs <= n)%nat -> (length bs < f1)%nat -> (length bs < f2)%nat ->
  dec_pairs f1 readv cnt acc bs = dec_pairs f2 readv cnt acc bs.
Proof.
  induction n as [|n IH]; intros bs f1 f2 cnt acc Hn H1 H2.
  - destruct bs; [|cbn in Hn; lia]. destruct f1, f2; try (cbn in *; lia). cbn [dec_pairs].
    destruct (cnt =? 0); reflexivity.
  - destruct f1 as [|f1]; [lia|]. destruct f2 as [|f2]; [lia|]. cbn [dec_pairs].
    destruct (cnt =? 0); [reflexivity|].
    destruct (dec_eid bs) as [k r| |] eqn:E; cbn [bind]; try reflexivity.
    apply dec_eid_shorter in E.
    destruct (readv r) as [v r'| |] eqn:E2; cbn [bind]; try reflexivity.
    apply Hshort in E2. apply IH; lia.
Qed.

(* the one allocation sized by a wire field before its bytes arrived *)
Theorem raw_prealloc_bounded n : raw_prealloc n <= raw_chunk.
Proof. unfold raw_prealloc. destruct (max_raw <? n); [unfold raw_chunk; lia|]. destruct (n <=? raw_chunk) eqn:E; [|unfold raw_chunk; lia]. lia. Qed.

Theorem raw_prealloc_covered n bs d r : read_raw n bs = Ok d r -> raw_prealloc n <= nlen d /\ nlen d <= nlen bs.
Proof.
  unfold read_raw, raw_prealloc. destruct (max_raw <? n); [discriminate|]. destruct (nlen bs <? n) eqn:E; [discriminate|].
  intros H. inversion H; subst. unfold nlen in *. rewrite firstn_length.
  destruct (n <=? raw_chunk); lia.
Qed.
