(* ClaMgrConcRun5.v - exhaustive exploration (vm_compute) of slice 5 of 6 of the configurations of
   the first C16 bound (cmc_fam1); the slices are separate files so that they are compiled in parallel. *)
From DTN Require Import Base ClaMgrConc.

Lemma cmc_run_slice5 : forallb (cmc_check_cfg cmc_code_as_is cmc_fuel) (cmc_slice 6 5 cmc_fam1) = true.
Proof. vm_cast_no_check (@eq_refl bool true). Qed.   (* evaluated once, by the kernel, at Qed *)
