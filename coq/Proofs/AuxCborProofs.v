(* AuxCborProofs.v - the CBOR-based auxiliary formats of AuxCbor.v:
     A. every format decodes from its own encoding to the same value, consuming exactly the
        encoding (so concatenated messages stay aligned);
     B. invalid code / layout fields are rejected;
     C. no decoder panics and the wire-sized allocations stay within
        alloc_k * (bytes of the input) + alloc_c0;  the fuel of the item loops is never what
        stops them;  the code as found (fixed = false) is refuted on both counts. *)
From DTN Require Import Base Cbor CborProofs Eid EidProofs Bundle BundleWf BundleProofs AuxCbor.
From Coq Require Import ZifyN ZifyNat ZifyBool.
Open Scope N_scope.

(* ================= A. round trips ================= *)

(* [x] succeeds with value [a] and rest [r], whatever it allocated *)
Definition yields {A} (x : ares A) (a : A) (r : list N) : Prop := exists c, x = AOk a r c.

Lemma yields_ret {A} (a : A) r c : yields (AOk a r c) a r.
Proof. exists c. reflexivity. Qed.
Lemma yields_addc {A} c (y : ares A) a r : yields y a r -> yields (addc c y) a r.
Proof. intros [c' ->]. eexists. reflexivity. Qed.
Lemma yields_bind {A B} (x : ares A) (f : A -> list N -> ares B) a r b r' :
  yields x a r -> yields (f a r) b r' -> yields (abind x f) b r'.
Proof. intros [c ->] H. cbn [abind]. apply yields_addc, H. Qed.
Lemma yields_to_res {A} (x : ares A) a r : yields x a r -> to_res x = Ok a r.
Proof. intros [c ->]. reflexivity. Qed.
Lemma to_res_yields {A} (x : ares A) a r : to_res x = Ok a r -> yields x a r.
Proof. destruct x; cbn; intros H; inversion H; subst. eexists. reflexivity. Qed.
Lemma yields_lift {A} (x : res A) c a r : x = Ok a r -> yields (a_lift x c) a r.
Proof. intros ->. eexists. reflexivity. Qed.

Lemma yields_uint n r : u64_ok n = true -> yields (a_read_uint (enc_uint n ++ r)) n r.
Proof. intros H. apply yields_lift, read_uint_enc, H. Qed.
Lemma yields_arr n r : u64_ok n = true -> yields (a_read_arr (enc_arr n ++ r)) n r.
Proof. intros H. apply yields_lift, read_arr_enc, H. Qed.
Lemma yields_bool b r : yields (a_read_bool (enc_bool b ++ r)) b r.
Proof. apply yields_lift, read_bool_enc. Qed.
Lemma yields_tstr d r : len_ok d = true -> yields (a_read_tstr (enc_tstr d ++ r)) d r.
Proof. intros H. apply yields_lift, read_tstr_enc, H. Qed.
Lemma yields_bstr d r : len_ok d = true -> yields (a_read_bstr (enc_bstr d ++ r)) d r.
Proof. intros H. apply yields_lift, read_bstr_enc, H. Qed.

Lemma ax_eid_ok_eq e : ax_eid_ok e = eid_ok e.
Proof. reflexivity. Qed.
Lemma yields_eid e r : ax_eid_ok e = true -> yields (a_dec_eid (enc_eid_body e ++ r)) e r.
Proof. intros H. apply yields_lift, dec_eid_body. rewrite <- ax_eid_ok_eq. exact H. Qed.
Lemma enc_eid_ax e : ax_eid_ok e = true -> enc_eid e = Some (enc_eid_body e).
Proof. intros H. apply enc_eid_ok. rewrite <- ax_eid_ok_eq. exact H. Qed.

(* one step of a decoder over an encoding: the first reader takes its own bytes *)
Ltac ystep :=
  eapply yields_bind;
  [ first [ apply yields_uint; (assumption || reflexivity)
          | apply yields_arr; (assumption || reflexivity)
          | apply yields_bool
          | apply yields_tstr; assumption
          | apply yields_bstr; assumption
          | apply yields_eid; assumption ]
  | cbn beta ].

(* ---- creation timestamp ---- *)
Lemma yields_cts t s r : u64_ok t = true -> u64_ok s = true -> yields (adec_cts (enc_cts t s ++ r)) (t, s) r.
Proof.
  intros Ht Hs. unfold adec_cts, enc_cts. rewrite <- !app_assoc.
  ystep. tcred. ystep. ystep. apply yields_ret.
Qed.

(* ---- bundle ID ---- *)
Definition bid_bytes (b : bid) : list N :=
  enc_eid_body (bid_src b) ++ enc_cts (bid_time b) (bid_seq b)
  ++ (if bid_frag b then enc_uint (bid_off b) ++ enc_uint (bid_total b) else []).

Lemma bid_wf_parts b : bid_wf b = true ->
  ax_eid_ok (bid_src b) = true /\ u64_ok (bid_time b) = true /\ u64_ok (bid_seq b) = true /\
  u64_ok (bid_off b) = true /\ u64_ok (bid_total b) = true /\
  (bid_frag b = false -> bid_off b = 0 /\ bid_total b = 0).
Proof.
  unfold bid_wf. intros H. split_andb. repeat (split; [assumption|]).
  intros Hf. rewrite Hf in *. cbn [orb] in *. split_andb. split; lia.
Qed.

Lemma enc_bid_ok b : bid_wf b = true -> enc_bid b = Some (bid_bytes b).
Proof.
  intros H. apply bid_wf_parts in H. destruct H as [He _]. unfold enc_bid. rewrite (enc_eid_ax _ He). reflexivity.
Qed.

Lemma yields_bid b r : bid_wf b = true -> yields (adec_bid (bid_frag b) (bid_bytes b ++ r)) b r.
Proof.
  intros H. apply bid_wf_parts in H. destruct H as (He & Ht & Hs & Ho & Htot & Hnf).
  unfold adec_bid, bid_bytes. rewrite <- !app_assoc.
  ystep. eapply yields_bind; [apply yields_cts; assumption|]. cbn beta. cbn [fst snd].
  destruct b as [src t s frag off tot]. cbn [bid_src bid_time bid_seq bid_frag bid_off bid_total] in *.
  destruct frag.
  - rewrite <- !app_assoc. ystep. ystep. apply yields_ret.
  - destruct (Hnf eq_refl) as [-> ->]. cbn [app]. apply yields_ret.
Qed.

(* ---- bundle status item ---- *)
Lemma yields_sitem i r : sitem_wf i = true -> yields (adec_sitem (enc_sitem i ++ r)) i r.
Proof.
  unfold sitem_wf. intros H. split_andb.
  destruct i as [a t q]. cbn [si_asserted si_time si_req] in *.
  unfold adec_sitem, enc_sitem. cbn [si_asserted si_time si_req].
  destruct q.
  - subst a. cbn [andb]. rewrite <- !app_assoc. ystep. tcred. ystep. tcred. ystep. apply yields_ret.
  - rewrite andb_false_r. rewrite <- !app_assoc. ystep. tcred. ystep. tcred.
    assert (t = 0) as -> by lia. apply yields_ret.
Qed.

Lemma enc_sitem_nonempty i : (1 <= length (enc_sitem i))%nat.
Proof. unfold enc_sitem. destruct (si_asserted i && si_req i); rewrite !app_length; cbn; lia. Qed.

(* ---- a counted sequence of items ---- *)
Lemma nlen_cons_eqb {A} (x : A) l : (nlen (x :: l) =? 0) = false.
Proof. unfold nlen. cbn [length]. lia. Qed.
Lemma nlen_cons_pred' {A} (x : A) l : nlen (x :: l) - 1 = nlen l.
Proof. unfold nlen. cbn [length]. lia. Qed.

Lemma yields_arepeat {A} (item : list N -> ares A) (enc : A -> list N) (wf : A -> bool) per :
  (forall x r, wf x = true -> yields (item (enc x ++ r)) x r) ->
  forall xs fuel r, forallb wf xs = true -> (length xs <= fuel)%nat ->
  yields (arepeat item per fuel (nlen xs) (concat (map enc xs) ++ r)) xs r.
Proof.
  intros Hitem. induction xs as [|x xs IH]; intros fuel r Hwf Hfuel.
  - destruct fuel; cbn; apply yields_ret.
  - cbn [forallb] in Hwf. apply andb_prop in Hwf. destruct Hwf as [Hx Hxs].
    destruct fuel as [|fuel]; [cbn in Hfuel; lia|].
    cbn [arepeat]. rewrite nlen_cons_eqb, nlen_cons_pred'. cbn [map concat]. rewrite <- app_assoc.
    eapply yields_bind; [apply Hitem, Hx|]. cbn beta.
    eapply yields_bind; [apply yields_addc, IH; [exact Hxs|cbn in Hfuel; lia]|]. cbn beta. apply yields_ret.
Qed.

Lemma concat_enc_length {A} (enc : A -> list N) xs :
  (forall x, (1 <= length (enc x))%nat) -> (length xs <= length (concat (map enc xs)))%nat.
Proof.
  intros H. induction xs as [|x xs IH]; cbn [map concat length]; [lia|].
  rewrite app_length. pose proof (H x). lia.
Qed.

(* ---- status report ---- *)
Definition sreport_bytes (s : sreport) : list N :=
  enc_arr (if bid_frag (sr_ref s) then 6 else 4)
  ++ enc_arr (nlen (sr_items s)) ++ concat (map enc_sitem (sr_items s))
  ++ enc_uint (sr_reason s) ++ bid_bytes (sr_ref s).

(* everything of well-formedness except the reason code *)
Definition sreport_wf_but_reason (s : sreport) : bool :=
  forallb sitem_wf (sr_items s) && u64_ok (nlen (sr_items s)) && u64_ok (sr_reason s) && bid_wf (sr_ref s).

Lemma sreport_wf_but s : sreport_wf s = true -> sreport_wf_but_reason s = true /\ sr_reason s <= max_reason.
Proof.
  unfold sreport_wf, sreport_wf_but_reason. intros H. split_andb. split; [|lia].
  assert (Hu : u64_ok (sr_reason s) = true) by (unfold u64_ok, max_reason in *; lia).
  repeat match goal with Hx : _ = true |- _ => rewrite Hx; clear Hx end. reflexivity.
Qed.

Lemma enc_sreport_ok s : sreport_wf_but_reason s = true -> enc_sreport s = Some (sreport_bytes s).
Proof.
  unfold sreport_wf_but_reason. intros H. split_andb. unfold enc_sreport. rewrite enc_bid_ok by assumption. reflexivity.
Qed.

(* the whole decoder up to the reason code, then the decision on the code, then the bundle ID *)
Lemma adec_sreport_reason s r : sreport_wf_but_reason s = true ->
  if sr_reason s <=? max_reason
  then yields (adec_sreport true (sreport_bytes s ++ r)) s r
  else to_res (adec_sreport true (sreport_bytes s ++ r)) = Err.
Proof.
  unfold sreport_wf_but_reason. intros H. split_andb.
  destruct s as [items reason ref]. cbn [sr_items sr_reason sr_ref] in *.
  unfold adec_sreport, sreport_bytes. cbn [sr_items sr_reason sr_ref]. rewrite <- !app_assoc.
  assert (Hl : forall rest, yields (arepeat adec_sitem sitem_per (S (length (concat (map enc_sitem items) ++ rest))) (nlen items)
                                      (concat (map enc_sitem items) ++ rest)) items rest).
  { intros rest. apply (yields_arepeat adec_sitem enc_sitem sitem_wf); [apply yields_sitem|assumption|].
    rewrite app_length. pose proof (concat_enc_length enc_sitem items enc_sitem_nonempty). lia. }
  assert (Hlen : (if bid_frag ref then 6 else 4) =? 4 = negb (bid_frag ref) /\ (if bid_frag ref then 6 else 4) =? 6 = bid_frag ref)
    by (destruct (bid_frag ref); split; reflexivity).
  destruct Hlen as [H4 H6].
  destruct (reason <=? max_reason) eqn:Hr.
  - eapply yields_bind; [apply yields_arr; destruct (bid_frag ref); reflexivity|]. cbn beta.
    rewrite H4, H6. replace (negb (negb (bid_frag ref) || bid_frag ref)) with false by (destruct (bid_frag ref); reflexivity).
    cbv iota. ystep. cbn [abind addc]. apply yields_addc.
    eapply yields_bind; [apply Hl|]. cbn beta. ystep.
    replace (max_reason <? reason) with false by lia. cbn [andb]. cbv iota.
    eapply yields_bind; [apply yields_bid; assumption|]. cbn beta. apply yields_ret.
  - destruct (yields_arr (if bid_frag ref then 6 else 4)
                (enc_arr (nlen items) ++ concat (map enc_sitem items) ++ enc_uint reason ++ bid_bytes ref ++ r)) as [c0 ->];
      [destruct (bid_frag ref); reflexivity|].
    cbn [abind]. rewrite H4, H6. replace (negb (negb (bid_frag ref) || bid_frag ref)) with false by (destruct (bid_frag ref); reflexivity).
    cbv iota.
    destruct (yields_arr (nlen items) (concat (map enc_sitem items) ++ enc_uint reason ++ bid_bytes ref ++ r)) as [c1 ->]; [assumption|].
    cbn [abind addc].
    destruct (Hl (enc_uint reason ++ bid_bytes ref ++ r)) as [c2 ->]. cbn [abind addc].
    destruct (yields_uint reason (bid_bytes ref ++ r)) as [c3 ->]; [assumption|]. cbn [abind addc].
    replace (max_reason <? reason) with true by lia. reflexivity.
Qed.

Lemma yields_sreport s r : sreport_wf s = true -> yields (adec_sreport true (sreport_bytes s ++ r)) s r.
Proof.
  intros H. apply sreport_wf_but in H. destruct H as [Hb Hr].
  pose proof (adec_sreport_reason s r Hb) as H. replace (sr_reason s <=? max_reason) with true in H by lia. exact H.
Qed.

(* ---- administrative record ---- *)
Definition admrec_bytes (a : admrec) : list N :=
  match a with ARStatus s => enc_arr 2 ++ enc_uint ar_type_status ++ sreport_bytes s end.

Lemma enc_admrec_ok a : admrec_wf a = true -> enc_admrec a = Some (admrec_bytes a).
Proof.
  destruct a as [s]. cbn [admrec_wf enc_admrec admrec_bytes]. intros H. apply sreport_wf_but in H. destruct H as [H _].
  rewrite enc_sreport_ok by exact H. reflexivity.
Qed.

Lemma yields_admrec a r : admrec_wf a = true -> yields (adec_admrec true (admrec_bytes a ++ r)) a r.
Proof.
  destruct a as [s]. cbn [admrec_wf admrec_bytes]. intros H. unfold adec_admrec. rewrite <- !app_assoc.
  ystep. tcred. ystep. tcred.
  eapply yields_bind; [apply yields_sreport, H|]. cbn beta. apply yields_ret.
Qed.

(* ---- discovery announcements ---- *)
Definition ann_bytes (a : ann) : list N :=
  enc_arr 3 ++ enc_uint (an_type a) ++ enc_eid_body (an_eid a) ++ enc_uint (an_port a).

Lemma cla_type_u64 t : cla_type_ok t = true -> u64_ok t = true.
Proof. unfold cla_type_ok, u64_ok. lia. Qed.

Lemma enc_ann_ok a : ann_wf a = true -> enc_ann a = Some (ann_bytes a).
Proof. unfold ann_wf. intros H. split_andb. unfold enc_ann. rewrite enc_eid_ax by assumption. reflexivity. Qed.

Lemma yields_ann a r : ann_wf a = true -> yields (adec_ann (ann_bytes a ++ r)) a r.
Proof.
  unfold ann_wf. intros H. split_andb. pose proof (cla_type_u64 _ H) as Ht.
  destruct a as [t e p]. cbn [an_type an_eid an_port] in *.
  unfold adec_ann, ann_bytes. cbn [an_type an_eid an_port]. rewrite <- !app_assoc.
  ystep. tcred. ystep. rewrite H. cbn [negb]. cbv iota. ystep. ystep. apply yields_ret.
Qed.

Lemma ann_bytes_nonempty a : (1 <= length (ann_bytes a))%nat.
Proof. unfold ann_bytes. rewrite !app_length. cbn. lia. Qed.

Definition anns_bytes (l : list ann) : list N := enc_arr (nlen l) ++ concat (map ann_bytes l).

Lemma enc_ann_list_ok l : forallb ann_wf l = true -> enc_ann_list l = Some (concat (map ann_bytes l)).
Proof.
  induction l as [|a l IH]; cbn [forallb enc_ann_list map concat]; intros H; [reflexivity|].
  apply andb_prop in H. destruct H as [Ha Hl]. rewrite enc_ann_ok by exact Ha. cbn [obind]. rewrite IH by exact Hl. reflexivity.
Qed.
Lemma enc_anns_ok l : anns_wf l = true -> enc_anns l = Some (anns_bytes l).
Proof. unfold anns_wf. intros H. split_andb. unfold enc_anns. rewrite enc_ann_list_ok by assumption. reflexivity. Qed.

Lemma yields_anns l r : anns_wf l = true -> yields (adec_anns true (anns_bytes l ++ r)) l r.
Proof.
  unfold anns_wf. intros H. split_andb. unfold adec_anns, anns_bytes. rewrite <- !app_assoc.
  ystep. cbn [abind addc]. apply yields_addc.
  apply (yields_arepeat adec_ann ann_bytes ann_wf); [apply yields_ann|assumption|].
  rewrite app_length. pose proof (concat_enc_length ann_bytes l ann_bytes_nonempty). lia.
Qed.

(* ---- WebSocket-agent messages ---- *)
Definition wam_body_bytes (w : wam) : list N :=
  match w with
  | WStatus m => enc_tstr m
  | WRegister e => enc_tstr e
  | WBundle b => bundle_bytes b
  | WSysReq q => enc_tstr q
  | WSysResp q p => enc_arr 2 ++ enc_tstr q ++ enc_bstr p
  end.
Definition wam_bytes (w : wam) : list N := enc_arr 2 ++ enc_uint (wam_code w) ++ wam_body_bytes w.

(* a bundle the node can hold, that is valid at time [now] *)
Definition bundle_ok (now : N) (b : bundle) : bool := bundle_wf b && check_valid now b.

Lemma enc_wam_ok now w : wam_wf (bundle_ok now) w = true -> enc_wam w = Some (wam_bytes w).
Proof.
  unfold enc_wam, wam_bytes. destruct w; cbn [wam_wf enc_wam_body wam_body_bytes obind]; intros H; try reflexivity.
  unfold bundle_ok in H. apply andb_prop in H. destruct H as [H _]. rewrite enc_bundle_ok by exact H. reflexivity.
Qed.

Lemma yields_wam now w r : wam_wf (bundle_ok now) w = true -> yields (adec_wam now (wam_bytes w ++ r)) w r.
Proof.
  intros H. unfold adec_wam, wam_bytes. rewrite <- !app_assoc.
  destruct w as [m|e|b|q|q p]; cbn [wam_wf wam_code wam_body_bytes] in *; split_andb.
  - ystep. tcred. ystep. tcred. ystep. apply yields_ret.
  - ystep. tcred. ystep. tcred. ystep. apply yields_ret.
  - ystep. tcred. ystep. tcred.
    unfold bundle_ok in H. apply andb_prop in H. destruct H as [Hw Hv].
    eapply yields_bind; [|cbn beta; apply yields_ret].
    unfold a_dec_bundle. rewrite dec_bundle_enc by assumption. apply yields_ret.
  - ystep. tcred. ystep. tcred. ystep. apply yields_ret.
  - rewrite <- !app_assoc. ystep. tcred. ystep. tcred. ystep. tcred. ystep. ystep. apply yields_ret.
Qed.

(* ---- any message, and streams of them ---- *)
Definition aux_bytes (x : aux) : list N :=
  match x with
  | XCts t s => enc_cts t s
  | XEid e => enc_eid_body e
  | XBid b => bid_bytes b
  | XSitem i => enc_sitem i
  | XSreport s => sreport_bytes s
  | XAdmrec a => admrec_bytes a
  | XAnn a => ann_bytes a
  | XAnns l => anns_bytes l
  | XWam w => wam_bytes w
  end.

Lemma enc_aux_ok now x : aux_wf (bundle_ok now) x = true -> enc_aux x = Some (aux_bytes x).
Proof.
  destruct x; cbn [aux_wf enc_aux aux_bytes]; intros H.
  - reflexivity.
  - apply enc_eid_ax, H.
  - apply enc_bid_ok, H.
  - reflexivity.
  - apply enc_sreport_ok. apply sreport_wf_but in H. tauto.
  - apply enc_admrec_ok, H.
  - apply enc_ann_ok, H.
  - apply enc_anns_ok, H.
  - eapply enc_wam_ok, H.
Qed.

Theorem dec_aux_enc now x r : aux_wf (bundle_ok now) x = true ->
  dec_aux now (kind_of x) (aux_bytes x ++ r) = Ok x r.
Proof.
  destruct x; cbn [aux_wf kind_of aux_bytes dec_aux]; intros H.
  - apply andb_prop in H. destruct H as [Ht Hs]. unfold dec_cts. rewrite (yields_to_res _ _ _ (yields_cts t s r Ht Hs)). reflexivity.
  - rewrite dec_eid_body by (rewrite <- ax_eid_ok_eq; exact H). reflexivity.
  - unfold dec_bid. rewrite (yields_to_res _ _ _ (yields_bid b r H)). reflexivity.
  - unfold dec_sitem. rewrite (yields_to_res _ _ _ (yields_sitem i r H)). reflexivity.
  - unfold dec_sreport. rewrite (yields_to_res _ _ _ (yields_sreport s r H)). reflexivity.
  - unfold dec_admrec. rewrite (yields_to_res _ _ _ (yields_admrec a r H)). reflexivity.
  - unfold dec_ann. rewrite (yields_to_res _ _ _ (yields_ann a r H)). reflexivity.
  - unfold dec_anns. rewrite (yields_to_res _ _ _ (yields_anns l r H)). reflexivity.
  - unfold dec_wam. rewrite (yields_to_res _ _ _ (yields_wam now w r H)). reflexivity.
Qed.

Definition stream_bytes (xs : list aux) : list N := concat (map aux_bytes xs).

Lemma enc_stream_ok now xs : forallb (aux_wf (bundle_ok now)) xs = true -> enc_stream xs = Some (stream_bytes xs).
Proof.
  induction xs as [|x xs IH]; cbn [forallb enc_stream]; intros H; [reflexivity|].
  apply andb_prop in H. destruct H as [Hx Hxs]. rewrite (enc_aux_ok now) by exact Hx. cbn [obind].
  rewrite IH by exact Hxs. reflexivity.
Qed.

(* consecutive messages on one stream stay aligned: reading the concatenation of any number of
   encodings, one message after the other from where the previous one ended, gives back exactly
   the messages and leaves exactly what followed them *)
Theorem dec_stream_enc now xs : forall r, forallb (aux_wf (bundle_ok now)) xs = true ->
  dec_stream now (map kind_of xs) (stream_bytes xs ++ r) = Ok xs r.
Proof.
  induction xs as [|x xs IH]; intros r H; [reflexivity|].
  cbn [forallb] in H. apply andb_prop in H. destruct H as [Hx Hxs].
  unfold stream_bytes. cbn [map concat dec_stream]. rewrite <- app_assoc.
  rewrite dec_aux_enc by exact Hx. cbn [bind]. fold (stream_bytes xs). rewrite IH by exact Hxs. reflexivity.
Qed.

(* ================= B. invalid field values are rejected ================= *)
Lemma to_res_addc {A} c (y : ares A) : to_res (addc c y) = to_res y.
Proof. destruct y; reflexivity. Qed.

Lemma to_res_abind_inv {A B} (x : ares A) (f : A -> list N -> ares B) b r :
  to_res (abind x f) = Ok b r -> exists a r0 c, x = AOk a r0 c /\ to_res (f a r0) = Ok b r.
Proof.
  destruct x as [a r0 c|c|c]; cbn [abind]; intros H; try discriminate.
  rewrite to_res_addc in H. exists a, r0, c. split; [reflexivity|exact H].
Qed.

Ltac abinv H a r :=
  apply to_res_abind_inv in H; let c := fresh "c" in let E := fresh "E" in destruct H as (a & r & c & E & H).

(* whatever the bytes: a status report that is accepted carries one of the reason codes 0..11 *)
Theorem dec_sreport_reason_known bs s r : dec_sreport bs = Ok s r -> sr_reason s <= max_reason.
Proof.
  unfold dec_sreport, adec_sreport. intros H.
  abinv H l r0. destruct (negb ((l =? 4) || (l =? 6))); [discriminate|].
  abinv H n r1. abinv H u r2. abinv H items r3. abinv H reason r4.
  cbn [andb] in H. destruct (max_reason <? reason) eqn:Er; [discriminate|].
  abinv H ref r5. cbn [to_res] in H. inversion H; subst. cbn [sr_reason]. lia.
Qed.

Theorem dec_admrec_reason_known bs s r : dec_admrec bs = Ok (ARStatus s) r -> sr_reason s <= max_reason.
Proof.
  unfold dec_admrec, adec_admrec. intros H.
  abinv H l r0. destruct (negb (l =? 2)); [discriminate|]. abinv H tc r1.
  destruct (tc =? ar_type_status); [|discriminate]. abinv H s' r2. cbn [to_res] in H. inversion H; subst.
  eapply dec_sreport_reason_known. unfold dec_sreport. rewrite E1. reflexivity.
Qed.

(* ... and conversely each of the twelve codes is accepted (and only those), on every otherwise
   well-formed report *)
Theorem sreport_reason_accepted_iff s r : sreport_wf_but_reason s = true ->
  dec_sreport (sreport_bytes s ++ r) = if sr_reason s <=? max_reason then Ok s r else Err.
Proof.
  intros H. pose proof (adec_sreport_reason s r H) as Hd. unfold dec_sreport.
  destruct (sr_reason s <=? max_reason); [apply yields_to_res, Hd|exact Hd].
Qed.

(* an announcement that is accepted carries one of the four known CLA types *)
Theorem dec_ann_type_known bs a r : dec_ann bs = Ok a r -> cla_type_ok (an_type a) = true.
Proof.
  unfold dec_ann, adec_ann. intros H.
  abinv H l r0. destruct (negb (l =? 3)); [discriminate|]. abinv H t r1.
  destruct (cla_type_ok t) eqn:Et; cbn [negb] in H; [|discriminate].
  abinv H e r2. abinv H p r3. cbn [to_res] in H. inversion H; subst. exact Et.
Qed.

(* code and layout fields written raw in front of an arbitrary body *)
Ltac rej_head :=
  match goal with
  | |- to_res (abind (a_read_arr (enc_arr ?n ++ ?r)) _) = _ =>
      let c := fresh "c" in destruct (yields_arr n r) as [c ->]; [assumption || reflexivity|]; cbn [abind]; rewrite to_res_addc
  | |- to_res (abind (a_read_uint (enc_uint ?n ++ ?r)) _) = _ =>
      let c := fresh "c" in destruct (yields_uint n r) as [c ->]; [assumption || reflexivity|]; cbn [abind]; rewrite to_res_addc
  end.

Theorem admrec_type_rejected tc body : u64_ok tc = true -> tc <> ar_type_status ->
  dec_admrec (enc_arr 2 ++ enc_uint tc ++ body) = Err.
Proof.
  intros Hu Hn. unfold dec_admrec, adec_admrec. rej_head. tcred. rej_head.
  replace (tc =? ar_type_status) with false by (unfold ar_type_status in *; lia). reflexivity.
Qed.

Theorem wam_code_rejected now tc body : u64_ok tc = true -> 4 < tc ->
  dec_wam now (enc_arr 2 ++ enc_uint tc ++ body) = Err.
Proof.
  intros Hu Hn. unfold dec_wam, adec_wam. rej_head. tcred. rej_head.
  replace (tc =? 0) with false by lia. replace (tc =? 1) with false by lia. replace (tc =? 2) with false by lia.
  replace (tc =? 3) with false by lia. replace (tc =? 4) with false by lia. reflexivity.
Qed.

Theorem ann_type_rejected t body : u64_ok t = true -> cla_type_ok t = false ->
  dec_ann (enc_arr 3 ++ enc_uint t ++ body) = Err.
Proof. intros Hu Hn. unfold dec_ann, adec_ann. rej_head. tcred. rej_head. rewrite Hn. reflexivity. Qed.

Theorem sitem_layout_rejected l body : u64_ok l = true -> l <> 1 -> l <> 2 -> dec_sitem (enc_arr l ++ body) = Err.
Proof.
  intros Hu H1 H2. unfold dec_sitem, adec_sitem. rej_head.
  replace (l =? 1) with false by lia. replace (l =? 2) with false by lia. reflexivity.
Qed.

Theorem sreport_layout_rejected l body : u64_ok l = true -> l <> 4 -> l <> 6 -> dec_sreport (enc_arr l ++ body) = Err.
Proof.
  intros Hu H1 H2. unfold dec_sreport, adec_sreport. rej_head.
  replace (l =? 4) with false by lia. replace (l =? 6) with false by lia. reflexivity.
Qed.

Theorem cts_layout_rejected l body : u64_ok l = true -> l <> 2 -> dec_cts (enc_arr l ++ body) = Err.
Proof. intros Hu H1. unfold dec_cts, adec_cts. rej_head. replace (l =? 2) with false by lia. reflexivity. Qed.

(* ================= C. no panic, bounded allocation, fuel ================= *)
Definition alloc_k : N := 136.
Definition alloc_c0 : N := 1048576.

(* [good k bs x]: reader [x] run on [bs] did not panic; when it succeeds its rest is no longer than
   [bs] and what it allocated is covered by the bytes it consumed ([k] per byte); when it fails,
   by the bytes of the input plus the one pre-allocation of at most 1 MiB that cboring may make
   for a string whose bytes are not there. *)
Definition good {A} (k : N) (bs : list N) (x : ares A) : Prop :=
  match x with
  | AOk _ r c => (length r <= length bs)%nat /\ c <= k * (nlen bs - nlen r)
  | AErr c => c <= k * nlen bs + alloc_c0
  | APanic _ => False
  end.
(* ... and a success consumed at least one byte *)
Definition sgood {A} (k : N) (bs : list N) (x : ares A) : Prop :=
  good k bs x /\ match x with AOk _ r _ => (length r < length bs)%nat | _ => True end.

(* the statement of C04 for one decoder run *)
Definition bounded {A} (k : N) (bs : list N) (x : ares A) : Prop :=
  is_panic x = false /\ cost_of x <= k * nlen bs + alloc_c0.

Lemma good_bounded {A} k bs (x : ares A) : good k bs x -> bounded k bs x.
Proof.
  destruct x as [a r c|c|c]; cbn [good]; intros H; [|split; [reflexivity|exact H]|contradiction].
  destruct H as [Hl Hc]. split; [reflexivity|]. cbn [cost_of].
  assert (k * (nlen bs - nlen r) <= k * nlen bs) by (apply N.mul_le_mono_l; lia). lia.
Qed.

Lemma good_mono {A} k k' bs (x : ares A) : k <= k' -> good k bs x -> good k' bs x.
Proof.
  intros Hk. destruct x as [a r c|c|c]; cbn [good]; [|intros H|tauto].
  - intros [Hl Hc]. split; [exact Hl|]. assert (k * (nlen bs - nlen r) <= k' * (nlen bs - nlen r)) by (apply N.mul_le_mono_r, Hk). lia.
  - assert (k * nlen bs <= k' * nlen bs) by (apply N.mul_le_mono_r, Hk). lia.
Qed.
Lemma sgood_good {A} k bs (x : ares A) : sgood k bs x -> good k bs x.
Proof. intros [H _]. exact H. Qed.
Lemma sgood_mono {A} k k' bs (x : ares A) : k <= k' -> sgood k bs x -> sgood k' bs x.
Proof. intros Hk [H1 H2]. split; [eapply good_mono; eauto|exact H2]. Qed.

Lemma good_ret {A} k bs (a : A) : good k bs (AOk a bs 0).
Proof. cbn. split; lia. Qed.
Lemma good_err0 {A} k bs : good k bs (@AErr A 0).
Proof. cbn. lia. Qed.

Lemma good_bind {A B} k bs (x : ares A) (f : A -> list N -> ares B) :
  good k bs x -> (forall a r c, x = AOk a r c -> good k r (f a r)) -> good k bs (abind x f).
Proof.
  destruct x as [a r c|c|c]; cbn [good abind]; intros H Hf; [|exact H|exact H].
  destruct H as [Hl Hc]. specialize (Hf a r c eq_refl).
  destruct (f a r) as [b r' c'|c'|c']; cbn [good addc] in *; [| |exact Hf].
  - destruct Hf as [Hl' Hc']. split; [lia|].
    replace (nlen bs - nlen r') with ((nlen bs - nlen r) + (nlen r - nlen r')) by (unfold nlen; lia).
    rewrite N.mul_add_distr_l. lia.
  - replace (nlen bs) with ((nlen bs - nlen r) + nlen r) by (unfold nlen; lia).
    rewrite N.mul_add_distr_l. lia.
Qed.

Lemma sgood_bind {A B} k bs (x : ares A) (f : A -> list N -> ares B) :
  sgood k bs x -> (forall a r c, x = AOk a r c -> good k r (f a r)) -> sgood k bs (abind x f).
Proof.
  intros [Hg Hs] Hf. split; [apply good_bind; assumption|].
  destruct x as [a r c|c|c]; cbn [abind]; try exact I.
  specialize (Hf a r c eq_refl). destruct (f a r) as [b r' c'|c'|c']; cbn [addc]; try exact I.
  cbn [good] in Hf. lia.
Qed.

Lemma bounded_bind {A B} k bs (x : ares A) (f : A -> list N -> ares B) :
  good k bs x -> (forall a r c, x = AOk a r c -> bounded k r (f a r)) -> bounded k bs (abind x f).
Proof.
  destruct x as [a r c|c|c]; cbn [good abind]; intros H Hf; [|split; [reflexivity|exact H]|contradiction].
  destruct H as [Hl Hc]. specialize (Hf a r c eq_refl). destruct Hf as [Hp Hb].
  split; [destruct (f a r); cbn in *; congruence|].
  assert (Hc2 : cost_of (addc c (f a r)) = c + cost_of (f a r)) by (destruct (f a r); reflexivity).
  rewrite Hc2. replace (nlen bs) with ((nlen bs - nlen r) + nlen r) by (unfold nlen; lia).
  rewrite N.mul_add_distr_l. lia.
Qed.

(* ---- the primitives ---- *)
Lemma read_head_shrinks bs mn r : read_head bs = Ok mn r -> (length r < length bs)%nat.
Proof.
  destruct bs as [|b bs]; [discriminate|]. cbn [read_head].
  destruct (b =? 159); [discriminate|]. destruct (b =? 255); [discriminate|].
  destruct (b mod 32 <? 24).
  - intros H. inversion H; subst. cbn. lia.
  - destruct (b mod 32 <? 28); [|discriminate]. unfold take_exact.
    destruct (Nat.leb _ (length bs)); [|discriminate]. intros H. inversion H; subst.
    rewrite skipn_length. cbn [length]. lia.
Qed.
Lemma read_expect_shrinks m bs n r : read_expect m bs = Ok n r -> (length r < length bs)%nat.
Proof.
  unfold read_expect. destruct (read_head bs) as [mn r0| |] eqn:E; cbn [bind]; try discriminate.
  destruct (fst mn =? m); [|discriminate]. intros H. inversion H; subst. eapply read_head_shrinks, E.
Qed.
Lemma read_bool_shrinks bs b r : read_bool bs = Ok b r -> (length r < length bs)%nat.
Proof.
  destruct bs as [|x bs]; [discriminate|]. cbn [read_bool].
  destruct (x =? 245); [|destruct (x =? 244); [|discriminate]]; intros H; inversion H; subst; cbn; lia.
Qed.
Lemma read_raw_len n bs d r : read_raw n bs = Ok d r -> nlen bs = n + nlen r /\ n <= max_raw.
Proof.
  unfold read_raw. destruct (max_raw <? n) eqn:E1; [discriminate|]. destruct (nlen bs <? n) eqn:E2; [discriminate|].
  intros H. inversion H; subst. unfold nlen in *. rewrite skipn_length. lia.
Qed.

Lemma sgood_lift0 {A} k bs (x : res A) :
  (forall a r, x = Ok a r -> (length r < length bs)%nat) -> sgood k bs (a_lift x 0).
Proof.
  intros H. destruct x as [a r| |]; cbn [a_lift]; [|split; [apply good_err0|exact I]..].
  specialize (H a r eq_refl). split; [|exact H]. cbn [good]. split; [lia|apply N.le_0_l].
Qed.
Lemma sgood_uint k bs : sgood k bs (a_read_uint bs).
Proof. apply sgood_lift0. intros a r. apply read_expect_shrinks. Qed.
Lemma sgood_arr k bs : sgood k bs (a_read_arr bs).
Proof. apply sgood_lift0. intros a r. apply read_expect_shrinks. Qed.
Lemma sgood_bool k bs : sgood k bs (a_read_bool bs).
Proof. apply sgood_lift0. intros a r. apply read_bool_shrinks. Qed.

Lemma raw_cost_any n bs : raw_cost n bs <= 4 * nlen bs + alloc_c0.
Proof.
  unfold raw_cost, raw_prealloc_max, alloc_c0. destruct (max_raw <? n); [lia|].
  destruct (n <=? 1048576) eqn:E; lia.
Qed.
Lemma raw_cost_ok n bs d r : read_raw n bs = Ok d r -> raw_cost n bs <= 4 * n.
Proof.
  intros H. apply read_raw_len in H. unfold raw_cost, raw_prealloc_max. destruct (max_raw <? n); [lia|].
  destruct (n <=? 1048576); lia.
Qed.

Lemma sgood_str m copy k bs : 8 <= k ->
  sgood k bs (a_lift (bind (read_expect m bs) read_raw) (str_cost m copy bs)).
Proof.
  intros Hk. apply (sgood_mono 8); [exact Hk|]. unfold str_cost.
  destruct (read_expect m bs) as [n r0| |] eqn:E; cbn [bind a_lift]; [|split; [apply good_err0|exact I]..].
  apply read_expect_shrinks in E. pose proof (raw_cost_any n r0) as Hany.
  destruct (read_raw n r0) as [d r1| |] eqn:E2; cbn [a_lift].
  - pose proof (raw_cost_ok _ _ _ _ E2) as Hok. apply read_raw_len in E2. destruct E2 as [E2 _].
    unfold sgood, good, nlen in *. destruct copy; split; try split; lia.
  - unfold sgood, good, nlen, alloc_c0 in *. destruct copy; split; try exact I; lia.
  - unfold sgood, good, nlen, alloc_c0 in *. destruct copy; split; try exact I; lia.
Qed.
Lemma sgood_tstr k bs : 8 <= k -> sgood k bs (a_read_tstr bs).
Proof. apply sgood_str. Qed.
Lemma sgood_bstr k bs : 8 <= k -> sgood k bs (a_read_bstr bs).
Proof. apply sgood_str. Qed.

Lemma sgood_eid k bs : 8 <= k -> sgood k bs (a_dec_eid bs).
Proof.
  intros Hk. apply (sgood_mono 8); [exact Hk|]. unfold a_dec_eid, dec_eid, eid_cost.
  destruct (read_arr bs) as [l r1| |] eqn:E1; cbn [bind a_lift]; [|split; [apply good_err0|exact I]..].
  apply read_expect_shrinks in E1.
  destruct (negb (l =? 2)); [split; [apply good_err0|exact I]|].
  destruct (read_uint r1) as [scheme r2| |] eqn:E2; cbn [bind a_lift]; [|split; [apply good_err0|exact I]..].
  apply read_expect_shrinks in E2.
  destruct (scheme =? 1).
  - destruct (read_head r2) as [[m n] r3| |] eqn:E3; cbn [bind a_lift]; [|split; [apply good_err0|exact I]..].
    apply read_head_shrinks in E3.
    destruct (m =? mUInt); [cbn [a_lift]; unfold sgood, good, nlen; split; [split|]; lia|].
    destruct (m =? mText); [|split; [apply good_err0|exact I]].
    pose proof (raw_cost_any n r3) as Hany.
    destruct (read_raw n r3) as [ssp r4| |] eqn:E4; cbn [bind a_lift].
    + pose proof (raw_cost_ok _ _ _ _ E4) as Hok. apply read_raw_len in E4. destruct E4 as [E4 _].
      destruct (bytes_eqb ssp str_none); [cbn [a_lift]; unfold sgood, good, nlen, alloc_c0 in *; split; [lia|exact I]|].
      destruct (parse_ssp ssp) as [[nd dm]|]; cbn [a_lift]; unfold sgood, good, nlen, alloc_c0 in *.
      * split; [split|]; lia.
      * split; [lia|exact I].
    + unfold sgood, good, nlen, alloc_c0 in *. split; [lia|exact I].
    + unfold sgood, good, nlen, alloc_c0 in *. split; [lia|exact I].
  - destruct (scheme =? 2); [|split; [apply good_err0|exact I]].
    destruct (read_arr r2) as [l2 r3| |] eqn:E3; cbn [bind a_lift]; [|split; [apply good_err0|exact I]..].
    apply read_expect_shrinks in E3.
    destruct (negb (l2 =? 2)); [split; [apply good_err0|exact I]|].
    destruct (read_uint r3) as [n r4| |] eqn:E4; cbn [bind a_lift]; [|split; [apply good_err0|exact I]..].
    apply read_expect_shrinks in E4.
    destruct (read_uint r4) as [sv r5| |] eqn:E5; cbn [bind a_lift]; [|split; [apply good_err0|exact I]..].
    apply read_expect_shrinks in E5.
    unfold sgood, good, nlen. split; [split|]; lia.
Qed.

(* one step of a goodness proof *)
Ltac gprim :=
  first [ apply sgood_good, sgood_uint | apply sgood_good, sgood_arr | apply sgood_good, sgood_bool
        | apply sgood_good, sgood_tstr; (assumption || lia) | apply sgood_good, sgood_bstr; (assumption || lia)
        | apply sgood_good, sgood_eid; (assumption || lia) ].
Ltac gstep :=
  first [ apply good_ret | apply good_err0
        | apply good_bind; [ solve [gprim] | intros ? ? ? _ ]
        | match goal with |- good _ _ (if ?c then _ else _) => destruct c end ].

Lemma good_cts k bs : good k bs (adec_cts bs).
Proof. unfold adec_cts. repeat gstep. Qed.

Lemma good_bid k frag bs : 8 <= k -> good k bs (adec_bid frag bs).
Proof.
  intros Hk. unfold adec_bid. gstep. apply good_bind; [apply good_cts|intros ts r0 c0 _].
  destruct frag; repeat gstep.
Qed.

Lemma sgood_sitem k bs : sgood k bs (adec_sitem bs).
Proof. unfold adec_sitem. apply sgood_bind; [apply sgood_arr|intros l r c _]. repeat gstep. Qed.

Lemma sgood_ann k bs : 8 <= k -> sgood k bs (adec_ann bs).
Proof. intros Hk. unfold adec_ann. apply sgood_bind; [apply sgood_arr|intros l r c _]. repeat gstep. Qed.

(* ---- the item loop ---- *)
Lemma good_arepeat {A} (item : list N -> ares A) per k :
  (forall bs, sgood k bs (item bs)) -> forall fuel n bs, good (k + per) bs (arepeat item per fuel n bs).
Proof.
  intros Hitem. induction fuel as [|fuel IH]; intros n bs; cbn [arepeat]; (destruct (n =? 0); [apply good_ret|]).
  - apply good_err0.
  - destruct (Hitem bs) as [Hg Hs]. destruct (item bs) as [it r c|c|c]; cbn [abind].
    + cbn [good] in Hg. destruct Hg as [_ Hc].
      specialize (IH (n - 1) r). destruct (arepeat item per fuel (n - 1) r) as [its r' c'|c'|c']; cbn [addc abind good] in *.
      * destruct IH as [Hl' Hc']. split; [lia|].
        set (d1 := nlen bs - nlen r) in *. set (d2 := nlen r - nlen r') in *.
        assert (Hd : nlen bs - nlen r' = d1 + d2) by (unfold d1, d2, nlen; lia). rewrite Hd.
        assert (H1 : 1 <= d1) by (unfold d1, nlen; lia).
        assert (Hp : per <= per * d1) by (rewrite <- (N.mul_1_r per) at 1; apply N.mul_le_mono_l, H1).
        rewrite !N.mul_add_distr_l, !N.mul_add_distr_r in *. lia.
      * set (d1 := nlen bs - nlen r) in *.
        assert (Hd : nlen bs = d1 + nlen r) by (unfold d1, nlen; lia). rewrite Hd.
        assert (H1 : 1 <= d1) by (unfold d1, nlen; lia).
        assert (Hp : per <= per * d1) by (rewrite <- (N.mul_1_r per) at 1; apply N.mul_le_mono_l, H1).
        rewrite !N.mul_add_distr_l, !N.mul_add_distr_r in *. lia.
      * exact IH.
    + eapply good_mono; [|exact Hg]. lia.
    + exact Hg.
Qed.

(* more fuel than bytes never changes the result: the fuel is not what stops the loop *)
Lemma arepeat_fuel {A} (item : list N -> ares A) per k :
  (forall bs, sgood k bs (item bs)) ->
  forall fuel n bs, (length bs < fuel)%nat -> arepeat item per fuel n bs = arepeat item per (S fuel) n bs.
Proof.
  intros Hitem. induction fuel as [|fuel IH]; intros n bs Hf; [lia|].
  cbn [arepeat]. destruct (n =? 0); [reflexivity|].
  destruct (Hitem bs) as [_ Hs]. destruct (item bs) as [it r c|c|c]; cbn [abind]; try reflexivity.
  rewrite (IH (n - 1) r) by lia. reflexivity.
Qed.

Lemma good_addc0 {A} k bs (y : ares A) : good k bs y -> good k bs (addc 0 y).
Proof. destruct y; cbn [addc]; rewrite ?N.add_0_l; exact (fun h => h). Qed.

(* ---- status report, administrative record, announcements (the code after the fixes) ---- *)
Lemma good_sreport bs : good 104 bs (adec_sreport true bs).
Proof.
  unfold adec_sreport.
  apply good_bind; [gprim|intros l r0 c0 _]. destruct (negb ((l =? 4) || (l =? 6))); [apply good_err0|].
  apply good_bind; [gprim|intros n r1 c1 _]. cbn [abind]. apply good_addc0.
  apply good_bind; [apply (good_arepeat adec_sitem sitem_per 8), sgood_sitem|intros items r2 c2 _].
  apply good_bind; [gprim|intros reason r3 c3 _]. cbn [andb]. destruct (max_reason <? reason); [apply good_err0|].
  apply good_bind; [apply good_bid; lia|intros ref r4 c4 _]. apply good_ret.
Qed.

Lemma good_admrec bs : good 104 bs (adec_admrec true bs).
Proof.
  unfold adec_admrec.
  apply good_bind; [gprim|intros l r0 c0 _]. destruct (negb (l =? 2)); [apply good_err0|].
  apply good_bind; [gprim|intros tc r1 c1 _]. destruct (tc =? ar_type_status); [|apply good_err0].
  apply good_bind; [apply good_sreport|intros s r2 c2 _]. apply good_ret.
Qed.

Lemma good_anns bs : good 136 bs (adec_anns true bs).
Proof.
  unfold adec_anns.
  apply good_bind; [gprim|intros n r0 c0 _]. cbn [abind]. apply good_addc0.
  apply (good_arepeat adec_ann ann_per 8). intros bs'. apply sgood_ann. lia.
Qed.

(* ---- WebSocket-agent messages: wrapper and the four text / byte-string bodies; the bundle body
   is handed to the bundle decoder, whose account is outside this file (it adds nothing here) ---- *)
Lemma bounded_wam now bs : bounded 136 bs (adec_wam now bs).
Proof.
  unfold adec_wam.
  apply bounded_bind; [apply sgood_good, sgood_arr|intros l r c _].
  destruct (negb (l =? 2)); [apply good_bounded, good_err0|].
  apply bounded_bind; [apply sgood_good, sgood_uint|intros tc r0 c0 _].
  destruct (tc =? 0); [apply good_bounded; repeat gstep|].
  destruct (tc =? 1); [apply good_bounded; repeat gstep|].
  destruct (tc =? 2).
  - unfold a_dec_bundle. destruct (dec_bundle now r0) as [[b r1]|]; cbn [abind addc]; split; try reflexivity; cbn [cost_of]; lia.
  - destruct (tc =? 3); [apply good_bounded; repeat gstep|].
    destruct (tc =? 4); [apply good_bounded; repeat gstep|apply good_bounded, good_err0].
Qed.

(* ---- every decoder of this file, by kind ---- *)
Lemma to_res_amap {A B} (f : A -> B) (x : ares A) : to_res (amap f x) = rmap f (to_res x).
Proof. destruct x; reflexivity. Qed.
Lemma to_res_lift {A} (x : res A) c : to_res (a_lift x c) = nobrk x.
Proof. destruct x; reflexivity. Qed.

(* the plain decoders are the instrumented ones with the account dropped *)
Lemma adec_aux_dec now k bs : to_res (adec_aux true now k bs) = dec_aux now k bs.
Proof. destruct k; cbn [adec_aux dec_aux]; rewrite to_res_amap; try reflexivity. unfold a_dec_eid. rewrite to_res_lift. reflexivity. Qed.

Lemma bounded_amap {A B} (f : A -> B) k bs (x : ares A) : bounded k bs x -> bounded k bs (amap f x).
Proof. destruct x; exact (fun h => h). Qed.
Lemma bounded_mono {A} k k' bs (x : ares A) : k <= k' -> bounded k bs x -> bounded k' bs x.
Proof.
  intros Hk [Hp Hc]. split; [exact Hp|]. assert (k * nlen bs <= k' * nlen bs) by (apply N.mul_le_mono_r, Hk). lia.
Qed.

(* C04 for the decoders of this file: whatever the bytes, no panic, and the wire-sized allocations
   stay within 136 bytes per byte of input plus 1 MiB *)
Theorem adec_aux_bounded now k bs : bounded alloc_k bs (adec_aux true now k bs).
Proof.
  unfold alloc_k. destruct k; cbn [adec_aux]; apply bounded_amap.
  - apply good_bounded, good_cts.
  - apply good_bounded, sgood_good, sgood_eid. lia.
  - apply good_bounded, good_bid. lia.
  - apply good_bounded, sgood_good, sgood_sitem.
  - apply (bounded_mono 104); [lia|]. apply good_bounded, good_sreport.
  - apply (bounded_mono 104); [lia|]. apply good_bounded, good_admrec.
  - apply good_bounded, sgood_good, sgood_ann. lia.
  - apply good_bounded, good_anns.
  - apply bounded_wam.
Qed.

(* the loops of the two counted formats are not stopped by their fuel *)
Theorem sitems_fuel extra n bs :
  arepeat adec_sitem sitem_per (S (length bs) + extra) n bs = arepeat adec_sitem sitem_per (S (length bs)) n bs.
Proof.
  induction extra as [|e IH]; [rewrite Nat.add_0_r; reflexivity|].
  rewrite Nat.add_succ_r. rewrite <- (arepeat_fuel adec_sitem sitem_per 8 (fun b => sgood_sitem 8 b)) by lia. exact IH.
Qed.
Theorem anns_fuel extra n bs :
  arepeat adec_ann ann_per (S (length bs) + extra) n bs = arepeat adec_ann ann_per (S (length bs)) n bs.
Proof.
  induction extra as [|e IH]; [rewrite Nat.add_0_r; reflexivity|].
  rewrite Nat.add_succ_r. rewrite <- (arepeat_fuel adec_ann ann_per 8 (fun b => sgood_ann 8 b (N.le_refl 8))) by lia. exact IH.
Qed.

(* ---- the code as found (fixed = false) violates each clause; the witnesses are the replays ---- *)
Definition killer_admrec_oom : list N := [130; 1; 132; 154; 255; 255; 255; 255].
Definition killer_admrec_panic : list N := [130; 1; 132; 155; 255; 255; 255; 255; 255; 255; 255; 255].
Definition killer_anns_oom : list N := [154; 255; 255; 255; 255].
Definition killer_anns_panic : list N := [155; 255; 255; 255; 255; 255; 255; 255; 255].

Lemma unfixed_admrec_alloc : cost_of (adec_admrec false killer_admrec_oom) = 103079215080.
Proof. vm_compute. reflexivity. Qed.
Lemma unfixed_admrec_panic : is_panic (adec_admrec false killer_admrec_panic) = true.
Proof. vm_compute. reflexivity. Qed.
Lemma unfixed_anns_alloc : cost_of (adec_anns false killer_anns_oom) = 137438953440.
Proof. vm_compute. reflexivity. Qed.
Lemma unfixed_anns_panic : is_panic (adec_anns false killer_anns_panic) = true.
Proof. vm_compute. reflexivity. Qed.

Theorem unfixed_not_bounded :
  (exists bs, (length bs <= 12)%nat /\ ~ bounded alloc_k bs (adec_admrec false bs)) /\
  (exists bs, (length bs <= 12)%nat /\ is_panic (adec_admrec false bs) = true) /\
  (exists bs, (length bs <= 9)%nat /\ ~ bounded alloc_k bs (adec_anns false bs)) /\
  (exists bs, (length bs <= 9)%nat /\ is_panic (adec_anns false bs) = true).
Proof.
  split; [|split; [|split]].
  - exists killer_admrec_oom. split; [cbn; lia|]. intros [_ H]. rewrite unfixed_admrec_alloc in H. vm_compute in H. apply H. reflexivity.
  - exists killer_admrec_panic. split; [cbn; lia|apply unfixed_admrec_panic].
  - exists killer_anns_oom. split; [cbn; lia|]. intros [_ H]. rewrite unfixed_anns_alloc in H. vm_compute in H. apply H. reflexivity.
  - exists killer_anns_panic. split; [cbn; lia|apply unfixed_anns_panic].
Qed.

(* a status report with reason code 12, otherwise in order: accepted by the code as found, rejected after the fix *)
Definition sreport_reason12 : list N := [132; 132; 129; 245; 129; 244; 129; 244; 129; 244; 12; 130; 2; 130; 1; 1; 130; 0; 0].
Theorem unfixed_reason_accepted :
  (exists s r, to_res (adec_sreport false sreport_reason12) = Ok s r /\ max_reason < sr_reason s) /\
  dec_sreport sreport_reason12 = Err.
Proof. split; [eexists; eexists; split; [vm_compute; reflexivity|vm_compute; reflexivity]|vm_compute; reflexivity]. Qed.
