(* C08 - the sbundle store behaves like a durable map and survives restarts and crashes.
   Only theorem statements closed by [exact <lemma>] and Print Assumptions.

   Model: Model/Store.v (index x part files, every operation a list of atomic micro-steps).
   Everywhere below
     dec   : the sbundle parser applied to a part file,
     live  : "the sbundle's own lifetime is not exceeded now" (ParseBundle ends with CheckValid, which
             refuses such a sbundle: its part is stored but Load returns an error),
     valid : the bundles that are pushed (fields consistent with their serialisation),
   and the one hypothesis about them is that the serialisation is a prefix code:
     dec (b_bytes b ++ tail) = view live b      (= Some b when live).
   It is satisfiable ([C08_decoder_hypothesis_satisfiable]). *)
From DTN Require Import Base Store StoreProofs ConstsOkStore.
Open Scope N_scope.

(* ---- 1. refinement: after ANY history the store is the reference map, answers included ---- *)
(* [run] executes the micro-step model (close+reopen = identity on index and files), [spec_run] the
   in-memory reference map; [abs] is what QueryId + Load show.  Holds from every well-formed state,
   in particular from the empty store and from every state a crash leaves behind (theorem 3). *)
Theorem C08_refines_map :
  forall (dec : list N -> option sbundle) (live : sbundle -> bool) (valid : sbundle -> Prop),
    (forall b tail, valid b -> dec (b_bytes b ++ tail) = view live b) ->
    forall ops c, wf c -> Forall (valid_op valid) ops ->
      abs dec (fst (run dec c ops)) = fst (spec_run live (abs dec c) ops)
      /\ snd (run dec c ops) = snd (spec_run live (abs dec c) ops)
      /\ wf (fst (run dec c ops)).
Proof. intros dec live valid H ops c. exact (run_refines dec live valid H ops c). Qed.
Print Assumptions C08_refines_map.

(* one complete operation: commutes with the abstraction, answers as the reference map *)
Theorem C08_op_commutes :
  forall (dec : list N -> option sbundle) (live : sbundle -> bool) (valid : sbundle -> Prop),
    (forall b tail, valid b -> dec (b_bytes b ++ tail) = view live b) ->
    forall c o, wf c -> valid_op valid o ->
      abs dec (apply_op c o) = spec_apply live (abs dec c) o
      /\ op_result dec c o = spec_result (abs dec c) o
      /\ wf (apply_op c o).
Proof. exact op_commutes. Qed.
Print Assumptions C08_op_commutes.

Theorem C08_empty_store_wf : wf store_init /\ forall dec, abs dec store_init = [].
Proof. split; [exact wf_init | reflexivity]. Qed.
Print Assumptions C08_empty_store_wf.

(* ---- 2. the reference map is a map with the store's push policy ---- *)
(* lookup returns exactly the records inserted and not since deleted or expired *)
Theorem C08_map_laws : forall live (a : list (N * arec)), NoDup (map fst a) ->
  (forall o, NoDup (map fst (spec_apply live a o)))
  /\ (forall b k, k <> b_id b -> ilookup k (spec_apply live a (OPush b)) = ilookup k a)
  /\ (forall b, ilookup (b_id b) (spec_apply live a (OPush b)) <> None)
  /\ (forall k, ilookup k (spec_apply live a (ODelete k)) = None)
  /\ (forall k k', k <> k' -> ilookup k' (spec_apply live a (ODelete k)) = ilookup k' a)
  /\ (forall now k, ilookup k (spec_apply live a (OSweep now)) =
        match ilookup k a with Some r => if (a_exp r <? now)%Z then None else Some r | None => None end)
  /\ (forall k pe pr ex k', ilookup k' (spec_apply live a (OUpdate k pe pr ex)) =
        if k' =? k then option_map (fun r => mkA pe ex (a_frag r) pr (a_parts r)) (ilookup k a) else ilookup k' a)
  /\ (forall k, spec_apply live a (OQueryId k) = a /\ spec_apply live a OQueryPending = a
                /\ spec_apply live a (OKnows k) = a /\ spec_apply live a (OComplete k) = a /\ spec_apply live a OReopen = a).
Proof.
  intros live a Hn. repeat split.
  - intros o. apply spec_nodup; exact Hn.
  - intros b k. apply spec_push_other.
  - intros b. apply spec_push_present.
  - intros k. apply spec_delete_gone.
  - intros k k'. apply spec_delete_other.
  - intros now k. apply spec_sweep_lookup; exact Hn.
  - intros k pe pr ex k'. apply spec_update_lookup.
Qed.
Print Assumptions C08_map_laws.

(* the pending query returns exactly the records flagged pending *)
Theorem C08_pending_exact : forall (a : list (N * arec)) k r, NoDup (map fst a) ->
  (In (k, r) (filter (fun kr => a_pending (snd kr)) a) <-> ilookup k a = Some r /\ a_pending r = true).
Proof. exact spec_pending_exact. Qed.
Print Assumptions C08_pending_exact.

(* every part of every record, after any history from the empty store, is a sbundle that was pushed
   under that ID, filed under its (offset, total), reads back as exactly that sbundle (when its
   lifetime is not over), and each distinct (offset, total) is recorded once; no record is empty *)
Theorem C08_readback_and_fragments_once : forall live ops,
  let a := fst (spec_run live [] ops) in
  NoDup (map fst a)
  /\ forall k r, ilookup k a = Some r ->
       a_parts r <> []
       /\ NoDup (map afrag_key (a_parts r))
       /\ forall p, In p (a_parts r) ->
            exists b, In (OPush b) ops /\ b_id b = k /\ ap_off p = b_off b /\ ap_total p = b_total b
                      /\ ap_data p = view live b /\ b_frag b = a_frag r.
Proof.
  intros live ops a.
  destruct (sinv_run live ops (fun _ => False) [] (NoDup_nil _)) as [H1 H2].
  - intros k r [].
  - split; [exact H2|]. intros k r Hl. apply il_Some_in in Hl. destruct (H1 k r Hl) as (A & B & C).
    split; [exact A|]. split; [exact B|]. intros p Hp. destruct (C p Hp) as [b (Hb & Hr)]. exists b.
    destruct Hb as [[]|Hb]. split; [exact Hb | exact Hr].
Qed.
Print Assumptions C08_readback_and_fragments_once.

(* fragments of one sbundle are collected in the one record of its ID: a pushed fragment is there *)
Theorem C08_fragment_recorded : forall live a b,
  exists r, ilookup (b_id b) (spec_apply live a (OPush b)) = Some r
    /\ (b_frag b = true -> a_frag r = true -> existsb (same_afrag b) (a_parts r) = true).
Proof. exact spec_push_fragment_recorded. Qed.
Print Assumptions C08_fragment_recorded.

(* IsComplete: true for an unfragmented record; for a fragmented one whose parts all read back as
   fragments of one sbundle (same total, inside it): true exactly when every position below the total
   lies in some part; false when a part does not read back *)
Theorem C08_complete_iff_cover : forall r bs t,
  a_frag r = true -> all_data (a_parts r) = Some bs -> bs <> [] -> Forall (frag_of t) bs ->
  (arec_complete r = true <-> forall x, x < t -> covered bs x).
Proof. exact arec_complete_iff. Qed.
Print Assumptions C08_complete_iff_cover.
Theorem C08_complete_other_cases : forall r,
  (a_frag r = false -> arec_complete r = true)
  /\ (a_frag r = true -> all_data (a_parts r) = None -> arec_complete r = false).
Proof. intros r. split; [apply arec_complete_whole | apply arec_complete_unreadable]. Qed.
Print Assumptions C08_complete_other_cases.

(* ---- 3. crash safety: the process is killed after ANY prefix of an operation's micro-steps ---- *)
(* the state found at restart is a well-formed store (so theorem 1 applies to everything that
   happens afterwards), checkPendingBundles does not reach the panic in BundleDescriptor.Bundle, and
   either nothing observable changed, or the operation is complete, or - delete / expiry sweep only -
   some part files of the records operated on are gone and some of those records are deleted *)
Theorem C08_crash_safe : forall dec c o n, wf c ->
  let c' := crash_state c o n in
  wf c' /\ check_pending_outcome dec c' = Finished
  /\ (abs dec c' = abs dec c \/ c' = apply_op c o \/ (is_removal o /\ crash_rel (op_targets c o) c c')).
Proof. exact crash_safe. Qed.
Print Assumptions C08_crash_safe.

(* ... which a reader sees as: every record not operated on is unchanged and reads back as before; a
   record operated on is gone or still indexed with its metadata, each part reading back as before
   or not at all *)
Theorem C08_crash_observable : forall dec T c c', wf c -> crash_rel T c c' ->
  (forall k, ~ T k -> ilookup k (abs dec c') = ilookup k (abs dec c))
  /\ (forall k r', ilookup k (abs dec c') = Some r' -> exists r, ilookup k (abs dec c) = Some r /\ degraded_rec r' r).
Proof. exact crash_rel_observable. Qed.
Print Assumptions C08_crash_observable.

(* after the restart every further operation (Push of the same sbundle, Delete, DeleteExpired, ...)
   behaves as on the reference map started from what the reader sees, never reaches the panic, and
   Delete / an expiry sweep remove a half-deleted record *)
Theorem C08_crash_recovery :
  forall (dec : list N -> option sbundle) (live : sbundle -> bool) (valid : sbundle -> Prop),
    (forall b tail, valid b -> dec (b_bytes b ++ tail) = view live b) ->
    forall c o n, wf c ->
      let c' := crash_state c o n in
      (forall o', valid_op valid o' ->
         abs dec (apply_op c' o') = spec_apply live (abs dec c') o'
         /\ wf (apply_op c' o')
         /\ check_pending_outcome dec (apply_op c' o') = Finished)
      /\ (forall k, ilookup k (abs dec (apply_op c' (ODelete k))) = None)
      /\ (forall now k, ilookup k (abs dec (apply_op c' (OSweep now))) =
             match ilookup k (abs dec c') with Some r => if (a_exp r <? now)%Z then None else Some r | None => None end).
Proof. exact crash_recovery. Qed.
Print Assumptions C08_crash_recovery.

(* ---- 4. two concurrent pushes of fragments of one sbundle, under the store mutex ---- *)
(* for EVERY schedule of the micro-steps of the two Push calls that lets both finish, both parts are
   recorded, the result is one of the two sequential orders, other records are untouched *)
Theorem C08_concurrent_fragments : forall c0 ba bb sched,
  b_id ba = b_id bb -> b_frag ba = true -> b_frag bb = true -> frag_slot_ok c0 ba ->
  let cf := run_sched true ba bb (mkConf c0 TInit TInit) sched in
  cf_a cf = TDone -> cf_b cf = TDone ->
  has_part (cf_st cf) ba = true /\ has_part (cf_st cf) bb = true
  /\ (cf_st cf = push (push c0 ba) bb \/ cf_st cf = push (push c0 bb) ba)
  /\ (forall k, k <> b_id ba -> ilookup k (c_idx (cf_st cf)) = ilookup k (c_idx c0)).
Proof. exact concurrent_fragments. Qed.
Print Assumptions C08_concurrent_fragments.

(* the code before the repair (Push without the mutex): a schedule that loses a fragment *)
Theorem C08_concurrent_fragments_unlocked_refuted :
  exists c0 ba bb sched,
    b_id ba = b_id bb /\ b_frag ba = true /\ b_frag bb = true /\ frag_slot_ok c0 ba /\
    let cf := run_sched false ba bb (mkConf c0 TInit TInit) sched in
    cf_a cf = TDone /\ cf_b cf = TDone /\ has_part (cf_st cf) bb = false.
Proof.
  exists store_init, (toy_frag 0 5), (toy_frag 5 5), [true; false; true; true; true; false; false; false].
  vm_compute. repeat split.
Qed.
Print Assumptions C08_concurrent_fragments_unlocked_refuted.

(* the gap scan before the repair (lastIndex = offset + length instead of the maximum) reports a
   covering set as incomplete *)
Theorem C08_complete_orig_scan_refuted :
  exists bs, Forall (frag_of 10) bs /\ (forall x, x < 10 -> covered bs x) /\ reassemblable_orig bs = false.
Proof.
  exists [toy_frag 0 8; toy_frag 2 2; toy_frag 8 2].
  destruct complete_orig_refuted as (H1 & H2 & H3). split; [exact H3|]. split; [|exact H1].
  assert (Hne : [toy_frag 0 8; toy_frag 2 2; toy_frag 8 2] <> []) by discriminate.
  apply (proj1 (reassemblable_iff_cover _ 10 Hne H3)). exact H2.
Qed.
Print Assumptions C08_complete_orig_scan_refuted.

(* ---- non-vacuity ---- *)
Theorem C08_decoder_hypothesis_satisfiable :
  exists (dec : list N -> option sbundle) (live : sbundle -> bool) (valid : sbundle -> Prop),
    (forall b tail, valid b -> dec (b_bytes b ++ tail) = view live b)
                         /\ exists b : sbundle, valid b /\ live b = true.
Proof.
  exists toy_dec, (fun _ => true), toy_valid. split; [exact toy_dec_ok|].
  exists (mkB 1 false 0 0 3 7000 [1; 0; 0; 0; 3; 7000]). split; [split; [reflexivity | discriminate] | reflexivity].
Qed.
Print Assumptions C08_decoder_hypothesis_satisfiable.

(* a rewrite over a longer orphan file keeps a stale tail and still reads back exactly *)
Example C08_stale_tail_example :
  let b := mkB 1 false 0 0 3 7000 [1; 0; 0; 0; 3; 7000] in
  let c0 := mkC [] [(bundle_name b, [1; 0; 0; 0; 9; 7000; 42; 42; 42])] in
  let c1 := apply_op c0 (OPush b) in
  flookup (bundle_name b) (c_files c1) = Some [1; 0; 0; 0; 3; 7000; 42; 42; 42]
  /\ abs toy_dec c1 = [(1, mkA false 7000 false 0 [mkAP 0 0 (Some b)])].
Proof. exact stale_tail_example. Qed.

(* killed inside Delete after the file removal: the entry is still indexed and pending, its part does
   not load; Bundle() is an error value, checkPendingBundles finishes (a MustBundle there would
   panic), the expiry sweep removes the entry *)
Example C08_crash_delete_example :
  let b := mkB 1 false 0 0 3 7000 [1; 0; 0; 0; 3; 7000] in
  let c0 := apply_op (apply_op store_init (OPush b)) (OUpdate 1 true 5 7000) in
  let c1 := crash_state c0 (ODelete 1) 1 in
  abs toy_dec c1 = [(1, mkA true 7000 false 5 [mkAP 0 0 None])]
  /\ descriptor_bundle toy_dec c1 1 = BErr
  /\ check_pending_outcome toy_dec c1 = Finished
  /\ must_bundle_outcome toy_dec c1 1 = Panicked
  /\ abs toy_dec (apply_op c1 (OSweep 8000)) = [].
Proof. exact crash_delete_example. Qed.

(* fragments pushed in any order end up in one record, which is complete exactly at the end *)
Example C08_fragments_example :
  let f1 := mkB 1 true 0 10 4 7000 [1; 1; 0; 10; 4; 7000] in
  let f2 := mkB 1 true 4 10 6 7000 [1; 1; 4; 10; 6; 7000] in
  snd (run toy_dec store_init [OPush f2; OComplete 1; OPush f1; OPush f2; OComplete 1; OKnows 1; OQueryPending])
  = [RUnit true; ROptBool (Some false); RUnit true; RUnit true; ROptBool (Some true); RBool true; RRecs []].
Proof. vm_compute. reflexivity. Qed.
