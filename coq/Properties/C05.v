(* C05 - store-carry-forward: an accepted bundle is never silently lost.
   Only theorem statements closed by [exact <lemma>] and Print Assumptions.

   Model (Model/Scf.v): [scf_step alg k s e o] - one event [e] of the routing Core in state [s] (store
   items + connected peers) with the oracle [o] = the clock and, per bundle, the peers that were handed
   the bundle with the outcome of every send; [None] = the model does not allow that observation.
   [alg] says whether DispatchingAllowed / SenderForBundle are the epidemic ones ([scf_epidemic]: exactly
   the connected peers not in the `sent` list; otherwise any duplicate-free subset of the connected
   peers is allowed, so the statements hold whatever spray / binary_spray / prophet / dtlsr / sensor-mule
   select).  [k] is the factor UpdateBundleAge applies to the milliseconds a bundle spent in the store.
   Every statement is for every algorithm, every k, every history and every oracle.

   Vocabulary (Proofs/ScfProofs.v):
   [scf_accepts s e b] - [e] is Submit of [b] with a local (or dtn:none) source, or Receive of [b], and
      [b]'s ID is not in the store of [s];
   [scf_alive k b rx now] - at time [now] >= [rx] the lifetime of [b], accepted at [rx], has not ended:
      neither by creation time + lifetime, nor (bundle age block) by age + k * (now - rx) >= lifetime, nor
      by the store's expiry instant (for a zero creation time: rx + lifetime - age);
   [scf_same_id_same_bundle b e] - bundle IDs are distinct: if [e] is the reception of a bundle with the
      ID of [b], that bundle is [b]   (and a Submit whose ID is already stored is not a step of the model:
      the IdKeeper is C14's);
   [scf_ev_ok k b rx (e, o)] - [scf_alive k b rx (or_now o)] and [scf_same_id_same_bundle b e];
   [scf_carried alg k pre e o post b s outs] - the history [pre ++ (e,o) :: post] runs from the empty node
      to state [s]; [e] accepts [b]; [b] is for another node, its hop limit is not exceeded, it carries no
      unknown block demanding deletion, [scf_ev_ok] at every event from [e] on; [outs] = the sends from [e] on;
   [scf_no_ok b outs] - no send of [b] in [outs] succeeded;
   [scf_retained s b] - the store of [s] holds an item with exactly [b] and Pending = true. *)
From DTN Require Import Base Scf ScfProofs ConstsOkScf.
Local Open Scope N_scope.

(* An accepted bundle, not expired, not refused for cause, of which no transmission succeeded yet, is in
   the store and marked for retry after every event that followed its acceptance - written out in full. *)
Theorem C05_retained : forall alg k pre e o post b s1 o1 s2 o2 s3 o3,
  scf_run alg k scf_init pre = Some (s1, o1) ->
  scf_step alg k s1 e o = Some (s2, o2) ->
  scf_run alg k s2 post = Some (s3, o3) ->
  scf_find_item (sb_id b) (ss_items s1) = None ->
  ((e = SeSubmit b /\ sb_local b = true) \/ (exists from, e = SeReceive b from)) ->
  sb_dst b <> 0 -> scf_hop_exceeded b = false -> sb_del b = false ->
  Forall (fun eo => scf_alive k b (or_now o) (or_now (snd eo)) /\ scf_same_id_same_bundle b (fst eo))
         ((e, o) :: post) ->
  (forall p, ~ In (ScfSent p (sb_id b) true) (o2 ++ o3)) ->
  exists it, In it (ss_items s3) /\ si_b it = b /\ si_pending it = true.
Proof.
  intros alg k pre e o post b s1 o1 s2 o2 s3 o3 H1 H2 H3 H4 H5 H6 H7 Hd H8 H9.
  exact (scf_C05_retained alg k pre e o post b s3 (o2 ++ o3)
           (ex_intro _ s1 (ex_intro _ o1 (ex_intro _ s2 (ex_intro _ o2 (ex_intro _ o3
              (conj H1 (conj H2 (conj H3 (conj eq_refl (conj (conj H4 H5) (conj H6 (conj H7 (conj Hd H8)))))))))))))
           H9).
Qed.
Print Assumptions C05_retained.

(* Under the epidemic selection the bundle stays until a transmission to its destination node succeeded:
   successful transmissions to other peers do not end the obligation. *)
Theorem C05_retained_epidemic : forall alg k pre e o post b s3 outs,
  sa_exact alg = true ->
  scf_carried alg k pre e o post b s3 outs ->
  ~ In (ScfSent (sb_dst b) (sb_id b) true) outs ->
  scf_retained s3 b.
Proof. exact scf_C05_retained_epidemic. Qed.
Print Assumptions C05_retained_epidemic.

(* When the destination node appears as a peer, such a bundle is transmitted to it in that very step
   (provided it did not arrive from that node itself). *)
Theorem C05_direct : forall alg k pre e o post b s3 outs d o4 s4 o5,
  scf_carried alg k pre e o post b s3 outs -> scf_no_ok b outs ->
  scf_step alg k s3 (ScPeerUp d) o4 = Some (s4, o5) ->
  scf_alive k b (or_now o) (or_now o4) ->
  sb_dst b = d -> sb_prev b <> Some d ->
  exists ok, In (ScfSent d (sb_id b) ok) o5.
Proof. exact scf_C05_direct. Qed.
Print Assumptions C05_direct.

(* Epidemic routing: a newly connected peer is offered every stored bundle it does not have yet (it is
   not the previous node and no send to it succeeded) - as long as the bundle's destination node itself
   is not connected, in which case the bundle goes there directly (C05_direct). *)
Theorem C05_epidemic : forall alg k pre e o post b s3 outs p o4 s4 o5,
  sa_exact alg = true ->
  scf_carried alg k pre e o post b s3 outs ->
  ~ In (ScfSent (sb_dst b) (sb_id b) true) outs ->
  scf_step alg k s3 (ScPeerUp p) o4 = Some (s4, o5) ->
  scf_alive k b (or_now o) (or_now o4) ->
  sb_dst b <> p -> ~ In (sb_dst b) (scs_peers s3) ->
  sb_prev b <> Some p -> ~ In (ScfSent p (sb_id b) true) outs ->
  exists ok, In (ScfSent p (sb_id b) ok) o5.
Proof. exact scf_C05_epidemic. Qed.
Print Assumptions C05_epidemic.

(* All of it across an orderly restart anywhere in the history (the restart keeps the store with the
   item properties and drops the peers and the algorithms' memory). *)
Theorem C05_restart : forall alg k pre e o post1 orr post2 b s3 outs,
  scf_carried alg k pre e o (post1 ++ (SeRestart, orr) :: post2) b s3 outs -> scf_no_ok b outs ->
  scf_retained s3 b /\
  forall p o4 s4 o5,
    scf_step alg k s3 (ScPeerUp p) o4 = Some (s4, o5) ->
    scf_alive k b (or_now o) (or_now o4) -> sb_prev b <> Some p ->
    (p = sb_dst b \/ (sa_exact alg = true /\ sb_dst b <> p /\ ~ In (sb_dst b) (scs_peers s3))) ->
    exists ok, In (ScfSent p (sb_id b) ok) o5.
Proof. exact scf_C05_restart. Qed.
Print Assumptions C05_restart.

Theorem C05_restart_keeps_store : forall alg k s o,
  scf_step alg k s SeRestart o = Some ({| ss_items := ss_items s; scs_peers := [] |}, []).
Proof. exact scf_restart_step. Qed.
Print Assumptions C05_restart_keeps_store.

(* Two failure reports for one bundle at the same moment (read the sent list / remove the peer / write
   it back, one goroutine per peer): with the read-modify-write under the mutex - the two schedules of
   [scf_race_locked] - neither failed peer is in the list afterwards, in both orders; and the outcome is
   the one the event model uses (everything that failed is filtered out). *)
Theorem C05_failure_race : forall sent p q sched,
  NoDup sent -> In sched scf_race_locked ->
  ~ In p (scf_race_run p q sent sched) /\ ~ In q (scf_race_run p q sent sched).
Proof. exact scf_race_locked_ok. Qed.
Print Assumptions C05_failure_race.

Theorem C05_failure_race_outcome : forall sent p q sched,
  NoDup sent -> In sched scf_race_locked ->
  scf_race_run p q sent sched = filter (fun x => negb (scf_mem x [p; q])) sent.
Proof. exact scf_race_locked_filter. Qed.
Print Assumptions C05_failure_race_outcome.

(* Without the mutex (the code before the fix) the statement is false: in the schedule read p, read q,
   write p, write q the second write puts the first failed peer back (lost update). *)
Theorem C05_failure_race_unlocked_refuted : exists sent p q sched,
  NoDup sent /\ In sched scf_race_all /\ In p (scf_race_run p q sent sched).
Proof. exact scf_race_unlocked_lost_update. Qed.
Print Assumptions C05_failure_race_unlocked_refuted.

(* "Refused for cause (unsupported block demanding deletion)", for every block array of a received bundle:
   the loop of Core.receive ([scf_rx_blocks]: index len-1 down to 0, the array shrinking in place under it
   when a block is removed; [scf_rx_del] = it ends in bundleDeletion) refuses the bundle exactly when some
   block of a type this node does not know carries the "delete bundle" flag - whatever flags (replicate,
   report, delete bundle, remove block) the other blocks carry, known or unknown, and in whatever order. *)
Theorem C05_unsupported_block_refusal : forall bl,
  scf_rx_del bl = true <-> exists b, In b bl /\ bk_known b = false /\ scf_blk_has scf_fl_delete b = true.
Proof. exact scf_rx_del_iff. Qed.
Print Assumptions C05_unsupported_block_refusal.

(* and a bundle that is not refused goes on with its blocks, in order, less the unsupported blocks flagged
   "remove block": removing a block never makes the loop judge another block in its place *)
Theorem C05_unsupported_block_removal : forall bl r,
  scf_rx_blocks bl = Some r -> r = filter (fun b => bk_known b || negb (scf_blk_has scf_fl_remove b)) bl.
Proof. exact scf_rx_blocks_kept. Qed.
Print Assumptions C05_unsupported_block_removal.

(* How [scf_alive] reads for the two kinds of bundles. *)
Theorem C05_alive_timestamped : forall k b rx now,
  sb_ts b <> 0 -> sb_age b = None -> rx <= now -> now <= sb_ts b + sb_life b -> scf_alive k b rx now.
Proof. exact scf_alive_timestamped. Qed.
Print Assumptions C05_alive_timestamped.

Theorem C05_alive_zero_time : forall k b rx now a,
  sb_ts b = 0 -> sb_age b = Some a -> 1 <= k -> rx <= now -> a + k * (now - rx) < sb_life b ->
  scf_alive k b rx now.
Proof. exact scf_alive_zero_time. Qed.
Print Assumptions C05_alive_zero_time.

(* Non-vacuity: a clock-less bundle for node 1 is submitted with nobody connected, offered to peer 2
   (the send fails), survives a store sweep, a restart and a retry tick ([scf_carried] holds, nothing was
   sent successfully) - and is delivered when node 1 appears. *)
Example C05_example_carried : exists s3 outs,
  scf_carried scf_epidemic 1000 [] (SeSubmit scf_ex_b) (scf_ex_or 8434540001000 [] false) scf_ex_post scf_ex_b s3 outs
  /\ scf_no_ok scf_ex_b outs /\ outs = [ScfSent 2 7 false] /\ scs_peers s3 = [].
Proof. exact scf_ex_carried. Qed.

Example C05_example_delivery :
  scf_run scf_epidemic 1000 scf_init
    (((SeSubmit scf_ex_b, scf_ex_or 8434540001000 [] false) :: scf_ex_post)
       ++ [(ScPeerUp 1, scf_ex_or 8434540001600 [(1, true)] true)])
  = Some ({| ss_items := []; scs_peers := [1] |}, [ScfSent 2 7 false; ScfSent 1 7 true]).
Proof. exact scf_ex_delivery. Qed.

(* with the expiry of the code before the fix (creation time 0 + lifetime) the sweep at 8434540001300
   would have deleted that bundle *)
Example C05_example_old_expiry_swept : (0 + sb_life scf_ex_b <? 8434540001300) = true.
Proof. exact scf_ex_old_expiry_swept. Qed.

(* an unsupported block flagged "remove block" directly in front of a supported block flagged "delete
   bundle" (flags 5 = replicate + delete bundle, as senders put on hop count blocks): the bundle is kept *)
Example C05_example_remove_then_known_delete :
  scf_rx_blocks [ {| bk_known := false; bk_flags := 16 |}; {| bk_known := true; bk_flags := 5 |}; {| bk_known := true; bk_flags := 0 |} ]
  = Some [ {| bk_known := true; bk_flags := 5 |}; {| bk_known := true; bk_flags := 0 |} ].
Proof. exact scf_ex_rx_remove_then_known_delete. Qed.
