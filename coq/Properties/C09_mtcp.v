(* C09, part "mtcp": fragmentation, transport and reassembly composed. *)
From Coq Require Import Permutation.
From DTN Require Import Base Cbor Crc Eid Bundle BundleWf BundleProofs Reasm Frag FragProofs Mtcp MtcpProofs MtcpBundles FragMtcp.
Open Scope N_scope.

(* A well-formed valid bundle (not itself a fragment) fragmented for any maximum size below 2^64, the fragments
   sent one after the other over one MTCP connection: the server - parsing every frame with the bundle decoder -
   hands up exactly the fragments, and reassembling what it handed up, in ANY order of arrival, yields the
   original bundle itself (or the bundle was returned unfragmented and arrives as itself). *)
Theorem C09_over_mtcp : forall now b mtu fs,
  bundle_wf b = true -> check_valid now b = true -> has (p_flags (b_pri b)) F_FRAG = false -> mtu < 2 ^ 64 ->
  fg_fragment now b mtu = FOk fs ->
  mtcp_server (mb_parse now) (mtcp_client_stream (map mb_ev (map Some fs))) = fs
  /\ (fs = [b] \/ forall pi, Permutation pi fs -> fg_reassemble now pi = ROk b).
Proof. exact frag_over_mtcp. Qed.
Print Assumptions C09_over_mtcp.

(* non-vacuity: the 104-byte bundle of C09.v at mtu 90: three fragments cross the MTCP stream and come back as b *)
From DTN Require C09.
Example C09_over_mtcp_example : exists fs,
  fg_fragment 2000 (C09.c09_b C09.c09_data) 90 = FOk fs /\ length fs = 3%nat
  /\ mtcp_server (mb_parse 2000) (mtcp_client_stream (map mb_ev (map Some fs))) = fs
  /\ fg_reassemble 2000 (rev fs) = ROk (C09.c09_b C09.c09_data).
Proof. eexists. split; [vm_compute; reflexivity|]. split; [reflexivity|]. split; vm_compute; reflexivity. Qed.
