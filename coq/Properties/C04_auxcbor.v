(* C04 - decoders of the CBOR-based auxiliary formats (part file, merged by ./check with Properties/C04.v). *)
From DTN Require Import Base Cbor CborProofs Eid EidProofs Bundle BundleWf BundleProofs
  AuxCbor AuxCborProofs EidUriProofs ConstsOkAuxCbor.
Open Scope N_scope.


(* ======================= C04: the decoders as attack surface ======================= *)

(* For every byte string and every decoder of this package (creation timestamp, endpoint ID, bundle
   ID, status item, status report, administrative record, announcement, announcement list,
   WebSocket-agent message): the outcome is a value or an error, never a panic ... *)
Theorem C04_aux_no_panic : forall now k bs, is_panic (adec_aux true now k bs) = false.
Proof. intros now k bs. exact (proj1 (adec_aux_bounded now k bs)). Qed.
Print Assumptions C04_aux_no_panic.


(* ... and the memory allocated in sizes taken from the wire (string lengths, item counts) is at most
   136 bytes per byte of input plus 1 MiB (the one pre-allocation cboring makes for a string of at
   most 1 MiB before its bytes are there).  The bundle inside a WebSocket-agent message is decoded by
   the bundle decoder, whose account is not part of this package. *)
Theorem C04_aux_alloc_bounded : forall now k bs,
  cost_of (adec_aux true now k bs) <= 136 * nlen bs + 1048576.
Proof. intros now k bs. exact (proj2 (adec_aux_bounded now k bs)). Qed.
Print Assumptions C04_aux_alloc_bounded.


(* the plain decoders of C17 are these decoders with the account dropped *)
Theorem C04_aux_same_decoders : forall now k bs, to_res (adec_aux true now k bs) = dec_aux now k bs.
Proof. exact adec_aux_dec. Qed.
Print Assumptions C04_aux_same_decoders.


(* termination: all decoders are structurally recursive; the two counted loops carry a fuel of
   (input length + 1), and giving them any more fuel never changes their result - the fuel is not what
   stops them (each item consumes at least one byte) *)
Theorem C04_aux_terminates : forall extra n bs,
  arepeat adec_sitem sitem_per (S (length bs) + extra) n bs = arepeat adec_sitem sitem_per (S (length bs)) n bs
  /\ arepeat adec_ann ann_per (S (length bs) + extra) n bs = arepeat adec_ann ann_per (S (length bs)) n bs.
Proof. intros extra n bs. split; [exact (sitems_fuel extra n bs) | exact (anns_fuel extra n bs)]. Qed.
Print Assumptions C04_aux_terminates.


(* endpoint-ID strings: the parser is a total function - a structure or an error for every text -
   and what it accepts is valid (its regular expressions and the Go regexp engine's linear-time
   matching are library code: exercised by the harness, not modelled) *)
Theorem C04_aux_uri_total : forall uri, eid_parse uri = None \/ exists e, eid_parse uri = Some e /\ eid_valid e = true.
Proof.
  intros uri. destruct (eid_parse uri) as [e|] eqn:E; [right; exists e; split; [reflexivity|exact (proj1 (eid_parse_valid uri e E))]|left; reflexivity].
Qed.
Print Assumptions C04_aux_uri_total.


(* the code as found (before the fix commits) violates both clauses: a 8-byte administrative record /
   a 5-byte announcement packet makes it allocate ~96 GiB / ~128 GiB, a 12-byte / 9-byte one panics *)
Theorem C04_aux_unfixed_refuted :
  (exists bs, (length bs <= 12)%nat /\ ~ bounded alloc_k bs (adec_admrec false bs)) /\
  (exists bs, (length bs <= 12)%nat /\ is_panic (adec_admrec false bs) = true) /\
  (exists bs, (length bs <= 9)%nat /\ ~ bounded alloc_k bs (adec_anns false bs)) /\
  (exists bs, (length bs <= 9)%nat /\ is_panic (adec_anns false bs) = true).
Proof. exact unfixed_not_bounded. Qed.
Print Assumptions C04_aux_unfixed_refuted.


Example C04_aux_example_bounded_after_fix :
  (* the killer inputs, decoded by the repaired code: an error and nothing allocated *)
  adec_admrec true killer_admrec_oom = AErr 0 /\ adec_admrec true killer_admrec_panic = AErr 0
  /\ adec_anns true killer_anns_oom = AErr 0 /\ adec_anns true killer_anns_panic = AErr 0.
Proof. vm_compute. repeat split. Qed.

