(* C07 - local delivery reaches exactly the registered recipients, once, and nobody else.
   Model: Model/Agents.v (the code after the three fix: commits).  Only theorem statements closed
   by [exact <lemma>] and Print Assumptions, plus non-vacuity examples. *)
From Coq Require Import Permutation.
From DTN Require Import Base Agents AgentsProofs ConstsOkAgents.
Open Scope N_scope.

(* For every configuration reached by any history of agent registrations, REST register /
   unregister / fetch, WebSocket connect / disconnect and bundle arrivals (any number of agents
   and clients, any registration order, every sync.Map iteration order in every earlier step),
   and for every iteration order [orc] in this step: when bundle b arrives,
   - if the copy is accepted, every recipient r (agent, REST client = mailbox put, WebSocket
     client) registered for exactly b's destination is handed b - the unchanged b, once -
     and every other recipient is handed nothing;
   - a copy whose ID is in the store is handed to nobody;
   - if anybody is registered for the destination, nothing is given to a peer. *)
Theorem C07_exact : forall node peers (h : list ag_event) s outs,
  ag_run (ag_init node peers) h = Some (s, outs) ->
  forall (b : abundle) (orc : ag_oracle),
    ag_step s (AEDeliver b orc) = Some (ag_deliver orc s b)
    /\ (existsb (N.eqb (ab_id b)) (ast_known s) = false ->
        forall r, ag_hands_to r (snd (ag_deliver orc s b))
                  = if ag_registered (ast_ch s) r (ab_dst b) then [b] else [])
    /\ (existsb (N.eqb (ab_id b)) (ast_known s) = true -> snd (ag_deliver orc s b) = [AODup b])
    /\ ((exists r, ag_registered (ast_ch s) r (ab_dst b) = true) ->
        filter ag_is_sent (snd (ag_deliver orc s b)) = []).
Proof. exact exact_run. Qed.
Print Assumptions C07_exact.

(* A REST client's fetches together return every bundle put into its mailbox exactly once, in
   order: over every history, what was put = what the fetches returned (and what /unregister
   discarded) followed by what is still in the mailbox. *)
Theorem C07_fetch_exactly_once : forall node peers h s outs a u,
  ag_run (ag_init node peers) h = Some (s, outs) ->
  ag_hands_to (RRest a u) outs = ag_consumed a u outs ++ ag_mailbox (ast_ch s) a u.
Proof. exact conservation. Qed.
Print Assumptions C07_fetch_exactly_once.

(* Any number of concurrent deliveries and fetches on one mailbox entry, every interleaving of
   their sub-steps (Lock, Load, Store/Delete, Unlock; a thread chosen while the mutex is taken
   waits): at every moment what was stored = what fetches returned ++ what is in the mailbox;
   the stored bundles are those of the deliveries past their Store; when all threads are done
   they are exactly the delivered bundles. *)
Theorem C07_mailbox_linearizable : forall (ops : list mbx_op) (sched : list nat),
  let s := mbx_run true sched (mbx_init ops) in
  mbx_put s = mbx_got s ++ mbx_contents (mbx_box s)
  /\ Permutation (mbx_put s) (mbx_stored (mbx_thr s))
  /\ (mbx_all_done s = true -> Permutation (mbx_put s) (mbx_delivered ops)).
Proof. exact mailbox_locked. Qed.
Print Assumptions C07_mailbox_linearizable.

(* Without the mutex (the code before the fix) the same statement is false: there is an
   interleaving of one fetch with a delivery that loses the delivered bundle ... *)
Theorem C07_mailbox_unlocked_refuted :
  exists ops sched,
    let s := mbx_run false sched (mbx_init ops) in
    mbx_all_done s = true /\ mbx_put s <> mbx_got s ++ mbx_contents (mbx_box s)
    /\ exists b, In b (mbx_put s) /\ ~ In b (mbx_got s ++ mbx_contents (mbx_box s)).
Proof. exact unlocked_refuted. Qed.
Print Assumptions C07_mailbox_unlocked_refuted.

(* ... and one that returns a bundle twice. *)
Theorem C07_mailbox_unlocked_refuted_twice :
  exists ops sched,
    let s := mbx_run false sched (mbx_init ops) in
    mbx_all_done s = true
    /\ exists b, occ b (mbx_put s) = 1%nat /\ occ b (mbx_got s ++ mbx_contents (mbx_box s)) = 2%nat.
Proof. exact unlocked_refuted_twice. Qed.
Print Assumptions C07_mailbox_unlocked_refuted_twice.

(* A "delivered" report or the release of the LocalEndpoint constraint of bundle b occurs in a
   trace only after a hand-over of b ... *)
Theorem C07_report_iff_handover : forall node peers h s outs,
  ag_run (ag_init node peers) h = Some (s, outs) ->
  forall pre x post b, outs = pre ++ x :: post -> (x = AOReport b \/ x = AORelease b) ->
  exists r, In (AOHand r b) pre.
Proof. exact ack_run. Qed.
Print Assumptions C07_report_iff_handover.

(* ... in the same step, to a recipient registered for b's destination. *)
Theorem C07_report_iff_handover_step : forall node peers h s outs,
  ag_run (ag_init node peers) h = Some (s, outs) ->
  forall orc b b' pre x post,
    snd (ag_deliver orc s b) = pre ++ x :: post -> (x = AOReport b' \/ x = AORelease b') ->
    b' = b /\ exists r, ag_registered (ast_ch s) r (ab_dst b) = true /\ In (AOHand r b) pre.
Proof. exact ack_step. Qed.
Print Assumptions C07_report_iff_handover_step.

(* Nobody registered for the destination (e.g. only WebSocket clients that are connected but have
   not registered, REST agents without a matching client, a bundle for dtn:none): the arrival of b
   produces no hand-over to anybody - registered or not -, no "delivered" report and no release
   of the retention constraint. *)
Theorem C07_nobody_registered : forall node peers (h : list ag_event) s outs,
  ag_run (ag_init node peers) h = Some (s, outs) ->
  forall b orc, (forall r, ag_registered (ast_ch s) r (ab_dst b) = false) ->
  forall x, In x (snd (ag_deliver orc s b)) -> ag_is_evidence x = false.
Proof. exact nobody_run. Qed.
Print Assumptions C07_nobody_registered.

(* While *other* agents and clients register, unregister, connect, disconnect, fetch and receive
   (any history h' in which no event registers / unregisters recipient r itself; the handlers
   are atomic w.r.t. each other, so every concurrent execution is such a history), a recipient
   registered for b's destination stays visible to AgentManager.HasEndpoint, is handed every
   accepted bundle for that destination exactly once, and the bundle is not given to a peer. *)
Theorem C07_amid_others : forall node peers h s outs h' s' outs' r,
  ag_run (ag_init node peers) h = Some (s, outs) ->
  ag_run s h' = Some (s', outs') ->
  forallb (fun ev => negb (ag_ev_touches ev r)) h' = true ->
  forall b orc,
    ag_registered (ast_ch s) r (ab_dst b) = true ->
    existsb (N.eqb (ab_id b)) (ast_known s') = false ->
    ag_mux_has orc 0%nat (ast_ch s') (ab_dst b) = true
    /\ ag_hands_to r (snd (ag_deliver orc s' b)) = [b]
    /\ filter ag_is_sent (snd (ag_deliver orc s' b)) = [].
Proof. exact amid_others. Qed.
Print Assumptions C07_amid_others.

(* ---- non-vacuity ---- *)
Definition ex_e1 : ag_eid := (7, 1).
Definition ex_e2 : ag_eid := (7, 2).
Definition ex_b (i : N) (e : ag_eid) : abundle := mk_ab i e (1, 0) true.
Definition ex_orc : ag_oracle := fun a site => [2; 1]%nat.
Definition ex_hist : list ag_event :=
  [AERegAgent 0 (ARest [] []); AERegAgent 1 (AMock [ex_e1]); AERegAgent 2 (AWs []); AERegAgent 3 (APing ex_e2);
   AERestRegister 0 10 ex_e1; AERestRegister 0 11 ex_e2; AERestRegister 0 12 ex_e1;
   AEWsConnect 2 20 ex_e1;
   AEDeliver (ex_b 100 ex_e1) ex_orc;      (* two REST clients, the mock agent and the WS client *)
   AEDeliver (ex_b 101 ex_e2) ex_orc;      (* the second REST client and the ping agent *)
   AEDeliver (ex_b 102 (7, 3)) ex_orc;     (* nobody: forwarded to both peers *)
   AEDeliver (ex_b 103 (0, 3)) ex_orc;     (* this node, no agent: kept, no report *)
   AERestFetch 0 10; AERestUnregister 0 12; AEDeliver (ex_b 104 ex_e1) ex_orc; AERestFetch 0 10].

Example C07_example_trace :
  option_map snd (ag_run (ag_init (0, 0) [1; 2]) ex_hist)
  = Some [AOHand (RRest 0 12) (ex_b 100 ex_e1); AOHand (RRest 0 10) (ex_b 100 ex_e1);
          AOHand (RMock 1) (ex_b 100 ex_e1); AOHand (RWs 2 20) (ex_b 100 ex_e1);
          AOReport (ex_b 100 ex_e1); AORelease (ex_b 100 ex_e1);
          AOHand (RRest 0 11) (ex_b 101 ex_e2); AOHand (RPing 3) (ex_b 101 ex_e2);
          AOReport (ex_b 101 ex_e2); AORelease (ex_b 101 ex_e2);
          AOSent 1 (ex_b 102 (7, 3)); AOSent 2 (ex_b 102 (7, 3));
          AOKeep (ex_b 103 (0, 3));
          AOFetched 0 10 [ex_b 100 ex_e1]; AODropped 0 12 [ex_b 100 ex_e1];
          AOHand (RRest 0 10) (ex_b 104 ex_e1); AOHand (RMock 1) (ex_b 104 ex_e1); AOHand (RWs 2 20) (ex_b 104 ex_e1);
          AOReport (ex_b 104 ex_e1); AORelease (ex_b 104 ex_e1);
          AOFetched 0 10 [ex_b 104 ex_e1]].
Proof. vm_compute. reflexivity. Qed.

(* a schedule in which a fetch is stopped after its Load, a delivery is scheduled (and has to
   wait for the mutex), and everything completes: nothing is lost *)
Example C07_example_locked :
  let s := mbx_run true [0;0;0;0; 1;1; 2;2; 1;1; 2;2;2;2; 3;3;3;3]%nat
                   (mbx_init [MDeliver (wb 0); MFetch; MDeliver (wb 1); MFetch]) in
  mbx_all_done s = true /\ mbx_got s = [wb 0; wb 1] /\ mbx_box s = None.
Proof. vm_compute. repeat split. Qed.

(* connected but unregistered WebSocket clients (20 never registers, 21 registers later, 22 sends
   an unparsable endpoint and is dropped, 23 registers twice and is dropped): a bundle for
   dtn:none = (8,0) and one for an endpoint nobody registered are forwarded, nobody gets them *)
Definition ex_none : ag_eid := (8, 0).
Definition ex_hist2 : list ag_event :=
  [AERegAgent 0 (AWs []); AERegAgent 1 (ARest [] []);
   AEWsDial 0 20; AEWsDial 0 21; AEWsDial 0 22; AEWsDial 0 23;
   AEDeliver (ex_b 100 ex_none) ex_orc; AEDeliver (ex_b 101 ex_e1) ex_orc;
   AEWsRegister 0 21 (Some ex_e1); AEWsRegister 0 22 None;
   AEWsRegister 0 23 (Some ex_e2); AEWsRegister 0 23 (Some ex_e1);
   AEDeliver (ex_b 102 ex_e1) ex_orc; AEDeliver (ex_b 103 ex_e2) ex_orc; AEDeliver (ex_b 104 ex_none) ex_orc].
Example C07_example_unregistered :
  option_map (fun p => (ast_ch (fst p), snd p)) (ag_run (ag_init (0, 0) [1; 2]) ex_hist2)
  = Some ([(0, AWs [(20, None); (21, Some ex_e1)]); (1, ARest [] [])],
          [AOSent 1 (ex_b 100 ex_none); AOSent 2 (ex_b 100 ex_none);
           AOSent 1 (ex_b 101 ex_e1); AOSent 2 (ex_b 101 ex_e1);
           AOHand (RWs 0 21) (ex_b 102 ex_e1); AOReport (ex_b 102 ex_e1); AORelease (ex_b 102 ex_e1);
           AOSent 1 (ex_b 103 ex_e2); AOSent 2 (ex_b 103 ex_e2);
           AOSent 1 (ex_b 104 ex_none); AOSent 2 (ex_b 104 ex_none)]).
Proof. vm_compute. reflexivity. Qed.
