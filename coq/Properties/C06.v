(* C06 - forwarded bundles are faithful copies and respect hop limit and lifetime.
   Only theorem statements closed by [exact <lemma>] and Print Assumptions, plus non-vacuity examples.

   Model: Model/Forward.v - pkg/routing processing.go (receive's unknown-block loop, forward up to
   the choice of the senders), bundle_descriptor.go (UpdateBundleAge, Bundle()), pkg/bpv7
   (HopCountBlock, BundleAgeBlock, AddExtensionBlock, canonicalBlockNumberSort, IsLifetimeExceeded),
   as repaired by the four fix: commits of C06 (hop count 255 not wrapped; residence time added in
   milliseconds; unsupported blocks flagged for removal also dropped on retries; the reception
   timestamp of a bundle whose dispatching is deferred is stored).

   A history of one accepted bundle [b] at node [node]:
     [fw_history node now res copies keep b es] = reception at clock [now] (DTN ms) with residence
     [res] ms, followed by the events [es] (any number, any order) of
       FwEvRetry now res copies keep   a retry (pending_bundles job / a peer appeared) at clock
                                       [now], the bundle having been [res] ms at this node
       FwEvClean now                   the clean_store job
     The store keeps the bundle exactly AS RECEIVED (all block changes are made on in-memory
     copies), so every retry recomputes from [b].  Oracles: [copies] = what the routing algorithm
     writes into its own block (binary spray: Some n; every other algorithm: None), [keep] = the
     item survives a transmission.  The outputs [fo_result] are [FwSend b'] (handed to the
     convergence layer(s)) or [FwRefuse reason].
   [fw_accepted now b]: [b] is in the codec's range, passes CheckValid at [now] (what ParseBundle
   guarantees for everything a convergence layer delivers) and has fewer than 2^32 blocks.
   [fw_node_ok node]: this node's ID is a valid endpoint ID that fits a previous-node block. *)
From DTN Require Import Base Cbor Crc Eid Bundle BundleWf BundleProofs Forward ForwardProofs SpecForward ConstsOkForward.
Open Scope N_scope.

(* Every bundle handed to a convergence layer - by the first transmission or by any later retry,
   under any clock, residence time and routing algorithm - encodes, parses back to itself as a
   valid bundle, has the accepted bundle's primary block (hence byte-identical encoding) and
   payload, and is a faithful copy:
     ff_kept / ff_only  every block other than previous-node, bundle-age, hop-count (and the
                        algorithm's own block, if it has one) is transmitted unchanged unless it is an
                        unsupported block flagged for removal; nothing else is added; no unsupported
                        block flagged for removal is transmitted
     ff_hop / _only     hop count = accepted count + 1 as natural numbers, not above the limit; block
                        number, flags, CRC type unchanged
     ff_age / _only     age = accepted age + residence (mod 2^64, see C06_age_fits)
     ff_prev            exactly one previous-node block, naming this node (the old block's value
                        replaced in place, or a new block with flags 0 and no CRC). *)
Theorem C06_faithful :
  forall node now0 res0 copies0 keep0 b es st outs o b'',
    fw_node_ok node = true -> fw_accepted now0 b ->
    fw_history node now0 res0 copies0 keep0 b es = (st, outs) ->
    In o outs -> fw_copies_ok (fo_copies o) -> fo_result o = FwSend b'' ->
    (enc_bundle b'' = Some (bundle_bytes b'')
     /\ dec_bundle (fo_now o) (bundle_bytes b'') = Some (b'', [])
     /\ primary_bytes (b_pri b'') = primary_bytes (b_pri b)
     /\ payload_of b'' = payload_of b)
    /\ check_valid (fo_now o) b'' = true
    /\ fw_faithful node (fo_res o) (fw_is_some (fo_copies o)) b b''.
Proof. exact fw_C06_faithful. Qed.
Print Assumptions C06_faithful.

(* the age counter is a uint64: it does not wrap for any physically possible age *)
Theorem C06_age_fits : forall n, n < 18446744073709551616 -> fw_u64 n = n.
Proof. exact fw_C06_age_fits. Qed.
Print Assumptions C06_age_fits.

(* A bundle whose hop count would exceed its limit (count + 1 > limit as natural numbers), whose
   lifetime is over by its (non-zero) creation time, or whose age + residence has reached the
   lifetime ([fw_must_refuse]), is never transmitted: at the reception and at every retry of every
   history the result is a refusal. *)
Theorem C06_refuse :
  forall node now0 res0 copies0 keep0 b es st outs o,
    fw_accepted now0 b ->
    fw_history node now0 res0 copies0 keep0 b es = (st, outs) ->
    In o outs -> fw_must_refuse (fo_now o) (fo_res o) b ->
    exists r, fo_result o = FwRefuse r.
Proof. exact fw_C06_refuse. Qed.
Print Assumptions C06_refuse.

(* ... and is dropped from the store: a refusal at the reception purges the item at once *)
Theorem C06_refuse_purged_first :
  forall node now0 now res copies keep b,
    fw_accepted now0 b -> fw_must_refuse now res b ->
    fst (fw_accept node now res copies keep b) = None.
Proof. exact fw_accept_purges. Qed.
Print Assumptions C06_refuse_purged_first.

(* a refusal at a retry purges the item at once, except that a stored copy whose creation-time
   lifetime is over no longer loads (ParseBundle's CheckValid): it is skipped, never transmitted,
   and removed by the next clean_store sweep *)
Theorem C06_refuse_purged_retry :
  forall node now0 now res copies keep b,
    fw_accepted now0 b -> fw_must_refuse now res b ->
    fw_gone_or_swept node now b (fst (fw_step node (Some b) (FwEvRetry now res copies keep))).
Proof. exact fw_retry_purges. Qed.
Print Assumptions C06_refuse_purged_retry.

(* once purged, nothing is ever transmitted for it again *)
Theorem C06_purged_stays : forall node es, fw_run node None es = (None, []).
Proof. exact fw_C06_purged_stays. Qed.
Print Assumptions C06_purged_stays.

(* ---------------- the reception time, and the same bundle received again ----------------
   Timed histories [fw_trun node st es]: the state is the stored item = the copy as handed in plus
   its reception time [ti_rx] on a monotone clock (ms); events
     FwTRecv b wall delay now copies keep   bundle [b] is handed in at [wall] (processed [delay] ms later)
     FwTRetry wall now copies keep          a retry at [wall]: residence time = wall - ti_rx
     FwTClean now
   A bundle handed in while its ID is stored is a duplicate (whatever its hop count / age /
   previous node say): it is not transmitted and changes neither the stored copy nor the reception
   time; so the age transmitted by any later retry is the accepted age + the time since the FIRST
   reception.  Handed in when the store does not hold it (any more), it is a new reception. *)
Theorem C06_duplicate_ignored :
  forall node it b wall delay now copies keep,
    fw_tstep node (Some it) (FwTRecv b wall delay now copies keep) = (Some it, []).
Proof. exact fw_dup_ignored. Qed.
Print Assumptions C06_duplicate_ignored.

Theorem C06_item_stable :
  forall node it e st' outs, fw_tstep node (Some it) e = (st', outs) -> st' = None \/ st' = Some it.
Proof. exact fw_titem_stable. Qed.
Print Assumptions C06_item_stable.

Theorem C06_residence_since_reception :
  forall node it wall now copies keep st' outs o,
    fw_tstep node (Some it) (FwTRetry wall now copies keep) = (st', outs) -> In o outs ->
    fo_res o = wall - ti_rx it /\ fo_now o = now /\ fo_copies o = copies
    /\ fo_result o = fw_touch_result copies (fw_retry node now (wall - ti_rx it) (ti_b it)).
Proof. exact fw_tretry_residence. Qed.
Print Assumptions C06_residence_since_reception.

(* a duplicate arriving while the bundle is stored can be deleted from the history without changing
   the final store state or anything that is transmitted, before or after it *)
Theorem C06_duplicate_transparent :
  forall node st es1 it o1 b wall delay now copies keep es2,
    fw_trun node st es1 = (Some it, o1) ->
    fw_trun node st (es1 ++ FwTRecv b wall delay now copies keep :: es2) = fw_trun node st (es1 ++ es2).
Proof. exact fw_dup_transparent. Qed.
Print Assumptions C06_duplicate_transparent.

(* C06_faithful and C06_refuse over timed histories (any interleaving of receptions of any accepted
   bundles, duplicates, retries and sweeps): every transmitted copy is a faithful copy of a bundle
   that was handed in, with the age grown by [fo_res] (= wall - reception time for retries, by
   C06_residence_since_reception), and what must be refused is refused *)
Theorem C06_faithful_timed :
  forall node es st outs o b'',
    fw_node_ok node = true ->
    (forall b, In b (fw_thanded es) -> exists now0, fw_accepted now0 b) ->
    fw_trun node None es = (st, outs) ->
    In o outs -> fw_copies_ok (fo_copies o) -> fo_result o = FwSend b'' ->
    exists b, In b (fw_thanded es)
    /\ (enc_bundle b'' = Some (bundle_bytes b'')
        /\ dec_bundle (fo_now o) (bundle_bytes b'') = Some (b'', [])
        /\ primary_bytes (b_pri b'') = primary_bytes (b_pri b)
        /\ payload_of b'' = payload_of b)
    /\ check_valid (fo_now o) b'' = true
    /\ fw_faithful node (fo_res o) (fw_is_some (fo_copies o)) b b''.
Proof. exact fw_C06_timed_faithful. Qed.
Print Assumptions C06_faithful_timed.

Theorem C06_refuse_timed :
  forall node es st outs o,
    (forall b, In b (fw_thanded es) -> exists now0, fw_accepted now0 b) ->
    fw_trun node None es = (st, outs) -> In o outs ->
    exists b, In b (fw_thanded es) /\ fw_out_of node b o
              /\ (fw_must_refuse (fo_now o) (fo_res o) b -> exists r, fo_result o = FwRefuse r).
Proof. exact fw_C06_timed_refuse. Qed.
Print Assumptions C06_refuse_timed.

(* ---------------- non-vacuity ---------------- *)
Definition c06_node : eid := Dtn [110; 48] [].                       (* dtn://n0/ *)
Definition c06_pri (time life : N) : primary :=
  {| p_flags := 0; p_crc := 1; p_dst := Dtn [113] [105; 110]; p_src := Dtn [115] [97]; p_rpt := DtnNone;
     p_time := time; p_seq := 1; p_life := life; p_off := 0; p_total := 0 |}.
Definition c06_blk (num fl crc : N) (v : ext) : cblock := {| c_num := num; c_flags := fl; c_crc := crc; c_val := v |}.
(* hop 2 of 5, age 10 ms, an unsupported block (type 200) flagged for removal, payload "hi"; blocks not in number order *)
Definition c06_b : bundle :=
  {| b_pri := c06_pri 1000 3600000;
     b_blocks := [c06_blk 3 0 2 (XHop 5 2); c06_blk 2 1 0 (XAge 10); c06_blk 4 16 0 (XGeneric 200 [1]);
                  c06_blk 1 0 1 (XPayload [104; 105])] |}.

Example C06_ex_node_ok : fw_node_ok c06_node = true.
Proof. vm_compute. reflexivity. Qed.
Example C06_ex_accepted : fw_accepted 2000 c06_b.
Proof. repeat split; vm_compute; reflexivity. Qed.

(* first transmission after 50 ms: hop 3, age 60, previous node n0 added as block 4 (the removed
   block's number is free again), the unsupported block gone, payload last *)
Example C06_ex_first :
  fw_receive c06_node 2000 50 c06_b =
  FwSend {| b_pri := c06_pri 1000 3600000;
            b_blocks := [c06_blk 2 1 0 (XAge 60); c06_blk 3 0 2 (XHop 5 3); c06_blk 4 0 0 (XPrev c06_node);
                         c06_blk 1 0 1 (XPayload [104; 105])] |}.
Proof. vm_compute. reflexivity. Qed.
(* a retry 3 s later starts from the stored copy again: hop 3 (not 4), age 3010, block still removed *)
Example C06_ex_retry :
  fw_retry c06_node 5000 3000 c06_b =
  FwSend {| b_pri := c06_pri 1000 3600000;
            b_blocks := [c06_blk 2 1 0 (XAge 3010); c06_blk 3 0 2 (XHop 5 3); c06_blk 4 0 0 (XPrev c06_node);
                         c06_blk 1 0 1 (XPayload [104; 105])] |}.
Proof. vm_compute. reflexivity. Qed.
(* a whole history: reception (sent, kept), a retry (sent, released), a further retry finds nothing *)
Example C06_ex_history :
  let '(st, outs) := fw_history c06_node 2000 0 None true c06_b [FwEvRetry 2100 100 None false; FwEvRetry 2200 200 None true] in
  st = None /\ length outs = 2%nat.
Proof. vm_compute. split; reflexivity. Qed.

(* hop count 255 of limit 255: refused (the unrepaired code wrapped the counter and sent count 0) *)
Definition c06_hop (lim cnt : N) : bundle :=
  {| b_pri := c06_pri 1000 3600000;
     b_blocks := [c06_blk 2 0 0 (XHop lim cnt); c06_blk 1 0 0 (XPayload [])] |}.
Example C06_ex_hop255 : fw_receive c06_node 2000 0 (c06_hop 255 255) = FwRefuse FwHopLimit.
Proof. vm_compute. reflexivity. Qed.
Example C06_ex_hop_at_limit : fw_receive c06_node 2000 0 (c06_hop 7 7) = FwRefuse FwHopLimit.
Proof. vm_compute. reflexivity. Qed.
Example C06_ex_hop_must_refuse : fw_must_refuse 2000 0 (c06_hop 255 255) /\ fw_accepted 2000 (c06_hop 255 255).
Proof.
  split.
  - left. exists (c06_blk 2 0 0 (XHop 255 255)), 255, 255. split; [left; reflexivity|]. split; [reflexivity|]. reflexivity.
  - repeat split; vm_compute; reflexivity.
Qed.

(* clock-less bundle: lifetime 1000 ms, age 400: forwarded after 500 ms, refused after 600 ms;
   expired by creation time: refused at reception; the stored copy is skipped at a retry *)
Definition c06_age (time life age : N) : bundle :=
  {| b_pri := c06_pri time life;
     b_blocks := [c06_blk 2 0 0 (XAge age); c06_blk 1 0 0 (XPayload [])] |}.
Example C06_ex_age_ok : exists b', fw_retry c06_node 9000 500 (c06_age 0 1000 400) = FwSend b'.
Proof. eexists. vm_compute. reflexivity. Qed.
Example C06_ex_age_over : fw_retry c06_node 9000 600 (c06_age 0 1000 400) = FwRefuse FwAge.
Proof. vm_compute. reflexivity. Qed.
Example C06_ex_time_over :
  fw_receive c06_node 5000 0 (c06_age 1000 3000 0) = FwRefuse FwLifetime
  /\ fw_retry c06_node 5000 0 (c06_age 1000 3000 0) = FwRefuse FwLoad
  /\ fw_step c06_node (Some (c06_age 1000 3000 0)) (FwEvClean 5000) = (None, []).
Proof. vm_compute. repeat split; reflexivity. Qed.

(* received at 1000 (nobody to send to: kept), the same bundle again at 3000 - as it arrived over
   another path: hop 4, age 900 -, retry at 4000: sent with hop 3 and age 10 + 3000, not 10 + 1000 *)
Definition c06_b_otherpath : bundle :=
  {| b_pri := c06_pri 1000 3600000;
     b_blocks := [c06_blk 3 0 2 (XHop 5 4); c06_blk 2 1 0 (XAge 900); c06_blk 4 16 0 (XGeneric 200 [1]);
                  c06_blk 1 0 1 (XPayload [104; 105])] |}.
Example C06_ex_duplicate :
  let '(st, outs) := fw_trun c06_node None [FwTRecv c06_b 1000 0 2000 None true; FwTRecv c06_b_otherpath 3000 0 4000 None true;
                                            FwTRetry 4000 5000 None false] in
  st = None /\ map fo_res outs = [0; 3000]
  /\ nth_error (map fo_result outs) 1 = Some (fw_retry c06_node 5000 3000 c06_b)
  /\ exists b', fw_retry c06_node 5000 3000 c06_b = FwSend b' /\ find_type 7 (b_blocks b') = Some (c06_blk 2 1 0 (XAge 3010)).
Proof. vm_compute. repeat split. eexists. split; reflexivity. Qed.
