(* C07 (concurrency clause: "also while clients register, unregister or fetch concurrently with arriving
   bundles") for the agent multiplexer.  Model: Model/MuxConc.v - sub-steps at the granularity of mutex and
   channel operations of MuxAgent.handle / Register / unregister / handleChild / Endpoints, AgentManager.Deliver
   and handler, the goroutines of a WebSocket client and of the PingAgent; every channel unbuffered (pinned in
   ConstsOkMuxConc).  All theorems quantify over every interleaving ([mxc_reach] = any sequence of [mxc_step]s
   from the initial state), any number of children, callers, bundles, connection scripts: induction over
   reachability with the invariant [mxc_inv] of Proofs/MuxConcProofs.v - nothing is bounded.  [mxc_real] is
   the code as it is: drain loop of 7ebd25e, Endpoints iterating under the lock, the AgentManager's handler
   working the messages of mux.sender off itself.  Only statements closed by [exact], Print Assumptions and non-vacuity examples. *)
From DTN Require Import Base MuxConc MuxConcProofs ConstsOkMuxConc.
Open Scope nat_scope.

(* No deadlock - the code as it is (sequential AgentManager.handler).  In every reachable state in which something
   is left to do ([mxc_settled] = false: a caller has an unfinished Endpoints / Deliver, handle holds a message,
   a Register or unregister is under way, a closed sender has not led to the unregistration yet, a reader has
   not processed a close, a connection goroutine has scripted work) some goroutine of the program - not an
   environment fault - can take a step, PROVIDED
   - no child that is still in the multiplexer's children list has stopped reading without disconnecting
     ([mxc_no_stall]: a reader in state MxRstall; a reader that fails / shuts down keeps taking messages
     through the drain loop until the multiplexer closes its receiver and is not "stalled"),
   - no child answers upstream from the goroutine that reads its receiver ([mxc_cfg_no_reply]; true for every
     agent kind of the tree since 56aabd8, see C07_mux_tree_kinds),
   - somebody reads mux.sender ([mxc_cfg_has_up]: the AgentManager's handler exists). *)
Theorem C07_mux_no_deadlock : forall chs cls s,
  mxc_cfg_no_reply chs = true -> mxc_cfg_has_up cls = true ->
  mxc_reach mxc_real (mxc_init chs cls) s ->
  mxc_no_stall s = true -> mxc_settled s = false ->
  exists t s', mxc_is_env t = false /\ mxc_step mxc_real s t = Some s'.
Proof. exact mxc_no_deadlock_real. Qed.
Print Assumptions C07_mux_no_deadlock.

(* The agent kinds of the tree as children of the model (Model/MuxConc.v, with the places in the code):
   WebSocket client, PingAgent (pongs from goroutines of their own), RestAgent (upstream from the HTTP
   goroutines), plain receiving agents - none answers from its reader goroutine. *)
Theorem C07_mux_tree_kinds : forall e1 up e2 pongs e3 built e4,
  mxc_cfg_no_reply [mxc_kind_ws e1 up; mxc_kind_ping e2 pongs; mxc_kind_rest e3 built; mxc_kind_recv e4] = true.
Proof. exact mxc_tree_kinds_no_reply. Qed.
Print Assumptions C07_mux_tree_kinds.

(* The second hypothesis is needed (FINDING, confirmed on the Go code, repaired by 56aabd8): with a child that
   answers from its reader goroutine - the PingAgent as it was - four pings in a row end in a state in which
   handle holds the lock sending ping 4 to the agent, which waits with pong 3 for handleChild, which waits with
   pong 2 for the handler, which is inside SendBundle(pong 1) -> Core.HasEndpoint -> MuxAgent.Endpoints -> Lock.
   No label at all (not even an environment fault) is enabled, nobody is stalled. *)
Theorem C07_mux_deadlock_unfixed_ping :
  exists s, mxc_reach mxc_real (mxc_init [mxc_kind_ping_old 7%N] mxc_w3_cls) s
    /\ mxc_no_stall s = true /\ mxc_has_up s = true /\ mxc_settled s = false
    /\ forall t, mxc_step mxc_real s t = None.
Proof. exact mxc_deadlock_sync_ping. Qed.
Print Assumptions C07_mux_deadlock_unfixed_ping.

(* Variant `go manager.handleMessage(msg)` in AgentManager.handler (not the code): no hypothesis on the agent
   kinds and on the reader of mux.sender is needed. *)
Theorem C07_mux_no_deadlock_async_handler : forall chs cls s,
  mxc_reach mxc_async (mxc_init chs cls) s ->
  mxc_no_stall s = true -> mxc_settled s = false ->
  exists t s', mxc_is_env t = false /\ mxc_step mxc_async s t = Some s'.
Proof. exact mxc_no_deadlock_async. Qed.
Print Assumptions C07_mux_no_deadlock_async_handler.

(* Sharpness of the drain loop (7ebd25e): without it a client that took bundle 1, failed to write it and
   shut down blocks handle - holding the lock - on bundle 2; unregister waits for the lock for ever. *)
Theorem C07_mux_deadlock_without_drain :
  exists s, mxc_reach mxc_w1_cfg (mxc_init mxc_w1_chs mxc_w1_cls) s
    /\ mxc_no_stall s = true /\ mxc_settled s = false /\ forall t, mxc_step mxc_w1_cfg s t = None.
Proof. exact mxc_deadlock_without_drain. Qed.
Print Assumptions C07_mux_deadlock_without_drain.

(* MuxAgent.handle never sends on a receiver that unregister has closed. *)
Theorem C07_mux_no_send_on_closed : forall chs cls s,
  mxc_reach mxc_real (mxc_init chs cls) s -> mxs_panic s = false.
Proof. intros chs cls s. exact (mxc_no_panic mxc_real chs cls s eq_refl). Qed.
Print Assumptions C07_mux_no_send_on_closed.

(* Delivery.  Let child c be in the children list with endpoint e in a reachable state s1 (its Register has
   appended it), and still be there and reading (reader goroutine not failed / stalled / shut down) in a
   state s2 reached from s1 by ANY interleaving - other children registering, unregistering, disconnecting,
   setting endpoints, queries, any deliveries.  Then the messages handle took from mux.receiver between s1
   and s2 ([new], in the order of the rendezvous) and what c received are related exactly:
     received(s2) ++ owed(s2) = received(s1) ++ owed(s1) ++ [m in new | destination m = e]
   where owed = the one message handle is working on and has not yet handed to c (empty when handle waits
   at mux.receiver): every such bundle once, unchanged, in order, nothing else. *)
Theorem C07_mux_delivers : forall chs cls s1 s2 c e,
  mxc_reach mxc_real (mxc_init chs cls) s1 -> mxc_reach mxc_real s1 s2 ->
  In c (mxs_children s1) -> mxh_ep (mxc_getc s1 c) = Some e ->
  In c (mxs_children s2) -> mxc_reading (mxc_getc s2 c) = true ->
  exists new, mxs_acc s2 = mxs_acc s1 ++ new
    /\ mxh_log (mxc_getc s2 c) ++ filter (mxc_match (Some e)) (mxc_owed s2 c)
       = mxh_log (mxc_getc s1 c) ++ filter (mxc_match (Some e)) (mxc_owed s1 c) ++ filter (mxc_match (Some e)) new.
Proof. intros chs cls s1 s2 c e. exact (mxc_delivers mxc_real chs cls s1 s2 c e eq_refl). Qed.
Print Assumptions C07_mux_delivers.

(* Nobody else: whatever any child (registered or not, reading or not) has received was handed to the
   multiplexer and is addressed to the endpoint this child answers to. *)
Theorem C07_mux_only_own : forall chs cls s c m,
  mxc_reach mxc_real (mxc_init chs cls) s -> In m (mxh_log (mxc_getc s c)) ->
  mxh_ep (mxc_getc s c) = Some (mxb_dst m) /\ In m (mxs_acc s).
Proof. intros chs cls s c m. exact (mxc_only_own mxc_real chs cls s c m eq_refl). Qed.
Print Assumptions C07_mux_only_own.

(* "In the children list" is what lies between the append in Register and the removal in unregister. *)
Theorem C07_mux_registered : forall chs cls s c,
  mxc_reach mxc_real (mxc_init chs cls) s ->
  (In c (mxs_children s) <-> mxc_regd (mxc_getc s c) = true).
Proof.
  intros chs cls s c R.
  exact (iv_regd _ _ (mxc_inv_reach mxc_real _ s eq_refl (mxc_inv_init mxc_real chs cls) R) c).
Qed.
Print Assumptions C07_mux_registered.

(* Endpoints() / HasEndpoint / the check in Deliver never miss a child: every answer of every query
   contains the endpoints of all children that were registered (with an endpoint) when the query took the
   lock ([must]; such a child cannot leave before the query's Unlock): HasEndpoint e answers true if e is
   among them, and Deliver reports "no registered agent" only if the destination is not. *)
Theorem C07_mux_endpoints_complete : forall chs cls s i r,
  mxc_reach mxc_real (mxc_init chs cls) s -> In r (mxl_res (mxc_getl s i)) -> mxc_res_ok r.
Proof. intros chs cls s i r. exact (mxc_endpoints_complete mxc_real chs cls s i r eq_refl). Qed.
Print Assumptions C07_mux_endpoints_complete.

(* Sharpness (seeded defect: Endpoints takes the slice header under the lock and iterates after Unlock while
   unregister removes in place): a query for endpoint 2 answers false although child 1 with endpoint 2 was
   registered when the query started and still is when it ends. *)
Theorem C07_mux_endpoints_nocopy_misses :
  exists s must, mxc_reach mxc_w2_cfg (mxc_init mxc_w2_chs mxc_w2_cls) s
    /\ mxl_res (mxc_getl s 0) = [MxHas 2%N false must] /\ In 2%N must
    /\ In 1 (mxs_children s) /\ mxh_ep (mxc_getc s 1) = Some 2%N.
Proof. exact mxc_nocopy_misses. Qed.
Print Assumptions C07_mux_endpoints_nocopy_misses.

(* ---- non-vacuity ---- *)
(* two WebSocket clients for endpoint 5 and one for 6; client 1 disconnects in the middle; two bundles for 5,
   one for 6, a HasEndpoint probe; client 0 sends a bundle upstream *)
Definition c07c_chs : list (option N * bool * list mxc_cop) :=
  [(None, false, [MxSetEp 5%N; MxSend (mk_mxb 9 6 0)]); (Some 5%N, false, []); (Some 6%N, false, [])].
Definition c07c_cls : list (list mxc_op * bool) :=
  [([MxDeliver (mk_mxb 1 5 0); MxDeliver (mk_mxb 2 6 0); MxDeliver (mk_mxb 3 5 0); MxQuery 5%N], false); ([], true)].
Definition c07c_sched : list mxc_tid :=
  mxc_rep 4 (MxTG 0) ++ mxc_rep 4 (MxTG 1) ++ mxc_rep 4 (MxTG 2) ++ [MxTN 0]
  ++ mxc_rep 6 (MxTC 0) ++ mxc_rep 7 MxTH                       (* bundle 1: clients 0 and 1 *)
  ++ [MxTRfail 1; MxTR 1]                                       (* client 1: write error, shutdown *)
  ++ [MxTN 0; MxTK 0]                                           (* client 0 submits a bundle for 6 *)
  ++ mxc_rep 6 (MxTC 0) ++ mxc_rep 6 MxTH                       (* bundle 2: client 2 *)
  ++ mxc_rep 6 (MxTC 1) ++ mxc_rep 6 MxTH                       (* the submitted bundle: client 2 *)
  ++ mxc_rep 6 (MxTC 0) ++ mxc_rep 7 MxTH                       (* bundle 3: client 0, drained by 1 *)
  ++ mxc_rep 5 (MxTK 1) ++ [MxTR 1]                             (* client 1 is unregistered *)
  ++ mxc_rep 4 (MxTC 0).                                        (* HasEndpoint 5 *)
Example C07_conc_example :
  option_map (fun s => (mxc_settled s, mxs_children s,
                        map (fun ch => map mxb_id (mxh_log ch)) (mxs_chs s),
                        map mxl_res (mxs_cls s)))
             (mxc_run mxc_real (mxc_init c07c_chs c07c_cls) c07c_sched)
  = Some (true, [0; 2], [[1; 3]; [1]; [2; 9]]%N,
          [[MxSent (mk_mxb 1 5 0); MxSent (mk_mxb 2 6 0); MxSent (mk_mxb 3 5 0); MxHas 5%N true [5; 6]%N];
           [MxSent (mk_mxb 9 6 0)]]).
Proof. vm_compute. reflexivity. Qed.

(* with the drain loop the schedule of the first witness does not get stuck ... *)
Example C07_conc_example_drain :
  option_map (fun s => mxc_stuck mxc_real s) (mxc_run mxc_real (mxc_init mxc_w1_chs mxc_w1_cls) mxc_w1_sched)
  = Some false.
Proof. vm_compute. reflexivity. Qed.
(* ... and the PingAgent as it is now answers four pings in a row (pongs for an endpoint nobody registered) *)
Definition c07c_pong (k : N) : mxc_bundle := mk_mxb k 100 100.
Example C07_conc_example_pings :
  option_map (fun s => (mxc_settled s, map mxb_id (mxh_log (mxc_getc s 0)), map (@length _) (map mxl_res (mxs_cls s))))
    (mxc_run mxc_real (mxc_init [mxc_kind_ping 7%N [c07c_pong 1; c07c_pong 2; c07c_pong 3; c07c_pong 4]] mxc_w3_cls)
       (mxc_rep 4 (MxTG 0)
        ++ mxc_rep 4 (MxTC 0) ++ mxc_rep 4 MxTH ++ mxc_rep 4 (MxTC 0) ++ mxc_rep 4 MxTH
        ++ mxc_rep 4 (MxTC 0) ++ mxc_rep 4 MxTH ++ mxc_rep 4 (MxTC 0) ++ mxc_rep 4 MxTH
        ++ [MxTN 0; MxTK 0] ++ mxc_rep 3 (MxTC 1) ++ [MxTN 0; MxTK 0] ++ mxc_rep 3 (MxTC 1)
        ++ [MxTN 0; MxTK 0] ++ mxc_rep 3 (MxTC 1) ++ [MxTN 0; MxTK 0] ++ mxc_rep 3 (MxTC 1)))
  = Some (true, [1; 2; 3; 4]%N, [4; 4]).
Proof. vm_compute. reflexivity. Qed.
