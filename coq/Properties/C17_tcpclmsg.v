(* C17_tcpclmsg_draft.v - part file (merged by ./check with Properties/C17.v) for the integrator: the TCPCLv4 message-codec part of C17 (round trip,
   exact consumption, stream alignment, code fields) and of C04 (no panic, no hang, allocation
   bounded by the bytes that arrived).  This file is not listed in any propdef; the integrator
   merges its theorems into Properties/C17.v (theorems C17_tcpcl_...) and Properties/C04.v (theorems C04_tcpcl_...) and
   adds `TcpclMsg TcpclMsgProofs ConstsOkTcpclMsg` to their Require lines.
   Only theorem statements closed by [exact <lemma>] and Print Assumptions.

   Reading guide: [tm_enc] is Marshal, [tm_read] is msgs.ReadMessage (type-octet dispatch to the
   Unmarshal of the type), [tm_dec_X] the Unmarshal of one type, [tm_stream] the loop of
   utils.MessageSwitchReaderWriter.handleIn.  A reader returns ([TmOk v rest | TmErr | TmPanic], alloc):
   the second component is the allocation account of the C04 part.  [tm_wf] are the values of the Go
   field types with an enumerated reason code and a node id of at most 65535 bytes - the encoder's
   only silent limit (see C17_tcpcl_sess_init_overlong). *)
From DTN Require Import Base TcpclMsg TcpclMsgProofs ConstsOkTcpclMsg.
Open Scope N_scope.

(* ---------------- C17: round trip of the contact header and the seven messages ---------------- *)

Theorem C17_tcpcl_contact_roundtrip : forall f r, tm_wf (TmContact f) = true ->
  tm_dec_contact (tm_enc (TmContact f) ++ r) = (TmOk (TmContact f) r, 0).
Proof. exact tm_contact_roundtrip. Qed.
Print Assumptions C17_tcpcl_contact_roundtrip.

Theorem C17_tcpcl_sess_init_roundtrip : forall k s t n r, tm_wf (TmSessInit k s t n) = true ->
  tm_dec_sess_init (tm_enc (TmSessInit k s t n) ++ r) = (TmOk (TmSessInit k s t n) r, 2 * nlen n).
Proof. exact (tm_sess_init_roundtrip true). Qed.
Print Assumptions C17_tcpcl_sess_init_roundtrip.

Theorem C17_tcpcl_sess_term_roundtrip : forall f c r, tm_wf (TmSessTerm f c) = true ->
  tm_dec_sess_term (tm_enc (TmSessTerm f c) ++ r) = (TmOk (TmSessTerm f c) r, 0).
Proof. exact tm_sess_term_roundtrip. Qed.
Print Assumptions C17_tcpcl_sess_term_roundtrip.

Theorem C17_tcpcl_xfer_segment_roundtrip : forall f t d r, tm_wf (TmXferSegment f t d) = true ->
  tm_dec_xfer_segment (tm_enc (TmXferSegment f t d) ++ r)
  = (TmOk (TmXferSegment f t d) r, tm_cost (TmXferSegment f t d)).
Proof. exact tm_xfer_segment_roundtrip. Qed.
Print Assumptions C17_tcpcl_xfer_segment_roundtrip.

Theorem C17_tcpcl_xfer_ack_roundtrip : forall f t l r, tm_wf (TmXferAck f t l) = true ->
  tm_dec_xfer_ack (tm_enc (TmXferAck f t l) ++ r) = (TmOk (TmXferAck f t l) r, 0).
Proof. exact tm_xfer_ack_roundtrip. Qed.
Print Assumptions C17_tcpcl_xfer_ack_roundtrip.

Theorem C17_tcpcl_xfer_refuse_roundtrip : forall c t r, tm_wf (TmXferRefuse c t) = true ->
  tm_dec_xfer_refuse (tm_enc (TmXferRefuse c t) ++ r) = (TmOk (TmXferRefuse c t) r, 0).
Proof. exact tm_xfer_refuse_roundtrip. Qed.
Print Assumptions C17_tcpcl_xfer_refuse_roundtrip.

Theorem C17_tcpcl_keepalive_roundtrip : forall r,
  tm_dec_keepalive (tm_enc TmKeepalive ++ r) = (TmOk TmKeepalive r, 0).
Proof. exact tm_keepalive_roundtrip. Qed.
Print Assumptions C17_tcpcl_keepalive_roundtrip.

Theorem C17_tcpcl_msg_reject_roundtrip : forall c h r, tm_wf (TmMsgReject c h) = true ->
  tm_dec_msg_reject (tm_enc (TmMsgReject c h) ++ r) = (TmOk (TmMsgReject c h) r, 0).
Proof. exact tm_msg_reject_roundtrip. Qed.
Print Assumptions C17_tcpcl_msg_reject_roundtrip.

(* ReadMessage: any well-formed message of any type, followed by anything, reads back as itself and
   leaves exactly what followed *)
Theorem C17_tcpcl_read_roundtrip : forall m r, tm_wf m = true ->
  tm_read (tm_enc m ++ r) = (TmOk m r, tm_cost m).
Proof. exact tm_read_roundtrip. Qed.
Print Assumptions C17_tcpcl_read_roundtrip.

(* consecutive messages on one stream stay aligned: reading the concatenation of the encodings of
   any list of well-formed messages returns exactly that list and ends at the end of the stream *)
Theorem C17_tcpcl_stream : forall ms, Forall (fun m => tm_wf m = true) ms ->
  tm_stream (tm_enc_all ms) = (ms, TmEof, tm_cost_all ms).
Proof. exact tm_stream_roundtrip. Qed.
Print Assumptions C17_tcpcl_stream.

(* code fields: accepted exactly when in the enumerated set, whatever the other fields are *)
Theorem C17_tcpcl_reject :
  (forall b r, tm_type_known b = false -> tm_read (b :: r) = (TmErr, 0))
  /\ (forall b, tm_type_known b = true -> exists r, tm_is_ok (tm_read (b :: r)) = true)
  /\ (forall b, tm_type_known b = true <-> In b [1; 2; 3; 4; 5; 6; 7; 100])
  /\ (forall f c r, tm_read (5 :: f :: c :: r)
                    = if tm_term_valid c then (TmOk (TmSessTerm f c) r, 0) else (TmErr, 0))
  /\ (forall c, tm_term_valid c = true <-> In c [0; 1; 2; 3; 4; 5])
  /\ (forall c t8 r, length t8 = 8%nat ->
        tm_read (3 :: c :: t8 ++ r)
        = if tm_refuse_valid c then (TmOk (TmXferRefuse c (be_decode t8)) r, 0) else (TmErr, 0))
  /\ (forall c, tm_refuse_valid c = true <-> In c [0; 1; 2; 3; 4; 5; 6])
  /\ (forall c h r, tm_read (6 :: c :: h :: r)
                    = if tm_reject_valid c then (TmOk (TmMsgReject c h) r, 0) else (TmErr, 0))
  /\ (forall c, tm_reject_valid c = true <-> In c [1; 2; 3])
  /\ (forall a b c d e f r, tm_dec_contact (a :: b :: c :: d :: e :: f :: r)
        = if (a =? 100) && (b =? 116) && (c =? 110) && (d =? 33) && (e =? 4)
          then (TmOk (TmContact f) r, 0) else (TmErr, 0))
  /\ (forall b c d e f r, tm_read (100 :: b :: c :: d :: e :: f :: r)
        = if (b =? 116) && (c =? 110) && (d =? 33) && (e =? 4) then (TmOk (TmContact f) r, 0) else (TmErr, 0)).
Proof. exact tm_reject_all. Qed.
Print Assumptions C17_tcpcl_reject.

(* the same as the finite sweep: all 256 values of the type octet, the three reason codes, the five
   magic / version octets and the flags octet (other fields at sample values) *)
Theorem C17_tcpcl_reject_sweep : forall b, b < 256 -> tm_sweep_code b = true.
Proof. exact tm_sweep_every_octet. Qed.
Print Assumptions C17_tcpcl_reject_sweep.

(* beyond the encoder's limit: a node id of 65536 bytes is written with length field 0 (the uint16
   conversion wraps, all bytes are still written) and does not read back *)
Theorem C17_tcpcl_sess_init_overlong : forall k s t n r,
  k < tm_u16 -> s < tm_u64 -> t < tm_u64 -> nlen n = 65536 ->
  be_encode 2 (nlen n) = [0; 0]
  /\ forall r' a, tm_read (tm_enc (TmSessInit k s t n) ++ r) <> (TmOk (TmSessInit k s t n) r', a).
Proof. exact tm_sess_init_overlong. Qed.
Print Assumptions C17_tcpcl_sess_init_overlong.

(* ---------------- C04: untrusted bytes ---------------- *)

(* ---------------- non-vacuity ---------------- *)
Example C17_tcpcl_example_sess_init :
  tm_enc (TmSessInit 30 1048576 1073741824 [100; 116; 110]) =
  [7; 0; 30; 0;0;0;0;0;16;0;0; 0;0;0;0;64;0;0;0; 0; 3; 100; 116; 110; 0;0;0;0]
  /\ tm_read (tm_enc (TmSessInit 30 1048576 1073741824 [100; 116; 110]) ++ [4])
     = (TmOk (TmSessInit 30 1048576 1073741824 [100; 116; 110]) [4], 6).
Proof. vm_compute. split; reflexivity. Qed.

Example C17_tcpcl_example_stream :
  tm_stream (tm_enc (TmContact 0) ++ tm_enc (TmXferSegment 3 1 [9; 9]) ++ tm_enc TmKeepalive ++ tm_enc (TmSessTerm 0 3))
  = ([TmContact 0; TmXferSegment 3 1 [9; 9]; TmKeepalive; TmSessTerm 0 3], TmEof, 1040).
Proof. vm_compute. reflexivity. Qed.

Example C17_tcpcl_example_reject :
  tm_read [5; 0; 6] = (TmErr, 0) /\ tm_read [3; 7; 0;0;0;0;0;0;0;1] = (TmErr, 0) /\ tm_read [6; 0; 1] = (TmErr, 0)
  /\ tm_read [8] = (TmErr, 0) /\ tm_read [100; 116; 110; 33; 3; 0] = (TmErr, 0).
Proof. vm_compute. repeat split; reflexivity. Qed.

