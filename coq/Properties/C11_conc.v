(* C11 (part: goroutine / channel network of an established TCPCLv4 session) - "... the send call
   returns success only if the receiver obtained the complete transfer ...; this also holds while
   both sides send several bundles concurrently".
   Only theorem statements closed by [exact <lemma>] and Print Assumptions, plus examples.

   Model: Model/TcpclConc.v - processes = MessageSwitch reader / writer, SessEstablishedStage,
   TransferManager.handle, per Send call its emitting goroutine and its main loop, Client.handle,
   the consumer of Client.Channel(); channels with their capacities ([tcn_conf]; the capacities of
   the code are [tcn_real], tied to the Go literals by ConstsOkTcpclConc); the transport is a FIFO
   of T messages per direction, T = 0 is a rendezvous (net.Pipe).  One step = one channel
   operation; [cf_fix] = commit b52fcd3 present.  Proofs: Proofs/TcpclConcProofs.v (one session
   against the ideal peer), Proofs/TcpclConcPair.v (two sessions back to back).

   "live" process = any but the timers (keepalive tick, the 10 s timeout of Send); a stall is a
   state in which no live process can step.  All four progress / stall theorems are unbounded:
   they hold for every channel capacity >= 1, every transport capacity T, every number of Send
   calls and segments; the witnesses are for the capacities of the code over net.Pipe. *)
From DTN Require Import Base TcpclConc TcpclConcProofs TcpclConcPair ConstsOkTcpclConc.
Open Scope nat_scope.

(* ---- ONE session against the ideal peer ---- *)
(* The peer keeps reading whatever the session writes, acknowledges every segment it reads, and
   writes the messages of [script] - any sequence of segments of any transfers, pipelined, and
   keepalives - at any speed.  The session itself runs [length ns] concurrent Send calls of
   [ns_i] segments each.  With the repair b52fcd3, for all capacities >= 1 and every reachable
   state of a run without Send timeouts: some live process can step, or everything is finished:
   the peer has been sent exactly the acknowledgements owed for what it wrote, every complete
   incoming transfer has been handed up exactly once and in order, every Send has returned success
   after the peer read exactly its segments, and the peer has nothing left to write. *)
Theorem C11_session_receiver_progress : forall cf ns ticks script ps y,
  cf_fix cf = true -> tcn_caps_ok cf ->
  Forall (fun n => 1 <= n) ns -> tcn_script_live script ->
  tcn_erun cf (tcn_sys0 ns ticks script) ps = Some y -> tcn_elive_run ps ->
  (exists p y', tcn_elive p = true /\ tcn_estep cf y p = Some y') \/ tcn_efinal ns script y.
Proof. exact tcn_session_progress. Qed.
Print Assumptions C11_session_receiver_progress.

(* the capacities of the code satisfy the hypotheses, whatever the transport holds *)
Theorem C11_session_receiver_progress_real : forall T, cf_fix (tcn_real true T) = true /\ tcn_caps_ok (tcn_real true T).
Proof. exact (fun T => conj eq_refl (tcn_caps_real true T)). Qed.
Print Assumptions C11_session_receiver_progress_real.

(* Defect (1), the code WITHOUT b52fcd3 (capacities of the code, net.Pipe): the peer pipelines the
   66 segments of one transfer; the schedule [tcn_burst_run] ends in a state in which no live process
   can step although nothing has been acknowledged to the peer and nothing handed up: the stage
   waits for space in ExchangeMsgIn (32 of 32) while TransferManager.handle waits for space in
   ExchangeMsgOut (32 of 32) with the 33rd acknowledgement. *)
Theorem C11_session_receiver_stalls_without_fix :
  let cf := tcn_real false 0 in
  let ps := fst (tcn_burst_run false 0 66) in
  let y := snd (tcn_burst_run false 0 66) in
  tcn_erun cf (tcn_sys0 [] 0 (tcn_xsegs 0 66)) ps = Some y
  /\ tcn_elive_run ps
  /\ tcn_estuck cf y = true
  /\ filter tcn_is_ack (ev_got (sy_e y)) = [] /\ tcn_up (sy_s y) = []
  /\ length (tcn_acks [] (tcn_xsegs 0 66)) = 66 /\ tcn_ups (tcn_xsegs 0 66) = [0]
  /\ tcn_st (sy_s y) = GUp (CSeg 0 true) /\ tcn_h (sy_s y) = HAckOut (CAck 0 33) None
  /\ length (tcn_xin (sy_s y)) = 32 /\ length (tcn_xout (sy_s y)) = 32.
Proof. exact tcn_burst_stalls_without_fix. Qed.
Print Assumptions C11_session_receiver_stalls_without_fix.

(* Send: for every interleaving of the session's processes with the peer (any capacities, with or
   without the repair, timeouts and keepalive ticks included, the peer may also refuse transfers):
   when Send i has returned success, the peer has read exactly the segments of transfer i - all
   of them, in order, the last one with the END flag. *)
Theorem C11_send_success_sound_conc : forall cf ns ticks script ps y i d,
  Forall (fun n => 1 <= n) ns -> Forall (fun m => tcn_is_ack m = false) script ->
  tcn_erun cf (tcn_sys0 ns ticks script) ps = Some y ->
  nth_error (tcn_snd (sy_s y)) i = Some d -> sd_res d = Some ROk ->
  filter (tcn_is_seg_of i) (ev_got (sy_e y)) = tcn_xsegs i (sd_n d) /\ nth_error ns i = Some (sd_n d).
Proof. exact tcn_send_success_sound. Qed.
Print Assumptions C11_send_success_sound_conc.

(* ---- a PAIR of sessions, back to back ---- *)
(* Known finding tcpcl.pair.bulk-both-directions-stalls as a theorem (capacities of the code,
   net.Pipe, b52fcd3 present): with 67 single-segment bundles in flight per side a state is
   reachable in which no live process can step and no Send has returned. *)
Theorem C11_pair_bulk_stall_refuted :
  exists s ps y,
    tcn_prun (tcn_real true 0) (tcn_pair0 (repeat 1 s) (repeat 1 s) 0 0) ps = Some y
    /\ tcn_plive_run ps /\ tcn_pstuck (tcn_real true 0) y = true /\ tcn_pdone y = false
    /\ s + s = tcn_stall_need (tcn_real true 0) /\ s = 67.
Proof. exact tcn_pair_bulk_stall. Qed.
Print Assumptions C11_pair_bulk_stall_refuted.

(* FINDING: traffic in ONE direction is enough.  A sends 134 single-segment bundles, B sends nothing
   and only acknowledges: a stall is reachable (the acknowledgements fill B's outChan, the
   transport and A's inChan while A's stage keeps choosing ExchangeMsgOut in its select). *)
Theorem C11_pair_one_direction_stall_refuted :
  exists s ps y,
    tcn_prun (tcn_real true 0) (tcn_pair0 (repeat 1 s) [] 0 0) ps = Some y
    /\ tcn_plive_run ps /\ tcn_pstuck (tcn_real true 0) y = true /\ tcn_pdone y = false
    /\ s = tcn_stall_need (tcn_real true 0) /\ s = 134.
Proof. exact tcn_pair_one_direction_stall. Qed.
Print Assumptions C11_pair_one_direction_stall_refuted.

(* The shape and the price of every stall of the pair (all capacities >= 1, all T, all numbers of
   Sends and segments, runs without timeouts and ticks): if no live process can step and not all
   Sends have returned success, then on both sides the stage is inside messageOut, outChan and
   inChan are full, the writer holds a message, the transport is full and the reader holds a
   message - and the Sends of both sides together have at least
   2 * (inChan + outChan + T + 3) segments emitted but not yet acknowledged to them. *)
Theorem C11_pair_stall_window : forall cf nsa nsb ta tb ps y,
  cf_fix cf = true -> tcn_caps_ok cf ->
  Forall (fun n => 1 <= n) nsa -> Forall (fun n => 1 <= n) nsb ->
  tcn_prun cf (tcn_pair0 nsa nsb ta tb) ps = Some y -> tcn_plive_run ps ->
  tcn_pstuck cf y = true -> tcn_pdone y = false ->
  tcn_jammed cf (pa_a y) (pa_ba y) /\ tcn_jammed cf (pa_b y) (pa_ab y)
  /\ tcn_stall_need cf <= tcn_inflight (pa_a y) + tcn_inflight (pa_b y).
Proof. exact tcn_pair_stall_window. Qed.
Print Assumptions C11_pair_stall_window.

(* Traffic in one direction only (B has no Send, it only acknowledges): the pair cannot stall - under
   the hypothesis that excludes exactly the defect, i.e. as long as A has fewer than
   2 * (inChan + outChan + T + 3) segments to send altogether (134 for the code over net.Pipe): in
   every reachable state some live process can step or all Sends have returned success. *)
Theorem C11_pair_progress_one_direction : forall cf nsa ta tb ps y,
  cf_fix cf = true -> tcn_caps_ok cf -> Forall (fun n => 1 <= n) nsa ->
  list_sum nsa < tcn_stall_need cf ->
  tcn_prun cf (tcn_pair0 nsa [] ta tb) ps = Some y -> tcn_plive_run ps ->
  (exists p y', tcn_live (snd p) = true /\ tcn_pstep cf y p = Some y') \/ tcn_pdone y = true.
Proof. exact tcn_pair_progress_one_direction. Qed.
Print Assumptions C11_pair_progress_one_direction.

(* the same for traffic in both directions *)
Theorem C11_pair_progress_window : forall cf nsa nsb ta tb ps y,
  cf_fix cf = true -> tcn_caps_ok cf ->
  Forall (fun n => 1 <= n) nsa -> Forall (fun n => 1 <= n) nsb ->
  list_sum nsa + list_sum nsb < tcn_stall_need cf ->
  tcn_prun cf (tcn_pair0 nsa nsb ta tb) ps = Some y -> tcn_plive_run ps ->
  (exists p y', tcn_live (snd p) = true /\ tcn_pstep cf y p = Some y') \/ tcn_pdone y = true.
Proof. exact tcn_pair_progress_small. Qed.
Print Assumptions C11_pair_progress_window.

(* ---- the capacities are the ones of the code ---- *)
Theorem C11_conc_capacities : forall fx T,
  tcn_real fx T = mkTcnConf fx 32 32 32 32 32 32 T
  /\ tcn_stall_need (tcn_real fx T) = 2 * (67 + T).
Proof. exact (fun fx T => conj (tcn_real_caps fx T) (tcn_stall_need_real fx T)). Qed.
Print Assumptions C11_conc_capacities.

(* ---- non-vacuity and scaling ---- *)
(* the same burst with the repair runs to the end: 66 acknowledgements at the peer, the bundle handed up *)
Example C11_conc_example_burst_with_fix :
  let y := snd (tcn_burst_run true 0 66) in
  tcn_estuck (tcn_real true 0) y = true
  /\ length (filter tcn_is_ack (ev_got (sy_e y))) = 66 /\ tcn_up (sy_s y) = [0].
Proof. exact tcn_burst_completes_with_fix. Qed.

(* the stalled states, and: one bundle less runs to the end under the same schedules *)
Example C11_conc_example_stall_details :
  let cf := tcn_real true 0 in
  let y2 := snd (tcn_both_run cf 67) in
  let y1 := snd (tcn_one_run cf 67 134) in
  tcn_inflight (pa_a y2) + tcn_inflight (pa_b y2) = 134 /\ tcn_up (pa_a y2) = [] /\ tcn_up (pa_b y2) = []
  /\ tcn_st (pa_a y2) = GOut (CSeg 66 true) /\ tcn_st (pa_b y2) = GOut (CSeg 66 true)
  /\ tcn_inflight (pa_a y1) = 134 /\ length (tcn_up (pa_b y1)) = 67
  /\ tcn_st (pa_a y1) = GOut (CSeg 133 true) /\ tcn_st (pa_b y1) = GOut (CAck 66 1)
  /\ tcn_pair_done_check cf (repeat 1 66) (repeat 1 66) (fst (tcn_both_run cf 66)) = true
  /\ tcn_pair_done_check cf (repeat 1 133) [] (fst (tcn_one_run cf 67 133)) = true.
Proof. exact tcn_pair_stall_details. Qed.

(* scaling: all six channels of capacity 1 over net.Pipe stall from 10 segments on (5 + 5, or 10 in
   one direction) and not with one less under the same schedules; the code over a transport that
   holds 2 messages per direction needs 138 *)
Example C11_conc_example_scaled :
  tcn_stall_need (tcn_scaled true 1 0) = 10
  /\ tcn_pair_stall_check (tcn_scaled true 1 0) (repeat 1 5) (repeat 1 5) (fst (tcn_both_run (tcn_scaled true 1 0) 5)) = true
  /\ tcn_pair_done_check (tcn_scaled true 1 0) (repeat 1 4) (repeat 1 4) (fst (tcn_both_run (tcn_scaled true 1 0) 4)) = true
  /\ tcn_pair_stall_check (tcn_scaled true 1 0) (repeat 1 10) [] (fst (tcn_one_run (tcn_scaled true 1 0) 5 10)) = true
  /\ tcn_pair_done_check (tcn_scaled true 1 0) (repeat 1 9) [] (fst (tcn_one_run (tcn_scaled true 1 0) 5 9)) = true
  /\ tcn_stall_need (tcn_real true 2) = 138
  /\ tcn_pair_stall_check (tcn_real true 2) (repeat 1 69) (repeat 1 69) (fst (tcn_both_run (tcn_real true 2) 69)) = true
  /\ tcn_pair_stall_check (tcn_real true 2) (repeat 1 138) [] (fst (tcn_one_run (tcn_real true 2) 69 138)) = true.
Proof. exact tcn_pair_stall_scaled. Qed.

(* a Send that succeeds in the model: two segments, the peer acknowledges both *)
Example C11_conc_example_send_ok :
  let ps := [ESess (PEmit 0); ESess (PEmit 0); ESess PStOut; ESess PStPut; ESess PWTake; ESess PWWrite; ERead;
             ESess (PEmit 0); ESess (PEmit 0); ESess PStOut; ESess PStPut; ESess PWTake; ESess PWWrite; ERead;
             ESess (PEmit 0); ESess (PSendLen 0);
             EWAck; ESess PRPush; ESess PStIn; ESess PStIn; ESess PH; ESess PH; ESess (PSendAck 0);
             EWAck; ESess PRPush; ESess PStIn; ESess PStIn; ESess PH; ESess PH; ESess (PSendAck 0)] in
  option_map (fun y => (map sd_res (tcn_snd (sy_s y)), ev_got (sy_e y)))
             (tcn_erun (tcn_real true 0) (tcn_sys0 [2] 0 []) ps)
  = Some ([Some ROk], [CSeg 0 false; CSeg 0 true]).
Proof. vm_compute. reflexivity. Qed.
