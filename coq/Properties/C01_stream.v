(* C01, part "stream": consequences of exact consumption for streams of bundles (MTCP, TCPCL segments,
   files of concatenated bundles): any number of valid bundles written behind each other is read back as
   exactly that list, the encoding is injective (lossless) and prefix-free (a reader can never stop
   early or late on a valid encoding). *)
From DTN Require Import Base Cbor Crc Eid Bundle BundleStream BundleWf BundleProofs ValidProofs DecodeWf BundleStreamProofs.
Open Scope N_scope.



(* Every list of valid bundles, of any length and sizes, serialised back to back and followed by anything,
   is parsed back as exactly that list, leaving exactly what followed. *)
Theorem C01_stream : forall now l tail, Forall (good now) l ->
  exists bss, Forall2 (fun b bs => enc_bundle b = Some bs) l bss
              /\ dec_bundles now (length l) (concat bss ++ tail) = Some (l, tail).
Proof. exact stream_roundtrip. Qed.
Print Assumptions C01_stream.


(* Lossless: two valid bundles with the same serialisation are the same bundle (in every field and block). *)
Theorem C01_injective : forall now b1 b2 bs, good now b1 -> good now b2 ->
  enc_bundle b1 = Some bs -> enc_bundle b2 = Some bs -> b1 = b2.
Proof. exact enc_injective. Qed.
Print Assumptions C01_injective.


(* Prefix-free: no valid serialisation is a proper prefix of another one, so a stream reader that has
   consumed a complete bundle has consumed neither too little nor too much. *)
Theorem C01_prefix_free : forall now b1 b2 bs1 bs2 ext, good now b1 -> good now b2 ->
  enc_bundle b1 = Some bs1 -> enc_bundle b2 = Some bs2 -> bs2 = bs1 ++ ext -> ext = [] /\ b1 = b2.
Proof. exact enc_prefix_free. Qed.
Print Assumptions C01_prefix_free.

(* non-vacuity: a stream of three concrete bundles (two different ones, one repeated) *)
Definition sx_a : bundle :=
  {| b_pri := {| p_flags := 4; p_crc := 2; p_dst := Dtn [100] [97]; p_src := Ipn 23 42; p_rpt := DtnNone;
                 p_time := 0; p_seq := 256; p_life := 65536; p_off := 0; p_total := 0 |};
     b_blocks := [ {| c_num := 2; c_flags := 0; c_crc := 1; c_val := XAge 24 |};
                   {| c_num := 1; c_flags := 0; c_crc := 0; c_val := XPayload [1; 2; 3] |} ] |}.
Definition sx_b : bundle :=
  {| b_pri := {| p_flags := 4; p_crc := 1; p_dst := Ipn 1 2; p_src := Dtn [100] [97]; p_rpt := DtnNone;
                 p_time := 0; p_seq := 23; p_life := 24; p_off := 0; p_total := 0 |};
     b_blocks := [ {| c_num := 2; c_flags := 0; c_crc := 2; c_val := XAge 0 |};
                   {| c_num := 1; c_flags := 0; c_crc := 2; c_val := XPayload [] |} ] |}.
Example C01_stream_example : Forall (good 1000) [sx_a; sx_b; sx_a]
  /\ dec_bundles 1000 3 (concat (map bundle_bytes [sx_a; sx_b; sx_a]) ++ [255]) = Some ([sx_a; sx_b; sx_a], [255]).
Proof. split; [repeat constructor; vm_compute; reflexivity | vm_compute; reflexivity]. Qed.
