(* C20 - DTLSR forwards along a least-cost path of the known link-state graph.
   Only theorem statements closed by [exact <lemma>] and Print Assumptions.

   Vocabulary (Proofs/DtlsrProofs.v): [is_path g u p v] - p is a list of arcs of g leading from u
   to v; [pcost] its cost; [min_cost g s t r] - r is the minimum cost of a path s ~> t, None iff
   there is none; [optimal_first_hop g d h] - an arc 0 -> h of g starts a loop-free path to d whose
   cost is minimal among all paths 0 ~> d; [dt_inv] / [dt_past] - state invariant / every recorded
   loss time is <= now ("lost at a past time"); [first_max l b] - b is the first record of l
   carrying the greatest timestamp. *)
From DTN Require Import Base Dtlsr DtlsrProofs ConstsOkDtlsr.
Local Open Scope nat_scope.

(* The reference shortest-path function (Bellman-Ford over the arc list) returns the minimum path
   cost, and None exactly when there is no path: for every finite graph with non-negative costs. *)
Theorem C20_bf_correct : forall n g s t, wf_graph n g -> nonneg g -> s < n ->
  min_cost g s t (dt_dist n g s t).
Proof. exact bf_correct. Qed.
Print Assumptions C20_bf_correct.

(* After every recomputation, in every state reachable by any history of link-state arrivals, peer
   appearances / disappearances, purges and recomputations, with all losses in the past: every table
   entry dest -> hop is an optimal first hop in the graph built from the known link state; a tracked
   node has an entry exactly when the graph contains a path to it; at most one entry per node. *)
Theorem C20_table_spec : forall self ts0 ops now,
  let st := dt_run (dt_init self ts0) ops in
  dt_past st now ->
  let idx := dt_index st in
  let g := dt_graph st now in
  let tbl := dt_table (dt_compute st now) in
  (forall dest hop, In (dest, hop) tbl ->
     exists d h, nth_error idx d = Some dest /\ nth_error idx h = Some hop /\ 1 <= d /\ optimal_first_hop g d h) /\
  (forall d dest, 1 <= d -> nth_error idx d = Some dest ->
     ((exists hop, In (dest, hop) tbl) <-> (exists p, is_path g 0 p d))) /\
  (forall dest h1 h2, In (dest, h1) tbl -> In (dest, h2) tbl -> h1 = h2).
Proof. intros self ts0 ops now st Hp. exact (table_spec st now (dt_run_inv ops _ (dt_init_inv self ts0)) Hp). Qed.
Print Assumptions C20_table_spec.

(* ... and the next hop is one of the node's own current (t = 0, cost 0) or recently lost (lost at t,
   not yet purged, cost now - t) neighbours - provided no stored record claims the node's own ID. *)
Theorem C20_next_hop_is_neighbour : forall self ts0 ops now,
  let st := dt_run (dt_init self ts0) ops in
  dt_past st now -> dt_recv_get (dt_self st) (dt_recv st) = None ->
  forall dest hop, In (dest, hop) (dt_table (dt_compute st now)) ->
  exists t, In (hop, t) (dt_own st) /\
            exists a, In a (dt_graph st now) /\ arc_src a = 0 /\ nth_error (dt_index st) (arc_dst a) = Some hop /\
                      arc_cost a = dt_edge_cost now t.
Proof. intros self ts0 ops now st Hp. exact (table_hop_is_neighbour st now (dt_run_inv ops _ (dt_init_inv self ts0)) Hp). Qed.
Print Assumptions C20_next_hop_is_neighbour.

(* Without that hypothesis the statement is false for the code as it is: a stored record claiming the
   node's own ID (NotifyNewBundle does not look at the ID) contributes arcs leaving vertex 0, so the
   table can name a next hop that is not in the node's own peer list.  (Modelled quirk, not repaired;
   the node's own broadcast is harmless - it carries the own peer list itself.) *)
Theorem C20_next_hop_is_neighbour_refuted : exists ops now dest hop,
  let st := dt_run (dt_init 0 0) ops in
  dt_past st now /\ In (dest, hop) (dt_table (dt_compute st now)) /\ forall t, ~ In (hop, t) (dt_own st).
Proof.
  exists [DtNotify (mk_pd 0 5 [(7, 0)]%N)], 100%N, 7%N, 7%N. cbv zeta. split; [|split].
  - split; cbn; [intros p t []|]. intros d p t [<-|[]] [E|[]]. inversion E. lia.
  - vm_compute. left. reflexivity.
  - intros t H. cbn in H. exact H.
Qed.
Print Assumptions C20_next_hop_is_neighbour_refuted.

(* A neighbour that is connected now - the last appearance / disappearance event about it is an
   appearance - is live (loss time 0, link cost 0) in the node's own link state after EVERY history:
   lost and come back before the purge, purged and come back, any number of times; no purge removes
   it while it is connected.  (Together with C20_table_spec: the next hop is the first hop of a
   least-cost path in the graph in which the links to the connected neighbours cost 0.) *)
Theorem C20_connected_neighbour_live : forall st ops p now,
  dt_connected ops p = true ->
  dt_assoc_get p (dt_own (dt_run st ops)) = Some 0%N /\
  In (p, 0%N) (dt_own (dt_run st ops)) /\ dt_edge_cost now 0 = 0%Z.
Proof. exact connected_neighbour_live. Qed.
Print Assumptions C20_connected_neighbour_live.

(* The checkers the correspondence run applies to the routing table produced by the Go code decide
   exactly the property's predicates. *)
Theorem C20_checker_exact : forall n g d h, wf_graph n g -> nonneg g -> 0 < n ->
  (dt_ofh_b n g d h = true <-> optimal_first_hop g d h) /\
  (dt_reachable_b n g d = true <-> exists p, is_path g 0 p d).
Proof. intros. split; [apply ofh_b_iff|apply reachable_b_iff]; assumption. Qed.
Print Assumptions C20_checker_exact.

(* Link-state replacement: in every history (any interleaving, any arrival order) the record stored
   for a node is the first-arrived one among those with the greatest timestamp ... *)
Theorem C20_replace : forall ops st id, dt_recv_get id (dt_recv st) = None ->
  match dt_recv_get id (dt_recv (dt_run st ops)) with
  | Some b => first_max (notifs_of id ops) b
  | None => notifs_of id ops = []
  end.
Proof. exact replace_spec. Qed.
Print Assumptions C20_replace.

(* ... so the winning timestamp does not depend on the arrival order (nor does the record, when the
   timestamps are pairwise distinct) ... *)
Theorem C20_replace_any_order : forall l1 l2 b1 b2, Permutation.Permutation l1 l2 -> first_max l1 b1 -> first_max l2 b2 ->
  pd_ts b1 = pd_ts b2 /\ (NoDup (map pd_ts l1) -> b1 = b2).
Proof. exact replace_order_independent. Qed.
Print Assumptions C20_replace_any_order.

(* ... and a stored record is replaced only by a record of the same node with a strictly newer timestamp. *)
Theorem C20_replace_only_newer : forall st o id old,
  dt_recv_get id (dt_recv st) = Some old ->
  dt_recv_get id (dt_recv (dt_step st o)) = Some old \/
  exists d, o = DtNotify d /\ pd_id d = id /\ (pd_ts old < pd_ts d)%N /\ dt_recv_get id (dt_recv (dt_step st o)) = Some d.
Proof. exact replace_only_newer. Qed.
Print Assumptions C20_replace_only_newer.

(* Forwarding, unicast: apart from direct delivery to connected senders of the destination node, the
   bundle is handed to at most one sender - the table's next hop for the destination - and is released
   exactly when a sender was chosen. *)
Theorem C20_forward : forall table senders sent dest chosen sent' del,
  dt_forward_select table senders sent false dest = (chosen, sent', del) ->
  sent' = sent /\ (del = true <-> chosen <> []) /\
  ((chosen <> [] /\ chosen = filter (N.eqb (dst_node dest)) senders) \/
   (filter (N.eqb (dst_node dest)) senders = [] /\
    (chosen = [] \/ exists h, chosen = [h] /\ dst_bare dest = true /\ dt_assoc_get (dst_node dest) table = Some h /\ In h senders))).
Proof. exact forward_unicast. Qed.
Print Assumptions C20_forward.

(* Forwarding, broadcast: over any history of offers with changing peers nobody is handed the bundle
   twice and nobody of the initially excluded (previous node); each offer covers every connected peer. *)
Theorem C20_forward_broadcast : forall calls sent, NoDup sent ->
  NoDup (sent ++ concat (dt_bcast_run sent calls)) /\
  (forall senders f s, dt_filter_clas senders sent = (f, s) -> forall p, In p senders -> In p sent \/ In p f) /\
  (forall table senders dest chosen sent' del, filter (N.eqb (dst_node dest)) senders = [] ->
     dt_forward_select table senders sent true dest = (chosen, sent', del) ->
     del = false /\ dt_filter_clas senders sent = (chosen, sent')).
Proof.
  intros calls sent H. split; [exact (bcast_once calls sent H)|]. split; [exact (fun senders => bcast_covers senders sent)|].
  intros table senders dest. exact (forward_broadcast table senders sent dest).
Qed.
Print Assumptions C20_forward_broadcast.

(* ---- non-vacuity ---- *)
(* 0 -> 1 lost 5 s ago, 0 -> 2 live, 2 -> 1 live, 1 -> 3 live, 2 -> 0 live (zero-cost link back):
   node 1 and 3 are reached through 2 at cost 0; hop 1 is not optimal for 3; nothing reaches 4. *)
Definition ex_g : list dt_arc := [(0, 1, 5000%Z); (0, 2, 0%Z); (2, 1, 0%Z); (1, 3, 0%Z); (2, 0, 0%Z)].
Example C20_example_table :
  dt_table_idx 5 ex_g = [(1, 2); (2, 2); (3, 2)]
  /\ dt_dist 5 ex_g 0 3 = Some 0%Z /\ dt_dist 5 ex_g 0 4 = None
  /\ dt_ofh_b 5 ex_g 3 2 = true /\ dt_ofh_b 5 ex_g 3 1 = false.
Proof. vm_compute. repeat split; reflexivity. Qed.

(* a neighbour with a zero-cost link back to 0 does NOT qualify for a destination only reachable
   elsewhere, although  cost(0,1) + dist(1,3) = dist(0,3)  holds through the loop 0 -> 1 -> 0 *)
Example C20_example_no_loop :
  let g := [(0, 1, 0%Z); (1, 0, 0%Z); (0, 2, 0%Z); (2, 3, 0%Z)] in
  dt_ofh_b 4 g 3 1 = false /\ dt_ofh_b 4 g 3 2 = true /\ dt_dist 4 g 1 3 = Some 0%Z.
Proof. vm_compute. repeat split; reflexivity. Qed.

(* equal timestamps: the first arrival stays; a newer one replaces; an older one does not *)
Example C20_example_replace :
  let a := mk_pd 7 10 [(1, 0)]%N in let b := mk_pd 7 10 [(2, 0)]%N in
  let c := mk_pd 7 11 [(3, 0)]%N in let d := mk_pd 7 9 []%N in
  dt_recv_get 7 (dt_recv (dt_run (dt_init 0 0) [DtNotify a; DtNotify b])) = Some a
  /\ dt_recv_get 7 (dt_recv (dt_run (dt_init 0 0) [DtNotify b; DtNotify a])) = Some b
  /\ dt_recv_get 7 (dt_recv (dt_run (dt_init 0 0) [DtNotify a; DtNotify c; DtNotify d; DtNotify b])) = Some c
  /\ dt_index (dt_run (dt_init 0 0) [DtNotify a; DtNotify c]) = [0; 7; 1; 3]%N.
Proof. vm_compute. repeat split; reflexivity. Qed.

(* a state built by a history, its graph and table: peer 1 up, peer 2 up then lost at 4000,
   node 1 reports 1 -> 3 live and 1 -> 2 live; at now = 9000 everything goes through 1 *)
Example C20_example_state :
  let st := dt_run (dt_init 0 0) [DtAppear 1 1000; DtAppear 2 2000; DtDisappear 2 4000;
                                  DtNotify (mk_pd 1 3000 [(3, 0); (2, 0)]%N); DtCron 9000]%N in
  dt_table st = [(1, 1); (2, 1); (3, 1)]%N
  /\ dt_graph st 9000%N = [(1, 2, 0%Z); (1, 3, 0%Z); (0, 2, 5000%Z); (0, 1, 0%Z)]
  /\ dt_recv_change st = false.
Proof. vm_compute. repeat split; reflexivity. Qed.

Example C20_example_forward :
  dt_forward_select [(3, 1)]%N [1; 2]%N [] false (mk_dest 3 true) = ([1], [], true)%N
  /\ dt_forward_select [(3, 1)]%N [1; 2]%N [] false (mk_dest 3 false) = ([], [], false)%N
  /\ dt_forward_select [(3, 1)]%N [1; 2; 3]%N [] false (mk_dest 3 false) = ([3], [], true)%N
  /\ dt_forward_select [(3, 1)]%N [1; 2]%N [2]%N true (mk_dest 99 true) = ([1], [2; 1], false)%N
  /\ dt_bcast_run [2]%N [[1; 2]; [1; 2; 4]; [4; 5]]%N = [[1]; [4]; [5]]%N.
Proof. vm_compute. repeat split; reflexivity. Qed.

(* a neighbour that comes back: lost at 4000, back at 5000 - live again, the purge at 9000000 (purge
   time 3050000) leaves it alone, node 3 behind it keeps its route; neighbour 2, lost and not back, is purged *)
Example C20_example_reappear :
  let ops := [DtAppear 1 1000; DtAppear 2 1500; DtDisappear 1 4000; DtDisappear 2 4500; DtAppear 1 5000;
              DtNotify (mk_pd 1 3000 [(3, 0)]%N); DtPurge 9000000 3050000; DtCompute 9000000]%N in
  let st := dt_run (dt_init 0 0) ops in
  dt_connected ops 1 = true /\ dt_connected ops 2 = false
  /\ dt_own st = [(1, 0)]%N /\ dt_table st = [(1, 1); (3, 1)]%N.
Proof. vm_compute. repeat split; reflexivity. Qed.
