(* C13 - a bundle is never sent back to where it came from, nor twice to the same peer.
   Only theorem statements closed by [exact <lemma>] and Print Assumptions.

   Model: Model/SentList.v - the life of one bundle at the node as a list of events (SlNew prev,
   SlChoose candidates budget, SlOk p, SlFail p, SlRestart persistent, SlDrop), generic over the
   algorithm: epidemic / PRoPHET / DTLSR-broadcast keep `sent` in the store (persistent = true),
   the spray variants in memory (persistent = false) and with a budget; PRoPHET's candidates are
   the peers with a better predictability; the mule wrapper reports the sensors it excludes as
   failed.  The histories are arbitrary (any peer sets in any order, any outcome of every send,
   any number of retries and restarts, any number of peers); [sl_held h] = the bundle stays in
   the store during h (no SlNew / SlDrop). *)
From DTN Require Import Base SentList SentListProofs ConstsOkSentList.
Open Scope N_scope.

(* Whatever happened before the reception, and whatever happens after it while the bundle is
   held: no choice of the algorithm contains the previous node. *)
Theorem C13_no_return : forall s0 h1 prev h2 s cands k s' chosen,
  sl_run s0 (h1 ++ SlNew (Some prev) :: h2) = Some s -> sl_held h2 ->
  sl_step s (SlChoose cands k) = Some (s', chosen) -> ~ In prev chosen.
Proof. exact sl_no_return. Qed.
Print Assumptions C13_no_return.

(* After a transmission to p was acknowledged, no later choice contains p while the bundle is
   held - across retries, peers going and coming, failures of other peers and restarts. *)
Theorem C13_no_duplicate : forall s0 h0 prev h1 p h2 s cands k s' chosen,
  sl_run s0 (h0 ++ SlNew prev :: h1 ++ SlOk p :: h2) = Some s -> sl_held h2 ->
  sl_step s (SlChoose cands k) = Some (s', chosen) -> ~ In p chosen.
Proof. exact sl_no_duplicate. Qed.
Print Assumptions C13_no_duplicate.

(* The memory survives: [sl_held] admits any number of SlChoose (retries) and SlRestart in h2
   above; in particular a restart leaves a store-kept list unchanged, and an algorithm that keeps
   it in memory offers nothing any more. *)
Theorem C13_memory_survives : forall s pers s' o,
  sl_step s (SlRestart pers) = Some (s', o) ->
  sl_sent s' = sl_sent s /\ (pers = true -> sl_alive s' = sl_alive s)
  /\ (pers = false -> forall cands k s'' chosen, sl_step s' (SlChoose cands k) = Some (s'', chosen) -> chosen = []).
Proof. exact sl_restart_keeps. Qed.
Print Assumptions C13_memory_survives.

(* A transmission reported as failed makes exactly that peer eligible again: it leaves `sent`,
   every other peer's membership is unchanged, and - after the outcomes of the other
   transmissions of the same round - an unbounded choice over candidates containing p offers p.
   (ReportFailure is one atomic step here; the lost update of two concurrent reports is C05/C18.) *)
Theorem C13_failure_reopens : forall s0 h0 prev h1 p sb s,
  sl_run s0 (h0 ++ SlNew prev :: h1) = Some sb ->
  sl_step sb (SlFail p) = Some (s, []) ->
  ~ In p (sl_sent s)
  /\ (forall q, q <> p -> (In q (sl_sent s) <-> In q (sl_sent sb)))
  /\ (forall h2 s2 cands k s3 chosen,
        Forall (sl_result_not p) h2 -> sl_run s h2 = Some s2 -> sl_alive s2 = true ->
        sl_step s2 (SlChoose cands k) = Some (s3, chosen) -> (length cands <= k)%nat ->
        In p cands -> In p chosen).
Proof. exact sl_failure_reopens. Qed.
Print Assumptions C13_failure_reopens.

(* non-vacuity: received from 1; peers 1 2 3 offered -> 2 and 3 chosen; 2 fails, 3 succeeds;
   restart; retry with 1 2 3 4 -> 2 and 4 *)
Example C13_example :
  match sl_run (sl_fresh None) [SlNew (Some 1); SlChoose [1; 2; 3] 3; SlFail 2; SlOk 3; SlRestart true] with
  | Some s => sl_step s (SlChoose [1; 2; 3; 4] 4)
              = Some ({| sl_sent := [1; 3; 2; 4]; sl_inflight := [2; 4]; sl_alive := true |}, [2; 4])
  | None => False
  end.
Proof. vm_compute. reflexivity. Qed.

(* two senders of one peer: the second is skipped; a budget of one offers one peer *)
Example C13_example_budget :
  sl_filter [] [5; 5; 6] 3 = ([5; 6], [5; 6]) /\ sl_filter [] [5; 6] 1 = ([5], [5]).
Proof. vm_compute. split; reflexivity. Qed.

(* the bundle leaves the node and is received again from another neighbour: received from 1, relayed
   to 2 and 3 (acknowledged), dropped (delivered directly and deleted / expired), received again from
   3: the old list is gone, the new previous node is recorded - offered to 1 and 2, not to 3
   (C13_no_return with h1 = everything before the second SlNew) *)
Example C13_example_received_again :
  match sl_run (sl_fresh None) [SlNew (Some 1); SlChoose [1; 2; 3] 3; SlOk 2; SlOk 3; SlDrop; SlNew (Some 3)] with
  | Some s => sl_step s (SlChoose [1; 2; 3] 3)
              = Some ({| sl_sent := [3; 1; 2]; sl_inflight := [1; 2]; sl_alive := true |}, [1; 2])
  | None => False
  end.
Proof. vm_compute. reflexivity. Qed.
