(* C04 - TCPCLv4 message decoders (part file, merged by ./check with Properties/C04.v). *)
From DTN Require Import Base TcpclMsg TcpclMsgProofs ConstsOkTcpclMsg.
Open Scope N_scope.

(* ---------------- C17: round trip of the contact header and the seven messages ---------------- *)

(* ReadMessage on any byte string returns a value or an error: it never panics *)
Theorem C04_tcpcl_no_panic : forall bs, bytes_ok bs = true -> fst (tm_read bs) <> TmPanic.
Proof. exact tm_read_no_panic. Qed.
Print Assumptions C04_tcpcl_no_panic.

(* what it allocates by sizes taken from the wire is at most 8 x the bytes present + 65535 *)
Theorem C04_tcpcl_alloc_bounded : forall bs, bytes_ok bs = true ->
  snd (tm_read bs) <= tm_alloc_bound (nlen bs).
Proof. exact tm_read_alloc_bounded. Qed.
Print Assumptions C04_tcpcl_alloc_bounded.

(* the receive loop over a whole connection: never crashes, allocation linear in the bytes received *)
Theorem C04_tcpcl_stream_safe : forall bs, bytes_ok bs = true ->
  snd (fst (tm_stream bs)) <> TmCrash /\ snd (tm_stream bs) <= tm_stream_bound (nlen bs).
Proof. exact tm_stream_safe. Qed.
Print Assumptions C04_tcpcl_stream_safe.

(* it terminates: every message takes at least one byte, so the loop's fuel (the input length) is
   never exhausted - any larger fuel gives the same result (repaired and original code) *)
Theorem C04_tcpcl_terminates : forall fx fuel bs, (length bs <= fuel)%nat ->
  tm_stream_fuel fx fuel bs = tm_stream_fuel fx (length bs) bs.
Proof. exact tm_stream_fuel_enough. Qed.
Print Assumptions C04_tcpcl_terminates.

(* the code before the three repairs violates both clauses *)
Theorem C04_tcpcl_orig_refuted :
  (exists bs, bytes_ok bs = true /\ fst (tm_read_orig bs) = TmPanic)
  /\ (exists bs, bytes_ok bs = true /\ tm_alloc_bound (nlen bs) < snd (tm_read_orig bs)).
Proof. exact tm_orig_refuted. Qed.
Print Assumptions C04_tcpcl_orig_refuted.

Example C04_tcpcl_example_hostile :
  (* XFER_SEGMENT announcing 2^64-1 data bytes, SESS_INIT announcing 2^32-1 extension bytes *)
  tm_read tm_wit_segment_panic = (TmErr, 1024) /\ tm_read tm_wit_init_ext = (TmErr, 0)
  /\ tm_read_orig tm_wit_segment_panic = (TmPanic, 0) /\ tm_read_orig tm_wit_init_ext = (TmErr, 4294967295).
Proof. vm_compute. repeat split; reflexivity. Qed.
