(* C17 - all auxiliary wire formats round-trip and stay aligned on a stream.
   Only theorem statements closed by [exact <lemma>] and Print Assumptions. *)
From DTN Require Import Base Bbc BbcProofs ConstsOkBbc.
Open Scope N_scope.

(* BBC fragment header: every field survives encode / decode, for every tid, every sequence
   number below 32 (the 5-bit field), all flag combinations and every payload; decoding yields
   exactly the fragment and re-encoding the decoded value yields exactly the datagram. *)
Theorem C17_bbc_header_roundtrip : forall tid s st en fl p,
  let f := new_fragment tid s st en fl p in
  parse_fragment (frag_bytes f) = Some f
  /\ f_seq f = s mod 32 /\ f_start f = st /\ f_end f = en /\ f_fail f = fl /\ f_ident f < 256
  /\ f_tid f = tid /\ f_payload f = p.
Proof. intros. split; [exact (bbc_header_roundtrip tid s st en fl p) | exact (hdr_fields tid s st en fl p)]. Qed.
Print Assumptions C17_bbc_header_roundtrip.

Theorem C17_bbc_parse_inverse : forall data f, parse_fragment data = Some f -> frag_bytes f = data.
Proof. exact bbc_parse_bytes. Qed.
Print Assumptions C17_bbc_parse_inverse.

Theorem C17_bbc_reject_short : forall data, (length data < 2)%nat -> parse_fragment data = None.
Proof. exact bbc_parse_total. Qed.
Print Assumptions C17_bbc_reject_short.

(* non-vacuity *)
Example C17_bbc_example :
  frag_bytes (new_fragment 7 21 true false true [1;2;3]) = [7; 173; 1; 2; 3].
Proof. vm_compute. reflexivity. Qed.
