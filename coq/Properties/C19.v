(* C19 - PRoPHET predictabilities stay probabilities and gate forwarding.
   Only theorem statements closed by [exact <lemma>] and Print Assumptions.

   Model: Model/Prophet.v over Flocq binary64, round-to-nearest-even, the evaluation order of
   pkg/routing/algorithm_prophet.go (repaired code: sendMetadata copies the map under the read
   lock, SenderForBundle reads under the read lock).
     fin01 x      :=  is_finite x = true /\ 0 <= B2R x <= 1        (a finite double of [0,1])
     conf_ok c    :=  fin01 PInit /\ fin01 Beta /\ fin01 Gamma
     event_ok e   :=  every value of a received vector is fin01     (PImport), True otherwise
   The theorems on real numbers rest on Flocq's Bplus/Bminus/Bmult/Bcompare correctness theorems
   and hence on the four standard-library axioms of Coq's classical real numbers. *)
From Coq Require Import ZArith NArith List Bool Reals.
From Flocq Require Import Core BinarySingleNaN Binary Bits.
From DTN Require Import Base Prophet ProphetProofs ConstsOkProphet.
Import ListNotations.
Open Scope R_scope.

(* Every delivery predictability the node holds - its own ones (also as read with Go's
   missing-key-is-0 rule) and the stored vectors of its peers - is a finite number of [0,1]
   after ANY sequence of encounters, ageing ticks and vector imports (any length, any map
   iteration order of the transitive update, vectors may mention the sender itself). *)
Theorem C19_range : forall (c : pconf) (es : list pevent),
  fin01 (pc_pinit c) /\ fin01 (pc_beta c) /\ fin01 (pc_gamma c) ->
  Forall event_ok es ->
  let s := prophet_run c prophet_init es in
  (forall k, is_finite 53 1024 (pm_get (ps_own s) k) = true /\ 0 <= B2R 53 1024 (pm_get (ps_own s) k) <= 1)
  /\ (forall k x, In (k, x) (ps_own s) -> is_finite 53 1024 x = true /\ 0 <= B2R 53 1024 x <= 1)
  /\ (forall p v k x, In (p, v) (ps_peers s) -> In (k, x) v ->
        is_finite 53 1024 x = true /\ 0 <= B2R 53 1024 x <= 1).
Proof. exact range_full. Qed.
Print Assumptions C19_range.
Goal True. idtac "". exact I. Qed. (* prints an empty line: keeps the assumption blocks apart in the log *)

(* In every reachable state and for every key: an encounter and a vector import (transitive
   update) never lower a predictability, ageing never raises one. *)
Theorem C19_monotone : forall (c : pconf) (es : list pevent) (e : pevent),
  fin01 (pc_pinit c) /\ fin01 (pc_beta c) /\ fin01 (pc_gamma c) ->
  Forall event_ok es -> event_ok e ->
  let s := prophet_run c prophet_init es in
  forall k,
  match e with
  | PEncounter _ | PImport _ _ =>
      B2R 53 1024 (pm_get (ps_own s) k) <= B2R 53 1024 (pm_get (ps_own (prophet_step c s e)) k)
  | PAge =>
      B2R 53 1024 (pm_get (ps_own (prophet_step c s e)) k) <= B2R 53 1024 (pm_get (ps_own s) k)
  end.
Proof. exact monotone_full. Qed.
Print Assumptions C19_monotone.
Goal True. idtac "". exact I. Qed. (* prints an empty line: keeps the assumption blocks apart in the log *)

(* Forwarding gate, for EVERY state (no range assumption, NaNs included): whoever is offered a
   data bundle is a registered sender and is either the destination node itself (the Core's
   direct delivery) or passed Go's [peerPred > ownPred] test, which is false on ties and on
   unordered values; missing entries read as +0. *)
Theorem C19_gate : forall (s : pstate) (dest : N) (sent css : list N) (p : N),
  In p (prophet_offer s dest sent css) ->
  In p css /\ (p = dest \/ b64_compare (peer_pred s p dest) (pm_get (ps_own s) dest) = Some Gt).
Proof.
  intros s dest sent css p H. destruct (offer_gate s dest sent css p H) as [H1 [H2 | H2]].
  - split; [exact H1 | left; exact H2].
  - split; [exact H1 | right]. unfold pf_gt in H2.
    destruct (b64_compare (peer_pred s p dest) (pm_get (ps_own s) dest)) as [[| |]|]; try discriminate H2; reflexivity.
Qed.
Print Assumptions C19_gate.
Goal True. idtac "". exact I. Qed. (* prints an empty line: keeps the assumption blocks apart in the log *)

(* ... and in every reachable state that is a strict inequality of real numbers. *)
Theorem C19_gate_real : forall (c : pconf) (es : list pevent) (dest : N) (sent css : list N) (p : N),
  fin01 (pc_pinit c) /\ fin01 (pc_beta c) /\ fin01 (pc_gamma c) ->
  Forall event_ok es ->
  let s := prophet_run c prophet_init es in
  In p (prophet_offer s dest sent css) ->
  p = dest \/ B2R 53 1024 (pm_get (ps_own s) dest) < B2R 53 1024 (peer_pred s p dest).
Proof. intros c es dest sent css p Hc He s. apply offer_gate_real. apply reach_ok; assumption. Qed.
Print Assumptions C19_gate_real.
Goal True. idtac "". exact I. Qed. (* prints an empty line: keeps the assumption blocks apart in the log *)

(* A peer that never advertised a vector gets a data bundle only as the destination itself. *)
Theorem C19_gate_unknown_peer : forall (c : pconf) (es : list pevent) (dest : N) (sent css : list N) (p : N),
  fin01 (pc_pinit c) /\ fin01 (pc_beta c) /\ fin01 (pc_gamma c) ->
  Forall event_ok es ->
  let s := prophet_run c prophet_init es in
  pm_find (ps_peers s) p = None ->
  In p (prophet_offer s dest sent css) -> p = dest.
Proof. intros c es dest sent css p Hc He s. apply offer_unknown_peer. apply reach_ok; assumption. Qed.
Print Assumptions C19_gate_unknown_peer.
Goal True. idtac "". exact I. Qed. (* prints an empty line: keeps the assumption blocks apart in the log *)

(* Any number of concurrent operations {ageing cron, peer appeared (encounter + sendMetadata with
   marshalling of the block), vector import, SenderForBundle}, any sizes, under EVERY schedule of
   their atomic map / lock actions: no write to a map object happens while another goroutine is
   inside an iteration or lookup of the same object (the condition of Go's fatal "concurrent map
   iteration and map write" / "concurrent map read and map write"). *)
Theorem C19_no_concurrent_map_fault : forall (ops : list mop) (sched : list nat),
  mrun (mthreads true ops) sched = false.
Proof. exact no_fault. Qed.
Print Assumptions C19_no_concurrent_map_fault.
Goal True. idtac "". exact I. Qed. (* prints an empty line: keeps the assumption blocks apart in the log *)

(* ---- non-vacuity ---- *)
Definition ex_conf : pconf :=
  {| pc_pinit := pf_of_bits 4604930618986332160 (* 0.75 *);
     pc_beta := pf_of_bits 4598175219545276416 (* 0.25 *);
     pc_gamma := pf_of_bits 4607002274814922588 (* 0.98 *) |}.

(* three encounters from 0 with PInit = 0.75: the same 64 bits as Go computes (0.984375) *)
Example C19_ex_encounter_bits :
  pf_bits (pm_get (ps_own (prophet_run ex_conf prophet_init [PEncounter 1; PEncounter 1; PEncounter 1])) 1)
  = 4607041681311662080%N.
Proof. vm_compute. reflexivity. Qed.

(* a run with all three kinds of events, the vector mentions the sender itself *)
Example C19_ex_run :
  let s := prophet_run ex_conf prophet_init
             [PEncounter 1; PImport 1 [(2%N, pf_of_bits 4602678819172646912); (1%N, pf_one)]; PAge] in
  map (fun kv => (fst kv, pf_bits (snd kv))) (ps_own s)
  = [(1%N, 4605209279213275709%N); (2%N, 4591284712115399557%N)].
Proof. vm_compute. reflexivity. Qed.

(* gate: strictly higher is offered, a tie and an unknown peer are not, the destination itself is *)
Example C19_ex_gate :
  let half := pf_of_bits 4602678819172646912 in
  let s := {| ps_own := [(9%N, half)];
              ps_peers := [(1%N, [(9%N, half)]); (2%N, [(9%N, pf_of_bits 4602678819172646913)])] |} in
  prophet_offer s 9 [] [1; 2; 3]%N = [2%N] /\ prophet_offer s 3 [] [1; 2; 3]%N = [3%N].
Proof. vm_compute. split; reflexivity. Qed.

(* the code as found (block aliases the live map, marshalled after RUnlock) does fault:
   thread 0 = peer appeared, reaches the marshalling loop; thread 1 = ageing cron writes *)
Example C19_ex_unrepaired_faults :
  mrun (mthreads false [OpPeerAppeared 1; OpAge 1]) [0; 0; 0; 0; 0; 0; 1; 1; 1]%nat = true.
Proof. vm_compute. reflexivity. Qed.

(* a look-up in peerPredictabilities placed before the Lock of the metadata path (what a "do not log
   under the lock" refactoring of NotifyNewBundle produces) faults against another goroutine's
   import: thread 0 is inside its look-up when thread 1 stores its peer's vector *)
Example C19_ex_unlocked_lookup_faults :
  mrun [ {| mt_prog := [ABegin OPeers; AEnd OPeers; ALock; AWrite OPeers; AUnlock]; mt_held := HNone; mt_span := None |};
         {| mt_prog := mop_prog true 1 (OpImport 1); mt_held := HNone; mt_span := None |} ]
       [0; 1; 1; 1; 1]%nat = true
  /\ mrun (mthreads true [OpImport 1; OpImport 1; OpSenderFor]) [0; 1; 2; 0; 2; 1; 0; 2; 0; 1; 0; 0; 2; 0; 1; 1; 1; 1; 1; 1; 1]%nat = false.
Proof. vm_compute. split; reflexivity. Qed.

(* the repaired code under the same schedule continued round-robin: no fault, and every
   operation runs to completion (the absence of faults is not an absence of progress) *)
Example C19_ex_repaired_completes :
  match mexec (mthreads true [OpPeerAppeared 1; OpAge 1])
              ([0; 0; 0; 0; 0; 0; 1; 1; 1] ++ concat (repeat [0; 1] 12))%nat with
  | Some ts => mall_done ts = true
  | None => False
  end.
Proof. vm_compute. reflexivity. Qed.
