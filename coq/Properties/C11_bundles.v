(* C11, part "bundles": TCPCL composed with the bundle codec of property C01 (Model/Bundle.v). *)
From DTN Require Import Base Cbor Crc Eid Bundle BundleWf BundleProofs BundleStreamProofs Tcpcl TcpclProofs TcpclBundles.
Open Scope N_scope.

(* Any number of transfers with pairwise distinct ids, each carrying the serialisation of a valid bundle,
   segmented with any segment sizes and interleaved in any way: for every transfer exactly one byte string
   is handed up and it parses - completely, nothing left over - as the very bundle that was sent; and
   everything handed up is such a bundle of one of the transfers. *)
Theorem C11_bundles : forall now xs tr,
  NoDup (map x_tid xs) -> Forall xfer_ok xs -> MergeAll (map xfer_segs xs) tr ->
  (forall x, In x xs -> exists b, xfer_carries now x b) ->
  (forall x b, In x xs -> xfer_carries now x b ->
     exists bs, filter (dl_tid (x_tid x)) (rx_delivered tr) = [(x_tid x, bs)] /\ dec_bundle now bs = Some (b, []))
  /\ (forall d, In d (rx_delivered tr) ->
        exists x b, In x xs /\ xfer_carries now x b /\ fst d = x_tid x /\ dec_bundle now (snd d) = Some (b, [])).
Proof. exact tcpcl_receiver_bundles. Qed.
Print Assumptions C11_bundles.

(* Send of a valid bundle: for every accepted history of the Send state machine with honest acknowledgements, if Send
   returns success then the receiver fed with what was emitted has handed up exactly one byte string, under this
   transfer id, and it parses completely as the very bundle that was sent. *)
Theorem C11_send_bundle : forall now b m tid evs st outs,
  good now b -> 1 <= m ->
  send_run (send_init (bundle_bytes b) m tid) evs = Some (st, outs) ->
  forallb (honest_event (segments (bundle_bytes b) m tid)) evs = true ->
  ss_result st = Some SrOk ->
  exists bs, rx_delivered outs = [(tid, bs)] /\ dec_bundle now bs = Some (b, []).
Proof. exact tcpcl_send_bundle. Qed.
Print Assumptions C11_send_bundle.

(* non-vacuity: one transfer (id 3, segment size 7) carrying a concrete bundle: several segments, one hand-over *)
Definition tbx : bundle :=
  {| b_pri := {| p_flags := 4; p_crc := 2; p_dst := Dtn [100] [97]; p_src := Ipn 23 42; p_rpt := DtnNone;
                 p_time := 0; p_seq := 256; p_life := 65536; p_off := 0; p_total := 0 |};
     b_blocks := [ {| c_num := 2; c_flags := 0; c_crc := 1; c_val := XAge 24 |};
                   {| c_num := 1; c_flags := 0; c_crc := 0; c_val := XPayload [1; 2; 3] |} ] |}.
Example C11_bundles_example :
  let x := mkX 3 7 (bundle_bytes tbx) in
  xfer_carries 1000 x tbx /\ xfer_ok x /\ (3 < length (xfer_segs x))%nat
  /\ rx_delivered (xfer_segs x) = [(3, bundle_bytes tbx)]
  /\ dec_bundle 1000 (bundle_bytes tbx) = Some (tbx, []).
Proof.
  cbv zeta. split; [split; [split; vm_compute; reflexivity|reflexivity]|].
  split; [split; [vm_compute; discriminate|vm_compute; discriminate]|].
  split; [vm_compute; repeat constructor|]. split; vm_compute; reflexivity.
Qed.
