(* C17 - CBOR-based auxiliary formats and endpoint URIs (part file, merged by ./check with Properties/C17.v). *)
From DTN Require Import Base Cbor CborProofs Eid EidProofs Bundle BundleWf BundleProofs
  AuxCbor AuxCborProofs EidUriProofs ConstsOkAuxCbor.
Open Scope N_scope.

(* Every well-formed value of every format - creation timestamp, endpoint ID (CBOR), bundle ID
   (fragment and non-fragment), status item, status report (4- and 6-element layout),
   administrative record, announcement, announcement list, WebSocket-agent message with each of its
   five bodies - is encoded, and decoding the encoding followed by arbitrary further bytes [r] gives
   back the value and exactly [r].  [aux_wf] states the ranges of the Go types and the encoders'
   silent limits (a status item keeps its time only if asserted and requested; a non-fragment
   bundle ID has no offset / total length; only known reason codes and CLA types are read back). *)
Theorem C17_aux_roundtrip : forall now x r, aux_wf (bundle_ok now) x = true ->
  enc_aux x = Some (aux_bytes x) /\ dec_aux now (kind_of x) (aux_bytes x ++ r) = Ok x r.
Proof. intros now x r H. split; [exact (enc_aux_ok now x H) | exact (dec_aux_enc now x r H)]. Qed.
Print Assumptions C17_aux_roundtrip.


Theorem C17_aux_cts_roundtrip : forall t s r, u64_ok t = true -> u64_ok s = true ->
  dec_cts (enc_cts t s ++ r) = Ok (t, s) r.
Proof. intros t s r Ht Hs. exact (yields_to_res _ _ _ (yields_cts t s r Ht Hs)). Qed.
Print Assumptions C17_aux_cts_roundtrip.


Theorem C17_aux_bid_roundtrip : forall b r, bid_wf b = true ->
  enc_bid b = Some (bid_bytes b) /\ dec_bid (bid_frag b) (bid_bytes b ++ r) = Ok b r.
Proof. intros b r H. split; [exact (enc_bid_ok b H) | exact (yields_to_res _ _ _ (yields_bid b r H))]. Qed.
Print Assumptions C17_aux_bid_roundtrip.


Theorem C17_aux_sitem_roundtrip : forall i r, sitem_wf i = true -> dec_sitem (enc_sitem i ++ r) = Ok i r.
Proof. intros i r H. exact (yields_to_res _ _ _ (yields_sitem i r H)). Qed.
Print Assumptions C17_aux_sitem_roundtrip.


Theorem C17_aux_sreport_roundtrip : forall s r, sreport_wf s = true ->
  enc_sreport s = Some (sreport_bytes s) /\ dec_sreport (sreport_bytes s ++ r) = Ok s r.
Proof.
  intros s r H. split; [exact (enc_sreport_ok s (proj1 (sreport_wf_but s H))) | exact (yields_to_res _ _ _ (yields_sreport s r H))].
Qed.
Print Assumptions C17_aux_sreport_roundtrip.


Theorem C17_aux_admrec_roundtrip : forall a r, admrec_wf a = true ->
  enc_admrec a = Some (admrec_bytes a) /\ dec_admrec (admrec_bytes a ++ r) = Ok a r.
Proof. intros a r H. split; [exact (enc_admrec_ok a H) | exact (yields_to_res _ _ _ (yields_admrec a r H))]. Qed.
Print Assumptions C17_aux_admrec_roundtrip.


Theorem C17_aux_ann_roundtrip : forall a r, ann_wf a = true ->
  enc_ann a = Some (ann_bytes a) /\ dec_ann (ann_bytes a ++ r) = Ok a r.
Proof. intros a r H. split; [exact (enc_ann_ok a H) | exact (yields_to_res _ _ _ (yields_ann a r H))]. Qed.
Print Assumptions C17_aux_ann_roundtrip.


Theorem C17_aux_anns_roundtrip : forall l r, anns_wf l = true ->
  enc_anns l = Some (anns_bytes l) /\ dec_anns (anns_bytes l ++ r) = Ok l r.
Proof. intros l r H. split; [exact (enc_anns_ok l H) | exact (yields_to_res _ _ _ (yields_anns l r H))]. Qed.
Print Assumptions C17_aux_anns_roundtrip.


Theorem C17_aux_wam_roundtrip : forall now w r, wam_wf (bundle_ok now) w = true ->
  enc_wam w = Some (wam_bytes w) /\ dec_wam now (wam_bytes w ++ r) = Ok w r.
Proof. intros now w r H. split; [exact (enc_wam_ok now w H) | exact (yields_to_res _ _ _ (yields_wam now w r H))]. Qed.
Print Assumptions C17_aux_wam_roundtrip.


(* Consecutive messages on one stream stay aligned: for every list of well-formed messages of any
   mix of kinds, reading the concatenation of their encodings message by message - each read starting
   where the previous one stopped - returns exactly the list and leaves exactly the bytes [r] that
   followed.  Induction over the list; no bound on its length. *)
Theorem C17_aux_stream : forall now xs r, forallb (aux_wf (bundle_ok now)) xs = true ->
  enc_stream xs = Some (stream_bytes xs) /\ dec_stream now (map kind_of xs) (stream_bytes xs ++ r) = Ok xs r.
Proof. intros now xs r H. split; [exact (enc_stream_ok now xs H) | exact (dec_stream_enc now xs r H)]. Qed.
Print Assumptions C17_aux_stream.


(* ======================= C17: endpoint URI text and structure ======================= *)

(* "Endpoint URI text and endpoint structure determine each other uniquely" is the bijection between
   valid structures and their *canonical* (printed) texts: a valid structure is printed to a text
   that parses back to it (so printing is injective), and every accepted text has a valid structure
   whose printed text is accepted as the same structure.  For dtn the accepted text *is* the printed
   text; for ipn the only texts accepted besides the printed one differ by leading zeros of the two
   numbers (ipn:01.1 parses to the structure of ipn:1.1 - legal per RFC 6260's ABNF; this is the
   implementation's behaviour, not a loosened check). *)
Theorem C17_eid_uri : forall e, eid_valid e = true -> eid_wf e = true -> eid_parse (eid_print e) = Some e.
Proof. exact eid_parse_print. Qed.
Print Assumptions C17_eid_uri.


Theorem C17_eid_uri_print_injective : forall a b,
  eid_valid a = true -> eid_wf a = true -> eid_valid b = true -> eid_wf b = true -> eid_print a = eid_print b -> a = b.
Proof. exact eid_print_inj. Qed.
Print Assumptions C17_eid_uri_print_injective.


Theorem C17_eid_uri_canonical : forall uri e, eid_parse uri = Some e ->
  eid_valid e = true /\ eid_parse (eid_print e) = Some e.
Proof. exact eid_parse_valid. Qed.
Print Assumptions C17_eid_uri_canonical.


(* the exact shape of every accepted text; malformed or out-of-range URIs are therefore rejected:
   ipn with 0 or a number >= 2^64, dtn without //node/, an empty node, a node character outside
   [A-Za-z0-9_.-], a newline in the demux *)
Theorem C17_eid_uri_accepted_shape : forall uri e, eid_parse uri = Some e ->
  match e with
  | Ipn n s => exists d1 d2, uri = str_ipn_colon ++ d1 ++ [46] ++ d2
                 /\ d1 <> [] /\ d2 <> [] /\ forallb is_digit d1 = true /\ forallb is_digit d2 = true
                 /\ parse_uint_acc 0 d1 = Some n /\ parse_uint_acc 0 d2 = Some s
                 /\ 1 <= n < 18446744073709551616 /\ 1 <= s < 18446744073709551616
  | _ => uri = eid_print e /\ eid_valid e = true
  end.
Proof. exact eid_parse_inv. Qed.
Print Assumptions C17_eid_uri_accepted_shape.


(* decimal numbers: printing then strconv.ParseUint-style parsing is the identity below 2^64; the
   printer's fuel of 25 digits is never exhausted on such a number *)
Theorem C17_eid_uri_decimal : forall n, u64_ok n = true ->
  parse_uint_acc 0 (dec_digits n) = Some n /\ forallb is_digit (dec_digits n) = true /\ dec_digits n <> [].
Proof. intros n H. split; [exact (parse_dec_digits n H)|split; [exact (dec_digits_digits n)|exact (dec_digits_nonempty n)]]. Qed.
Print Assumptions C17_eid_uri_decimal.


(* ======================= C17: invalid field values are rejected ======================= *)

(* status-report reason code (a CBOR unsigned integer, so case analysis rather than a byte sweep):
   whatever the bytes, an accepted status report / administrative record carries a code in 0..11 ... *)
Theorem C17_aux_reject_reason : forall bs s r, dec_sreport bs = Ok s r -> sr_reason s <= max_reason.
Proof. exact dec_sreport_reason_known. Qed.
Print Assumptions C17_aux_reject_reason.

Theorem C17_aux_reject_reason_admrec : forall bs s r, dec_admrec bs = Ok (ARStatus s) r -> sr_reason s <= max_reason.
Proof. exact dec_admrec_reason_known. Qed.
Print Assumptions C17_aux_reject_reason_admrec.

(* ... and on every otherwise well-formed report: accepted exactly when the code is one of the twelve *)
Theorem C17_aux_reason_accepted_iff : forall s r, sreport_wf_but_reason s = true ->
  dec_sreport (sreport_bytes s ++ r) = if sr_reason s <=? max_reason then Ok s r else Err.
Proof. exact sreport_reason_accepted_iff. Qed.
Print Assumptions C17_aux_reason_accepted_iff.


Theorem C17_aux_reject_admrec_type : forall tc body, u64_ok tc = true -> tc <> ar_type_status ->
  dec_admrec (enc_arr 2 ++ enc_uint tc ++ body) = Err.
Proof. exact admrec_type_rejected. Qed.
Print Assumptions C17_aux_reject_admrec_type.


Theorem C17_aux_reject_wam_code : forall now tc body, u64_ok tc = true -> 4 < tc ->
  dec_wam now (enc_arr 2 ++ enc_uint tc ++ body) = Err.
Proof. exact wam_code_rejected. Qed.
Print Assumptions C17_aux_reject_wam_code.


Theorem C17_aux_reject_cla_type : forall t body, u64_ok t = true -> cla_type_ok t = false ->
  dec_ann (enc_arr 3 ++ enc_uint t ++ body) = Err.
Proof. exact ann_type_rejected. Qed.
Print Assumptions C17_aux_reject_cla_type.

Theorem C17_aux_accepted_cla_type : forall bs a r, dec_ann bs = Ok a r -> cla_type_ok (an_type a) = true.
Proof. exact dec_ann_type_known. Qed.
Print Assumptions C17_aux_accepted_cla_type.


Theorem C17_aux_reject_item_layout : forall l body, u64_ok l = true -> l <> 1 -> l <> 2 -> dec_sitem (enc_arr l ++ body) = Err.
Proof. exact sitem_layout_rejected. Qed.
Print Assumptions C17_aux_reject_item_layout.

Theorem C17_aux_reject_report_layout : forall l body, u64_ok l = true -> l <> 4 -> l <> 6 -> dec_sreport (enc_arr l ++ body) = Err.
Proof. exact sreport_layout_rejected. Qed.
Print Assumptions C17_aux_reject_report_layout.


(* all 256 byte values of each code field of a concrete message: accepted <-> in the enumerated set
   (finite sweep, the bound is in the statement) *)
Definition byte_values : list N := map N.of_nat (seq 0 256).
Definition sweep_accepts {A} (dec : list N -> res A) (msg : N -> list N) (ok : N -> bool) : bool :=
  forallb (fun c => Bool.eqb (match dec (msg c) with Ok _ [] => true | _ => false end) (ok c)) byte_values.
Definition ar_tail : list N := [130; 2; 130; 1; 1; 130; 0; 0].                     (* ipn:1.1, timestamp (0, 0) *)
Definition ar_items : list N := [132; 129; 245; 129; 244; 129; 244; 129; 244].     (* [[true],[false],[false],[false]] *)
Theorem C17_aux_reject_sweeps :
  sweep_accepts dec_admrec (fun c => [130; 1; 132] ++ ar_items ++ enc_uint c ++ ar_tail) (fun c => c <=? 11) = true        (* reason *)
  /\ sweep_accepts dec_admrec (fun c => [130] ++ enc_uint c ++ [132] ++ ar_items ++ [0] ++ ar_tail) (fun c => c =? 1) = true  (* record type *)
  /\ sweep_accepts dec_admrec (fun c => [130; 1] ++ enc_arr c ++ ar_items ++ [0] ++ ar_tail) (fun c => c =? 4) = true          (* layout: 4; 6 needs two more fields *)
  /\ sweep_accepts dec_admrec (fun c => [130; 1] ++ enc_arr c ++ ar_items ++ [0] ++ ar_tail ++ [0; 0]) (fun c => c =? 6) = true
  /\ sweep_accepts dec_sitem (fun c => enc_arr c ++ [245; 7]) (fun c => c =? 2) = true                                          (* item layout *)
  /\ sweep_accepts dec_sitem (fun c => enc_arr c ++ [245]) (fun c => c =? 1) = true
  /\ sweep_accepts dec_ann (fun c => [131] ++ enc_uint c ++ [130; 2; 130; 1; 1; 25; 17; 204]) cla_type_ok = true                (* CLA type *)
  /\ sweep_accepts (dec_wam 0) (fun c => [130] ++ enc_uint c ++ [96]) (fun c => (c =? 0) || (c =? 1) || (c =? 3)) = true.       (* WAM code, text bodies *)
Proof. vm_compute. repeat split. Qed.
Print Assumptions C17_aux_reject_sweeps.


Theorem C17_eid_uri_reject_examples :
  let p := eid_parse in
  p [105;112;110;58; 48; 46; 49] = None /\
  p [105;112;110;58; 49; 46; 48] = None /\
  p ([105;112;110;58] ++ [49;56;52;52;54;55;52;52;48;55;51;55;48;57;53;53;49;54;49;54] ++ [46; 49]) = None /\
  p ([105;112;110;58] ++ [49;56;52;52;54;55;52;52;48;55;51;55;48;57;53;53;49;54;49;53] ++ [46; 49]) = Some (Ipn 18446744073709551615 1) /\
  p [105;112;110;58; 48;49; 46; 49] = Some (Ipn 1 1) /\
  p [100;116;110;58; 47;47; 97] = None /\
  p [100;116;110;58; 47; 97; 47] = None /\
  p [100;116;110;58; 47;47;47] = None /\
  p [100;116;110;58; 47;47; 97; 47; 98; 10] = None /\
  p [68;84;78;58; 47;47; 97; 47] = None /\
  p [100;116;110;58; 47;47; 97; 47] = Some (Dtn [97] []).
Proof. exact eid_parse_rejects. Qed.
Print Assumptions C17_eid_uri_reject_examples.


(* ... and accepted unknown reason codes (C17) *)
Theorem C17_aux_unfixed_reason_refuted :
  (exists s r, to_res (adec_sreport false sreport_reason12) = Ok s r /\ max_reason < sr_reason s) /\
  dec_sreport sreport_reason12 = Err.
Proof. exact unfixed_reason_accepted. Qed.
Print Assumptions C17_aux_unfixed_reason_refuted.


(* ======================= non-vacuity ======================= *)
(* the status report of a received, time-reporting bundle dtn://n/a created at (5000, 7), fragment 10/100 *)
Example C17_aux_example_sreport :
  let s := {| sr_items := [ {| si_asserted := true; si_time := 1000; si_req := true |};
                            {| si_asserted := false; si_time := 0; si_req := false |} ];
              sr_reason := 1;
              sr_ref := {| bid_src := Dtn [110] [97]; bid_time := 5000; bid_seq := 7; bid_frag := true; bid_off := 10; bid_total := 100 |} |} in
  sreport_wf s = true
  /\ enc_admrec (ARStatus s) = Some [130; 1; 134; 130; 130; 245; 25; 3; 232; 129; 244; 1; 130; 1; 101; 47; 47; 110; 47; 97; 130; 25; 19; 136; 7; 10; 24; 100]
  /\ dec_admrec ([130; 1; 134; 130; 130; 245; 25; 3; 232; 129; 244; 1; 130; 1; 101; 47; 47; 110; 47; 97; 130; 25; 19; 136; 7; 10; 24; 100] ++ [9; 9])
     = Ok (ARStatus s) [9; 9].
Proof. vm_compute. repeat split. Qed.


Example C17_aux_example_silent_limit :
  (* a status item with a time but not asserted is outside wf: the encoder drops the time *)
  let i := {| si_asserted := false; si_time := 5; si_req := true |} in
  sitem_wf i = false /\ dec_sitem (enc_sitem i) = Ok {| si_asserted := false; si_time := 0; si_req := false |} [].
Proof. vm_compute. split; reflexivity. Qed.


Example C17_aux_example_stream :
  let xs := [XCts 1 2; XAnn {| an_type := 10; an_eid := Ipn 5 1; an_port := 4556 |}; XWam (WSysResp [113] [1; 2]); XEid DtnNone] in
  forallb (aux_wf (bundle_ok 0)) xs = true
  /\ dec_stream 0 (map kind_of xs) (stream_bytes xs ++ [255]) = Ok xs [255].
Proof. vm_compute. split; reflexivity. Qed.


Example C17_eid_uri_example :
  eid_print (Ipn 18446744073709551615 1) = [105;112;110;58] ++ [49;56;52;52;54;55;52;52;48;55;51;55;48;57;53;53;49;54;49;53] ++ [46; 49]
  /\ eid_parse (eid_print (Dtn [110; 45; 49] [126; 103])) = Some (Dtn [110; 45; 49] [126; 103]).
Proof. vm_compute. split; reflexivity. Qed.
