(* C03 - block CRCs are computed per specification and every mismatch is rejected. *)
From DTN Require Import Base Cbor Crc CrcProofs Eid Bundle BundleWf BundleProofs DecodeInv CrcBlock ConstsOkCodec.
Open Scope N_scope.

(* CRC-16/X-25 and CRC-32C are defined bit-serially from their catalogue parameters (Model/Crc.v);
   the standard check values hold. *)
Theorem C03_check_values :
  crc16_x25 [49;50;51;52;53;54;55;56;57] = 36974 /\ crc32c [49;50;51;52;53;54;55;56;57] = 3808858755.
Proof. exact (conj crc16_check crc32c_check). Qed.
Print Assumptions C03_check_values.

(* A canonical / primary block that declares a CRC (type 1 or 2) is accepted only if its own
   received bytes w - exactly what the decoder consumed - end in the CRC value computed over w with
   the value replaced by zeros. *)
Theorem C03_accept_implies_crc_canonical : forall w r c,
  dec_cblock (w ++ r) = Ok c r -> c_crc c <> 0 -> crc_holds (c_crc c) w.
Proof. exact accepted_crc_holds. Qed.
Print Assumptions C03_accept_implies_crc_canonical.

Theorem C03_accept_implies_crc_primary : forall w r p,
  dec_primary (w ++ r) = Ok p r -> p_crc p <> 0 -> crc_holds (p_crc p) w.
Proof. exact accepted_primary_crc_holds. Qed.
Print Assumptions C03_accept_implies_crc_primary.

(* The serialiser writes that value. *)
Theorem C03_encode_writes_crc :
  (forall c, cblock_wf c = true -> c_crc c <> 0 -> crc_holds (c_crc c) (cblock_bytes c))
  /\ (forall p, primary_wf p = true -> p_crc p <> 0 -> crc_holds (p_crc p) (primary_bytes p)).
Proof. exact (conj encoded_cblock_crc_holds encoded_primary_crc_holds). Qed.
Print Assumptions C03_encode_writes_crc.

(* Consequently: two blocks with the same boundaries and CRC type that both satisfy the CRC
   equation cannot differ by a non-zero burst of at most 16 resp. 32 bits (in the CRC's own bit
   order: LSB first within a byte; in particular not by a single bit, and not by any change confined
   to 2 resp. 4 consecutive bytes) inside the covered bytes while carrying the same CRC value; nor
   can they carry different CRC values over the same covered bytes.  So if the original block is
   accepted, the corrupted one is rejected. Bursts straddling covered bytes and the CRC value: see
   Properties/C03_straddle.v (C03_straddle_rejected covers every position). Here they are
   not covered by this (older, narrower) theorem. *)
Theorem C03_burst_rejected : forall t w1 w2,
  (t = 1 \/ t = 2) -> crc_holds t w1 -> crc_holds t w2 ->
  forall len d1 d2 v pre e post,
    crc_len t = Some len -> w1 = d1 ++ v -> w2 = d2 ++ v -> length v = len -> length d1 = length d2 ->
    xorbits (bytes_bits d1) (bytes_bits d2) = repeat false pre ++ e ++ repeat false post ->
    N.of_nat (length e) <= 8 * N.of_nat len -> word e <> 0 -> False.
Proof. exact crc_burst_rejected. Qed.
Print Assumptions C03_burst_rejected.

Theorem C03_value_corruption_rejected : forall t w1 w2 d v1 v2 len,
  crc_holds t w1 -> crc_holds t w2 -> crc_len t = Some len ->
  w1 = d ++ v1 -> w2 = d ++ v2 -> length v1 = len -> length v2 = len -> v1 = v2.
Proof. exact crc_value_corruption_rejected. Qed.
Print Assumptions C03_value_corruption_rejected.

(* non-vacuity: an encoded block with CRC-16 satisfies the equation *)
Example C03_example : crc_holds 1 (cblock_bytes {| c_num := 2; c_flags := 0; c_crc := 1; c_val := XAge 24 |}).
Proof.
  exact (encoded_cblock_crc_holds {| c_num := 2; c_flags := 0; c_crc := 1; c_val := XAge 24 |} eq_refl (fun H => N.neq_succ_0 0 H)).
Qed.
