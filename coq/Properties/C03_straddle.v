(* C03 (straddling bursts) - closes the sub-case stated as PARTIAL in C03.v: bursts that straddle the
   covered bytes and the CRC value of a block. *)
From DTN Require Import Base Crc CrcProofs CrcBlock CrcStraddle.
Open Scope N_scope.

(* Two equal-length blocks w1, w2 (each = covered bytes ++ CRC value) that both satisfy the CRC
   equation for CRC-16/X-25 (t = 1) or CRC-32C (t = 2) cannot differ by a non-zero burst of at most
   16 resp. 32 bits located ANYWHERE in the block - inside the covered bytes, inside the value, or
   across the boundary between them - when the byte just before the value (the CBOR byte-string head
   0x42 / 0x44 of the CRC field, i.e. "block boundaries intact") is the same in both.  Bit order: the
   one of bytes_bits over the whole block (LSB first within every byte, bytes in stream order), for
   the value bytes too.  So if the original block is accepted, the corrupted one is rejected. *)
Theorem C03_straddle_rejected : forall t w1 w2,
  (t = 1 \/ t = 2) -> crc_holds t w1 -> crc_holds t w2 -> length w1 = length w2 ->
  forall len pre e post,
    crc_len t = Some len ->
    xorbits (bytes_bits w1) (bytes_bits w2) = repeat false pre ++ e ++ repeat false post ->
    N.of_nat (length e) <= 8 * N.of_nat len -> word e <> 0 ->
    nth_error w1 (length w1 - len - 1) = nth_error w2 (length w2 - len - 1) ->
    False.
Proof. exact crc_straddle_rejected. Qed.
Print Assumptions C03_straddle_rejected.

(* The head-byte premise is necessary: two CRC-32C blocks satisfying the equation that differ by a
   32-bit burst which starts in the byte before the value. *)
Theorem C03_straddle_head_needed :
  exists w1 w2 pre e post,
    crc_holds 2 w1 /\ crc_holds 2 w2 /\ length w1 = length w2
    /\ xorbits (bytes_bits w1) (bytes_bits w2) = repeat false pre ++ e ++ repeat false post
    /\ N.of_nat (length e) <= 8 * N.of_nat 4 /\ word e <> 0.
Proof. exact straddle_head_needed. Qed.
Print Assumptions C03_straddle_head_needed.

(* non-vacuity: the encoded canonical block {num 2, flags 0, CRC-16, bundle age 24} satisfies the
   equation, and C03_straddle_rejected rejects its corruption by a 10-bit burst across the boundary
   (bit 7 of the byte before the head byte and bit 0 of the first value byte) *)
Example C03_straddle_example :
  crc_holds 1 [134;7;2;0;1;66;24;24;66;217;50] /\ ~ crc_holds 1 [134;7;2;0;1;66;24;152;66;216;50].
Proof. exact (conj ex_w1_holds straddle_example). Qed.
