(* C14 - bundles originated at the node get distinct IDs, in the store and on the wire; the number
   the node assigns is the one under which a bundle is stored and the one that is transmitted.
   Only theorem statements closed by [exact <lemma>] and Print Assumptions.

   Model: Model/IdKeeper.v.  A history is ANY list of sub-steps (IkAssign = IdKeeper.update's
   critical section, IkClean, IkPush = filing in the store, IkSend = first transmission, IkRetry =
   transmission of the stored copy, IkDrop, IkRestart) - hence any interleaving of any number of
   concurrent submissions, whatever the path (AgentManager, SendBundle, status report, routing
   metadata all end in Core.SendBundle).  The order inside one submission is the repaired one
   (the number is assigned before the bundle is filed). *)
From DTN Require Import Base IdKeeper IdKeeperProofs ConstsOkIdKeeper.
Open Scope N_scope.

(* Two bundles i, j with the same source and creation time: the later one gets the larger
   number - for every history and interleaving - provided the IdKeeper's entry was not forgotten
   between the two counter steps:  no restart in between, and every cleaning in between runs at
   a clock `now` with  t = 0  or  threshold(now) <= t,  where threshold(now) = now - 60*60*24 in
   MILLISECONDS (86.4 s; the Go comment says "an hour") - [ik_quiet].  Hence their store keys
   and wire IDs (source, time, number) differ. *)
Theorem C14_distinct : forall h1 i src t h2 j h3 s outs a b,
  ik_run ik_init (h1 ++ IkAssign i src t :: h2 ++ IkAssign j src t :: h3) = Some (s, outs) ->
  ik_quiet t h2 ->
  ik_seq_of s i = Some a -> ik_seq_of s j = Some b ->
  a < b /\ (src, t, a) <> (src, t, b).
Proof. exact ik_distinct_ids. Qed.
Print Assumptions C14_distinct.

(* The hypothesis is exactly what the code offers: with a clock that never goes back (creation
   times are 0 or the clock's reading when the bundle is numbered, cleaning reads the same clock,
   a restart takes at least a millisecond, the clock is past 2000-01-01 + 86.4 s) the entry of a
   non-zero time is never forgotten between two submissions carrying that time; for the zero
   time the only danger is a restart. *)
Theorem C14_distinct_clocked : forall c0 h1 i src t h2 j h3 s outs a b,
  ik_run ik_init (h1 ++ IkAssign i src t :: h2 ++ IkAssign j src t :: h3) = Some (s, outs) ->
  ik_clocked c0 (h1 ++ IkAssign i src t :: h2 ++ IkAssign j src t :: h3) -> ik_window <= c0 ->
  t <> 0 \/ ~ In IkRestart h2 ->
  ik_seq_of s i = Some a -> ik_seq_of s j = Some b ->
  a < b.
Proof. exact ik_distinct_clocked. Qed.
Print Assumptions C14_distinct_clocked.

(* Creation times chosen by the submitter - a client whose clock is ahead of the node's by a
   millisecond or a year, a bundle built for a later time: the entry survives every cleaning whose
   clock has not passed t + 86400 ms, so two such bundles get different numbers whatever else
   (report-to, destination, lifetime, flags, blocks, payload) they differ in: the counter is keyed
   by (source, time) only. *)
Theorem C14_distinct_ahead : forall h1 i src t h2 j h3 s outs a b,
  ik_run ik_init (h1 ++ IkAssign i src t :: h2 ++ IkAssign j src t :: h3) = Some (s, outs) ->
  ~ In IkRestart h2 ->
  (forall now, In (IkClean now) h2 -> ik_window <= now /\ now < ik_two64 /\ now <= t + ik_window) ->
  ik_seq_of s i = Some a -> ik_seq_of s j = Some b ->
  a < b /\ (src, t, a) <> (src, t, b).
Proof. exact ik_distinct_ahead. Qed.
Print Assumptions C14_distinct_ahead.

(* The cleaning threshold is exact at the millisecond (what the boundary probe observes). *)
Theorem C14_clean_threshold : forall now e, ik_window <= now -> now < ik_two64 -> ike_time e <> 0 ->
  ik_keep now e = true <-> now <= ike_time e + ik_window.
Proof. exact ik_keep_exact. Qed.
Print Assumptions C14_clean_threshold.

(* Without the hypothesis the statement is false: the IdKeeper is volatile.  After an orderly
   restart a clock-less source (zero creation time) starts again at number 0 although its earlier
   bundle is still stored under that ID: the two bundles share the ID, the second one is not filed
   and a retry transmits the first one's copy.  (Known finding idkeeper.restart.epoch-seq0.) *)
Theorem C14_restart_refuted : exists h s outs i j src a b,
  ik_run ik_init h = Some (s, outs) /\ i <> j
  /\ ik_numbered s i src 0 a /\ ik_numbered s j src 0 b /\ a = b
  /\ (forall it, In it (ik_store s) -> it_tid it <> j)
  /\ (exists o, In o outs /\ o_tid o = i /\ (o_src o, o_time o, o_seq o) = (src, 0, b)).
Proof. exact ik_restart_refuted. Qed.
Print Assumptions C14_restart_refuted.

(* The number assigned is the one in the store key, in the stored part file and in every
   transmitted copy, first transmission and retries - in every history (no hypothesis):
   every store item's key and file number and every output's ID are (source, time, number) of
   the submitted bundle they contain. *)
Theorem C14_same_number : forall h s outs,
  ik_run ik_init h = Some (s, outs) ->
  (forall it, In it (ik_store s) ->
     ik_numbered s (it_tid it) (it_src it) (it_time it) (it_seq it) /\ it_fseq it = it_seq it)
  /\ (forall o, In o outs -> ik_numbered s (o_tid o) (o_src o) (o_time o) (o_seq o)).
Proof. exact ik_same_number. Qed.
Print Assumptions C14_same_number.

(* When every pair of submissions with equal (source, time) is spaced as in C14_distinct
   ([ik_spaced]): a bundle that was numbered is filed under its own ID by its push ... *)
Theorem C14_filed : forall h tid s outs,
  ik_run ik_init (h ++ [IkPush tid]) = Some (s, outs) -> ik_spaced h ->
  exists src t seq it,
    ik_numbered s tid src t seq /\ ik_item_of (ik_store s) src t seq = Some it
    /\ it_tid it = tid /\ it_fseq it = seq.
Proof. exact ik_filed. Qed.
Print Assumptions C14_filed.

(* ... and different bundles never share a store key, a wire ID, or a store key with a wire ID *)
Theorem C14_ids_distinct : forall h s outs,
  ik_run ik_init h = Some (s, outs) -> ik_spaced h ->
  (forall it1 it2, In it1 (ik_store s) -> In it2 (ik_store s) -> it_tid it1 <> it_tid it2 ->
     (it_src it1, it_time it1, it_seq it1) <> (it_src it2, it_time it2, it_seq it2))
  /\ (forall o1 o2, In o1 outs -> In o2 outs -> o_tid o1 <> o_tid o2 ->
     (o_src o1, o_time o1, o_seq o1) <> (o_src o2, o_time o2, o_seq o2))
  /\ (forall it o, In it (ik_store s) -> In o outs -> it_tid it <> o_tid o ->
     (it_src it, it_time it, it_seq it) <> (o_src o, o_time o, o_seq o)).
Proof. exact ik_ids_distinct. Qed.
Print Assumptions C14_ids_distinct.

(* non-vacuity: three submissions in one millisecond (one of them interleaved with another
   source's), a peer connected for the third, then a retry of the second *)
Example C14_example :
  match ik_run ik_init (ik_submit 1 5 1000000 1000000 [] ++
                        [IkAssign 2 5 1000000; IkAssign 9 6 1000000; IkClean 1000001; IkPush 9; IkPush 2] ++
                        ik_submit 3 5 1000000 1000002 [4] ++ [IkRetry 5 1000000 1 4]) with
  | Some (s, outs) =>
      (ik_seq_of s 1, ik_seq_of s 2, ik_seq_of s 3, ik_seq_of s 9) = (Some 0, Some 1, Some 2, Some 0)
      /\ map (fun o => (o_tid o, o_seq o)) outs = [(3, 2); (2, 1)]
      /\ length (ik_store s) = 4%nat
  | None => False
  end.
Proof. vm_compute. repeat split; reflexivity. Qed.

(* the cleaning window: an entry 60 s old survives, one 120 s old is dropped and its counter
   starts again *)
Example C14_example_clean :
  match ik_run ik_init [IkAssign 1 5 940000; IkAssign 2 5 880000; IkClean 1000000; IkAssign 3 5 940000; IkAssign 4 5 880000] with
  | Some (s, _) => (ik_seq_of s 1, ik_seq_of s 3, ik_seq_of s 2, ik_seq_of s 4) = (Some 0, Some 1, Some 0, Some 0)
  | None => False
  end.
Proof. vm_compute. reflexivity. Qed.

(* creation times ahead of the clock are kept (no wrap-around of now - t), the threshold is exact:
   at clock 1000000 an entry of time 913600 = now - 86400 survives, one of 913599 is dropped *)
Example C14_example_ahead :
  match ik_run ik_init [IkAssign 1 5 1000001; IkClean 1000000; IkAssign 2 5 1000001;
                        IkAssign 3 5 32536000000; IkClean 1000000; IkAssign 4 5 32536000000;
                        IkAssign 5 5 913600; IkAssign 6 5 913599; IkClean 1000000; IkAssign 7 5 913600; IkAssign 8 5 913599] with
  | Some (s, _) => (ik_seq_of s 2, ik_seq_of s 4, ik_seq_of s 7, ik_seq_of s 8) = (Some 1, Some 1, Some 1, Some 0)
  | None => False
  end.
Proof. vm_compute. reflexivity. Qed.
