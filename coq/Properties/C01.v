(* C01 - the bundle wire codec is lossless, deterministic and idempotent. *)
From DTN Require Import Base Cbor Crc Eid Bundle BundleWf BundleProofs ValidProofs ConstsOkCodec.
Open Scope N_scope.

(* Serialising any valid bundle (every field in the range its Go type holds, passing CheckValid at
   time [now]) succeeds; parsing the bytes - followed by anything - yields the same bundle, equal in
   every field of the primary block and in every canonical block's type, number, flags, CRC type
   and content, and leaves exactly what followed; hence serialising the result again yields the
   same bytes.  No bound on sizes: the CBOR width boundaries are cases of one lemma. *)
Theorem C01_roundtrip : forall now b r,
  bundle_wf b = true -> check_valid now b = true ->
  exists bs, enc_bundle b = Some bs
             /\ dec_bundle now (bs ++ r) = Some (b, r)
             /\ (forall b', dec_bundle now (bs ++ r) = Some (b', r) -> enc_bundle b' = Some bs).
Proof.
  intros now b r Hwf Hv. exists (bundle_bytes b). split; [exact (enc_bundle_ok b Hwf)|].
  split; [exact (dec_bundle_enc now b r Hwf Hv)|].
  intros b' Hb'. rewrite (dec_bundle_enc now b r Hwf Hv) in Hb'. injection Hb' as <-. exact (enc_bundle_ok b Hwf).
Qed.
Print Assumptions C01_roundtrip.

(* The entry order inside the map-valued blocks is unspecified in Go; whatever order the encoder
   picks is some duplicate-free list b', and the theorem above applies to b' itself: the decoder
   returns exactly the encoder's order. *)

(* Second sentence, conditional form (PARTIAL): a byte string the parser accepts yields a bundle
   that passes CheckValid; if its fields are in range ([bundle_wf], which the decoder establishes
   for everything it reads - that implication is validated on every accepted case of the
   correspondence run but not yet proved here) it re-serialises to bytes the parser accepts again
   as the identical bundle: same ID, same blocks and payload, payload last. *)
Theorem C01_reserialise_partial : forall now bs b rest,
  dec_bundle now bs = Some (b, rest) -> bundle_wf b = true ->
  exists bs', enc_bundle b = Some bs' /\ dec_bundle now bs' = Some (b, [])
              /\ (exists pre pl, b_blocks b = pre ++ [pl] /\ c_type pl = 1).
Proof.
  intros now bs b rest Hd Hwf. pose proof (dec_bundle_valid now bs b rest Hd) as Hv.
  exists (bundle_bytes b). split; [exact (enc_bundle_ok b Hwf)|]. split.
  - rewrite <- (app_nil_r (bundle_bytes b)). exact (dec_bundle_enc now b [] Hwf Hv).
  - destruct (wf_payload_last now b (check_valid_sound now b Hv)) as (pre & pl & H1 & H2 & _). exists pre, pl. tauto.
Qed.
Print Assumptions C01_reserialise_partial.

(* non-vacuity: a concrete bundle with CRC-32 primary, an age block (CRC-16) and a payload *)
Definition ex_bundle : bundle :=
  {| b_pri := {| p_flags := 4; p_crc := 2; p_dst := Dtn [100] [97]; p_src := Ipn 23 42; p_rpt := DtnNone;
                 p_time := 0; p_seq := 256; p_life := 65536; p_off := 0; p_total := 0 |};
     b_blocks := [ {| c_num := 2; c_flags := 0; c_crc := 1; c_val := XAge 24 |};
                   {| c_num := 1; c_flags := 0; c_crc := 0; c_val := XPayload [1; 2; 3] |} ] |}.
Example C01_example : bundle_wf ex_bundle = true /\ check_valid 1000 ex_bundle = true
  /\ dec_bundle 1000 (bundle_bytes ex_bundle) = Some (ex_bundle, []).
Proof. vm_compute. repeat split; reflexivity. Qed.
